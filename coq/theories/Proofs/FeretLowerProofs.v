(* C14 — soundness of the all-directions lower-bound certificate for the minimum Feret diameter. *)
From Coq Require Import ZArith List Bool Lia ZifyBool.
From Centro Require Import Base.Sx Spec.FeretSpec Spec.FeretLower Proofs.FeretProofs.
Import ListNotations.
Open Scope Z_scope.

(* x^2 <= y^2 with x, y >= 0 *)
Lemma sq_le_le x y : 0 <= x -> 0 <= y -> x * x <= y * y -> x <= y.
Proof. intros; nia. Qed.

(* the cross term: W <m,n> <= A B, from W|m|^2 <= A^2, W|n|^2 <= B^2 and Cauchy-Schwarz *)
Lemma cross_term wn wd A B a b c :
  0 <= wn -> 0 < wd -> 0 <= A -> 0 <= B ->
  wn * a <= A * A * wd -> wn * b <= B * B * wd -> c * c <= a * b -> 0 <= a -> 0 <= b ->
  wn * c <= A * B * wd.
Proof.
  intros Hwn Hwd HA HB Ha Hb CS Na Nb.
  assert (ABw : 0 <= A * B * wd).
  { apply Z.mul_nonneg_nonneg; [apply Z.mul_nonneg_nonneg|]; lia. }
  destruct (Z_le_gt_dec c 0) as [Cn|Cp].
  - assert (wn * c <= 0) by (apply Z.mul_nonneg_nonpos; lia). lia.
  - apply sq_le_le; [apply Z.mul_nonneg_nonneg; lia|exact ABw|].
    assert (E1 : wn * c * (wn * c) <= (wn * a) * (wn * b)).
    { replace (wn * c * (wn * c)) with (wn * wn * (c * c)) by ring.
      replace (wn * a * (wn * b)) with (wn * wn * (a * b)) by ring.
      apply Z.mul_le_mono_nonneg_l; [apply Z.mul_nonneg_nonneg; lia|exact CS]. }
    assert (E2 : (wn * a) * (wn * b) <= (A * A * wd) * (B * B * wd)).
    { apply Z.mul_le_mono_nonneg; try assumption; apply Z.mul_nonneg_nonneg; lia. }
    replace (A * B * wd * (A * B * wd)) with ((A * A * wd) * (B * B * wd)) by ring.
    lia.
Qed.

Lemma cauchy_schwarz (m n : vec) : dotv m n * dotv m n <= norm2 m * norm2 n.
Proof.
  unfold norm2, dotv. destruct m as [m1 m2], n as [n1 n2]. cbn [fst snd].
  pose proof (Z.square_nonneg (m1 * n2 - m2 * n1)) as Sq.
  assert (E : (m1 * m1 + m2 * m2) * (n1 * n1 + n2 * n2) =
              (m1 * n1 + m2 * n2) * (m1 * n1 + m2 * n2) + (m1 * n2 - m2 * n1) * (m1 * n2 - m2 * n1)) by ring.
  lia.
Qed.

Lemma norm2_nonneg m : 0 <= norm2 m.
Proof. unfold norm2, dotv. pose proof (Z.square_nonneg (fst m)). pose proof (Z.square_nonneg (snd m)). lia. Qed.

(* u in the cone of m and n (cross m n > 0): the width bound transfers from m and n to u *)
Lemma cone_bound (d m n u : vec) wn wd :
  0 <= wn -> 0 < wd -> 0 < crossv m n -> 0 <= crossv m u -> crossv n u <= 0 ->
  0 <= dotv d m -> wn * norm2 m <= dotv d m * dotv d m * wd ->
  0 <= dotv d n -> wn * norm2 n <= dotv d n * dotv d n * wd ->
  0 <= dotv d u /\ wn * norm2 u <= dotv d u * dotv d u * wd.
Proof.
  intros Hwn Hwd HD Hmu Hnu HA WA HB WB.
  set (D := crossv m n) in *. set (lam := - crossv n u). set (mu := crossv m u).
  set (A := dotv d m) in *. set (B := dotv d n) in *.
  assert (Lam : 0 <= lam) by (unfold lam; lia).
  assert (Mu : 0 <= mu) by (unfold mu; lia).
  (* D u = lam m + mu n *)
  assert (Eu1 : D * fst u = lam * fst m + mu * fst n).
  { unfold D, lam, mu, crossv. ring. }
  assert (Eu2 : D * snd u = lam * snd m + mu * snd n).
  { unfold D, lam, mu, crossv. ring. }
  assert (Ed : D * dotv d u = lam * A + mu * B).
  { unfold A, B, dotv. 
    replace (D * (fst d * fst u + snd d * snd u)) with (fst d * (D * fst u) + snd d * (D * snd u)) by ring.
    rewrite Eu1, Eu2. ring. }
  assert (En : D * D * norm2 u = lam * lam * norm2 m + 2 * (lam * mu) * dotv m n + mu * mu * norm2 n).
  { unfold norm2, dotv.
    replace (D * D * (fst u * fst u + snd u * snd u)) with ((D * fst u) * (D * fst u) + (D * snd u) * (D * snd u)) by ring.
    rewrite Eu1, Eu2. ring. }
  pose proof (cross_term wn wd A B (norm2 m) (norm2 n) (dotv m n) Hwn Hwd HA HB WA WB
                (cauchy_schwarz m n) (norm2_nonneg m) (norm2_nonneg n)) as CT.
  assert (P : 0 <= D * dotv d u) by (rewrite Ed; nia).
  split; [nia|].
  assert (Q : D * D * (wn * norm2 u) <= D * D * (dotv d u * dotv d u * wd)).
  { replace (D * D * (wn * norm2 u)) with (wn * (D * D * norm2 u)) by ring.
    replace (D * D * (dotv d u * dotv d u * wd)) with ((D * dotv d u) * (D * dotv d u) * wd) by ring.
    rewrite En, Ed.
    assert (T1 : wn * (lam * lam * norm2 m) <= lam * lam * (A * A * wd)) by nia.
    assert (T2 : wn * (mu * mu * norm2 n) <= mu * mu * (B * B * wd)) by nia.
    assert (T3 : wn * (2 * (lam * mu) * dotv m n) <= 2 * (lam * mu) * (A * B * wd)).
    { assert (0 <= lam * mu) by nia. nia. }
    nia. }
  assert (0 < D * D) by nia. nia.
Qed.

(* a strip is at least as wide as any pair of its points demands *)
Lemma strip_pair S u lo hi p q : Strip S u lo hi -> In p S -> In q S -> dotv (subv p q) u <= hi - lo.
Proof.
  intros St Ip Iq. pose proof (St p Ip). pose proof (St q Iq).
  unfold dotv, subv. cbn [fst snd]. lia.
Qed.

Lemma cone_ok_bound S wn wd c c' u lo hi :
  0 <= wn -> 0 < wd -> cone_ok S wn wd c c' = true ->
  0 <= crossv (c_m c) u -> crossv (c_m c') u <= 0 -> Strip S u lo hi ->
  wn * norm2 u <= (hi - lo) * (hi - lo) * wd.
Proof.
  intros Hwn Hwd K G1 G2 St. unfold cone_ok in K.
  apply andb_true_iff in K. destruct K as [K W2].
  apply andb_true_iff in K. destruct K as [K W1].
  apply andb_true_iff in K. destruct K as [K Cr].
  apply andb_true_iff in K. destruct K as [Mp Mq].
  unfold wide_enough in W1, W2.
  apply andb_true_iff in W1. destruct W1 as [A1 A2]. apply andb_true_iff in W2. destruct W2 as [B1 B2].
  destruct (cone_bound (c_d c) (c_m c) (c_m c') u wn wd Hwn Hwd) as [P Q]; try lia.
  pose proof (strip_pair S u lo hi _ _ St (mem_pt_In _ _ Mp) (mem_pt_In _ _ Mq)) as SP.
  fold (c_d c) in SP.
  assert (dotv (c_d c) u * dotv (c_d c) u <= (hi - lo) * (hi - lo)) by nia.
  nia.
Qed.

(* discrete intermediate value: after an element with g >= 0 comes one with g <= 0, so some
   consecutive pair descends *)
Section Descent.
  Variable A : Type.
  Variable g : A -> Z.
  Lemma descent_head : forall post a, 0 <= g a -> (exists b, In b post /\ g b <= 0) ->
    exists x y : A, In (x, y) (@consec A (a :: post)) /\ 0 <= g x /\ g y <= 0.
  Proof.
    induction post as [|b rest IH]; intros a Ha [z [Iz Gz]]; [destruct Iz|].
    destruct (Z_le_gt_dec (g b) 0) as [Le|Gt].
    - exists a, b. split; [left; reflexivity|]. split; assumption.
    - destruct Iz as [E|Iz]; [subst; lia|].
      destruct (IH b ltac:(lia) (ex_intro _ z (conj Iz Gz))) as [x [y [I [Gx Gy]]]].
      exists x, y. split; [right; exact I|]. split; assumption.
  Qed.
  Lemma consec_suffix : forall pre l p, In p (@consec A l) -> In p (@consec A (pre ++ l)).
  Proof.
    induction pre as [|a pre IH]; intros l p I; [exact I|].
    cbn [app]. specialize (IH l p I). cbn [consec].
    destruct (pre ++ l) as [|b r] eqn:E; [destruct IH|]. right. exact IH.
  Qed.
  Lemma descent : forall pre a post, 0 <= g a -> (exists b, In b post /\ g b <= 0) ->
    exists x y : A, In (x, y) (@consec A (pre ++ a :: post)) /\ 0 <= g x /\ g y <= 0.
  Proof.
    intros pre a post Ha Ex. destruct (descent_head post a Ha Ex) as [x [y [I G]]].
    exists x, y. split; [apply consec_suffix; exact I|exact G].
  Qed.
End Descent.

Theorem feret_lower_sound S l wn wd :
  feret_lower_ok S l wn wd = true ->
  forall u lo hi, Strip S u lo hi -> lo <= hi -> wn * norm2 u <= (hi - lo) * (hi - lo) * wd.
Proof.
  unfold feret_lower_ok. intros K u lo hi St LH.
  apply andb_true_iff in K. destruct K as [K Body].
  apply andb_true_iff in K. destruct K as [Hwd Hwn].
  assert (Wd : 0 < wd) by lia. assert (Wn : 0 <= wn) by lia.
  apply orb_true_iff in Body. destruct Body as [Z0|Body].
  - assert (wn = 0) by lia. subst wn. pose proof (Z.square_nonneg (hi - lo)) as Sq.
    assert (0 <= (hi - lo) * (hi - lo) * wd) by (apply Z.mul_nonneg_nonneg; lia). lia.
  - destruct l as [|c0 t]; [discriminate|].
    apply andb_true_iff in Body. destruct Body as [All Neg].
    rewrite forallb_forall in All.
    apply existsb_exists in Neg. destruct Neg as [cn [In_n En]].
    set (g := fun c : ccert => crossv (c_m c) u).
    assert (Gn : g cn = - g c0).
    { unfold g, crossv. assert (fst (c_m cn) = - fst (c_m c0)) by lia.
      assert (snd (c_m cn) = - snd (c_m c0)) by lia. nia. }
    assert (Ex : exists x y, In (x, y) (consec ((c0 :: t) ++ [c0])) /\ 0 <= g x /\ g y <= 0).
    { destruct (Z_le_gt_dec 0 (g c0)) as [P|N].
      - (* start at c0; a non-positive element follows: cn if it is in t, else the closing c0 *)
        apply (descent _ g [] c0 (t ++ [c0]) P).
        destruct In_n as [E|It].
        + subst cn. exists c0. split; [apply in_or_app; right; left; reflexivity|lia].
        + exists cn. split; [apply in_or_app; left; exact It|lia].
      - (* g c0 < 0: cn has g > 0 and lies in t; the closing c0 follows it *)
        destruct In_n as [E|It]; [subst cn; lia|].
        apply in_split in It. destruct It as [t1 [t2 Et]]. subst t.
        replace ((c0 :: t1 ++ cn :: t2) ++ [c0]) with ((c0 :: t1) ++ cn :: (t2 ++ [c0])).
        2:{ cbn [app]. rewrite <- app_assoc. reflexivity. }
        apply (descent _ g (c0 :: t1) cn (t2 ++ [c0])); [lia|].
        exists c0. split; [apply in_or_app; right; left; reflexivity|lia]. }
    destruct Ex as [x [y [I [Gx Gy]]]].
    specialize (All (x, y) I). cbn [fst snd] in All.
    eapply cone_ok_bound; eassumption.
Qed.

(* satisfiable on a non-trivial input: the right triangle (0,0),(0,2),(2,0) with its interior
   lattice points; W = 2 (distance from (0,0) to the hypotenuse = sqrt 2); six critical directions *)
Example feret_lower_example :
  feret_lower_ok [(0,0); (0,1); (0,2); (1,0); (1,1); (2,0)]
    [ ((1,0),   ((2,0), (0,0)));
      ((1,1),   ((0,2), (0,0)));
      ((0,1),   ((0,2), (2,0)));
      ((-1,0),  ((0,0), (2,0)));
      ((-1,-1), ((0,0), (0,2)));
      ((0,-1),  ((2,0), (0,2))) ] 2 1 = true.
Proof. vm_compute. reflexivity. Qed.
