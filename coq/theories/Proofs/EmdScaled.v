(* C10 — the certificate also excludes cheaper FRACTIONAL flows.  A rational flow with common
   denominator D > 0 is an integral flow g of the instance scaled by D; the accepted distance,
   scaled by D, is a lower bound for every such g.  (The property text minimises over all
   non-negative flows; integrality of the optimum is a consequence, not an assumption.) *)
From Coq Require Import ZArith List Bool Lia ZifyBool.
From Centro Require Import Base.Sx Base.EmdBase Spec.Emd Proofs.EmdDuality.
Import ListNotations.
Open Scope Z_scope.

Lemma dual_value_scale n m P Q T al be ga D :
  dual_value n m (fun i => D * P i) (fun j => D * Q j) (D * T) al be ga
  = D * dual_value n m P Q T al be ga.
Proof.
  unfold dual_value.
  rewrite (zsum_map_ext (fun i => al i * (D * P i)) (fun i => D * (al i * P i))) by (intros; lia).
  rewrite (zsum_map_ext (fun j => be j * (D * Q j)) (fun j => D * (be j * Q j))) by (intros; lia).
  rewrite !zsum_map_scale. lia.
Qed.

Theorem emd_cert_sound_fractional P Q C pen d F al be ga :
  emd_cert_ok P Q C pen d F al be ga = true ->
  forall D g, 0 < D ->
    feasible (length P) (length Q) (fun i => D * nz P i) (fun j => D * nz Q j) (D * emd_T P Q) g ->
    D * (d - pen * emd_extra P Q) <= cost (length P) (length Q) (mz C) g.
Proof.
  unfold emd_cert_ok. intros H D g HD Hg.
  apply andb_prop in H; destruct H as [H He]. apply andb_prop in H; destruct H as [Hf Hd].
  apply flow_ok_sound in Hf. destruct Hf as [Hf Hc]. apply dual_ok_sound in Hd.
  pose proof (weak_duality _ _ _ _ _ _ _ _ _ g Hg Hd) as W.
  rewrite dual_value_scale in W.
  assert (E : cost (length P) (length Q) (mz C) (mz F) =
              dual_value (length P) (length Q) (nz P) (nz Q) (emd_T P Q) (nz al) (nz be) ga) by lia.
  replace (d - pen * emd_extra P Q) with (cost (length P) (length Q) (mz C) (mz F)) by lia.
  rewrite E. exact W.
Qed.

(* hypotheses are satisfiable on a non-trivial instance: 2x3, unequal mass, explicit penalty *)
Example cert_example :
  emd_cert_ok [3; 2] [1; 1; 2] [[0; 1; 2]; [1; 0; 1]] 5 8 [[1; 0; 1]; [0; 1; 1]] [0; 1] [2; 1; 0] 2 = true.
Proof. vm_compute. reflexivity. Qed.

(* the hypotheses of weak duality / of the certificate theorem are satisfiable (same instance) *)
Example weak_duality_hyps_example :
  feasible 2 3 (nz [3; 2]) (nz [1; 1; 2]) 4 (mz [[1; 0; 1]; [0; 1; 1]]) /\
  dual_feasible 2 3 (mz [[0; 1; 2]; [1; 0; 1]]) (nz [0; 1]) (nz [2; 1; 0]) 2.
Proof.
  split.
  - apply (flow_ok_sound [3; 2] [1; 1; 2] [[0; 1; 2]; [1; 0; 1]] 5 8 [[1; 0; 1]; [0; 1; 1]]). vm_compute. reflexivity.
  - apply (dual_ok_sound [3; 2] [1; 1; 2] [[0; 1; 2]; [1; 0; 1]] [0; 1] [2; 1; 0] 2). vm_compute. reflexivity.
Qed.

(* padding: the wrapper's resize of a 2x3 problem to 3x3 (added row of zeros) satisfies the
   agreement hypothesis of padding_invariant *)
Example padding_hyp_example :
  forall i j, (i < length [3; 2])%nat -> (j < length [1; 1; 2])%nat ->
    mz ([[0; 1; 2]; [1; 0; 1]] ++ [[0; 0; 0]]) i j = mz [[0; 1; 2]; [1; 0; 1]] i j.
Proof.
  intros i j Hi Hj. cbn [length] in *.
  destruct i as [|[|i]]; [| |lia]; destruct j as [|[|[|j]]]; try lia; reflexivity.
Qed.
