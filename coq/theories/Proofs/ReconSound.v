(* C04 — spec-level proofs: soundness of the certificate checker, uniqueness, idempotence,
   "closed = unchanged by the step", and correctness of iterate-until-stable. *)
From Coq Require Import ZArith List Bool Lia ZifyBool.
From Centro Require Import Base.Sx Model.Recon Spec.ReconSpec.
Import ListNotations.
Open Scope Z_scope.

Section Abstract.
Variable V : Type.
Variable D : V -> Prop.
Variable preds : V -> list V.
Variables seed mask : V -> Z.
Hypothesis preds_in : forall p q, D p -> In q (preds p) -> D q.

Notation between := (between V D seed mask).
Notation closed := (closed V D preds mask).
Notation post_fixed := (post_fixed V D preds seed mask).
Notation IsRecon := (IsRecon V D preds seed mask).
Notation justified := (justified V D preds seed).
Notation stepf := (stepf V preds mask).

Theorem recon_sound_abs R lvl : between R -> closed R -> justified R lvl -> IsRecon R.
Proof.
  intros HB HC HJ. split; [exact HB|]. split; [exact HC|].
  intros R' [Hs Hc].
  assert (G : forall n p, D p -> (lvl p < n)%nat -> R p <= R' p).
  { induction n as [|n IH]; intros p Dp Hp; [lia|].
    destruct (HJ p Dp) as [E|[q [Hq [Hl H1]]]].
    - rewrite E. apply Hs; exact Dp.
    - assert (Dq : D q) by (eapply preds_in; eauto).
      assert (Rq : R q <= R' q) by (apply IH; [exact Dq|lia]).
      specialize (Hc p q Dp Hq). specialize (HB p Dp). lia. }
  intros p Dp. apply (G (S (lvl p))); [exact Dp|lia].
Qed.

Lemma recon_unique R1 R2 : IsRecon R1 -> IsRecon R2 -> forall p, D p -> R1 p = R2 p.
Proof.
  intros [B1 [C1 L1]] [B2 [C2 L2]] p Dp.
  assert (R1 p <= R2 p) by (apply L1; [split; [intros; apply B2; assumption|exact C2]|exact Dp]).
  assert (R2 p <= R1 p) by (apply L2; [split; [intros; apply B1; assumption|exact C1]|exact Dp]).
  lia.
Qed.

Lemma fold_max_ge (R : V -> Z) x l : x <= fold_right Z.max x (map R l).
Proof. induction l as [|a l IH]; cbn [map fold_right]; lia. Qed.

Lemma fold_max_in (R : V -> Z) x l q : In q l -> R q <= fold_right Z.max x (map R l).
Proof. induction l as [|a l IH]; cbn [map fold_right In]; [tauto|]. intros [->|Hq]; [lia|]. specialize (IH Hq). lia. Qed.

Lemma fold_max_le (R : V -> Z) m b x l :
  Z.min m x <= b -> (forall q, In q l -> Z.min m (R q) <= b) ->
  Z.min m (fold_right Z.max x (map R l)) <= b.
Proof.
  intros Hx. induction l as [|a l IH]; cbn [map fold_right]; intros Hl; [exact Hx|].
  assert (Ha := Hl a (or_introl eq_refl)).
  assert (IH' : Z.min m (fold_right Z.max x (map R l)) <= b) by (apply IH; intros q Hq; apply Hl; right; exact Hq).
  lia.
Qed.

(* for R between seed and mask: "no predecessor can raise p" = "the step leaves R unchanged" *)
Lemma closed_iff_step_fixed R : between R -> (closed R <-> step_fixed V D preds mask R).
Proof.
  intros HB. split.
  - intros HC p Dp. unfold ReconSpec.stepf.
    assert (L : Z.min (mask p) (fold_right Z.max (R p) (map R (preds p))) <= R p).
    { apply fold_max_le; [lia|]. intros q Hq. apply HC; assumption. }
    assert (G := fold_max_ge R (R p) (preds p)). specialize (HB p Dp). lia.
  - intros HF p q Dp Hq. specialize (HF p Dp). unfold ReconSpec.stepf in HF.
    assert (G := fold_max_in R (R p) (preds p) q Hq). lia.
Qed.

Lemma step_between R : between R -> forall p, D p -> R p <= stepf R p <= mask p.
Proof.
  intros HB p Dp. unfold ReconSpec.stepf. assert (G := fold_max_ge R (R p) (preds p)).
  specialize (HB p Dp). lia.
Qed.

Lemma step_below R R' : post_fixed R' -> (forall p, D p -> R p <= R' p) ->
  forall p, D p -> stepf R p <= R' p.
Proof.
  intros [Hs Hc] HL p Dp. unfold ReconSpec.stepf. apply fold_max_le.
  - specialize (HL p Dp). lia.
  - intros q Hq. assert (Dq : D q) by (eapply preds_in; eauto).
    specialize (HL q Dq). specialize (Hc p q Dp Hq). lia.
Qed.
End Abstract.

Theorem recon_idempotent V D preds seed mask R :
  IsRecon V D preds seed mask R -> IsRecon V D preds R mask R.
Proof.
  intros [B [C L]]. split; [intros p Dp; specialize (B p Dp); lia|]. split; [exact C|].
  intros R' [Hs Hc] p Dp. apply Hs; exact Dp.
Qed.

(* ------------------------------------------------------------------ grids *)
Lemma in_zseq x n s : In x (zseq s n) <-> s <= x < s + Z.of_nat n.
Proof.
  revert s; induction n as [|n IH]; intros s; cbn [zseq In]; [lia|].
  rewrite IH. lia.
Qed.

Lemma in_zrange x n : In x (zrange n) <-> 0 <= x < n.
Proof. unfold zrange. rewrite in_zseq. lia. Qed.

Lemma in_dom H W p : In p (dom H W) <-> inD H W p = true.
Proof.
  destruct p as [r c]. unfold dom, inD; cbn [fst snd]. rewrite in_flat_map. split.
  - intros [r' [Hr Hc]]. apply in_map_iff in Hc. destruct Hc as [c' [E Hc]].
    inversion E; subst. apply in_zrange in Hr, Hc. lia.
  - intros Hb. exists r. split; [apply in_zrange; lia|]. apply in_map_iff. exists c.
    split; [reflexivity|apply in_zrange; lia].
Qed.

Lemma gpreds_in H W offs p q : In q (gpreds H W offs p) -> inD H W q = true.
Proof. unfold gpreds. intros Hq. apply filter_In in Hq. tauto. Qed.

Theorem recon_check_offs_sound seed mask offs R lvl :
  recon_check_offs seed mask offs R lvl = true -> GridReconOffs seed mask offs R.
Proof.
  unfold recon_check_offs, GridReconOffs. set (H := zlen seed). set (W := width seed).
  intros HC.
  repeat (apply andb_prop in HC; destruct HC as [HC ?]).
  match goal with HF : forallb _ _ = true |- _ => rename HF into Hall end.
  rewrite forallb_forall in Hall.
  assert (P : forall p, inD H W p = true -> check_pt H W offs seed mask R lvl p = true)
    by (intros p Dp; apply Hall; apply in_dom; exact Dp).
  apply recon_sound_abs with (lvl := fun p => Z.to_nat (gval lvl p)).
  - intros p q _ Hq. eapply gpreds_in; exact Hq.
  - intros p Dp. specialize (P p Dp). unfold check_pt in P.
    repeat (apply andb_prop in P; destruct P as [P ?]). lia.
  - intros p q Dp Hq. specialize (P p Dp). unfold check_pt in P.
    repeat (apply andb_prop in P; destruct P as [P ?]).
    match goal with HF : forallb _ _ = true |- _ => rewrite forallb_forall in HF; specialize (HF q Hq) end.
    lia.
  - intros p Dp. specialize (P p Dp). unfold check_pt in P.
    apply andb_prop in P. destruct P as [_ P]. apply orb_prop in P. destruct P as [P|P].
    + left. lia.
    + right. apply existsb_exists in P. destruct P as [q [Hq P]]. exists q. split; [exact Hq|]. lia.
Qed.

Theorem recon_check_sound seed mask fp R lvl :
  recon_check seed mask fp R lvl = true -> GridRecon seed mask fp R.
Proof. apply recon_check_offs_sound. Qed.

(* shape facts the checker also establishes *)
Lemma recon_check_shape seed mask offs R lvl :
  recon_check_offs seed mask offs R lvl = true ->
  zlen R = zlen seed /\ rect R (width seed) = true /\ 1 <= zlen seed /\ 1 <= width seed.
Proof.
  unfold recon_check_offs, shape_ok. intros HC.
  repeat (apply andb_prop in HC; destruct HC as [HC ?]). repeat split; try lia; assumption.
Qed.

(* ------------------------------------------------------------------ iterate until stable *)
Lemma nth_zseq k n s d : (k < n)%nat -> nth k (zseq s n) d = s + Z.of_nat k.
Proof.
  revert k s; induction n as [|n IH]; intros k s Hk; [lia|].
  destruct k as [|k]; cbn [zseq nth]; [lia|]. rewrite IH by lia. lia.
Qed.

Lemma length_zseq n s : length (zseq s n) = n.
Proof. revert s; induction n as [|n IH]; intros s; cbn [zseq length]; [reflexivity|]. rewrite IH. reflexivity. Qed.

Lemma nth_map_zrange {A} (g : Z -> A) n k d : 0 <= k < n -> nth (Z.to_nat k) (map g (zrange n)) d = g k.
Proof.
  intros Hk. rewrite nth_indep with (d' := g 0)
    by (rewrite map_length; unfold zrange; rewrite length_zseq; lia).
  rewrite map_nth. unfold zrange. rewrite nth_zseq by lia. f_equal. lia.
Qed.

Lemma gval_tab H W f p : inD H W p = true -> gval (tab H W f) p = f p.
Proof.
  destruct p as [r c]. unfold inD, gval, img_get, tab; cbn [fst snd]. intros Hb.
  destruct ((r <? 0) || (c <? 0)) eqn:E; [lia|].
  rewrite nth_map_zrange by lia. rewrite nth_map_zrange by lia. reflexivity.
Qed.

Lemma row_eqb_eq a b : row_eqb a b = true -> a = b.
Proof.
  unfold row_eqb, zlen. revert b; induction a as [|x a IH]; intros [|y b]; cbn [length combine forallb fst snd];
    intros Hb; try reflexivity; try lia.
  f_equal; [lia|]. apply IH. lia.
Qed.

Lemma grid_eqb_eq a b : grid_eqb a b = true -> a = b.
Proof.
  unfold grid_eqb, zlen. revert b; induction a as [|x a IH]; intros [|y b]; cbn [length combine forallb fst snd];
    intros Hb; try reflexivity; try lia.
  apply andb_prop in Hb. destruct Hb as [Hl Hb]. apply andb_prop in Hb. destruct Hb as [Hr Hb].
  f_equal; [apply row_eqb_eq; exact Hr|]. apply IH. lia.
Qed.

Lemma iter_fix_sound fuel H W offs seed mask R0 R :
  (forall p, inD H W p = true -> gval seed p <= gval mask p) ->
  (forall p, inD H W p = true -> gval seed p <= gval R0 p <= gval mask p) ->
  (forall R', post_fixed pt (fun p => inD H W p = true) (gpreds H W offs) (gval seed) (gval mask) R' ->
              forall p, inD H W p = true -> gval R0 p <= R' p) ->
  iter_fix fuel H W offs mask R0 = Some R ->
  IsRecon pt (fun p => inD H W p = true) (gpreds H W offs) (gval seed) (gval mask) (gval R).
Proof.
  intros Hsm. revert R0. induction fuel as [|f IH]; intros R0 HB HL; cbn [iter_fix]; [discriminate|].
  set (R1 := step_grid H W offs mask R0).
  assert (PI : forall p q, inD H W p = true -> In q (gpreds H W offs p) -> inD H W q = true)
    by (intros p q _ Hq; eapply gpreds_in; exact Hq).
  assert (G1 : forall p, inD H W p = true ->
               gval R1 p = stepf pt (gpreds H W offs) (gval mask) (gval R0) p)
    by (intros p Dp; unfold R1, step_grid; apply gval_tab; exact Dp).
  destruct (grid_eqb R1 R0) eqn:E.
  - intros HS. inversion HS; subst R. apply grid_eqb_eq in E.
    split; [exact HB|]. split; [|exact HL].
    apply (closed_iff_step_fixed pt (fun p => inD H W p = true) (gpreds H W offs) (gval seed) (gval mask)
             (gval R0) HB).
    intros p Dp. rewrite <- (G1 p Dp). rewrite E. reflexivity.
  - apply IH.
    + intros p Dp. rewrite (G1 p Dp).
      assert (S := step_between pt (fun p => inD H W p = true) (gpreds H W offs) (gval seed) (gval mask)
                     (gval R0) HB p Dp).
      specialize (HB p Dp). lia.
    + intros R' HP p Dp. rewrite (G1 p Dp).
      apply (step_below pt (fun p => inD H W p = true) (gpreds H W offs) (gval seed) (gval mask) PI
               (gval R0) R' HP); [intros p' Dp'; apply HL; assumption|exact Dp].
Qed.

Theorem recon_iter_offs_sound fuel seed mask offs R :
  recon_iter_offs fuel seed mask offs = Some R -> GridReconOffs seed mask offs R.
Proof.
  unfold recon_iter_offs, GridReconOffs. set (H := zlen seed). set (W := width seed).
  destruct (shape_ok H W seed && shape_ok H W mask &&
            forallb (fun p => gval seed p <=? gval mask p) (dom H W)) eqn:E; [|discriminate].
  apply andb_prop in E. destruct E as [_ E]. rewrite forallb_forall in E.
  assert (Hsm : forall p, inD H W p = true -> gval seed p <= gval mask p)
    by (intros p Dp; apply in_dom in Dp; specialize (E p Dp); lia).
  intros HI. eapply iter_fix_sound; [exact Hsm| | |exact HI].
  - intros p Dp. rewrite gval_tab by exact Dp. specialize (Hsm p Dp). lia.
  - intros R' [Hs _] p Dp. rewrite gval_tab by exact Dp. apply Hs; exact Dp.
Qed.

Theorem recon_iter_sound fuel seed mask fp R :
  recon_iter fuel seed mask fp = Some R -> GridRecon seed mask fp R.
Proof. apply recon_iter_offs_sound. Qed.

(* ------------------------------------------------------------------ the hypotheses are satisfiable *)
Definition ex_seed := [[0; 0; 5]; [0; 0; 0]].
Definition ex_mask := [[3; 4; 5]; [2; 1; 7]].
Definition ex_fp := [[true; true; true]; [true; true; true]; [true; true; true]].
Definition ex_R := [[3; 4; 5]; [2; 1; 5]].
Definition ex_lvl := [[2; 1; 0]; [2; 2; 1]].
Example recon_check_example : recon_check ex_seed ex_mask ex_fp ex_R ex_lvl = true.
Proof. vm_compute. reflexivity. Qed.
Example recon_iter_example : recon_iter 8 ex_seed ex_mask ex_fp = Some ex_R.
Proof. vm_compute. reflexivity. Qed.
(* an asymmetric footprint: only the offset (0,+1) (value flows to the right) *)
Definition ex_fp_right := [[false; false; false]; [false; false; true]; [false; false; false]].
Example recon_iter_example_asym :
  recon_iter 8 [[0; 9; 0]] [[7; 9; 4]] ex_fp_right = Some [[0; 9; 4]].
Proof. vm_compute. reflexivity. Qed.
Example model_example :
  grey_reconstruction ex_seed ex_mask ex_fp = Ok (ex_R, 0) /\
  grey_reconstruction [[0; 9; 0]] [[7; 9; 4]] ex_fp_right = Ok ([[0; 9; 4]], 0).
Proof. vm_compute. split; reflexivity. Qed.

(* ------------------------------------------------------------------ idempotence, on grids *)
Lemma rect_width {A} (g : list (list A)) w : 1 <= zlen g -> rect g w = true -> width g = w.
Proof.
  unfold rect, width, zlen. destruct g as [|row g]; cbn [length hd forallb]; intros Hl Hr; [lia|].
  apply andb_prop in Hr. destruct Hr as [Hr _]. unfold zlen in Hr. lia.
Qed.

(* any output accepted by the checker is its own reconstruction under the same mask, and every
   reconstruction of it equals it: "applying it again to its own output changes nothing" *)
Theorem recon_check_offs_idempotent seed mask offs R lvl :
  recon_check_offs seed mask offs R lvl = true ->
  GridReconOffs R mask offs R /\
  forall R2, GridReconOffs R mask offs R2 ->
    forall p, inD (zlen seed) (width seed) p = true -> gval R2 p = gval R p.
Proof.
  intros HC. assert (HS := recon_check_shape _ _ _ _ _ HC). destruct HS as (EL & ER & H1 & W1).
  assert (EW : width R = width seed) by (apply rect_width; [lia|exact ER]).
  assert (G := recon_check_offs_sound _ _ _ _ _ HC). unfold GridReconOffs in *. rewrite EL, EW.
  assert (I := recon_idempotent _ _ _ _ _ _ G). split; [exact I|].
  intros R2 G2 p Dp.
  apply (recon_unique pt (fun p => inD (zlen seed) (width seed) p = true)
           (gpreds (zlen seed) (width seed) offs) (gval R) (gval mask) (gval R2) (gval R) G2 I p Dp).
Qed.

Theorem recon_check_idempotent seed mask fp R lvl :
  recon_check seed mask fp R lvl = true ->
  GridRecon R mask fp R /\
  forall R2, GridRecon R mask fp R2 ->
    forall p, inD (zlen seed) (width seed) p = true -> gval R2 p = gval R p.
Proof. apply recon_check_offs_idempotent. Qed.
