(* C04 — the bridge from flat/rank space to the grid specification, and the final theorem: for
   every accepted input the model returns THE reconstruction by dilation. *)
From Coq Require Import ZArith List Bool Lia ZifyBool Permutation Sorted.
From Centro Require Import Base.Sx Base.ReconSort Model.VecC18 Model.RankC18 Spec.SpecC18 Proofs.RankC18Proofs.
From Centro Require Import Model.Recon Spec.ReconSpec Spec.ReconInv Proofs.ReconSound Proofs.ReconLoop
  Proofs.ReconPrep Proofs.ReconOrder Proofs.ReconSetupOrd.
Import ListNotations.
Open Scope Z_scope.

(* ------------------------------------------------------------------ gather *)
Lemma map_res_spec {A B} (f : A -> res B) l : forall bs, map_res f l = Ok bs ->
  length bs = length l /\ forall k d d', (k < length l)%nat -> f (nth k l d) = Ok (nth k bs d').
Proof.
  induction l as [|a l IH]; intros bs E; cbn [map_res] in E.
  - inversion E. split; [reflexivity|]. intros k d d' Hk. cbn in Hk. lia.
  - destruct (f a) as [b| | |] eqn:Ea; cbn [bind] in E; try discriminate.
    destruct (map_res f l) as [bs'| | |] eqn:El; cbn [bind] in E; try discriminate.
    inversion E; subst bs. destruct (IH bs' eq_refl) as [Len Nth].
    split; [cbn [length]; congruence|]. intros k d d' Hk. destruct k as [|k]; cbn [nth].
    + exact Ea.
    + apply Nth. cbn [length] in Hk. lia.
Qed.

Lemma rd_val a i v : rd a i = Ok v -> v = sel a i.
Proof. unfold rd, sel. destruct (get a i); intros E; inversion E; reflexivity. Qed.

Lemma finish_spec p s out : 0 <= p_H p -> 0 <= p_W p -> finish p s = Ok out ->
  zlen out = p_H p /\ rect out (p_W p) = true /\
  forall r c, 0 <= r < p_H p -> 0 <= c < p_W p ->
    img_get out r c = sel (p_vmap p) (sel (vals s) ((r + p_p0 p) * p_PW p + (c + p_p1 p))).
Proof.
  intros HH HW E. unfold finish in E.
  destruct (map_res_spec _ _ out E) as [Len Nth].
  assert (LH : length (zrange (p_H p)) = Z.to_nat (p_H p)) by (unfold zrange; apply length_zseq).
  assert (LW : length (zrange (p_W p)) = Z.to_nat (p_W p)) by (unfold zrange; apply length_zseq).
  assert (Row : forall r, 0 <= r < p_H p ->
     map_res (fun c => do k <- rd (vals s) ((r + p_p0 p) * p_PW p + (c + p_p1 p)); rd (p_vmap p) k)
             (zrange (p_W p)) = Ok (nth (Z.to_nat r) out [])).
  { intros r Hr. specialize (Nth (Z.to_nat r) 0 [] ltac:(lia)).
    unfold zrange in Nth at 1. rewrite nth_zseq in Nth by lia. replace (0 + Z.of_nat (Z.to_nat r)) with r in Nth by lia.
    exact Nth. }
  split; [unfold zlen; lia|]. split.
  - unfold rect. apply forallb_forall. intros row Hin. destruct (In_nth _ _ [] Hin) as (k & Hk & <-).
    destruct (map_res_spec _ _ _ (Row (Z.of_nat k) ltac:(lia))) as [L2 _]. rewrite Nat2Z.id in L2. unfold zlen. lia.
  - intros r c Hr Hc. destruct (map_res_spec _ _ _ (Row r Hr)) as [L2 N2].
    specialize (N2 (Z.to_nat c) 0 0 ltac:(lia)). unfold zrange in N2 at 1. rewrite nth_zseq in N2 by lia.
    replace (0 + Z.of_nat (Z.to_nat c)) with c in N2 by lia.
    destruct (rd (vals s) ((r + p_p0 p) * p_PW p + (c + p_p1 p))) as [k| | |] eqn:Ek; cbn [bind] in N2; try discriminate.
    apply rd_val in Ek. apply rd_val in N2. subst k.
    unfold img_get. destruct ((r <? 0) || (c <? 0)) eqn:B; [lia|]. exact N2.
Qed.

(* ------------------------------------------------------------------ flat indices *)
Lemma flat_facts g r c : geom_ok g -> 0 <= r < gH g -> 0 <= c < gW g ->
  let i := (r + gp0 g) * gPW g + (c + gp1 g) in
  0 <= i < gS g /\ interior_b g i = true /\ i / gPW g - gp0 g = r /\ i mod gPW g - gp1 g = c.
Proof.
  intros (HH & HW & H0 & H1) Hr Hc i. unfold gS, gPH. set (PW := gPW g) in *.
  assert (HPW : PW = gW g + 2 * gp1 g) by reflexivity.
  assert (Dq : i / PW = r + gp0 g) by (symmetry; apply Z.div_unique with (r := c + gp1 g); unfold i; lia).
  assert (Dm : i mod PW = c + gp1 g) by (symmetry; apply Z.mod_unique with (q := r + gp0 g); unfold i; lia).
  split.
  - unfold i. split; [nia|].
    assert ((r + gp0 g + 1) * PW <= (gH g + 2 * gp0 g) * PW) by (apply Z.mul_le_mono_nonneg_r; lia). lia.
  - unfold interior_b. fold PW. rewrite Dq, Dm. split; [lia|]. split; lia.
Qed.

Lemma unflat_flat g i : geom_ok g -> interior_b g i = true ->
  i = (i / gPW g - gp0 g + gp0 g) * gPW g + (i mod gPW g - gp1 g + gp1 g).
Proof.
  intros (HH & HW & H0 & H1) _. assert (0 < gPW g) by (unfold gPW; lia).
  assert (E := Z.div_mod i (gPW g) ltac:(lia)). lia.
Qed.

(* ------------------------------------------------------------------ the cells of the padded list *)
Lemma prep_values_cells image mask fp :
  1 <= zlen image -> 1 <= width image -> 1 <= zlen fp / 2 -> 1 <= width fp / 2 ->
  let g := mkgeom (zlen image) (width image) (zlen fp / 2) (width fp / 2) in
  let values := prep_values image mask fp in
  zlen values = 2 * gS g /\
  forall i, 0 <= i < gS g ->
    nth (Z.to_nat i) values 0 =
      (if interior_b g i then img_get image (i / gPW g - gp0 g) (i mod gPW g - gp1 g) else img_min image) /\
    nth (Z.to_nat (i + gS g)) values 0 =
      (if interior_b g i then img_get mask (i / gPW g - gp0 g) (i mod gPW g - gp1 g) else img_min image).
Proof.
  intros HH HW P0 P1 g values.
  set (H := zlen image) in *. set (W := width image) in *.
  set (p0 := zlen fp / 2) in *. set (p1 := width fp / 2) in *. set (mn := img_min image).
  set (A := padded_plane H W p0 p1 mn image). set (B := padded_plane H W p0 p1 mn mask).
  assert (LA : zlen A = gS g) by (unfold A; rewrite padded_plane_length by lia; reflexivity).
  assert (LB : zlen B = gS g) by (unfold B; rewrite padded_plane_length by lia; reflexivity).
  assert (EV : values = A ++ B) by reflexivity.
  split.
  - rewrite EV. unfold zlen in *. rewrite app_length. lia.
  - intros i Hi. rewrite EV. split.
    + rewrite app_nth1 by (unfold zlen in LA; lia).
      exact (nth_padded_plane H W p0 p1 mn image i HH HW ltac:(lia) ltac:(lia) Hi).
    + rewrite app_nth2 by (unfold zlen in LA; lia).
      replace (Z.to_nat (i + gS g) - length A)%nat with (Z.to_nat i) by (unfold zlen in LA; lia).
      exact (nth_padded_plane H W p0 p1 mn mask i HH HW ltac:(lia) ltac:(lia) Hi).
Qed.

(* value_map decodes ranks monotonically and inverts the initial ranks *)
Section Dec.
Variable values : list Z.
Hypothesis NE : values <> [].
Let r := fst (RankC18.rank_order values).
Let v := snd (RankC18.rank_order values).
Let dec (k : Z) := sel (of_list v) k.

Lemma dec_mono : mono_on (zlen v) dec.
Proof.
  intros a b Ha Hab Hb. unfold dec. rewrite !sel_of_list by lia.
  destruct (Z.eq_dec a b) as [->|N]; [lia|].
  destruct (rank_spec values NE) as (_ & SS & _). fold v in SS.
  assert (Q := ss_lt_nth v SS (Z.to_nat a) (Z.to_nat b) ltac:(unfold zlen in Hb; lia)). lia.
Qed.

Lemma dec_rank i : 0 <= i < zlen values ->
  dec (sel (of_list (map Z.of_nat r)) i) = nth (Z.to_nat i) values 0.
Proof.
  intros Hi. unfold r. rewrite (sel_ranks values NE i Hi).
  destruct (rank_spec values NE) as (_ & _ & H3 & _).
  assert (Hn : (Z.to_nat i < length values)%nat) by (unfold zlen in Hi; lia).
  destruct (H3 (Z.to_nat i) Hn) as [Q1 Q2].
  unfold dec, v. rewrite sel_of_list by (unfold zlen; lia). rewrite Nat2Z.id. exact Q2.
Qed.
End Dec.

(* ------------------------------------------------------------------ the final theorem *)
Theorem model_correct image mask fp :
  accepted image mask fp = true -> 3 <= zlen fp -> 3 <= width fp ->
  exists out, grey_reconstruction image mask fp = Ok (out, 0) /\
    zlen out = zlen image /\ rect out (width image) = true /\ GridRecon image mask fp out.
Proof.
  intros Hacc F0 F1. unfold grey_reconstruction. rewrite Hacc. cbn [negb].
  unfold accepted in Hacc.
  apply andb_prop in Hacc; destruct Hacc as [Hacc O1].
  apply andb_prop in Hacc; destruct Hacc as [Hc O0].
  assert (P0 : 1 <= zlen fp / 2) by (apply Z.div_le_lower_bound; lia).
  assert (P1 : 1 <= width fp / 2) by (apply Z.div_le_lower_bound; lia).
  destruct (padded_values_facts image mask fp Hc P0 P1) as (G & Hpad & Hmn & Hle).
  assert (HHW : 1 <= zlen image /\ 1 <= width image).
  { unfold accepted_common in Hc. cbv zeta in Hc. repeat (apply andb_prop in Hc; destruct Hc as [Hc ?]). lia. }
  destruct HHW as [HH HW].
  destruct (prep_values_cells image mask fp HH HW P0 P1) as [Hlen Cells].
  set (H := zlen image) in *. set (W := width image) in *.
  set (p0 := zlen fp / 2) in *. set (p1 := width fp / 2) in *.
  set (g := mkgeom H W p0 p1) in *. set (values := prep_values image mask fp) in *.
  set (offs := fp_offsets fp).
  set (p := prepare image mask fp).
  assert (Estr : p_strides p = map (fun o => fst o * gPW g + snd o) offs) by reflexivity.
  assert (Hst : Forall (stride_ok g) (p_strides p)) by exact (prepare_strides_ok image mask fp O0 O1).
  destruct (setup_inv g (p_strides p) values (img_min image) G Hlen Hpad Hmn Hle) as (I & Hc0 & Rm & Hd).
  assert (O := setup_ord g (p_strides p) values (img_min image) G Hlen Hpad Hmn).
  cbv zeta in I, O, Rm, Hd.
  assert (NE : values <> []) by (intros E; rewrite E in Hlen; assert (zlen (@nil Z) = 0) by reflexivity;
                                 destruct (last_not_interior g G); lia).
  set (K := zlen (snd (rank_order values))) in *.
  set (s0 := setup_state values) in *.
  assert (E2S : 2 * p_S p = zlen values) by (rewrite Hlen; reflexivity).
  assert (Est : p_st p = s0).
  { unfold p, prepare, prepare_offs, s0, setup_state, vorder. cbn [p_st].
    change (2 * ((zlen image + 2 * (zlen fp / 2)) * (width image + 2 * (width fp / 2)))) with (2 * p_S p).
    rewrite E2S. reflexivity. }
  assert (Ecur : p_cur p = hd (-1) (vorder values)).
  { unfold p, prepare, prepare_offs, vorder. cbn [p_cur].
    change (2 * ((zlen image + 2 * (zlen fp / 2)) * (width image + 2 * (width fp / 2)))) with (2 * p_S p).
    rewrite E2S. reflexivity. }
  destruct (loop_total g K (vals s0) (p_strides p) G Hst (hd (-1) (vorder values)) s0 _ I O Hc0)
    as (s' & EL & I' & D' & CL).
  unfold run_prep. rewrite Est, Ecur.
  change (p_S p) with (gS g). rewrite EL. cbn [bind].
  destruct (finish_ok p s' K (p_strides p) (vals s0) G eq_refl I' Rm) as (out & EF & _).
  rewrite EF. cbn [bind]. exists out.
  destruct (finish_spec p s' out ltac:(change (p_H p) with H; lia) ltac:(change (p_W p) with W; lia) EF) as (Lo & Ro & OUT).
  change (p_H p) with H in Lo, OUT. change (p_W p) with W in Ro, OUT.
  change (p_p0 p) with p0 in OUT. change (p_p1 p) with p1 in OUT. change (p_PW p) with (gPW g) in OUT.
  split; [rewrite D', Hd; reflexivity|]. split; [exact Lo|]. split; [exact Ro|].
  (* decoding *)
  set (dec := fun k => sel (p_vmap p) k).
  assert (Mono : mono_on K dec) by exact (dec_mono values NE).
  assert (DR : forall i, 0 <= i < 2 * gS g -> dec (sel (vals s0) i) = nth (Z.to_nat i) values 0)
    by (intros i Hi; apply (dec_rank values NE i); lia).
  set (fl := fun r c => (r + p0) * gPW g + (c + p1)).
  assert (FF : forall r c, 0 <= r < H -> 0 <= c < W ->
             0 <= fl r c < gS g /\ interior_b g (fl r c) = true /\
             fl r c / gPW g - p0 = r /\ fl r c mod gPW g - p1 = c)
    by (intros r c Hr Hc'; exact (flat_facts g r c G Hr Hc')).
  assert (V0s : forall r c, 0 <= r < H -> 0 <= c < W -> dec (sel (vals s0) (fl r c)) = img_get image r c).
  { intros r c Hr Hc'. destruct (FF r c Hr Hc') as (R1 & R2 & R3 & R4).
    rewrite DR by lia. destruct (Cells (fl r c) R1) as [C1 _]. rewrite C1, R2.
    change (gp0 g) with p0. change (gp1 g) with p1. rewrite R3, R4. reflexivity. }
  assert (V0m : forall r c, 0 <= r < H -> 0 <= c < W -> dec (sel (vals s0) (fl r c + gS g)) = img_get mask r c).
  { intros r c Hr Hc'. destruct (FF r c Hr Hc') as (R1 & R2 & R3 & R4).
    rewrite DR by lia. destruct (Cells (fl r c) R1) as [_ C2]. rewrite C2, R2.
    change (gp0 g) with p0. change (gp1 g) with p1. rewrite R3, R4. reflexivity. }
  assert (OUT' : forall r c, 0 <= r < H -> 0 <= c < W -> img_get out r c = dec (sel (vals s') (fl r c)))
    by (intros r c Hr Hc'; exact (OUT r c Hr Hc')).
  assert (VK' := i_vk _ _ _ _ _ I'). assert (VK0 := i_vk _ _ _ _ _ I).
  assert (LO' := i_lo _ _ _ _ _ I'). assert (MK' := i_mk _ _ _ _ _ I').
  assert (DD : forall q : pt, inD H W q = true -> 0 <= fst q < H /\ 0 <= snd q < W)
    by (intros q Hq; unfold inD in Hq; lia).
  unfold GridRecon, GridReconOffs. fold H W offs.
  split; [|split].
  - (* between *)
    intros [r c] Dp. destruct (DD _ Dp) as [Hr Hc']. cbn [fst snd] in Hr, Hc'. unfold gval; cbn [fst snd].
    destruct (FF r c Hr Hc') as (R1 & _).
    rewrite OUT' by assumption. rewrite <- V0s, <- V0m by assumption.
    assert (L := LO' (fl r c) R1). assert (M := MK' (fl r c + gS g) ltac:(lia)).
    assert (A1 := VK0 (fl r c) ltac:(lia)). assert (A2 := VK' (fl r c) ltac:(lia)).
    assert (A3 := VK' (fl r c + gS g) ltac:(lia)).
    rewrite <- M. split; apply Mono; lia.
  - (* closed *)
    intros [rp cp] q Dp Hq. destruct (DD _ Dp) as [Hr Hc']. cbn [fst snd] in Hr, Hc'.
    unfold gpreds in Hq. apply filter_In in Hq. destruct Hq as [Hq Dq].
    apply in_map_iff in Hq. destruct Hq as ([o0 o1] & Eq & Ho). cbn [fst snd] in Eq. subst q.
    destruct (DD _ Dq) as [Hrq Hcq]. cbn [fst snd] in Hrq, Hcq. unfold gval; cbn [fst snd].
    set (rq := rp - o0) in *. set (cq := cp - o1) in *.
    destruct (FF rq cq Hrq Hcq) as (Q1 & Q2 & _). destruct (FF rp cp Hr Hc') as (R1 & _).
    set (sd := o0 * gPW g + o1).
    assert (Hsd : In sd (p_strides p)) by (rewrite Estr; apply in_map_iff; exists (o0, o1); split; [reflexivity|exact Ho]).
    assert (Efl : fl rq cq + sd = fl rp cp) by (unfold fl, sd, rq, cq; ring).
    assert (C := CL (fl rq cq) Q1 Q2 sd Hsd). rewrite Efl in C.
    rewrite !OUT' by assumption. rewrite <- (V0m rp cp Hr Hc').
    assert (M := MK' (fl rp cp + gS g) ltac:(lia)). rewrite <- M.
    assert (A1 := VK' (fl rq cq) ltac:(lia)). assert (A2 := VK' (fl rp cp) ltac:(lia)).
    assert (A3 := VK' (fl rp cp + gS g) ltac:(lia)).
    set (a := sel (vals s') (fl rp cp + gS g)) in *. set (b := sel (vals s') (fl rq cq)) in *.
    set (c := sel (vals s') (fl rp cp)) in *.
    destruct (Z_le_gt_dec a b) as [Lab|Gab].
    + assert (dec a <= dec c) by (apply Mono; lia). lia.
    + assert (dec b <= dec c) by (apply Mono; lia). lia.
  - (* least *)
    intros R' [Hs Hcl] [r c] Dp. destruct (DD _ Dp) as [Hr Hc']. cbn [fst snd] in Hr, Hc'. unfold gval; cbn [fst snd].
    destruct (FF r c Hr Hc') as (R1 & R2 & R3 & R4).
    rewrite OUT' by assumption.
    set (U := fun i => R' (i / gPW g - p0, i mod gPW g - p1)).
    assert (HU : flat_postfixed g (p_strides p) (vals s0) dec U).
    { split.
      - intros i Hi Hib. destruct (interior_b_range g i Hib) as [B1 B2].
        change (gp0 g) with p0 in B1. change (gp1 g) with p1 in B2. change (gH g) with H in B1. change (gW g) with W in B2.
        assert (Ei := unflat_flat g i G Hib). change (gp0 g) with p0 in Ei. change (gp1 g) with p1 in Ei.
        set (rq := i / gPW g - p0) in *. set (cq := i mod gPW g - p1) in *.
        assert (Efl : i = fl rq cq) by exact Ei.
        rewrite Efl at 1. rewrite (V0s rq cq B1 B2). unfold U. fold rq cq.
        apply (Hs (rq, cq)). unfold inD; cbn [fst snd]. lia.
      - intros i sd Hi Hib Hsd Hib2. destruct (interior_b_range g i Hib) as [B1 B2].
        change (gp0 g) with p0 in B1. change (gp1 g) with p1 in B2. change (gH g) with H in B1. change (gW g) with W in B2.
        assert (Ei := unflat_flat g i G Hib). change (gp0 g) with p0 in Ei. change (gp1 g) with p1 in Ei.
        set (rq := i / gPW g - p0) in *. set (cq := i mod gPW g - p1) in *.
        rewrite Estr in Hsd. apply in_map_iff in Hsd. destruct Hsd as ([o0 o1] & Esd & Ho). cbn [fst snd] in Esd.
        destruct (fp_offsets_bound fp (o0, o1) O0 O1 Ho) as [Bo0 Bo1]. cbn [fst snd] in Bo0, Bo1. fold p0 in Bo0. fold p1 in Bo1.
        assert (HPW : gPW g = W + 2 * p1) by reflexivity.
        assert (Efl2 : i + sd = (rq + o0 + p0) * gPW g + (cq + o1 + p1)) by (rewrite Ei at 1; rewrite <- Esd; ring).
        assert (Dq2 : (i + sd) / gPW g = rq + o0 + p0)
          by (symmetry; apply Z.div_unique with (r := cq + o1 + p1); lia).
        assert (Dm2 : (i + sd) mod gPW g = cq + o1 + p1)
          by (symmetry; apply Z.mod_unique with (q := rq + o0 + p0); lia).
        destruct (interior_b_range g (i + sd) Hib2) as [B3 B4].
        change (gp0 g) with p0 in B3. change (gp1 g) with p1 in B4. change (gH g) with H in B3. change (gW g) with W in B4.
        rewrite Dq2 in B3. rewrite Dm2 in B4.
        assert (Hr2 : 0 <= rq + o0 < H) by lia. assert (Hc2 : 0 <= cq + o1 < W) by lia.
        assert (Efl3 : i + sd = fl (rq + o0) (cq + o1)) by (rewrite Efl2; unfold fl; ring).
        rewrite Efl3 at 1. rewrite (V0m _ _ Hr2 Hc2).
        unfold U. rewrite Dq2, Dm2. fold rq cq.
        replace (rq + o0 + p0 - p0) with (rq + o0) by lia. replace (cq + o1 + p1 - p1) with (cq + o1) by lia.
        apply (Hcl (rq + o0, cq + o1) (rq, cq)).
        + unfold inD; cbn [fst snd]. lia.
        + unfold gpreds. apply filter_In. split; [|unfold inD; cbn [fst snd]; lia].
          apply in_map_iff. exists (o0, o1). split; [|exact Ho]. cbn [fst snd]. f_equal; lia. }
    assert (Q := i_le _ _ _ _ _ I' dec U Mono HU (fl r c) R1 R2). unfold U in Q. rewrite R3, R4 in Q. exact Q.
Qed.

(* the verified checker and the model agree: whatever image the checker accepts (with whatever
   certificate) is pointwise the model's output *)
Corollary checker_accepts_only_model_output image mask fp R lvl out d :
  accepted image mask fp = true -> 3 <= zlen fp -> 3 <= width fp ->
  grey_reconstruction image mask fp = Ok (out, d) ->
  recon_check image mask fp R lvl = true ->
  forall p, inD (zlen image) (width image) p = true -> gval R p = gval out p.
Proof.
  intros Hacc F0 F1 E HC p Dp.
  destruct (model_correct image mask fp Hacc F0 F1) as (out' & E' & _ & _ & GR).
  rewrite E in E'. inversion E'; subst out'.
  assert (GC := recon_check_sound _ _ _ _ _ HC). unfold GridRecon, GridReconOffs in *.
  exact (recon_unique pt _ _ _ _ _ _ GC GR p Dp).
Qed.
