(* C01 — weak duality for the sparse assignment problem (ported from design/prototypes/Duality.v)
   and soundness of the boolean certificate checker Spec.Lapjv.cert_ok. *)
From Coq Require Import ZArith List Bool Lia ZifyBool Permutation Arith.
From Centro Require Import Base.Sx Model.Lapjv Spec.Lapjv.
Import ListNotations.
Open Scope Z_scope.

(* ---------------------------------------------------------------- sums *)

Lemma zsum_app a b : zsum (a ++ b) = zsum a + zsum b.
Proof. induction a; cbn [app zsum] in *; lia. Qed.
Lemma zsum_perm a b : Permutation a b -> zsum a = zsum b.
Proof. induction 1; cbn [zsum] in *; lia. Qed.
Lemma zsum_map_add {A} (f g : A -> Z) l :
  zsum (map (fun x => f x + g x) l) = zsum (map f l) + zsum (map g l).
Proof. induction l; cbn [map zsum] in *; lia. Qed.
Lemma zsum_map_nonneg {A} (f : A -> Z) l : (forall x, In x l -> 0 <= f x) -> 0 <= zsum (map f l).
Proof.
  induction l as [|a l IH]; cbn [map zsum]; intros H; [lia|].
  assert (0 <= f a) by (apply H; left; auto).
  assert (0 <= zsum (map f l)) by (apply IH; intros; apply H; right; auto). lia.
Qed.
Lemma zsum_map_zero {A} (f : A -> Z) l : (forall x, In x l -> f x = 0) -> zsum (map f l) = 0.
Proof.
  induction l as [|a l IH]; cbn [map zsum]; intros H; [lia|].
  rewrite (H a), IH; auto; [intros; apply H; right; auto | left; auto].
Qed.

(* ---------------------------------------------------------------- weak duality, all n *)

Section Assignment.
Variable n : nat.
Variable tri : list triple.
Variables u v : nat -> Z.

Definition dual_feasible : Prop := forall i j z, cost tri i j = Some z -> 0 <= z - u i - v j.
Definition slack (x : list nat) : Prop :=
  forall i, (i < n)%nat -> costz tri i (col x i) - u i - v (col x i) = 0.

Lemma map_col_perm sigma : Permutation sigma (seq 0 n) -> Permutation (map (col sigma) (seq 0 n)) (seq 0 n).
Proof.
  intros H. assert (Len : length sigma = n) by (rewrite (Permutation_length H); apply seq_length).
  replace (map (col sigma) (seq 0 n)) with sigma; auto.
  unfold col. rewrite <- Len. clear.
  induction sigma as [|a s IH] using rev_ind; [reflexivity|].
  rewrite app_length; cbn [length]. rewrite Nat.add_1_r, seq_S, map_app; cbn [map Nat.add].
  rewrite app_nth2, Nat.sub_diag by lia; cbn [nth]. f_equal.
  rewrite IH at 1. apply map_ext_in; intros i Hi; apply in_seq in Hi. rewrite app_nth1; auto; lia.
Qed.

Lemma total_decomp sigma : Permutation sigma (seq 0 n) ->
  total n tri sigma = zsum (map (fun i => costz tri i (col sigma i) - u i - v (col sigma i)) (seq 0 n))
                      + zsum (map u (seq 0 n)) + zsum (map v (seq 0 n)).
Proof.
  intros H. unfold total.
  assert (E : zsum (map v (seq 0 n)) = zsum (map (fun i => v (col sigma i)) (seq 0 n))).
  { rewrite <- (map_map (col sigma) v). apply zsum_perm, Permutation_map, Permutation_sym, map_col_perm, H. }
  rewrite E. rewrite <- !zsum_map_add. f_equal. apply map_ext; intros; lia.
Qed.

Theorem cert_optimal_abs x : PM n tri x -> dual_feasible -> slack x ->
  forall sigma, PM n tri sigma -> total n tri x <= total n tri sigma.
Proof.
  intros [Px _] DF SL sigma [Ps Ls].
  rewrite (total_decomp x Px), (total_decomp sigma Ps).
  rewrite (zsum_map_zero _ (seq 0 n)) by (intros i Hi; apply SL; apply in_seq in Hi; lia).
  assert (0 <= zsum (map (fun i => costz tri i (col sigma i) - u i - v (col sigma i)) (seq 0 n))); [|lia].
  apply zsum_map_nonneg; intros i Hi. apply in_seq in Hi. assert (Hlt : (i < n)%nat) by lia.
  specialize (Ls i Hlt). unfold costz.
  destruct (cost tri i (col sigma i)) eqn:E; [|congruence]. eapply DF; eauto.
Qed.
End Assignment.

(* ---------------------------------------------------------------- checker soundness *)

Lemma cost_in tri i j z : cost tri i j = Some z -> exists t, In t tri /\ t_i t = i /\ t_j t = j /\ t_c t = z.
Proof.
  induction tri as [|t r IH]; cbn [cost]; [discriminate|].
  destruct ((t_i t =? i)%nat && (t_j t =? j)%nat) eqn:E.
  - intros H; inversion H; subst. apply andb_true_iff in E as [E1 E2].
    apply Nat.eqb_eq in E1, E2. exists t; repeat split; auto. left; auto.
  - intros H. destruct (IH H) as [t' [Hin Ht]]. exists t'; split; auto. right; auto.
Qed.

Lemma perm_ok_sound n x y : perm_ok n x y = true -> Inverse n x y.
Proof.
  unfold perm_ok. rewrite !andb_true_iff. intros [[[Hx Hy] F1] F2].
  apply Nat.eqb_eq in Hx, Hy. rewrite forallb_forall in F1, F2.
  repeat split; auto.
  - specialize (F1 i). rewrite andb_true_iff in F1. destruct F1 as [A _]; [apply in_seq; lia|].
    apply Nat.ltb_lt in A; auto.
  - specialize (F1 i). rewrite andb_true_iff in F1. destruct F1 as [_ B]; [apply in_seq; lia|].
    apply Nat.eqb_eq in B; auto.
  - specialize (F2 j). rewrite andb_true_iff in F2. destruct F2 as [A _]; [apply in_seq; lia|].
    apply Nat.ltb_lt in A; auto.
  - specialize (F2 j). rewrite andb_true_iff in F2. destruct F2 as [_ B]; [apply in_seq; lia|].
    apply Nat.eqb_eq in B; auto.
Qed.

Lemma inverse_perm n x y : Inverse n x y -> Permutation x (seq 0 n).
Proof.
  intros [Hx [Hy [F1 F2]]].
  apply NoDup_Permutation_bis.
  - apply (NoDup_nth x 0%nat). intros i j Hi Hj E. rewrite Hx in Hi, Hj.
    destruct (F1 i Hi) as [_ A]. destruct (F1 j Hj) as [_ B]. unfold col in *. rewrite E in A. congruence.
  - rewrite seq_length. lia.
  - intros a Ha. apply (In_nth _ _ 0%nat) in Ha. destruct Ha as [i [Hi E]]. rewrite Hx in Hi.
    destruct (F1 i Hi) as [A _]. unfold col in A. rewrite E in A. apply in_seq. lia.
Qed.

Lemma pm_ok_sound n tri x y : pm_ok n tri x y = true -> PM n tri x /\ Inverse n x y.
Proof.
  unfold pm_ok. rewrite andb_true_iff. intros [P Lst].
  pose proof (perm_ok_sound _ _ _ P) as Inv. split; auto. split; [eapply inverse_perm; eauto|].
  intros i Hi. rewrite forallb_forall in Lst. specialize (Lst i).
  destruct (cost tri i (col x i)); [discriminate|]. assert (false = true); [|discriminate].
  apply Lst. apply in_seq. lia.
Qed.

Theorem cert_sound n tri x y u v :
  cert_ok n tri x y u v = true ->
  Optimal n tri x /\ Inverse n x y /\ DualCert n tri x u v.
Proof.
  unfold cert_ok. rewrite !andb_true_iff. intros [[P Fe] Sl].
  pose proof (perm_ok_sound _ _ _ P) as Inv.
  pose proof (inverse_perm _ _ _ Inv) as Px.
  unfold feas_ok in Fe. unfold slack_ok in Sl. rewrite forallb_forall in Fe, Sl.
  assert (SlP : forall i, (i < n)%nat ->
            exists c, cost tri i (col x i) = Some c /\ c - zat u i - zat v (col x i) = 0).
  { intros i Hi. specialize (Sl i). destruct (cost tri i (col x i)) as [c|].
    - exists c; split; auto. assert (H : (c - zat u i - zat v (col x i) =? 0) = true) by (apply Sl, in_seq; lia).
      apply Z.eqb_eq in H. exact H.
    - assert (false = true); [|discriminate]. apply Sl, in_seq. lia. }
  assert (PMx : PM n tri x).
  { split; auto. intros i Hi. destruct (SlP i Hi) as [c [E _]]. congruence. }
  split; [|split; [exact Inv|]].
  - split; auto. intros sigma Hs.
    apply (cert_optimal_abs n tri (zat u) (zat v)); auto.
    + intros i j z E. destruct (cost_in _ _ _ _ E) as [t [Hin [<- [<- <-]]]].
      specialize (Fe t Hin). apply Z.leb_le in Fe. exact Fe.
    + intros i Hi. destruct (SlP i Hi) as [c [E Z0]]. unfold costz. rewrite E. exact Z0.
  - split; auto. intros t Hin. specialize (Fe t Hin). apply Z.leb_le in Fe. exact Fe.
Qed.

(* non-trivial instance: the 3x3 sparse problem of finding F1 with its true optimum *)
Definition T (i j : nat) (c : Z) : triple := (i, j, c).
Example cert_ok_example :
  cert_ok 3 [T 0 0 2; T 0 2 5; T 1 0 0; T 1 1 4; T 2 1 3; T 2 2 1] [0;1;2]%nat [0;1;2]%nat [4;2;1] [-2;2;0] = true.
Proof. vm_compute. reflexivity. Qed.

(* ---------------------------------------------------------------- refuting optimality with a better matching *)

Lemma not_optimal_by n tri x sigma tau :
  pm_ok n tri sigma tau = true -> total n tri sigma < total n tri x -> ~ Optimal n tri x.
Proof.
  intros P Lt [_ O]. destruct (pm_ok_sound _ _ _ _ P) as [PMs _]. specialize (O sigma PMs). lia.
Qed.

(* ---------------------------------------------------------------- the tracker's map *)

Lemma nodup_z_sound l : nodup_z l = true -> NoDup l.
Proof.
  induction l as [|a r IH]; cbn [nodup_z]; intros H; [constructor|].
  apply andb_true_iff in H as [A B]. constructor; auto.
  intros Hin. apply negb_true_iff in A.
  assert (existsb (Z.eqb a) r = true); [|congruence].
  apply existsb_exists. exists a; split; auto. apply Z.eqb_refl.
Qed.

Lemma nodup_map_fst_inj {A B} (ps : list (A * B)) a b b' :
  NoDup (map fst ps) -> In (a, b) ps -> In (a, b') ps -> b = b'.
Proof.
  induction ps as [|p r IH]; cbn [map]; intros N H1 H2; [destruct H1|].
  inversion N as [|? ? Nin N']; subst.
  destruct H1 as [->|H1], H2 as [E|H2].
  - inversion E; auto.
  - exfalso. apply Nin. cbn [fst]. apply (in_map fst) in H2. exact H2.
  - exfalso. apply Nin. subst p. cbn [fst]. apply (in_map fst) in H1. exact H1.
  - eapply IH; eauto.
Qed.

Lemma nodup_map_snd_inj {A B} (ps : list (A * B)) a a' b :
  NoDup (map snd ps) -> In (a, b) ps -> In (a', b) ps -> a = a'.
Proof.
  induction ps as [|p r IH]; cbn [map]; intros N H1 H2; [destruct H1|].
  inversion N as [|? ? Nin N']; subst.
  destruct H1 as [->|H1], H2 as [E|H2].
  - inversion E; auto.
  - exfalso. apply Nin. cbn [snd]. apply (in_map snd) in H2. exact H2.
  - exfalso. apply Nin. subst p. cbn [snd]. apply (in_map snd) in H1. exact H1.
  - eapply IH; eauto.
Qed.

Lemma nodup_injective ps : NoDup (map fst ps) -> NoDup (map snd ps) -> Injective ps.
Proof.
  intros N1 N2 a b a' b' H1 H2. split; intros E; subst.
  - eapply nodup_map_fst_inj; eauto.
  - eapply nodup_map_snd_inj; eauto.
Qed.

Theorem track_ok_sound ps : track_ok ps = true -> Injective ps.
Proof.
  unfold track_ok. rewrite andb_true_iff. intros [A B].
  apply nodup_injective; apply nodup_z_sound; auto.
Qed.

(* read-back of a permutation: first components are distinct rows, second components distinct columns *)
Lemma combine_fst_nodup {A B} (l : list A) (m : list B) : NoDup l -> NoDup (map fst (combine l m)).
Proof.
  revert m. induction l as [|a l IH]; intros m N; cbn [combine map]; [constructor|].
  destruct m as [|b m]; cbn [combine map]; [constructor|].
  inversion N; subst. constructor; auto.
  intros Hin. apply in_map_iff in Hin as [[a' b'] [E Hin]]. cbn [fst] in E; subst.
  apply in_combine_l in Hin. contradiction.
Qed.
Lemma combine_snd_nodup {A B} (l : list A) (m : list B) : NoDup m -> NoDup (map snd (combine l m)).
Proof.
  revert m. induction l as [|a l IH]; intros m N; cbn [combine map]; [constructor|].
  destruct m as [|b m]; cbn [combine map]; [constructor|].
  inversion N; subst. constructor; auto.
  intros Hin. apply in_map_iff in Hin as [[a' b'] [E Hin]]. cbn [snd] in E; subst.
  apply in_combine_r in Hin. contradiction.
Qed.
Lemma filter_map_nodup {A B} (f : A -> B) (p : A -> bool) l : NoDup (map f l) -> NoDup (map f (filter p l)).
Proof.
  induction l as [|a l IH]; cbn [map filter]; intros N; [constructor|].
  inversion N; subst. destruct (p a); cbn [map]; auto. constructor; auto.
  intros Hin. apply in_map_iff in Hin as [a' [E Hin]]. apply filter_In in Hin as [Hin _].
  apply H1. rewrite <- E. apply in_map. exact Hin.
Qed.

Lemma nth_map_nodup {A} (g : A -> nat) (labs : list Z) (l : list A) :
  NoDup labs -> NoDup (map g l) -> (forall a, In a l -> (g a < length labs)%nat) ->
  NoDup (map (fun a => nth (g a) labs 0) l).
Proof.
  intros NL. induction l as [|a l IH]; cbn [map]; intros N B; [constructor|].
  inversion N; subst. constructor.
  - intros Hin. apply in_map_iff in Hin as [a' [E Hin]].
    assert (g a' = g a).
    { apply (proj1 (NoDup_nth labs 0) NL); auto; [apply B; right; auto | apply B; left; auto]. }
    apply H1. rewrite <- H. apply in_map. exact Hin.
  - apply IH; auto. intros; apply B; right; auto.
Qed.

Theorem track_injective n1 n2 x labs1 labs2 :
  NoDup x -> NoDup labs1 -> NoDup labs2 -> (n1 <= length labs1)%nat -> (n2 <= length labs2)%nat ->
  Injective (track_numbers labs1 labs2 (track_readback n1 n2 x)).
Proof.
  intros Nx N1 N2 L1 L2. apply nodup_injective; unfold track_numbers; rewrite map_map; cbn [fst snd].
  - apply nth_map_nodup; auto.
    + apply filter_map_nodup, combine_fst_nodup, seq_NoDup.
    + intros a Ha. apply filter_In in Ha as [_ Hb]. apply andb_true_iff in Hb as [Hb _].
      apply Nat.ltb_lt in Hb. lia.
  - apply nth_map_nodup; auto.
    + apply filter_map_nodup, combine_snd_nodup, Nx.
    + intros a Ha. apply filter_In in Ha as [_ Hb]. apply andb_true_iff in Hb as [_ Hb].
      apply Nat.ltb_lt in Hb. lia.
Qed.

Corollary track_injective_pm n tri x n1 n2 labs1 labs2 :
  PM n tri x -> NoDup labs1 -> NoDup labs2 -> (n1 <= length labs1)%nat -> (n2 <= length labs2)%nat ->
  Injective (track_numbers labs1 labs2 (track_readback n1 n2 x)).
Proof.
  intros [P _]. apply track_injective. eapply Permutation_NoDup; [apply Permutation_sym, P|apply seq_NoDup].
Qed.

Example track_example :
  track_numbers [3; 7] [2; 5; 9] (track_readback 2 3 [4; 1; 0; 2; 3]%nat) = [(7, 5)].
Proof. vm_compute. reflexivity. Qed.
