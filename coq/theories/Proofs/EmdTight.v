(* C10 — tightness of the predecessor arcs in the Dijkstra loop of the line-level model: the key
   of a heap node and the label of a finalised node is either untouched (the start node's 0 or the
   initial max) or equals  d[prev] + rc  for a residual arc prev -> node with prev finalised.
   This is the clause that makes the arcs of the augmenting path tight. *)
From Coq Require Import ZArith List Bool Lia ZifyBool.
From Centro Require Import Base.Sx Base.EmdBase Model.Emd Model.EmdMcf
  Proofs.EmdHeap Proofs.EmdHeapPos Proofs.EmdHeapOrd Proofs.EmdHeapMem Proofs.EmdDijkstra Proofs.EmdDijkstraInit.
Import ListNotations.
Open Scope Z_scope.

Definition pvn (st : sp_state) (w : nat) : nat := nth w (sp_prev st) O.

Section Tight.
Variable nv : nat.
Variable e : list Z.
Variable rf : list (list (nat * Z)).
Variable rb : list (list (nat * Z * Z)).
Hypothesis RA : forall u v rc, res_arc rf rb u v rc -> (v < nv)%nat /\ 0 <= rc.
Variable from : nat.

(* one relaxation: which keys / predecessors change *)
Lemma relax_pk u du st v rc st' : HI nv (sp_h st) -> TF nv (sp_h st) -> (v < nv)%nat -> length (sp_prev st) = nv ->
  relax u du st v rc = Some st' ->
  length (sp_prev st') = nv /\
  (forall w, ~ is_entry (sp_h st) w -> pvn st' w = pvn st w) /\
  (forall w k', has (sp_h st') w k' ->
     (has (sp_h st) w k' /\ pvn st' w = pvn st w) \/ (w = v /\ pvn st' w = u /\ k' = du + rc)).
Proof.
  intros [OR [P [EO L]]] F Hv LP. unfold relax.
  destruct (oget (snd (sp_h st)) v) as [pos|] eqn:Ep; [|discriminate]. cbn [bind].
  destruct (F v Hv) as [EN|[NE [p [Tp Lp]]]].
  - destruct EN as [q [[w k] [Hq Ew]]]. cbn in Ew. subst w.
    assert (pos = q) by (pose proof (P _ _ Hq) as X; cbn [fst] in X; rewrite Ep in X; congruence). subst q.
    pose proof (slot_lt _ _ _ Hq) as Lq. fold (hsize (sp_h st)).
    assert (E1 : (pos <? hsize (sp_h st))%nat = true) by (apply Nat.ltb_lt; auto). rewrite E1.
    pose proof Hq as Hq'. unfold slot in Hq'. rewrite Hq'. cbn [bind snd].
    destruct (du + rc <? k) eqn:CMP.
    + destruct (heap_decrease_key (sp_h st) v (du + rc)) as [h1|] eqn:ED; [|discriminate]. cbn [bind].
      intros H. injection H as <-. cbn [sp_h sp_prev]. unfold pvn. cbn [sp_prev].
      destruct (heap_decrease_key_mem _ _ _ _ _ _ P Ep Hq ED) as [M1 [M2 [M3 [M4 M5]]]].
      split; [rewrite upd_length_local; auto|]. split.
      * intros w Nw. rewrite (nth_upd_local (fun _ => u) O). destruct (v =? w)%nat eqn:E; [|reflexivity].
        apply Nat.eqb_eq in E. subst w. exfalso. apply Nw. exists pos, (v, k). auto.
      * intros w k' Hk. destruct (Nat.eq_dec w v) as [->|N].
        { right. split; auto. rewrite (nth_upd_local (fun _ => u) O), Nat.eqb_refl.
          assert (X : (v <? length (sp_prev st))%nat = true) by (apply Nat.ltb_lt; lia). rewrite X. cbn [andb].
          split; auto. }
        { left. split; [apply M3; auto|]. rewrite (nth_upd_local (fun _ => u) O).
          assert (X : (v =? w)%nat = false) by (apply Nat.eqb_neq; auto). rewrite X. reflexivity. }
    + intros H. injection H as <-. repeat split; auto.
  - unfold tbl in Tp. rewrite Ep in Tp. injection Tp as ->. fold (hsize (sp_h st)).
    assert (E1 : (p <? hsize (sp_h st))%nat = false) by (apply Nat.ltb_ge; auto). rewrite E1.
    intros H. injection H as <-. repeat split; auto.
Qed.

Lemma relax_fwd_pk u du : forall l st st', HI nv (sp_h st) -> TF nv (sp_h st) -> length (sp_prev st) = nv ->
  (forall v rc, In (v, rc) l -> (v < nv)%nat /\ 0 <= rc) ->
  relax_fwd u du st l = Some st' ->
  length (sp_prev st') = nv /\
  (forall w, ~ is_entry (sp_h st) w -> pvn st' w = pvn st w) /\
  (forall w k', has (sp_h st') w k' ->
     (has (sp_h st) w k' /\ pvn st' w = pvn st w) \/ (pvn st' w = u /\ exists rc, In (w, rc) l /\ k' = du + rc)).
Proof.
  induction l as [|[v rc] l IH]; intros st st' H F LP A; cbn [relax_fwd].
  - intros X. injection X as <-. repeat split; auto.
  - destruct (relax u du st v rc) as [st1|] eqn:E1; [|discriminate]. cbn [bind]. intros X.
    destruct (A v rc (or_introl eq_refl)) as [Hv Hr].
    destruct (relax_spec nv _ _ _ _ _ _ H F Hv Hr E1) as [_ [_ [R1 _]]].
    destruct (relax_pk _ _ _ _ _ _ H F Hv LP E1) as [LP1 [N1 K1]].
    assert (H1 : HI nv (sp_h st1)) by (destruct R1; auto).
    assert (F1 : TF nv (sp_h st1)) by (eapply Rel_TF; eauto).
    destruct (IH st1 st' H1 F1 LP1 ltac:(intros; apply A; right; auto) X) as [LP2 [N2 K2]].
    destruct R1 as [_ [_ [EN1 _]]].
    split; auto. split.
    + intros w Nw. rewrite N2 by (rewrite EN1; auto). apply N1; auto.
    + intros w k' Hk. destruct (K2 w k' Hk) as [[A1 B1]|[B1 [rc' [I1 E']]]].
      * destruct (K1 w k' A1) as [[A0 B0]|[-> [B0 E0]]].
        { left. split; auto. congruence. }
        { right. split; [congruence|]. exists rc. split; [left; auto|auto]. }
      * right. split; auto. exists rc'. split; [right; auto|auto].
Qed.

Lemma relax_bwd_pk u du : forall l st st', HI nv (sp_h st) -> TF nv (sp_h st) -> length (sp_prev st) = nv ->
  (forall v rc cap, In (v, rc, cap) l -> 0 < cap -> (v < nv)%nat /\ 0 <= rc) ->
  relax_bwd u du st l = Some st' ->
  length (sp_prev st') = nv /\
  (forall w, ~ is_entry (sp_h st) w -> pvn st' w = pvn st w) /\
  (forall w k', has (sp_h st') w k' ->
     (has (sp_h st) w k' /\ pvn st' w = pvn st w) \/
     (pvn st' w = u /\ exists rc cap, In (w, rc, cap) l /\ 0 < cap /\ k' = du + rc)).
Proof.
  induction l as [|[[v rc] cap] l IH]; intros st st' H F LP A; cbn [relax_bwd].
  - intros X. injection X as <-. repeat split; auto.
  - destruct (0 <? cap) eqn:EC.
    + destruct (relax u du st v rc) as [st1|] eqn:E1; [|discriminate]. cbn [bind]. intros X.
      destruct (A v rc cap (or_introl eq_refl) ltac:(lia)) as [Hv Hr].
      destruct (relax_spec nv _ _ _ _ _ _ H F Hv Hr E1) as [_ [_ [R1 _]]].
      destruct (relax_pk _ _ _ _ _ _ H F Hv LP E1) as [LP1 [N1 K1]].
      assert (H1 : HI nv (sp_h st1)) by (destruct R1; auto).
      assert (F1 : TF nv (sp_h st1)) by (eapply Rel_TF; eauto).
      destruct (IH st1 st' H1 F1 LP1 ltac:(intros; eapply A; eauto; right; auto) X) as [LP2 [N2 K2]].
      destruct R1 as [_ [_ [EN1 _]]].
      split; auto. split.
      * intros w Nw. rewrite N2 by (rewrite EN1; auto). apply N1; auto.
      * intros w k' Hk. destruct (K2 w k' Hk) as [[A1 B1]|[B1 [rc' [cap' [I1 [C1 E']]]]]].
        { destruct (K1 w k' A1) as [[A0 B0]|[-> [B0 E0]]].
          - left. split; auto. congruence.
          - right. split; [congruence|]. exists rc, cap. split; [left; auto|]. split; [lia|auto]. }
        { right. split; auto. exists rc', cap'. split; [right; auto|auto]. }
    + intros X. destruct (IH st st' H F LP ltac:(intros; eapply A; eauto; right; auto) X) as [LP2 [N2 K2]].
      split; auto. split; auto.
      intros w k' Hk. destruct (K2 w k' Hk) as [L|[B1 [rc' [cap' [I1 [C1 E']]]]]]; [left; auto|].
      right. split; auto. exists rc', cap'. split; [right; auto|auto].
Qed.

(* ---------------------------------------------------------------- the loop *)
Definition untouched (v : nat) (k : Z) : Prop := (v = from /\ k = 0) \/ k = INTMAX.
Definition tight (st : sp_state) (v : nat) (k : Z) : Prop :=
  exists rc, res_arc rf rb (pvn st v) v rc /\ fn st (pvn st v) = true /\ k = dd st (pvn st v) + rc.

Definition TI (st : sp_state) : Prop :=
  length (sp_prev st) = nv /\
  (forall v k, has (sp_h st) v k -> untouched v k \/ tight st v k) /\
  (forall v, fn st v = true -> untouched v (dd st v) \/ tight st v (dd st v)).

Definition TPost (st : sp_state) : Prop :=
  forall v, fn st v = true -> untouched v (dd st v) \/ tight st v (dd st v).

Theorem dijkstra_tight : forall fuel st st' l, J nv rf rb st -> TI st ->
  dijkstra fuel e rf rb st = Some (st', l) -> TPost st'.
Proof.
  induction fuel as [|f IH]; intros st st' l Jst Tst; cbn [dijkstra]; [discriminate|].
  destruct (oget (fst (sp_h st)) 0) as [[u du]|] eqn:E0; [|discriminate]. cbn [bind fst snd].
  assert (S0 : slot (sp_h st) 0 = Some (u, du)) by exact E0.
  assert (HU : has (sp_h st) u du) by (exists O; auto).
  destruct Tst as [LP [T1 T2]].
  pose proof Jst as [HH [LD [LF [J2 [J2' _]]]]].
  destruct (J2' u (has_entry _ _ _ HU)) as [FU LU].
  set (st1 := {| sp_h := sp_h st; sp_d := upd (sp_d st) u (fun _ => du); sp_prev := sp_prev st;
                 sp_final := upd (sp_final st) u (fun _ => true) |}).
  assert (D1 : forall w, dd st1 w = if (w =? u)%nat then du else dd st w).
  { intros w. unfold dd, st1. cbn [sp_d]. rewrite nz_upd_local. rewrite (Nat.eqb_sym w u).
    assert (E : (u <? length (sp_d st))%nat = true) by (apply Nat.ltb_lt; lia). rewrite E, andb_true_r. reflexivity. }
  assert (F1 : forall w, fn st1 w = if (w =? u)%nat then true else fn st w).
  { intros w. unfold fn, fin, st1. cbn [sp_final]. rewrite (nth_upd_local (fun _ => true) false). rewrite (Nat.eqb_sym w u).
    assert (E : (u <? length (sp_final st))%nat = true) by (apply Nat.ltb_lt; lia). rewrite E, andb_true_r. reflexivity. }
  (* a tight witness survives the finalisation of u: its predecessor is an OLD finalised node *)
  assert (KEEP : forall (s' : sp_state) v k,
            (forall w, dd s' w = if (w =? u)%nat then du else dd st w) ->
            (forall w, fn s' w = if (w =? u)%nat then true else fn st w) ->
            pvn s' v = pvn st v -> tight st v k -> tight s' v k).
  { intros s' v k DS FS PS [rc [R [Fp E]]]. exists rc. rewrite PS.
    assert (N : (pvn st v =? u)%nat = false) by (apply Nat.eqb_neq; intros X; rewrite X in Fp; congruence).
    split; auto. split; [rewrite FS, N; auto|rewrite DS, N; auto]. }
  destruct (nz e u <? 0) eqn:EX.
  - intros X. injection X as <- <-. fold st1. intros v Fv. rewrite F1 in Fv. rewrite D1.
    destruct (v =? u)%nat eqn:Ev.
    + apply Nat.eqb_eq in Ev. subst v. destruct (T1 u du HU) as [U|T]; [left; auto|right].
      apply (KEEP st1 u du D1 F1 eq_refl T).
    + destruct (T2 v Fv) as [U|T]; [left; auto|right]. apply (KEEP st1 v _ D1 F1 eq_refl T).
  - destruct (heap_remove_first (sp_h st1)) as [h1|] eqn:ER; [|discriminate]. cbn [bind].
    set (st2 := {| sp_h := h1; sp_d := sp_d st1; sp_prev := sp_prev st1; sp_final := sp_final st1 |}).
    destruct (relax_fwd u du st2 (nth u rf [])) as [st3|] eqn:E3; [|discriminate]. cbn [bind].
    destruct (relax_bwd u du st3 (nth u rb [])) as [st4|] eqn:E4; [|discriminate]. cbn [bind].
    destruct (fst (sp_h st4)) eqn:NE; [discriminate|]. intros X.
    change (sp_h st1) with (sp_h st) in ER.
    pose proof (J_step nv rf rb RA st u du h1 st3 st4 Jst S0 ER E3 E4) as J4.
    destruct (J_step_facts nv rf rb RA st u du h1 st3 st4 Jst S0 ER E3 E4)
      as [DD [FF [H1 [TF1 [H3 [TF3 [M1 [EN3 _]]]]]]]].
    apply (IH st4 st' l J4); auto. clear X NE IH.
    assert (A3 : forall v rc, In (v, rc) (nth u rf []) -> (v < nv)%nat /\ 0 <= rc)
      by (intros v rc Hin; apply (RA u v rc); left; auto).
    assert (A4 : forall v rc cap, In (v, rc, cap) (nth u rb []) -> 0 < cap -> (v < nv)%nat /\ 0 <= rc)
      by (intros v rc cap Hin Hc; apply (RA u v rc); right; exists cap; auto).
    destruct (relax_fwd_pk u du _ st2 st3 H1 TF1 LP A3 E3) as [LP3 [N3 K3]].
    destruct (relax_bwd_pk u du _ st3 st4 H3 TF3 LP3 A4 E4) as [LP4 [N4 K4]].
    change (sp_h st2) with h1 in *. change (pvn st2) with (pvn st) in *.
    (* predecessors of nodes outside the heap h1 (the finalised ones, u included) are unchanged *)
    assert (PV : forall w, ~ is_entry h1 w -> pvn st4 w = pvn st w).
    { intros w Nw. rewrite N4 by (rewrite EN3; auto). apply N3; auto. }
    assert (NOTIN : forall w, fn st w = true \/ w = u -> ~ is_entry h1 w).
    { intros w C X0. destruct (entry_has _ _ X0) as [k Hk]. apply M1 in Hk. destruct Hk as [Hk Nw].
      destruct C as [C|C]; [|auto]. destruct (J2' w (has_entry _ _ _ Hk)). congruence. }
    assert (NEWT : forall w rc, res_arc rf rb u w rc -> pvn st4 w = u -> tight st4 w (du + rc)).
    { intros w rc R Pw. exists rc. rewrite Pw. split; auto. split; [rewrite FF, Nat.eqb_refl; auto|rewrite DD, Nat.eqb_refl; auto]. }
    split; auto. split.
    + intros v k Hk. destruct (K4 v k Hk) as [[A1 B1]|[B1 [rc [cap [I1 [C1 E']]]]]].
      * destruct (K3 v k A1) as [[A0 B0]|[B0 [rc [I0 Ek]]]].
        { apply M1 in A0. destruct A0 as [A0 Nv]. destruct (T1 v k A0) as [U|T]; [left; auto|right].
          apply (KEEP st4 v k DD FF); auto. congruence. }
        { right. subst k. apply NEWT; [left; auto|congruence]. }
      * right. subst k. apply NEWT; [right; exists cap; auto|auto].
    + intros v Fv. rewrite FF in Fv. rewrite DD. destruct (v =? u)%nat eqn:Ev.
      * apply Nat.eqb_eq in Ev. subst v. destruct (T1 u du HU) as [U|T]; [left; auto|right].
        apply (KEEP st4 u du DD FF); auto; apply PV; apply NOTIN; auto.
      * destruct (T2 v Fv) as [U|T]; [left; auto|right]. apply (KEEP st4 v _ DD FF); auto; apply PV; apply NOTIN; auto.
Qed.

(* the heap built by compute_shortest_path satisfies TI *)
Lemma TI_init d prev : (from < nv)%nat -> length prev = nv ->
  TI {| sp_h := heap_init nv from; sp_d := d; sp_prev := prev; sp_final := repeat false nv |}.
Proof.
  intros H LP. split; auto. split.
  - intros v k [p Hp]. left. destruct (heap_init_slots nv from H) as [S0 [SP _]].
    destruct p as [|p].
    + cbn [sp_h] in Hp. rewrite S0 in Hp. injection Hp as <- <-. left. auto.
    + cbn [sp_h] in Hp. pose proof (slot_lt _ _ _ Hp) as L.
      assert (SZ : hsize (heap_init nv from) = nv) by (destruct (heap_init_ok nv from H) as [_ [A _]]; exact A).
      destruct (SP (S p) ltac:(lia)) as [w Hw]. rewrite Hw in Hp. injection Hp as <- <-. right. auto.
  - intros v Fv. exfalso. unfold fn, fin in Fv. cbn [sp_final] in Fv.
    destruct (Nat.lt_ge_cases v nv); [rewrite nth_repeat in Fv|rewrite nth_overflow in Fv by (rewrite repeat_length; auto)]; discriminate.
Qed.

(* tightness for the call made by compute_shortest_path: every finalised node other than the start
   node whose label is below the initial max was reached through a residual arc from a finalised
   predecessor with  d[node] = d[prev] + reduced cost *)
Theorem dijkstra_prev_tight d prev st l : (from < nv)%nat -> length d = nv -> length prev = nv ->
  dijkstra (S nv) e rf rb {| sp_h := heap_init nv from; sp_d := d; sp_prev := prev; sp_final := repeat false nv |}
    = Some (st, l) ->
  TPost st.
Proof.
  intros H LD LP E. eapply dijkstra_tight; eauto.
  - apply J_init; auto.
  - apply TI_init; auto.
Qed.
End Tight.
