(* C01 — the reference variant (true infinity in augment) ALWAYS RETURNS from augment under has_PM, and end to end:
   under the one premise that the eps-retry passes of augmenting row reduction return within the model's fuel,
   lapjv_ref Fixed returns an optimal perfect matching with inverse permutations. *)
From Coq Require Import ZArith List Bool Lia ZifyBool Arith.
From Centro Require Import Proofs.LapjvGrid Base.Sx Model.Lapjv Spec.Lapjv Proofs.LapjvCert Proofs.LapjvPhases Proofs.LapjvArr Proofs.LapjvRows
  Proofs.LapjvRt Proofs.LapjvHall Proofs.LapjvBsearch Proofs.LapjvArrExt Proofs.LapjvExtModel Proofs.LapjvAugMarks Proofs.LapjvAugFlip
  Proofs.LapjvAugPred Proofs.LapjvAugRows Proofs.LapjvAugPrice Proofs.LapjvPerm Proofs.LapjvFixedPerm Proofs.LapjvAugStamps
  Proofs.LapjvAugOpt Proofs.LapjvAugDist Proofs.LapjvAugDistR Proofs.LapjvRefPerm Proofs.LapjvAugDistHypR Proofs.LapjvAugTotalR Proofs.LapjvReservedOpt.
Import ListNotations.
Open Scope Z_scope.

Section RowTotal.
Variables (n : nat) (rows : list (list (nat * ext))).
Hypothesis Rfin : forall i j c, In (j, c) (row rows i) -> (j < n)%nat /\ exists z, c = Fin z.
Hypothesis Rnodup : forall i, NoDup (map fst (row rows i)).
Hypothesis NoBlock : forall L C : list nat, NoDup L -> (forall i, In i L -> (i < n)%nat) ->
  (forall i j c, In i L -> In (j, c) (row rows i) -> In j C) -> (length L <= length C)%nat.
Hypothesis Lookup : forall i j c, In (j, c) (row rows i) -> cost_at (rowget rows i) j <> None.

Lemma aug_loop_row_totalR (s : main_state) (r : nat) d o p :
  St n s -> Inv n rows (m_x s) (m_y s) (m_v s) -> (r < n)%nat -> free n (m_y s) r ->
  (forall j, getn (m_done s) j n <> r) -> (forall j, getn (m_ontodo s) j n <> r) ->
  aug_init_row r (m_v s) (rowget rows r) (repeat PInf n) (m_ontodo s) (m_pred s) = (d, o, p) ->
  exists res, aug_loop (S (S n)) r n PInf rows (m_y s) (m_v s) (mkAug d p (m_done s) o (map fst (rowget rows r)) [] [] PInf) = Some res.
Proof.
  intros HS HI Hr Fr Hd Ho EI.
  pose proof HS as [Lx [Ly [Ld [Lo [Lp PI]]]]]. pose proof HI as [_ [_ [FV _]]].
  pose proof (aug_init_row_dist r n (m_v s) FV (rowget rows r) (repeat PInf n) (m_ontodo s) (m_pred s)
                (Rnodup r) (fun j c H => Rfin r j c H) ltac:(apply repeat_length) Lo Lp) as AD.
  pose proof (aug_init_row_marks r n rows (m_v s) (fun i j c H => proj1 (Rfin i j c H)) (rowget rows r) (repeat PInf n)
                (m_ontodo s) (m_pred s) (fun j c H => proj1 (Rfin r j c H)) Lo) as AM.
  rewrite EI in AD, AM. destruct AD as [Ld' [Lp' [In' Out']]]. destruct AM as [Lo' _].
  assert (Cols : forall j, In j (map fst (rowget rows r)) -> exists z, In (j, Fin z) (row rows r)).
  { intros j Hj. apply in_map_iff in Hj as [[j' c] [<- Hin]]. destruct (Rfin r j' c Hin) as [_ [z ->]]. exists z. exact Hin. }
  assert (OutD : forall j, (j < n)%nat -> ~ In j (map fst (rowget rows r)) -> gete d j = PInf).
  { intros j Hj Nj. destruct (Out' j Nj) as [E _]. rewrite E. unfold gete.
    rewrite (nth_indep _ NaN PInf) by (rewrite repeat_length; auto). apply nth_repeat. }
  rewrite (aug_loop_umin_irrelevant r n PInf rows (m_y s) (m_v s) d p (m_done s) o (map fst (rowget rows r)) [] PInf (Fin 0)).
  set (g0 := mkAug d p (m_done s) o (map fst (rowget rows r)) [] [] (Fin 0)) in *.
  assert (RowFin : forall j, In j (map fst (rowget rows r)) -> fin (g_d g0) j).
  { intros j Hj. destruct (Cols j Hj) as [z Hz]. destruct (In' j z Hz) as [E _]. unfold fin, g0. cbn [g_d]. eauto. }
  assert (K0 : LapjvAugDistR.K r n rows (m_y s) (m_v s) g0 0).
  { constructor; unfold g0; cbn [g_d g_pred g_done g_ontodo g_todo g_scan g_ready g_umin app].
    - unfold Marks. cbn [g_done g_ontodo g_todo g_scan g_ready app].
      refine (conj Ld (conj Lo' (conj (Rnodup r) (conj _ (conj (NoDup_nil _) _))))).
      + intros j Hj. destruct (Cols j Hj) as [z Hz]. split; [apply (Rfin r j _ Hz)|apply (In' j z Hz)].
      + intros j [].
    - reflexivity.
    - intros j [].
    - intros j [].
    - intros H. contradiction.
    - exact Ld'.
    - intros j Hj. destruct (in_dec Nat.eq_dec j (map fst (rowget rows r))) as [Hin|Nin]; [left; apply (RowFin j Hin)|right; apply OutD; auto].
    - exact Lp'.
    - intros j Hj Nt _. apply OutD; auto.
    - intros j Hj E. destruct (in_dec Nat.eq_dec j (map fst (rowget rows r))) as [Hin|Nin]; auto.
      exfalso. destruct (Out' j Nin) as [_ [Eo _]]. rewrite Eo in E. apply (Ho j E).
    - intros j Hj E. exfalso. apply (Hd j E).
    - intros j Hj. rewrite app_nil_r in Hj. destruct (Cols j Hj) as [z Hz]. destruct (In' j z Hz) as [E1 [E2 _]].
      left. split; auto. exists z. split; auto. unfold dz. rewrite E1. reflexivity.
    - intros j Hj. rewrite app_nil_r in Hj. apply (RowFin j Hj).
    - intros j []. }
  assert (F0 : LapjvAugDistR.Fd r rows (m_v s) (g_d g0)).
  { intros j c Hc. unfold g0. cbn [g_d]. destruct (In' j c Hc) as [E _]. split; [eexists; eauto|]. unfold dz. rewrite E. lia. }
  assert (G0 : LapjvAugDistR.Gd n rows (m_y s) (m_v s) (g_d g0) (g_ready g0)) by (intros jh j c ch []).
  apply (aug_loop_totalR r n rows (m_x s) (m_y s) (m_v s) Rfin HI NoBlock Rnodup Lookup FV Hr Fr (S (S n)) g0 0 K0 F0 G0).
  unfold g0. cbn [g_ready length]. lia.
Qed.

Lemma Rfin1' : forall i j c, In (j, c) (row rows i) -> (j < n)%nat.
Proof. intros i j c H. apply (Rfin i j c H). Qed.

(* augment for one free row returns *)
Theorem aug_row_totalR (s : main_state) (r : nat) (rest : list nat) :
  St n s -> Inv n rows (m_x s) (m_y s) (m_v s) -> Pending n (m_y s) (r :: rest) -> Hyg n s (r :: rest) ->
  exists s2, aug_row n PInf rows (Some s) r = Some s2.
Proof.
  intros HS HI [ND PF] HY. pose proof HS as [Lx [Ly [Ld [Lo [Lp PI]]]]]. unfold aug_row.
  destruct (PF r (or_introl eq_refl)) as [Hr Fr].
  pose proof (aug_flip_full r n rows (m_x s) (m_y s) (m_v s) PInf Rfin1' Rnodup s) as AFF. cbn zeta in AFF.
  pose proof (aug_loop_row_totalR s r) as ALT.
  destruct (aug_init_row r (m_v s) (rowget rows r) (repeat PInf n) (m_ontodo s) (m_pred s)) as [[d o] p].
  destruct (ALT d o p HS HI Hr Fr (fun j => proj1 (HY j r (or_introl eq_refl))) (fun j => proj2 (HY j r (or_introl eq_refl))) eq_refl)
    as [[g' j1] EL].
  rewrite EL.
  destruct (AFF g' j1 Lx Ly Hr Fr PI Ld Lo Lp EL) as [x' [y' [EF _]]]. rewrite EF. eauto.
Qed.

(* augment for all pending rows returns *)
Theorem aug_rows_totalR : forall ii s,
  St n s -> Inv n rows (m_x s) (m_y s) (m_v s) -> Pending n (m_y s) ii -> Hyg n s ii ->
  exists sf, fold_left (aug_row n PInf rows) ii (Some s) = Some sf.
Proof.
  induction ii as [|r rest IH]; intros s HS HI HP HY; cbn [fold_left]; [eauto|].
  destruct (aug_row_totalR s r rest HS HI HP HY) as [s2 E2]. rewrite E2.
  destruct (aug_row_struct n rows PInf Rfin1' Rnodup s r rest HS HP s2 E2) as [S2 [P2 _]].
  pose proof (aug_row_inv n rows PInf Rfin Rnodup s r rest (aug_dist_invR n rows Rfin Rnodup) HS HI HP HY s2 E2) as I2.
  pose proof (aug_row_hyg n rows PInf s r rest (proj1 HP) HY s2 E2) as Y2. apply IH; auto.
Qed.
End RowTotal.

(* ---------------------------------------------------------------- the model *)

(* the one remaining premise: the eps-retry passes of augmenting row reduction return within the model's fuel *)
Definition arr_returns (epsr : Z) (k n : nat) (tri : list triple) : Prop :=
  let rows := rows_of n tri in
  let mi := min_i n tri in
  let x0 := x_init n mi in
  let y0 := y_init n x0 in
  let uv := reduction_transfer Fixed n rows (jflat_of rows) x0 (one_rows n mi) (repeat (Fin 0) n) (v_init n tri) in
  match free_rows n mi with
  | [] => True
  | _ => arr_passes k (arr_fuel n tri) (Fin 0) (Fin epsr) n rows (x0, y0, snd uv, free_rows n mi) <> None
  end.

Lemma arr_returns_b_spec epsr k n tri : arr_returns_b epsr k n tri = true <-> arr_returns epsr k n tri.
Proof.
  unfold arr_returns_b, arr_returns. cbn zeta.
  destruct (free_rows n (min_i n tri)); [tauto|].
  match goal with |- context [match ?a with None => false | Some _ => true end] => destruct a end; split; intros H; try discriminate; auto.
  all: try (exfalso; apply H; reflexivity).
Qed.

Section Model.
Variables (n : nat) (tri : list triple).
Hypothesis Hrange : forall t, In t tri -> (t_i t < n)%nat /\ (t_j t < n)%nat.
Hypothesis Hpairs : NoDup (map fst tri).
Hypothesis Hcols : forall j, (j < n)%nat -> exists t, In t tri /\ t_j t = j.
Hypothesis HPM : has_PM n tri.
Variable k : nat.
Hypothesis Hk : k = 0%nat \/ forall i, (i < n)%nat -> (2 <= length (filter (fun t => (t_i t =? i)%nat) tri))%nat.

Lemma model_lookup : forall i j c, In (j, c) (row (rows_of n tri) i) -> cost_at (rowget (rows_of n tri) i) j <> None.
Proof. intros i j c H. destruct (cost_at_listed n tri i j c Hpairs H) as [c' [E _]]. rewrite E. discriminate. Qed.

(* augment of the reference variant always returns: from ANY state that phases 1-3 hand over *)
Theorem lapjv_ref_augment_total : forall epsr x2 y2 v2 ii, 0 <= epsr ->
  let rows := rows_of n tri in
  let mi := min_i n tri in
  let x0 := x_init n mi in
  let y0 := y_init n x0 in
  let uv := reduction_transfer Fixed n rows (jflat_of rows) x0 (one_rows n mi) (repeat (Fin 0) n) (v_init n tri) in
  match free_rows n mi with
  | [] => Some (x0, y0, snd uv, free_rows n mi)
  | _ => arr_passes k (arr_fuel n tri) (Fin 0) (Fin epsr) n rows (x0, y0, snd uv, free_rows n mi)
  end = Some (x2, y2, v2, ii) ->
  exists sf, fold_left (aug_row n PInf rows) ii
               (Some (mkMain x2 y2 v2 (repeat (Fin 0) n) (repeat 1%nat n) (repeat n n) (repeat n n))) = Some sf.
Proof.
  intros epsr x2 y2 v2 ii Her. cbn zeta. intros EA.
  destruct (phases123_inv_k n tri Hrange Hpairs Hcols epsr (arr_fuel n tri) k x2 y2 v2 ii Hk Her EA) as [HI HP].
  set (s0 := mkMain x2 y2 v2 (repeat (Fin 0) n) (repeat 1%nat n) (repeat n n) (repeat n n)).
  assert (S0 : St n s0).
  { destruct HI as [Lx2 [Ly2 [_ SL]]]. unfold St, s0. cbn [m_x m_y m_done m_ontodo m_pred].
    rewrite !repeat_length. refine (conj Lx2 (conj Ly2 (conj eq_refl (conj eq_refl (conj eq_refl _))))).
    intros j i Hj _ Ey' Ne. destruct (SL j i Hj Ey' Ne) as [A [B _]]. split; auto. }
  apply (aug_rows_totalR n (rows_of n tri) (rows_fin n tri Hrange) (rows_nodup n tri Hpairs) (noblock_model n tri Hrange HPM)
           model_lookup ii s0 S0); auto.
  intros j i Hi. unfold s0. cbn [m_done m_ontodo]. unfold getn. rewrite !nth_repeat.
  destruct (proj2 HP i Hi) as [Hlt _]. split; lia.
Qed.

(* the whole solver returns, given that augmenting row reduction does *)
Theorem lapjv_ref_fixed_total : forall epsr, 0 <= epsr -> arr_returns epsr k n tri ->
  exists x y u v, lapjv_ref Fixed 0 epsr k n tri = Some (x, y, u, v).
Proof.
  intros epsr Her AR. unfold arr_returns in AR. cbn zeta in AR. unfold lapjv_ref.
  pose proof (lapjv_ref_augment_total epsr) as AT. cbn zeta in AT.
  pose proof (fun x y v ii => phases123_inv_k n tri Hrange Hpairs Hcols epsr (arr_fuel n tri) k x y v ii Hk) as P123. cbn zeta in P123.
  pose proof (phase1_comp n tri) as C1.
  destruct (reduction_transfer Fixed n (rows_of n tri) (jflat_of (rows_of n tri)) (x_init n (min_i n tri))
              (one_rows n (min_i n tri)) (repeat (Fin 0) n) (v_init n tri)) as [u1 v1]. cbn [snd] in AR, AT, P123.
  set (arr := match free_rows n (min_i n tri) with
              | [] => Some (x_init n (min_i n tri), y_init n (x_init n (min_i n tri)), v1, free_rows n (min_i n tri))
              | _ => arr_passes k (arr_fuel n tri) (Fin 0) (Fin epsr) n (rows_of n tri)
                       (x_init n (min_i n tri), y_init n (x_init n (min_i n tri)), v1, free_rows n (min_i n tri))
              end) in *.
  destruct arr as [[[[x2 y2] v2] ii]|] eqn:EA.
  2:{ exfalso. unfold arr in EA. destruct (free_rows n (min_i n tri)); [discriminate|contradiction]. }
  destruct (P123 x2 y2 v2 ii Her eq_refl) as [HI HP].
  assert (HC : length y2 = n /\ Comp n y2 ii).
  { destruct HI as [_ [Ly2 _]]. split; auto. unfold arr in EA.
    destruct (free_rows n (min_i n tri)) as [|f0 fr] eqn:EF.
    - injection EA as Ex Ey Ev Ei. rewrite <- Ey, <- Ei. exact C1.
    - eapply (arr_passes_comp n (rows_of n tri) (fun i j c H => proj1 (rows_fin n tri Hrange i j c H))); [|exact C1|exact EA].
      unfold y_init. rewrite y_init_go_length, repeat_length. reflexivity. }
  destruct HC as [Ly2 HC].
  destruct (AT x2 y2 v2 ii Her eq_refl) as [s EFold]. rewrite EFold.
  set (s0 := mkMain x2 y2 v2 (repeat (Fin 0) n) (repeat 1%nat n) (repeat n n) (repeat n n)) in *.
  assert (S0 : St n s0).
  { destruct HI as [Lx2 [_ [_ SL]]]. unfold St, s0. cbn [m_x m_y m_done m_ontodo m_pred].
    rewrite !repeat_length. refine (conj Lx2 (conj Ly2 (conj eq_refl (conj eq_refl (conj eq_refl _))))).
    intros j i Hj _ Ey' Ne. destruct (SL j i Hj Ey' Ne) as [A [B _]]. split; auto. }
  assert (Hy0 : Hyg n s0 ii).
  { intros j i Hi. unfold s0. cbn [m_done m_ontodo]. unfold getn. rewrite !nth_repeat.
    destruct (proj2 HP i Hi) as [Hlt _]. split; lia. }
  destruct (aug_rows_struct n (rows_of n tri) PInf (fun i j c H => proj1 (rows_fin n tri Hrange i j c H))
              (rows_nodup n tri Hpairs) ii s0 s S0 HP EFold) as [[Lx [Ly [_ [_ [_ PI]]]]] Cnt].
  unfold s0 in Cnt. cbn [m_y] in Cnt. pose proof (comp_count n y2 ii HC) as CC.
  assert (IV : Inverse n (m_x s) (m_y s)) by (apply perm_of_full; auto; apply all_assigned; lia).
  pose proof (aug_rows_inv n (rows_of n tri) PInf (rows_fin n tri Hrange) (rows_nodup n tri Hpairs)
                (aug_dist_invR n (rows_of n tri) (rows_fin n tri Hrange) (rows_nodup n tri Hpairs)) ii s0 s S0 HI HP Hy0 EFold)
    as [_ [_ [_ SLf]]].
  destruct (final_u_defined n tri (m_v s) Hpairs (m_x s) Lx) as [uf [EU _]].
  { intros i Hi. destruct IV as [_ [_ [F1 _]]]. destruct (F1 i Hi) as [Hx Hy].
    assert (Gx : getn (m_y s) (col (m_x s) i) n = i).
    { unfold getn. rewrite (nth_indep _ n 0%nat) by lia. exact Hy. }
    destruct (SLf (col (m_x s) i) i Hx Gx ltac:(lia)) as [_ [_ [c0 [Hc0 _]]]].
    exists (Fin c0). rewrite (nth_indep _ n 0%nat) by lia. exact Hc0. }
  rewrite EU. eauto.
Qed.

(* end to end, reference variant: returns an optimal perfect matching with inverse permutations *)
Theorem lapjv_ref_fixed_correct : forall epsr, 0 <= epsr -> arr_returns epsr k n tri ->
  exists x y u v, lapjv_ref Fixed 0 epsr k n tri = Some (x, y, u, v) /\ Optimal n tri x /\ Inverse n x y.
Proof.
  intros epsr Her AR. destruct (lapjv_ref_fixed_total epsr Her AR) as [x [y [u [v E]]]].
  exists x, y, u, v. split; [exact E|]. split.
  - apply (lapjv_ref_fixed_optimal_gen n tri Hrange Hpairs Hcols HPM epsr k x y u v Hk Her E).
  - apply (lapjv_ref_fixed_pm n tri Hrange Hpairs Hcols HPM epsr k x y u v Her E).
Qed.

Corollary lapjv_ref_fixed_total_b : forall epsr, 0 <= epsr -> arr_returns_b epsr k n tri = true ->
  exists x y u v, lapjv_ref Fixed 0 epsr k n tri = Some (x, y, u, v).
Proof. intros epsr Her H. apply lapjv_ref_fixed_total; auto. apply arr_returns_b_spec; auto. Qed.

Corollary lapjv_ref_fixed_correct_b : forall epsr, 0 <= epsr -> arr_returns_b epsr k n tri = true ->
  exists x y u v, lapjv_ref Fixed 0 epsr k n tri = Some (x, y, u, v) /\ Optimal n tri x /\ Inverse n x y.
Proof. intros epsr Her H. apply lapjv_ref_fixed_correct; auto. apply arr_returns_b_spec; auto. Qed.

(* the same with the eps band ON (e.g. the code's 2^-26 at both places) for costs on a grid coarser than eps *)
Corollary lapjv_ref_fixed_correct_grid : forall g eps epsr,
  0 <= eps < g -> 0 <= epsr < g -> (forall t, In t tri -> (g | t_c t)) -> arr_returns_b 0 k n tri = true ->
  exists x y u v, lapjv_ref Fixed eps epsr k n tri = Some (x, y, u, v) /\ Optimal n tri x /\ Inverse n x y.
Proof.
  intros g eps epsr He Her Hg H. rewrite (eps_irrelevant_on_grid_ref g Fixed eps epsr k n tri He Her Hg).
  apply lapjv_ref_fixed_correct_b; [lia|exact H].
Qed.

(* the premise is also necessary: whenever the solver returns, augmenting row reduction returned *)
Lemma lapjv_ref_returns_arr : forall epsr x y u v,
  lapjv_ref Fixed 0 epsr k n tri = Some (x, y, u, v) -> arr_returns_b epsr k n tri = true.
Proof.
  intros epsr x y u v. unfold lapjv_ref, arr_returns_b.
  destruct (reduction_transfer Fixed n (rows_of n tri) (jflat_of (rows_of n tri)) (x_init n (min_i n tri))
              (one_rows n (min_i n tri)) (repeat (Fin 0) n) (v_init n tri)) as [u1 v1]. cbn [snd].
  destruct (free_rows n (min_i n tri)); [intros _; reflexivity|].
  match goal with |- context [match ?a with None => false | Some _ => true end] => destruct a end; [intros _; reflexivity|discriminate].
Qed.
End Model.

(* the two instances: (a) every row lists >= 2 candidates, any number of augmenting row reduction passes *)
Section Instances.
Variables (n : nat) (tri : list triple).
Hypothesis Hrange : forall t, In t tri -> (t_i t < n)%nat /\ (t_j t < n)%nat.
Hypothesis Hpairs : NoDup (map fst tri).
Hypothesis Hcols : forall j, (j < n)%nat -> exists t, In t tri /\ t_j t = j.
Hypothesis HPM : has_PM n tri.

Definition C2 := forall i, (i < n)%nat -> (2 <= length (filter (fun t => (t_i t =? i)%nat) tri))%nat.

Theorem ref_augment_total_2 : C2 -> forall epsr k x2 y2 v2 ii, 0 <= epsr ->
  let rows := rows_of n tri in
  let mi := min_i n tri in
  let x0 := x_init n mi in
  let y0 := y_init n x0 in
  let uv := reduction_transfer Fixed n rows (jflat_of rows) x0 (one_rows n mi) (repeat (Fin 0) n) (v_init n tri) in
  match free_rows n mi with
  | [] => Some (x0, y0, snd uv, free_rows n mi)
  | _ => arr_passes k (arr_fuel n tri) (Fin 0) (Fin epsr) n rows (x0, y0, snd uv, free_rows n mi)
  end = Some (x2, y2, v2, ii) ->
  exists sf, fold_left (aug_row n PInf rows) ii
               (Some (mkMain x2 y2 v2 (repeat (Fin 0) n) (repeat 1%nat n) (repeat n n) (repeat n n))) = Some sf.
Proof. intros H2 epsr k. exact (lapjv_ref_augment_total n tri Hrange Hpairs Hcols HPM k (or_intror H2) epsr). Qed.

Theorem ref_total_2 : C2 -> forall epsr k, 0 <= epsr -> arr_returns_b epsr k n tri = true ->
  exists x y u v, lapjv_ref Fixed 0 epsr k n tri = Some (x, y, u, v).
Proof. intros H2 epsr k. exact (lapjv_ref_fixed_total_b n tri Hrange Hpairs Hcols HPM k (or_intror H2) epsr). Qed.

Theorem ref_correct_2 : C2 -> forall epsr k, 0 <= epsr -> arr_returns_b epsr k n tri = true ->
  exists x y u v, lapjv_ref Fixed 0 epsr k n tri = Some (x, y, u, v) /\ Optimal n tri x /\ Inverse n x y.
Proof. intros H2 epsr k. exact (lapjv_ref_fixed_correct_b n tri Hrange Hpairs Hcols HPM k (or_intror H2) epsr). Qed.

Theorem ref_correct_grid_2 : C2 -> forall g eps epsr k,
  0 <= eps < g -> 0 <= epsr < g -> (forall t, In t tri -> (g | t_c t)) -> arr_returns_b 0 k n tri = true ->
  exists x y u v, lapjv_ref Fixed eps epsr k n tri = Some (x, y, u, v) /\ Optimal n tri x /\ Inverse n x y.
Proof. intros H2 g eps epsr k. exact (lapjv_ref_fixed_correct_grid n tri Hrange Hpairs Hcols HPM k (or_intror H2) g eps epsr). Qed.

(* (b) augmenting_row_reductions = 0: NO premise at all and ANY rows (one-candidate rows included), any eps *)
Lemma lapjv_ref_k0_eps rt eps epsr : lapjv_ref rt eps epsr 0 n tri = lapjv_ref rt 0 0 0 n tri.
Proof. unfold lapjv_ref. cbn [arr_passes]. reflexivity. Qed.

Lemma arr_returns_k0 epsr : arr_returns_b epsr 0 n tri = true.
Proof. unfold arr_returns_b. cbn [arr_passes]. destruct (free_rows n (min_i n tri)); reflexivity. Qed.

Theorem ref_correct_k0 : forall eps epsr,
  exists x y u v, lapjv_ref Fixed eps epsr 0 n tri = Some (x, y, u, v) /\ Optimal n tri x /\ Inverse n x y.
Proof.
  intros eps epsr. rewrite lapjv_ref_k0_eps.
  apply (lapjv_ref_fixed_correct_b n tri Hrange Hpairs Hcols HPM 0%nat (or_introl eq_refl) 0 (Z.le_refl 0) (arr_returns_k0 0)).
Qed.

(* (c) phases 1-3 leave no pending row: ANY rows (one-candidate rows included), ANY number of passes - the result of
   augmenting row reduction with its reserved (-inf priced) block is already optimal (LapjvReservedOpt) *)
Theorem ref_correct_nofree : forall epsr k, 0 <= epsr -> arr_nofree_b epsr k n tri = true ->
  exists x y u v, lapjv_ref Fixed 0 epsr k n tri = Some (x, y, u, v) /\ Optimal n tri x /\ Inverse n x y.
Proof.
  intros epsr k Her. unfold arr_nofree_b, lapjv_ref.
  pose proof (phases123_all_assigned_optimal n tri Hrange Hpairs Hcols HPM epsr (arr_fuel n tri) k) as PO.
  pose proof (phases123_inv_ext n tri Hrange Hpairs Hcols HPM epsr (arr_fuel n tri) k) as PE. cbn zeta in PO, PE.
  destruct (reduction_transfer Fixed n (rows_of n tri) (jflat_of (rows_of n tri)) (x_init n (min_i n tri))
              (one_rows n (min_i n tri)) (repeat (Fin 0) n) (v_init n tri)) as [u1 v1]. cbn [snd] in *.
  set (arr := match free_rows n (min_i n tri) with
              | [] => Some (x_init n (min_i n tri), y_init n (x_init n (min_i n tri)), v1, free_rows n (min_i n tri))
              | _ => arr_passes k (arr_fuel n tri) (Fin 0) (Fin epsr) n (rows_of n tri)
                       (x_init n (min_i n tri), y_init n (x_init n (min_i n tri)), v1, free_rows n (min_i n tri))
              end) in *.
  destruct arr as [[[[x2 y2] v2] ii]|] eqn:EA; [|discriminate].
  destruct ii as [|i0 ii]; [|discriminate]. intros _.
  destruct (PO x2 y2 v2 Her eq_refl) as [IV OPT].
  destruct (PE x2 y2 v2 [] Her eq_refl) as [[Lx [Ly [_ [SL _]]]] _].
  cbn [fold_left m_x m_y m_v].
  destruct (final_u_defined n tri v2 Hpairs x2 Lx) as [uf [EU _]].
  { intros i Hi. destruct IV as [_ [_ [F1 _]]]. destruct (F1 i Hi) as [Hx Hy].
    assert (Gx : getn y2 (col x2 i) n = i) by (unfold getn; rewrite (nth_indep _ n 0%nat) by lia; exact Hy).
    destruct (SL (col x2 i) i Hx Gx ltac:(lia)) as [_ [_ [c0 [Hc0 _]]]].
    exists (Fin c0). rewrite (nth_indep _ n 0%nat) by lia. exact Hc0. }
  rewrite EU. exists x2, y2, uf, v2. auto.
Qed.
End Instances.

(* ---------------------------------------------------------------- the model's fuel for augmenting row reduction is NOT adequate
   on integer cost grids: three rows fight over two cheap columns against alternatives of cost ~10^4; the price war takes
   ~10^4 retries (each lowers a price by the grid step), the model's fuel is 4000 + 40 (n^2 + |tri|) = 5160.  The REAL code
   has no bound on the retries, returns on this input, and its answer is optimal (replayed, reports/C01.md round 13): this is
   a limitation of the model, not a defect of the code. *)
Definition fuel_tri : list triple :=
  [T 0 0 (10000 * 1073741824); T 0 1 (1 * 1073741824); T 0 2 (10001 * 1073741824); T 0 3 (10003 * 1073741824); T 1 0 (10003 * 1073741824); T 1 1 (0 * 1073741824); T 1 2 (10002 * 1073741824); T 1 3 (10002 * 1073741824); T 2 1 (0 * 1073741824); T 2 2 (10001 * 1073741824); T 3 0 (1 * 1073741824); T 3 1 (1 * 1073741824); T 3 3 (2 * 1073741824)].

Theorem arr_fuel_not_total :
  exists n tri k, wf n tri /\ has_PM n tri /\ (forall t, In t tri -> (1073741824 | t_c t)) /\ arr_returns_b 16 k n tri = false.
Proof.
  exists 4%nat, fuel_tri, 1%nat. split; [vm_compute; reflexivity|]. split; [|split].
  - apply (LapjvRefute.wf_has_pm_by _ _ [0; 1; 2; 3]%nat [0; 1; 2; 3]%nat). vm_compute. reflexivity.
  - intros t Ht. unfold fuel_tri in Ht. cbn [In] in Ht.
    repeat (destruct Ht as [<-|Ht]; [eexists; reflexivity|]). destruct Ht.
  - vm_compute. reflexivity.
Qed.

