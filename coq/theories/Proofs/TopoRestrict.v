(* C05 - "... so the Euler number of EVERY OBJECT is preserved": TopoEq restricts to objects.
   If TopoEq X X' and C is a union of 8-components of X ([comps_closed]), then
   TopoEq C (C /\ X'): the object keeps its own component / hole structure, whatever happens to
   the other objects (which may lie inside its holes).  Together with C05_topo_counts_fg/bg this
   is "same number of components (one), same number of holes, same Euler number, per object". *)
From Coq Require Import ZArith List Bool Lia.
From Centro Require Import Base.Topo Proofs.TopoCounts.
Import ListNotations.
Open Scope Z_scope.

Definition comps_closed (X C : img) : Prop :=
  (forall q, C q = true -> X q = true) /\ (forall a b, C a = true -> conn8 X a b -> C b = true).
Definition restr (C X' : img) : img := fun q => C q && X' q.

Section Restrict.
Variables X X' C : img.
Hypothesis T : TopoEq X X'.
Hypothesis CC : comps_closed X C.

Let Csub := proj1 CC.
Let Cclo := proj2 CC.

Lemma near a m : C a = true -> adj8 a m -> X m = true -> C m = true.
Proof.
  intros Ca A Xm. apply (Cclo a m Ca). eapply path_step; [apply Csub; exact Ca|exact A|apply path_refl; exact Xm].
Qed.
Lemma adj4_adj8 a b : adj4 a b -> adj8 a b.
Proof. intros A. split; [apply adj4_neq; exact A|]. unfold adj4 in A. lia. Qed.

Lemma stay a b : conn8 X a b -> C a = true -> path adj8 (fg C) a b.
Proof.
  induction 1 as [a Ha | a m b Ha A P IH]; intros Ca; [apply path_refl; exact Ca|].
  eapply path_step; [exact Ca|exact A|]. apply IH. apply (near a m Ca A). exact (path_start _ _ _ _ P).
Qed.
Lemma stay' a b : conn8 X' a b -> C a = true -> path adj8 (fg (restr C X')) a b.
Proof.
  induction 1 as [a Ha | a m b Ha A P IH]; intros Ca.
  - apply path_refl. unfold fg, restr. rewrite Ca. exact Ha.
  - eapply path_step; [unfold fg, restr; rewrite Ca; exact Ha|exact A|]. apply IH.
    apply (near a m Ca A). apply (te_sub _ _ T). exact (path_start _ _ _ _ P).
Qed.

Lemma bgX_bgC q : bg X q -> bg C q.
Proof. unfold bg. intros H. destruct (C q) eqn:V; [|reflexivity]. apply Csub in V. congruence. Qed.
Lemma bgC_bgR q : bg C q -> bg (restr C X') q.
Proof. unfold bg, restr. intros ->. reflexivity. Qed.
(* a background-of-C pixel 4-adjacent to a pixel of C is background of X *)
Lemma edge a m : bg C a -> adj4 a m -> C m = true -> bg X a.
Proof.
  intros Ba A Cm. unfold bg in *. destruct (X a) eqn:V; [|reflexivity].
  rewrite (near m a Cm (adj8_sym _ _ (adj4_adj8 _ _ A)) V) in Ba. discriminate.
Qed.

Lemma bg_back : forall a b, path adj4 (bg (restr C X')) a b -> bg C b ->
  (bg C a -> conn4 C a b) /\
  (C a = true -> exists m', bg X m' /\ path adj4 (bg X') a m' /\ conn4 C m' b).
Proof.
  induction 1 as [a Ha | a m b Ha A P IH]; intros Bb.
  - split; [intros; apply path_refl; assumption|]. intros Ca. unfold bg in Bb. congruence.
  - destruct (IH Bb) as [IH1 IH2]. pose proof (path_start _ _ _ _ P) as Hm. split.
    + intros Ba. destruct (C m) eqn:Cm.
      * destruct (IH2 eq_refl) as [m' [Bm' [P1 P2]]].
        pose proof (edge a m Ba A Cm) as BXa.
        assert (P0 : path adj4 (bg X') a m').
        { eapply path_step; [apply (sub_bg _ _ T); exact BXa|exact A|exact P1]. }
        apply (te_bg_iff _ _ T a m' BXa Bm') in P0.
        eapply path_trans; [|exact P2]. eapply path_mono; [|exact P0]. exact bgX_bgC.
      * eapply path_step; [exact Ba|exact A|apply IH1; exact Cm].
    + intros Ca.
      assert (BX'a : bg X' a). { unfold bg, restr in Ha. rewrite Ca in Ha. exact Ha. }
      destruct (C m) eqn:Cm.
      * destruct (IH2 eq_refl) as [m' [Bm' [P1 P2]]]. exists m'. split; [exact Bm'|]. split; [|exact P2].
        eapply path_step; [exact BX'a|exact A|exact P1].
      * assert (BXm : bg X m) by (apply (edge m a Cm (adj4_sym _ _ A) Ca)).
        exists m. split; [exact BXm|]. split; [|apply IH1; exact Cm].
        eapply path_step; [exact BX'a|exact A|apply path_refl; apply (sub_bg _ _ T); exact BXm].
Qed.

Lemma bg_out : forall a b0, path adj4 (bg X') a b0 -> bg X b0 -> C a = true ->
  exists m', bg C m' /\ path adj4 (bg (restr C X')) a m'.
Proof.
  induction 1 as [a Ha | a m b0 Ha A P IH]; intros Bb Ca.
  - exfalso. apply Csub in Ca. unfold bg in Bb. congruence.
  - assert (Ra : bg (restr C X') a) by (unfold bg, restr; rewrite Ca; exact Ha).
    destruct (C m) eqn:Cm.
    + destruct (IH Bb eq_refl) as [m' [Bm' P']]. exists m'. split; [exact Bm'|]. eapply path_step; [exact Ra|exact A|exact P'].
    + exists m. split; [exact Cm|]. eapply path_step; [exact Ra|exact A|apply path_refl; apply bgC_bgR; exact Cm].
Qed.

Theorem TopoEq_restrict : TopoEq C (restr C X').
Proof.
  constructor.
  - intros q Hq. unfold fg, restr in *. apply andb_true_iff in Hq. tauto.
  - intros a b Ha Hb. unfold fg, restr in Ha, Hb. apply andb_true_iff in Ha as [Ca Xa], Hb as [Cb Xb]. split; intros P.
    + apply stay'; [|exact Ca]. apply (te_fg_iff _ _ T a b Xa Xb). eapply path_mono; [|exact P]. exact Csub.
    + eapply path_mono; [|exact P]. intros q Hq. unfold fg, restr in Hq. apply andb_true_iff in Hq. tauto.
  - intros a Ca. destruct (te_fg_surj _ _ T a (Csub a Ca)) as [b [Xb P]]. exists b. split.
    + unfold fg, restr. rewrite (Cclo a b Ca P). exact Xb.
    + apply stay; assumption.
  - intros a b Ba Bb. split; intros P.
    + eapply path_mono; [|exact P]. exact bgC_bgR.
    + apply (bg_back a b P Bb). exact Ba.
  - intros a Ra. destruct (C a) eqn:Ca.
    + assert (BX'a : bg X' a) by (unfold bg, restr in Ra; rewrite Ca in Ra; exact Ra).
      destruct (te_bg_surj _ _ T a BX'a) as [b0 [Bb0 P]]. exact (bg_out a b0 P Bb0 Ca).
    + exists a. split; [exact Ca|apply path_refl; exact Ra].
Qed.
End Restrict.
