(* C16 — geometric consequences of the declarative LineSpec and of the scalar model:
   8-connectivity, no pixel written twice, the pixels of draw_line on an image are exactly the
   points of the sequence, LineSpec is symmetric under swapping the end points (reversed
   sequence) although draw_line itself is NOT (witness), and two sequences meeting LineSpec for
   the same line differ only at exact ties. *)
From Coq Require Import ZArith List Bool Lia.
From Centro Require Import Base.Sx Model.Lines Spec.Lines Proofs.Bres Proofs.LinesScalar.
Import ListNotations.
Open Scope Z_scope.

Lemma sgn_to_facts a0 a1 :
  a1 = a0 + sgn_to a0 a1 * Z.abs (a1 - a0) /\ sgn_to a1 a0 = - sgn_to a0 a1 /\
  ((sgn_to a0 a1 = 1 /\ 0 < Z.abs (a1 - a0)) \/ (sgn_to a0 a1 = -1 /\ 0 < Z.abs (a1 - a0)) \/
   (sgn_to a0 a1 = 0 /\ Z.abs (a1 - a0) = 0)).
Proof. unfold sgn_to. destruct (Z.ltb_spec a0 a1), (Z.ltb_spec a1 a0); lia. Qed.

(* ---------------------------------------------------------------- 8-connectivity *)

(* Chebyshev distance *)
Definition cheb (p q : Z * Z) : Z := Z.max (Z.abs (fst q - fst p)) (Z.abs (snd q - snd p)).

Theorem LineSpec_8conn l pts : LineSpec l pts ->
  forall n, (S n < length pts)%nat -> cheb (nth n pts (0, 0)) (nth (S n) pts (0, 0)) = 1.
Proof.
  destruct l as [[i0 j0] [i1 j1]]. unfold LineSpec. intros (Hlen & _ & _ & H) n Hn.
  destruct (H n ltac:(lia)) as (A & B & C). destruct (H (S n) Hn) as (A' & B' & _).
  cbn zeta in *. specialize (C Hn).
  destruct (sgn_to_facts i0 i1) as (_ & _ & Hsi). destruct (sgn_to_facts j0 j1) as (_ & _ & Hsj).
  unfold cheb.
  set (si := sgn_to i0 i1) in *. set (sj := sgn_to j0 j1) in *.
  set (di := Z.abs (i1 - i0)) in *. set (dj := Z.abs (j1 - j0)) in *.
  destruct (nth n pts (0, 0)) as [a b]. destruct (nth (S n) pts (0, 0)) as [a' b'].
  cbn [fst snd] in *. clearbody si sj di dj.
  destruct (Z_le_gt_dec dj di) as [Hle | Hgt].
  - destruct (A Hle) as [Ea _]. destruct (A' Hle) as [Ea' _]. destruct C as [C _]. specialize (C Hle).
    assert (0 < di) by lia.
    destruct Hsi as [[-> _] | [[-> _] | [_ ?]]]; [| |lia];
      (destruct Hsj as [[-> _] | [[-> _] | [-> _]]]; lia).
  - destruct (B ltac:(lia)) as [Eb _]. destruct (B' ltac:(lia)) as [Eb' _]. destruct C as [_ C]. specialize (C ltac:(lia)).
    destruct Hsj as [[-> _] | [[-> _] | [_ ?]]]; [| |lia];
      (destruct Hsi as [[-> _] | [[-> _] | [-> _]]]; lia).
Qed.

(* ---------------------------------------------------------------- no pixel twice *)

Theorem LineSpec_NoDup l pts : LineSpec l pts -> NoDup pts.
Proof.
  destruct l as [[i0 j0] [i1 j1]]. unfold LineSpec. intros (Hlen & _ & _ & H).
  apply (NoDup_nth pts (0, 0)). intros n m Hn Hm E.
  destruct (H n Hn) as (A & B & _). destruct (H m Hm) as (A' & B' & _). cbn zeta in *.
  rewrite <- E in A', B'.
  destruct (sgn_to_facts i0 i1) as (_ & _ & Hsi). destruct (sgn_to_facts j0 j1) as (_ & _ & Hsj).
  set (si := sgn_to i0 i1) in *. set (sj := sgn_to j0 j1) in *.
  set (di := Z.abs (i1 - i0)) in *. set (dj := Z.abs (j1 - j0)) in *.
  destruct (nth n pts (0, 0)) as [a b]. cbn [fst snd] in *. clearbody si sj di dj.
  destruct (Z_le_gt_dec dj di) as [Hle | Hgt].
  - destruct (A Hle) as [Ea _]. destruct (A' Hle) as [Ea' _].
    destruct Hsi as [[-> _] | [[-> _] | [_ ?]]]; lia.
  - destruct (B ltac:(lia)) as [Eb _]. destruct (B' ltac:(lia)) as [Eb' _].
    destruct Hsj as [[-> _] | [[-> _] | [_ ?]]]; lia.
Qed.

(* ---------------------------------------------------------------- pixels on an image *)

Lemma pair_eqb_eq p q : pair_eqb p q = true <-> p = q.
Proof.
  destruct p as [a b], q as [c d]. unfold pair_eqb. cbn [fst snd].
  rewrite andb_true_iff, !Z.eqb_eq. split; [intros [-> ->]; reflexivity|intros E; injection E; auto].
Qed.

Lemma paint_spec pts : forall im v p,
  paint im pts v p = if existsb (pair_eqb p) pts then v else im p.
Proof.
  induction pts as [|q pts IH]; intros im v p; [reflexivity|].
  unfold paint in *. cbn [fold_left existsb]. rewrite IH. unfold set_px.
  change ((fst p =? fst q) && (snd p =? snd q)) with (pair_eqb p q).
  destruct (pair_eqb p q), (existsb (pair_eqb p) pts); reflexivity.
Qed.

Lemma paint_in pts im v p : In p pts -> paint im pts v p = v.
Proof.
  intros Hin. rewrite paint_spec.
  replace (existsb (pair_eqb p) pts) with true; [reflexivity|].
  symmetry. apply existsb_exists. exists p. split; [exact Hin|apply pair_eqb_eq; reflexivity].
Qed.

Lemma paint_out pts im v p : ~ In p pts -> paint im pts v p = im p.
Proof.
  intros Hout. rewrite paint_spec.
  destruct (existsb (pair_eqb p) pts) eqn:E; [|reflexivity].
  apply existsb_exists in E. destruct E as (x & Hx & Ex). apply pair_eqb_eq in Ex. subst x. contradiction.
Qed.

(* draw_line(labels, p0, p1, value) on any image, for all end points and values: the loop
   terminates; afterwards exactly the points of the emitted sequence carry [value], every other
   pixel is unchanged, no pixel is written twice (so max(|dy|,|dx|)+1 distinct pixels are set) *)
Theorem draw_line_pixels im v y0 x0 y1 x1 :
  exists pts, draw_line_pts y0 x0 y1 x1 = Some pts /\
    LineSpec ((y0, x0), (y1, x1)) pts /\ NoDup pts /\
    (forall p, In p pts -> paint im pts v p = v) /\
    (forall p, ~ In p pts -> paint im pts v p = im p).
Proof.
  destruct (draw_line_correct y0 x0 y1 x1) as (pts & E & HS). exists pts.
  split; [exact E|]. split; [exact HS|]. split; [exact (LineSpec_NoDup _ _ HS)|].
  split; intros p Hp; [apply paint_in|apply paint_out]; exact Hp.
Qed.

(* ---------------------------------------------------------------- swapping the end points *)

Lemma last_as_nth {A} (l : list A) d : last l d = nth (length l - 1) l d.
Proof.
  induction l as [|a [|b l] IH]; try reflexivity.
  change (last (a :: b :: l) d) with (last (b :: l) d). rewrite IH.
  cbn [length]. replace (S (S (length l)) - 1)%nat with (S (S (length l) - 1)) by lia. reflexivity.
Qed.

(* LineSpec does not prefer a direction: the reversed sequence is a correct line from p1 to p0 *)
Theorem LineSpec_rev i0 j0 i1 j1 pts :
  LineSpec ((i0, j0), (i1, j1)) pts -> LineSpec ((i1, j1), (i0, j0)) (rev pts).
Proof.
  unfold LineSpec. intros (Hlen & H0 & Hl & H).
  replace (Z.abs (i0 - i1)) with (Z.abs (i1 - i0)) by lia.
  replace (Z.abs (j0 - j1)) with (Z.abs (j1 - j0)) by lia.
  destruct (sgn_to_facts i0 i1) as (Ei & Esi & Hsi). destruct (sgn_to_facts j0 j1) as (Ej & Esj & Hsj).
  rewrite Esi, Esj.
  set (si := sgn_to i0 i1) in *. set (sj := sgn_to j0 j1) in *.
  set (di := Z.abs (i1 - i0)) in *. set (dj := Z.abs (j1 - j0)) in *.
  assert (Hdi : 0 <= di) by (subst di; lia). assert (Hdj : 0 <= dj) by (subst dj; lia).
  clearbody si sj di dj.
  assert (Hne : (1 <= length pts)%nat) by lia.
  split; [rewrite rev_length; exact Hlen|].
  split; [rewrite rev_nth by lia; rewrite last_as_nth in Hl; exact Hl|].
  split.
  { destruct pts as [|a t]; [cbn [length] in Hne; lia|]. cbn [rev]. rewrite last_last.
    cbn [nth] in H0. exact H0. }
  intros n Hn. rewrite rev_length in Hn. cbn zeta.
  rewrite rev_nth by exact Hn.
  set (m := (length pts - S n)%nat).
  assert (Hm : (m < length pts)%nat) by (subst m; lia).
  assert (Em : Z.of_nat m = Z.max di dj - Z.of_nat n) by (subst m; lia).
  destruct (H m Hm) as (A & B & _). cbn zeta in A, B.
  split; [|split].
  - intros Hle. destruct (A Hle) as [Ea Eb]. rewrite Em in Ea, Eb.
    replace (Z.max di dj) with di in * by lia.
    destruct (nth m pts (0, 0)) as [a b]. cbn [fst snd] in *. subst i1 j1.
    split; [destruct Hsi as [[-> _] | [[-> _] | [-> ->]]]; lia|].
    destruct Hsj as [[-> _] | [[-> _] | [-> ->]]]; lia.
  - intros Hgt. destruct (B Hgt) as [Ea Eb]. rewrite Em in Ea, Eb.
    replace (Z.max di dj) with dj in * by lia.
    destruct (nth m pts (0, 0)) as [a b]. cbn [fst snd] in *. subst i1 j1.
    split; [destruct Hsj as [[-> _] | [[-> _] | [-> ->]]]; lia|].
    destruct Hsi as [[-> _] | [[-> _] | [-> ->]]]; lia.
  - intros HS. rewrite rev_length in HS. rewrite rev_nth by exact HS.
    set (m' := (length pts - S (S n))%nat).
    assert (EmS : m = S m') by (subst m m'; lia).
    destruct (H m' ltac:(subst m'; lia)) as (_ & _ & C). cbn zeta in C.
    rewrite <- EmS in C. specialize (C Hm).
    destruct (nth m pts (0, 0)) as [a b]. destruct (nth m' pts (0, 0)) as [a' b']. cbn [fst snd] in *.
    destruct C as [C1 C2]. split; intros Hc; [specialize (C1 Hc)|specialize (C2 Hc)]; lia.
Qed.

(* draw_line itself is NOT symmetric: at an exact tie the remainder test `>= 0` steps the minor
   coordinate in the direction of travel, so the line drawn from the other end differs there *)
Theorem draw_line_reverse_refuted :
  exists y0 x0 y1 x1,
    draw_line_pts y0 x0 y1 x1 <> option_map (@rev (Z * Z)) (draw_line_pts y1 x1 y0 x0).
Proof. exists 0, 0, 1, 2. vm_compute. discriminate. Qed.

(* what does hold: the line drawn from the other end, reversed, is a correct line for (p0, p1) *)
Theorem draw_line_reverse_spec y0 x0 y1 x1 :
  exists pts, draw_line_pts y1 x1 y0 x0 = Some pts /\ LineSpec ((y0, x0), (y1, x1)) (rev pts).
Proof.
  destruct (draw_line_correct y1 x1 y0 x0) as (pts & E & HS). exists pts. split; [exact E|].
  apply LineSpec_rev. exact HS.
Qed.

(* ---------------------------------------------------------------- uniqueness up to ties *)

(* Two sequences meeting LineSpec for the same line have the same major coordinates, and their
   minor coordinates differ only where the ideal segment passes exactly half way between two
   pixels (a tie), and then by one. *)
Theorem LineSpec_unique_up_to_ties i0 j0 i1 j1 pts pts' :
  LineSpec ((i0, j0), (i1, j1)) pts -> LineSpec ((i0, j0), (i1, j1)) pts' ->
  length pts = length pts' /\
  forall n, (n < length pts)%nat ->
    let p := nth n pts (0, 0) in let p' := nth n pts' (0, 0) in
    let di := Z.abs (i1 - i0) in let dj := Z.abs (j1 - j0) in let k := Z.of_nat n in
    (dj <= di -> fst p = fst p' /\
       (snd p = snd p' \/
        (Z.abs (snd p - snd p') = 1 /\
         Z.abs (2 * (di * (snd p - j0) - sgn_to j0 j1 * (dj * k))) = di))) /\
    (di < dj -> snd p = snd p' /\
       (fst p = fst p' \/
        (Z.abs (fst p - fst p') = 1 /\
         Z.abs (2 * (dj * (fst p - i0) - sgn_to i0 i1 * (di * k))) = dj))).
Proof.
  unfold LineSpec. intros (Hlen & H0 & _ & H) (Hlen' & H0' & _ & H').
  assert (EL : length pts = length pts') by lia. split; [exact EL|].
  intros n Hn. cbn zeta.
  destruct (H n Hn) as (A & B & _). destruct (H' n ltac:(lia)) as (A' & B' & _). cbn zeta in *.
  (* a single point: both sequences are [(i0, j0)] *)
  assert (Hone : Z.max (Z.abs (i1 - i0)) (Z.abs (j1 - j0)) = 0 ->
                 nth n pts (0, 0) = nth n pts' (0, 0)).
  { intros Hz. assert (n = O) by lia. subst n.
    rewrite (nth_indep pts (0, 0) (i0 - 1, j0)) by lia.
    rewrite (nth_indep pts' (0, 0) (i0 - 1, j0)) by lia. rewrite H0, H0'. reflexivity. }
  set (si := sgn_to i0 i1) in *. set (sj := sgn_to j0 j1) in *.
  set (di := Z.abs (i1 - i0)) in *. set (dj := Z.abs (j1 - j0)) in *.
  assert (Hdi : 0 <= di) by (subst di; lia). assert (Hdj : 0 <= dj) by (subst dj; lia).
  destruct (nth n pts (0, 0)) as [a b]. destruct (nth n pts' (0, 0)) as [a' b']. cbn [fst snd] in *.
  clearbody si sj di dj.
  split.
  - intros Hle. destruct (A Hle) as [Ea Eb]. destruct (A' Hle) as [Ea' Eb']. split; [lia|].
    set (t := sj * (dj * Z.of_nat n)) in *. clearbody t.
    destruct (Z.eq_dec b b') as [E | Hne]; [left; exact E|right].
    destruct (Z.eq_dec di 0) as [Hz | Hnz].
    { exfalso. apply Hne. assert (E : (a, b) = (a', b')) by (apply Hone; lia). injection E; auto. }
    assert (X : - di <= di * b - di * b' <= di) by lia.
    assert (Hb : Z.abs (b - b') = 1) by nia. split; [exact Hb|]. nia.
  - intros Hgt. destruct (B Hgt) as [Ea Eb]. destruct (B' Hgt) as [Ea' Eb']. split; [lia|].
    set (t := si * (di * Z.of_nat n)) in *. clearbody t.
    destruct (Z.eq_dec a a') as [E | Hne]; [left; exact E|right].
    assert (X : - dj <= dj * a - dj * a' <= dj) by lia.
    assert (Hb : Z.abs (a - a') = 1) by nia. split; [exact Hb|]. nia.
Qed.

(* the premises hold for the two directions of a line with a tie, which indeed differ there *)
Example ties_example :
  draw_line_pts 0 0 1 2 = Some [(0,0); (1,1); (1,2)] /\
  option_map (@rev (Z * Z)) (draw_line_pts 1 2 0 0) = Some [(0,0); (0,1); (1,2)].
Proof. split; reflexivity. Qed.
