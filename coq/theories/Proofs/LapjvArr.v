(* C01 — phase 3 of the executable model: augmenting row reduction without the eps tie band
   (eps = 0 at :202, any eps >= 0 at :208) keeps the invariant "every assigned row sits on a listed
   column of minimal reduced cost" (SlackV / DualFeasV, stated in v only) on the ARRAY model:
   lists x, y (n = unassigned, x may hold stale entries, y is authoritative), prices v over ext.
   Restriction: every row has at least two candidates (then all prices stay finite; with
   single-candidate rows prices become -inf and the argument needs has_PM and a Hall-type lemma). *)
From Coq Require Import ZArith List Bool Lia ZifyBool Arith.
From Centro Require Import Base.Sx Model.Lapjv Spec.Lapjv Proofs.LapjvPhases.
Import ListNotations.
Open Scope Z_scope.

Section Arr.
Variables (n : nat) (rows : list (list (nat * ext))).
Definition row (i : nat) : list (nat * ext) := rowget rows i.
Hypothesis Rfin : forall i j c, In (j, c) (row i) -> (j < n)%nat /\ exists z, c = Fin z.
Hypothesis Rnodup : forall i, NoDup (map fst (row i)).
Hypothesis R2 : forall i, (i < n)%nat -> (2 <= length (row i))%nat.

Definition FinV (v : list ext) : Prop := length v = n /\ forall j, (j < n)%nat -> exists z, gete v j = Fin z.
Definition vz (v : list ext) (j : nat) : Z := match gete v j with Fin z => z | _ => 0 end.
Definition Slack (x y : list nat) (v : list ext) : Prop :=
  forall j i, (j < n)%nat -> getn y j n = i -> i <> n ->
    (i < n)%nat /\ getn x i n = j /\
    exists c, In (j, Fin c) (row i) /\ forall j' c', In (j', Fin c') (row i) -> c - vz v j <= c' - vz v j'.
Definition Inv (x y : list nat) (v : list ext) : Prop :=
  length x = n /\ length y = n /\ FinV v /\ Slack x y v.
Definition free (y : list nat) (i : nat) : Prop := forall j, (j < n)%nat -> getn y j n <> i.
Definition Pending (y : list nat) (l : list nat) : Prop :=
  NoDup l /\ forall i, In i l -> (i < n)%nat /\ free y i.

Lemma vz_fin v j z : gete v j = Fin z -> vz v j = z.
Proof. unfold vz. intros ->. reflexivity. Qed.

(* ---------------------------------------------------------------- the scan for the two minima *)

Definition lee (e : ext) (z : Z) : Prop := match e with Fin a => a <= z | _ => False end.
Definition le12 (u1 u2 : ext) : Prop :=
  match u1, u2 with Fin a, Fin b => a <= b | Fin _, PInf => True | PInf, PInf => True | _, _ => False end.

Record Best (v : list ext) (P : list (nat * ext)) (u1 u2 : ext) (j1o j2o : option nat) : Prop := mkBest
  { b1 : forall j c, In (j, Fin c) P -> lee u1 (c - vz v j);
    b2 : forall j c, In (j, Fin c) P -> j1o <> Some j -> lee u2 (c - vz v j);
    b3 : le12 u1 u2;
    b4 : (u1 = PInf /\ P = []) \/ exists j c, j1o = Some j /\ In (j, Fin c) P /\ u1 = Fin (c - vz v j);
    b5 : u2 = PInf \/ exists j c, j2o = Some j /\ In (j, Fin c) P /\ u2 = Fin (c - vz v j) /\ j1o <> Some j }.

Lemma best_step v P u1 u2 j1o j2o j c z :
  Best v P u1 u2 j1o j2o -> gete v j = Fin z -> ~ In j (map fst P) ->
  let t := c - z in
  let r := if eltb (Fin (c + - z)) u1 then (Fin (c + - z), u1, Some j, j1o)
           else if eltb (Fin (c + - z)) u2 then (u1, Fin (c + - z), j1o, Some j)
           else (u1, u2, j1o, j2o) in
  Best v (P ++ [(j, Fin c)]) (fst (fst (fst r))) (snd (fst (fst r))) (snd (fst r)) (snd r).
Proof.
  intros [B1 B2 B3 B4 B5] Hz Hnew. cbn zeta.
  assert (Vz : vz v j = z) by (apply vz_fin; auto).
  assert (NJ : forall j' c', In (j', Fin c') P -> j' <> j).
  { intros j' c' Hin E. subst. apply Hnew. apply (in_map fst) in Hin. exact Hin. }
  assert (J1 : forall j' c', j1o = Some j' -> In (j', Fin c') P -> j1o <> Some j).
  { intros j' c' E Hin E2. rewrite E in E2. inversion E2; subst. eapply NJ; eauto. }
  destruct u1 as [a| | |], u2 as [b| | |]; cbn [le12] in B3; try contradiction.
  - (* Fin a, Fin b *)
    cbn [eltb]. destruct (Z.ltb_spec (c + - z) a) as [L1|L1]; cbn [fst snd].
    + constructor.
      * intros j' c' Hin. apply in_app_iff in Hin as [Hin|[E|[]]].
        -- specialize (B1 _ _ Hin). cbn [lee] in *. lia.
        -- inversion E; subst. cbn [lee]. lia.
      * intros j' c' Hin N. apply in_app_iff in Hin as [Hin|[E|[]]].
        -- apply B1; auto.
        -- inversion E; subst. congruence.
      * cbn. lia.
      * right. exists j, c. repeat split; auto. { apply in_app_iff; right; left; auto. } f_equal. lia.
      * right. destruct B4 as [[E _]|[j' [c' [E [Hin Eu]]]]]; [discriminate|].
        exists j', c'. repeat split; auto. { apply in_app_iff; left; auto. }
        intros E2. inversion E2; subst. eapply NJ; eauto.
    + destruct (Z.ltb_spec (c + - z) b) as [L2|L2]; cbn [fst snd].
      * constructor.
        -- intros j' c' Hin. apply in_app_iff in Hin as [Hin|[E|[]]]; [apply B1; auto|].
           inversion E; subst. cbn [lee]. lia.
        -- intros j' c' Hin N. apply in_app_iff in Hin as [Hin|[E|[]]].
           ++ specialize (B2 _ _ Hin N). cbn [lee] in *. lia.
           ++ inversion E; subst. cbn [lee]. lia.
        -- cbn. lia.
        -- destruct B4 as [[E _]|[j' [c' [E [Hin Eu]]]]]; [discriminate|].
           right. exists j', c'. repeat split; auto. apply in_app_iff; left; auto.
        -- right. exists j, c. repeat split; auto. { apply in_app_iff; right; left; auto. } { f_equal; lia. }
           destruct B4 as [[E _]|[j' [c' [E [Hin Eu]]]]]; [discriminate|]. eapply J1; eauto.
      * constructor.
        -- intros j' c' Hin. apply in_app_iff in Hin as [Hin|[E|[]]]; [apply B1; auto|].
           inversion E; subst. cbn [lee]. lia.
        -- intros j' c' Hin N. apply in_app_iff in Hin as [Hin|[E|[]]]; [apply B2; auto|].
           inversion E; subst. cbn [lee]. lia.
        -- cbn. lia.
        -- destruct B4 as [[E _]|[j' [c' [E [Hin Eu]]]]]; [discriminate|].
           right. exists j', c'. repeat split; auto. apply in_app_iff; left; auto.
        -- destruct B5 as [E|[j' [c' [E [Hin [Eu N]]]]]]; [discriminate|].
           right. exists j', c'. repeat split; auto. apply in_app_iff; left; auto.
  - (* Fin a, PInf *)
    cbn [eltb]. destruct (Z.ltb_spec (c + - z) a) as [L1|L1]; cbn [fst snd].
    + constructor.
      * intros j' c' Hin. apply in_app_iff in Hin as [Hin|[E|[]]].
        -- specialize (B1 _ _ Hin). cbn [lee] in *. lia.
        -- inversion E; subst. cbn [lee]. lia.
      * intros j' c' Hin N. apply in_app_iff in Hin as [Hin|[E|[]]].
        -- apply B1; auto.
        -- inversion E; subst. congruence.
      * cbn. lia.
      * right. exists j, c. repeat split; auto. { apply in_app_iff; right; left; auto. } f_equal. lia.
      * right. destruct B4 as [[E _]|[j' [c' [E [Hin Eu]]]]]; [discriminate|].
        exists j', c'. repeat split; auto. { apply in_app_iff; left; auto. }
        intros E2. inversion E2; subst. eapply NJ; eauto.
    + constructor.
      * intros j' c' Hin. apply in_app_iff in Hin as [Hin|[E|[]]]; [apply B1; auto|].
        inversion E; subst. cbn [lee]. lia.
      * intros j' c' Hin N. apply in_app_iff in Hin as [Hin|[E|[]]].
        -- specialize (B2 _ _ Hin N). cbn [lee] in B2. contradiction.
        -- inversion E; subst. cbn [lee]. lia.
      * cbn. lia.
      * destruct B4 as [[E _]|[j' [c' [E [Hin Eu]]]]]; [discriminate|].
        right. exists j', c'. repeat split; auto. apply in_app_iff; left; auto.
      * right. exists j, c. repeat split; auto. { apply in_app_iff; right; left; auto. } { f_equal; lia. }
        destruct B4 as [[E _]|[j' [c' [E [Hin Eu]]]]]; [discriminate|]. eapply J1; eauto.
  - (* PInf, PInf : nothing seen yet *)
    cbn [eltb fst snd]. destruct B4 as [[_ EP]|[j' [c' [E [Hin Eu]]]]]; [|discriminate]. subst P.
    constructor.
    + intros j' c' [E|[]]. inversion E; subst. cbn [lee]. lia.
    + intros j' c' [E|[]] N. inversion E; subst. congruence.
    + cbn. exact Logic.I.
    + right. exists j, c. repeat split; auto. { left; auto. } f_equal. lia.
    + left. reflexivity.
Qed.

Lemma arr_scan_best v : forall R P u1 u2 j1o j2o,
  (forall j c, In (j, c) R -> (exists z, c = Fin z) /\ exists z, gete v j = Fin z) ->
  NoDup (map fst (P ++ R)) ->
  Best v P u1 u2 j1o j2o ->
  Best v (P ++ R) (fst (fst (fst (arr_scan v R u1 u2 j1o j2o)))) (snd (fst (fst (arr_scan v R u1 u2 j1o j2o))))
       (snd (fst (arr_scan v R u1 u2 j1o j2o))) (snd (arr_scan v R u1 u2 j1o j2o)).
Proof.
  induction R as [|[j c] R IH]; intros P u1 u2 j1o j2o HR ND B.
  - cbn [arr_scan fst snd]. rewrite app_nil_r. exact B.
  - destruct (HR j c (or_introl eq_refl)) as [[cz ->] [z Hz]].
    assert (Hnew : ~ In j (map fst P)).
    { rewrite map_app in ND. cbn [map fst] in ND. apply NoDup_remove_2 in ND.
      intros Hin. apply ND. apply in_app_iff. left; auto. }
    pose proof (best_step v P u1 u2 j1o j2o j cz z B Hz Hnew) as S. cbn zeta in S.
    cbn [arr_scan]. rewrite Hz. cbn [esub eneg eadd].
    replace (P ++ (j, Fin cz) :: R) with ((P ++ [(j, Fin cz)]) ++ R) by (rewrite <- app_assoc; reflexivity).
    destruct (eltb (Fin (cz + - z)) u1).
    + apply IH; auto. { intros; apply HR; right; auto. } rewrite <- app_assoc. exact ND.
    + destruct (eltb (Fin (cz + - z)) u2).
      * apply IH; auto. { intros; apply HR; right; auto. } rewrite <- app_assoc. exact ND.
      * apply IH; auto. { intros; apply HR; right; auto. } rewrite <- app_assoc. exact ND.
Qed.

(* what a complete scan of a row with >= 2 candidates delivers *)
Lemma arr_scan_row v i j1s j2s : FinV v -> (i < n)%nat ->
  exists a b j1 c1 j2 c2 j2o',
    arr_scan v (row i) PInf PInf j1s j2s = (Fin a, Fin b, Some j1, j2o') /\ j2o' = Some j2 /\
    In (j1, Fin c1) (row i) /\ a = c1 - vz v j1 /\ In (j2, Fin c2) (row i) /\ b = c2 - vz v j2 /\ j2 <> j1 /\
    a <= b /\ (forall j c, In (j, Fin c) (row i) -> a <= c - vz v j) /\
    (forall j c, In (j, Fin c) (row i) -> j <> j1 -> b <= c - vz v j).
Proof.
  intros HV Hi.
  assert (B0 : Best v [] PInf PInf j1s j2s).
  { constructor; try (intros ? ? []); cbn; auto. }
  assert (HRow : forall j c, In (j, c) (row i) -> (exists z, c = Fin z) /\ exists z, gete v j = Fin z).
  { intros j c Hin. destruct (Rfin i j c Hin) as [Hj Hc]. split; auto. apply HV; auto. }
  pose proof (arr_scan_best v (row i) [] PInf PInf j1s j2s HRow (Rnodup i) B0) as B.
  cbn [app] in B.
  destruct (arr_scan v (row i) PInf PInf j1s j2s) as [[[u1 u2] j1o] j2o]. cbn [fst snd] in B.
  destruct B as [B1 B2 B3 B4 B5].
  (* the row has two entries with different columns *)
  pose proof (R2 i Hi) as L2. pose proof (Rnodup i) as ND.
  destruct (row i) as [|[ja ca] [|[jb cb] rr]] eqn:ER; cbn [length] in L2; try lia.
  assert (Hab : ja <> jb).
  { cbn [map fst] in ND. inversion ND as [|? ? Nin _]; subst. intros E; apply Nin; left; auto. }
  destruct (Rfin i ja ca) as [_ [za ->]]; [rewrite ER; left; auto|].
  destruct (Rfin i jb cb) as [_ [zb ->]]; [rewrite ER; right; left; auto|].
  destruct B4 as [[_ E]|[j1 [c1 [E1 [Hin1 Eu1]]]]]; [discriminate|]. subst u1 j1o.
  assert (exists jo co, In (jo, Fin co) ((ja, Fin za) :: (jb, Fin zb) :: rr) /\ jo <> j1) as [jo [co [Hino No]]].
  { destruct (Nat.eq_dec ja j1) as [E|NE].
    - exists jb, zb. split; [right; left; auto|congruence].
    - exists ja, za. split; [left; auto|auto]. }
  assert (Hu2 := B2 jo co Hino ltac:(congruence)).
  destruct u2 as [b| | |]; cbn [lee] in Hu2; try contradiction.
  destruct B5 as [E|[j2 [c2 [E2 [Hin2 [Eu2 N2]]]]]]; [discriminate|]. subst j2o. inversion Eu2; subst b.
  exists (c1 - vz v j1), (c2 - vz v j2), j1, c1, j2, c2, (Some j2).
  split; [reflexivity|]. split; [reflexivity|]. split; [exact Hin1|]. split; [reflexivity|].
  split; [exact Hin2|]. split; [reflexivity|]. split; [intros E0; apply N2; congruence|].
  split; [cbn [le12] in B3; exact B3|]. split.
  - intros j c Hin. specialize (B1 j c Hin). cbn [lee] in B1. exact B1.
  - intros j c Hin N. specialize (B2 j c Hin ltac:(congruence)). cbn [lee] in B2. exact B2.
Qed.

(* ---------------------------------------------------------------- one assignment step *)

Lemma getn_upd l k a i d : getn (upd l k a) i d = if ((i =? k)%nat && (k <? length l)%nat) then a else getn l i d.
Proof. unfold getn. apply nth_upd. Qed.
Lemma gete_upd l k a i : gete (upd l k a) i = if ((i =? k)%nat && (k <? length l)%nat) then a else gete l i.
Proof. unfold gete. apply nth_upd. Qed.

Lemma assign_step x y v v' i j c :
  Inv x y v -> (i < n)%nat -> free y i -> (j < n)%nat -> In (j, Fin c) (row i) ->
  FinV v' -> (forall k, k <> j -> vz v' k = vz v k) -> vz v' j <= vz v j ->
  (forall j' c', In (j', Fin c') (row i) -> c - vz v' j <= c' - vz v' j') ->
  Inv (upd x i j) (upd y j i) v'.
Proof.
  intros [Lx [Ly [FV SL]]] Hi Hfree Hj Hin FV' Vother Vj Hmin.
  split; [rewrite upd_length; auto|]. split; [rewrite upd_length; auto|]. split; auto.
  intros j0 i0 Hj0 Hy Hne. rewrite getn_upd in Hy. rewrite Ly in Hy.
  destruct (Nat.eqb_spec j0 j) as [E|NE].
  - subst j0. replace (j <? n)%nat with true in Hy by (symmetry; apply Nat.ltb_lt; auto). cbn [andb] in Hy.
    subst i0. split; auto. split.
    + rewrite getn_upd, Lx, Nat.eqb_refl. replace (i <? n)%nat with true by (symmetry; apply Nat.ltb_lt; auto). reflexivity.
    + exists c. split; auto.
  - cbn [andb] in Hy. destruct (SL j0 i0 Hj0 Hy Hne) as [Hi0 [Hx [c0 [Hin0 Hmin0]]]].
    assert (i0 <> i) by (intros E; subst; apply (Hfree j0 Hj0); auto).
    split; auto. split.
    + rewrite getn_upd. destruct (Nat.eqb_spec i0 i); [contradiction|]. cbn [andb]. exact Hx.
    + exists c0. split; auto. intros j' c' Hin'. specialize (Hmin0 j' c' Hin').
      rewrite (Vother j0 NE). destruct (Nat.eq_dec j' j) as [->|NE']; [|rewrite (Vother j' NE'); auto]. lia.
Qed.

Lemma Pending_perm y l l' : Permutation.Permutation l l' -> Pending y l -> Pending y l'.
Proof.
  intros P [ND F]. split; [eapply Permutation.Permutation_NoDup; eauto|].
  intros i Hi. apply F. eapply Permutation.Permutation_in; [apply Permutation.Permutation_sym; exact P|exact Hi].
Qed.

(* row i (head of the work list) takes column jt; the row it displaces, if any, goes back to the work list
   (retry) or to the free list *)
Lemma pending_all y i jt rest fl (retry : bool) :
  length y = n -> (jt < n)%nat -> Pending y ((i :: rest) ++ fl) ->
  (getn y jt n <> n -> forall j', (j' < n)%nat -> getn y j' n = getn y jt n -> j' = jt) ->
  (getn y jt n <> n -> ~ In (getn y jt n) ((i :: rest) ++ fl) /\ (getn y jt n < n)%nat) ->
  Pending (upd y jt i)
    ((if (getn y jt n =? n)%nat then rest else if retry then getn y jt n :: rest else rest) ++
     (if (getn y jt n =? n)%nat then fl else if retry then fl else getn y jt n :: fl)).
Proof.
  intros Ly Hj [ND PF] D1 D2. set (it := getn y jt n) in *.
  cbn [app] in ND. inversion ND as [|? ? Nin ND']; subst.
  assert (FR : forall r, In r (rest ++ fl) -> (r < n)%nat /\ free (upd y jt i) r).
  { intros r Hr. destruct (PF r (or_intror Hr)) as [Hrn Hrf]. split; auto.
    intros j' Hj'. rewrite getn_upd, Ly. destruct (Nat.eqb_spec j' jt) as [->|NE]; cbn [andb].
    - replace (jt <? n)%nat with true by (symmetry; apply Nat.ltb_lt; auto). intros E; subst. contradiction.
    - apply Hrf; auto. }
  assert (P0 : Pending (upd y jt i) (rest ++ fl)) by (split; auto).
  destruct (Nat.eqb_spec it n) as [En|Nn]; [exact P0|].
  destruct (D2 Nn) as [Nin1 Hlt]. specialize (D1 Nn).
  assert (P1 : Pending (upd y jt i) (it :: rest ++ fl)).
  { split.
    - constructor; auto. intros Hin. apply Nin1. right. exact Hin.
    - intros r [<-|Hr]; [|apply FR; auto]. split; auto.
      intros j' Hj'. rewrite getn_upd, Ly. destruct (Nat.eqb_spec j' jt) as [->|NE]; cbn [andb].
      + replace (jt <? n)%nat with true by (symmetry; apply Nat.ltb_lt; auto).
        intros E. apply Nin1. left. auto.
      + intros E. apply NE. apply D1; auto. }
  destruct retry; [exact P1|]. eapply Pending_perm; [|exact P1]. apply Permutation.Permutation_middle.
Qed.

(* ---------------------------------------------------------------- the loop *)

Theorem arr_loop_inv epsr : 0 <= epsr -> forall fuel todo s r,
  Inv (a_x s) (a_y s) (a_v s) -> Pending (a_y s) (todo ++ a_free s) ->
  arr_loop fuel (Fin 0) (Fin epsr) n rows todo s = Some r ->
  Inv (a_x r) (a_y r) (a_v r) /\ Pending (a_y r) (a_free r).
Proof.
  intros Her. induction fuel as [|f IH]; intros todo s r HI HP; destruct todo as [|i rest]; cbn [arr_loop]; intros E;
    try discriminate; try (inversion E; subst; split; auto; fail).
  pose proof HI as [Lx [Ly [FV SL]]].
  assert (Hi : (i < n)%nat /\ free (a_y s) i) by (apply (proj2 HP); left; auto). destruct Hi as [Hi Hfree].
  destruct (arr_scan_row (a_v s) i (a_j1 s) (a_j2 s) FV Hi)
    as [a [b [j1 [c1 [j2 [c2 [j2o [ES [Ej2 [Hin1 [Ea [Hin2 [Eb [N21 [Hab [Hmin1 Hmin2]]]]]]]]]]]]]]]].
  unfold row in ES. rewrite ES in E. subst j2o.
  destruct (Rfin i j1 (Fin c1) Hin1) as [Hj1 _]. destruct (Rfin i j2 (Fin c2) Hin2) as [Hj2 _].
  destruct (proj2 FV j1 Hj1) as [z1 Hz1]. pose proof (vz_fin _ _ _ Hz1) as Vz1.
  assert (Disp : forall jd, (jd < n)%nat ->
            (getn (a_y s) jd n <> n -> forall j', (j' < n)%nat -> getn (a_y s) j' n = getn (a_y s) jd n -> j' = jd) /\
            (getn (a_y s) jd n <> n -> ~ In (getn (a_y s) jd n) ((i :: rest) ++ a_free s) /\ (getn (a_y s) jd n < n)%nat)).
  { intros jd Hjd. split.
    - intros Hn j' Hj' Ey. destruct (SL j' _ Hj' Ey Hn) as [_ [X1 _]]. destruct (SL jd _ Hjd eq_refl Hn) as [_ [X2 _]]. congruence.
    - intros Hn. destruct (SL jd _ Hjd eq_refl Hn) as [Hlt _]. split; auto.
      intros Hin. destruct (proj2 HP _ Hin) as [_ Fr]. apply (Fr jd Hjd). reflexivity. }
  cbn [eadd eltb] in E. rewrite Z.add_0_r in E.
  destruct (Z.ltb_spec a b) as [Lab|Lab].
  - (* strict: lower the price of j1, take it *)
    set (v' := upd (a_v s) j1 (eadd (esub (gete (a_v s) j1) (Fin b)) (Fin a))) in *.
    assert (Hv'j : gete v' j1 = Fin (z1 + - b + a)).
    { unfold v'. rewrite gete_upd, Nat.eqb_refl, (proj1 FV). replace (j1 <? n)%nat with true by (symmetry; apply Nat.ltb_lt; auto).
      cbn [andb]. rewrite Hz1. reflexivity. }
    assert (Hv'o : forall k, k <> j1 -> gete v' k = gete (a_v s) k).
    { intros k Hk. unfold v'. rewrite gete_upd. destruct (Nat.eqb_spec k j1); [contradiction|]. reflexivity. }
    assert (FV' : FinV v').
    { split; [unfold v'; rewrite upd_length; apply FV|]. intros k Hk. destruct (Nat.eq_dec k j1) as [->|NE]; [eauto|].
      rewrite Hv'o by auto. apply FV; auto. }
    assert (Vo : forall k, k <> j1 -> vz v' k = vz (a_v s) k) by (intros k Hk; unfold vz; rewrite Hv'o; auto).
    assert (Vj : vz v' j1 = z1 - b + a) by (rewrite (vz_fin _ _ _ Hv'j); lia).
    assert (HI' : Inv (upd (a_x s) i j1) (upd (a_y s) j1 i) v').
    { apply (assign_step _ _ (a_v s) v' i j1 c1); auto; [lia|].
      intros j' c' Hin'. destruct (Nat.eq_dec j' j1) as [->|NE].
      - specialize (Hmin1 _ _ Hin'). lia.
      - rewrite (Vo j' NE). specialize (Hmin2 _ _ Hin' NE). lia. }
    destruct (Disp j1 Hj1) as [D1 D2].
    eapply IH; [| |exact E]; cbn [a_x a_y a_v a_free]; [exact HI'|].
    apply pending_all; auto.
  - (* tie: a = b *)
    assert (Eab : a = b) by lia.
    destruct (Nat.eqb_spec (getn (a_y s) j1 n) n) as [En|Nn].
    + (* j1 unassigned: take it, prices unchanged *)
      assert (HI' : Inv (upd (a_x s) i j1) (upd (a_y s) j1 i) (a_v s)).
      { apply (assign_step _ _ (a_v s) (a_v s) i j1 c1); auto; [lia|]. intros j' c' Hin'. specialize (Hmin1 _ _ Hin'). lia. }
      destruct (Disp j1 Hj1) as [D1 D2].
      eapply IH; [| |exact E]; cbn [a_x a_y a_v a_free]; [exact HI'|].
      pose proof (pending_all (a_y s) i j1 rest (a_free s) (a + epsr <? b) Ly Hj1 HP D1 D2) as PA.
      rewrite En in PA. rewrite Nat.eqb_refl in PA. exact PA.
    + (* j1 assigned: take j2, which is as good *)
      assert (HI' : Inv (upd (a_x s) i j2) (upd (a_y s) j2 i) (a_v s)).
      { apply (assign_step _ _ (a_v s) (a_v s) i j2 c2); auto; [lia|]. intros j' c' Hin'. specialize (Hmin1 _ _ Hin'). lia. }
      destruct (Disp j2 Hj2) as [D1 D2].
      eapply IH; [| |exact E]; cbn [a_x a_y a_v a_free]; [exact HI'|].
      apply pending_all; auto.
Qed.

(* one call of augmenting_row_reduction, then k of them (lapjv.py:136-137) *)
Theorem arr_pass_inv epsr fuel x y v ii x' y' v' ii' : 0 <= epsr ->
  Inv x y v -> Pending y ii ->
  arr_pass fuel (Fin 0) (Fin epsr) n rows (x, y, v, ii) = Some (x', y', v', ii') ->
  Inv x' y' v' /\ Pending y' ii'.
Proof.
  intros Her HI HP. unfold arr_pass.
  destruct (arr_loop fuel (Fin 0) (Fin epsr) n rows ii (mkArr x y v None None [])) as [r|] eqn:E; [|discriminate].
  intros E2. inversion E2; subst.
  destruct (arr_loop_inv epsr Her fuel ii (mkArr x y v None None []) r) as [A B]; auto.
  { cbn [a_y a_free]. rewrite app_nil_r. exact HP. }
  split; auto. eapply Pending_perm; [|exact B]. apply Permutation.Permutation_rev.
Qed.

Theorem arr_passes_inv epsr fuel : 0 <= epsr -> forall k x y v ii x' y' v' ii',
  Inv x y v -> Pending y ii ->
  arr_passes k fuel (Fin 0) (Fin epsr) n rows (x, y, v, ii) = Some (x', y', v', ii') ->
  Inv x' y' v' /\ Pending y' ii'.
Proof.
  intros Her. induction k as [|k IH]; intros x y v ii x' y' v' ii' HI HP; cbn [arr_passes].
  - intros E; inversion E; subst; auto.
  - destruct (arr_pass fuel (Fin 0) (Fin epsr) n rows (x, y, v, ii)) as [[[[x1 y1] v1] ii1]|] eqn:E1; [|discriminate].
    destruct (arr_pass_inv epsr fuel _ _ _ _ _ _ _ _ Her HI HP E1) as [A B]. apply IH; auto.
Qed.
End Arr.
