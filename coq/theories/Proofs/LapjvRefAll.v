(* C01 — the reference variant on ALL inputs of the quantifier (one-candidate rows, any number of passes): augment over
   states with prices in Fin | -inf (InvE + Ord) always returns and preserves InvE + Ord; end to end: under the single premise
   arr_returns_b, lapjv_ref Fixed returns an optimal perfect matching with inverse permutations. *)
From Coq Require Import ZArith List Bool Lia ZifyBool Arith.
From Centro Require Import Proofs.LapjvGrid Base.Sx Model.Lapjv Spec.Lapjv Proofs.LapjvCert Proofs.LapjvPhases Proofs.LapjvArr Proofs.LapjvRows
  Proofs.LapjvRt Proofs.LapjvHall Proofs.LapjvBsearch Proofs.LapjvArrExt Proofs.LapjvExtModel Proofs.LapjvAugMarks Proofs.LapjvAugFlip
  Proofs.LapjvAugPred Proofs.LapjvAugRows Proofs.LapjvAugPrice Proofs.LapjvAugPriceExt Proofs.LapjvPerm Proofs.LapjvFixedPerm Proofs.LapjvAugStamps
  Proofs.LapjvAugOpt Proofs.LapjvAugDist Proofs.LapjvAugDistR Proofs.LapjvAugDistE Proofs.LapjvRefPerm Proofs.LapjvAugDistHypR
  Proofs.LapjvReservedOpt Proofs.LapjvRefTotal.
Import ListNotations.
Open Scope Z_scope.

Lemma aug_init_row_distE r n v : forall row d ontodo pred,
  NoDup (map fst row) -> (forall j c, In (j, c) row -> (j < n)%nat /\ exists z, c = Fin z) ->
  length d = n -> length ontodo = n -> length pred = n ->
  let '(d', ontodo', pred') := aug_init_row r v row d ontodo pred in
  length d' = n /\ length pred' = n /\
  (forall j c, In (j, Fin c) row -> gete d' j = esub (Fin c) (gete v j) /\ getn pred' j n = r /\ getn ontodo' j n = r) /\
  (forall k, ~ In k (map fst row) ->
     gete d' k = gete d k /\ getn ontodo' k n = getn ontodo k n /\ getn pred' k n = getn pred k n).
Proof.
  induction row as [|[j c] rr IH]; intros d ontodo pred ND HR Ld Lo Lp; cbn [aug_init_row].
  - split; auto. split; auto. split; [intros ? ? []|auto].
  - cbn [map fst] in ND. apply NoDup_cons_iff in ND as [Nin ND'].
    destruct (HR j c (or_introl eq_refl)) as [Hj [cz ->]].
    specialize (IH (upd d j (esub (Fin cz) (gete v j))) (upd ontodo j r) (upd pred j r) ND'
                  (fun j' c' H => HR j' c' (or_intror H)) ltac:(rewrite upd_length; auto) ltac:(rewrite upd_length; auto)
                  ltac:(rewrite upd_length; auto)).
    destruct (aug_init_row r v rr (upd d j (esub (Fin cz) (gete v j))) (upd ontodo j r) (upd pred j r)) as [[d' o'] p'].
    destruct IH as [Ld' [Lp' [In' Out']]]. split; auto. split; auto. split.
    + intros j' c' [E|Hin]; [|apply In'; auto]. inversion E; subst j' c'.
      destruct (Out' j Nin) as [Ed [Eo Ep]]. rewrite Ed, Eo, Ep, gete_upd, !getn_upd, Nat.eqb_refl, Ld, Lo, Lp.
      replace (j <? n)%nat with true by (symmetry; apply Nat.ltb_lt; auto). cbn [andb]. auto.
    + intros k Hk. destruct (Out' k ltac:(intros H; apply Hk; right; auto)) as [A [B C]].
      rewrite A, B, C, gete_upd, !getn_upd.
      destruct (Nat.eqb_spec k j) as [->|NE]; [exfalso; apply Hk; left; auto|auto].
Qed.

Section RowAll.
Variables (n : nat) (rows : list (list (nat * ext))).
Hypothesis Rfin : forall i j c, In (j, c) (row rows i) -> (j < n)%nat /\ exists z, c = Fin z.
Hypothesis Rnodup : forall i, NoDup (map fst (row rows i)).
Hypothesis NoBlock : forall L C : list nat, NoDup L -> (forall i, In i L -> (i < n)%nat) ->
  (forall i j c, In i L -> In (j, c) (row rows i) -> In j C) -> (length L <= length C)%nat.
Hypothesis Lookup : forall i j c, In (j, c) (row rows i) -> cost_at (rowget rows i) j <> None.

(* the loop for one free row: the initial state satisfies K / Fd / Gd *)
Lemma aug_loop_rowE (s : main_state) (r : nat) d o p :
  St n s -> InvE n rows (m_x s) (m_y s) (m_v s) -> (r < n)%nat -> free n (m_y s) r ->
  (forall j, getn (m_done s) j n <> r) -> (forall j, getn (m_ontodo s) j n <> r) ->
  aug_init_row r (m_v s) (rowget rows r) (repeat PInf n) (m_ontodo s) (m_pred s) = (d, o, p) ->
  (exists res, aug_loop (S (S n)) r n PInf rows (m_y s) (m_v s) (mkAug d p (m_done s) o (map fst (rowget rows r)) [] [] PInf) = Some res) /\
  (forall g' j1, aug_loop (S (S n)) r n PInf rows (m_y s) (m_v s) (mkAug d p (m_done s) o (map fst (rowget rows r)) [] [] PInf) = Some (g', j1) ->
     LapjvAugDistE.Res r n rows (m_y s) (m_v s) g' j1).
Proof.
  intros HS HI Hr Fr Hd Ho EI.
  pose proof HS as [Lx [Ly [Ld [Lo [Lp PI]]]]]. pose proof HI as [_ [_ [[Lv PVv] _]]].
  pose proof (aug_init_row_distE r n (m_v s) (rowget rows r) (repeat PInf n) (m_ontodo s) (m_pred s)
                (Rnodup r) (fun j c H => Rfin r j c H) ltac:(apply repeat_length) Lo Lp) as AD.
  pose proof (aug_init_row_marks r n rows (m_v s) (fun i j c H => proj1 (Rfin i j c H)) (rowget rows r) (repeat PInf n)
                (m_ontodo s) (m_pred s) (fun j c H => proj1 (Rfin r j c H)) Lo) as AM.
  rewrite EI in AD, AM. destruct AD as [Ld' [Lp' [In' Out']]]. destruct AM as [Lo' _].
  assert (Cols : forall j, In j (map fst (rowget rows r)) -> exists z, In (j, Fin z) (row rows r)).
  { intros j Hj. apply in_map_iff in Hj as [[j' c] [<- Hin]]. destruct (Rfin r j' c Hin) as [_ [z ->]]. exists z. exact Hin. }
  assert (OutD : forall j, (j < n)%nat -> ~ In j (map fst (rowget rows r)) -> gete d j = PInf).
  { intros j Hj Nj. destruct (Out' j Nj) as [E _]. rewrite E. unfold gete.
    rewrite (nth_indep _ NaN PInf) by (rewrite repeat_length; auto). apply nth_repeat. }
  assert (InL : forall j z, In (j, Fin z) (row rows r) -> finp (m_v s) j -> gete d j = Fin (z - vz (m_v s) j)).
  { intros j z Hz [zv Hv]. destruct (In' j z Hz) as [E _]. rewrite E, Hv. cbn [esub eneg eadd]. rewrite (vz_fin _ _ _ Hv). f_equal; try lia. }
  assert (InR : forall j z, In (j, Fin z) (row rows r) -> gete (m_v s) j = NInf -> gete d j = PInf).
  { intros j z Hz Hv. destruct (In' j z Hz) as [E _]. rewrite E, Hv. reflexivity. }
  rewrite (aug_loop_umin_irrelevant r n PInf rows (m_y s) (m_v s) d p (m_done s) o (map fst (rowget rows r)) [] PInf (Fin 0)).
  set (g0 := mkAug d p (m_done s) o (map fst (rowget rows r)) [] [] (Fin 0)) in *.
  assert (K0 : LapjvAugDistE.K r n rows (m_y s) (m_v s) g0 0).
  { constructor; unfold g0; cbn [g_d g_pred g_done g_ontodo g_todo g_scan g_ready g_umin app].
    - unfold Marks. cbn [g_done g_ontodo g_todo g_scan g_ready app].
      refine (conj Ld (conj Lo' (conj (Rnodup r) (conj _ (conj (NoDup_nil _) _))))).
      + intros j Hj. destruct (Cols j Hj) as [z Hz]. split; [apply (Rfin r j _ Hz)|apply (In' j z Hz)].
      + intros j [].
    - reflexivity.
    - intros j [].
    - intros j [].
    - intros H. contradiction.
    - exact Ld'.
    - intros j Hj. destruct (in_dec Nat.eq_dec j (map fst (rowget rows r))) as [Hin|Nin]; [|right; apply OutD; auto].
      destruct (Cols j Hin) as [z Hz]. destruct (PVv j Hj) as [L|R]; [left; eexists; apply (InL j z Hz L)|right; apply (InR j z Hz R)].
    - exact Lp'.
    - intros j Hj Nt _. apply OutD; auto.
    - intros j Hj E. destruct (in_dec Nat.eq_dec j (map fst (rowget rows r))) as [Hin|Nin]; auto.
      exfalso. destruct (Out' j Nin) as [_ [Eo _]]. rewrite Eo in E. apply (Ho j E).
    - intros j Hj E. exfalso. apply (Hd j E).
    - intros j Hj Lj. rewrite app_nil_r in Hj. destruct (Cols j Hj) as [z Hz]. destruct (In' j z Hz) as [E1 [E2 _]].
      left. split; auto. exists z. split; auto. unfold dz. rewrite (InL j z Hz Lj). reflexivity.
    - intros j Hj Lj. rewrite app_nil_r in Hj. destruct (Cols j Hj) as [z Hz]. eexists. apply (InL j z Hz Lj).
    - intros j [].
    - intros j [].
    - intros j Hj Rj. destruct (in_dec Nat.eq_dec j (map fst (rowget rows r))) as [Hin|Nin]; [|apply OutD; auto].
      destruct (Cols j Hin) as [z Hz]. apply (InR j z Hz Rj). }
  assert (F0 : LapjvAugDistE.Fd r rows (m_v s) (g_d g0)).
  { intros j c Hc Lj. unfold g0. cbn [g_d]. split; [eexists; apply (InL j c Hc Lj)|]. unfold dz. rewrite (InL j c Hc Lj). lia. }
  assert (G0 : LapjvAugDistE.Gd n rows (m_y s) (m_v s) (g_d g0) (g_ready g0)) by (intros jh j c ch []).
  split.
  - apply (aug_loop_totalE r n rows (m_x s) (m_y s) (m_v s) Rfin Rnodup HI NoBlock Hr Fr Lookup (S (S n)) g0 0 K0 F0 G0).
    unfold g0. cbn [g_ready length]. lia.
  - intros g' j1 EL.
    exact (aug_loop_distE r n rows (m_x s) (m_y s) (m_v s) Rfin Rnodup HI NoBlock Hr Fr Lookup (S (S n)) g0 0 g' j1 K0 F0 G0 EL).
Qed.

Lemma Rfin1e : forall i j c, In (j, c) (row rows i) -> (j < n)%nat.
Proof. intros i j c H. apply (Rfin i j c H). Qed.

(* augment for one free row: returns, and InvE + Ord are preserved *)
Theorem aug_row_allE (s : main_state) (r : nat) (rest : list nat) :
  St n s -> InvE n rows (m_x s) (m_y s) (m_v s) -> Ord n rows (m_y s) (m_v s) -> Pending n (m_y s) (r :: rest) -> Hyg n s (r :: rest) ->
  exists s2, aug_row n PInf rows (Some s) r = Some s2 /\
    InvE n rows (m_x s2) (m_y s2) (m_v s2) /\ Ord n rows (m_y s2) (m_v s2).
Proof.
  intros HS HI HO [ND PF] HY. pose proof HS as [Lx [Ly [Ld [Lo [Lp PI]]]]]. unfold aug_row.
  destruct (PF r (or_introl eq_refl)) as [Hr Fr].
  pose proof (aug_marks_inv r n rows (m_y s) (m_v s) PInf Rfin1e Rnodup s) as AMI.
  pose proof (aug_flip_full r n rows (m_x s) (m_y s) (m_v s) PInf Rfin1e Rnodup s) as AFF. cbn zeta in AMI, AFF.
  pose proof (aug_loop_rowE s r) as ALT.
  destruct (aug_init_row r (m_v s) (rowget rows r) (repeat PInf n) (m_ontodo s) (m_pred s)) as [[d o] p].
  destruct (ALT d o p HS HI Hr Fr (fun j => proj1 (HY j r (or_introl eq_refl))) (fun j => proj2 (HY j r (or_introl eq_refl))) eq_refl)
    as [[[g' j1] EL] DI].
  rewrite EL. destruct (DI g' j1 EL) as [mu [Eu [DE RF]]].
  destruct (AMI g' j1 Ld Lo EL) as [[_ [_ [_ [_ [Nrs Hrs]]]]] _].
  destruct (AFF g' j1 Lx Ly Hr Fr PI Ld Lo Lp EL) as [x' [y' [EF [Lx' [Ly' [PI' [_ [_ [Keep [_ Src]]]]]]]]]].
  rewrite EF. eexists. split; [reflexivity|]. cbn [m_x m_y m_v]. rewrite Eu.
  assert (NR : NoDup (g_ready g')).
  { clear - Nrs. induction (g_ready g') as [|a l IHl]; [constructor|].
    cbn [app] in Nrs. inversion Nrs; subst. constructor; [intros H; apply H1; apply in_app_iff; left; auto|auto]. }
  split.
  - apply (aug_price_slack_ext n rows Rfin Rnodup r (m_x s) (m_y s) (m_v s) (g_d g') (g_pred g') (g_ready g') mu j1 x' y'); auto.
    intros j i Hj Ey Ne. destruct (Src j) as [H|[H1 H2]]; [left; congruence|right; split; [congruence|exact H2]].
  - pose proof HI as [_ [_ [PVv _]]].
    destruct (aug_prices_spec_ext n (g_d g') mu (g_ready g') (m_v s) PVv NR
                (fun j H => conj (proj1 (RF j H)) (conj (proj1 (proj2 (RF j H))) (proj1 (proj2 (proj2 (RF j H))))))) as [_ [Vr Vo]].
    apply (Ord_keep n rows (m_y s) (m_v s)); auto.
    + intros j Hj. destruct (in_dec Nat.eq_dec j (g_ready g')) as [Hin|Hnin].
      * destruct (Vr j Hin) as [[z Hz] _]. destruct (proj1 (proj2 (RF j Hin))) as [z0 Hz0]. split; intros E; congruence.
      * rewrite (Vo j Hnin). tauto.
    + intros j Hj En. destruct (Src j) as [H|[_ [Hin|Ej1]]]; auto; exfalso.
      * destruct (proj1 (proj2 (RF j Hin))) as [z0 Hz0]. congruence.
      * destruct (e6 n rows r (m_y s) (m_v s) (g_d g') (g_pred g') (g_ready g') mu j1 DE) as [_ [_ [z0 Hz0]]]. congruence.
Qed.

(* augment for all pending rows *)
Theorem aug_rows_allE : forall ii s,
  St n s -> InvE n rows (m_x s) (m_y s) (m_v s) -> Ord n rows (m_y s) (m_v s) -> Pending n (m_y s) ii -> Hyg n s ii ->
  exists sf, fold_left (aug_row n PInf rows) ii (Some s) = Some sf /\
    InvE n rows (m_x sf) (m_y sf) (m_v sf) /\ Ord n rows (m_y sf) (m_v sf).
Proof.
  induction ii as [|r rest IH]; intros s HS HI HO HP HY; cbn [fold_left]; [eauto|].
  destruct (aug_row_allE s r rest HS HI HO HP HY) as [s2 [E2 [I2 O2]]]. rewrite E2.
  destruct (aug_row_struct n rows PInf Rfin1e Rnodup s r rest HS HP s2 E2) as [S2 [P2 _]].
  pose proof (aug_row_hyg n rows PInf s r rest (proj1 HP) HY s2 E2) as Y2. apply IH; auto.
Qed.
End RowAll.

(* ---------------------------------------------------------------- the model, ALL inputs of the quantifier *)
Section ModelAll.
Variables (n : nat) (tri : list triple).
Hypothesis Hrange : forall t, In t tri -> (t_i t < n)%nat /\ (t_j t < n)%nat.
Hypothesis Hpairs : NoDup (map fst tri).
Hypothesis Hcols : forall j, (j < n)%nat -> exists t, In t tri /\ t_j t = j.
Hypothesis HPM : has_PM n tri.

Theorem lapjv_ref_fixed_correct_all : forall epsr k, 0 <= epsr -> arr_returns_b epsr k n tri = true ->
  exists x y u v, lapjv_ref Fixed 0 epsr k n tri = Some (x, y, u, v) /\ Optimal n tri x /\ Inverse n x y.
Proof.
  intros epsr k Her AR. unfold arr_returns_b in AR. cbn zeta in AR. unfold lapjv_ref.
  pose proof (phases123_inv_ord n tri Hrange Hpairs Hcols HPM epsr (arr_fuel n tri) k) as P123. cbn zeta in P123.
  pose proof (phase1_comp n tri) as C1.
  destruct (reduction_transfer Fixed n (rows_of n tri) (jflat_of (rows_of n tri)) (x_init n (min_i n tri))
              (one_rows n (min_i n tri)) (repeat (Fin 0) n) (v_init n tri)) as [u1 v1]. cbn [snd] in AR, P123.
  set (arr := match free_rows n (min_i n tri) with
              | [] => Some (x_init n (min_i n tri), y_init n (x_init n (min_i n tri)), v1, free_rows n (min_i n tri))
              | _ => arr_passes k (arr_fuel n tri) (Fin 0) (Fin epsr) n (rows_of n tri)
                       (x_init n (min_i n tri), y_init n (x_init n (min_i n tri)), v1, free_rows n (min_i n tri))
              end) in *.
  destruct arr as [[[[x2 y2] v2] ii]|] eqn:EA.
  2:{ exfalso. unfold arr in EA. destruct (free_rows n (min_i n tri)); [discriminate|]. rewrite EA in AR. discriminate. }
  destruct (P123 x2 y2 v2 ii Her eq_refl) as [HI [HO HP]].
  assert (HC : length y2 = n /\ Comp n y2 ii).
  { destruct HI as [_ [Ly2 _]]. split; auto. unfold arr in EA.
    destruct (free_rows n (min_i n tri)) as [|f0 fr] eqn:EF.
    - injection EA as Ex Ey Ev Ei. rewrite <- Ey, <- Ei. exact C1.
    - eapply (arr_passes_comp n (rows_of n tri) (fun i j c H => proj1 (rows_fin n tri Hrange i j c H))); [|exact C1|exact EA].
      unfold y_init. rewrite y_init_go_length, repeat_length. reflexivity. }
  destruct HC as [Ly2 HC].
  set (s0 := mkMain x2 y2 v2 (repeat (Fin 0) n) (repeat 1%nat n) (repeat n n) (repeat n n)) in *.
  assert (S0 : St n s0).
  { destruct HI as [Lx2 [_ [_ [SL _]]]]. unfold St, s0. cbn [m_x m_y m_done m_ontodo m_pred].
    rewrite !repeat_length. refine (conj Lx2 (conj Ly2 (conj eq_refl (conj eq_refl (conj eq_refl _))))).
    intros j i Hj _ Ey' Ne. destruct (SL j i Hj Ey' Ne) as [A [B _]]. split; auto. }
  assert (Hy0 : Hyg n s0 ii).
  { intros j i Hi. unfold s0. cbn [m_done m_ontodo]. unfold getn. rewrite !nth_repeat.
    destruct (proj2 HP i Hi) as [Hlt _]. split; lia. }
  destruct (aug_rows_allE n (rows_of n tri) (rows_fin n tri Hrange) (rows_nodup n tri Hpairs) (noblock_model n tri Hrange HPM)
              (model_lookup n tri Hpairs) ii s0 S0 HI HO HP Hy0) as [s [EFold [IE OE]]].
  rewrite EFold.
  destruct (aug_rows_struct n (rows_of n tri) PInf (fun i j c H => proj1 (rows_fin n tri Hrange i j c H))
              (rows_nodup n tri Hpairs) ii s0 s S0 HP EFold) as [[Lx [Ly [_ [_ [_ PI]]]]] Cnt].
  unfold s0 in Cnt. cbn [m_y] in Cnt. pose proof (comp_count n y2 ii HC) as CC.
  assert (IV : Inverse n (m_x s) (m_y s)) by (apply perm_of_full; auto; apply all_assigned; lia).
  pose proof IE as [_ [_ [_ [SLf _]]]].
  destruct (final_u_defined n tri (m_v s) Hpairs (m_x s) Lx) as [uf [EU _]].
  { intros i Hi. destruct IV as [_ [_ [F1 _]]]. destruct (F1 i Hi) as [Hx Hy].
    assert (Gx : getn (m_y s) (col (m_x s) i) n = i).
    { unfold getn. rewrite (nth_indep _ n 0%nat) by lia. exact Hy. }
    destruct (SLf (col (m_x s) i) i Hx Gx ltac:(lia)) as [_ [_ [c0 [Hc0 _]]]].
    exists (Fin c0). rewrite (nth_indep _ n 0%nat) by lia. exact Hc0. }
  rewrite EU. exists (m_x s), (m_y s), uf, (m_v s). split; [reflexivity|]. split; [|exact IV].
  apply (inve_ord_optimal n tri (m_x s) (m_y s) (m_v s) Hrange Hpairs IE OE IV).
Qed.

(* with the eps band ON for costs on a grid coarser than eps *)
Corollary lapjv_ref_fixed_correct_all_grid : forall g eps epsr k,
  0 <= eps < g -> 0 <= epsr < g -> (forall t, In t tri -> (g | t_c t)) -> arr_returns_b 0 k n tri = true ->
  exists x y u v, lapjv_ref Fixed eps epsr k n tri = Some (x, y, u, v) /\ Optimal n tri x /\ Inverse n x y.
Proof.
  intros g eps epsr k He Her Hg H. rewrite (eps_irrelevant_on_grid_ref g Fixed eps epsr k n tri He Her Hg).
  apply lapjv_ref_fixed_correct_all; [lia|exact H].
Qed.

Corollary lapjv_ref_fixed_total_all : forall epsr k, 0 <= epsr -> arr_returns_b epsr k n tri = true ->
  exists x y u v, lapjv_ref Fixed 0 epsr k n tri = Some (x, y, u, v).
Proof. intros epsr k Her H. destruct (lapjv_ref_fixed_correct_all epsr k Her H) as [x [y [u [v [E _]]]]]. eauto. Qed.
End ModelAll.
