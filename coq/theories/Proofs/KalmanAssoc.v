(* C09 — associativity of the batched matrix product of dot_n and its unit, for all shapes;
   hence the Kalman gain equation K S = P H^T for EVERY obs_len for which inv_n returns a left
   inverse of S (proved for 1, 2, 3, 4 on symbolic entries). *)
From Coq Require Import ZArith List Bool Lia Arith QArith Qcanon Field.
From Centro Require Import Gen.ConstsC09 Model.Kalman Spec.Kalman Proofs.KalmanArith Proofs.KalmanLists Proofs.KalmanAlg.
Import ListNotations.
Open Scope Qc_scope.

Definition vdot (u v : vec) : Qc := qsum (map2 qmul u v).
Definition vmat (v : vec) (X : mat) : vec := map (fun j => vdot v (col j X)) (seq 0 (ncols X)).
Definition ident (n : nat) : mat := map (fun i => map (fun j => if Nat.eqb i j then 1 else 0) (seq 0 n)) (seq 0 n).

Lemma mmul_rows x y : mmul x y = map (fun r => vmat r y) x.
Proof. reflexivity. Qed.

Lemma fold_qadd_shift l x : fold_left qadd l x = x + fold_left qadd l 0.
Proof.
  revert x. induction l as [|a l IH]; intros x; cbn [fold_left]; [ring|].
  rewrite IH, (IH (qadd 0 a)), !qadd_eq. ring.
Qed.

Lemma vdot_nil_l v : vdot [] v = 0.
Proof. reflexivity. Qed.
Lemma vdot_nil_r u : vdot u [] = 0.
Proof. unfold vdot, map2. rewrite combine_nil. reflexivity. Qed.
Lemma vdot_cons a u b w : vdot (a :: u) (b :: w) = a * b + vdot u w.
Proof.
  unfold vdot, map2, qsum. cbn [combine map fold_left fst snd]. rewrite fold_qadd_shift, qadd_eq, qmul_eq. ring.
Qed.

Lemma vdot_linear (l : list nat) (c : vec) (f g : nat -> Qc) a :
  vdot (map (fun j => a * f j + g j) l) c = a * vdot (map f l) c + vdot (map g l) c.
Proof.
  revert c. induction l as [|j l IH]; intros c; cbn [map]; [rewrite !vdot_nil_l; ring|].
  destruct c as [|b c]; [rewrite !vdot_nil_r; ring|]. rewrite !vdot_cons, IH. ring.
Qed.

Lemma vdot_zero_l (l : list nat) c : vdot (map (fun _ => 0) l) c = 0.
Proof.
  revert c. induction l as [|j l IH]; intros c; cbn [map]; [reflexivity|].
  destruct c as [|b c]; [apply vdot_nil_r|]. rewrite vdot_cons, IH. ring.
Qed.

Lemma map_nth_seq (r : vec) : map (fun j => nth j r 0) (seq 0 (length r)) = r.
Proof.
  apply (nth_ext_lt _ _ 0); [rewrite map_length, seq_length; reflexivity|].
  intros k Hk. rewrite map_length, seq_length in Hk.
  rewrite (nth_map_lt _ _ _ O) by (rewrite seq_length; exact Hk). rewrite seq_nth by exact Hk. reflexivity.
Qed.

(* (v X) . c = v . (X c) *)
Lemma vdot_assoc m : forall (X : mat) (v c : vec), length v = length X ->
  Forall (fun r => length r = m) X ->
  vdot (map (fun j => vdot v (col j X)) (seq 0 m)) c = vdot v (map (fun r => vdot r c) X).
Proof.
  induction X as [|r X IH]; intros v c Hl HF; destruct v as [|a v]; try discriminate.
  - rewrite (map_ext _ (fun _ : nat => 0)) by (intros j; reflexivity). rewrite (vdot_zero_l (seq 0 m) c). reflexivity.
  - inversion HF as [|? ? Hr HF']; subst. cbn [length] in Hl. injection Hl as Hl.
    cbn [map]. rewrite vdot_cons.
    assert (E : map (fun j => vdot (a :: v) (col j (r :: X))) (seq 0 (length r)) =
                map (fun j => a * nth j r 0 + vdot v (col j X)) (seq 0 (length r))).
    { apply map_ext. intros j. cbn [col map]. apply vdot_cons. }
    rewrite E, vdot_linear, map_nth_seq. rewrite (IH v c Hl HF'). reflexivity.
Qed.

Lemma ncols_mmul (X S : mat) : X <> [] -> ncols (mmul X S) = ncols S.
Proof.
  destruct X as [|r X]; [congruence|]. intros _. unfold ncols, mmul. cbn [map hd]. rewrite map_length, seq_length. reflexivity.
Qed.

Lemma col_length j (S : mat) : length (col j S) = length S.
Proof. apply map_length. Qed.

Lemma vmat_assoc (v : vec) (X S : mat) m : X <> [] -> length v = length X ->
  Forall (fun r => length r = m) X -> vmat (vmat v X) S = vmat v (mmul X S).
Proof.
  intros Hne Hl HF. unfold vmat at 1 3. rewrite ncols_mmul by exact Hne. apply map_ext_in. intros k Hk.
  apply in_seq in Hk.
  assert (Hm : ncols X = m).
  { destruct X as [|r X]; [congruence|]. inversion HF; subst. reflexivity. }
  unfold vmat. rewrite Hm, (vdot_assoc m X v (col k S) Hl HF). f_equal.
  unfold col at 2. rewrite mmul_rows, map_map. apply map_ext. intros r.
  unfold vmat. rewrite (nth_map_lt _ _ _ O) by (rewrite seq_length; lia). rewrite seq_nth by lia. reflexivity.
Qed.

(* associativity, all shapes: M is a x n, X is n x m (n >= 1), S is m x p *)
Theorem mmul_assoc (M X S : mat) m : X <> [] -> Forall (fun r => length r = length X) M ->
  Forall (fun r => length r = m) X -> mmul (mmul M X) S = mmul M (mmul X S).
Proof.
  intros Hne HM HX. rewrite !mmul_rows, map_map. apply map_ext_in. intros v Hv.
  rewrite Forall_forall in HM. apply (vmat_assoc v X S m Hne (HM v Hv) HX).
Qed.

(* the unit *)
Lemma vdot_unit j : forall (v : vec) s,
  vdot v (map (fun i => if Nat.eqb i j then 1 else 0) (seq s (length v))) =
  if Nat.leb s j && Nat.ltb j (s + length v) then nth (j - s) v 0 else 0.
Proof.
  induction v as [|a v IH]; intros s.
  - cbn [length seq map]. rewrite vdot_nil_l. destruct (Nat.leb_spec s j), (Nat.ltb_spec j (s + 0)); cbn [andb]; try reflexivity; lia.
  - cbn [length seq map]. rewrite vdot_cons, IH.
    destruct (Nat.eqb_spec s j) as [->|N].
    + rewrite Nat.sub_diag. cbn [nth].
      destruct (Nat.leb_spec (S j) j); [lia|]. cbn [andb].
      destruct (Nat.leb_spec j j); [|lia]. destruct (Nat.ltb_spec j (j + S (length v))); [|lia]. cbn [andb]. ring.
    + destruct (Nat.leb_spec (S s) j), (Nat.ltb_spec j (S s + length v)), (Nat.leb_spec s j), (Nat.ltb_spec j (s + S (length v)));
        cbn [andb]; try lia; try ring.
      replace (j - s)%nat with (S (j - S s)) by lia. cbn [nth]. ring.
Qed.

Lemma col_ident n j : (j < n)%nat -> col j (ident n) = map (fun i => if Nat.eqb i j then 1 else 0) (seq 0 n).
Proof.
  intros H. unfold col, ident. rewrite map_map. apply map_ext. intros i.
  rewrite (nth_map_lt _ _ _ O) by (rewrite seq_length; exact H). rewrite seq_nth by exact H. reflexivity.
Qed.

Lemma ncols_ident n : ncols (ident n) = n.
Proof. destruct n; [reflexivity|]. unfold ncols, ident. cbn [seq map hd length]. rewrite map_length, seq_length. reflexivity. Qed.

Theorem mmul_ident_r (M : mat) n : Forall (fun r => length r = n) M -> mmul M (ident n) = M.
Proof.
  intros HM. rewrite mmul_rows. rewrite <- (map_id M) at 2. apply map_ext_in. intros v Hv.
  rewrite Forall_forall in HM. specialize (HM v Hv). unfold vmat. rewrite ncols_ident.
  transitivity (map (fun j => nth j v 0) (seq 0 (length v))); [|apply map_nth_seq].
  rewrite HM. apply map_ext_in. intros j Hj. apply in_seq in Hj.
  rewrite col_ident by lia. rewrite <- HM. rewrite vdot_unit.
  destruct (Nat.leb_spec 0 j); [|lia]. destruct (Nat.ltb_spec j (0 + length v)); [|lia]. cbn [andb].
  rewrite Nat.sub_0_r. reflexivity.
Qed.

(* the gain equation for every obs_len on which inv_n inverts S from the left *)
Theorem gain_equation_n H Pp r n :
  let S := innovation_cov H Pp r in
  S <> [] -> length S = n -> Forall (fun row => length row = n) (inv1 S) ->
  mmul (inv1 S) S = ident n ->
  Forall (fun row => length row = n) (mmul Pp (mtrans H)) ->
  mmul (gain H Pp r) S = mmul Pp (mtrans H).
Proof.
  cbn zeta. intros Hne Hn Hinv Hleft HM. unfold gain.
  assert (Li : length (inv1 (innovation_cov H Pp r)) = n).
  { unfold inv1. rewrite map_length, seq_length. exact Hn. }
  rewrite (mmul_assoc _ _ _ n).
  - rewrite Hleft. apply mmul_ident_r. exact HM.
  - intro E. rewrite E in Li. cbn [length] in Li. subst n. destruct (innovation_cov H Pp r); [congruence|discriminate].
  - rewrite Li. exact HM.
  - exact Hinv.
Qed.

(* ------------------------------------------------------------------ sizes 1..4 in one statement *)
From Centro Require Import Proofs.KalmanInv34.

Lemma inv1_rows (S : mat) : Forall (fun row => length row = length S) (inv1 S).
Proof.
  unfold inv1. apply Forall_forall. intros row Hin. apply in_map_iff in Hin. destruct Hin as [i [<- _]].
  rewrite map_length, seq_length. reflexivity.
Qed.

Theorem inv_n_correct_upto4 (A : mat) n : (1 <= n <= 4)%nat -> length A = n ->
  Forall (fun row => length row = n) A -> det1 A <> 0 ->
  mmul A (inv1 A) = ident n /\ mmul (inv1 A) A = ident n.
Proof.
  intros Hn HL HF Hd.
  destruct n as [|[|[|[|[|n]]]]]; try lia.
  - destruct A as [|[|a [|]] [|]]; try discriminate; try (inversion HF; subst; discriminate).
    exact (inv_n_correct_1 a Hd).
  - destruct A as [|r1 [|r2 [|]]]; try discriminate.
    inversion HF as [|? ? H1 HF1]; subst. inversion HF1 as [|? ? H2 _]; subst.
    destruct r1 as [|a [|b [|]]]; try discriminate. destruct r2 as [|c [|d [|]]]; try discriminate.
    exact (inv_n_correct_2 a b c d Hd).
  - destruct A as [|r1 [|r2 [|r3 [|]]]]; try discriminate.
    inversion HF as [|? ? H1 HF1]; subst. inversion HF1 as [|? ? H2 HF2]; subst. inversion HF2 as [|? ? H3 _]; subst.
    destruct r1 as [|a [|b [|c [|]]]]; try discriminate. destruct r2 as [|d [|e [|f [|]]]]; try discriminate.
    destruct r3 as [|g [|h [|i [|]]]]; try discriminate.
    exact (inv_n_correct_3 a b c d e f g h i Hd).
  - destruct A as [|r1 [|r2 [|r3 [|r4 [|]]]]]; try discriminate.
    inversion HF as [|? ? H1 HF1]; subst. inversion HF1 as [|? ? H2 HF2]; subst.
    inversion HF2 as [|? ? H3 HF3]; subst. inversion HF3 as [|? ? H4 _]; subst.
    destruct r1 as [|a [|b [|c [|d [|]]]]]; try discriminate. destruct r2 as [|e [|f [|g [|h [|]]]]]; try discriminate.
    destruct r3 as [|i [|j [|k [|l [|]]]]]; try discriminate. destruct r4 as [|m [|n [|o [|p [|]]]]]; try discriminate.
    exact (inv_n_correct_4 a b c d e f g h i j k l m n o p Hd).
Qed.

(* K S = P H^T for obs_len 1..4, from det S <> 0 alone *)
Theorem gain_equation_upto4 H Pp r n :
  let S := innovation_cov H Pp r in
  (1 <= n <= 4)%nat -> length S = n -> Forall (fun row => length row = n) S -> det1 S <> 0 ->
  Forall (fun row => length row = n) (mmul Pp (mtrans H)) ->
  mmul (gain H Pp r) S = mmul Pp (mtrans H).
Proof.
  cbn zeta. intros Hn HL HF Hd HM.
  apply (gain_equation_n H Pp r n); try assumption.
  - intro E. rewrite E in HL. cbn [length] in HL. lia.
  - rewrite <- HL. apply inv1_rows.
  - apply (inv_n_correct_upto4 _ n Hn HL HF Hd).
Qed.

(* the hypotheses hold: the 3-D static model (obs_len 3) with P = I, r = I *)
Example gain_equation_upto4_ex :
  let H := ident 3 in let P := ident 3 in let r := ident 3 in
  length (innovation_cov H P r) = 3%nat /\ Forall (fun row => length row = 3%nat) (innovation_cov H P r) /\
  det1 (innovation_cov H P r) <> 0 /\ Forall (fun row => length row = 3%nat) (mmul P (mtrans H)).
Proof.
  cbn zeta. split; [vm_compute; reflexivity|]. split; [vm_compute; repeat constructor|]. split.
  - intro E. apply (f_equal this) in E. vm_compute in E. discriminate.
  - vm_compute. repeat constructor.
Qed.
