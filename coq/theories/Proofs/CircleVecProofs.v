(* C14 — per-object independence of the vectorised bookkeeping of minimum_enclosing_circle, over
   the NumPy-idiom lemmas of C13 (offsets_correct, anti_index_correct, upd_set/nth):
   (A) the rows that the code selects for object k through anti_indexes_per_point are exactly the
       k-th block of the hull array, at offset point_index[k];
   (B) what an iteration decides for object k reads only object k's own entries of s0_idx, s1_idx,
       keep_me and within_label_indexes at rows owned by k;
   (C) what it writes for another object k' leaves all of that untouched. *)
From Coq Require Import ZArith List Bool Lia ZifyBool.
From Centro Require Import Base.Sx Base.VecC13 Proofs.VecC13Proofs Model.Circle Model.CircleVec.
Import ListNotations.
Open Scope Z_scope.

(* ---------------------------------------------------------------- (A) own rows *)
Definition lrows (lb : Z * list cpt) : list (Z * cpt) := map (pair (fst lb)) (snd lb).

Lemma zlen_lrows indexes : forall blocks, length indexes = length blocks ->
  map zlen (map lrows (combine indexes blocks)) = map zlenv blocks.
Proof.
  induction indexes as [|l t IH]; intros [|b r] L; try discriminate; [reflexivity|].
  cbn [combine map]. f_equal; [unfold zlen, zlenv, lrows; cbn [fst snd]; rewrite map_length; reflexivity|].
  apply IH. cbn [length] in L. lia.
Qed.

Lemma nth_error_combine {A B} : forall (l : list A) (l' : list B) k a b,
  nth_error l k = Some a -> nth_error l' k = Some b -> nth_error (combine l l') k = Some (a, b).
Proof.
  induction l as [|x t IH]; intros [|y r] [|k] a b Ha Hb; try discriminate; cbn [combine nth_error] in *.
  - inversion Ha; inversion Hb; reflexivity.
  - apply IH; assumption.
Qed.

(* hull[point_index[k] : point_index[k] + point_count[k]] = the rows (l_k, p) of block k *)
Theorem own_block indexes blocks k l b :
  length indexes = length blocks -> nth_error indexes k = Some l -> nth_error blocks k = Some b ->
  exists off, nth_error (offsets (map zlenv blocks)) k = Some off /\
              segment (hull_rows indexes blocks) off (zlenv b) = map (pair l) b.
Proof.
  intros L Hl Hb.
  pose proof (nth_error_combine indexes blocks k l b Hl Hb) as Hc.
  assert (Hm : nth_error (map lrows (combine indexes blocks)) k = Some (lrows (l, b))).
  { rewrite nth_error_map, Hc. reflexivity. }
  destruct (offsets_correct (map lrows (combine indexes blocks)) k (lrows (l, b)) Hm) as [off [Ho Hs]].
  exists off. rewrite zlen_lrows in Ho by exact L. split; [exact Ho|].
  unfold hull_rows. fold lrows.
  replace (zlenv b) with (zlen (lrows (l, b))); [exact Hs|].
  unfold zlen, zlenv, lrows. cbn [fst snd]. rewrite map_length. reflexivity.
Qed.

(* anti_indexes_per_point of a row of object k is k *)
Theorem own_anti indexes k l :
  NoDup indexes -> (forall j, In j indexes -> 0 <= j) -> nth_error indexes k = Some l ->
  nthz (anti_index indexes) l 0 = Z.of_nat k.
Proof.
  intros ND NN Hl. unfold nthz, anti_index.
  apply anti_index_correct; try assumption. lia.
Qed.

(* ---------------------------------------------------------------- (B) reads are local *)
Section Local.
  Variable rows : list (Z * cpt).
  Variable app : list Z.

  Definition agree (k : Z) (st st' : vstate) : Prop :=
    nthz (v_keep st) k false = nthz (v_keep st') k false /\
    nthz (v_s0 st) k 0 = nthz (v_s0 st') k 0 /\
    nthz (v_s1 st) k 0 = nthz (v_s1 st') k 0 /\
    nthz (v_res st) k CEmpty = nthz (v_res st') k CEmpty /\
    forall g, nthz app g (-1) = k -> nthz (v_w st) g 0 = nthz (v_w st') g 0.

  Lemma filter_ext_in' {A} (f g : A -> bool) l : (forall x, In x l -> f x = g x) -> filter f l = filter g l.
  Proof.
    induction l as [|a t IH]; intro H; [reflexivity|]. cbn [filter].
    rewrite (H a (or_introl eq_refl)). rewrite IH; [reflexivity|]. intros x I. apply H. right. exact I.
  Qed.

  Lemma cands_local k w w' : (forall g, nthz app g (-1) = k -> nthz w g 0 = nthz w' g 0) ->
    cands rows app w k = cands rows app w' k.
  Proof.
    intro H. unfold cands. apply filter_ext_in'. intros g _.
    destruct (nthz app g (-1) =? k) eqn:E; [|reflexivity]. rewrite (H g) by lia. reflexivity.
  Qed.

  Theorem decide_local k st st' : agree k st st' -> decide rows app st k = decide rows app st' k.
  Proof.
    intros (Hk & H0 & H1 & _ & Hw). unfold decide.
    rewrite Hk, H0, H1, (cands_local k (v_w st) (v_w st') Hw). reflexivity.
  Qed.

  (* the vertex an object moves to is one of its own rows *)
  Lemma best_over_In gs P0 P1 : forall best g d A,
    best_over rows gs P0 P1 best = Some (g, d, A) ->
    (exists d' A', best = Some (g, d', A')) \/ In g gs.
  Proof.
    induction gs as [|x t IH]; intros best g d A E; cbn [best_over] in E.
    - left. exists d, A. exact E.
    - apply IH in E. destruct E as [[d' [A' E]]|I]; [|right; right; exact I].
      destruct best as [[[bg bd] bA]|].
      + destruct (cos_gt _ _ bd bA); inversion E; subst; [right; left; reflexivity|left; eauto].
      + inversion E; subst. right. left. reflexivity.
  Qed.

  Lemma move_own st k g : decide rows app st k = MoveS0 g \/ decide rows app st k = MoveS1 g ->
    nthz app g (-1) = k.
  Proof.
    unfold decide. destruct (negb (nthz (v_keep st) k false)); [intros [H|H]; discriminate|].
    destruct (best_over rows (cands rows app (v_w st) k) _ _ None) as [[[g' d] A]|] eqn:B; [|intros [H|H]; discriminate].
    destruct (d <=? 0); [intros [H|H]; discriminate|].
    destruct ((0 <=? _) && (0 <=? _)); [intros [H|H]; discriminate|].
    intro H. assert (g' = g).
    { destruct (dot3 _ _ _ <? 0); destruct H as [H|H]; try discriminate; inversion H; reflexivity. }
    subst g'.
    apply best_over_In in B. destruct B as [[? [? B]]|I]; [discriminate|].
    unfold cands in I. apply filter_In in I. destruct I as [_ I]. lia.
  Qed.

  (* ---------------------------------------------------------------- (C) writes are local *)
  Lemma setz_other {A} (a : list A) g g' v d : Z.to_nat g' <> Z.to_nat g -> nthz (setz a g v) g' d = nthz a g' d.
  Proof. intro N. unfold nthz, setz. apply nth_upd_set_other. exact N. Qed.

  Lemma row_apart g g' k k' : nthz app g (-1) = k -> nthz app g' (-1) = k' -> k <> k' -> Z.to_nat g' <> Z.to_nat g.
  Proof. unfold nthz. intros E E' N C. rewrite C in E'. congruence. Qed.

  (* an action of object k' whose written rows belong to k' does not touch object k *)
  Theorem others_frame k k' st a : Z.to_nat k <> Z.to_nat k' -> k <> k' ->
    nthz app (nthz (v_s0 st) k' 0) (-1) = k' -> nthz app (nthz (v_s1 st) k' 0) (-1) = k' ->
    (forall g, a = MoveS0 g \/ a = MoveS1 g -> nthz app g (-1) = k') ->
    agree k (apply_action st k' a) st.
  Proof.
    intros Nk Nkz O0 O1 Og. unfold agree.
    destruct a as [|r|g|g]; cbn [apply_action v_keep v_s0 v_s1 v_w v_res].
    - repeat split; reflexivity.
    - repeat split; try reflexivity; apply setz_other; exact Nk.
    - pose proof (Og g (or_introl eq_refl)) as Eg.
      repeat split; try reflexivity; [apply setz_other; exact Nk|].
      intros g' E'. rewrite setz_other by (apply (row_apart g g' k' k); [exact Eg|exact E'|congruence]).
      apply setz_other. apply (row_apart _ g' k' k); [exact O0|exact E'|congruence].
    - pose proof (Og g (or_intror eq_refl)) as Eg.
      repeat split; try reflexivity; [apply setz_other; exact Nk|].
      intros g' E'. rewrite setz_other by (apply (row_apart g g' k' k); [exact Eg|exact E'|congruence]).
      apply setz_other. apply (row_apart _ g' k' k); [exact O1|exact E'|congruence].
  Qed.
End Local.
