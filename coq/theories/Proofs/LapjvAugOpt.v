(* C01 — "returns => optimal" for the (Fixed, eps 0) model, reduced to ONE named lemma.
   [DistHyp] is the statement of the missing lemma aug_dist_inv: on every returning run of the Dijkstra loop of a free row
   the facts DistInv of Proofs.LapjvAugPrice hold (d <= umin on ready, >= umin elsewhere, edge inequalities, tight pred links).
   Everything else is proved: the price update + flip keep Inv (aug_row_inv, aug_rows_inv) and at the end every row sits on
   a listed column of minimal reduced cost, so u_i := c(i, x_i) - v(x_i), v certify x (weak duality) - Optimal. *)
From Coq Require Import ZArith List Bool Lia ZifyBool Arith.
From Centro Require Import Base.Sx Model.Lapjv Spec.Lapjv Proofs.LapjvCert Proofs.LapjvPhases Proofs.LapjvArr Proofs.LapjvRows
  Proofs.LapjvRt Proofs.LapjvHall Proofs.LapjvArrExt Proofs.LapjvExtModel Proofs.LapjvAugMarks Proofs.LapjvAugFlip
  Proofs.LapjvAugPred Proofs.LapjvAugRows Proofs.LapjvAugPrice Proofs.LapjvPerm Proofs.LapjvFixedPerm Proofs.LapjvAugStamps.
Import ListNotations.
Open Scope Z_scope.

Section Opt.
Variables (n : nat) (rows : list (list (nat * ext))) (inf : ext).
Hypothesis Rfin : forall i j c, In (j, c) (row rows i) -> (j < n)%nat /\ exists z, c = Fin z.
Hypothesis Rnodup : forall i, NoDup (map fst (row rows i)).

Definition DistHyp : Prop :=
  forall (s : main_state) (r : nat) d o p g' j1,
    St n s -> Inv n rows (m_x s) (m_y s) (m_v s) -> (r < n)%nat -> free n (m_y s) r ->
    (forall j, getn (m_done s) j n <> r) -> (forall j, getn (m_ontodo s) j n <> r) ->
    aug_init_row r (m_v s) (rowget rows r) (repeat inf n) (m_ontodo s) (m_pred s) = (d, o, p) ->
    aug_loop (S (S n)) r n inf rows (m_y s) (m_v s) (mkAug d p (m_done s) o (map fst (rowget rows r)) [] [] inf) = Some (g', j1) ->
    exists mu, g_umin g' = Fin mu /\
      DistInv n rows r (m_y s) (m_v s) (g_d g') (g_pred g') (g_ready g') mu j1 /\
      (forall j, In j (g_ready g') -> (exists z, gete (g_d g') j = Fin z) /\ getn (m_y s) j n <> n).

Lemma Rfin1 : forall i j c, In (j, c) (row rows i) -> (j < n)%nat.
Proof. intros i j c H. apply (Rfin i j c H). Qed.

(* no stamp equals a row that is still pending *)
Definition Hyg (s : main_state) (pend : list nat) : Prop :=
  forall j i, In i pend -> getn (m_done s) j n <> i /\ getn (m_ontodo s) j n <> i.

Theorem aug_row_hyg (s : main_state) (r : nat) (rest : list nat) :
  NoDup (r :: rest) -> Hyg s (r :: rest) ->
  forall s2, aug_row n inf rows (Some s) r = Some s2 -> Hyg s2 rest.
Proof.
  intros ND HY s2. unfold aug_row.
  pose proof (aug_init_row_stamps r n (m_v s) (rowget rows r) (repeat inf n) (m_ontodo s) (m_pred s)) as IS.
  destruct (aug_init_row r (m_v s) (rowget rows r) (repeat inf n) (m_ontodo s) (m_pred s)) as [[d o] p]. cbn [fst snd] in IS.
  destruct (aug_loop (S (S n)) r n inf rows (m_y s) (m_v s)
              (mkAug d p (m_done s) o (map fst (rowget rows r)) [] [] inf)) as [[g' j1]|] eqn:EL; [|discriminate].
  destruct (aug_loop_stamps r n rows (m_y s) (m_v s) inf _ _ _ _ EL) as [D O]. cbn [g_done g_ontodo] in D, O.
  destruct (aug_flip (S n) r (g_pred g') j1 (m_x s) (m_y s) n) as [[x' y']|]; [|discriminate].
  intros E; inversion E; subst. intros j i Hi. cbn [m_done m_ontodo].
  inversion ND as [|? ? Nin _]; subst. destruct (HY j i (or_intror Hi)) as [A B].
  assert (Ni : r <> i) by (intros ->; contradiction).
  split.
  - destruct (D j) as [E1|E1]; rewrite E1; auto.
  - destruct (O j) as [E1|E1]; [rewrite E1; destruct (IS j) as [E2|E2]; rewrite E2; auto|rewrite E1; auto].
Qed.

Theorem aug_row_inv (s : main_state) (r : nat) (rest : list nat) :
  DistHyp -> St n s -> Inv n rows (m_x s) (m_y s) (m_v s) -> Pending n (m_y s) (r :: rest) -> Hyg s (r :: rest) ->
  forall s2, aug_row n inf rows (Some s) r = Some s2 -> Inv n rows (m_x s2) (m_y s2) (m_v s2).
Proof.
  intros DH HS HI [ND PF] HY s2. pose proof HS as [Lx [Ly [Ld [Lo [Lp PI]]]]]. unfold aug_row.
  destruct (PF r (or_introl eq_refl)) as [Hr Fr].
  pose proof (aug_marks_inv r n rows (m_y s) (m_v s) inf Rfin1 Rnodup s) as AMI.
  pose proof (aug_flip_full r n rows (m_x s) (m_y s) (m_v s) inf Rfin1 Rnodup s) as AFF.
  pose proof (DH s r) as DHs. cbn zeta in AMI, AFF.
  destruct (aug_init_row r (m_v s) (rowget rows r) (repeat inf n) (m_ontodo s) (m_pred s)) as [[d o] p].
  destruct (aug_loop (S (S n)) r n inf rows (m_y s) (m_v s)
              (mkAug d p (m_done s) o (map fst (rowget rows r)) [] [] inf)) as [[g' j1]|] eqn:EL; [|discriminate].
  destruct (DHs d o p g' j1 HS HI Hr Fr (fun j => proj1 (HY j r (or_introl eq_refl))) (fun j => proj2 (HY j r (or_introl eq_refl))) eq_refl EL) as [mu [Eu [DI RF]]].
  destruct (AMI g' j1 Ld Lo eq_refl) as [[_ [_ [_ [_ [Nrs Hrs]]]]] _].
  destruct (AFF g' j1 Lx Ly Hr Fr PI Ld Lo Lp eq_refl) as [x' [y' [EF [Lx' [Ly' [PI' [_ [_ [_ [_ Src]]]]]]]]]].
  rewrite EF. intros E; inversion E; subst. cbn [m_x m_y m_v]. rewrite Eu.
  assert (NR : NoDup (g_ready g')).
  { clear - Nrs. induction (g_ready g') as [|a l IHl]; [constructor|].
    cbn [app] in Nrs. inversion Nrs; subst. constructor; [intros H; apply H1; apply in_app_iff; left; auto|auto]. }
  apply (aug_price_slack n rows r (m_x s) (m_y s) (m_v s) (g_d g') (g_pred g') (g_ready g') mu j1 Rfin Rnodup x' y'); auto.
  - intros j Hj. split; [apply Hrs; apply in_app_iff; left; auto|]. apply RF; auto.
  - intros j i Hj Ey Ne. destruct (Src j) as [H|[H1 H2]]; [left; congruence|right; split; [congruence|exact H2]].
Qed.

Theorem aug_rows_inv : DistHyp -> forall ii s sf,
  St n s -> Inv n rows (m_x s) (m_y s) (m_v s) -> Pending n (m_y s) ii -> Hyg s ii ->
  fold_left (aug_row n inf rows) ii (Some s) = Some sf ->
  Inv n rows (m_x sf) (m_y sf) (m_v sf).
Proof.
  intros DH. induction ii as [|r rest IH]; intros s sf HS HI HP HY; cbn [fold_left].
  - intros E; inversion E; subst; auto.
  - destruct (aug_row n inf rows (Some s) r) as [s2|] eqn:E2; [|rewrite fold_aug_none; discriminate].
    destruct (aug_row_struct n rows inf Rfin1 Rnodup s r rest HS HP s2 E2) as [S2 [P2 _]].
    pose proof (aug_row_inv s r rest DH HS HI HP HY s2 E2) as I2.
    pose proof (aug_row_hyg s r rest (proj1 HP) HY s2 E2) as Y2. apply IH; auto.
Qed.
End Opt.

(* ---------------------------------------------------------------- end to end *)

Lemma cost_unique tri : NoDup (map fst tri) -> forall i j c, In (i, j, c) tri -> cost tri i j = Some c.
Proof.
  induction tri as [|t r IH]; intros ND i j c Hin; [destruct Hin|]. cbn [map] in ND. inversion ND as [|? ? Nin ND']; subst.
  cbn [cost]. destruct Hin as [Et|Hin].
  - subst t. cbn [t_i t_j t_c fst snd]. rewrite !Nat.eqb_refl. reflexivity.
  - destruct ((t_i t =? i)%nat && (t_j t =? j)%nat) eqn:E; [|apply IH; auto].
    exfalso. apply andb_true_iff in E as [E1 E2]. apply Nat.eqb_eq in E1, E2. apply Nin.
    apply in_map_iff. exists (i, j, c). split; auto. destruct t as [[a b] c']. cbn in *. subst. reflexivity.
Qed.

Definition model_inf (n : nat) (tri : list triple) : ext :=
  eadd (esum (concat (map (map snd) (rows_of n tri)))) (Fin 1).

Theorem lapjv_fixed_optimal_if_returns n tri :
  (forall t, In t tri -> (t_i t < n)%nat /\ (t_j t < n)%nat) ->
  NoDup (map fst tri) ->
  (forall j, (j < n)%nat -> exists t, In t tri /\ t_j t = j) ->
  has_PM n tri ->
  (forall i, (i < n)%nat -> (2 <= length (filter (fun t => (t_i t =? i)%nat) tri))%nat) ->
  DistHyp n (rows_of n tri) (model_inf n tri) ->
  forall epsr k x y u v, 0 <= epsr ->
  lapjv Fixed 0 epsr k n tri = Some (x, y, u, v) -> Optimal n tri x.
Proof.
  intros Hrange Hpairs Hcols HPM Hc2 DH epsr k x y u v Her E.
  destruct (lapjv_fixed_pm n tri Hrange Hpairs Hcols HPM epsr k x y u v Her E) as [PMx Inv'].
  (* the final state satisfies Inv *)
  assert (FI : exists vf, Inv n (rows_of n tri) x y vf).
  { unfold lapjv in E.
    pose proof (phases123_inv n tri Hrange Hpairs Hcols Hc2 epsr (arr_fuel n tri) k) as P123. cbn zeta in P123.
    destruct (reduction_transfer Fixed n (rows_of n tri) (jflat_of (rows_of n tri)) (x_init n (min_i n tri))
                (one_rows n (min_i n tri)) (repeat (Fin 0) n) (v_init n tri)) as [u1 v1]. cbn [snd] in P123.
    destruct (match free_rows n (min_i n tri) with
              | [] => Some (x_init n (min_i n tri), y_init n (x_init n (min_i n tri)), v1, free_rows n (min_i n tri))
              | _ => arr_passes k (arr_fuel n tri) (Fin 0) (Fin epsr) n (rows_of n tri)
                       (x_init n (min_i n tri), y_init n (x_init n (min_i n tri)), v1, free_rows n (min_i n tri))
              end) as [[[[x2 y2] v2] ii]|] eqn:EA; [|discriminate].
    destruct (P123 x2 y2 v2 ii Her eq_refl) as [HI HP].
    fold (model_inf n tri) in E.
    set (s0 := mkMain x2 y2 v2 (repeat (Fin 0) n) (repeat 1%nat n) (repeat n n) (repeat n n)) in *.
    destruct (fold_left (aug_row n (model_inf n tri) (rows_of n tri)) ii (Some s0)) as [s|] eqn:EFold; [|discriminate].
    destruct (final_u (rows_of n tri) (m_x s) (m_v s)) as [uf|]; [|discriminate].
    injection E as Ex Ey Eu Ev. exists (m_v s). rewrite <- Ex, <- Ey.
    assert (S0 : St n s0).
    { destruct HI as [Lx2 [Ly2 [_ SL]]]. unfold St, s0. cbn [m_x m_y m_done m_ontodo m_pred].
      rewrite !repeat_length. refine (conj Lx2 (conj Ly2 (conj eq_refl (conj eq_refl (conj eq_refl _))))).
      intros j i Hj _ Ey' Ne. destruct (SL j i Hj Ey' Ne) as [A [B _]]. split; auto. }
    apply (aug_rows_inv n (rows_of n tri) (model_inf n tri) (rows_fin n tri Hrange) (rows_nodup n tri Hpairs) DH ii s0 s S0); auto.
    intros j i Hi. unfold s0. cbn [m_done m_ontodo]. unfold getn. rewrite !nth_repeat.
    destruct (proj2 HP i Hi) as [Hlt _]. split; lia. }
  destruct FI as [vf [Lx [Ly [FV SL]]]].
  split; [exact PMx|]. intros sigma PMs.
  apply (cert_optimal_abs n tri (fun i => costz tri i (col x i) - vz vf (col x i)) (vz vf) x PMx); auto.
  - (* dual feasibility from Slack *)
    intros i j z Ec. destruct (cost_in _ _ _ _ Ec) as [t [Hin [Ei [Ej Ecz]]]].
    assert (Hi : (i < n)%nat) by (rewrite <- Ei; apply Hrange; auto).
    destruct Inv' as [_ [_ [F1 _]]]. destruct (F1 i Hi) as [Hx Hy].
    assert (Gx : getn y (col x i) n = i).
    { unfold getn. rewrite (nth_indep _ n 0%nat) by lia. exact Hy. }
    destruct (SL (col x i) i Hx Gx ltac:(lia)) as [_ [_ [c0 [Hc0 Hmin]]]].
    pose proof (in_row_of_tri n tri Hrange t Hin) as Hrow. rewrite Ei, Ej, Ecz in Hrow.
    specialize (Hmin j z Hrow).
    assert (Ec0 : costz tri i (col x i) = c0).
    { unfold costz. rewrite (cost_unique tri Hpairs i (col x i) c0); auto.
      apply (row_in_tri n tri). exact Hc0. }
    rewrite Ec0. lia.
  - intros i Hi. lia.
Qed.
