(* C01 — phase 3 of the executable model with prices in Fin | -inf (no restriction on the number of
   candidates per row).  A free row with a single finite-priced candidate executes
   v[j1] = v[j1] - inf + u1 = -inf; such a column is reserved: its row lists only -inf columns, nobody can take
   it again (reduced cost +inf is skipped by the scan).  That a free row always still has a finite-priced
   candidate follows from the absence of a Hall block (NoBlock, discharged from has_PM by hall_block). *)
From Coq Require Import ZArith List Bool Lia ZifyBool Arith.
From Centro Require Import Base.Sx Model.Lapjv Spec.Lapjv Proofs.LapjvCert Proofs.LapjvPhases Proofs.LapjvArr.
Import ListNotations.
Open Scope Z_scope.

Lemma eltb_pinf_l u : eltb PInf u = false.
Proof. destruct u; reflexivity. Qed.

Section ArrExt.
Variables (n : nat) (rows : list (list (nat * ext))).
Hypothesis Rfin : forall i j c, In (j, c) (row rows i) -> (j < n)%nat /\ exists z, c = Fin z.
Hypothesis Rnodup : forall i, NoDup (map fst (row rows i)).
(* no Hall block: m+1 rows whose candidates lie within m columns *)
Hypothesis NoBlock : forall L C : list nat, NoDup L -> (forall i, In i L -> (i < n)%nat) ->
  (forall i j c, In i L -> In (j, c) (row rows i) -> In j C) -> (length L <= length C)%nat.

Definition finp (v : list ext) (j : nat) : Prop := exists z, gete v j = Fin z.
Definition PV (v : list ext) : Prop := length v = n /\ forall j, (j < n)%nat -> finp v j \/ gete v j = NInf.
Definition SlackE (x y : list nat) (v : list ext) : Prop :=
  forall j i, (j < n)%nat -> getn y j n = i -> i <> n ->
    (i < n)%nat /\ getn x i n = j /\
    exists c, In (j, Fin c) (row rows i) /\
      (forall j' c', In (j', Fin c') (row rows i) -> finp v j -> finp v j' -> c - vz v j <= c' - vz v j') /\
      (gete v j = NInf -> forall j' c', In (j', c') (row rows i) -> gete v j' = NInf).
Definition InvE (x y : list nat) (v : list ext) : Prop :=
  length x = n /\ length y = n /\ PV v /\ SlackE x y v /\
  (forall j, (j < n)%nat -> gete v j = NInf -> getn y j n <> n).

Lemma Inv_InvE x y v : Inv n rows x y v -> InvE x y v.
Proof.
  intros [Lx [Ly [[Lv FV] SL]]]. split; auto. split; auto. split; [split; auto; intros j Hj; left; apply FV; auto|]. split.
  - intros j i Hj Hy Hne. destruct (SL j i Hj Hy Hne) as [A [B [c [Hin Hmin]]]]. split; auto. split; auto.
    exists c. split; auto. split; [intros; apply Hmin; auto|].
    intros E. destruct (FV j Hj) as [z Hz]. congruence.
  - intros j Hj E. destruct (FV j Hj) as [z Hz]. congruence.
Qed.

(* ---------------------------------------------------------------- the scan skips -inf columns *)

Definition finb (v : list ext) (p : nat * ext) : bool := match gete v (fst p) with Fin _ => true | _ => false end.

Lemma arr_scan_filter v : forall R u1 u2 j1 j2,
  (forall j c, In (j, c) R -> (exists z, c = Fin z) /\ (finp v j \/ gete v j = NInf)) ->
  arr_scan v R u1 u2 j1 j2 = arr_scan v (filter (finb v) R) u1 u2 j1 j2.
Proof.
  induction R as [|[j c] R IH]; intros u1 u2 j1 j2 HR; [reflexivity|].
  destruct (HR j c (or_introl eq_refl)) as [[cz ->] [[z Hz]|Hz]].
  - cbn [filter]. unfold finb at 1. cbn [fst]. rewrite Hz. cbn [arr_scan]. rewrite Hz.
    destruct (eltb (esub (Fin cz) (Fin z)) u1); [apply IH; intros; apply HR; right; auto|].
    destruct (eltb (esub (Fin cz) (Fin z)) u2); apply IH; intros; apply HR; right; auto.
  - cbn [filter]. unfold finb at 1. cbn [fst]. rewrite Hz. cbn [arr_scan]. rewrite Hz.
    cbn [esub eneg eadd]. rewrite !eltb_pinf_l. apply IH. intros; apply HR; right; auto.
Qed.

Lemma in_filter_fin v R j c : In (j, c) (filter (finb v) R) <-> In (j, c) R /\ finp v j.
Proof.
  rewrite filter_In. unfold finb, finp. cbn [fst]. split; intros [A B]; split; auto.
  - destruct (gete v j); try discriminate. eauto.
  - destruct B as [z ->]. reflexivity.
Qed.

(* every free row still has a finite-priced candidate *)
Lemma reserved_rows_nodup x y v (C : list nat) : SlackE x y v ->
  (forall j, (j < n)%nat -> gete v j = NInf -> getn y j n <> n) ->
  NoDup C -> (forall j, In j C -> (j < n)%nat /\ gete v j = NInf) ->
  NoDup (map (fun j => getn y j n) C).
Proof.
  intros SL NY. induction C as [|a r IH]; intros NC HC; cbn [map]; [constructor|].
  inversion NC as [|? ? Nin NC']; subst. constructor.
  - intros Hin. apply in_map_iff in Hin as [b [E Hb]].
    destruct (HC a (or_introl eq_refl)) as [Ha Na]. destruct (HC b (or_intror Hb)) as [Hb' Nb].
    destruct (SL a _ Ha eq_refl (NY a Ha Na)) as [_ [Xa _]].
    destruct (SL b _ Hb' eq_refl (NY b Hb' Nb)) as [_ [Xb _]].
    rewrite E in Xb. assert (Eab : a = b) by congruence. apply Nin. rewrite Eab. exact Hb.
  - apply IH; auto. intros; apply HC; right; auto.
Qed.

Lemma free_row_has_finite x y v i : InvE x y v -> (i < n)%nat -> free n y i ->
  exists j c, In (j, c) (row rows i) /\ finp v j.
Proof.
  intros [Lx [Ly [[Lv PVv] [SL NY]]]] Hi Hfree.
  assert (D : forall R : list (nat * ext), (forall j c, In (j, c) R -> (j < n)%nat) ->
            (exists j c, In (j, c) R /\ finp v j) \/ (forall j c, In (j, c) R -> gete v j = NInf)).
  { induction R as [|[j c] R IH]; intros HR; [right; intros ? ? []|].
    destruct (PVv j (HR j c (or_introl eq_refl))) as [F|N].
    - left. exists j, c. split; [left|]; auto.
    - destruct IH as [[j' [c' [Hin F]]]|All]; [intros; eapply HR; right; eauto| |].
      + left. exists j', c'. split; [right|]; auto.
      + right. intros j' c' [E|Hin]; [inversion E; subst; auto|eauto]. }
  destruct (D (row rows i)) as [F|All]; [intros j c Hin; apply (Rfin i j c Hin)|exact F|].
  exfalso.
  set (C := filter (fun j => match gete v j with NInf => true | _ => false end) (seq 0 n)).
  assert (InC : forall j, In j C <-> (j < n)%nat /\ gete v j = NInf).
  { intros j. unfold C. rewrite filter_In, in_seq. split; intros [A B]; split; try lia.
    - destruct (gete v j); try discriminate; auto.
    - rewrite B; auto. }
  set (L := i :: map (fun j => getn y j n) C).
  assert (Len : (length L <= length C)%nat).
  { apply NoBlock.
    - unfold L. constructor.
      + intros Hin. apply in_map_iff in Hin as [j [E Hj]]. apply InC in Hj as [Hj _]. apply (Hfree j Hj E).
      + apply (reserved_rows_nodup x y v C SL NY); [apply NoDup_filter, seq_NoDup|intros j Hj; apply InC; auto].
    - intros r [<-|Hr]; auto. apply in_map_iff in Hr as [j [<- Hj]]. apply InC in Hj as [Hj Nj].
      destruct (SL j _ Hj eq_refl (NY j Hj Nj)) as [A _]. exact A.
    - intros r j c [<-|Hr] Hin.
      + apply InC. split; [apply (Rfin i j c Hin)|eapply All; eauto].
      + apply in_map_iff in Hr as [j0 [<- Hj0]]. apply InC in Hj0 as [Hj0 Nj0].
        destruct (SL j0 _ Hj0 eq_refl (NY j0 Hj0 Nj0)) as [_ [_ [c0 [_ [_ AllN]]]]].
        apply InC. split; [apply (Rfin _ j c Hin)|eapply AllN; eauto]. }
  unfold L in Len. cbn [length] in Len. rewrite map_length in Len. lia.
Qed.

(* ---------------------------------------------------------------- what a complete scan delivers *)

Lemma arr_scan_row_ext x y v i j1s j2s : InvE x y v -> (i < n)%nat -> free n y i ->
  exists a j1 c1 u2 j2o,
    arr_scan v (row rows i) PInf PInf j1s j2s = (Fin a, u2, Some j1, j2o) /\
    In (j1, Fin c1) (row rows i) /\ finp v j1 /\ a = c1 - vz v j1 /\
    (forall j c, In (j, Fin c) (row rows i) -> finp v j -> a <= c - vz v j) /\
    ((u2 = PInf /\ forall j c, In (j, c) (row rows i) -> j <> j1 -> gete v j = NInf) \/
     (exists b j2 c2, u2 = Fin b /\ j2o = Some j2 /\ In (j2, Fin c2) (row rows i) /\ finp v j2 /\ b = c2 - vz v j2 /\
        j2 <> j1 /\ a <= b /\ forall j c, In (j, Fin c) (row rows i) -> finp v j -> j <> j1 -> b <= c - vz v j)).
Proof.
  intros HI Hi Hfree. pose proof HI as [Lx [Ly [[Lv PVv] [SL NY]]]].
  assert (HR : forall j c, In (j, c) (row rows i) -> (exists z, c = Fin z) /\ (finp v j \/ gete v j = NInf)).
  { intros j c Hin. destruct (Rfin i j c Hin) as [Hj Hc]. split; auto. }
  rewrite (arr_scan_filter v (row rows i) PInf PInf j1s j2s HR).
  set (F := filter (finb v) (row rows i)).
  assert (HF : forall j c, In (j, c) F -> (exists z, c = Fin z) /\ exists z, gete v j = Fin z).
  { intros j c Hin. apply in_filter_fin in Hin as [Hin Fj]. split; [apply (Rfin i j c Hin)|exact Fj]. }
  assert (B0 : Best v [] PInf PInf j1s j2s) by (constructor; try (intros ? ? []); cbn; auto).
  pose proof (arr_scan_best v F [] PInf PInf j1s j2s HF
                (filter_map_nodup fst (finb v) (row rows i) (Rnodup i)) B0) as B.
  cbn [app] in B.
  destruct (arr_scan v F PInf PInf j1s j2s) as [[[u1 u2] j1o] j2o]. cbn [fst snd] in B.
  destruct B as [B1 B2 B3 B4 B5].
  destruct (free_row_has_finite x y v i HI Hi Hfree) as [jf [cf [Hinf Ff]]].
  assert (HinF : In (jf, cf) F) by (apply in_filter_fin; auto).
  destruct B4 as [[_ E]|[j1 [c1 [E1 [Hin1 Eu1]]]]]; [rewrite E in HinF; destruct HinF|]. subst u1 j1o.
  apply in_filter_fin in Hin1 as [Hin1 F1].
  exists (c1 - vz v j1), j1, c1, u2, j2o. split; [reflexivity|]. split; [exact Hin1|]. split; [exact F1|]. split; [reflexivity|].
  split.
  { intros j c Hin Fj. assert (HinF' : In (j, Fin c) F) by (apply in_filter_fin; auto).
    specialize (B1 j c HinF'). cbn [lee] in B1. exact B1. }
  destruct B5 as [E2|[j2 [c2 [E2 [Hin2 [Eu2 N2]]]]]].
  - left. split; auto. intros j c Hin Nj. destruct (HR j c Hin) as [[cz ->] [Fj|Nn]]; auto. exfalso.
    assert (HinF' : In (j, Fin cz) F) by (apply in_filter_fin; auto).
    specialize (B2 j cz HinF' ltac:(congruence)). rewrite E2 in B2. cbn [lee] in B2. exact B2.
  - right. apply in_filter_fin in Hin2 as [Hin2 F2]. subst u2 j2o.
    exists (c2 - vz v j2), j2, c2. split; [reflexivity|]. split; [reflexivity|]. split; [exact Hin2|]. split; [exact F2|].
    split; [reflexivity|]. split; [intros E0; apply N2; congruence|]. split; [cbn [le12] in B3; exact B3|].
    intros j c Hin Fj Nj. assert (HinF' : In (j, Fin c) F) by (apply in_filter_fin; auto).
    specialize (B2 j c HinF' ltac:(congruence)). cbn [lee] in B2. exact B2.
Qed.

(* ---------------------------------------------------------------- one assignment step *)

Lemma assign_step_ext x y v v' i j c :
  InvE x y v -> (i < n)%nat -> free n y i -> (j < n)%nat -> In (j, Fin c) (row rows i) -> finp v j ->
  PV v' -> (forall k, k <> j -> gete v' k = gete v k) ->
  (gete v' j = NInf \/ exists z', gete v' j = Fin z' /\ z' <= vz v j) ->
  (forall j' c', In (j', Fin c') (row rows i) -> finp v' j -> finp v' j' -> c - vz v' j <= c' - vz v' j') ->
  (gete v' j = NInf -> forall j' c', In (j', c') (row rows i) -> gete v' j' = NInf) ->
  InvE (upd x i j) (upd y j i) v'.
Proof.
  intros [Lx [Ly [PVv [SL NY]]]] Hi Hfree Hj Hin Fj PV' Vo Vj Hmin Hall.
  assert (Vzo : forall k, k <> j -> vz v' k = vz v k) by (intros k Hk; unfold vz; rewrite Vo; auto).
  assert (Fo : forall k, k <> j -> (finp v' k <-> finp v k)) by (intros k Hk; unfold finp; rewrite Vo; tauto).
  split; [rewrite upd_length; auto|]. split; [rewrite upd_length; auto|]. split; auto. split.
  - intros j0 i0 Hj0 Hy Hne. rewrite getn_upd in Hy. rewrite Ly in Hy.
    destruct (Nat.eqb_spec j0 j) as [E|NE].
    + subst j0. replace (j <? n)%nat with true in Hy by (symmetry; apply Nat.ltb_lt; auto). cbn [andb] in Hy.
      subst i0. split; auto. split.
      * rewrite getn_upd, Lx, Nat.eqb_refl. replace (i <? n)%nat with true by (symmetry; apply Nat.ltb_lt; auto). reflexivity.
      * exists c. split; auto.
    + cbn [andb] in Hy. destruct (SL j0 i0 Hj0 Hy Hne) as [Hi0 [Hx [c0 [Hin0 [Hmin0 Hall0]]]]].
      assert (i0 <> i) by (intros E; subst; apply (Hfree j0 Hj0); auto).
      split; auto. split.
      * rewrite getn_upd. destruct (Nat.eqb_spec i0 i); [contradiction|]. cbn [andb]. exact Hx.
      * exists c0. split; auto. split.
        -- intros j' c' Hin' F0 F'. rewrite (Vzo j0 NE). apply (Fo j0 NE) in F0.
           destruct (Nat.eq_dec j' j) as [->|NE'].
           ++ specialize (Hmin0 j c' Hin' F0 Fj). destruct Vj as [En|[z' [Ez Lz]]].
              ** destruct F' as [z Hz]. congruence.
              ** rewrite (vz_fin _ _ _ Ez). lia.
           ++ rewrite (Vzo j' NE'). apply Hmin0; auto. apply (Fo j' NE'); auto.
        -- intros En j' c' Hin'. rewrite (Vo j0 NE) in En. specialize (Hall0 En j' c' Hin').
           destruct (Nat.eq_dec j' j) as [->|NE']; [destruct Fj as [z Hz]; congruence|]. rewrite (Vo j' NE'). exact Hall0.
  - intros j0 Hj0 En. rewrite getn_upd, Ly. destruct (Nat.eqb_spec j0 j) as [->|NE]; cbn [andb].
    + replace (j <? n)%nat with true by (symmetry; apply Nat.ltb_lt; auto). lia.
    + apply NY; auto. rewrite <- (Vo j0 NE). exact En.
Qed.

(* ---------------------------------------------------------------- the loop *)

Theorem arr_loop_inv_ext epsr : 0 <= epsr -> forall fuel todo s r,
  InvE (a_x s) (a_y s) (a_v s) -> Pending n (a_y s) (todo ++ a_free s) ->
  arr_loop fuel (Fin 0) (Fin epsr) n rows todo s = Some r ->
  InvE (a_x r) (a_y r) (a_v r) /\ Pending n (a_y r) (a_free r).
Proof.
  intros Her. induction fuel as [|f IH]; intros todo s r HI HP; destruct todo as [|i rest]; cbn [arr_loop]; intros E;
    try discriminate; try (inversion E; subst; split; auto; fail).
  pose proof HI as [Lx [Ly [PVv [SL NY]]]].
  assert (Hi : (i < n)%nat /\ free n (a_y s) i) by (apply (proj2 HP); left; auto). destruct Hi as [Hi Hfree].
  destruct (arr_scan_row_ext (a_x s) (a_y s) (a_v s) i (a_j1 s) (a_j2 s) HI Hi Hfree)
    as [a [j1 [c1 [u2 [j2o [ES [Hin1 [F1 [Ea [Hmin1 U2]]]]]]]]]].
  unfold row in ES. rewrite ES in E.
  destruct (Rfin i j1 (Fin c1) Hin1) as [Hj1 _].
  destruct F1 as [z1 Hz1]. pose proof (vz_fin _ _ _ Hz1) as Vz1.
  assert (Disp : forall jd, (jd < n)%nat ->
            (getn (a_y s) jd n <> n -> forall j', (j' < n)%nat -> getn (a_y s) j' n = getn (a_y s) jd n -> j' = jd) /\
            (getn (a_y s) jd n <> n -> ~ In (getn (a_y s) jd n) ((i :: rest) ++ a_free s) /\ (getn (a_y s) jd n < n)%nat)).
  { intros jd Hjd. split.
    - intros Hn j' Hj' Ey. destruct (SL j' _ Hj' Ey Hn) as [_ [X1 _]]. destruct (SL jd _ Hjd eq_refl Hn) as [_ [X2 _]]. congruence.
    - intros Hn. destruct (SL jd _ Hjd eq_refl Hn) as [Hlt _]. split; auto.
      intros Hin. destruct (proj2 HP _ Hin) as [_ Fr]. apply (Fr jd Hjd). reflexivity. }
  assert (Keep : forall jt ct, In (jt, Fin ct) (row rows i) -> finp (a_v s) jt ->
            (forall j' c', In (j', Fin c') (row rows i) -> finp (a_v s) j' -> ct - vz (a_v s) jt <= c' - vz (a_v s) j') ->
            InvE (upd (a_x s) i jt) (upd (a_y s) jt i) (a_v s)).
  { intros jt ct Hint Ft Hm. destruct (Rfin i jt _ Hint) as [Hjt _].
    apply (assign_step_ext _ _ (a_v s) (a_v s) i jt ct HI Hi Hfree Hjt Hint Ft PVv (fun k _ => eq_refl)).
    - right. destruct Ft as [z Hz]. exists z. split; auto. rewrite (vz_fin _ _ _ Hz). lia.
    - intros j' c' Hin' _ F'. apply Hm; auto.
    - intros En. destruct Ft as [z Hz]. congruence. }
  destruct U2 as [[Eu2 AllN]|[b [j2 [c2 [Eu2 [Ej2 [Hin2 [F2 [Eb [N21 [Hab Hmin2]]]]]]]]]]]; subst u2.
  - (* no other finite candidate: the column is reserved, price -inf *)
    cbn [eadd eltb] in E.
    set (v' := upd (a_v s) j1 (eadd (esub (gete (a_v s) j1) PInf) (Fin a))) in *.
    assert (Hv'j : gete v' j1 = NInf).
    { unfold v'. rewrite gete_upd, Nat.eqb_refl, (proj1 PVv). replace (j1 <? n)%nat with true by (symmetry; apply Nat.ltb_lt; auto).
      cbn [andb]. rewrite Hz1. reflexivity. }
    assert (Hv'o : forall k, k <> j1 -> gete v' k = gete (a_v s) k).
    { intros k Hk. unfold v'. rewrite gete_upd. destruct (Nat.eqb_spec k j1); [contradiction|]. reflexivity. }
    assert (PV' : PV v').
    { split; [unfold v'; rewrite upd_length; apply PVv|]. intros k Hk. destruct (Nat.eq_dec k j1) as [->|NE]; [right; auto|].
      unfold finp. rewrite Hv'o by auto. apply PVv; auto. }
    assert (HI' : InvE (upd (a_x s) i j1) (upd (a_y s) j1 i) v').
    { apply (assign_step_ext _ _ (a_v s) v' i j1 c1 HI Hi Hfree Hj1 Hin1 (ex_intro _ z1 Hz1) PV' Hv'o (or_introl Hv'j)).
      - intros j' c' Hin' [z Hz]. congruence.
      - intros _ j' c' Hin'. destruct (Nat.eq_dec j' j1) as [->|NE]; auto. rewrite (Hv'o j' NE). eapply AllN; eauto. }
    destruct (Disp j1 Hj1) as [D1 D2].
    eapply IH; [| |exact E]; cbn [a_x a_y a_v a_free]; [exact HI'|].
    exact (pending_all n (a_y s) i j1 rest (a_free s) true Ly Hj1 HP D1 D2).
  - subst j2o. cbn [eadd eltb] in E. rewrite Z.add_0_r in E.
    destruct (Rfin i j2 (Fin c2) Hin2) as [Hj2 _].
    destruct (Z.ltb_spec a b) as [Lab|Lab].
    + (* strict: lower the price of j1, take it *)
      set (v' := upd (a_v s) j1 (eadd (esub (gete (a_v s) j1) (Fin b)) (Fin a))) in *.
      assert (Hv'j : gete v' j1 = Fin (z1 + - b + a)).
      { unfold v'. rewrite gete_upd, Nat.eqb_refl, (proj1 PVv). replace (j1 <? n)%nat with true by (symmetry; apply Nat.ltb_lt; auto).
        cbn [andb]. rewrite Hz1. reflexivity. }
      assert (Hv'o : forall k, k <> j1 -> gete v' k = gete (a_v s) k).
      { intros k Hk. unfold v'. rewrite gete_upd. destruct (Nat.eqb_spec k j1); [contradiction|]. reflexivity. }
      assert (PV' : PV v').
      { split; [unfold v'; rewrite upd_length; apply PVv|]. intros k Hk. destruct (Nat.eq_dec k j1) as [->|NE]; [left; eexists; eauto|].
        unfold finp. rewrite Hv'o by auto. apply PVv; auto. }
      assert (Vo : forall k, k <> j1 -> vz v' k = vz (a_v s) k) by (intros k Hk; unfold vz; rewrite Hv'o; auto).
      assert (Vj : vz v' j1 = z1 - b + a) by (rewrite (vz_fin _ _ _ Hv'j); lia).
      assert (HI' : InvE (upd (a_x s) i j1) (upd (a_y s) j1 i) v').
      { apply (assign_step_ext _ _ (a_v s) v' i j1 c1 HI Hi Hfree Hj1 Hin1 (ex_intro _ z1 Hz1) PV' Hv'o).
        - right. eexists. split; [exact Hv'j|]. lia.
        - intros j' c' Hin' _ F'. destruct (Nat.eq_dec j' j1) as [->|NE].
          + specialize (Hmin1 _ _ Hin' (ex_intro _ z1 Hz1)). lia.
          + rewrite (Vo j' NE). assert (Fo : finp (a_v s) j') by (unfold finp in *; rewrite <- (Hv'o j' NE); auto).
            specialize (Hmin2 _ _ Hin' Fo NE). lia.
        - intros En. congruence. }
      destruct (Disp j1 Hj1) as [D1 D2].
      eapply IH; [| |exact E]; cbn [a_x a_y a_v a_free]; [exact HI'|].
      apply pending_all; auto.
    + assert (Eab : a = b) by lia.
      destruct (Nat.eqb_spec (getn (a_y s) j1 n) n) as [En|Nn].
      * assert (HI' : InvE (upd (a_x s) i j1) (upd (a_y s) j1 i) (a_v s)).
        { apply (Keep j1 c1); auto; [exists z1; auto|]. intros j' c' Hin' F'. specialize (Hmin1 _ _ Hin' F'). lia. }
        destruct (Disp j1 Hj1) as [D1 D2].
        eapply IH; [| |exact E]; cbn [a_x a_y a_v a_free]; [exact HI'|].
        pose proof (pending_all n (a_y s) i j1 rest (a_free s) (a + epsr <? b) Ly Hj1 HP D1 D2) as PA.
        rewrite En in PA. rewrite Nat.eqb_refl in PA. exact PA.
      * assert (HI' : InvE (upd (a_x s) i j2) (upd (a_y s) j2 i) (a_v s)).
        { apply (Keep j2 c2); auto. intros j' c' Hin' F'. specialize (Hmin1 _ _ Hin' F'). lia. }
        destruct (Disp j2 Hj2) as [D1 D2].
        eapply IH; [| |exact E]; cbn [a_x a_y a_v a_free]; [exact HI'|].
        apply pending_all; auto.
Qed.

Theorem arr_pass_inv_ext epsr fuel x y v ii x' y' v' ii' : 0 <= epsr ->
  InvE x y v -> Pending n y ii ->
  arr_pass fuel (Fin 0) (Fin epsr) n rows (x, y, v, ii) = Some (x', y', v', ii') ->
  InvE x' y' v' /\ Pending n y' ii'.
Proof.
  intros Her HI HP. unfold arr_pass.
  destruct (arr_loop fuel (Fin 0) (Fin epsr) n rows ii (mkArr x y v None None [])) as [r|] eqn:E; [|discriminate].
  intros E2. inversion E2; subst.
  destruct (arr_loop_inv_ext epsr Her fuel ii (mkArr x y v None None []) r) as [A B]; auto.
  { cbn [a_y a_free]. rewrite app_nil_r. exact HP. }
  split; auto. eapply Pending_perm; [|exact B]. apply Permutation.Permutation_rev.
Qed.

Theorem arr_passes_inv_ext epsr fuel : 0 <= epsr -> forall k x y v ii x' y' v' ii',
  InvE x y v -> Pending n y ii ->
  arr_passes k fuel (Fin 0) (Fin epsr) n rows (x, y, v, ii) = Some (x', y', v', ii') ->
  InvE x' y' v' /\ Pending n y' ii'.
Proof.
  intros Her. induction k as [|k IH]; intros x y v ii x' y' v' ii' HI HP; cbn [arr_passes].
  - intros E; inversion E; subst; auto.
  - destruct (arr_pass fuel (Fin 0) (Fin epsr) n rows (x, y, v, ii)) as [[[[x1 y1] v1] ii1]|] eqn:E1; [|discriminate].
    destruct (arr_pass_inv_ext epsr fuel _ _ _ _ _ _ _ _ Her HI HP E1) as [A B]. apply IH; auto.
Qed.
(* ---------------------------------------------------------------- the ORDER on the reserved block
   reserved columns, newest first: the row of each lists only that column and older ones.  Hence the block has a unique
   perfect matching (LapjvOrdForced) - it is forced in every perfect matching of the whole problem. *)
Fixpoint OrdL (y : list nat) (l : list nat) : Prop :=
  match l with
  | [] => True
  | j :: older => (forall j' c', In (j', c') (row rows (getn y j n)) -> In j' (j :: older)) /\ OrdL y older
  end.
Definition Ord (y : list nat) (v : list ext) : Prop :=
  exists l, NoDup l /\ (forall j, In j l <-> ((j < n)%nat /\ gete v j = NInf)) /\ OrdL y l.

Lemma OrdL_ext y y' : forall l, (forall j, In j l -> getn y' j n = getn y j n) -> OrdL y l -> OrdL y' l.
Proof.
  induction l as [|j older IH]; intros Hy; cbn [OrdL]; auto. intros [A B]. split.
  - rewrite (Hy j (or_introl eq_refl)). exact A.
  - apply IH; auto. intros k Hk. apply Hy. right. auto.
Qed.

Lemma Ord_keep y v y' v' : Ord y v ->
  (forall j, (j < n)%nat -> (gete v' j = NInf <-> gete v j = NInf)) ->
  (forall j, (j < n)%nat -> gete v j = NInf -> getn y' j n = getn y j n) -> Ord y' v'.
Proof.
  intros [l [ND [Mem OL]]] Hv Hy. exists l. split; auto. split.
  - intros j. rewrite Mem. split; intros [A B]; split; auto; apply (Hv j A); auto.
  - apply (OrdL_ext y y' l); auto. intros j Hj. apply Mem in Hj as [A B]. apply Hy; auto.
Qed.

Lemma Ord_keep_upd y v v' jt i : Ord y v -> length y = n -> (jt < n)%nat -> finp v jt -> finp v' jt ->
  (forall k, k <> jt -> gete v' k = gete v k) -> Ord (upd y jt i) v'.
Proof.
  intros HO Ly Hjt [z Hz] [z' Hz'] Vo. apply (Ord_keep y v); auto.
  - intros j Hj. destruct (Nat.eq_dec j jt) as [->|NE]; [rewrite Hz, Hz'; split; discriminate|rewrite (Vo j NE); tauto].
  - intros j Hj En. rewrite getn_upd. destruct (Nat.eqb_spec j jt) as [->|NE]; [congruence|reflexivity].
Qed.

Lemma Ord_cons y v v' i j1 : Ord y v -> length y = n -> (j1 < n)%nat -> finp v j1 -> gete v' j1 = NInf ->
  (forall k, k <> j1 -> gete v' k = gete v k) ->
  (forall j' c', In (j', c') (row rows i) -> j' <> j1 -> gete v j' = NInf) ->
  (forall j' c', In (j', c') (row rows i) -> (j' < n)%nat) ->
  Ord (upd y j1 i) v'.
Proof.
  intros [l [ND [Mem OL]]] Ly Hj1 [z1 Hz1] En Vo AllN Rng.
  assert (Nin : ~ In j1 l) by (intros H; apply Mem in H as [_ H]; congruence).
  exists (j1 :: l). split; [constructor; auto|]. split.
  - intros j. cbn [In]. rewrite Mem. split.
    + intros [<-|[A B]]; [split; auto|]. split; auto. rewrite Vo; auto. intros ->. congruence.
    + intros [A B]. destruct (Nat.eq_dec j1 j) as [E|NE]; [left; auto|right]. split; auto. rewrite <- (Vo j); auto.
  - cbn [OrdL]. split.
    + rewrite getn_upd, Nat.eqb_refl, Ly. replace (j1 <? n)%nat with true by (symmetry; apply Nat.ltb_lt; auto). cbn [andb].
      intros j' c' Hin. destruct (Nat.eq_dec j' j1) as [->|NE]; [left; auto|right]. apply Mem. split; [eapply Rng; eauto|eapply AllN; eauto].
    + apply (OrdL_ext y); auto. intros j Hj. rewrite getn_upd. destruct (Nat.eqb_spec j j1) as [->|NE]; [contradiction|reflexivity].
Qed.

Lemma Inv_Ord x y v : Inv n rows x y v -> Ord y v.
Proof.
  intros [_ [_ [[_ FV] _]]]. exists []. split; [constructor|]. split; [|exact Logic.I].
  intros j. split; [intros []|]. intros [Hj E]. destruct (FV j Hj) as [z Hz]. congruence.
Qed.

Theorem arr_loop_inv_ord epsr : 0 <= epsr -> forall fuel todo s r,
  InvE (a_x s) (a_y s) (a_v s) -> Ord (a_y s) (a_v s) -> Pending n (a_y s) (todo ++ a_free s) ->
  arr_loop fuel (Fin 0) (Fin epsr) n rows todo s = Some r ->
  InvE (a_x r) (a_y r) (a_v r) /\ Ord (a_y r) (a_v r) /\ Pending n (a_y r) (a_free r).
Proof.
  intros Her. induction fuel as [|f IH]; intros todo s r HI HO HP; destruct todo as [|i rest]; cbn [arr_loop]; intros E;
    try discriminate; try (inversion E; subst; split; auto; fail).
  pose proof HI as [Lx [Ly [PVv [SL NY]]]].
  assert (Hi : (i < n)%nat /\ free n (a_y s) i) by (apply (proj2 HP); left; auto). destruct Hi as [Hi Hfree].
  destruct (arr_scan_row_ext (a_x s) (a_y s) (a_v s) i (a_j1 s) (a_j2 s) HI Hi Hfree)
    as [a [j1 [c1 [u2 [j2o [ES [Hin1 [F1 [Ea [Hmin1 U2]]]]]]]]]].
  unfold row in ES. rewrite ES in E.
  destruct (Rfin i j1 (Fin c1) Hin1) as [Hj1 _].
  destruct F1 as [z1 Hz1]. pose proof (vz_fin _ _ _ Hz1) as Vz1.
  assert (Disp : forall jd, (jd < n)%nat ->
            (getn (a_y s) jd n <> n -> forall j', (j' < n)%nat -> getn (a_y s) j' n = getn (a_y s) jd n -> j' = jd) /\
            (getn (a_y s) jd n <> n -> ~ In (getn (a_y s) jd n) ((i :: rest) ++ a_free s) /\ (getn (a_y s) jd n < n)%nat)).
  { intros jd Hjd. split.
    - intros Hn j' Hj' Ey. destruct (SL j' _ Hj' Ey Hn) as [_ [X1 _]]. destruct (SL jd _ Hjd eq_refl Hn) as [_ [X2 _]]. congruence.
    - intros Hn. destruct (SL jd _ Hjd eq_refl Hn) as [Hlt _]. split; auto.
      intros Hin. destruct (proj2 HP _ Hin) as [_ Fr]. apply (Fr jd Hjd). reflexivity. }
  assert (Keep : forall jt ct, In (jt, Fin ct) (row rows i) -> finp (a_v s) jt ->
            (forall j' c', In (j', Fin c') (row rows i) -> finp (a_v s) j' -> ct - vz (a_v s) jt <= c' - vz (a_v s) j') ->
            InvE (upd (a_x s) i jt) (upd (a_y s) jt i) (a_v s)).
  { intros jt ct Hint Ft Hm. destruct (Rfin i jt _ Hint) as [Hjt _].
    apply (assign_step_ext _ _ (a_v s) (a_v s) i jt ct HI Hi Hfree Hjt Hint Ft PVv (fun k _ => eq_refl)).
    - right. destruct Ft as [z Hz]. exists z. split; auto. rewrite (vz_fin _ _ _ Hz). lia.
    - intros j' c' Hin' _ F'. apply Hm; auto.
    - intros En. destruct Ft as [z Hz]. congruence. }
  destruct U2 as [[Eu2 AllN]|[b [j2 [c2 [Eu2 [Ej2 [Hin2 [F2 [Eb [N21 [Hab Hmin2]]]]]]]]]]]; subst u2.
  - (* no other finite candidate: the column is reserved, price -inf *)
    cbn [eadd eltb] in E.
    set (v' := upd (a_v s) j1 (eadd (esub (gete (a_v s) j1) PInf) (Fin a))) in *.
    assert (Hv'j : gete v' j1 = NInf).
    { unfold v'. rewrite gete_upd, Nat.eqb_refl, (proj1 PVv). replace (j1 <? n)%nat with true by (symmetry; apply Nat.ltb_lt; auto).
      cbn [andb]. rewrite Hz1. reflexivity. }
    assert (Hv'o : forall k, k <> j1 -> gete v' k = gete (a_v s) k).
    { intros k Hk. unfold v'. rewrite gete_upd. destruct (Nat.eqb_spec k j1); [contradiction|]. reflexivity. }
    assert (PV' : PV v').
    { split; [unfold v'; rewrite upd_length; apply PVv|]. intros k Hk. destruct (Nat.eq_dec k j1) as [->|NE]; [right; auto|].
      unfold finp. rewrite Hv'o by auto. apply PVv; auto. }
    assert (HI' : InvE (upd (a_x s) i j1) (upd (a_y s) j1 i) v').
    { apply (assign_step_ext _ _ (a_v s) v' i j1 c1 HI Hi Hfree Hj1 Hin1 (ex_intro _ z1 Hz1) PV' Hv'o (or_introl Hv'j)).
      - intros j' c' Hin' [z Hz]. congruence.
      - intros _ j' c' Hin'. destruct (Nat.eq_dec j' j1) as [->|NE]; auto. rewrite (Hv'o j' NE). eapply AllN; eauto. }
    destruct (Disp j1 Hj1) as [D1 D2].
    eapply IH; [| | |exact E]; cbn [a_x a_y a_v a_free]; [exact HI'| |].
    { apply (Ord_cons (a_y s) (a_v s) v' i j1 HO Ly Hj1 (ex_intro _ z1 Hz1) Hv'j Hv'o).
      - intros j' c' Hin' NE. eapply AllN; eauto.
      - intros j' c' Hin'. apply (Rfin i j' c' Hin'). }
    exact (pending_all n (a_y s) i j1 rest (a_free s) true Ly Hj1 HP D1 D2).
  - subst j2o. cbn [eadd eltb] in E. rewrite Z.add_0_r in E.
    destruct (Rfin i j2 (Fin c2) Hin2) as [Hj2 _].
    destruct (Z.ltb_spec a b) as [Lab|Lab].
    + (* strict: lower the price of j1, take it *)
      set (v' := upd (a_v s) j1 (eadd (esub (gete (a_v s) j1) (Fin b)) (Fin a))) in *.
      assert (Hv'j : gete v' j1 = Fin (z1 + - b + a)).
      { unfold v'. rewrite gete_upd, Nat.eqb_refl, (proj1 PVv). replace (j1 <? n)%nat with true by (symmetry; apply Nat.ltb_lt; auto).
        cbn [andb]. rewrite Hz1. reflexivity. }
      assert (Hv'o : forall k, k <> j1 -> gete v' k = gete (a_v s) k).
      { intros k Hk. unfold v'. rewrite gete_upd. destruct (Nat.eqb_spec k j1); [contradiction|]. reflexivity. }
      assert (PV' : PV v').
      { split; [unfold v'; rewrite upd_length; apply PVv|]. intros k Hk. destruct (Nat.eq_dec k j1) as [->|NE]; [left; eexists; eauto|].
        unfold finp. rewrite Hv'o by auto. apply PVv; auto. }
      assert (Vo : forall k, k <> j1 -> vz v' k = vz (a_v s) k) by (intros k Hk; unfold vz; rewrite Hv'o; auto).
      assert (Vj : vz v' j1 = z1 - b + a) by (rewrite (vz_fin _ _ _ Hv'j); lia).
      assert (HI' : InvE (upd (a_x s) i j1) (upd (a_y s) j1 i) v').
      { apply (assign_step_ext _ _ (a_v s) v' i j1 c1 HI Hi Hfree Hj1 Hin1 (ex_intro _ z1 Hz1) PV' Hv'o).
        - right. eexists. split; [exact Hv'j|]. lia.
        - intros j' c' Hin' _ F'. destruct (Nat.eq_dec j' j1) as [->|NE].
          + specialize (Hmin1 _ _ Hin' (ex_intro _ z1 Hz1)). lia.
          + rewrite (Vo j' NE). assert (Fo : finp (a_v s) j') by (unfold finp in *; rewrite <- (Hv'o j' NE); auto).
            specialize (Hmin2 _ _ Hin' Fo NE). lia.
        - intros En. congruence. }
      destruct (Disp j1 Hj1) as [D1 D2].
      eapply IH; [| | |exact E]; cbn [a_x a_y a_v a_free]; [exact HI'| |].
      { apply (Ord_keep_upd (a_y s) (a_v s) v' j1 i HO Ly Hj1 (ex_intro _ z1 Hz1)); [eexists; exact Hv'j|exact Hv'o]. }
      apply pending_all; auto.
    + assert (Eab : a = b) by lia.
      destruct (Nat.eqb_spec (getn (a_y s) j1 n) n) as [En|Nn].
      * assert (HI' : InvE (upd (a_x s) i j1) (upd (a_y s) j1 i) (a_v s)).
        { apply (Keep j1 c1); auto; [exists z1; auto|]. intros j' c' Hin' F'. specialize (Hmin1 _ _ Hin' F'). lia. }
        destruct (Disp j1 Hj1) as [D1 D2].
        eapply IH; [| | |exact E]; cbn [a_x a_y a_v a_free]; [exact HI'| |].
        { apply (Ord_keep_upd (a_y s) (a_v s) (a_v s) j1 i HO Ly Hj1 (ex_intro _ z1 Hz1)); [exists z1; exact Hz1|reflexivity]. }
        pose proof (pending_all n (a_y s) i j1 rest (a_free s) (a + epsr <? b) Ly Hj1 HP D1 D2) as PA.
        rewrite En in PA. rewrite Nat.eqb_refl in PA. exact PA.
      * assert (HI' : InvE (upd (a_x s) i j2) (upd (a_y s) j2 i) (a_v s)).
        { apply (Keep j2 c2); auto. intros j' c' Hin' F'. specialize (Hmin1 _ _ Hin' F'). lia. }
        destruct (Disp j2 Hj2) as [D1 D2].
        eapply IH; [| | |exact E]; cbn [a_x a_y a_v a_free]; [exact HI'| |].
        { apply (Ord_keep_upd (a_y s) (a_v s) (a_v s) j2 i HO Ly Hj2 F2 F2); reflexivity. }
        apply pending_all; auto.
Qed.


Theorem arr_pass_inv_ord epsr fuel x y v ii x' y' v' ii' : 0 <= epsr ->
  InvE x y v -> Ord y v -> Pending n y ii ->
  arr_pass fuel (Fin 0) (Fin epsr) n rows (x, y, v, ii) = Some (x', y', v', ii') ->
  InvE x' y' v' /\ Ord y' v' /\ Pending n y' ii'.
Proof.
  intros Her HI HO HP. unfold arr_pass.
  destruct (arr_loop fuel (Fin 0) (Fin epsr) n rows ii (mkArr x y v None None [])) as [r|] eqn:E; [|discriminate].
  intros E2. inversion E2; subst.
  destruct (arr_loop_inv_ord epsr Her fuel ii (mkArr x y v None None []) r) as [A [O B]]; auto.
  { cbn [a_y a_free]. rewrite app_nil_r. exact HP. }
  split; auto. split; auto. eapply Pending_perm; [|exact B]. apply Permutation.Permutation_rev.
Qed.

Theorem arr_passes_inv_ord epsr fuel : 0 <= epsr -> forall k x y v ii x' y' v' ii',
  InvE x y v -> Ord y v -> Pending n y ii ->
  arr_passes k fuel (Fin 0) (Fin epsr) n rows (x, y, v, ii) = Some (x', y', v', ii') ->
  InvE x' y' v' /\ Ord y' v' /\ Pending n y' ii'.
Proof.
  intros Her. induction k as [|k IH]; intros x y v ii x' y' v' ii' HI HO HP; cbn [arr_passes].
  - intros E; inversion E; subst; auto.
  - destruct (arr_pass fuel (Fin 0) (Fin epsr) n rows (x, y, v, ii)) as [[[[x1 y1] v1] ii1]|] eqn:E1; [|discriminate].
    destruct (arr_pass_inv_ord epsr fuel _ _ _ _ _ _ _ _ Her HI HO HP E1) as [A [O B]]. apply IH; auto.
Qed.
End ArrExt.
