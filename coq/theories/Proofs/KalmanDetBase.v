(* C09 — groundwork for the determinant of det_n as written (sum over permutations(range(n)) with
   parity): big sums / products over lists, and the enumeration [permutations]: sound, complete,
   duplicate-free. *)
From Coq Require Import ZArith List Bool Lia Arith QArith Qcanon Permutation.
From Centro Require Import Model.Kalman Proofs.KalmanArith Proofs.KalmanLists Proofs.KalmanParity.
Import ListNotations.
Open Scope Qc_scope.

(* ------------------------------------------------------------------ big operators *)
Definition bigsum {A} (f : A -> Qc) (l : list A) : Qc := fold_right (fun x acc => f x + acc) 0 l.
Definition bigprod {A} (f : A -> Qc) (l : list A) : Qc := fold_right (fun x acc => f x * acc) 1 l.

Lemma fold_qadd_shift' l x : fold_left qadd l x = x + fold_left qadd l 0.
Proof.
  revert x. induction l as [|a l IH]; intros x; cbn [fold_left]; [ring|].
  rewrite IH, (IH (qadd 0 a)), !qadd_eq. ring.
Qed.
Lemma fold_qmul_shift l x : fold_left qmul l x = x * fold_left qmul l 1.
Proof.
  revert x. induction l as [|a l IH]; intros x; cbn [fold_left]; [ring|].
  rewrite IH, (IH (qmul 1 a)), !qmul_eq. ring.
Qed.
Lemma qsum_bigsum {A} (f : A -> Qc) l : qsum (map f l) = bigsum f l.
Proof.
  unfold qsum. induction l as [|a l IH]; [reflexivity|]. cbn [map fold_left bigsum fold_right].
  rewrite fold_qadd_shift', qadd_eq, IH. unfold bigsum. ring.
Qed.
Lemma qprod_bigprod {A} (f : A -> Qc) l : qprod (map f l) = bigprod f l.
Proof.
  unfold qprod. induction l as [|a l IH]; [reflexivity|]. cbn [map fold_left bigprod fold_right].
  rewrite fold_qmul_shift, qmul_eq, IH. unfold bigprod. ring.
Qed.

Lemma bigsum_cons {A} (f : A -> Qc) a l : bigsum f (a :: l) = f a + bigsum f l.
Proof. reflexivity. Qed.
Lemma bigprod_cons {A} (f : A -> Qc) a l : bigprod f (a :: l) = f a * bigprod f l.
Proof. reflexivity. Qed.
Lemma bigsum_app {A} (f : A -> Qc) l1 l2 : bigsum f (l1 ++ l2) = bigsum f l1 + bigsum f l2.
Proof. induction l1 as [|a l1 IH]; cbn [app]; rewrite ?bigsum_cons, ?IH; [unfold bigsum; cbn; ring|ring]. Qed.
Lemma bigsum_map {A B} (g : A -> B) (f : B -> Qc) l : bigsum f (map g l) = bigsum (fun x => f (g x)) l.
Proof. induction l as [|a l IH]; [reflexivity|]. cbn [map]. rewrite !bigsum_cons, IH. reflexivity. Qed.
Lemma bigprod_map {A B} (g : A -> B) (f : B -> Qc) l : bigprod f (map g l) = bigprod (fun x => f (g x)) l.
Proof. induction l as [|a l IH]; [reflexivity|]. cbn [map]. rewrite !bigprod_cons, IH. reflexivity. Qed.
Lemma bigsum_ext_in {A} (f g : A -> Qc) l : (forall x, In x l -> f x = g x) -> bigsum f l = bigsum g l.
Proof.
  induction l as [|a l IH]; intros H; [reflexivity|]. rewrite !bigsum_cons, (H a (or_introl eq_refl)), IH; [reflexivity|].
  intros x Hx. apply H. right. exact Hx.
Qed.
Lemma bigprod_ext_in {A} (f g : A -> Qc) l : (forall x, In x l -> f x = g x) -> bigprod f l = bigprod g l.
Proof.
  induction l as [|a l IH]; intros H; [reflexivity|]. rewrite !bigprod_cons, (H a (or_introl eq_refl)), IH; [reflexivity|].
  intros x Hx. apply H. right. exact Hx.
Qed.
Lemma bigsum_scale {A} (f : A -> Qc) c l : c * bigsum f l = bigsum (fun x => c * f x) l.
Proof. induction l as [|a l IH]; [unfold bigsum; cbn; ring|]. rewrite !bigsum_cons, <- IH. ring. Qed.
Lemma bigsum_opp {A} (f : A -> Qc) l : - bigsum f l = bigsum (fun x => - f x) l.
Proof. induction l as [|a l IH]; [unfold bigsum; cbn; ring|]. rewrite !bigsum_cons, <- IH. ring. Qed.
Lemma bigsum_zero {A} (l : list A) : bigsum (fun _ => 0) l = 0.
Proof. induction l as [|a l IH]; [reflexivity|]. rewrite bigsum_cons, IH. ring. Qed.
Lemma bigsum_flat_map {A B} (g : A -> list B) (f : B -> Qc) l :
  bigsum f (flat_map g l) = bigsum (fun a => bigsum f (g a)) l.
Proof. induction l as [|a l IH]; [reflexivity|]. cbn [flat_map]. rewrite bigsum_app, bigsum_cons, IH. reflexivity. Qed.
Lemma bigsum_perm {A} (f : A -> Qc) l l' : Permutation l l' -> bigsum f l = bigsum f l'.
Proof.
  induction 1 as [|x l l' _ IH|x y l|l l' l'' _ IH1 _ IH2]; rewrite ?bigsum_cons; try reflexivity.
  - rewrite IH. reflexivity.
  - ring.
  - rewrite IH1. exact IH2.
Qed.
Lemma bigprod_perm {A} (f : A -> Qc) l l' : Permutation l l' -> bigprod f l = bigprod f l'.
Proof.
  induction 1 as [|x l l' _ IH|x y l|l l' l'' _ IH1 _ IH2]; rewrite ?bigprod_cons; try reflexivity.
  - rewrite IH. reflexivity.
  - ring.
  - rewrite IH1. exact IH2.
Qed.
(* sum of a function that vanishes except at one index of a duplicate-free list *)
Lemma bigsum_single (f : nat -> Qc) l k : NoDup l -> In k l -> (forall x, In x l -> x <> k -> f x = 0) ->
  bigsum f l = f k.
Proof.
  induction l as [|a l IH]; intros Hn Hin Hz; [destruct Hin|].
  inversion Hn as [|? ? Hna Hnl]; subst. rewrite bigsum_cons. destruct Hin as [->|Hin].
  - rewrite (bigsum_ext_in f (fun _ => 0)), bigsum_zero; [ring|].
    intros x Hx. apply Hz; [right; exact Hx|]. intros ->. contradiction.
  - rewrite (Hz a (or_introl eq_refl)) by (intros ->; contradiction). rewrite IH; try assumption; [ring|].
    intros x Hx. apply Hz. right. exact Hx.
Qed.

(* ------------------------------------------------------------------ removes *)
Lemma removes_nth {A} (d : A) (l : list A) :
  removes l = map (fun j => (nth j l d, remove_nth j l)) (seq 0 (length l)).
Proof.
  induction l as [|a t IH]; [reflexivity|]. cbn [removes length seq map nth remove_nth]. f_equal.
  rewrite IH, map_map, <- seq_shift, map_map. apply map_ext. intros j. reflexivity.
Qed.

Lemma removes_map {A B} (g : A -> B) (l : list A) :
  removes (map g l) = map (fun p => (g (fst p), map g (snd p))) (removes l).
Proof.
  induction l as [|a t IH]; [reflexivity|]. cbn [map removes fst snd]. f_equal.
  rewrite IH, !map_map. apply map_ext. intros p. reflexivity.
Qed.

Lemma perms_fuel_map {A B} (g : A -> B) n (l : list A) :
  perms_fuel n (map g l) = map (map g) (perms_fuel n l).
Proof.
  revert l. induction n as [|n IH]; intros l; [reflexivity|]. cbn [perms_fuel].
  rewrite removes_map, flat_map_concat_map, map_map, (flat_map_concat_map _ (removes l)), concat_map, map_map.
  f_equal. apply map_ext. intros p. cbn [fst snd]. rewrite IH, !map_map. apply map_ext. intros q. reflexivity.
Qed.

Lemma In_removes {A} (a : A) rest l : In (a, rest) (removes l) <-> exists l1 l2, l = l1 ++ a :: l2 /\ rest = l1 ++ l2.
Proof.
  revert rest. induction l as [|b t IH]; intros rest; cbn [removes In].
  - split; [tauto|]. intros [l1 [l2 [E _]]]. destruct l1; discriminate.
  - split.
    + intros [E|H].
      * injection E as E1 E2. rewrite <- E1, <- E2. exists [], t. split; reflexivity.
      * apply in_map_iff in H. destruct H as [[a' r'] [E H]]. cbn [fst snd] in E. injection E as -> <-.
        apply IH in H. destruct H as [l1 [l2 [-> ->]]]. exists (b :: l1), l2. split; reflexivity.
    + intros [l1 [l2 [E ->]]]. destruct l1 as [|c l1]; cbn [app] in *.
      * injection E as -> ->. left. reflexivity.
      * injection E as -> ->. right. apply in_map_iff. exists (a, l1 ++ l2). split; [reflexivity|].
        apply IH. exists l1, l2. split; reflexivity.
Qed.

(* ------------------------------------------------------------------ permutations: sound, complete, NoDup *)
Lemma perms_fuel_sound {A} n : forall (l p : list A), length l = n -> In p (perms_fuel n l) -> Permutation p l.
Proof.
  induction n as [|n IH]; intros l p Hl Hp.
  - destruct l; [|discriminate]. cbn in Hp. destruct Hp as [<-|[]]. constructor.
  - cbn [perms_fuel] in Hp. apply in_flat_map in Hp. destruct Hp as [[a rest] [Hr Hp]]. cbn [fst snd] in Hp.
    apply in_map_iff in Hp. destruct Hp as [q [<- Hq]]. apply In_removes in Hr. destruct Hr as [l1 [l2 [-> ->]]].
    apply Permutation_cons_app. apply IH; [|exact Hq]. rewrite app_length in *. cbn [length] in Hl. lia.
Qed.

Lemma perms_fuel_complete {A} n : forall (l p : list A), length l = n -> Permutation p l -> In p (perms_fuel n l).
Proof.
  induction n as [|n IH]; intros l p Hl Hp.
  - destruct l; [|discriminate]. apply Permutation_sym, Permutation_nil in Hp. subst. left. reflexivity.
  - destruct p as [|a p]; [apply Permutation_length in Hp; cbn in Hp; lia|].
    assert (Ha : In a l) by (eapply Permutation_in; [exact Hp|left; reflexivity]).
    apply in_split in Ha. destruct Ha as [l1 [l2 ->]].
    cbn [perms_fuel]. apply in_flat_map. exists (a, l1 ++ l2). split.
    + apply In_removes. exists l1, l2. split; reflexivity.
    + cbn [fst snd]. apply in_map. apply IH.
      * rewrite app_length in *. cbn [length] in Hl. lia.
      * eapply Permutation_cons_app_inv. exact Hp.
Qed.

Lemma perms_length {A} n (l p : list A) : length l = n -> In p (perms_fuel n l) -> length p = n.
Proof. intros Hl Hp. rewrite <- Hl. apply Permutation_length. eapply perms_fuel_sound; eassumption. Qed.

Lemma NoDup_map_cons {A} (a : A) (L : list (list A)) : NoDup L -> NoDup (map (cons a) L).
Proof.
  intros H. apply FinFun.Injective_map_NoDup; [|exact H]. intros x y E. injection E as E. exact E.
Qed.

Lemma removes_fst {A} (l : list A) : map fst (removes l) = l.
Proof.
  induction l as [|a t IH]; [reflexivity|]. cbn [removes map fst]. f_equal. rewrite map_map. cbn [fst]. exact IH.
Qed.

Lemma NoDup_app_disj {A} (l1 l2 : list A) : NoDup l1 -> NoDup l2 -> (forall x, In x l1 -> In x l2 -> False) ->
  NoDup (l1 ++ l2).
Proof.
  induction l1 as [|a l1 IH]; intros H1 H2 Hd; [exact H2|]. inversion H1 as [|? ? Hna Hn1]; subst. cbn [app]. constructor.
  - intros Hin. apply in_app_or in Hin. destruct Hin as [Hin|Hin]; [contradiction|]. apply (Hd a); [left; reflexivity|exact Hin].
  - apply IH; try assumption. intros x Hx1 Hx2. apply (Hd x); [right; exact Hx1|exact Hx2].
Qed.

Lemma NoDup_flat_heads {A} (R : list (A * list A)) (F : list A -> list (list A)) :
  NoDup (map fst R) -> (forall p, In p R -> NoDup (F (snd p))) ->
  NoDup (flat_map (fun p => map (cons (fst p)) (F (snd p))) R).
Proof.
  induction R as [|[a r] R IH]; intros Hn HF; [constructor|]. cbn [flat_map fst snd map] in *.
  inversion Hn as [|? ? Hna HnR]; subst.
  apply NoDup_app_disj.
  - apply NoDup_map_cons. apply (HF (a, r)). left. reflexivity.
  - apply IH; [exact HnR|]. intros p Hp. apply HF. right. exact Hp.
  - intros x Hx1 Hx2. apply in_map_iff in Hx1. destruct Hx1 as [q [<- _]].
    apply in_flat_map in Hx2. destruct Hx2 as [[b r'] [Hb Hq]]. cbn [fst snd] in Hq.
    apply in_map_iff in Hq. destruct Hq as [q' [E _]]. injection E as -> _.
    apply Hna. apply in_map_iff. exists (a, r'). split; [reflexivity|exact Hb].
Qed.
