(* C10 — caps_flow_indexing: the capacity flow of the line-level solver as a function of the ARC INDEX
   (arc k of mk_arcs c gets the capacity of its own backward entry, found by walking the arcs in order
   and consuming the lists r_cost_cap_backward[to] from the front), with
     sum over arcs into v  = inflow(v),   sum over arcs out of v = outflow(v),
   so that the generic certificate C10_mcf_cert_optimal can be instantiated. *)
From Coq Require Import ZArith List Bool Lia ZifyBool.
From Centro Require Import Base.Sx Base.EmdBase Model.Emd Model.EmdMcf
  Proofs.EmdDuality Proofs.EmdSsp Proofs.EmdDijkstra Proofs.EmdGhost Proofs.EmdAugment Proofs.EmdMetric Proofs.EmdConserve Proofs.EmdMcfCert.
Import ListNotations.
Open Scope Z_scope.

Fixpoint assign (arcs : list arc) (q : list (list (nat * Z * Z))) : list Z :=
  match arcs with
  | [] => []
  | a :: r =>
      match nth (a_to a) q [] with
      | en :: _ => snd en :: assign r (upd q (a_to a) (@tl _))
      | [] => 0 :: assign r q
      end
  end.

Lemma assign_length : forall arcs q, length (assign arcs q) = length arcs.
Proof. induction arcs as [|a r IH]; intros q; cbn [assign length]; auto. destruct (nth (a_to a) q []); cbn [length]; rewrite IH; auto. Qed.

(* the queues line up with the arcs: list u holds, in order, one entry per remaining arc into u, and
   the entry of arc a is (a_from a, h a, capacity) *)
Definition lined (h : arc -> Z) (arcs : list arc) (q : list (list (nat * Z * Z))) : Prop :=
  forall u, strip (nth u q []) = map (fun a => (a_from a, h a)) (filter (fun a => (a_to a =? u)%nat) arcs).

Lemma lined_step h a r q : lined h (a :: r) q -> (a_to a < length q)%nat ->
  exists en tlq, nth (a_to a) q [] = en :: tlq /\ fst (fst en) = a_from a /\ snd (fst en) = h a /\
                 lined h r (upd q (a_to a) (@tl _)).
Proof.
  intros L Ht. pose proof (L (a_to a)) as E. cbn [filter] in E. rewrite Nat.eqb_refl in E. cbn [map] in E.
  destruct (nth (a_to a) q []) as [|en tlq] eqn:EN; [discriminate|]. cbn [strip map] in E. injection E as E1 E2 E3.
  exists en, tlq. repeat split; auto.
  intros u. rewrite (nth_upd_local (@tl _) []).
  destruct (a_to a =? u)%nat eqn:EU.
  - apply Nat.eqb_eq in EU. subst u. assert (X : (a_to a <? length q)%nat = true) by (apply Nat.ltb_lt; auto).
    rewrite X. cbn [andb]. rewrite EN. cbn [tl]. exact E3.
  - cbn [andb]. pose proof (L u) as Eu. cbn [filter] in Eu. rewrite EU in Eu. exact Eu.
Qed.

Section Sums.
Variable nv : nat.

Definition s_in (arcs : list arc) (fl : list Z) (v : nat) : Z :=
  zsum (map (fun af => if (a_to (fst af) =? v)%nat then snd af else 0) (combine arcs fl)).
Definition s_out (arcs : list arc) (fl : list Z) (v : nat) : Z :=
  zsum (map (fun af => if (a_from (fst af) =? v)%nat then snd af else 0) (combine arcs fl)).

Lemma assign_sums h : forall arcs q, lined h arcs q -> length q = nv ->
  (forall a, In a arcs -> (a_to a < nv)%nat) ->
  forall v, s_in arcs (assign arcs q) v = capsum (nth v q []) /\
            s_out arcs (assign arcs q) v = zsum (map (fun u => capto v (nth u q [])) (seq 0 nv)).
Proof.
  induction arcs as [|a r IH]; intros q L LQ WT v.
  - cbn [assign]. unfold s_in, s_out. cbn [combine map zsum].
    assert (E : forall u, nth u q [] = []).
    { intros u. pose proof (L u) as X. cbn [filter map] in X. unfold strip in X. destruct (nth u q []); [auto|discriminate]. }
    rewrite E. split; [reflexivity|]. symmetry. apply zsum_map_zero. intros u _. rewrite E. reflexivity.
  - assert (Ht : (a_to a < length q)%nat) by (rewrite LQ; apply WT; left; auto).
    destruct (lined_step h a r q L Ht) as [en [tlq [EN [Ef [_ L']]]]].
    cbn [assign]. rewrite EN.
    assert (LQ' : length (upd q (a_to a) (@tl _)) = nv) by (rewrite upd_length_local; auto).
    destruct (IH _ L' LQ' ltac:(intros; apply WT; right; auto) v) as [I1 I2].
    unfold s_in, s_out in *. cbn [combine map zsum fst snd]. rewrite I1, I2.
    assert (N : forall u, nth u (upd q (a_to a) (@tl _)) [] = if (u =? a_to a)%nat then tlq else nth u q []).
    { intros u. rewrite (nth_upd_local (@tl _) []). rewrite (Nat.eqb_sym u).
      destruct (a_to a =? u)%nat eqn:EU.
      - apply Nat.eqb_eq in EU. subst u. assert (X : (a_to a <? length q)%nat = true) by (apply Nat.ltb_lt; auto).
        rewrite X. cbn [andb]. rewrite EN. reflexivity.
      - reflexivity. }
    split.
    + rewrite N. rewrite (Nat.eqb_sym v). destruct (a_to a =? v)%nat eqn:EV.
      * apply Nat.eqb_eq in EV. subst v. rewrite EN. unfold capsum. cbn [map zsum]. lia.
      * lia.
    + rewrite (zsum_seq_upd nv (fun u => capto v (nth u (upd q (a_to a) (@tl _)) [])) (fun u => capto v (nth u q [])) (a_to a)).
      * rewrite N, Nat.eqb_refl, EN. unfold capto. cbn [map zsum]. rewrite Ef. lia.
      * intros u Nu. rewrite N. assert (X : (u =? a_to a)%nat = false) by (apply Nat.eqb_neq; auto). rewrite X. reflexivity.
      * lia.
Qed.
End Sums.

(* every assigned value is 0 or the capacity of an entry of the ORIGINAL list of the arc's head that
   carries the arc's own (target, reduced cost) *)
Lemma assign_entry h : forall arcs q, lined h arcs q -> (forall a, In a arcs -> (a_to a < length q)%nat) ->
  forall k a, nth_error arcs k = Some a ->
  exists en, In en (nth (a_to a) q []) /\ snd en = nth k (assign arcs q) 0 /\
             fst (fst en) = a_from a /\ snd (fst en) = h a.
Proof.
  induction arcs as [|a0 r IH]; intros q L WT k a Hk; [destruct k; discriminate|].
  assert (Ht : (a_to a0 < length q)%nat) by (apply WT; left; auto).
  destruct (lined_step h a0 r q L Ht) as [en [tlq [EN [Ef [Eh L']]]]].
  cbn [assign]. rewrite EN. destruct k as [|k].
  - cbn in Hk. injection Hk as <-. exists en. rewrite EN. cbn [nth]. repeat split; auto. left. auto.
  - cbn [nth_error] in Hk. cbn [nth].
    destruct (IH _ L' ltac:(intros a1 H1; rewrite upd_length_local; apply WT; right; auto) k a Hk) as [e1 [I1 [S1 [F1 H1]]]].
    exists e1. repeat split; auto.
    rewrite (nth_upd_local (@tl _) []) in I1. destruct ((a_to a0 =? a_to a)%nat && (a_to a0 <? length q)%nat) eqn:E; [|auto].
    apply andb_prop in E. destruct E as [E _]. apply Nat.eqb_eq in E. rewrite <- E, EN in *. cbn [tl] in I1. right. auto.
Qed.

Lemma flat_map_filter {A B} (p : A -> bool) (g : A -> B) (l : list A) :
  flat_map (fun a => if p a then [g a] else []) l = map g (filter p l).
Proof. induction l as [|a l IH]; cbn [flat_map filter]; auto. destruct (p a); cbn [app map]; rewrite IH; auto. Qed.

Lemma zsum_index_combine {A} (G : A -> Z -> Z) (dA : A) : forall (l1 : list A) (l2 : list Z), length l2 = length l1 ->
  zsum (map (fun k => G (nth k l1 dA) (nth k l2 0)) (seq 0 (length l1))) = zsum (map (fun p => G (fst p) (snd p)) (combine l1 l2)).
Proof.
  induction l1 as [|a l1 IH]; intros l2 L; [reflexivity|]. destruct l2 as [|z l2]; [discriminate|].
  cbn [length seq map zsum combine nth fst snd]. f_equal. rewrite <- seq_shift, map_map. cbn [length] in L. rewrite <- IH by lia.
  apply zsum_map_ext. intros; reflexivity.
Qed.

(* ---------------------------------------------------------------- instantiation *)
Section Instantiate.
Variable nv : nat.
Variable c : list (list (nat * Z)).
Hypothesis LC : length c = nv.
Hypothesis GC : forall l tc, In l c -> In tc l -> (fst tc < nv)%nat /\ 0 <= snd tc.

Definition sk_of : list (nat * nat * Z) := map skel (mk_arcs c).
Definition capflow (rb : list (list (nat * Z * Z))) (k : nat) : Z := nth k (assign (mk_arcs c) rb) 0.

Lemma arcs_wf a : In a (mk_arcs c) -> (a_from a < nv)%nat /\ (a_to a < nv)%nat /\ 0 <= a_cost a.
Proof.
  intros H. apply mk_arcs_in in H. destruct H as [_ [A B]]. split; [lia|].
  apply (GC (nth (a_from a) c []) (a_to a, a_cost a)); auto. apply nth_In. lia.
Qed.

Lemma ghost_lined pi rf rb : ghost nv c pi rf rb ->
  lined (fun a => - a_cost a + pi (a_to a) - pi (a_from a)) (mk_arcs c) rb.
Proof.
  intros [_ [LRB [_ G2]]] u. destruct (Nat.lt_ge_cases u nv) as [Lu|Lu].
  - rewrite G2 by auto. unfold bwd_of. rewrite flat_map_filter. 
    transitivity (map (fun a => (a_from a, - a_cost a + pi u - pi (a_from a))) (filter (fun a => (a_to a =? u)%nat) (mk_arcs c))); [reflexivity|].
    apply map_ext_in. intros a Ha. apply filter_In in Ha. destruct Ha as [_ E]. apply Nat.eqb_eq in E. rewrite E. reflexivity.
  - rewrite nth_overflow by lia. cbn [strip map].
    assert (E : filter (fun a => (a_to a =? u)%nat) (mk_arcs c) = []).
    { destruct (filter (fun a => (a_to a =? u)%nat) (mk_arcs c)) as [|a l] eqn:F; [reflexivity|].
      assert (X : In a (filter (fun a => (a_to a =? u)%nat) (mk_arcs c))) by (rewrite F; left; auto).
      apply filter_In in X. destruct X as [X Y]. apply Nat.eqb_eq in Y. destruct (arcs_wf a X) as [_ [Z _]]. lia. }
    rewrite E. reflexivity.
Qed.

Lemma sk_nth k : (k < length (mk_arcs c))%nat ->
  a_fr sk_of k = a_from (nth k (mk_arcs c) dummy_arc) /\ a_tt sk_of k = a_to (nth k (mk_arcs c) dummy_arc) /\
  a_c sk_of k = a_cost (nth k (mk_arcs c) dummy_arc).
Proof.
  intros H. unfold a_fr, a_tt, a_c, sk_of. change (O, O, 0) with (skel dummy_arc). rewrite map_nth. unfold skel. auto.
Qed.

Lemma gout_capflow rb pi rf v : ghost nv c pi rf rb ->
  gout sk_of (capflow rb) v = outflow_c nv rb v - inflow rb v.
Proof.
  intros G. pose proof (ghost_lined pi rf rb G) as L. pose proof G as [_ [LRB _]].
  destruct (assign_sums nv _ (mk_arcs c) rb L LRB ltac:(intros a Ha; apply (arcs_wf a Ha)) v) as [SI SO].
  unfold gout, idx, sk_of. rewrite map_length.
  rewrite (zsum_map_ext _ (fun k => (fun a z => (ind (a_from a) v - ind (a_to a) v) * z) (nth k (mk_arcs c) dummy_arc) (nth k (assign (mk_arcs c) rb) 0))).
  - rewrite (zsum_index_combine (fun a z => (ind (a_from a) v - ind (a_to a) v) * z) dummy_arc (mk_arcs c) (assign (mk_arcs c) rb) (assign_length _ _)).
    unfold outflow_c, inflow. rewrite <- SI, <- SO. unfold s_in, s_out.
    rewrite <- zsum_map_sub. apply zsum_map_ext. intros [a z] _. cbn [fst snd]. unfold ind.
    destruct (a_from a =? v)%nat; destruct (a_to a =? v)%nat; lia.
  - intros k Hk. apply in_seq in Hk. destruct (sk_nth k ltac:(lia)) as [A [B _]]. fold sk_of. rewrite A, B. reflexivity.
Qed.
End Instantiate.
