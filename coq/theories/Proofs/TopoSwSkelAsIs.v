(* C05 - record of defect F3 (DESIGN.md section 6; repaired in /repo by commit "fix: skeletonize keeps a pixel
   whose four edge neighbours are all set").  [skel_tab_asis] is the removal table skeletonize built BEFORE that fix
   (the current expression without its last term), hard-coded here: the kernel refutes it - it deletes a pattern
   that is not simple - and the verified checker rejects what the sequential loop does with it to the 3x3 plus. *)
From Coq Require Import ZArith NArith List Bool.
From Centro Require Import Base.Topo Base.Skel Base.TopoPar Base.TopoSweep Base.TopoGrid Spec.TopoCheck.
Import ListNotations.
Open Scope Z_scope.

Definition skel_tab_asis : N := 6955955639206216727804625468071420793282709178630616049648627781006689383865220403898502781358743362027399760936737185575170991471558589967808891125760%N.

Example skel_asis_refuted : table_deletes_only_simple (keepN skel_tab_asis) = false.
Proof. vm_compute. reflexivity. Qed.

(* pattern N,E,S,W + centre (index 0xBA): deleted by the as-is table, not simple *)
Example skel_asis_witness :
  let bits := [false;true;false;true;true;true;false;true;false] in
  keepN skel_tab_asis bits = false /\ simple_ok bits = false.
Proof. vm_compute. split; reflexivity. Qed.

Example skel_asis_opens_hole :
  let g := [[false;true;false];[true;true;true];[false;true;false]] in
  let g' := tabulate 3 3 (skel (keepN skel_tab_asis) (fun p => 0 <? fst p) [(1,1)] (img_of g)) in
  g' = [[false;true;false];[true;false;true];[false;true;false]] /\ topo_check 3 3 g g' = false.
Proof. vm_compute. split; reflexivity. Qed.
