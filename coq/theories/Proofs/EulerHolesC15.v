(* C15 — reducibility beyond the hole-free class without a dual end-pixel lemma: every label image all
   of whose holes are single pixels (every background pixel is 4-connected to the outside or has its
   four 4-neighbours in the set) is emptied by closing the one-pixel holes and then deleting simple
   pixels and isolated points; hence 4 W = 4 (components - holes) for it (Full, every size). *)
From Coq Require Import ZArith List Bool Lia.
From Centro Require Import Base.Topo Base.Skel Spec.TopoCheck Proofs.TopoCounts Proofs.EndPixel.
From Centro Require Import Base.GraphC15 Model.LabelGraph Spec.EulerMovesC15 Proofs.NeighborsC15 Proofs.EulerQuadC15
  Proofs.EulerStepC15 Proofs.EulerTopoC15 Proofs.EulerHoleFreeC15.
Import ListNotations.
Open Scope Z_scope.

Definition far : px := (-1, -1).
(* every hole is a single pixel *)
Definition singleton_holes (X : Topo.img) : Prop :=
  forall q, bg X q -> conn4 X q far \/ (forall a, adj4 q a -> fg X a).

Lemma filter_length_lt {A} (f g : A -> bool) (l : list A) p :
  (forall x, g x = true -> f x = true) -> In p l -> f p = true -> g p = false ->
  (length (filter g l) < length (filter f l))%nat.
Proof.
  intros Sub. induction l as [|a r IH]; intros Hin Fp Gp; [destruct Hin|]. cbn [filter].
  assert (LE : forall r0 : list A, (length (filter g r0) <= length (filter f r0))%nat).
  { induction r0 as [|b r0 IH0]; cbn [filter]; [lia|]. destruct (g b) eqn:Gb; [rewrite (Sub b Gb); cbn [length]; lia|].
    destruct (f b); cbn [length]; lia. }
  destruct Hin as [->|Hin].
  - rewrite Fp, Gp. cbn [length]. specialize (LE r). lia.
  - specialize (IH Hin Fp Gp). destruct (g a) eqn:Ga; [rewrite (Sub a Ga); cbn [length]; lia|].
    destruct (f a); cbn [length]; lia.
Qed.

Section Holes.
Variable l : Z.
Hypothesis l_nz : l <> 0.

Lemma hole4_at_spec im y x : hole4_at im l y x = true <-> (forall a, adj4 (y, x) a -> fg (X_of im l) a).
Proof.
  unfold hole4_at, nb_bit. split.
  - intros H a Ha. repeat (apply andb_true_iff in H; destruct H as [H ?]).
    destruct (adj4_is_nb (y, x) a Ha) as [b [Hb ->]]. unfold fg, X_of, nb, off. cbn [In] in Hb.
    destruct Hb as [<-|[<-|[<-|[<-|[]]]]];
      cbn [fst snd Nat.div Nat.modulo Nat.divmod Z.of_nat Z.sub Z.add Z.opp Z.pos_sub Pos.of_succ_nat Pos.succ]; assumption.
  - intros H. assert (B : forall dy dx, Z.abs dy + Z.abs dx = 1 -> inS im l (y + dy) (x + dx) = true).
    { intros dy dx A. apply (H (y + dy, x + dx)). unfold adj4. cbn [fst snd]. lia. }
    rewrite !B by reflexivity. reflexivity.
Qed.

Definition bg_count (im : image) : nat :=
  length (filter (fun p => negb (inS im l (fst p) (snd p))) (positions (img_h im) (img_w im))).

Lemma singleton_holes_reduces : forall n im, rect im -> (bg_count im <= n)%nat ->
  singleton_holes (X_of im l) -> exists k, Reduces2 l im k.
Proof.
  induction n as [|n IH]; intros im R BC SH.
  - (* no background pixel inside the image: hole-free *)
    assert (HF : hole_free' (X_of im l)).
    { intros a b Ha Hb.
      assert (G : forall q, bg (X_of im l) q -> conn4 (X_of im l) q far).
      { intros q Hq. destruct (SH q Hq) as [C|N4]; [exact C|]. exfalso.
        (* q has four neighbours in the set, so it lies inside the image: a background position *)
        destruct q as [y x].
        pose proof (N4 (y - 1, x) ltac:(unfold adj4; cbn [fst snd]; lia)) as F1.
        pose proof (N4 (y + 1, x) ltac:(unfold adj4; cbn [fst snd]; lia)) as F2.
        pose proof (N4 (y, x - 1) ltac:(unfold adj4; cbn [fst snd]; lia)) as F3.
        pose proof (N4 (y, x + 1) ltac:(unfold adj4; cbn [fst snd]; lia)) as F4.
        destruct (X_true_inside l l_nz im _ R F1) as [_ I1]. destruct (X_true_inside l l_nz im _ R F2) as [_ I2].
        destruct (X_true_inside l l_nz im _ R F3) as [_ I3]. destruct (X_true_inside l l_nz im _ R F4) as [_ I4].
        apply positions_in in I1, I2, I3, I4. cbn [fst snd] in *.
        assert (Hin : In (y, x) (filter (fun p => negb (inS im l (fst p) (snd p))) (positions (img_h im) (img_w im)))).
        { apply filter_In. split; [apply positions_in; lia|]. cbn [fst snd]. unfold bg, X_of in Hq. cbn [fst snd] in Hq. rewrite Hq. reflexivity. }
        unfold bg_count in BC. destruct (filter _ _); [destruct Hin|cbn [length] in BC; lia]. }
      eapply path_trans; [apply G; exact Ha|apply conn4_sym; apply G; exact Hb]. }
    destruct (holefree_reducible l l_nz im R HF) as [k Rk]. exists k. apply Reduces_Reduces2. exact Rk.
  - destruct (find (fun p => negb (inS im l (fst p) (snd p)) && hole4_at im l (fst p) (snd p)) (positions (img_h im) (img_w im)))
      as [p|] eqn:F.
    + apply find_some in F. destruct F as [Ip F]. apply andb_true_iff in F. destruct F as [Bp Hp].
      destruct p as [y x]. cbn [fst snd] in *. apply positions_in in Ip. destruct Ip as [Hy Hx].
      apply negb_true_iff in Bp.
      assert (NP : get2 im y x <> l) by (unfold inS in Bp; apply Z.eqb_neq; exact Bp).
      set (im2 := set_px im y x l).
      assert (R2 : rect im2) by (apply set_px_rect; exact R).
      assert (G2 : forall y' x', get2 im2 y' x' = if (y' =? y) && (x' =? x) then l else get2 im y' x')
        by (intros; apply set_px_get_inside; assumption).
      assert (XS : forall q, X_of im2 l q = if Topo.px_eqb q (y, x) then true else X_of im l q).
      { intros [qy qx]. unfold X_of, inS, Topo.px_eqb. cbn [fst snd]. rewrite G2.
        destruct ((qy =? y) && (qx =? x)); [apply Z.eqb_refl|reflexivity]. }
      assert (N4 : forall a, adj4 (y, x) a -> fg (X_of im l) a) by (apply hole4_at_spec; exact Hp).
      destruct (IH im2 R2) as [k Rk].
      * (* one background position less *)
        unfold bg_count in *. unfold im2 at 2 3. rewrite set_px_h, set_px_w.
        assert (LT : (length (filter (fun p => negb (inS im2 l (fst p) (snd p))) (positions (img_h im) (img_w im))) <
                      length (filter (fun p => negb (inS im l (fst p) (snd p))) (positions (img_h im) (img_w im))))%nat).
        { apply (filter_length_lt _ _ _ (y, x)).
          - intros [qy qx]. cbn [fst snd]. pose proof (XS (qy, qx)) as E. unfold X_of in E. cbn [fst snd] in E. rewrite E.
            destruct (Topo.px_eqb (qy, qx) (y, x)); [discriminate|tauto].
          - apply positions_in. lia.
          - cbn [fst snd]. rewrite Bp. reflexivity.
          - cbn [fst snd]. pose proof (XS (y, x)) as E. unfold X_of in E. cbn [fst snd] in E. rewrite E.
            destruct (px_eqb_spec (y, x) (y, x)); [reflexivity|congruence]. }
        lia.
      * (* the class is kept *)
        intros q Hq. unfold bg in Hq. rewrite XS in Hq. destruct (px_eqb_spec q (y, x)) as [E|Nq]; [discriminate|].
        destruct (SH q Hq) as [C|A].
        -- left.
           assert (BI : forall z, bg (X_of im l) z <-> bg (X_of im2 l) z \/ z = (y, x)).
           { intros z. unfold bg. rewrite XS. destruct (px_eqb_spec z (y, x)) as [->|Nz]; [|intuition congruence].
             unfold X_of. cbn [fst snd]. rewrite Bp. intuition discriminate. }
           apply (ai_keep adj4 adj4_sym (bg (X_of im2 l)) (bg (X_of im l)) (y, x) BI); [|exact C|exact Nq].
           intros a Ha Ba. specialize (N4 a Ha). unfold bg, fg in *. rewrite XS in Ba.
           destruct (Topo.px_eqb a (y, x)); [discriminate|congruence].
        -- right. intros a Ha. specialize (A a Ha). unfold fg in *. rewrite XS. destruct (Topo.px_eqb a (y, x)); [reflexivity|exact A].
      * exists (k - 1). apply (r2_hole l im y x k Hy Hx NP Hp Rk).
    + (* no one-pixel hole: hole-free *)
      assert (HF : hole_free' (X_of im l)).
      { intros a b Ha Hb.
        assert (G : forall q, bg (X_of im l) q -> conn4 (X_of im l) q far).
        { intros q Hq. destruct (SH q Hq) as [C|N4]; [exact C|]. exfalso. destruct q as [y x].
          pose proof (N4 (y - 1, x) ltac:(unfold adj4; cbn [fst snd]; lia)) as F1.
          pose proof (N4 (y + 1, x) ltac:(unfold adj4; cbn [fst snd]; lia)) as F2.
          pose proof (N4 (y, x - 1) ltac:(unfold adj4; cbn [fst snd]; lia)) as F3.
          pose proof (N4 (y, x + 1) ltac:(unfold adj4; cbn [fst snd]; lia)) as F4.
          destruct (X_true_inside l l_nz im _ R F1) as [_ I1]. destruct (X_true_inside l l_nz im _ R F2) as [_ I2].
          destruct (X_true_inside l l_nz im _ R F3) as [_ I3]. destruct (X_true_inside l l_nz im _ R F4) as [_ I4].
          apply positions_in in I1, I2, I3, I4. cbn [fst snd] in *.
          pose proof (find_none _ _ F (y, x) ltac:(apply positions_in; lia)) as N0. cbn [fst snd] in N0.
          unfold bg, X_of in Hq. cbn [fst snd] in Hq. rewrite Hq in N0. cbn [negb andb] in N0.
          assert (hole4_at im l y x = true) by (apply hole4_at_spec; exact N4). congruence. }
        eapply path_trans; [apply G; exact Ha|apply conn4_sym; apply G; exact Hb]. }
      destruct (holefree_reducible l l_nz im R HF) as [k Rk]. exists k. apply Reduces_Reduces2. exact Rk.
Qed.

(* every label all of whose holes are single pixels is reducible (any number of objects, any size) *)
Theorem singleton_holes_reducible im : rect im -> singleton_holes (X_of im l) -> exists k, Reduces2 l im k.
Proof. intros R SH. exact (singleton_holes_reduces (bg_count im) im R (le_n _) SH). Qed.
End Holes.


(* 4 W = 4 (components - holes), executable definition, for the two classes proved reducible for every size *)
From Centro Require Import Spec.LabelGraph Proofs.EulerBridgeC15.
Theorem euler_singleton_holes (l : Z) (im : image) : l <> 0 -> rect im -> singleton_holes (X_of im l) ->
  euler4 im l = 4 * euler_spec im l.
Proof.
  intros Hl R SH. destruct (singleton_holes_reducible l Hl im R SH) as [k Rk].
  apply (euler_is_components_minus_holes_reducible l Hl im k Rk R).
Qed.
Lemma hole_free_singleton_holes (X : Topo.img) : bg X far -> hole_free' X -> singleton_holes X.
Proof. intros B HF q Hq. left. apply HF; assumption. Qed.
