(* C10 — finding family F25 (int32 intermediate overflow although inputs and result fit int32):
   kernel-evaluated witnesses on the AS-WRITTEN model (Model/EmdW.v with w = wrap32), and the
   per-operation half of C10_no_wrap_below_bound. *)
From Coq Require Import ZArith List Bool Lia.
From Centro Require Import Base.Sx Base.EmdBase Spec.Emd Model.Emd Model.EmdMcf Model.EmdCert Model.EmdAsIs Model.EmdW.
Import ListNotations.
Open Scope Z_scope.

Definition two30 : Z := 1073741824.

(* (1) d[u] + reduced cost overflows once two costs sum to >= 2^31: the as-written model returns the
   implementation's 1073741826 with the implementation's flow, the exact models the optimum
   1073741825; one unit less in the costs and all agree on 1073741824 *)
Theorem int32_sp_overflow_refuted :
  emd_hat_int32_w wrap32 [1; 2] [1; 1] [[1; 1]; [two30; two30 + 1]] (Some 0) 2 false = (0, 1073741826, [[1; 0]; [0; 1]]) /\
  emd_hat_int32_w exactw [1; 2] [1; 1] [[1; 1]; [two30; two30 + 1]] (Some 0) 2 false = (0, 1073741825, [[0; 1]; [1; 0]]) /\
  emd_certified [1; 2] [1; 1] [[1; 1]; [two30; two30 + 1]] (Some 0) 2 false = Some (1073741825, [[0; 1]; [1; 0]]) /\
  emd_hat_int32_w wrap32 [1; 2] [1; 1] [[1; 1]; [two30 - 1; two30]] (Some 0) 2 false = (0, 1073741824, [[0; 1]; [1; 0]]).
Proof. repeat split; vm_compute; reflexivity. Qed.

(* (4) sum_Q is accumulated in int: 2^30 + 2^30 wraps, the histograms are not swapped, and the
   as-written model returns the implementation's 2147483647 with a flow of cost 0; the exact value is 0 *)
Theorem int32_mass_sum_refuted :
  emd_hat_int32_w wrap32 [1] [two30; two30] [[0; 1]] (Some 0) 2 false = (0, 2147483647, [[1; 0]]) /\
  emd_hat_int32_w exactw [1] [two30; two30] [[0; 1]] (Some 0) 2 false = (0, 0, [[1; 0]]) /\
  emd_certified [1] [two30; two30] [[0; 1]] (Some 0) 2 false = Some (0, [[1; 0]]).
Proof. repeat split; vm_compute; reflexivity. Qed.

(* the hang (2) and F21: the as-written run does not finish within 2^10 augmentations (status 1) *)
Theorem int32_hang_refuted :
  fst (fst (emd_hat_int32_w wrap32 [1; 1] [1; 1] [[1000000000; 2000000000]; [1000000000; 1000000000]] None 0 false)) = 1 /\
  fst (fst (emd_hat_int32_w wrap32 [1; 0] [0; 1] [[0; 5]; [2147483647; 0]] None 0 false)) = 1 /\
  emd_certified [1; 1] [1; 1] [[1000000000; 2000000000]; [1000000000; 1000000000]] None 0 false = Some (2000000000, []).
Proof. repeat split; vm_compute; reflexivity. Qed.

(* per-operation half of C10_no_wrap_below_bound: an int operation whose exact result is
   representable is not changed by the wrap; in particular sequential accumulation of a list whose
   partial sums are all representable equals the exact sum *)
Lemma wrap32_id z : -2147483648 <= z <= 2147483647 -> wrap32 z = z.
Proof. intros H. unfold wrap32. rewrite Z.mod_small by lia. lia. Qed.

Lemma wsum_exact : forall l s, (forall k, (k <= length l)%nat -> -2147483648 <= s + zsum (firstn k l) <= 2147483647) ->
  fold_left (fun s x => wrap32 (s + x)) l s = s + zsum l.
Proof.
  induction l as [|x l IH]; intros s H; cbn [fold_left zsum]; [lia|].
  assert (E : wrap32 (s + x) = s + x).
  { apply wrap32_id. specialize (H 1%nat ltac:(cbn [length]; lia)). cbn [firstn zsum] in H. lia. }
  rewrite E, IH; [lia|]. intros k Hk. specialize (H (S k) ltac:(cbn [length]; lia)). cbn [firstn zsum] in H. lia.
Qed.
