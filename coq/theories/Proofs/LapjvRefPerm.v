(* C01 — the reference variant lapjv_ref (augment with a true infinity instead of the sentinel sum(c) + 1, finding F20):
   the structural half of the certificate holds for it exactly as for lapjv (the proofs never look at the value of inf). *)
From Coq Require Import ZArith List Bool Lia Arith.
From Centro Require Import Base.Sx Model.Lapjv Spec.Lapjv Proofs.LapjvCert Proofs.LapjvPhases Proofs.LapjvArr Proofs.LapjvRows
  Proofs.LapjvRt Proofs.LapjvHall Proofs.LapjvArrExt Proofs.LapjvExtModel Proofs.LapjvAugMarks Proofs.LapjvAugFlip
  Proofs.LapjvAugPred Proofs.LapjvAugRows Proofs.LapjvPerm Proofs.LapjvFixedPerm.
Import ListNotations.
Open Scope Z_scope.

Theorem lapjv_ref_fixed_perm n tri :
  (forall t, In t tri -> (t_i t < n)%nat /\ (t_j t < n)%nat) ->
  NoDup (map fst tri) ->
  (forall j, (j < n)%nat -> exists t, In t tri /\ t_j t = j) ->
  has_PM n tri ->
  forall epsr k x y u v, 0 <= epsr ->
  lapjv_ref Fixed 0 epsr k n tri = Some (x, y, u, v) -> Inverse n x y.
Proof.
  intros Hrange Hpairs Hcols HPM epsr k x y u v Her. unfold lapjv_ref.
  pose proof (phases123_inv_ext n tri Hrange Hpairs Hcols HPM epsr (arr_fuel n tri) k) as P123. cbn zeta in P123.
  pose proof (phase1_comp n tri) as C1.
  destruct (reduction_transfer Fixed n (rows_of n tri) (jflat_of (rows_of n tri)) (x_init n (min_i n tri))
              (one_rows n (min_i n tri)) (repeat (Fin 0) n) (v_init n tri)) as [u1 v1]. cbn [snd] in P123.
  set (arr := match free_rows n (min_i n tri) with
              | [] => Some (x_init n (min_i n tri), y_init n (x_init n (min_i n tri)), v1, free_rows n (min_i n tri))
              | _ => arr_passes k (arr_fuel n tri) (Fin 0) (Fin epsr) n (rows_of n tri)
                       (x_init n (min_i n tri), y_init n (x_init n (min_i n tri)), v1, free_rows n (min_i n tri))
              end) in *.
  destruct arr as [[[[x2 y2] v2] ii]|] eqn:EA; [|discriminate].
  destruct (P123 x2 y2 v2 ii Her eq_refl) as [HI HP].
  assert (HC : length y2 = n /\ Comp n y2 ii).
  { destruct HI as [_ [Ly2 _]]. split; auto. unfold arr in EA.
    destruct (free_rows n (min_i n tri)) as [|f0 fr] eqn:EF.
    - injection EA as Ex Ey Ev Ei. rewrite <- Ey, <- Ei. exact C1.
    - eapply (arr_passes_comp n (rows_of n tri) (fun i j c H => proj1 (rows_fin n tri Hrange i j c H))); [|exact C1|exact EA].
      unfold y_init. rewrite y_init_go_length, repeat_length. reflexivity. }
  destruct HC as [Ly2 HC].
  set (inf := PInf).
  set (s0 := mkMain x2 y2 v2 (repeat (Fin 0) n) (repeat 1%nat n) (repeat n n) (repeat n n)).
  destruct (fold_left (aug_row n inf (rows_of n tri)) ii (Some s0)) as [s|] eqn:EFold; [|discriminate].
  destruct (final_u (rows_of n tri) (m_x s) (m_v s)) as [uf|]; [|discriminate].
  intros E. injection E as Ex Ey Eu Ev. rewrite <- Ex, <- Ey.
  assert (S0 : St n s0).
  { destruct HI as [Lx2 [_ [_ [SL _]]]]. unfold St, s0. cbn [m_x m_y m_done m_ontodo m_pred].
    rewrite !repeat_length. repeat split; auto.
    - destruct (SL j i H H1 H2) as [A _]; exact A.
    - destruct (SL j i H H1 H2) as [_ [A _]]; exact A. }
  destruct (aug_rows_struct n (rows_of n tri) inf (fun i j c H => proj1 (rows_fin n tri Hrange i j c H))
              (rows_nodup n tri Hpairs) ii s0 s S0 HP EFold) as [[Lx [Ly [_ [_ [_ PI]]]]] Cnt].
  unfold s0 in Cnt. cbn [m_y] in Cnt. pose proof (comp_count n y2 ii HC) as CC.
  apply perm_of_full; auto. apply all_assigned. lia.
Qed.


Theorem lapjv_ref_fixed_pm n tri :
  (forall t, In t tri -> (t_i t < n)%nat /\ (t_j t < n)%nat) ->
  NoDup (map fst tri) ->
  (forall j, (j < n)%nat -> exists t, In t tri /\ t_j t = j) ->
  has_PM n tri ->
  forall epsr k x y u v, 0 <= epsr ->
  lapjv_ref Fixed 0 epsr k n tri = Some (x, y, u, v) -> PM n tri x /\ Inverse n x y.
Proof.
  intros Hrange Hpairs Hcols HPM epsr k x y u v Her E.
  pose proof (lapjv_ref_fixed_perm n tri Hrange Hpairs Hcols HPM epsr k x y u v Her E) as Inv.
  split; [|exact Inv]. split; [eapply inverse_perm; eauto|].
  intros i Hi. unfold lapjv_ref in E.
  destruct (reduction_transfer Fixed n (rows_of n tri) (jflat_of (rows_of n tri)) (x_init n (min_i n tri))
              (one_rows n (min_i n tri)) (repeat (Fin 0) n) (v_init n tri)) as [u1 v1].
  destruct (match free_rows n (min_i n tri) with
            | [] => Some (x_init n (min_i n tri), y_init n (x_init n (min_i n tri)), v1, free_rows n (min_i n tri))
            | _ => arr_passes k (arr_fuel n tri) (Fin 0) (Fin epsr) n (rows_of n tri)
                     (x_init n (min_i n tri), y_init n (x_init n (min_i n tri)), v1, free_rows n (min_i n tri))
            end) as [[[[x2 y2] v2] ii]|]; [|discriminate].
  destruct (fold_left _ ii _) as [s|]; [|discriminate].
  destruct (final_u (rows_of n tri) (m_x s) (m_v s)) as [uf|] eqn:EU; [|discriminate].
  injection E as Ex Ey Eu Ev. subst x.
  destruct (final_u_listed (m_v s) (rows_of n tri) (m_x s) uf EU i) as [c Hc].
  { unfold rows_of. rewrite map_length, seq_length. exact Hi. }
  fold (rowget (rows_of n tri) i) in Hc. fold (row (rows_of n tri) i) in Hc.
  destruct (rows_fin n tri Hrange i _ c Hc) as [_ [z ->]].
  apply (row_in_tri n tri) in Hc. unfold col. eapply cost_of_in; eauto.
Qed.

