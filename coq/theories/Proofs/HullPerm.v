(* C02 — the sorting and permutation bookkeeping of convex_hull_ijv: lexsort, argsort, and
   "argsort of a permutation is its inverse" (the reorder step). *)
From Coq Require Import ZArith List Bool Lia ZifyBool Permutation Sorted.
From Centro Require Import Base.Sx Model.Hull.
Import ListNotations.
Open Scope Z_scope.

(* ---------------------------------------------------------------- lexsort *)

Lemma insert_row_perm r l : Permutation (insert_row r l) (r :: l).
Proof.
  induction l as [|x t IH]; cbn [insert_row]; auto.
  destruct (row_leb r x); auto.
  eapply perm_trans; [apply perm_skip; exact IH | apply perm_swap].
Qed.

Lemma lexsort_perm : forall l, Permutation (lexsort l) l.
Proof.
  induction l as [|r l IH]; cbn; auto.
  eapply perm_trans; [apply insert_row_perm | apply perm_skip; exact IH].
Qed.

Lemma row_leb_v a b : (row_leb a b = true -> r_v a <= r_v b) /\ (row_leb a b = false -> r_v b <= r_v a).
Proof.
  unfold row_leb. destruct (r_v a <? r_v b) eqn:E1; [split; [lia|discriminate]|].
  destruct (r_v b <? r_v a) eqn:E2; [split; [discriminate|lia]|]. split; lia.
Qed.

Lemma insert_row_sorted r l :
  StronglySorted (fun a b => r_v a <= r_v b) l -> StronglySorted (fun a b => r_v a <= r_v b) (insert_row r l).
Proof.
  induction l as [|x t IH]; intros H; cbn [insert_row].
  - constructor; constructor.
  - inversion H as [|a l HS HF]. subst. destruct (row_leb r x) eqn:E.
    + constructor; auto. apply (proj1 (row_leb_v r x)) in E. constructor; [exact E|].
      rewrite Forall_forall in *. intros y Hy. specialize (HF y Hy). lia.
    + constructor; [apply IH; exact HS|]. apply (proj2 (row_leb_v r x)) in E.
      rewrite Forall_forall in *. intros y Hy.
      apply (Permutation_in _ (insert_row_perm r t)) in Hy. destruct Hy as [Hy|Hy]; [subst; exact E | auto].
Qed.

Lemma lexsort_sorted_v : forall l, StronglySorted (fun a b => r_v a <= r_v b) (lexsort l).
Proof. induction l as [|r l IH]; cbn; [constructor | apply insert_row_sorted; exact IH]. Qed.

(* ---------------------------------------------------------------- argsort *)

Definition sort_keys (ps : list (Z * nat)) : list (Z * nat) := fold_right insert_key [] ps.

Lemma insert_key_perm kv l : Permutation (insert_key kv l) (kv :: l).
Proof.
  induction l as [|x t IH]; cbn [insert_key]; auto.
  destruct (fst kv <=? fst x); auto.
  eapply perm_trans; [apply perm_skip; exact IH | apply perm_swap].
Qed.
Lemma sort_keys_perm ps : Permutation (sort_keys ps) ps.
Proof.
  induction ps as [|p ps IH]; cbn; auto.
  eapply perm_trans; [apply insert_key_perm | apply perm_skip; exact IH].
Qed.

Lemma insert_key_sorted kv l :
  StronglySorted (fun a b => fst a <= fst b) l -> StronglySorted (fun a b => fst a <= fst b) (insert_key kv l).
Proof.
  induction l as [|x t IH]; intros H; cbn [insert_key].
  - constructor; constructor.
  - inversion H as [|a l HS HF]. subst. destruct (fst kv <=? fst x) eqn:E.
    + constructor; auto. constructor; [lia|].
      rewrite Forall_forall in *. intros y Hy. specialize (HF y Hy). lia.
    + constructor; [apply IH; exact HS|].
      rewrite Forall_forall in *. intros y Hy.
      apply (Permutation_in _ (insert_key_perm kv t)) in Hy. destruct Hy as [Hy|Hy]; [subst; lia | auto].
Qed.
Lemma sort_keys_sorted ps : StronglySorted (fun a b => fst a <= fst b) (sort_keys ps).
Proof. induction ps as [|p ps IH]; cbn; [constructor | apply insert_key_sorted; exact IH]. Qed.

Lemma map_snd_combine_seq : forall (xs : list Z) s, map snd (combine xs (seq s (length xs))) = seq s (length xs).
Proof. induction xs as [|x xs IH]; intros s; cbn; auto. f_equal. apply IH. Qed.
Lemma map_fst_combine_seq : forall (xs : list Z) s, map fst (combine xs (seq s (length xs))) = xs.
Proof. induction xs as [|x xs IH]; intros s; cbn; auto. f_equal. apply IH. Qed.
Lemma in_combine_seq : forall (xs : list Z) s x k, In (x, k) (combine xs (seq s (length xs))) ->
  (s <= k)%nat /\ nth (k - s) xs 0 = x.
Proof.
  induction xs as [|y xs IH]; intros s x k H; cbn in H; [contradiction|].
  destruct H as [H|H].
  - inversion H. subst. split; [lia|]. rewrite Nat.sub_diag. reflexivity.
  - apply IH in H. destruct H as [H1 H2]. split; [lia|].
    replace (k - s)%nat with (S (k - S s)) by lia. exact H2.
Qed.

Lemma argsort_length : forall xs, length (argsort xs) = length xs.
Proof.
  intros xs. unfold argsort. rewrite map_length.
  rewrite (Permutation_length (sort_keys_perm _)). rewrite combine_length, seq_length. lia.
Qed.

Lemma argsort_perm : forall xs, Permutation (argsort xs) (seq 0 (length xs)).
Proof.
  intros xs. unfold argsort. rewrite <- (map_snd_combine_seq xs 0) at 2.
  apply Permutation_map. apply sort_keys_perm.
Qed.

Lemma argsort_values xs :
  map (fun k => nth k xs 0) (argsort xs) = map fst (sort_keys (combine xs (seq 0 (length xs)))).
Proof.
  unfold argsort. rewrite map_map. apply map_ext_in. intros [x k] Hin.
  apply (Permutation_in _ (sort_keys_perm _)) in Hin. apply in_combine_seq in Hin.
  cbn [snd fst]. destruct Hin as [_ H]. rewrite Nat.sub_0_r in H. exact H.
Qed.

Lemma sorted_map_fst (l : list (Z * nat)) :
  StronglySorted (fun a b => fst a <= fst b) l -> StronglySorted Z.le (map fst l).
Proof.
  induction 1 as [|a l HS IH HF]; cbn; constructor; auto.
  rewrite Forall_forall in *. intros y Hy. apply in_map_iff in Hy. destruct Hy as [z [Ez Hz]]. subst. auto.
Qed.

Lemma argsort_sorted : forall xs, StronglySorted Z.le (map (fun k => nth k xs 0) (argsort xs)).
Proof. intros xs. rewrite argsort_values. apply sorted_map_fst. apply sort_keys_sorted. Qed.

Lemma argsort_values_perm : forall xs, Permutation (map (fun k => nth k xs 0) (argsort xs)) xs.
Proof.
  intros xs. rewrite argsort_values.
  eapply perm_trans; [apply Permutation_map; apply sort_keys_perm|].
  rewrite map_fst_combine_seq. apply Permutation_refl.
Qed.

Lemma sorted_le_nodup_lt l : StronglySorted Z.le l -> NoDup l -> StronglySorted Z.lt l.
Proof.
  induction 1 as [|a l HS IH HF]; intros ND; constructor.
  - apply IH. inversion ND. assumption.
  - inversion ND as [|x t Hn _]. subst. rewrite Forall_forall in *. intros y Hy.
    specialize (HF y Hy). assert (a <> y) by (intros E; subst; contradiction). lia.
Qed.

Lemma argsort_strict : forall xs, NoDup xs -> StronglySorted Z.lt (map (fun k => nth k xs 0) (argsort xs)).
Proof.
  intros xs ND. apply sorted_le_nodup_lt; [apply argsort_sorted|].
  eapply Permutation_NoDup; [apply Permutation_sym; apply argsort_values_perm | exact ND].
Qed.

(* ---------------------------------------------------------------- argsort of a permutation *)

Lemma sorted_perm_unique : forall l1 l2, StronglySorted Z.le l1 -> StronglySorted Z.le l2 ->
  Permutation l1 l2 -> l1 = l2.
Proof.
  induction l1 as [|a t1 IH]; intros l2 S1 S2 P.
  - apply Permutation_nil in P. subst. reflexivity.
  - destruct l2 as [|b t2]; [apply Permutation_sym, Permutation_nil in P; discriminate|].
    inversion S1 as [|? ? S1' F1]. inversion S2 as [|? ? S2' F2]. subst.
    rewrite Forall_forall in F1, F2.
    assert (a = b).
    { assert (Ha : In a (b :: t2)) by (eapply Permutation_in; [exact P | left; reflexivity]).
      assert (Hb : In b (a :: t1)) by (eapply Permutation_in; [apply Permutation_sym; exact P | left; reflexivity]).
      destruct Ha as [Ha|Ha]; [auto|]. destruct Hb as [Hb|Hb]; [auto|].
      specialize (F1 b Hb). specialize (F2 a Ha). lia. }
    subst b. f_equal. apply IH; auto. eapply Permutation_cons_inv. exact P.
Qed.

Lemma seq_sorted : forall n s, StronglySorted Z.le (map Z.of_nat (seq s n)).
Proof.
  induction n as [|n IH]; intros s; cbn; constructor; auto.
  rewrite Forall_forall. intros y Hy. apply in_map_iff in Hy. destruct Hy as [k [Ek Hk]].
  apply in_seq in Hk. lia.
Qed.

Lemma nth_map_lt {A B} (f : A -> B) l r d d' : (r < length l)%nat -> nth r (map f l) d = f (nth r l d').
Proof. intros H. rewrite (nth_indep _ d (f d')) by (rewrite map_length; exact H). apply map_nth. Qed.

Theorem argsort_inverse : forall xs r, (r < length xs)%nat ->
  let reorder := argsort xs in
  let unreorder := argsort (map Z.of_nat reorder) in
  (nth r unreorder 0%nat < length xs)%nat /\
  nth (nth r unreorder 0%nat) reorder 0%nat = r.
Proof.
  intros xs r Hr reorder unreorder.
  set (n := length xs).
  assert (Lp : length reorder = n) by apply argsort_length.
  assert (Pp : Permutation reorder (seq 0 n)) by apply argsort_perm.
  assert (Lq : length unreorder = n).
  { unfold unreorder. rewrite argsort_length, map_length. exact Lp. }
  assert (Pq : Permutation unreorder (seq 0 n)).
  { unfold unreorder. pose proof (argsort_perm (map Z.of_nat reorder)) as P. rewrite map_length, Lp in P. exact P. }
  assert (Hq : (nth r unreorder 0%nat < n)%nat).
  { assert (In (nth r unreorder 0%nat) (seq 0 n)) as Hin.
    { eapply Permutation_in; [exact Pq|]. apply nth_In. lia. }
    apply in_seq in Hin. lia. }
  split; [exact Hq|].
  assert (V : map (fun k => nth k (map Z.of_nat reorder) 0) unreorder = map Z.of_nat (seq 0 n)).
  { apply sorted_perm_unique.
    - apply argsort_sorted.
    - apply seq_sorted.
    - eapply perm_trans; [apply argsort_values_perm|]. apply Permutation_map. exact Pp. }
  assert (E : nth r (map (fun k => nth k (map Z.of_nat reorder) 0) unreorder) 0 = nth r (map Z.of_nat (seq 0 n)) 0)
    by (rewrite V; reflexivity).
  rewrite (nth_map_lt (fun k => nth k (map Z.of_nat reorder) 0) unreorder r 0 0%nat) in E by lia.
  rewrite (nth_map_lt Z.of_nat reorder _ 0 0%nat) in E by lia.
  rewrite (nth_map_lt Z.of_nat (seq 0 n) r 0 0%nat) in E by (rewrite seq_length; exact Hr).
  rewrite seq_nth in E by exact Hr. lia.
Qed.

Corollary reorder_label : forall xs r, (r < length xs)%nat ->
  let reorder := argsort xs in
  let unreorder := argsort (map Z.of_nat reorder) in
  nth (nth r unreorder 0%nat) (map (fun k => nth k xs 0) reorder) 0 = nth r xs 0.
Proof.
  intros xs r Hr reorder unreorder.
  destruct (argsort_inverse xs r Hr) as [_ H]. fold reorder in H. fold unreorder in H.
  destruct (argsort_inverse xs r Hr) as [Hq' _]. fold reorder in Hq'. fold unreorder in Hq'.
  rewrite (nth_map_lt (fun k => nth k xs 0) reorder _ 0 0%nat).
  - rewrite H. reflexivity.
  - unfold reorder. rewrite argsort_length. exact Hq'.
Qed.

Example argsort_ex : argsort [5; 2; 9; 0] = [3; 1; 0; 2]%nat /\ argsort (map Z.of_nat [3; 1; 0; 2]%nat) = [2; 1; 3; 0]%nat.
Proof. vm_compute. split; reflexivity. Qed.
