(* C06 — the inverted-table trick and the dispatch of table_lookup as a whole. *)
From Coq Require Import ZArith List Bool Lia ZifyBool.
From Centro Require Import Base.Sx Base.LutBits Spec.LutRule Model.Lut Proofs.LutPlain Proofs.LutLoop Proofs.LutSparse.
Import ListNotations.
Open Scope Z_scope.

Lemma tbl_inv T k : 0 <= k < 512 -> tbl (inv_table T) k = negb (tbl T (511 - k)).
Proof.
  intros Hk. unfold tbl at 1. unfold inv_table, idx512, zrange. rewrite map_map.
  rewrite (nth_seq_map (fun x => negb (tbl T (511 - (0 + Z.of_nat x))))) by lia.
  replace (0 + Z.of_nat (Z.to_nat k)) with k by lia. reflexivity.
Qed.

Lemma enc_neg (l : list bool) : length l = 9%nat -> enc (map negb l) = 511 - enc l.
Proof.
  intros L9. do 10 (destruct l as [|? l]; try discriminate L9).
  repeat match goal with x : bool |- _ => destruct x end; reflexivity.
Qed.

Lemma center_flip_all :
  forallb (fun k => implb (Z.land k 16 =? 0) (negb (Z.land (511 - k) 16 =? 0)) &&
                    implb (negb (Z.land k 16 =? 0)) (Z.land (511 - k) 16 =? 0)) (zrange 0 512) = true.
Proof. vm_compute. reflexivity. Qed.

Lemma center_flip k : 0 <= k < 512 -> (Z.land k 16 = 0 <-> Z.land (511 - k) 16 <> 0).
Proof.
  intros Hk. pose proof center_flip_all as A. rewrite forallb_forall in A.
  specialize (A k (proj2 (in_zrange 512 k) Hk)). apply andb_true_iff in A. destruct A as [A1 A2].
  destruct (Z.land k 16 =? 0) eqn:E1; destruct (Z.land (511 - k) 16 =? 0) eqn:E2; cbn in A1, A2; try discriminate; lia.
Qed.

Lemma inv_erosive T : extensive T -> erosive (inv_table T).
Proof.
  intros E k Hk C. rewrite tbl_inv by exact Hk. rewrite E; [reflexivity|lia|]. apply center_flip; assumption.
Qed.

Lemma erosive_tb_sound T : erosive_tb T = true -> erosive T.
Proof.
  unfold erosive_tb. intros E k Hk C. apply negb_true_iff in E.
  destruct (tbl T k) eqn:TT; [|reflexivity]. exfalso.
  assert (EX : existsb (fun k => center_is_zero k && tbl T k) idx512 = true).
  { apply existsb_exists. exists k. split; [apply in_zrange; lia|]. unfold center_is_zero. rewrite TT. lia. }
  rewrite EX in E. discriminate.
Qed.

Lemma extensive_tb_sound T : extensive_tb T = true -> extensive T.
Proof.
  unfold extensive_tb. intros E k Hk C. rewrite forallb_forall in E.
  specialize (E k (proj2 (in_zrange 512 k) Hk)). unfold center_is_zero in E.
  destruct (Z.land k 16 =? 0) eqn:Z0; [lia|]. exact E.
Qed.

(* ------------------------------------------------------------ complemented images *)
Lemma gnot_len X : length (gnot X) = length X. Proof. unfold gnot. apply map_length. Qed.
Lemma gnot_lenW X : length (hd [] (gnot X)) = length (hd [] X).
Proof. unfold gnot. destruct X as [|r X]; [reflexivity|]. cbn [map hd]. apply map_length. Qed.

Lemma rect_gnot X : rect X -> rect (gnot X).
Proof.
  unfold rect. rewrite gnot_len, gnot_lenW. intros [L F]. split; [rewrite gnot_len; exact L|].
  unfold gnot. apply Forall_forall. intros r Hr. apply in_map_iff in Hr. destruct Hr as [r0 [<- Hr0]].
  rewrite map_length. rewrite Forall_forall in F. apply F, Hr0.
Qed.

Lemma rd_gnot X p q : rect X -> 0 <= p < gH X -> 0 <= q < gW X -> rd false (gnot X) p q = negb (rd false X p q).
Proof.
  intros [L F] Hp Hq. unfold rd, gnot, gH, gW in *.
  destruct ((p <? 0) || (q <? 0)) eqn:B; [lia|].
  change (@nil bool) with (map negb []) at 1. rewrite map_nth.
  assert (LR : length (nth (Z.to_nat p) X []) = length (hd [] X)).
  { rewrite Forall_forall in F. apply F. apply nth_In. lia. }
  rewrite (nth_indep _ false (negb false)) by (rewrite map_length; lia).
  rewrite map_nth. reflexivity.
Qed.

Lemma gnot_invol X : gnot (gnot X) = X.
Proof.
  unfold gnot. rewrite map_map. rewrite <- (map_id X) at 2. apply map_ext. intros r.
  rewrite map_map. rewrite <- (map_id r) at 2. apply map_ext. intros x. apply negb_involutive.
Qed.

Lemma px_gnot b X p q : rect X -> px (negb b) (gnot X) p q = negb (px b X p q).
Proof.
  intros RX. unfold px. unfold gH, gW. rewrite gnot_len, gnot_lenW. fold (gH X) (gW X).
  destruct (inr (gH X) (gW X) p q) eqn:R; [|reflexivity]. unfold inr in R. apply rd_gnot; [exact RX|lia|lia].
Qed.

Lemma nbits_gnot b X p q : rect X -> nbits (negb b) (gnot X) p q = map negb (nbits b X p q).
Proof. intros RX. unfold nbits. cbn [map]. rewrite !(px_gnot b X) by exact RX. reflexivity. Qed.

(* the inverted-table trick: one step on the complement with the reversed, negated table and the
   negated border value is the complement of one step *)
Theorem inverted_step T b X :
  (0 < length X)%nat -> rect X -> lut_step (inv_table T) (negb b) (gnot X) = gnot (lut_step T b X).
Proof.
  intros LX RX.
  apply same_pixels.
  - apply rect_gnot, rect_step.
  - apply rect_step.
  - rewrite len_step, gnot_len, gnot_len, len_step. reflexivity.
  - rewrite lenW_step by (rewrite gnot_len; exact LX). rewrite !gnot_lenW. rewrite lenW_step by exact LX. reflexivity.
  - intros p q Hp Hq. unfold gH, gW in Hp, Hq. rewrite gnot_len, len_step in Hp.
    rewrite gnot_lenW, (lenW_step T b X LX) in Hq.
    rewrite rd_step by (unfold gH, gW; rewrite ?gnot_len, ?gnot_lenW; lia).
    rewrite rd_gnot; [|apply rect_step|unfold gH; rewrite len_step; lia|unfold gW; rewrite lenW_step by exact LX; lia].
    rewrite rd_step by (unfold gH, gW; lia).
    rewrite nbits_gnot by exact RX.
    assert (L9 : length (nbits b X p q) = 9%nat) by reflexivity.
    rewrite enc_neg by exact L9. pose proof (enc_bounds _ L9) as Bd.
    rewrite tbl_inv by lia. replace (511 - (511 - enc (nbits b X p q))) with (enc (nbits b X p q)) by lia. reflexivity.
Qed.

Theorem inverted_iter n T b : forall X,
  (0 < length X)%nat -> rect X -> lut_iter n (inv_table T) (negb b) (gnot X) = gnot (lut_iter n T b X).
Proof.
  induction n as [|n IH]; intros X LX RX; [reflexivity|].
  rewrite !lut_iter_S. rewrite inverted_step by assumption. apply IH; [rewrite len_step; exact LX|apply rect_step].
Qed.

Lemma iter_shape0 n T b : forall X, (0 < length X)%nat ->
  length (lut_iter n T b X) = length X /\ (rect X -> rect (lut_iter n T b X)).
Proof.
  induction n as [|n IH]; intros X LX; [split; [reflexivity|intros R; exact R]|].
  rewrite lut_iter_S.
  assert (LY : (0 < length (lut_step T b X))%nat) by (rewrite len_step; exact LX).
  destruct (IH _ LY) as [E1 E3]. rewrite len_step in E1. split; [exact E1|intros _; apply E3, rect_step].
Qed.

(* ------------------------------------------------------------ the dispatch *)
Lemma sparse_len T b it X : length (sparse T b it X) = length X /\ length (hd [] (sparse T b it X)) = length (hd [] X).
Proof.
  unfold sparse, extract, tab. split; [rewrite map_length, seq_length; reflexivity|].
  destruct X as [|r X]; [reflexivity|]. cbn [length seq map hd]. rewrite map_length, seq_length. reflexivity.
Qed.

(* Full: for every table, dtype class, image, border value and iteration count k the dispatched
   computation is k synchronous applications of the neighbourhood rule *)
Theorem table_lookup_correct dt X T b k :
  (0 < length X)%nat -> rect X -> table_lookup dt X T b (Some k) = Some (lut_iter k T b X).
Proof.
  intros LX RX. unfold table_lookup.
  destruct (erosive_tb T && ((dt =? 0) || (dt =? 1))) eqn:D1.
  - apply andb_true_iff in D1. destruct D1 as [E _]. apply erosive_tb_sound in E.
    rewrite (sparse_k_correct T b E k X LX RX). reflexivity.
  - destruct (extensive_tb T && (dt =? 0)) eqn:D2.
    + apply andb_true_iff in D2. destruct D2 as [E _]. apply extensive_tb_sound, inv_erosive in E.
      assert (LG : (0 < length (gnot X))%nat) by (rewrite gnot_len; exact LX).
      rewrite (sparse_k_correct _ _ E k (gnot X) LG (rect_gnot X RX)).
      rewrite inverted_iter by assumption. rewrite gnot_invol. reflexivity.
    + rewrite plain_k_correct. reflexivity.
Qed.

(* Full: with iterations=None whatever is returned is a fixed point of the rule reached from the
   input by iterating it (the sparse paths always return; the plain loop returns iff the orbit
   reaches a fixed point within the fuel) *)
Theorem table_lookup_none_correct dt X T b Y :
  (0 < length X)%nat -> rect X -> table_lookup dt X T b None = Some Y ->
  lut_step T b Y = Y /\ exists n, Y = lut_iter n T b X.
Proof.
  intros LX RX. unfold table_lookup.
  destruct (erosive_tb T && ((dt =? 0) || (dt =? 1))) eqn:D1.
  - apply andb_true_iff in D1. destruct D1 as [E _]. apply erosive_tb_sound in E.
    intros EY. injection EY as <-.
    destruct (sparse_none_correct T b E X LX RX) as [E1 E2]. rewrite E1. split; [exact E2|eexists; reflexivity].
  - destruct (extensive_tb T && (dt =? 0)) eqn:D2.
    + apply andb_true_iff in D2. destruct D2 as [E _]. apply extensive_tb_sound, inv_erosive in E.
      intros EY. injection EY as <-.
      assert (LG : (0 < length (gnot X))%nat) by (rewrite gnot_len; exact LX).
      destruct (sparse_none_correct _ (negb b) E (gnot X) LG (rect_gnot X RX)) as [E1 E2].
      set (n := length (argwhere1 (gnot X))) in *.
      rewrite E1. rewrite inverted_iter in * by assumption. rewrite gnot_invol.
      split; [|eexists; reflexivity].
      destruct (iter_shape0 n T b X LX) as [S1 S3].
      assert (LI : (0 < length (lut_iter n T b X))%nat) by (rewrite S1; exact LX).
      rewrite (inverted_step T b _ LI (S3 RX)) in E2.
      rewrite <- (gnot_invol (lut_step T b (lut_iter n T b X))), E2. apply gnot_invol.
    + intros EY. rewrite plain_none_correct in EY. destruct (lut_fix_spec _ _ _ _ _ EY) as [n [_ [EY' [FY _]]]].
      split; [exact FY|exists n; exact EY'].
Qed.

(* ------------------------------------------------------------ termination for monotone tables *)
(* an erosive table reaches a fixed point after at most as many steps as there are set pixels *)
Lemma erosive_fixed_point T b X :
  erosive T -> (0 < length X)%nat -> rect X ->
  let n := length (argwhere1 X) in lut_step T b (lut_iter n T b X) = lut_iter n T b X.
Proof. intros E LX RX n. apply (enough_passes T b E n X _ LX RX (Inv_init b X)). cbn [fst]. unfold n. lia. Qed.

(* an extensive table after at most as many steps as there are clear pixels *)
Lemma extensive_fixed_point T b X :
  extensive T -> (0 < length X)%nat -> rect X ->
  let n := length (argwhere1 (gnot X)) in lut_step T b (lut_iter n T b X) = lut_iter n T b X.
Proof.
  intros E LX RX n.
  assert (LG : (0 < length (gnot X))%nat) by (rewrite gnot_len; exact LX).
  pose proof (erosive_fixed_point (inv_table T) (negb b) (gnot X) (inv_erosive T E) LG (rect_gnot X RX)) as F.
  cbv zeta in F. fold n in F. rewrite inverted_iter in F by assumption.
  destruct (iter_shape0 n T b X LX) as [S1 S3].
  assert (LI : (0 < length (lut_iter n T b X))%nat) by (rewrite S1; exact LX).
  rewrite (inverted_step T b _ LI (S3 RX)) in F.
  rewrite <- (gnot_invol (lut_step T b (lut_iter n T b X))), F. apply gnot_invol.
Qed.

(* Full: "until nothing changes" terminates for erosive and for extensive tables: the fixed-point
   search of the rule (= the plain loop with iterations=None, plain_none_correct) returns as soon
   as the fuel exceeds the number of set (resp. clear) pixels *)
Theorem monotone_terminates T b X fuel :
  (0 < length X)%nat -> rect X ->
  (erosive T /\ (length (argwhere1 X) < fuel)%nat) \/ (extensive T /\ (length (argwhere1 (gnot X)) < fuel)%nat) ->
  exists Y, lut_fix fuel T b X = Some Y.
Proof.
  intros LX RX [[E Hn]|[E Hn]].
  - apply (lut_fix_complete fuel T b X _ Hn). apply erosive_fixed_point; assumption.
  - apply (lut_fix_complete fuel T b X _ Hn). apply extensive_fixed_point; assumption.
Qed.

(* hence table_lookup(..., iterations=None) returns, and returns a fixed point of the rule reached by
   iterating it, for every erosive or extensive table on every path (no "if it returns" premise) *)
Theorem table_lookup_monotone_total dt X T b :
  (0 < length X)%nat -> rect X ->
  (erosive T /\ (length (argwhere1 X) < FUEL)%nat) \/ (extensive T /\ (length (argwhere1 (gnot X)) < FUEL)%nat) ->
  exists Y, table_lookup dt X T b None = Some Y /\ lut_step T b Y = Y /\ exists n, Y = lut_iter n T b X.
Proof.
  intros LX RX Hmono.
  assert (EX : exists Y, table_lookup dt X T b None = Some Y).
  { unfold table_lookup.
    destruct (erosive_tb T && ((dt =? 0) || (dt =? 1))); [eexists; reflexivity|].
    destruct (extensive_tb T && (dt =? 0)); [eexists; reflexivity|].
    rewrite plain_none_correct. apply monotone_terminates; assumption. }
  destruct EX as [Y EY]. exists Y. split; [exact EY|]. apply (table_lookup_none_correct dt X T b Y LX RX EY).
Qed.
