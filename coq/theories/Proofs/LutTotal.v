(* C06 — consequences of monotone termination for the wrapper operations: with iterations=None
   every wrapper whose table is erosive or extensive returns, and returns the restored fixed point
   of its documented rule. *)
From Coq Require Import ZArith List Bool Lia ZifyBool.
From Centro Require Import Base.Sx Base.LutBits Spec.LutRule Spec.LutDocs Model.Lut Model.LutOps Gen.TablesC06
     Proofs.LutTables Proofs.LutLoop Proofs.LutSparse Proofs.LutDispatch Proofs.LutWrappers Proofs.LutCount Proofs.LutPixels.
Import ListNotations.
Open Scope Z_scope.

(* which documented tables never set / never clear a pixel (in the order of doc_ops) *)
Theorem wrapper_table_classes :
  map (fun d => (erosive_tb (doc_table (fst d)), extensive_tb (doc_table (fst d)))) doc_ops =
  [ (true, false)   (* branchpoints *); (false, true)  (* bridge *);   (true, false)  (* clean *);
    (false, true)   (* diag *);         (true, false)  (* endpoints *); (false, true)  (* fill *);
    (false, true)   (* fill4 *);        (true, false)  (* hbreak *);    (true, false)  (* vbreak *);
    (false, false)  (* life *);         (false, false) (* majority *);  (true, false)  (* remove *);
    (false, true)   (* thicken *) ].
Proof. vm_compute. reflexivity. Qed.

Definition eff_mask (f : option bool) (M : option (grid bool)) : option (grid bool) :=
  match f with None => None | Some _ => M end.
Definition eff_fill (f : option bool) : bool := match f with Some v => v | None => false end.

Lemma masked_rect X M v : (0 < length X)%nat -> rect X ->
  (0 < length (masked_of X M v))%nat /\ rect (masked_of X M v).
Proof.
  intros LX RX. destruct M as [m|]; [apply masked_shape; exact LX|]. cbn [masked_of]. split; assumption.
Qed.

(* Full: a wrapper called with iterations=None (or one that always runs until nothing changes:
   hbreak, vbreak, remove) whose documented table is erosive or extensive returns, and its result is
   the input outside the mask and, inside, a fixed point of the documented rule reached by iterating
   it on the masked image.  (FUEL = 600 bounds the number of set resp. clear pixels only on the plain
   path of the model; the sparse paths need no bound.) *)
Theorem wrapper_until_unchanged_total code P b f mode dt X M :
  nth_error doc_ops (Z.to_nat code) = Some (P, (b, f, mode)) -> 0 <= code < 13 ->
  mode = -2 \/ mode = -1 ->
  (0 < length X)%nat -> rect X ->
  let M' := eff_mask f M in
  let Xm := spec_masked X M' (eff_fill f) in
  (erosive (doc_table P) /\ (set_pixels Xm < FUEL)%nat) \/ (extensive (doc_table P) /\ (clear_pixels Xm < FUEL)%nat) ->
  exists Y, run_op code dt X M None = Some (spec_restore X M' Y) /\
            op_rule P b Y = Y /\ exists n, Y = iter n (op_rule P b) Xm.
Proof.
  intros E Hc Hm LX RX M' Xm Hmono. unfold run_op, SPUR.
  destruct (code =? 13) eqn:C13; [lia|].
  rewrite (gen_ops_nth _ _ _ E). unfold run_table_op, meta_code.
  assert (EB : negb (Z.b2z b =? 0) = b) by (destruct b; reflexivity). rewrite EB.
  assert (IT : (if mode =? -2 then @None nat else if mode <? 0 then None else Some (Z.to_nat mode)) = None).
  { destruct Hm as [->| ->]; reflexivity. }
  rewrite IT. clear IT.
  set (fz := match f with None => -1 | Some v => Z.b2z v end).
  assert (EM : (if fz <? 0 then None else M) = M' /\ negb (fz =? 0) = eff_fill f \/
               (if fz <? 0 then None else M) = M' /\ M' = None).
  { unfold fz, M', eff_mask, eff_fill. destruct f as [[|]|]; [left|left|right]; split; reflexivity. }
  assert (EX : masked_of X (if fz <? 0 then None else M) (negb (fz =? 0)) = Xm).
  { unfold Xm. destruct EM as [[-> ->]|[-> N]]; [reflexivity|]. rewrite N. reflexivity. }
  assert (EMk : (if fz <? 0 then None else M) = M') by (destruct EM as [[A _]|[A _]]; exact A).
  rewrite EX, EMk.
  destruct (masked_rect X M' (eff_fill f) LX RX) as [LM RM]. fold Xm in LM, RM.
  set (dt' := match M' with None => dt | Some _ => 0 end).
  destruct (table_lookup_monotone_total_pixels dt' Xm (doc_table P) b LM RM Hmono) as [Y [EY [FY [n EN]]]].
  exists Y. rewrite EY. split; [reflexivity|]. split.
  - rewrite <- doc_step. exact FY.
  - exists n. rewrite <- doc_iter. exact EN.
Qed.

(* spur: with a mask the result is the input outside the mask (and C06_spur_meets_spec inside) *)
Theorem spur_mask_restores dt X m iters :
  (0 < length X)%nat -> rect X ->
  exists R, run_op 13 dt X (Some m) iters = Some (spec_restore X (Some m) R).
Proof.
  intros LX RX. rewrite (spur_meets_spec dt X (Some m) iters LX RX). unfold op_spec. cbn [Z.eqb Pos.eqb].
  eexists. reflexivity.
Qed.

Example wrapper_total_ex :
  erosive (doc_table doc_clean) /\ extensive (doc_table doc_thicken) /\
  nth_error doc_ops (Z.to_nat 2) = Some (doc_clean, (false, Some false, -2)) /\
  nth_error doc_ops (Z.to_nat 11) = Some (doc_remove, (false, Some false, -1)).
Proof.
  split; [apply erosive_tb_sound; vm_compute; reflexivity|].
  split; [apply extensive_tb_sound; vm_compute; reflexivity|]. split; reflexivity.
Qed.
