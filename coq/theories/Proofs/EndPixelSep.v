(* C05 - the separation lemma for the last raster pixel (see Proofs/EndPixelParity.v). *)
From Coq Require Import ZArith List Bool Lia ZifyBool.
From Centro Require Import Base.Topo Base.TopoPar Proofs.EndPixelParity.
Import ListNotations.
Open Scope Z_scope.

Definition pN (p : px) : px := (fst p - 1, snd p).
Definition pNE (p : px) : px := (fst p - 1, snd p + 1).
Definition pNW (p : px) : px := (fst p - 1, snd p - 1).
Definition pW (p : px) : px := (fst p, snd p - 1).
Definition pS (p : px) : px := (fst p + 1, snd p).

Theorem sep_not_connected (X : img) (p u : px) :
  X p = true -> (forall q, X q = true -> ~ ltr p q) ->
  X (pN p) = false -> X (pNE p) = true -> (u = pW p \/ u = pNW p) -> X u = true ->
  path adj4 (bg X) (pN p) (pS p) ->
  path adj8 (fun q => fg X q /\ q <> p) u (pNE p) -> False.
Proof.
  intros Xp Last XN XNE Hu Xu BG P.
  destruct (path_chain _ _ _ P) as [lp [Cp Lp]].
  destruct p as [r c]. unfold pN, pNE, pNW, pW, pS in *. cbn [fst snd] in *.
  set (ok := fun q : px => fg X q /\ q <> (r, c)) in *.
  set (b := (r - 1, c + 1)) in *. set (z := (r - 1, c)) in *. set (o := (r + 1, c)) in *.
  set (l := (u :: lp) ++ [(r, c)]).
  assert (Cl : chain (fun q => X q = true) (r, c) l).
  { unfold l. change ((u :: lp) ++ [(r, c)]) with (u :: (lp ++ [(r, c)])). cbn [chain]. split; [exact Xp|]. split.
    - destruct Hu as [-> | ->]; unfold adj8; cbn [fst snd]; (split; [intros E; inversion E; lia|lia]).
    - apply chain_app; [apply (chain_mono ok); [intros q [Hq _]; exact Hq|exact Cp]| |exact Xp].
      rewrite Lp. unfold b, adj8; cbn [fst snd]. split; [intros E; inversion E; lia|lia]. }
  assert (Closed : last l (r, c) = (r, c)) by (unfold l; apply last_snoc).
  pose proof (cpar_path X (r, c) l Cl Closed z o BG) as E.
  assert (Ez : cpar (r, c) l z = true).
  { unfold cpar, l. rewrite par_app, last_cons, Lp. cbn [par].
    assert (F1 : crossU z (r, c) u = false).
    { destruct Hu as [-> | ->]; unfold crossU, inR, z; cbn [fst snd].
      - assert (H1 : (r =? r - 1) = false) by (apply Z.eqb_neq; lia). assert (H2 : (c <? c - 1) = false) by (apply Z.ltb_ge; lia).
        rewrite H1, H2. rewrite !andb_false_r. reflexivity.
      - assert (H1 : (r =? r - 1) = false) by (apply Z.eqb_neq; lia). assert (H2 : (c <? c - 1) = false) by (apply Z.ltb_ge; lia).
        rewrite H1, H2. rewrite !andb_false_r. reflexivity. }
    assert (F2 : par (crossU z) u lp = false).
    { apply (par_false ok); [exact Cp|]. intros [ai aj] [bi bj] [Ha Na] [Hb Nb] A. apply adj8_coords in A.
      pose proof (Last _ Ha) as La. pose proof (Last _ Hb) as Lb. unfold ltr in La, Lb. cbn [fst snd] in *.
      assert (Na' : ai <> r \/ aj <> c) by (destruct (Z.eq_dec ai r), (Z.eq_dec aj c); subst; auto; congruence).
      assert (Nb' : bi <> r \/ bj <> c) by (destruct (Z.eq_dec bi r), (Z.eq_dec bj c); subst; auto; congruence).
      unfold crossU, inR, z; cbn [fst snd].
      assert (H1 : (ai =? r - 1) && (c <? aj) && (bi =? r - 1 + 1) = false).
      { destruct (Z.eqb_spec ai (r - 1)); [|reflexivity]. destruct (Z.ltb_spec c aj); [|reflexivity].
        destruct (Z.eqb_spec bi (r - 1 + 1)); [|reflexivity]. exfalso. lia. }
      assert (H2 : (bi =? r - 1) && (c <? bj) && (ai =? r - 1 + 1) = false).
      { destruct (Z.eqb_spec bi (r - 1)); [|reflexivity]. destruct (Z.ltb_spec c bj); [|reflexivity].
        destruct (Z.eqb_spec ai (r - 1 + 1)); [|reflexivity]. exfalso. lia. }
      rewrite H1, H2. reflexivity. }
    assert (F3 : crossU z b (r, c) = true).
    { unfold crossU, inR, z, b; cbn [fst snd]. apply orb_true_iff. left.
      rewrite !andb_true_iff, !Z.eqb_eq, Z.ltb_lt. lia. }
    rewrite F1, F2, F3. reflexivity. }
  assert (Eo : cpar (r, c) l o = false).
  { unfold cpar. apply (par_false (fun q => X q = true)); [exact Cl|]. intros [ai aj] [bi bj] Ha Hb A.
    pose proof (Last _ Ha) as La. pose proof (Last _ Hb) as Lb. unfold ltr in La, Lb. cbn [fst snd] in *.
    unfold crossU, inR, o; cbn [fst snd].
    assert (H1 : (ai =? r + 1) = false) by (apply Z.eqb_neq; lia).
    assert (H2 : (bi =? r + 1) = false) by (apply Z.eqb_neq; lia).
    rewrite H1, H2. reflexivity. }
  congruence.
Qed.
