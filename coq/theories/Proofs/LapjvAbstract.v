(* C01 — the invariant the Jonker-Volgenant phases must keep, stated in v only (ported from
   design/prototypes/JvAbstract.v), and the link from the model's reduction-transfer scan to the
   hypothesis "mu bounds the row's OWN other candidates" — the fact the as-is code (finding F1)
   does not establish because it scans another row's column list. *)
From Coq Require Import ZArith List Bool Lia.
From Centro Require Import Base.Sx Model.Lapjv Spec.Lapjv.
Import ListNotations.
Open Scope Z_scope.

Section JV.
Variable costf : nat -> nat -> option Z.                 (* None = pair not listed *)
Definition red (v : nat -> Z) (j : nat) (c : Z) : Z := c - v j.
Definition slack_row (v : nat -> Z) (x : nat -> option nat) (i : nat) : Prop :=
  forall j, x i = Some j -> exists c, costf i j = Some c /\
    forall j' c', costf i j' = Some c' -> red v j c <= red v j' c'.
Definition SlackV (v : nat -> Z) (x : nat -> option nat) : Prop := forall i, slack_row v x i.
Definition injective (x : nat -> option nat) : Prop := forall i i' j, x i = Some j -> x i' = Some j -> i = i'.
Definition updv (v : nat -> Z) (j : nat) (d : Z) : nat -> Z := fun k => if Nat.eqb k j then v k - d else v k.

Lemma lower_other v x i j1 d : 0 <= d -> slack_row v x i -> x i <> Some j1 -> slack_row (updv v j1 d) x i.
Proof.
  intros Hd S N j Hj. destruct (S j Hj) as [c [Hc Hmin]]. exists c; split; auto.
  intros j' c' Hc'. specialize (Hmin j' c' Hc'). unfold red, updv in *.
  assert (j <> j1) by congruence. destruct (Nat.eqb_spec j j1); [congruence|].
  destruct (Nat.eqb_spec j' j1); lia.
Qed.

Theorem reduction_transfer_fixed v x i j1 c1 mu :
  injective x -> SlackV v x -> x i = Some j1 -> costf i j1 = Some c1 ->
  (forall j' c', costf i j' = Some c' -> j' <> j1 -> mu <= red v j' c') ->
  red v j1 c1 <= mu ->
  SlackV (updv v j1 (mu - red v j1 c1)) x.
Proof.
  intros Inj S Hx Hc1 Hmu Hle i'. destruct (Nat.eq_dec i' i) as [->|Ni].
  - intros j Hj. rewrite Hx in Hj. inversion Hj; subst j. exists c1; split; auto.
    intros j' c' Hc'. unfold red, updv. rewrite Nat.eqb_refl.
    destruct (Nat.eqb_spec j' j1) as [->|Nj].
    + rewrite Hc1 in Hc'. inversion Hc'; subst. lia.
    + specialize (Hmu j' c' Hc' Nj). unfold red in *. lia.
  - apply lower_other; [unfold red in *; lia|apply S|]. intros E. apply Ni. eapply Inj; eauto.
Qed.

Theorem arr_step_strict v x i j1 c1 u2 :
  SlackV v x -> x i = None -> costf i j1 = Some c1 ->
  (forall j' c', costf i j' = Some c' -> j' <> j1 -> u2 <= red v j' c') ->
  red v j1 c1 <= u2 ->
  forall x', (forall k, k <> i -> (x' k = x k /\ x k <> Some j1) \/ (x k = Some j1 /\ x' k = None)) -> x' i = Some j1 ->
  SlackV (updv v j1 (u2 - red v j1 c1)) x'.
Proof.
  intros S Hfree Hc1 Hu2 Hle x' Hx' Hi i'. destruct (Nat.eq_dec i' i) as [->|Ni].
  - intros j Hj. rewrite Hi in Hj. inversion Hj; subst j. exists c1; split; auto.
    intros j' c' Hc'. unfold red, updv. rewrite Nat.eqb_refl.
    destruct (Nat.eqb_spec j' j1) as [->|Nj].
    + rewrite Hc1 in Hc'. inversion Hc'; subst. lia.
    + specialize (Hu2 j' c' Hc' Nj). unfold red in *. lia.
  - destruct (Hx' i' Ni) as [[E N]|[E1 E2]].
    + intros j Hj. rewrite E in Hj.
      assert (SR : slack_row (updv v j1 (u2 - red v j1 c1)) x i').
      { apply lower_other; [unfold red in *; lia|apply S|exact N]. }
      apply SR; auto.
    + intros j Hj. rewrite E2 in Hj. discriminate.
Qed.
End JV.

(* ---------------------------------------------------------------- the model's scan (:89-95) *)

(* on finite data the scan returns a lower bound of every scanned candidate other than j1 *)
Definition fin_le (m : ext) (z : Z) : Prop := match m with Fin a => a <= z | PInf => False | _ => True end.
Definition mu_le (m m' : ext) : Prop :=      (* m' <= m for results of the scan: Fin or PInf *)
  match m', m with Fin a, Fin b => a <= b | Fin _, PInf => True | PInf, PInf => True | _, _ => False end.

Lemma rt_scan_lower j1 (vz : nat -> Z) v : (forall j, gete v j = Fin (vz j)) ->
  forall js cz mu at_ mu' at',
  (mu = PInf \/ exists m, mu = Fin m) ->
  rt_scan j1 v js (map Fin cz) mu at_ = (mu', at') ->
  mu_le mu mu' /\
  forall jt c, In (jt, c) (combine js cz) -> jt <> j1 -> exists m, mu' = Fin m /\ m <= c - vz jt.
Proof.
  intros Hv. induction js as [|jt jr IH]; intros cz mu at_ mu' at' Hmu H.
  - cbn [rt_scan] in H. inversion H; subst. split; [|intros ? ? []].
    destruct Hmu as [->|[m ->]]; cbn; auto; lia.
  - destruct cz as [|c cr]; cbn [map rt_scan] in H.
    + inversion H; subst. split; [|intros ? ? []]. destruct Hmu as [->|[m ->]]; cbn; auto; lia.
    + destruct (Nat.eqb_spec jt j1) as [E|NE].
      * destruct (IH _ _ _ _ _ Hmu H) as [A B]. split; auto.
        intros jt' c' [Hin|Hin] Hne; [inversion Hin; subst; congruence|eauto].
      * rewrite Hv in H. cbn [esub eneg eadd] in H.
        destruct (eltb (Fin (c + - vz jt)) mu) eqn:Lt.
        -- assert (Hmu2 : Fin (c + - vz jt) = PInf \/ exists m, Fin (c + - vz jt) = Fin m) by (right; eauto).
           destruct (IH _ _ _ _ _ Hmu2 H) as [A B]. split.
           ++ destruct mu' as [a| | |]; cbn in A; try contradiction.
              destruct Hmu as [->|[m ->]]; cbn; auto. cbn [eltb] in Lt. lia.
           ++ intros jt' c' [Hin|Hin] Hne; [|eauto]. inversion Hin; subst.
              destruct mu' as [a| | |]; cbn in A; try contradiction. exists a; split; auto; try lia.
        -- destruct (IH _ _ _ _ _ Hmu H) as [A B]. split; auto.
           intros jt' c' [Hin|Hin] Hne; [|eauto]. inversion Hin; subst.
           destruct Hmu as [->|[m ->]]; [cbn [eltb] in Lt; discriminate|].
           cbn [eltb] in Lt. destruct mu' as [a| | |]; cbn in A; try contradiction.
           exists a; split; auto; try lia.
Qed.

(* Fixed variant, one row: the scan over the row's OWN (j, c) pairs bounds every other candidate of
   that row — the premise [Hmu] of [reduction_transfer_fixed]. *)
Theorem rt_scan_fixed_bounds j1 (vz : nat -> Z) v (row : list (nat * Z)) mu' at' :
  (forall j, gete v j = Fin (vz j)) ->
  rt_scan j1 v (map fst row) (map Fin (map snd row)) PInf None = (mu', at') ->
  forall jt c, In (jt, c) row -> jt <> j1 -> exists m, mu' = Fin m /\ m <= c - vz jt.
Proof.
  intros Hv H jt c Hin Hne.
  destruct (rt_scan_lower j1 vz v Hv _ _ _ _ _ _ (or_introl eq_refl) H) as [_ B].
  apply (B jt c); auto.
  clear - Hin. induction row as [|[a b] r IH]; [destruct Hin|].
  cbn [map combine fst snd]. destruct Hin as [E|Hin]; [left; auto|right; auto].
Qed.

Example rt_scan_example :
  rt_scan 0%nat [Fin 2; Fin 4; Fin 1] [0; 2]%nat [Fin 2; Fin 5] PInf None = (Fin 4, Some 2%nat).
Proof. vm_compute. reflexivity. Qed.
