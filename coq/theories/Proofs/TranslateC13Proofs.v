(* C13 — euler_number (two-run theorems and translation) and translation invariance of the
   pattern-table measurements (perimeters, skeleton length) under zero padding. *)
From Coq Require Import ZArith List Bool Lia ZifyBool.
From Centro Require Import Base.VecC13 Proofs.VecC13Proofs Gen.TablesC13 Model.MeasureC13
  Proofs.MeasureC13Proofs Proofs.PadC13Proofs.
Import ListNotations.
Open Scope Z_scope.

Definition zfold (l : list Z) : Z := fold_left Z.add l 0.

Lemma own_coords_in im l c : In c (own_coords im l) -> get im (fst c) (snd c) = Some l.
Proof.
  intros H. rewrite own_coords_own in H. apply in_map_iff in H. destruct H as [p [<- Hp]].
  apply own_label in Hp. destruct Hp as [Hv Hin]. destruct p as [[y x] v]. unfold p_v in Hv. cbn [fst snd] in *.
  subst v. apply pixels_get. exact Hin.
Qed.

Lemma own_coords_g im l c : In c (own_coords im l) -> g im (fst c) (snd c) = l.
Proof. intros H. unfold g. rewrite (own_coords_in im l c H). reflexivity. Qed.

Definition rect (im : img) : Prop := forall row, In row im -> length row = width im.

Lemma own_coords_bounds im l c : rect im -> In c (own_coords im l) ->
  0 <= fst c < Z.of_nat (length im) /\ 0 <= snd c < Z.of_nat (width im).
Proof.
  intros Hr H. apply own_coords_in in H. unfold get in H.
  destruct ((fst c <? 0) || (snd c <? 0)) eqn:E; [discriminate|].
  destruct (nth_error im (Z.to_nat (fst c))) as [row|] eqn:En; [|discriminate].
  assert (Hl : (Z.to_nat (fst c) < length im)%nat) by (apply nth_error_Some; congruence).
  assert (Hx : (Z.to_nat (snd c) < length row)%nat) by (apply nth_error_Some; congruence).
  rewrite (Hr row (nth_error_In _ _ En)) in Hx. lia.
Qed.

(* ------------------------------------------------------------------ euler_number *)

Definition euler_part (qk : (Z -> Z -> Z) -> bool -> Z) (im : img) (l : Z) : Z :=
  group_fold 0 Z.add l (euler_pairs qk im).

Definition euler1 (im : img) (l : Z) : Z :=
  euler_part q1k im l - euler_part q3k im l - 2 * euler_part qdk im l.

Lemma euler4_pt im idxs : euler4 im idxs = map (euler1 im) idxs.
Proof.
  unfold euler4, nd_fold. rewrite !combine_map2, map_map. apply map_ext. intros l. reflexivity.
Qed.

(* the sum keyed by I00 = l runs over l's own pixels, each seen from the work-array position
   one down and one right of it *)
Lemma euler_part_coords qk im l : l <> 0 ->
  euler_part qk im l =
  zfold (map (fun c => qk (nbf im (fst c + 1) (snd c + 1))
                          (in00 (Z.of_nat (length im)) (Z.of_nat (width im)) (fst c + 1) (snd c + 1)))
             (own_coords im l)).
Proof.
  intros Hl. unfold euler_part, group_fold, euler_pairs. rewrite lab_pairs_group.
  change (fun p : Z * Z * Z => qk (nbf im (p_y p) (p_x p)) (in00 (Z.of_nat (length im)) (Z.of_nat (width im)) (p_y p) (p_x p)))
    with (fun p : Z * Z * Z => (fun c : Z * Z => qk (nbf im (fst c) (snd c)) (in00 (Z.of_nat (length im)) (Z.of_nat (width im)) (fst c) (snd c))) (fst p)).
  rewrite map_coord_val. rewrite (pad_own_coords 1 2 1 2 im l Hl), map_map. reflexivity.
Qed.

Lemma mask_shape l im l' im' :
  mask l im = mask l' im' -> length im = length im' /\ width im = width im'.
Proof.
  intros H. split.
  - apply (f_equal (@length _)) in H. unfold mask in H. rewrite !map_length in H. exact H.
  - destruct im as [|r t], im' as [|r' t']; cbn [mask map] in H; try discriminate; [reflexivity|].
    injection H as H _. apply (f_equal (@length _)) in H. rewrite !map_length in H. exact H.
Qed.

Lemma mask_eql l im l' im' :
  mask l im = mask l' im' -> l <> 0 -> l' <> 0 ->
  forall y x, (g im y x =? l) = (g im' y x =? l').
Proof.
  intros H Hl Hl' y x. pose proof (get_mask l im y x) as H1. pose proof (get_mask l' im' y x) as H2.
  rewrite H in H1. rewrite H1 in H2. unfold g.
  destruct (get im y x) as [v|], (get im' y x) as [v'|]; cbn [option_map] in H2; try discriminate.
  - injection H2 as H2. rewrite (Z.eqb_sym v l), (Z.eqb_sym v' l'). exact H2.
  - lia.
Qed.

(* the three condition counts of a key pixel only compare its own label with its neighbours *)
Definition same_cmp (nb nb' : Z -> Z -> Z) (l l' : Z) : Prop :=
  nb 0 0 = l /\ nb' 0 0 = l' /\ forall di dj, (nb di dj =? l) = (nb' di dj =? l').

Ltac qk_cmp :=
  match goal with
  | H : same_cmp ?nb ?nb' ?l ?l' |- _ =>
      destruct H as [Hk [Hk' E]];
      assert (E2 : forall di dj, (l =? nb di dj) = (l' =? nb' di dj))
        by (intros di dj; rewrite (Z.eqb_sym l), (Z.eqb_sym l'); apply E);
      rewrite ?Hk, ?Hk'; unfold ne, eq; rewrite ?E, ?E2; reflexivity
  end.

Lemma q1k_cmp nb nb' l l' inb : same_cmp nb nb' l l' -> q1k nb inb = q1k nb' inb.
Proof. intros H. unfold q1k. qk_cmp. Qed.
Lemma q3k_cmp nb nb' l l' inb : same_cmp nb nb' l l' -> q3k nb inb = q3k nb' inb.
Proof. intros H. unfold q3k. qk_cmp. Qed.
Lemma qdk_cmp nb nb' l l' inb : same_cmp nb nb' l l' -> qdk nb inb = qdk nb' inb.
Proof. intros H. unfold qdk. qk_cmp. Qed.

Lemma euler_part_two qk im l im' l' :
  (forall nb nb' inb, same_cmp nb nb' l l' -> qk nb inb = qk nb' inb) ->
  mask l im = mask l' im' -> l <> 0 -> l' <> 0 -> euler_part qk im l = euler_part qk im' l'.
Proof.
  intros Hq H Hl Hl'. pose proof (mask_eql l im l' im' H Hl Hl') as E.
  destruct (mask_shape _ _ _ _ H) as [Hh Hw].
  rewrite !euler_part_coords by assumption. rewrite <- (own_coords_two _ _ _ _ H), <- Hh, <- Hw.
  f_equal. apply map_ext_in. intros c Hc. apply Hq.
  assert (Hg : g im (fst c) (snd c) = l) by (apply own_coords_g, Hc).
  assert (Hg' : g im' (fst c) (snd c) = l') by (apply Z.eqb_eq; rewrite <- E; lia).
  unfold same_cmp, nbf. repeat split.
  - replace (fst c + 1 - 1 + 0) with (fst c) by lia. replace (snd c + 1 - 1 + 0) with (snd c) by lia. exact Hg.
  - replace (fst c + 1 - 1 + 0) with (fst c) by lia. replace (snd c + 1 - 1 + 0) with (snd c) by lia. exact Hg'.
  - intros di dj. apply E.
Qed.

Lemma euler1_two im l im' l' :
  mask l im = mask l' im' -> l <> 0 -> l' <> 0 -> euler1 im l = euler1 im' l'.
Proof.
  intros H Hl Hl'. unfold euler1.
  rewrite (euler_part_two q1k im l im' l' (fun nb nb' inb S => q1k_cmp nb nb' l l' inb S) H Hl Hl').
  rewrite (euler_part_two q3k im l im' l' (fun nb nb' inb S => q3k_cmp nb nb' l l' inb S) H Hl Hl').
  rewrite (euler_part_two qdk im l im' l' (fun nb nb' inb S => qdk_cmp nb nb' l l' inb S) H Hl Hl').
  reflexivity.
Qed.

Definition nonzero_list (l : list Z) : Prop := forall i, In i l -> i <> 0.

Theorem euler_independent im im' idxs idxs' k k' l :
  l <> 0 -> mask l im = mask l im' -> nth_error idxs k = Some l -> nth_error idxs' k' = Some l ->
  nth_error (euler4 im idxs) k = nth_error (euler4 im' idxs') k'.
Proof.
  intros Hl Hm Hk Hk'. rewrite !euler4_pt, !nth_error_map, Hk, Hk'. cbn [option_map].
  rewrite (euler1_two im l im' l Hm Hl Hl). reflexivity.
Qed.

Theorem euler_relabel f im idxs :
  injective f -> f 0 = 0 -> nonzero_list idxs -> euler4 (relabel f im) (map f idxs) = euler4 im idxs.
Proof.
  intros Inj F0 Hnz. rewrite !euler4_pt, map_map. apply map_ext_in. intros l Hl.
  apply euler1_two; [apply mask_relabel, Inj| |apply Hnz, Hl].
  intros E. rewrite <- F0 in E. apply Inj in E. exact (Hnz l Hl E).
Qed.

Definition euler_request im idxs : euler4 im idxs = flat_map (fun l => euler4 im [l]) idxs :=
  tr_request euler4 euler1 euler4_pt im idxs.

Example euler_example :
  let im := [[2; 2; 2]; [2; 0; 2]; [2; 2; 2]] in
  let im' := [[2; 2; 2]; [2; 5; 2]; [2; 2; 2]] in
  mask 2 im = mask 2 im' /\ euler4 im [2] = [0] /\ euler4 im' [5; 2] = [4; 0].
Proof. cbv zeta. repeat split; vm_compute; reflexivity. Qed.

(* ---- translation: the bit-quad counts of an object are unchanged by zero padding ---- *)

Lemma qk_ext_q1 nb nb' inb : (forall di dj, nb di dj = nb' di dj) -> q1k nb inb = q1k nb' inb.
Proof. intros H. unfold q1k. rewrite !H. reflexivity. Qed.
Lemma qk_ext_q3 nb nb' inb : (forall di dj, nb di dj = nb' di dj) -> q3k nb inb = q3k nb' inb.
Proof. intros H. unfold q3k. rewrite !H. reflexivity. Qed.
Lemma qk_ext_qd nb nb' inb : (forall di dj, nb di dj = nb' di dj) -> qdk nb inb = qdk nb' inb.
Proof. intros H. unfold qdk. rewrite !H. reflexivity. Qed.

Lemma pad_length t b lf r im : length (pad t b lf r im) = (t + length im + b)%nat.
Proof. rewrite pad_shape, !app_length, map_length, !repeat_length. lia. Qed.

Lemma euler_part_translate qk t b lf r im l :
  (forall nb nb' inb, (forall di dj, nb di dj = nb' di dj) -> qk nb inb = qk nb' inb) ->
  rect im -> l <> 0 -> euler_part qk (pad t b lf r im) l = euler_part qk im l.
Proof.
  intros Hq Hr Hl. rewrite !euler_part_coords by exact Hl.
  rewrite (pad_own_coords t b lf r im l Hl), map_map. f_equal. apply map_ext_in. intros c Hc.
  destruct (own_coords_bounds im l c Hr Hc) as [Hy Hx]. cbn [shift fst snd].
  assert (Ein0 : in00 (Z.of_nat (length im)) (Z.of_nat (width im)) (fst c + 1) (snd c + 1) = true)
    by (unfold in00; rewrite !andb_true_iff, !Z.leb_le; lia).
  rewrite Ein0.
  replace (in00 (Z.of_nat (length (pad t b lf r im))) (Z.of_nat (width (pad t b lf r im)))
                (fst c + Z.of_nat t + 1) (snd c + Z.of_nat lf + 1)) with true.
  - apply Hq. intros di dj. unfold nbf.
    replace (fst c + Z.of_nat t + 1 - 1 + di) with ((fst c + 1 - 1 + di) + Z.of_nat t) by lia.
    replace (snd c + Z.of_nat lf + 1 - 1 + dj) with ((snd c + 1 - 1 + dj) + Z.of_nat lf) by lia.
    apply pad_g.
  - symmetry. unfold in00. rewrite pad_length.
    assert (Hw : (lf + width im <= width (pad t b lf r im))%nat).
    { rewrite pad_shape. destruct t as [|t']; cbn [repeat app width].
      - destruct im as [|row rest]; cbn [map app width].
        + exfalso. cbn [length] in Hy. lia.
        + unfold widen. rewrite !app_length, !repeat_length. cbn [width]. lia.
      - rewrite repeat_length. lia. }
    rewrite !andb_true_iff, !Z.leb_le. lia.
Qed.

Theorem euler_translate t b lf r im idxs :
  rect im -> nonzero_list idxs -> euler4 (pad t b lf r im) idxs = euler4 im idxs.
Proof.
  intros Hr Hnz. rewrite !euler4_pt. apply map_ext_in. intros l Hl. unfold euler1.
  assert (Hl0 : l <> 0) by (apply Hnz, Hl).
  rewrite (euler_part_translate q1k t b lf r im l qk_ext_q1 Hr Hl0).
  rewrite (euler_part_translate q3k t b lf r im l qk_ext_q3 Hr Hl0).
  rewrite (euler_part_translate qdk t b lf r im l qk_ext_qd Hr Hl0).
  reflexivity.
Qed.

(* ------------------------------------------------------------------ pattern-table measurements *)

Lemma gb_mask l im y x : l <> 0 ->
  match get (mask l im) y x with Some b => b | None => false end = (l =? g im y x).
Proof.
  intros Hl. rewrite get_mask. unfold g. destruct (get im y x) as [v|]; cbn [option_map]; [reflexivity|lia].
Qed.

Lemma pattern_val_coords {A} (tbl : Z -> A) im l :
  map (fun p => tbl (table_idx_at im (p_y p) (p_x p))) (own im l)
  = map (fun c => tbl (table_idx_b (mask l im) (fst c) (snd c))) (own_coords im l).
Proof.
  rewrite own_coords_own, map_map. apply map_ext_in. intros p Hp.
  apply own_label in Hp. destruct Hp as [Hv Hin]. destruct p as [[y x] v]. unfold p_v, p_y, p_x in *.
  cbn [fst snd] in *. subst v. apply pixels_get in Hin. rewrite (table_idx_mask l im y x Hin). reflexivity.
Qed.

Lemma table_idx_b_pad t b lf r im l y x : l <> 0 ->
  table_idx_b (mask l (pad t b lf r im)) (y + Z.of_nat t) (x + Z.of_nat lf) = table_idx_b (mask l im) y x.
Proof.
  intros Hl. unfold table_idx_b. f_equal. apply map_ext. intros o. unfold same_as_b.
  rewrite !gb_mask by exact Hl. f_equal.
  replace (y + Z.of_nat t + fst o) with ((y + fst o) + Z.of_nat t) by lia.
  replace (x + Z.of_nat lf + snd o) with ((x + snd o) + Z.of_nat lf) by lia.
  apply pad_g.
Qed.

Lemma pattern_sum_translate (tbl : Z -> Z) t b lf r im l : l <> 0 ->
  group_fold 0 Z.add l (lab_pairs (fun p => tbl (table_idx_at (pad t b lf r im) (p_y p) (p_x p))) (pad t b lf r im))
  = group_fold 0 Z.add l (lab_pairs (fun p => tbl (table_idx_at im (p_y p) (p_x p))) im).
Proof.
  intros Hl. unfold group_fold. rewrite !lab_pairs_group, !pattern_val_coords.
  rewrite (pad_own_coords t b lf r im l Hl), map_map. f_equal. apply map_ext. intros c.
  cbn [shift fst snd]. rewrite table_idx_b_pad by exact Hl. reflexivity.
Qed.

Theorem perimeters_translate t b lf r im idxs :
  nonzero_list idxs -> perimeters (pad t b lf r im) idxs = perimeters im idxs.
Proof.
  intros Hnz. rewrite !perimeters_pt. apply map_ext_in. intros l Hl. unfold perim1, perim_score.
  apply (pattern_sum_translate (fun k => nth (Z.to_nat k) perim_table 0)). apply Hnz, Hl.
Qed.

Lemma pad_nonneg t b lf r im : nonneg_img im -> nonneg_img (pad t b lf r im).
Proof.
  intros H p Hp. destruct p as [[y x] v]. pose proof (pixels_get _ _ _ _ Hp) as Hg. unfold p_v. cbn [snd].
  assert (E : g (pad t b lf r im) y x = v) by (unfold g; rewrite Hg; reflexivity).
  replace y with ((y - Z.of_nat t) + Z.of_nat t) in E by lia.
  replace x with ((x - Z.of_nat lf) + Z.of_nat lf) in E by lia.
  rewrite pad_g in E. subst v. unfold g.
  destruct (get im (y - Z.of_nat t) (x - Z.of_nat lf)) as [w|] eqn:Ew; [|lia].
  unfold get in Ew. destruct ((y - Z.of_nat t <? 0) || (x - Z.of_nat lf <? 0)); [discriminate|].
  destruct (nth_error im (Z.to_nat (y - Z.of_nat t))) as [row|] eqn:En; [|discriminate].
  assert (Hin : In ((y - Z.of_nat t, x - Z.of_nat lf), w) (pixels im) \/ True) by (right; exact I).
  clear Hin.
  (* the value w is a pixel value of im *)
  assert (Hw : exists q, In q (pixels im) /\ p_v q = w).
  { clear - En Ew. unfold pixels.
    assert (G : forall (im0 : img) y0 k row0, nth_error im0 k = Some row0 ->
               forall j w0, nth_error row0 j = Some w0 -> exists q, In q (enum_rows y0 im0) /\ p_v q = w0).
    { induction im0 as [|r0 t0 IH]; intros y0 [|k] row0 Hk j w0 Hj; cbn [nth_error] in Hk; try discriminate.
      - injection Hk as ->. cbn [enum_rows].
        assert (R : forall (rr : list Z) x0 j0 w1, nth_error rr j0 = Some w1 -> exists q, In q (enum_row y0 x0 rr) /\ p_v q = w1).
        { induction rr as [|a tt IHr]; intros x0 [|j0] w1 Hj0; cbn [nth_error] in Hj0; try discriminate.
          - injection Hj0 as ->. exists (y0, x0, w1). split; [left; reflexivity|reflexivity].
          - destruct (IHr (x0 + 1) j0 w1 Hj0) as [q [Hq Hv]]. exists q. split; [right; exact Hq|exact Hv]. }
        destruct (R row0 0 j w0 Hj) as [q [Hq Hv]]. exists q. split; [apply in_or_app; left; exact Hq|exact Hv].
      - destruct (IH (y0 + 1) k row0 Hk j w0 Hj) as [q [Hq Hv]]. exists q. split; [cbn [enum_rows]; apply in_or_app; right; exact Hq|exact Hv]. }
    exact (G im 0 _ row En _ w Ew). }
  destruct Hw as [q [Hq <-]]. apply H, Hq.
Qed.

Theorem skeleton_length_translate t b lf r im idxs :
  nonneg_img im -> (forall i, In i idxs -> 0 < i) ->
  skeleton_length (pad t b lf r im) idxs = skeleton_length im idxs.
Proof.
  intros Him Hpos.
  assert (Hnn : nonneg_list idxs) by (intros i Hi; specialize (Hpos i Hi); lia).
  rewrite !skeleton_length_pt; auto using pad_nonneg. f_equal. apply map_ext_in. intros l Hl.
  unfold skel1, skel_score.
  apply (pattern_sum_translate (fun k => nth (Z.to_nat k) skel_table 0)). specialize (Hpos l Hl). lia.
Qed.

Example translate_example :
  let im := [[3; 3; 0]; [0; 3; 7]; [7; 7; 7]] in
  rect im /\ perimeters (pad 2 1 3 0 im) [7; 3] = perimeters im [7; 3]
  /\ euler4 (pad 2 1 3 0 im) [7; 3] = euler4 im [7; 3].
Proof.
  cbv zeta. split; [|split; vm_compute; reflexivity].
  intros row [<-|[<-|[<-|[]]]]; reflexivity.
Qed.
