(* C15 — the explicit-stack depth-first labelling of _all_connected_components (Model.LabelGraph
   dfs_step / dfs_run / dfs_all): partial correctness (ported from design/prototypes/Dfs.v to the
   array model) and termination with the binary fuel (design/prototypes/DfsFuel.v). *)
From Coq Require Import ZArith NArith List Bool Lia.
From Centro Require Import Base.GraphC15 Model.LabelGraph.
Import ListNotations.
Open Scope N_scope.

(* n-fold iteration, step first *)
Fixpoint iterS {A} (f : A -> A) (n : nat) (s : A) : A :=
  match n with O => s | S k => iterS f k (f s) end.
Lemma iterS_add {A} (f : A -> A) a b s : iterS f (a + b) s = iterS f b (iterS f a s).
Proof. revert s. induction a as [|a IH]; intros s; cbn [iterS Nat.add]; auto. Qed.

Section DFS.
Variable cnt : N -> N.
Variable nbr : N -> N -> N.
Definition edge (u v : N) : Prop := exists k, k < cnt u /\ nbr u k = v.
Hypothesis edge_sym : forall u v, edge u v -> edge v u.

Inductive conn : N -> N -> Prop :=
| conn_refl u : conn u u
| conn_step u v w : edge u v -> conn v w -> conn u w.
Lemma conn_trans u v w : conn u v -> conn v w -> conn u w.
Proof. induction 1; auto. intros; econstructor; eauto. Qed.
Lemma conn_sym u v : conn u v -> conn v u.
Proof.
  induction 1; [constructor|]. eapply conn_trans; [exact IHconn|].
  econstructor; [apply edge_sym; eauto|constructor].
Qed.

Definition lab (s : dstate) (v : N) : option N := mget (d_label s) v.
Definition vix (s : dstate) (v : N) : option N := mget (d_vidx s) v.
Definition cur (s : dstate) (v : N) : N := mgetd (d_vidx s) v.

Lemma step_empty c s : d_stack s = [] -> dfs_step cnt nbr c s = s.
Proof. intros E. unfold dfs_step. rewrite E. reflexivity. Qed.
Lemma iterS_empty c n : forall s, d_stack s = [] -> iterS (dfs_step cnt nbr c) n s = s.
Proof. induction n as [|n IH]; intros s E; cbn [iterS]; auto. rewrite step_empty by exact E. auto. Qed.

(* the binary-fuel loop is plain iteration *)
Lemma dfs_run_iter c p : forall s, dfs_run cnt nbr c p s = iterS (dfs_step cnt nbr c) (Pos.to_nat p) s.
Proof.
  induction p as [q IH|q IH|]; intros s.
  - cbn [dfs_run]. destruct (d_stack s) as [|a l] eqn:E.
    + rewrite iterS_empty by exact E. reflexivity.
    + rewrite !IH. rewrite Pos2Nat.inj_xI. cbn [iterS]. rewrite <- iterS_add. f_equal. lia.
  - cbn [dfs_run]. destruct (d_stack s) as [|a l] eqn:E.
    + rewrite iterS_empty by exact E. reflexivity.
    + rewrite !IH. rewrite Pos2Nat.inj_xO. rewrite <- iterS_add. f_equal. lia.
  - cbn [dfs_run]. destruct (d_stack s) as [|a l] eqn:E.
    + rewrite iterS_empty by exact E. reflexivity.
    + reflexivity.
Qed.

(* ---- invariant for one component: root r, index c, arrays lab0/vidx0 before ---- *)
Variables (lab0 vidx0 : pmap) (r c : N).
Hypothesis lab0_r : mget lab0 r = None.
Hypothesis lab0_lt : forall v k, mget lab0 v = Some k -> k <> c.
Hypothesis lab0_closed : forall u v, mget lab0 u <> None -> edge u v -> mget lab0 v <> None.
Hypothesis sync0 : forall v, mget vidx0 v = None <-> mget lab0 v = None.

Record Inv (s : dstate) : Prop := {
  i_ext : forall v k, mget lab0 v = Some k -> lab s v = Some k;
  i_new : forall v k, lab s v = Some k -> mget lab0 v = Some k \/ (k = c /\ mget lab0 v = None);
  i_reach : forall v, lab s v = Some c -> conn r v;
  i_stack_reach : forall v, In v (d_stack s) -> conn r v /\ mget lab0 v = None;
  i_below : forall v rest, d_stack s = v :: rest -> forall w, In w rest -> lab s w = Some c;
  i_cursor : forall v, lab s v = Some c -> cur s v <= cnt v;
  i_seen : forall v, lab s v = Some c -> forall k, k < cur s v ->
           lab s (nbr v k) <> None \/ (exists rest, d_stack s = nbr v k :: rest);
  i_done : forall v, lab s v = Some c -> ~ In v (d_stack s) -> cur s v = cnt v;
  i_root : d_stack s = [r] \/ lab s r = Some c;
  i_sync : forall v, vix s v = None <-> lab s v = None
}.

Lemma closed_at_exit s : Inv s -> d_stack s = [] ->
  forall u v, lab s u = Some c -> edge u v -> lab s v = Some c.
Proof.
  intros I E u v Hu [k [Hk Hn]].
  assert (D : cur s u = cnt u) by (apply (i_done s I u Hu); rewrite E; auto).
  destruct (i_seen s I u Hu k ltac:(lia)) as [L|[rest R]]; [|rewrite E in R; discriminate].
  rewrite Hn in L. destruct (lab s v) as [kv|] eqn:Lv; [|congruence].
  destruct (i_new s I v kv Lv) as [Old|[-> _]]; auto.
  exfalso.
  assert (mget lab0 u <> None).
  { apply (lab0_closed v u); [congruence|apply edge_sym; exists k; auto]. }
  destruct (i_new s I u c Hu) as [O|[_ N0]]; [eapply lab0_lt; eauto|congruence].
Qed.

Lemma closure_conn s : Inv s -> d_stack s = [] -> forall u v, conn u v -> lab s u = Some c -> lab s v = Some c.
Proof.
  intros I E u v H. induction H as [u|u w x Huw Hwx IH]; auto.
  intros Hu. apply IH. eapply closed_at_exit; eauto.
Qed.
Theorem component_at_exit s : Inv s -> d_stack s = [] -> forall v, lab s v = Some c <-> conn r v.
Proof.
  intros I E v. split; [apply (i_reach s I)|].
  intros H. eapply closure_conn; eauto. destruct (i_root s I) as [R|R]; [rewrite E in R; discriminate|exact R].
Qed.

Definition init : dstate := mkD lab0 vidx0 [r].
Lemma inv_init : Inv init.
Proof.
  constructor; unfold lab, vix, cur; cbn [d_label d_vidx d_stack init]; intros.
  - auto.
  - auto.
  - exfalso. eapply lab0_lt; eauto.
  - destruct H as [<-|[]]. split; [constructor|exact lab0_r].
  - inversion H; subst. destruct H0.
  - exfalso. eapply lab0_lt; eauto.
  - exfalso. eapply lab0_lt; eauto.
  - exfalso. eapply lab0_lt; eauto.
  - left; reflexivity.
  - apply sync0.
Qed.

Lemma inv_step s : Inv s -> Inv (dfs_step cnt nbr c s).
Proof.
  intros I. unfold dfs_step. destruct (d_stack s) as [|vv rest] eqn:ES; [exact I|].
  assert (SR : conn r vv /\ mget lab0 vv = None) by (apply (i_stack_reach s I); rewrite ES; left; auto).
  destruct SR as [Rvv Ovv].
  set (lab1 := match mget (d_vidx s) vv with None => mset (d_label s) vv c | Some _ => d_label s end).
  set (idx1 := match mget (d_vidx s) vv with None => mset (d_vidx s) vv 0 | Some _ => d_vidx s end).
  (* the label of vv is UNDEFINED exactly when its cursor is *)
  assert (SY : (vix s vv = None /\ lab s vv = None) \/ (vix s vv <> None /\ lab s vv = Some c)).
  { destruct (vix s vv) as [q|] eqn:EV.
    - right. split; [discriminate|]. destruct (lab s vv) as [k|] eqn:EL.
      + destruct (i_new s I vv k EL) as [O|[-> _]]; [congruence|reflexivity].
      + apply (i_sync s I) in EL. congruence.
    - left. split; auto. apply (i_sync s I). exact EV. }
  assert (L1 : mget lab1 vv = Some c).
  { unfold lab1. destruct SY as [[EV EL]|[EV EL]]; unfold vix in EV.
    - rewrite EV. apply mget_set_same.
    - destruct (mget (d_vidx s) vv); [exact EL|congruence]. }
  assert (L2 : forall v, v <> vv -> mget lab1 v = lab s v).
  { intros v Hv. unfold lab1. destruct (mget (d_vidx s) vv); auto. apply mget_set_other; auto. }
  assert (L3 : forall v k, lab s v = Some k -> mget lab1 v = Some k).
  { intros v k Hk. destruct (N.eq_dec v vv) as [->|N0]; [|rewrite L2; auto].
    destruct SY as [[EV EL]|[EV EL]]; [congruence|]. rewrite L1. congruence. }
  assert (L4 : forall v, mget lab1 v = Some c -> v = vv \/ lab s v = Some c).
  { intros v Hv. destruct (N.eq_dec v vv) as [->|N0]; auto. right. rewrite <- L2; auto. }
  assert (C1 : forall v, v <> vv -> mgetd idx1 v = cur s v).
  { intros v Hv. unfold idx1. destruct (mget (d_vidx s) vv); auto. apply mgetd_set_other; auto. }
  assert (C1' : forall v, v <> vv -> mget idx1 v = vix s v).
  { intros v Hv. unfold idx1. destruct (mget (d_vidx s) vv); auto. apply mget_set_other; auto. }
  assert (C0 : mget idx1 vv <> None).
  { unfold idx1. destruct (mget (d_vidx s) vv) eqn:EV; [congruence|]. rewrite mget_set_same. discriminate. }
  assert (C2 : mgetd idx1 vv <= cnt vv).
  { unfold idx1. destruct SY as [[EV EL]|[EV EL]]; unfold vix in EV.
    - rewrite EV, mgetd_set_same. lia.
    - destruct (mget (d_vidx s) vv); [|congruence]. apply (i_cursor s I); auto. }
  assert (S1 : forall k, k < mgetd idx1 vv -> mget lab1 (nbr vv k) <> None).
  { intros k Hk. unfold idx1 in Hk. destruct SY as [[EV EL]|[EV EL]]; unfold vix in EV.
    - rewrite EV, mgetd_set_same in Hk. lia.
    - destruct (mget (d_vidx s) vv) eqn:EV'; [|congruence].
      destruct (i_seen s I vv EL k Hk) as [Lb|[rest0 R]].
      + destruct (lab s (nbr vv k)) as [q|] eqn:Q; [|congruence]. rewrite (L3 _ _ Q). discriminate.
      + assert (X : nbr vv k = vv) by congruence. rewrite X, L1. discriminate. }
  assert (S2 : forall v, v <> vv -> lab s v = Some c -> forall k, k < cur s v -> mget lab1 (nbr v k) <> None).
  { intros v Nv Hv k Hk. destruct (i_seen s I v Hv k Hk) as [Lb|[rest0 R]].
    - destruct (lab s (nbr v k)) as [q|] eqn:Q; [|congruence]. rewrite (L3 _ _ Q). discriminate.
    - assert (X : nbr v k = vv) by congruence. rewrite X, L1. discriminate. }
  assert (EXT : forall v k, mget lab0 v = Some k -> mget lab1 v = Some k) by (intros; apply L3; apply (i_ext s I); auto).
  assert (NEW : forall v k, mget lab1 v = Some k -> mget lab0 v = Some k \/ (k = c /\ mget lab0 v = None)).
  { intros v k Hk. destruct (N.eq_dec v vv) as [->|N0].
    - rewrite L1 in Hk. inversion Hk; subst. right; auto.
    - rewrite L2 in Hk by auto. apply (i_new s I); auto. }
  assert (REACH : forall v, mget lab1 v = Some c -> conn r v).
  { intros v Hv. destruct (L4 v Hv) as [->|Hs]; auto. apply (i_reach s I); auto. }
  assert (BELOW : forall w, In w rest -> mget lab1 w = Some c).
  { intros w Hw. apply L3. eapply (i_below s I); eauto. }
  assert (ROOT : mget lab1 r = Some c).
  { destruct (i_root s I) as [R|R]; [|apply L3; auto]. rewrite ES in R. inversion R; subst. exact L1. }
  assert (SYNC1 : forall v, mget idx1 v = None <-> mget lab1 v = None).
  { intros v. destruct (N.eq_dec v vv) as [->|N0].
    - rewrite L1. split; [intros; contradiction|discriminate].
    - rewrite C1', L2 by auto. apply (i_sync s I). }
  destruct (mgetd idx1 vv <? cnt vv) eqn:LT.
  - apply N.ltb_lt in LT.
    set (v1 := nbr vv (mgetd idx1 vv)).
    assert (Ev1 : edge vv v1) by (exists (mgetd idx1 vv); split; auto).
    set (idx2 := mset idx1 vv (mgetd idx1 vv + 1)).
    assert (C3 : forall v, v <> vv -> mgetd idx2 v = cur s v).
    { intros v Hv. unfold idx2. rewrite mgetd_set_other by auto. apply C1; auto. }
    assert (C4 : mgetd idx2 vv = mgetd idx1 vv + 1) by (unfold idx2; apply mgetd_set_same).
    assert (SYNC2 : forall v, mget idx2 v = None <-> mget lab1 v = None).
    { intros v. destruct (N.eq_dec v vv) as [->|N0].
      - unfold idx2. rewrite mget_set_same, L1. split; discriminate.
      - unfold idx2. rewrite mget_set_other by auto. apply SYNC1. }
    destruct (mget lab1 v1) as [q|] eqn:Q.
    + constructor; unfold lab, vix, cur; cbn [d_label d_vidx d_stack]; auto.
      * intros v Hv. apply (i_stack_reach s I). rewrite ES. exact Hv.
      * intros v rest0 E w Hw. inversion E; subst. auto.
      * intros v Hv. destruct (N.eq_dec v vv) as [->|N0]; [rewrite C4; lia|]. rewrite C3 by auto.
        apply (i_cursor s I). rewrite <- L2; auto.
      * intros v Hv k Hk. left.
        destruct (N.eq_dec v vv) as [->|N0].
        -- rewrite C4 in Hk. destruct (N.eq_dec k (mgetd idx1 vv)) as [->|Nk]; [fold v1; rewrite Q; discriminate|].
           apply S1; lia.
        -- rewrite C3 in Hk by auto. apply S2; auto. rewrite <- L2; auto.
      * intros v Hv Hn. destruct (N.eq_dec v vv) as [->|N0]; [exfalso; apply Hn; left; auto|].
        rewrite C3 by auto. apply (i_done s I); [rewrite <- L2; auto|]. rewrite ES. exact Hn.
    + constructor; unfold lab, vix, cur; cbn [d_label d_vidx d_stack]; auto.
      * intros v [<-|Hv].
        -- split; [eapply conn_trans; [exact Rvv|econstructor; [exact Ev1|constructor]]|].
           destruct (mget lab0 v1) as [q0|] eqn:Q0; auto. rewrite (EXT _ _ Q0) in Q. discriminate.
        -- apply (i_stack_reach s I). rewrite ES. exact Hv.
      * intros v rest0 E w Hw. inversion E; subst. destruct Hw as [<-|Hw]; auto.
      * intros v Hv. destruct (N.eq_dec v vv) as [->|N0]; [rewrite C4; lia|]. rewrite C3 by auto.
        apply (i_cursor s I). rewrite <- L2; auto.
      * intros v Hv k Hk.
        destruct (N.eq_dec v vv) as [->|N0].
        -- rewrite C4 in Hk. destruct (N.eq_dec k (mgetd idx1 vv)) as [->|Nk]; [right; eexists; reflexivity|].
           left. apply S1; lia.
        -- left. rewrite C3 in Hk by auto. apply S2; auto. rewrite <- L2; auto.
      * intros v Hv Hn. destruct (N.eq_dec v vv) as [->|N0]; [exfalso; apply Hn; right; left; auto|].
        rewrite C3 by auto. apply (i_done s I); [rewrite <- L2; auto|]. rewrite ES.
        intros Hin. apply Hn. right. exact Hin.
  - apply N.ltb_ge in LT.
    constructor; unfold lab, vix, cur; cbn [d_label d_vidx d_stack]; auto.
    + intros v Hv. apply (i_stack_reach s I). rewrite ES. right. exact Hv.
    + intros v rest0 E w Hw. apply BELOW. rewrite E. right. exact Hw.
    + intros v Hv. destruct (N.eq_dec v vv) as [->|N0]; [exact C2|]. rewrite C1 by auto.
      apply (i_cursor s I). rewrite <- L2; auto.
    + intros v Hv k Hk. left.
      destruct (N.eq_dec v vv) as [->|N0]; [apply S1; auto|].
      rewrite C1 in Hk by auto. apply S2; auto. rewrite <- L2; auto.
    + intros v Hv Hn. destruct (N.eq_dec v vv) as [->|N0]; [lia|].
      rewrite C1 by auto. apply (i_done s I); [rewrite <- L2; auto|]. rewrite ES.
      intros [E|Hin]; [congruence|auto].
Qed.

Lemma inv_iter n : forall s, Inv s -> Inv (iterS (dfs_step cnt nbr c) n s).
Proof. induction n as [|n IH]; intros s I; cbn [iterS]; auto. apply IH. apply inv_step. exact I. Qed.

(* ---- termination: the potential of DfsFuel.v ---- *)
Variable vs : list N.                       (* the vertex universe 0..n-1 *)
Hypothesis vs_nodup : NoDup vs.
Hypothesis r_in : In r vs.
Hypothesis edge_in : forall u v, In u vs -> edge u v -> In v vs.

Definition wt (s : dstate) (v : N) : N :=
  match lab s v with
  | None => 2 * cnt v + 1
  | Some k => if k =? c then 2 * (cnt v - cur s v) else 0
  end.
Fixpoint sumw (f : N -> N) (l : list N) : N := match l with [] => 0 | x :: r => f x + sumw f r end.
Definition mu (s : dstate) : N := sumw (wt s) vs + N.of_nat (length (d_stack s)).

Lemma sumw_ext f g l : (forall x, In x l -> f x = g x) -> sumw f l = sumw g l.
Proof.
  induction l as [|a l IH]; cbn [sumw]; intros H; auto.
  rewrite (H a) by (left; auto). rewrite IH; [reflexivity|]. intros x Hx. apply H. right; auto.
Qed.
Lemma sumw_change f g l x : NoDup l -> In x l -> (forall y, y <> x -> f y = g y) ->
  sumw f l + g x = sumw g l + f x.
Proof.
  induction 1 as [|a r0 Ha ND IH]; intros Hx Hfg; [destruct Hx|]. cbn [sumw].
  destruct Hx as [->|Hx].
  - rewrite (sumw_ext f g r0); [lia|]. intros y Hy. apply Hfg. intros ->. contradiction.
  - specialize (IH Hx Hfg). rewrite (Hfg a) by (intros ->; contradiction). lia.
Qed.
Lemma sumw_le f g l : (forall x, In x l -> f x <= g x) -> sumw f l <= sumw g l.
Proof.
  induction l as [|a l IH]; cbn [sumw]; intros H; [lia|].
  pose proof (H a (or_introl eq_refl)). assert (sumw f l <= sumw g l) by (apply IH; intros; apply H; right; auto). lia.
Qed.

Definition StackIn (s : dstate) : Prop := forall v, In v (d_stack s) -> In v vs.

Lemma step_decreases s : Inv s -> StackIn s -> d_stack s <> [] ->
  mu (dfs_step cnt nbr c s) < mu s /\ StackIn (dfs_step cnt nbr c s).
Proof.
  intros I Hin NE. unfold dfs_step. destruct (d_stack s) as [|vv rest] eqn:ES; [congruence|]. clear NE.
  assert (Ivv : In vv vs) by (apply Hin; rewrite ES; left; auto).
  assert (Ovv : mget lab0 vv = None) by (apply (i_stack_reach s I); rewrite ES; left; auto).
  set (lab1 := match mget (d_vidx s) vv with None => mset (d_label s) vv c | Some _ => d_label s end).
  set (idx1 := match mget (d_vidx s) vv with None => mset (d_vidx s) vv 0 | Some _ => d_vidx s end).
  assert (SY : (vix s vv = None /\ lab s vv = None) \/ (vix s vv <> None /\ lab s vv = Some c)).
  { destruct (vix s vv) as [q|] eqn:EV.
    - right. split; [discriminate|]. destruct (lab s vv) as [k|] eqn:EL.
      + destruct (i_new s I vv k EL) as [O|[-> _]]; [congruence|reflexivity].
      + apply (i_sync s I) in EL. congruence.
    - left. split; auto. apply (i_sync s I). exact EV. }
  assert (L1 : mget lab1 vv = Some c).
  { unfold lab1. destruct SY as [[EV EL]|[EV EL]]; unfold vix in EV.
    - rewrite EV. apply mget_set_same.
    - destruct (mget (d_vidx s) vv); [exact EL|congruence]. }
  assert (L2 : forall y, y <> vv -> mget lab1 y = lab s y).
  { intros y Hy. unfold lab1. destruct (mget (d_vidx s) vv); auto. apply mget_set_other; auto. }
  assert (C2 : forall y, y <> vv -> mgetd idx1 y = cur s y).
  { intros y Hy. unfold idx1. destruct (mget (d_vidx s) vv); auto. apply mgetd_set_other; auto. }
  assert (C1 : mgetd idx1 vv <= cnt vv /\ wt s vv >= 2 * (cnt vv - mgetd idx1 vv)).
  { unfold idx1, wt. destruct SY as [[EV EL]|[EV EL]]; unfold vix in EV.
    - rewrite EV, mgetd_set_same, EL. lia.
    - pose proof (i_cursor s I vv EL) as B. rewrite EL, N.eqb_refl.
      destruct (mget (d_vidx s) vv); [|congruence]. fold (cur s vv). lia. }
  destruct C1 as [C1 Wvv].
  assert (G : forall s', d_label s' = lab1 -> (forall y, y <> vv -> cur s' y = cur s y) ->
              sumw (wt s') vs + wt s vv = sumw (wt s) vs + wt s' vv).
  { intros s' E1 E2. apply sumw_change; auto. intros y Hy. unfold wt, lab. rewrite E1, (L2 y Hy).
    unfold lab. destruct (mget (d_label s) y) as [k|]; [|reflexivity].
    destruct (k =? c); [rewrite (E2 y Hy)|]; reflexivity. }
  unfold mu. rewrite ES. destruct (mgetd idx1 vv <? cnt vv) eqn:LT.
  - apply N.ltb_lt in LT. set (v1 := nbr vv (mgetd idx1 vv)).
    assert (Iv1 : In v1 vs) by (apply (edge_in vv); auto; exists (mgetd idx1 vv); auto).
    set (idx2 := mset idx1 vv (mgetd idx1 vv + 1)).
    assert (E2 : forall y, y <> vv -> mgetd idx2 y = cur s y).
    { intros y Hy. unfold idx2. rewrite mgetd_set_other by auto. apply C2; auto. }
    assert (Wn : forall s', d_label s' = lab1 -> d_vidx s' = idx2 -> wt s' vv = 2 * (cnt vv - (mgetd idx1 vv + 1))).
    { intros s' A B. unfold wt, lab, cur. rewrite A, L1, N.eqb_refl, B. unfold idx2. rewrite mgetd_set_same. reflexivity. }
    destruct (mget lab1 v1) eqn:Q.
    + set (s' := mkD lab1 idx2 (vv :: rest)).
      pose proof (G s' eq_refl E2) as Gs. pose proof (Wn s' eq_refl eq_refl) as Ws.
      split; [unfold s' in *; cbn [d_stack length] in *; lia|]. intros v Hv. apply Hin. rewrite ES. exact Hv.
    + set (s' := mkD lab1 idx2 (v1 :: vv :: rest)).
      pose proof (G s' eq_refl E2) as Gs. pose proof (Wn s' eq_refl eq_refl) as Ws.
      split; [unfold s' in *; cbn [d_stack length] in *; lia|]. intros v [<-|Hv]; auto. apply Hin. rewrite ES. exact Hv.
  - apply N.ltb_ge in LT.
    set (s' := mkD lab1 idx1 rest).
    pose proof (G s' eq_refl C2) as Gs.
    assert (Ws : wt s' vv = 2 * (cnt vv - mgetd idx1 vv)).
    { unfold wt, lab, cur, s'. cbn [d_label d_vidx]. rewrite L1, N.eqb_refl. reflexivity. }
    split; [unfold s' in *; cbn [d_stack length] in *; lia|]. intros v Hv. apply Hin. rewrite ES. right; exact Hv.
Qed.

Lemma iter_terminates n : forall s, Inv s -> StackIn s -> mu s <= N.of_nat n ->
  d_stack (iterS (dfs_step cnt nbr c) n s) = [].
Proof.
  induction n as [|n IH]; intros s I SI M; cbn [iterS].
  - unfold mu in M. destruct (d_stack s); [reflexivity|]. cbn [length] in M. lia.
  - destruct (d_stack s) as [|a l] eqn:E.
    + rewrite step_empty by exact E. rewrite iterS_empty by exact E. exact E.
    + destruct (step_decreases s I SI) as [D SI']; [congruence|].
      apply IH; [apply inv_step; exact I|exact SI'|lia].
Qed.

(* the stack never leaves the vertex universe and its entries below the top are distinct
   vertices of the component: depth bound for C19 *)
Lemma stack_in_iter n : forall s, Inv s -> StackIn s -> StackIn (iterS (dfs_step cnt nbr c) n s).
Proof.
  induction n as [|n IH]; intros s I SI; cbn [iterS]; auto.
  destruct (d_stack s) as [|a l] eqn:E.
  - rewrite step_empty by exact E. apply IH; auto.
  - destruct (step_decreases s I SI) as [_ SI']; [congruence|]. apply IH; [apply inv_step; auto|auto].
Qed.

Lemma mu_init_bound : mu init <= sumw (fun v => 2 * cnt v + 1) vs + 1.
Proof.
  unfold mu. cbn [init d_stack length].
  assert (sumw (wt init) vs <= sumw (fun v => 2 * cnt v + 1) vs).
  { apply sumw_le. intros x _. unfold wt. destruct (lab init x) as [k|]; [|lia]. destruct (k =? c); lia. }
  lia.
Qed.

(* one component: with enough fuel the inner loop returns, and then exactly the component of r
   carries the new label *)
Theorem dfs_component fuel : sumw (fun v => 2 * cnt v + 1) vs + 1 <= N.pos fuel ->
  let s' := dfs_run cnt nbr c fuel init in
  d_stack s' = [] /\
  (forall v, lab s' v = Some c <-> conn r v) /\
  (forall v k, mget lab0 v = Some k -> lab s' v = Some k) /\
  (forall v k, lab s' v = Some k -> k <> c -> mget lab0 v = Some k) /\
  (forall v, vix s' v = None <-> lab s' v = None).
Proof.
  intros F s'. unfold s'. rewrite dfs_run_iter.
  assert (SI : StackIn init) by (intros v [<-|[]]; exact r_in).
  assert (E : d_stack (iterS (dfs_step cnt nbr c) (Pos.to_nat fuel) init) = []).
  { apply iter_terminates; [apply inv_init|exact SI|]. pose proof mu_init_bound. lia. }
  pose proof (inv_iter (Pos.to_nat fuel) init inv_init) as I.
  split; [exact E|]. split; [|split; [|split]].
  - apply component_at_exit; auto.
  - apply (i_ext _ I).
  - intros v k Hk Nk. destruct (i_new _ I v k Hk) as [O|[-> _]]; [auto|congruence].
  - apply (i_sync _ I).
Qed.
End DFS.

(* ---- outer loop: every vertex in turn, a new component index each time the vertex is unlabelled ---- *)
Section Outer.
Variable cnt : N -> N.
Variable nbr : N -> N -> N.
Hypothesis edge_sym : forall u v, edge cnt nbr u v -> edge cnt nbr v u.
Variable vs : list N.
Hypothesis vs_nodup : NoDup vs.
Hypothesis edge_in : forall u v, In u vs -> edge cnt nbr u v -> In v vs.
Variable fuel : positive.
Hypothesis fuel_ok : sumw (fun v => 2 * cnt v + 1) vs + 1 <= N.pos fuel.

Record OInv (lb vi : pmap) (c : N) : Prop := {
  o_lt : forall v k, mget lb v = Some k -> k < c;
  o_closed : forall u v, mget lb u <> None -> edge cnt nbr u v -> mget lb v <> None;
  o_part : forall u w ku kw, mget lb u = Some ku -> mget lb w = Some kw -> (ku = kw <-> conn cnt nbr u w);
  o_sync : forall v, mget vi v = None <-> mget lb v = None;
  (* component numbers are handed out in order: every number below c is in use *)
  o_used : forall k, k < c -> exists v, In v vs /\ mget lb v = Some k
}.

Lemma closed_conn lb vi c : OInv lb vi c -> forall u w, conn cnt nbr u w -> mget lb u <> None -> mget lb w <> None.
Proof. intros O u w H. induction H; auto. intros Hu. apply IHconn. eapply (o_closed lb vi c O); eauto. Qed.

Lemma outer_step_inv lb vi c v : OInv lb vi c -> In v vs ->
  exists lb' vi' c', dfs_outer_step cnt nbr fuel (Some (lb, vi, c)) v = Some (lb', vi', c') /\
  OInv lb' vi' c' /\ mget lb' v <> None /\ (forall x, mget lb x <> None -> mget lb' x <> None) /\ c <= c'.
Proof.
  intros O Hv. cbn [dfs_outer_step]. destruct (mget lb v) as [kv0|] eqn:E.
  - exists lb, vi, c. split; [reflexivity|]. split; [exact O|]. split; [rewrite E; discriminate|]. split; [auto|lia].
  - assert (LT : forall x k, mget lb x = Some k -> k <> c) by (intros x k Hk; apply (o_lt lb vi c O) in Hk; lia).
    pose proof (dfs_component cnt nbr edge_sym lb vi v c E LT (o_closed lb vi c O) (o_sync lb vi c O)
                  vs vs_nodup Hv edge_in fuel fuel_ok) as D. cbv zeta in D.
    fold (init lb vi v). 
    set (s' := dfs_run cnt nbr c fuel (init lb vi v)) in *.
    destruct D as [ES [Hc [Hext [Hold Hsync]]]]. rewrite ES.
    exists (d_label s'), (d_vidx s'), (N.succ c). split; [reflexivity|].
    unfold lab, vix in *.
    assert (Old : forall x k, mget (d_label s') x = Some k -> mget lb x = Some k \/ (k = c /\ conn cnt nbr v x)).
    { intros x k Hk. destruct (N.eq_dec k c) as [->|N0]; [right; split; auto; apply Hc; auto|left; apply Hold; auto]. }
    split; [|split; [|split]].
    + constructor.
      * intros x kk Hk. destruct (Old x kk Hk) as [L|[-> _]]; [apply (o_lt lb vi c O) in L; lia|lia].
      * intros u w Hu Hw. destruct (mget (d_label s') u) as [ku|] eqn:Eu; [|congruence].
        destruct (Old u ku Eu) as [L|[-> Cu]].
        -- assert (mget lb w <> None) by (eapply (o_closed lb vi c O); eauto; congruence).
           destruct (mget lb w) as [kw|] eqn:Ew; [|congruence]. rewrite (Hext _ _ Ew). discriminate.
        -- assert (C : conn cnt nbr v w) by (eapply conn_trans; [exact Cu|econstructor; [exact Hw|constructor]]).
           apply Hc in C. rewrite C. discriminate.
      * intros u w ku kw Eu Ew.
        destruct (Old u ku Eu) as [Lu|[-> Cu]], (Old w kw Ew) as [Lw|[-> Cw]].
        -- apply (o_part lb vi c O); auto.
        -- split; [intros ->; apply (o_lt lb vi c O) in Lu; lia|].
           intros Huw. exfalso. assert (mget lb w <> None) by (eapply closed_conn; eauto; congruence).
           destruct (mget lb w) as [k2|] eqn:E2; [|congruence]. rewrite (Hext _ _ E2) in Ew. inversion Ew; subst.
           apply (o_lt lb vi c O) in E2. lia.
        -- split; [intros <-; apply (o_lt lb vi c O) in Lw; lia|].
           intros Huw. exfalso.
           assert (mget lb u <> None) by (eapply closed_conn; [eauto|apply conn_sym; eauto|congruence]).
           destruct (mget lb u) as [k2|] eqn:E2; [|congruence]. rewrite (Hext _ _ E2) in Eu. inversion Eu; subst.
           apply (o_lt lb vi c O) in E2. lia.
        -- split; auto. intros _. eapply conn_trans; [apply conn_sym; eauto|exact Cw].
      * exact Hsync.
      * intros k Hk. destruct (N.eq_dec k c) as [->|N0].
        -- exists v. split; [exact Hv|]. apply Hc. constructor.
        -- destruct (o_used lb vi c O k ltac:(lia)) as [x [Hx Lx]]. exists x. split; auto.
    + assert (H : mget (d_label s') v = Some c) by (apply Hc; constructor). congruence.
    + intros x Hx. destruct (mget lb x) as [k|] eqn:Ex; [|congruence]. rewrite (Hext _ _ Ex). discriminate.
    + lia.
Qed.

Theorem dfs_partition l : forall lb vi c, OInv lb vi c -> (forall v, In v l -> In v vs) ->
  exists lb' vi' c', fold_left (dfs_outer_step cnt nbr fuel) l (Some (lb, vi, c)) = Some (lb', vi', c') /\
  OInv lb' vi' c' /\ (forall v, In v l -> mget lb' v <> None) /\ (forall x, mget lb x <> None -> mget lb' x <> None).
Proof.
  induction l as [|v l IH]; intros lb vi c O Hl; cbn [fold_left].
  - exists lb, vi, c. split; [reflexivity|]. split; [exact O|]. split; [intros v []|auto].
  - destruct (outer_step_inv lb vi c v O (Hl v (or_introl eq_refl))) as [lb1 [vi1 [c1 [E [O1 [Lv [Mono _]]]]]]].
    rewrite E. destruct (IH lb1 vi1 c1 O1 (fun x Hx => Hl x (or_intror Hx))) as [lb2 [vi2 [c2 [E2 [O2 [All Mono2]]]]]].
    exists lb2, vi2, c2. split; [exact E2|]. split; [exact O2|]. split; [|auto].
    intros x [<-|Hx]; auto.
Qed.

Lemma oinv_empty : OInv mempty mempty 0.
Proof.
  constructor; intros.
  - rewrite mget_empty in H. discriminate.
  - rewrite mget_empty in H. congruence.
  - rewrite mget_empty in H. discriminate.
  - rewrite !mget_empty. tauto.
  - lia.
Qed.
End Outer.

Lemma nseq_in : forall len start v, In v (nseq start len) <-> start <= v < start + N.of_nat len.
Proof.
  induction len as [|len IH]; intros start v; cbn [nseq In].
  - lia.
  - rewrite IH. lia.
Qed.
Lemma nseq_nodup : forall len start, NoDup (nseq start len).
Proof.
  induction len as [|len IH]; intros start; cbn [nseq]; constructor; auto.
  rewrite nseq_in. lia.
Qed.
Lemma nseq_length len : forall start, length (nseq start len) = len.
Proof. induction len; intros; cbn [nseq length]; auto. Qed.

(* the labelling loop over all vertices 0..n-1 from UNDEFINED arrays: with the fuel computed by the
   model it always returns; every vertex is labelled; labels are equal exactly on connected
   vertices; the labels are 0..c-1, all used *)
Theorem dfs_all_spec cnt nbr n fuel :
  (forall u v, edge cnt nbr u v -> edge cnt nbr v u) ->
  (forall u v, u < N.of_nat n -> edge cnt nbr u v -> v < N.of_nat n) ->
  sumw (fun v => 2 * cnt v + 1) (nseq 0 n) + 1 <= N.pos fuel ->
  exists lb vi c, dfs_all cnt nbr fuel n = Some (lb, vi, c) /\
    (forall v, v < N.of_nat n -> exists k, mget lb v = Some k /\ k < c) /\
    (forall u w ku kw, mget lb u = Some ku -> mget lb w = Some kw -> (ku = kw <-> conn cnt nbr u w)) /\
    (forall k, k < c -> exists v, v < N.of_nat n /\ mget lb v = Some k).
Proof.
  intros Sym Cl F. unfold dfs_all.
  assert (EI : forall u v, In u (nseq 0 n) -> edge cnt nbr u v -> In v (nseq 0 n)).
  { intros u v Hu He. apply nseq_in. apply nseq_in in Hu. pose proof (Cl u v ltac:(lia) He). lia. }
  destruct (dfs_partition cnt nbr Sym (nseq 0 n) (nseq_nodup n 0) EI fuel F (nseq 0 n) mempty mempty 0
              (oinv_empty cnt nbr (nseq 0 n) fuel F) (fun v H => H)) as [lb [vi [c [E [O [All _]]]]]].
  exists lb, vi, c. split; [exact E|]. split; [|split].
  - intros v Hv. assert (H : mget lb v <> None) by (apply All; apply nseq_in; lia).
    destruct (mget lb v) as [k|] eqn:Ek; [|congruence]. exists k. split; auto. eapply (o_lt _ _ _ _ _ _ O); eauto.
  - apply (o_part _ _ _ _ _ _ O).
  - intros k Hk. destruct (o_used _ _ _ _ _ _ O k Hk) as [v [Hv Lv]]. exists v. split; auto.
    apply nseq_in in Hv. lia.
Qed.

(* the hypotheses of dfs_all_spec are satisfiable on a non-trivial graph: 0 - 1, 2 isolated *)
Example dfs_all_example :
  let cnt := fun v : N => if v <? 2 then 1 else 0 in
  let nbr := fun (v k : N) => 1 - v in
  (forall u v, edge cnt nbr u v -> edge cnt nbr v u) /\
  (forall u v, u < 3 -> edge cnt nbr u v -> v < 3) /\
  sumw (fun v => 2 * cnt v + 1) (nseq 0 3) + 1 <= N.pos 8 /\
  option_map (fun r => map (mget (fst (fst r))) (nseq 0 3)) (dfs_all cnt nbr 8 3) = Some [Some 0; Some 0; Some 1].
Proof.
  cbv zeta. split; [|split; [|split]].
  - intros u v [k [Hk E]]. destruct (N.ltb_spec u 2) as [L|L]; [|lia].
    exists 0. destruct (N.ltb_spec v 2); lia.
  - intros u v _ [k [Hk E]]. lia.
  - vm_compute. discriminate.
  - vm_compute. reflexivity.
Qed.
