(* C10 — scan_delta / augment of min_cost_flow.hpp (line-level model) address capacities by NODE
   PAIRS: for a hop from -> to they read / decrement the first entry of r_cost_cap_backward[from]
   that points at `to` and increment the first entry of r_cost_cap_backward[to] that points at
   `from`, whichever arc the hop used.
   * With an ANTI-PARALLEL companion (arcs u->v and v->u) this is wrong: the forward hop u->v is
     limited by the (zero) flow of v->u, the amount is 0 and the solver never terminates — refuted by
     a two-node balanced graph with non-negative costs.
   * Without a companion the addressing is exact: no entry of [from] points at `to`, so scan_delta is
     not limited and the decrement is a no-op. *)
From Coq Require Import ZArith List Bool Lia ZifyBool.
From Centro Require Import Base.Sx Base.EmdBase Model.Emd Model.EmdMcf Proofs.EmdPotential Proofs.EmdGhost.
Import ListNotations.
Open Scope Z_scope.

(* ---------------------------------------------------------------- the witness *)
Definition w_e : list Z := [2; -2].
Definition w_c : list (list (nat * Z)) := [[(1%nat, 1)]; [(O, 1)]].      (* arcs 0->1 and 1->0, cost 1 each *)

Definition step_state (s : mstep) : mcf_state :=
  match s with MDone st | MMore st => st | MFail => mcf_init [] [] end.
Definition w_s2 : mcf_state := step_state (mcf_step (mcf_init w_e w_c)).
Definition w_s3 : mcf_state := step_state (mcf_step w_s2).

Lemma w_first_steps : mcf_step (mcf_init w_e w_c) = MMore w_s2 /\ mcf_step w_s2 = MMore w_s3.
Proof. split; vm_compute; reflexivity. Qed.
Lemma w_fixpoint : mcf_step w_s3 = MMore w_s3.
Proof. vm_compute. reflexivity. Qed.
Lemma w_no_progress : m_e w_s3 = w_e /\ x_dist (m_x w_s3) = 0.
Proof. split; vm_compute; reflexivity. Qed.

Lemma iter_fixpoint s : mcf_step s = MMore s -> forall k, mcf_iter k s = MMore s.
Proof. intros H. induction k as [|k IH]; cbn [mcf_iter]; [auto|]. rewrite IH. exact IH. Qed.

Lemma w_iter : forall k, (1 <= k)%nat -> mcf_iter k (mcf_init w_e w_c) = MMore w_s3.
Proof.
  destruct w_first_steps as [S1 S2]. pose proof (iter_fixpoint _ w_fixpoint) as FX.
  induction k as [|k IH]; intros Hk; [lia|]. cbn [mcf_iter].
  destruct k as [|k].
  - cbn [mcf_iter]. rewrite S1. exact S2.
  - rewrite IH by lia. apply FX.
Qed.
Lemma w_none_at k : (1 <= k)%nat ->
  match mcf_iter k (mcf_init w_e w_c) with MDone st => Some (x_dist (m_x st), m_x st) | _ => None end = None.
Proof. intros H. rewrite (w_iter k H). reflexivity. Qed.
Lemma w_levels : (1 <= ssp_levels)%nat.
Proof. unfold ssp_levels. lia. Qed.

(* balanced supplies, non-negative costs, a feasible flow of cost 2 exists (2 units over 0->1), yet
   the solver never reaches Done: from the second augmentation on it repeats the same state with
   amount 0 (the C++ loops forever); the model's answer is None at every fuel level *)
Theorem augment_pair_addressing_refuted :
  zsum w_e = 0 /\ (forall l tc, In l w_c -> In tc l -> 0 <= snd tc) /\
  (forall k, (1 <= k)%nat -> mcf_iter k (mcf_init w_e w_c) = MMore w_s3) /\
  m_e w_s3 = w_e /\
  min_cost_flow_ll w_e w_c = None.
Proof.
  split; [reflexivity|]. split.
  - intros l tc [<-|[<-|[]]] [<-|[]]; cbn; lia.
  - split; [exact w_iter|]. split; [apply w_no_progress|]. exact (w_none_at ssp_levels w_levels).
Qed.

(* ---------------------------------------------------------------- exact when there is no companion *)
Section NoCompanion.
Variable nv : nat.
Variable c : list (list (nat * Z)).
Hypothesis LC : length c = nv.

Lemma find_bwd_none l to : (forall en, In en (strip l) -> fst en <> to) -> find_bwd l to = None /\ forall g, upd_first_bwd l to g = l.
Proof.
  induction l as [|en l IH]; intros H; [split; auto|]. cbn [find_bwd upd_first_bwd].
  assert (N : (fst (fst en) =? to)%nat = false).
  { apply Nat.eqb_neq. apply (H (fst (fst en), snd (fst en))). left. reflexivity. }
  rewrite N. destruct IH as [A B]; [intros e0 He; apply H; right; auto|]. split; auto. intros g. rewrite B. reflexivity.
Qed.

(* under the ghost invariant the entries of r_cost_cap_backward[from] are exactly the arcs INTO
   `from`; if no arc  to -> from  exists, the pair (from, to) addresses nothing there *)
Theorem pair_addressing_no_companion pi rf rb from to : ghost nv c pi rf rb -> (from < nv)%nat ->
  (forall a, In a (mk_arcs c) -> ~ (a_from a = to /\ a_to a = from)) ->
  find_bwd (nth from rb []) to = None /\ forall g, upd_first_bwd (nth from rb []) to g = nth from rb [].
Proof.
  intros [_ [_ [_ G2]]] Hf NC. apply find_bwd_none. rewrite G2 by auto. unfold bwd_of.
  intros en Hen. apply in_flat_map in Hen. destruct Hen as [a [Ha Hin]].
  destruct (a_to a =? from)%nat eqn:E; [|destruct Hin]. destruct Hin as [<-|[]]. cbn [fst].
  apply Nat.eqb_eq in E. intros X. apply (NC a Ha). auto.
Qed.
End NoCompanion.

Theorem augment_pair_addressing_refuted_ex :
  exists e c st, zsum e = 0 /\ (forall l tc, In l c -> In tc l -> 0 <= snd tc) /\
    (exists a b, In a (mk_arcs c) /\ In b (mk_arcs c) /\ a_from a = a_to b /\ a_to a = a_from b) /\
    (forall k, (1 <= k)%nat -> mcf_iter k (mcf_init e c) = MMore st) /\ m_e st = e /\
    min_cost_flow_ll e c = None.
Proof.
  exists w_e, w_c, w_s3. destruct augment_pair_addressing_refuted as [A [B [C [D E]]]].
  split; auto. split; auto. split; [|auto].
  exists {| a_from := 0; a_to := 1; a_cost := 1; a_fp := 0; a_fm := 0 |},
         {| a_from := 1; a_to := 0; a_cost := 1; a_fp := 0; a_fm := 0 |}.
  repeat split; cbn; auto.
Qed.
