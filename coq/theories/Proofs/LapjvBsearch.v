(* C01 — phase 4 piece: the binary search of _lapjv.pyx:470-482 on a row of the ragged array always finds a
   listed column (its `None` outcome - falling off the C function without a return - is unreachable), because
   lapjv() sorts every row by column (lexsort((j, i))) and no pair is listed twice. *)
From Coq Require Import ZArith List Bool Lia ZifyBool Arith Sorted.
From Centro Require Import Base.Sx Model.Lapjv Spec.Lapjv Proofs.LapjvPhases Proofs.LapjvArr Proofs.LapjvRows.
Import ListNotations.
Open Scope Z_scope.

Definition mono (js : list nat) : Prop :=
  forall a b, (a < b)%nat -> (b < length js)%nat -> (nth a js 0 < nth b js 0)%nat.

Lemma ssorted_mono js : StronglySorted lt js -> mono js.
Proof.
  induction 1 as [|h r SS IH F]; intros a b Hab Hb; cbn [length] in Hb; [lia|].
  destruct b as [|b]; [lia|]. destruct a as [|a]; cbn [nth].
  - rewrite Forall_forall in F. apply F. apply nth_In. lia.
  - apply IH; lia.
Qed.

Theorem bsearch_found js val : mono js -> forall fuel lo hi k,
  0 <= lo -> hi < Z.of_nat (length js) -> lo <= Z.of_nat k <= hi -> nth k js 0%nat = val ->
  (Z.to_nat (hi - lo + 1) <= fuel)%nat ->
  exists k', bsearch fuel js lo hi val = Some k' /\ nth k' js 0%nat = val /\ lo <= Z.of_nat k' <= hi.
Proof.
  intros M. induction fuel as [|f IH]; intros lo hi k Hlo Hhi Hk Hv Hf; [lia|].
  cbn [bsearch]. destruct (Z.leb_spec lo hi) as [L|L]; [|lia].
  set (mid := (lo + hi) / 2).
  assert (Hmid : lo <= mid <= hi) by (unfold mid; split; [apply Z.div_le_lower_bound|apply Z.div_le_upper_bound]; lia).
  destruct (Nat.eqb_spec val (nth (Z.to_nat mid) js 0%nat)) as [E|NE].
  { exists (Z.to_nat mid). split; [reflexivity|]. split; [auto|lia]. }
  destruct (Nat.ltb_spec (nth (Z.to_nat mid) js 0%nat) val) as [Lt|Ge].
  - (* the column is to the right of mid *)
    assert (Z.of_nat k > mid).
    { destruct (Z_gt_le_dec (Z.of_nat k) mid); auto. exfalso.
      destruct (Nat.eq_dec k (Z.to_nat mid)) as [->|Nk]; [lia|].
      assert (nth k js 0 < nth (Z.to_nat mid) js 0)%nat by (apply M; lia). lia. }
    destruct (IH (mid + 1) hi k) as [k' [A [B C]]]; auto; try lia. exists k'. split; [exact A|]. split; [exact B|lia].
  - assert (Z.of_nat k < mid).
    { destruct (Z_lt_ge_dec (Z.of_nat k) mid); auto. exfalso.
      destruct (Nat.eq_dec k (Z.to_nat mid)) as [->|Nk]; [lia|].
      assert (nth (Z.to_nat mid) js 0 < nth k js 0)%nat by (apply M; lia). lia. }
    destruct (IH lo (mid - 1) k) as [k' [A [B C]]]; auto; try lia. exists k'. split; [exact A|]. split; [exact B|lia].
Qed.

(* ---------------------------------------------------------------- rows are sorted by column *)

Lemma ins_j_sorted e l : StronglySorted lt (map fst l) -> ~ In (fst e) (map fst l) ->
  StronglySorted lt (map fst (ins_j e l)).
Proof.
  induction l as [|h r IH]; intros SS Nin; cbn [ins_j map]; [repeat constructor|].
  cbn [map] in SS, Nin. inversion SS as [|? ? SS' F]; subst.
  destruct (Nat.ltb_spec (fst e) (fst h)) as [Lt|Ge]; cbn [map].
  - constructor; [exact SS|]. constructor; [exact Lt|].
    rewrite Forall_forall in *. intros a Ha. specialize (F a Ha). lia.
  - assert (fst h < fst e)%nat by (destruct (Nat.eq_dec (fst e) (fst h)); [exfalso; apply Nin; left; auto|lia]).
    constructor; [apply IH; auto; intros Hin; apply Nin; right; auto|].
    rewrite Forall_forall in *. intros a Ha. apply in_map_iff in Ha as [p [<- Hp]].
    apply ins_j_in in Hp as [->|Hp]; [exact H|]. apply F. apply in_map. exact Hp.
Qed.

Lemma row_of_sorted i l : forall acc,
  StronglySorted lt (map fst acc) -> NoDup (map fst l) ->
  (forall t, In t l -> t_i t = i -> ~ In (t_j t) (map fst acc)) ->
  StronglySorted lt (map fst (row_of i l acc)).
Proof.
  induction l as [|t r IH]; intros acc SS Nl Hd; cbn [row_of]; auto.
  cbn [map] in Nl. inversion Nl as [|? ? Nin Nl']; subst.
  destruct (Nat.eqb_spec (t_i t) i) as [E|NE].
  - apply IH; auto.
    + apply ins_j_sorted; auto. cbn [fst]. apply Hd; [left; auto|auto].
    + intros t' Hin' Ei' Hc. apply in_map_iff in Hc as [p [Ep Hp]]. apply ins_j_in in Hp as [->|Hp].
      * cbn [fst] in Ep. apply Nin. apply in_map_iff. exists t'. split; auto.
        unfold t_i, t_j in *. destruct t' as [[a b] c], t as [[a' b'] c']. cbn in *. congruence.
      * apply (Hd t' (or_intror Hin') Ei'). rewrite <- Ep. apply in_map. exact Hp.
  - apply IH; auto. intros t' Hin'. apply Hd. right. exact Hin'.
Qed.

Theorem cost_at_listed n tri i j c :
  NoDup (map fst tri) -> In (j, c) (row (rows_of n tri) i) ->
  exists c', cost_at (rowget (rows_of n tri) i) j = Some c' /\ In (j, c') (row (rows_of n tri) i).
Proof.
  intros Hp Hin. unfold row in *. set (r := rowget (rows_of n tri) i) in *.
  assert (M : mono (map fst r)).
  { apply ssorted_mono. unfold r. rewrite rowget_rows_of. destruct (i <? n)%nat; [|constructor].
    apply row_of_sorted; [constructor|exact Hp|intros t _ _ []]. }
  destruct (In_nth _ _ (0%nat, NaN) Hin) as [k [Hk Ek]].
  assert (Ej : nth k (map fst r) 0%nat = j).
  { rewrite (nth_indep _ 0%nat (fst (0%nat, NaN))) by (rewrite map_length; auto). rewrite map_nth, Ek. reflexivity. }
  unfold cost_at.
  assert (Hlen : Z.of_nat (length r) - 1 < Z.of_nat (length (map fst r))) by (rewrite map_length; lia).
  assert (Hrange : 0 <= Z.of_nat k <= Z.of_nat (length r) - 1) by lia.
  assert (Hfuel : (Z.to_nat (Z.of_nat (length r) - 1 - 0 + 1) <= S (length r))%nat) by lia.
  destruct (bsearch_found (map fst r) j M (S (length r)) 0 (Z.of_nat (length r) - 1) k (Z.le_refl 0) Hlen Hrange Ej Hfuel)
    as [k' [E [Ek' Rk']]].
  rewrite E. exists (nth k' (map snd r) NaN). split; auto.
    assert (Hk' : (k' < length r)%nat) by lia.
    assert (Ep : nth k' r (0%nat, NaN) = (j, nth k' (map snd r) NaN)).
    { rewrite (surjective_pairing (nth k' r (0%nat, NaN))). f_equal.
      - rewrite <- Ek'. rewrite (nth_indep _ 0%nat (fst (0%nat, NaN))) by (rewrite map_length; auto). rewrite map_nth. reflexivity.
      - rewrite (nth_indep _ NaN (snd (0%nat, NaN))) by (rewrite map_length; auto). rewrite map_nth. reflexivity. }
  rewrite <- Ep. apply nth_In. exact Hk'.
Qed.

(* the slackness loop at the end of augment (:455-459) is defined whenever every x[i] is a listed column of row i *)
Theorem final_u_defined n tri v : NoDup (map fst tri) -> forall x,
  length x = n -> (forall i, (i < n)%nat -> exists c, In (nth i x n, c) (row (rows_of n tri) i)) ->
  exists u, final_u (rows_of n tri) x v = Some u /\ length u = n.
Proof.
  intros Hp. unfold rows_of.
  assert (G : forall k a x, length x = k -> (a + k <= n)%nat ->
            (forall t, (t < k)%nat -> exists c, In (nth t x n, c) (row (rows_of n tri) (a + t))) ->
            exists u, final_u (map (fun i => row_of i tri []) (seq a k)) x v = Some u /\ length u = k).
  { induction k as [|k IH]; intros a x Lx Hak Hl.
    - destruct x; [|discriminate]. exists []. split; reflexivity.
    - destruct x as [|j xr]; [discriminate|]. cbn [seq map final_u].
      destruct (Hl 0%nat ltac:(lia)) as [c Hc]. cbn [nth] in Hc. rewrite Nat.add_0_r in Hc.
      destruct (cost_at_listed n tri a j c Hp Hc) as [c' [E _]].
      rewrite rowget_rows_of in E. replace (a <? n)%nat with true in E by (symmetry; apply Nat.ltb_lt; lia).
      rewrite E.
      destruct (IH (S a) xr) as [u [Eu Lu]]; [cbn in Lx; lia|lia| |].
      + intros t Ht. destruct (Hl (S t) ltac:(lia)) as [c0 H0]. cbn [nth] in H0.
        replace (a + S t)%nat with (S a + t)%nat in H0 by lia. eauto.
      + rewrite Eu. eexists. split; [reflexivity|]. cbn [length]. lia. }
  intros x Lx Hl. apply (G n 0%nat x Lx); auto.
Qed.
