(* C01 — aug_dist_inv: DistHyp holds (the initial state of aug_row satisfies K, then aug_loop_dist), hence
   "returns => optimal" for the (Fixed, eps 0) model without any assumption on the Dijkstra loop. *)
From Coq Require Import ZArith List Bool Lia ZifyBool Arith.
From Centro Require Import Base.Sx Model.Lapjv Spec.Lapjv Proofs.LapjvCert Proofs.LapjvPhases Proofs.LapjvArr Proofs.LapjvRows
  Proofs.LapjvAugMarks Proofs.LapjvAugFlip Proofs.LapjvAugPred Proofs.LapjvAugRows Proofs.LapjvAugPrice Proofs.LapjvAugDist
  Proofs.LapjvAugOpt Proofs.LapjvFixedPerm Proofs.LapjvArrExt Proofs.LapjvBsearch.
Import ListNotations.
Open Scope Z_scope.

Section Hyp.
Variables (n : nat) (rows : list (list (nat * ext))) (I : Z).
Hypothesis Rfin : forall i j c, In (j, c) (row rows i) -> (j < n)%nat /\ exists z, c = Fin z.
Hypothesis Rnodup : forall i, NoDup (map fst (row rows i)).

Theorem aug_dist_inv : DistHyp n rows (Fin I).
Proof.
  intros s r d o p g' j1 HS HI Hr Fr Hd Ho EI EL.
  pose proof HS as [Lx [Ly [Ld [Lo [Lp PI]]]]]. pose proof HI as [_ [_ [FV _]]].
  pose proof (aug_init_row_dist r n (m_v s) FV (rowget rows r) (repeat (Fin I) n) (m_ontodo s) (m_pred s)
                (Rnodup r) (fun j c H => Rfin r j c H) ltac:(apply repeat_length) Lo Lp) as AD.
  pose proof (aug_init_row_marks r n rows (m_v s) (fun i j c H => proj1 (Rfin i j c H)) (rowget rows r) (repeat (Fin I) n)
                (m_ontodo s) (m_pred s) (fun j c H => proj1 (Rfin r j c H)) Lo) as AM.
  rewrite EI in AD, AM. destruct AD as [Ld' [Lp' [In' Out']]]. destruct AM as [Lo' _].
  assert (RowFin : forall j c, In (j, c) (rowget rows r) -> exists z, c = Fin z /\ In (j, Fin z) (row rows r)).
  { intros j c H. destruct (Rfin r j c H) as [_ [z ->]]. exists z. split; auto. }
  assert (Cols : forall j, In j (map fst (rowget rows r)) -> exists z, In (j, Fin z) (row rows r)).
  { intros j Hj. apply in_map_iff in Hj as [[j' c] [<- Hin]]. destruct (RowFin j' c Hin) as [z [_ H]]. exists z. exact H. }
  assert (OutD : forall j, (j < n)%nat -> ~ In j (map fst (rowget rows r)) -> gete d j = Fin I).
  { intros j Hj Nj. destruct (Out' j Nj) as [E _]. rewrite E. unfold gete.
    rewrite (nth_indep _ NaN (Fin I)) by (rewrite repeat_length; auto). apply nth_repeat. }
  set (g0 := mkAug d p (m_done s) o (map fst (rowget rows r)) [] [] (Fin I)).
  assert (K0 : K r n rows (m_y s) (m_v s) I g0 I).
  { constructor; unfold g0; cbn [g_d g_pred g_done g_ontodo g_todo g_scan g_ready g_umin app].
    - unfold Marks. cbn [g_done g_ontodo g_todo g_scan g_ready app].
      refine (conj Ld (conj Lo' (conj (Rnodup r) (conj _ (conj (NoDup_nil _) _))))).
      + intros j Hj. destruct (Cols j Hj) as [z Hz]. split; [apply (Rfin r j _ Hz)|apply (In' j z Hz)].
      + intros j [].
    - reflexivity.
    - lia.
    - intros j [].
    - intros j [].
    - intros H. contradiction.
    - exact Ld'.
    - intros j Hj. destruct (in_dec Nat.eq_dec j (map fst (rowget rows r))) as [Hin|Nin].
      + destruct (Cols j Hin) as [z Hz]. destruct (In' j z Hz) as [E _]. eauto.
      + rewrite (OutD j Hj Nin). eauto.
    - exact Lp'.
    - intros j Hj Nt _. unfold dz. rewrite (OutD j Hj Nt). reflexivity.
    - intros j Hj E. destruct (in_dec Nat.eq_dec j (map fst (rowget rows r))) as [Hin|Nin]; auto.
      exfalso. destruct (Out' j Nin) as [_ [Eo _]]. rewrite Eo in E. apply (Ho j E).
    - intros j Hj E. exfalso. apply (Hd j E).
    - intros j Hj. rewrite app_nil_r in Hj. destruct (Cols j Hj) as [z Hz]. destruct (In' j z Hz) as [E1 [E2 _]].
      left. split; auto. exists z. split; auto. unfold dz. rewrite E1. reflexivity.
    - intros j []. }
  assert (F0 : Fd r rows (m_v s) (g_d g0)).
  { intros j c Hc. unfold g0. cbn [g_d]. destruct (In' j c Hc) as [E _]. unfold dz. rewrite E. lia. }
  assert (G0 : Gd n rows (m_y s) (m_v s) (g_d g0) (g_ready g0)) by (intros jh j c ch []).
  exact (aug_loop_dist r n rows (m_x s) (m_y s) (m_v s) I Rfin Rnodup HI FV (S (S n)) g0 I g' j1 K0 F0 G0 EL).
Qed.
End Hyp.

(* ---------------------------------------------------------------- the model's inf is a finite number *)

Lemma esum_fin l : (forall e, In e l -> exists z, e = Fin z) -> exists z, esum l = Fin z.
Proof.
  induction l as [|a r IH]; intros H; cbn [esum]; [eauto|].
  destruct (H a (or_introl eq_refl)) as [za ->]. destruct IH as [zr ->]; [intros; apply H; right; auto|]. cbn. eauto.
Qed.

Lemma model_inf_fin n tri : exists I, model_inf n tri = Fin I.
Proof.
  unfold model_inf. destruct (esum_fin (concat (map (map snd) (rows_of n tri)))) as [z ->]; [|cbn; eauto].
  intros e He. apply in_concat in He as [l [Hl He]]. apply in_map_iff in Hl as [rw [<- Hrw]].
  unfold rows_of in Hrw. apply in_map_iff in Hrw as [i [<- _]]. apply in_map_iff in He as [[j c] [<- Hin]].
  apply row_of_in in Hin as [[]|[t [_ [_ E]]]]. inversion E; subst. cbn. eauto.
Qed.

Theorem lapjv_fixed_optimal n tri :
  (forall t, In t tri -> (t_i t < n)%nat /\ (t_j t < n)%nat) ->
  NoDup (map fst tri) ->
  (forall j, (j < n)%nat -> exists t, In t tri /\ t_j t = j) ->
  has_PM n tri ->
  (forall i, (i < n)%nat -> (2 <= length (filter (fun t => (t_i t =? i)%nat) tri))%nat) ->
  forall epsr k x y u v, 0 <= epsr ->
  lapjv Fixed 0 epsr k n tri = Some (x, y, u, v) -> Optimal n tri x.
Proof.
  intros Hrange Hpairs Hcols HPM Hc2 epsr k x y u v Her E.
  destruct (model_inf_fin n tri) as [I EI].
  apply (lapjv_fixed_optimal_if_returns n tri Hrange Hpairs Hcols HPM Hc2) with (epsr := epsr) (k := k) (y := y) (u := u) (v := v); auto.
  rewrite EI. apply aug_dist_inv; [apply (rows_fin n tri Hrange)|apply (rows_nodup n tri Hpairs)].
Qed.

From Centro Require Import Proofs.LapjvGrid.
Corollary lapjv_fixed_optimal_grid n tri g eps epsr k x y u v :
  (forall t, In t tri -> (t_i t < n)%nat /\ (t_j t < n)%nat) ->
  NoDup (map fst tri) ->
  (forall j, (j < n)%nat -> exists t, In t tri /\ t_j t = j) ->
  has_PM n tri ->
  (forall i, (i < n)%nat -> (2 <= length (filter (fun t => (t_i t =? i)%nat) tri))%nat) ->
  0 <= eps < g -> 0 <= epsr < g -> (forall t, In t tri -> (g | t_c t)) ->
  lapjv Fixed eps epsr k n tri = Some (x, y, u, v) -> Optimal n tri x.
Proof.
  intros Hrange Hpairs Hcols HPM Hc2 He Her Hg E.
  rewrite (eps_irrelevant_on_grid g Fixed eps epsr k n tri He Her Hg) in E.
  apply (lapjv_fixed_optimal n tri Hrange Hpairs Hcols HPM Hc2 0 k x y u v); [lia|exact E].
Qed.

(* ---------------------------------------------------------------- the cost lookup of a popped column never fails *)

Theorem aug_lookup_defined n tri x y v j :
  (forall t, In t tri -> (t_i t < n)%nat /\ (t_j t < n)%nat) -> NoDup (map fst tri) ->
  InvE n (rows_of n tri) x y v -> (j < n)%nat -> getn y j n <> n ->
  exists c, cost_at (rowget (rows_of n tri) (getn y j n)) j = Some c.
Proof.
  intros Hrange Hpairs [_ [_ [_ [SL _]]]] Hj Ny.
  destruct (SL j _ Hj eq_refl Ny) as [_ [_ [c [Hc _]]]].
  destruct (cost_at_listed n tri (getn y j n) j (Fin c) Hpairs Hc) as [c' [E _]]. eauto.
Qed.
