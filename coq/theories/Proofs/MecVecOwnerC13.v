(* C13 — the vectorised loop of minimum_enclosing_circle (C14's Model/CircleVec.v): every object's S0 / S1
   stay among its own rows through a pass ("owner is preserved by vstep"), hence C14's per-pass
   independence lifts to any number of passes from the initial invariant alone. *)
From Coq Require Import ZArith List Bool Lia ZifyBool.
From Centro Require Import Base.Sx Base.VecC13 Proofs.VecC13Proofs Model.Circle Model.CircleVec
  Proofs.CircleVecProofs Proofs.CircleVecStep Model.MecFeretC13.
Import ListNotations.
Open Scope Z_scope.

Section Owner.
  Variable rows : list (Z * cpt).
  Variable app : list Z.

  Lemma apply_owner st k : owner app st k -> owner app (apply_action st k (decide rows app st k)) k.
  Proof.
    intros [O0 O1]. destruct (decide rows app st k) as [|r|g|g] eqn:D; cbn [apply_action]; unfold owner; cbn [v_s0 v_s1].
    - split; assumption.
    - split; assumption.
    - split; [|exact O1]. rewrite nthz_setz. rewrite Nat.eqb_refl. cbn [andb].
      destruct (Z.to_nat k <? length (v_s0 st))%nat; [|exact O0].
      apply (move_own rows app st k g). left; exact D.
    - split; [exact O0|]. rewrite nthz_setz. rewrite Nat.eqb_refl. cbn [andb].
      destruct (Z.to_nat k <? length (v_s1 st))%nat; [|exact O1].
      apply (move_own rows app st k g). right; exact D.
  Qed.

  (* owner is preserved by a pass *)
  Theorem vstep_owner n st :
    (forall k', 0 <= k' < Z.of_nat n -> owner app st k') ->
    forall k, 0 <= k < Z.of_nat n -> owner app (vstep rows app n st) k.
  Proof.
    intros Ow k Rk. destruct (pass_own rows app n st k Rk Ow) as [(_ & A0 & A1 & _) _].
    destruct (apply_owner st k (Ow k Rk)) as [P0 P1]. unfold owner. rewrite A0, A1. split; assumption.
  Qed.

  Lemma vsteps_owner n : forall m st,
    (forall k', 0 <= k' < Z.of_nat n -> owner app st k') ->
    forall k, 0 <= k < Z.of_nat n -> owner app (vsteps rows app n m st) k.
  Proof.
    induction m as [|m IH]; intros st Ow k Rk; cbn [vsteps]; [apply Ow; exact Rk|].
    apply IH; [|exact Rk]. intros k' Rk'. apply vstep_owner; assumption.
  Qed.

  (* m passes: two global states that agree on object k's own entries still do, whatever the other
     objects' entries are - from the initial invariant alone *)
  Theorem mec_vec_passes_independent_owner n k m st st' :
    0 <= k < Z.of_nat n -> samelen st st' -> agree app k st st' ->
    (forall k', 0 <= k' < Z.of_nat n -> owner app st k') ->
    (forall k', 0 <= k' < Z.of_nat n -> owner app st' k') ->
    agree app k (vsteps rows app n m st) (vsteps rows app n m st').
  Proof.
    revert st st'. induction m as [|m IH]; intros st st' Rk SL Ag Ow Ow'; cbn [vsteps]; [exact Ag|].
    apply IH; auto.
    - eapply samelen_trans; [rewrite vstep_pass; apply pass_samelen|].
      eapply samelen_trans; [exact SL|]. apply samelen_sym. rewrite vstep_pass. apply pass_samelen.
    - apply vstep_independent; auto.
    - intros k' Rk'. apply vstep_owner; assumption.
    - intros k' Rk'. apply vstep_owner; assumption.
  Qed.

  (* idle frame: an object that has finished (keep_me false) is not touched by any later pass *)
  Lemma idle_frame n st k :
    0 <= k < Z.of_nat n -> (forall k', 0 <= k' < Z.of_nat n -> owner app st k') ->
    nthz (v_keep st) k false = false -> agree app k (vstep rows app n st) st.
  Proof.
    intros Rk Ow Hk. destruct (pass_own rows app n st k Rk Ow) as [A _].
    assert (D : decide rows app st k = Idle) by (unfold decide; rewrite Hk; reflexivity).
    rewrite D in A. exact A.
  Qed.
End Owner.

Lemma nth_firstn_lt {A} (d : A) : forall n j (l : list A), (j < n)%nat -> nth j (firstn n l) d = nth j l d.
Proof.
  induction n as [|n IH]; intros j l H; [lia|]. destruct l as [|a t]; [destruct j; reflexivity|].
  destruct j as [|j]; cbn [firstn nth]; [reflexivity|]. apply IH. lia.
Qed.

Lemma nth_map_lt' {A B} (f : A -> B) l k d d' : (k < length l)%nat -> nth k (map f l) d' = f (nth k l d).
Proof. intros H. rewrite (nth_indep _ d' (f d)) by (rewrite map_length; exact H). apply map_nth. Qed.

Lemma seg_nth {A} (a s : list A) off c j d :
  0 <= off -> segment a off c = s -> (j < length s)%nat -> nth (Z.to_nat off + j) a d = nth j s d.
Proof.
  intros Ho <- Hj. unfold segment in *.
  assert (Hc : (j < Z.to_nat c)%nat) by (rewrite firstn_length in Hj; lia).
  rewrite nth_firstn_lt by exact Hc.
  assert (Hl : (Z.to_nat off <= length a)%nat).
  { rewrite firstn_length, skipn_length in Hj. lia. }
  rewrite <- (firstn_skipn (Z.to_nat off) a) at 1.
  rewrite app_nth2 by (rewrite firstn_length; lia).
  rewrite firstn_length. f_equal. lia.
Qed.

(* the initial state of the vectorised model satisfies C14's owner invariant for every object with at
   least two hull rows *)
Theorem vec_init_owner indexes blocks k l b :
  NoDup indexes -> (forall j, In j indexes -> 0 <= j) -> length indexes = length blocks ->
  nth_error indexes k = Some l -> nth_error blocks k = Some b -> (2 <= length b)%nat ->
  let t := vec_init indexes blocks in
  owner (snd (fst t)) (snd t) (Z.of_nat k).
Proof.
  intros ND Hnn HL Hk Hb H2 t.
  destruct (own_block indexes blocks k l b HL Hk Hb) as [off [Ho Hs]].
  pose proof (own_anti indexes k l ND Hnn Hk) as Ha.
  assert (Hoff : 0 <= off).
  { rewrite offsets_scan in Ho. clear - Ho.
    assert (G : forall (c : list Z) s k off, (forall x, In x c -> 0 <= x) -> nth_error (excl_scan s c) k = Some off -> s <= off).
    { induction c as [|x c IH]; intros s0 [|k0] off0 Hc H; cbn [excl_scan nth_error] in H; try discriminate.
      - injection H as <-. lia.
      - apply IH in H; [|intros y Hy; apply Hc; right; exact Hy]. specialize (Hc x (or_introl eq_refl)). lia. }
    apply (G (map zlenv blocks) 0 k off); [|exact Ho]. intros x Hx. apply in_map_iff in Hx. destruct Hx as [y [<- _]]. unfold zlenv. lia. }
  subst t. unfold vec_init, owner. cbn [fst snd v_s0 v_s1].
  set (rows := hull_rows indexes blocks) in *.
  set (pidx := offsets (map zlenv blocks)) in *.
  assert (P0 : nthz pidx (Z.of_nat k) 0 = off) by (unfold nthz; rewrite Nat2Z.id; apply nth_error_nth; exact Ho).
  assert (P1 : nthz (map (Z.add 1) pidx) (Z.of_nat k) 0 = 1 + off).
  { unfold nthz. rewrite Nat2Z.id. apply nth_error_nth. rewrite nth_error_map, Ho. reflexivity. }
  assert (R : forall j, (j < length b)%nat ->
            nthz (map (fun r : Z * cpt => nthz (anti_index indexes) (fst r) 0) rows) (off + Z.of_nat j) (-1) = Z.of_nat k).
  { intros j Hj. unfold nthz at 1.
    replace (Z.to_nat (off + Z.of_nat j)) with (Z.to_nat off + j)%nat by lia.
    assert (Hlen : (Z.to_nat off + j < length rows)%nat).
    { apply (f_equal (@length _)) in Hs. unfold segment in Hs. rewrite firstn_length, skipn_length, map_length in Hs. lia. }
    rewrite (nth_map_lt' _ rows _ (0, (0, 0)) (-1) Hlen).
    rewrite (seg_nth rows (map (pair l) b) off (zlenv b) j (0, (0, 0)) Hoff Hs) by (rewrite map_length; exact Hj).
    rewrite (nth_map_lt' (pair l) b j (0, 0) (0, (0, 0)) Hj). cbn [fst]. exact Ha. }
  split.
  - rewrite P0. replace off with (off + Z.of_nat 0) by lia. apply R. lia.
  - rewrite P1. replace (1 + off) with (off + Z.of_nat 1) by lia. apply R. lia.
Qed.

Example owner_example : forall k', k' = 0 \/ k' = 1 ->
  let t := vec_init [7; 2] [[(0, 0); (0, 4); (3, 4)]; [(5, 5); (5, 9); (8, 5)]] in
  owner (snd (fst t)) (snd t) k'.
Proof. intros k' [->| ->]; vm_compute; split; reflexivity. Qed.
