(* C06 — the hypotheses of the property theorems are satisfiable on non-trivial inputs. *)
From Coq Require Import ZArith List Bool Lia.
From Centro Require Import Base.Sx Base.LutBits Spec.LutRule Spec.LutDocs Model.Lut Gen.TablesC06
     Proofs.LutPlain Proofs.LutLoop Proofs.LutSparse Proofs.LutDispatch.
Import ListNotations.
Open Scope Z_scope.

Definition ex_img : grid bool := [[true; false; true; true]; [false; true; true; false]; [true; true; false; true]].

Example ex_rect : (0 < length ex_img)%nat /\ rect ex_img.
Proof. split; [cbn; lia|]. split; [reflexivity|]. repeat constructor. Qed.

(* clean is an erosive table, fill an extensive one, life neither *)
Example ex_erosive : erosive t_clean.
Proof. apply erosive_tb_sound. vm_compute. reflexivity. Qed.
Example ex_extensive : extensive t_fill.
Proof. apply extensive_tb_sound. vm_compute. reflexivity. Qed.
Example ex_neither : erosive_tb t_life = false /\ extensive_tb t_life = false.
Proof. vm_compute. split; reflexivity. Qed.

(* pixel ranges of the index theorems: a corner of a 3x4 image *)
Example ex_ranges : 3 <= 3 /\ 3 <= 4 /\ 0 <= 2 < 3 /\ 0 <= 3 < 4.
Proof. lia. Qed.

(* the dispatched computation on the example, through all three paths, is the iterated rule *)
Example ex_paths :
  table_lookup 0 ex_img t_clean false (Some 2%nat) = Some (lut_iter 2 t_clean false ex_img) /\
  table_lookup 0 ex_img t_fill true (Some 2%nat) = Some (lut_iter 2 t_fill true ex_img) /\
  table_lookup 0 ex_img t_life false (Some 2%nat) = Some (lut_iter 2 t_life false ex_img) /\
  lut_iter 1 t_life false ex_img <> ex_img.
Proof.
  destruct ex_rect as [L R].
  split; [apply table_lookup_correct; assumption|].
  split; [apply table_lookup_correct; assumption|].
  split; [apply table_lookup_correct; assumption|].
  intros C. vm_compute in C. discriminate C.
Qed.

(* lut_fix returns on a converging orbit and runs out of fuel on a blinker under life *)
Example ex_fix : lut_fix 10 t_clean false ex_img <> None /\
                 lut_fix 50 t_life false [[false;true;false];[false;true;false];[false;true;false]] = None.
Proof. vm_compute. split; [discriminate|reflexivity]. Qed.
