(* C06 — the plain path of table_lookup: the slicing index for images with a side < 3 and the
   border-value OR masks compute the neighbourhood index of the rule; the iteration loop is
   lut_iter / lut_fix. *)
From Coq Require Import ZArith List Bool Lia ZifyBool.
From Centro Require Import Base.Sx Base.LutBits Spec.LutRule Model.Lut.
Import ListNotations.
Open Scope Z_scope.

(* the gather form of the index on a total image function *)
Definition gpx (b : bool) (H W : Z) (X : Z -> Z -> bool) (p q : Z) : bool :=
  if inr H W p q then X p q else b.
Definition gbits (b : bool) (H W : Z) (X : Z -> Z -> bool) (p q : Z) : list bool :=
  [ gpx b H W X (p - 1) (q - 1); gpx b H W X (p - 1) q; gpx b H W X (p - 1) (q + 1);
    gpx b H W X p (q - 1);       gpx b H W X p q;       gpx b H W X p (q + 1);
    gpx b H W X (p + 1) (q - 1); gpx b H W X (p + 1) q; gpx b H W X (p + 1) (q + 1) ].

Lemma nbits_gbits b X p q : nbits b X p q = gbits b (gH X) (gW X) (rd false X) p q.
Proof. reflexivity. Qed.

Ltac decide_atoms :=
  repeat match goal with
  | |- context[?a <=? ?b] => destruct (Z.leb_spec a b); try (exfalso; lia)
  | |- context[?a <? ?b] => destruct (Z.ltb_spec a b); try (exfalso; lia)
  | |- context[?a =? ?b] => destruct (Z.eqb_spec a b); try (exfalso; lia)
  end; cbn [andb orb negb].

(* ------------------------------------------------------------ slicing path *)
Lemma sladd_add H W X dr dc w f p q :
  sladd H W X dr dc w f p q =
  f p q + (if trange dr H p && trange dc W q then Z.b2z (X (p - dr) (q - dc)) * w else 0).
Proof. unfold sladd. destruct (trange dr H p && trange dc W q); lia. Qed.

Theorem small_index_gather H W X p q :
  0 <= p < H -> 0 <= q < W -> small_index H W X p q = enc (gbits false H W X p q).
Proof.
  intros Hp Hq. unfold small_index. rewrite !sladd_add. unfold zeros, gbits, gpx, inr, trange. cbn [enc].
  change (Z.max 0 (-1)) with 0. change (Z.max 0 0) with 0. change (Z.max 0 1) with 1.
  change (Z.min 0 (-1)) with (-1). change (Z.min 0 0) with 0. change (Z.min 0 1) with 0.
  replace (H + 0) with H by lia. replace (W + 0) with W by lia.
  replace (p - -1) with (p + 1) by lia. replace (q - -1) with (q + 1) by lia.
  replace (p - 0) with p by lia. replace (q - 0) with q by lia.
  assert (Cp : (p = 0 \/ 0 < p) /\ (p = H - 1 \/ p < H - 1)) by lia.
  assert (Cq : (q = 0 \/ 0 < q) /\ (q = W - 1 \/ q < W - 1)) by lia.
  destruct Cp as [[Cp1|Cp1] [Cp2|Cp2]]; destruct Cq as [[Cq1|Cq1] [Cq2|Cq2]];
    decide_atoms; cbn [Z.b2z]; lia.
Qed.

(* ------------------------------------------------------------ border masks *)
Definition orm (c : bool) (m e : Z) : Z := if c then Z.lor e m else e.

Lemma border_or_unfold H W f p q :
  border_or H W f p q = orm (q =? W - 1) 292 (orm (q =? 0) 73 (orm (p =? H - 1) 448 (orm (p =? 0) 7 (f p q)))).
Proof.
  unfold border_or, orm.
  destruct (q =? W - 1), (q =? 0), (p =? H - 1), (p =? 0); reflexivity.
Qed.

Definition mk (out b v : bool) : bool := if out then b else v.

Definition border_chk (x : list bool) : bool :=
  match x with
  | [t; bo; l; r; v0; v1; v2; v3; v4; v5; v6; v7; v8] =>
      orm r 292 (orm l 73 (orm bo 448 (orm t 7
        (enc [mk (t || l) false v0; mk t false v1; mk (t || r) false v2;
              mk l false v3; v4; mk r false v5;
              mk (bo || l) false v6; mk bo false v7; mk (bo || r) false v8])))) =?
      enc [mk (t || l) true v0; mk t true v1; mk (t || r) true v2;
           mk l true v3; v4; mk r true v5;
           mk (bo || l) true v6; mk bo true v7; mk (bo || r) true v8]
  | _ => false
  end.

Lemma border_chk_all : forall_bits 13 border_chk = true.
Proof. vm_compute. reflexivity. Qed.

Lemma border_bits_finite :
  forall t bo l r v0 v1 v2 v3 v4 v5 v6 v7 v8 : bool,
  orm r 292 (orm l 73 (orm bo 448 (orm t 7
    (enc [mk (t || l) false v0; mk t false v1; mk (t || r) false v2;
          mk l false v3; v4; mk r false v5;
          mk (bo || l) false v6; mk bo false v7; mk (bo || r) false v8])))) =
    enc [mk (t || l) true v0; mk t true v1; mk (t || r) true v2;
         mk l true v3; v4; mk r true v5;
         mk (bo || l) true v6; mk bo true v7; mk (bo || r) true v8].
Proof.
  intros. apply Z.eqb_eq.
  exact (forall_bits_spec 13 border_chk border_chk_all [t; bo; l; r; v0; v1; v2; v3; v4; v5; v6; v7; v8] eq_refl).
Qed.

Lemma gbits_flags b H W X p q :
  0 <= p < H -> 0 <= q < W ->
  let t := p =? 0 in let bo := p =? H - 1 in let l := q =? 0 in let r := q =? W - 1 in
  gbits b H W X p q =
    [mk (t || l) b (X (p - 1) (q - 1)); mk t b (X (p - 1) q); mk (t || r) b (X (p - 1) (q + 1));
     mk l b (X p (q - 1)); X p q; mk r b (X p (q + 1));
     mk (bo || l) b (X (p + 1) (q - 1)); mk bo b (X (p + 1) q); mk (bo || r) b (X (p + 1) (q + 1))].
Proof.
  intros Hp Hq. cbv zeta. unfold gbits, gpx, inr, mk.
  assert (Cp : (p = 0 \/ 0 < p) /\ (p = H - 1 \/ p < H - 1)) by lia.
  assert (Cq : (q = 0 \/ 0 < q) /\ (q = W - 1 \/ q < W - 1)) by lia.
  destruct Cp as [[Cp1|Cp1] [Cp2|Cp2]]; destruct Cq as [[Cq1|Cq1] [Cq2|Cq2]];
    decide_atoms; reflexivity.
Qed.

Theorem border_or_gather H W X p q :
  0 <= p < H -> 0 <= q < W ->
  border_or H W (fun p q => enc (gbits false H W X p q)) p q = enc (gbits true H W X p q).
Proof.
  intros Hp Hq. rewrite border_or_unfold.
  rewrite (gbits_flags false H W X p q Hp Hq), (gbits_flags true H W X p q Hp Hq). cbv zeta.
  apply border_bits_finite.
Qed.

(* border_or only looks at the value at the same pixel *)
Lemma border_or_ext H W f g p q : f p q = g p q -> border_or H W f p q = border_or H W g p q.
Proof. intros E. rewrite !border_or_unfold, E. reflexivity. Qed.
