(* C03: soundness of the checker of Spec/PropSpec.v over any monotone cost algebra.
   potential_sound  : no relaxable edge  => every reported distance is a lower bound of every path cost
   tight_chain_sound: verified hint chain => every reported distance/label is realised by a real path
   prop_check_sound : prop_check = true   => Spec *)
From Coq Require Import ZArith List Bool Lia ZifyBool.
From Centro Require Import Spec.PropSpec.
Import ListNotations.
Open Scope Z_scope.

Section Algebra.
Variable K : Type.
Variable le : K -> K -> Prop.
Variable leb : K -> K -> bool.
Variable eqb : K -> K -> bool.
Variable okb : K -> bool.
Variable plus : K -> K -> K.
Variable zero : K.
Variable ok : K -> Prop.

Hypothesis leb_le : forall a b, leb a b = true -> le a b.
Hypothesis eqb_eq : forall a b, eqb a b = true -> a = b.
Hypothesis okb_ok : forall a, okb a = true -> ok a.
Hypothesis le_trans : forall a b c, le a b -> le b c -> le a c.
Hypothesis ok_zero : ok zero.
Hypothesis plus_ok : forall a b, ok a -> ok b -> ok (plus a b).
Hypothesis zero_le : forall a, ok a -> le zero a.
Hypothesis plus_mono : forall a b c, ok a -> ok b -> ok c -> le a b -> le (plus a c) (plus b c).

Variable V : Type.
Variable eqV : V -> V -> bool.
Variable verts : list V.
Variable nbrs : V -> list V.
Variable mask : V -> bool.
Variable lab : V -> Z.
Variable w : V -> V -> K.
Variable lo : V -> Z.
Variable d : V -> option K.

Hypothesis eqV_eq : forall a b, eqV a b = true -> a = b.
Hypothesis nbrs_verts : forall v u, In v verts -> In u (nbrs v) -> In u verts.
Hypothesis w_ok : forall u v, ok (w u v).

Notation edge := (edge V nbrs mask).
Notation is_path := (is_path V nbrs mask).
Notation pcost := (pcost K plus V w).
Notation last_of := (last_of V).
Notation mseed := (mseed V verts mask lab).
Notation reaches := (reaches V verts nbrs mask lab).
Notation active := (active K V mask lab d).
Notation check_vertex := (check_vertex K leb eqb okb plus zero V nbrs mask lab w lo d).
Notation check_out_edges := (check_out_edges K leb plus V nbrs mask lab w d).
Notation chain_set := (chain_set K eqb plus V eqV verts nbrs mask lab w d).
Notation eqVL := (eqVL V eqV).
Notation hint_ok := (hint_ok K eqb plus V eqV nbrs mask w d).
Notation grow := (grow K eqb plus V eqV nbrs mask w d).
Notation prop_check := (prop_check K leb eqb okb plus zero V eqV verts nbrs mask lab w lo d).
Notation Spec := (Spec K le plus zero V verts nbrs mask lab w lo d).

Lemma pcost_app : forall p s acc x,
  pcost acc s (p ++ [x]) = plus (pcost acc s p) (w (last_of s p) x).
Proof. induction p as [|y r IH]; intros s acc x; cbn; [reflexivity | apply IH]. Qed.
Lemma last_of_app : forall p s x, last_of s (p ++ [x]) = x.
Proof. induction p as [|y r IH]; intros s x; cbn; [reflexivity | apply IH]. Qed.
Lemma is_path_app : forall p s x, is_path s p -> edge (last_of s p) x -> is_path s (p ++ [x]).
Proof.
  induction p as [|y r IH]; intros s x Hp He; cbn in *.
  - split; [exact He | exact I].
  - destruct Hp as [H1 H2]. split; [exact H1 | apply IH; assumption].
Qed.

Lemma existsb_eqV : forall v l, existsb (eqV v) l = true -> In v l.
Proof.
  intros v l H. apply existsb_exists in H. destruct H as [x [Hin He]].
  apply eqV_eq in He. subst x. exact Hin.
Qed.

(* ---------- potential: the abstract statement (as in design/prototypes/Potential.v, extended by
   the carrier predicate [ok] and by steps into seeds) ---------- *)
Section Potential.
Variable pot : V -> K.              (* reported distance of a vertex that has one *)
Variable act : V -> Prop.           (* vertices that have a distance *)
Hypothesis pot_ok : forall v, act v -> ok (pot v).
Hypothesis no_relaxable : forall a b, act a -> edge a b -> act b /\ le (pot b) (plus (pot a) (w a b)).

Lemma potential_step : forall p s acc,
  act s -> ok acc -> le (pot s) acc -> is_path s p ->
  act (last_of s p) /\ le (pot (last_of s p)) (pcost acc s p).
Proof.
  induction p as [|x r IH]; intros s acc Ha Hok Hle Hp; cbn [PropSpec.pcost PropSpec.last_of].
  - split; assumption.
  - cbn [PropSpec.is_path] in Hp. destruct Hp as [He Hr].
    destruct (no_relaxable s x Ha He) as [Hax Hlx].
    apply IH; [exact Hax | apply plus_ok; [exact Hok | apply w_ok] | | exact Hr].
    eapply le_trans; [exact Hlx|].
    apply plus_mono; [apply pot_ok; exact Ha | exact Hok | apply w_ok | exact Hle].
Qed.

Lemma potential_sound_abs : forall s p,
  act s -> pot s = zero -> is_path s p ->
  act (last_of s p) /\ le (pot (last_of s p)) (pcost zero s p).
Proof.
  intros s p Ha Hz Hp. apply potential_step; [exact Ha | exact ok_zero | | exact Hp].
  rewrite Hz. apply zero_le. exact ok_zero.
Qed.
End Potential.

(* ---------- the checker ---------- *)
Hypothesis Hverts : forallb check_vertex verts = true.

Lemma cv : forall v, In v verts -> check_vertex v = true.
Proof. intros v Hin. exact (proj1 (forallb_forall _ _) Hverts v Hin). Qed.

Definition potv (v : V) : K := match d v with Some k => k | None => zero end.
Definition actv (v : V) : Prop := In v verts /\ active v = true /\ exists k, d v = Some k.

Lemma mseed_active : forall s, mseed s -> actv s /\ potv s = zero /\ lo s = lab s /\ d s = Some zero.
Proof.
  intros s [Hin [Hl Hm]]. pose proof (cv s Hin) as H.
  unfold PropSpec.check_vertex in H.
  apply andb_prop in H. destruct H as [H _]. apply andb_prop in H. destruct H as [_ H].
  assert (Hl' : (0 <? lab s) = true) by lia. rewrite Hl' in H.
  apply andb_prop in H. destruct H as [H1 H2].
  destruct (d s) as [k|] eqn:Hd; [|discriminate].
  apply eqb_eq in H2. subst k.
  repeat split.
  - exact Hin.
  - unfold PropSpec.active. rewrite Hl'. exact Hm.
  - exists zero. exact Hd.
  - unfold potv. rewrite Hd. reflexivity.
  - lia.
Qed.

Lemma actv_ok : forall v, actv v -> ok (potv v).
Proof.
  intros v [Hin [Ha [k Hk]]]. unfold potv. rewrite Hk.
  pose proof (cv v Hin) as H. unfold PropSpec.check_vertex in H.
  apply andb_prop in H. destruct H as [H _]. apply andb_prop in H. destruct H as [_ H].
  rewrite Hk in H. destruct (0 <? lab v) eqn:Hl.
  - apply andb_prop in H. destruct H as [_ H]. apply eqb_eq in H. subst k. exact ok_zero.
  - apply andb_prop in H. destruct H as [_ H]. apply okb_ok. exact H.
Qed.

Lemma actv_no_relaxable : forall a b, actv a -> edge a b -> actv b /\ le (potv b) (plus (potv a) (w a b)).
Proof.
  intros a b Ha [Hnb Hmb]. pose proof (actv_ok a Ha) as Hoka.
  destruct Ha as [Hin [Hact [k Hk]]].
  pose proof (cv a Hin) as H. unfold PropSpec.check_vertex in H.
  apply andb_prop in H. destruct H as [_ H]. rewrite Hact, Hk in H.
  unfold PropSpec.check_out_edges in H.
  pose proof (proj1 (forallb_forall _ _) H b Hnb) as Hb. cbn beta in Hb. rewrite Hmb in Hb.
  assert (Hinb : In b verts) by (eapply nbrs_verts; eassumption).
  unfold potv at 2. rewrite Hk.
  destruct (0 <? lab b) eqn:Hlb.
  - assert (Hs : mseed b) by (repeat split; [exact Hinb | lia | exact Hmb]).
    destruct (mseed_active b Hs) as [Hab [Hz _]]. split; [exact Hab|].
    rewrite Hz. apply zero_le. apply plus_ok; [|apply w_ok].
    unfold potv in Hoka. rewrite Hk in Hoka. exact Hoka.
  - destruct (d b) as [du|] eqn:Hdb; [|discriminate].
    split.
    + split; [exact Hinb|]. split; [|exists du; exact Hdb].
      unfold PropSpec.active. rewrite Hlb, Hdb. reflexivity.
    + unfold potv. rewrite Hdb. apply leb_le. exact Hb.
Qed.

Theorem potential_sound : forall s p v,
  reaches s p v -> exists k, d v = Some k /\ le k (pcost zero s p).
Proof.
  intros s p v [Hs [Hp Hl]].
  destruct (mseed_active s Hs) as [Ha [Hz _]].
  destruct (potential_sound_abs potv actv actv_ok actv_no_relaxable s p Ha Hz Hp) as [Hact Hle].
  rewrite Hl in Hact, Hle. destruct Hact as [_ [_ [k Hk]]].
  exists k. split; [exact Hk|]. unfold potv in Hle. rewrite Hk in Hle. exact Hle.
Qed.

(* ---------- tight chain ---------- *)
Definition realised (vl : V * Z) : Prop :=
  exists s p, reaches s p (fst vl) /\ d (fst vl) = Some (pcost zero s p) /\ lab s = snd vl.

Lemma existsb_eqVL : forall vl l, existsb (eqVL vl) l = true -> In vl l.
Proof.
  intros [v z] l H. apply existsb_exists in H. destruct H as [[x y] [Hin He]].
  unfold PropSpec.eqVL in He. cbn [fst snd] in He.
  destruct (eqV v x) eqn:E; [|discriminate]. apply eqV_eq in E. subst x.
  assert (z = y) by lia. subst y. exact Hin.
Qed.

Lemma grow_realised : forall R h, (forall x, In x R -> realised x) ->
  forall x, In x (grow R h) -> realised x.
Proof.
  intros R [[v u] l] HR x Hx. unfold PropSpec.grow in Hx. cbn [fst snd] in Hx.
  destruct (hint_ok R ((v, u), l)) eqn:Hh; [|apply HR; exact Hx].
  destruct Hx as [Hx|Hx]; [subst x|apply HR; exact Hx].
  unfold PropSpec.hint_ok in Hh. cbn [fst snd] in Hh.
  destruct (existsb (eqVL (u, l)) R) eqn:HuR; [|discriminate].
  destruct (existsb (eqV v) (nbrs u)) eqn:Env; [|discriminate].
  destruct (mask v) eqn:Hmv; [|discriminate].
  apply existsb_eqVL in HuR. apply existsb_eqV in Env.
  destruct (HR (u, l) HuR) as [s [p [[Hs [Hp Hl]] [Hdu Hlab]]]]. cbn [fst snd] in *.
  rewrite Hdu in Hh. destruct (d v) as [dv|] eqn:Hdv; [|discriminate].
  apply eqb_eq in Hh.
  exists s, (p ++ [v]). cbn [fst snd]. split; [|split].
  - split; [exact Hs|]. split; [|apply last_of_app].
    apply is_path_app; [exact Hp|]. rewrite Hl. split; assumption.
  - rewrite pcost_app, Hl, <- Hh. exact Hdv.
  - exact Hlab.
Qed.

Theorem tight_chain_sound : forall hint vl, In vl (chain_set hint) -> realised vl.
Proof.
  intros hint. unfold PropSpec.chain_set.
  set (R0 := seeds0 V verts mask lab).
  assert (H0 : forall x, In x R0 -> realised x).
  { intros x Hx. unfold R0, PropSpec.seeds0 in Hx. apply in_map_iff in Hx. destruct Hx as [s [Hx Hin]]. subst x.
    apply filter_In in Hin. destruct Hin as [Hin Hb].
    apply andb_prop in Hb. destruct Hb as [Hl Hm].
    assert (Hs : mseed s) by (repeat split; [exact Hin | lia | exact Hm]).
    destruct (mseed_active s Hs) as [_ [_ [Hlo Hd]]].
    exists s, []. cbn [fst snd]. split; [|split].
    - split; [exact Hs|]. split; [exact Logic.I | reflexivity].
    - exact Hd.
    - reflexivity. }
  generalize dependent R0. induction hint as [|h r IH]; intros R0 H0 v Hv; cbn [fold_left] in Hv.
  - apply H0. exact Hv.
  - eapply IH; [|exact Hv]. apply grow_realised. exact H0.
Qed.

Lemma tight_chain_sound_pair : forall hint v l, In (v, l) (chain_set hint) ->
  exists s p, reaches s p v /\ d v = Some (pcost zero s p) /\ lab s = l.
Proof. intros hint v l H. exact (tight_chain_sound hint (v, l) H). Qed.

(* ---------- the whole checker ---------- *)
Theorem prop_check_sound_sec : forall hint,
  forallb (fun v => if (lab v =? 0) && is_some (d v) then existsb (eqVL (v, lo v)) (chain_set hint) else true) verts = true ->
  Spec.
Proof.
  intros hint Hch v Hin. split.
  - intros Hl. assert (Hc := cv v Hin). unfold PropSpec.check_vertex in Hc.
    apply andb_prop in Hc. destruct Hc as [Hc _]. apply andb_prop in Hc. destruct Hc as [_ Hc].
    assert (Hl' : (0 <? lab v) = true) by lia. rewrite Hl' in Hc.
    apply andb_prop in Hc. destruct Hc as [H1 H2].
    destruct (d v) as [k|]; [|discriminate]. apply eqb_eq in H2. subst k. split; [lia | reflexivity].
  - intros Hl0.
    assert (Hreal : forall k, d v = Some k -> realised (v, lo v)).
    { intros k Hk. pose proof (proj1 (forallb_forall _ _) Hch v Hin) as Hv. cbn beta in Hv.
      rewrite Hk in Hv. assert (E : (lab v =? 0) = true) by lia. rewrite E in Hv. cbn [andb PropSpec.is_some] in Hv.
      apply existsb_eqVL in Hv. eapply tight_chain_sound. exact Hv. }
    split.
    + intros [s [p Hr]]. destruct (potential_sound s p v Hr) as [k [Hk _]].
      exists k. split; [exact Hk|]. split.
      * destruct (Hreal k Hk) as [s' [p' [Hr' [Hd' Hlab']]]]. cbn [fst snd] in *.
        exists s', p'. split; [exact Hr'|]. split; [|exact Hlab'].
        rewrite Hk in Hd'. inversion Hd'. reflexivity.
      * intros s' p' Hr'. destruct (potential_sound s' p' v Hr') as [k' [Hk' Hle]].
        rewrite Hk in Hk'. inversion Hk'. subst k'. exact Hle.
    + intros Hnot. destruct (d v) as [k|] eqn:Hk.
      * exfalso. apply Hnot. destruct (Hreal k eq_refl) as [s [p [Hr _]]]. cbn [fst snd] in Hr. exists s, p. exact Hr.
      * assert (Hc := cv v Hin). unfold PropSpec.check_vertex in Hc.
        apply andb_prop in Hc. destruct Hc as [Hc _]. apply andb_prop in Hc. destruct Hc as [_ Hc].
        assert (Hl' : (0 <? lab v) = false) by lia. rewrite Hl', Hk in Hc. split; [lia | reflexivity].
Qed.
End Algebra.

(* closed forms (all hypotheses explicit) *)
Definition algebra_laws (K : Type) (le : K -> K -> Prop) (leb eqb : K -> K -> bool) (okb : K -> bool)
           (plus : K -> K -> K) (zero : K) (ok : K -> Prop) : Prop :=
  (forall a b, leb a b = true -> le a b) /\
  (forall a b, eqb a b = true -> a = b) /\
  (forall a, okb a = true -> ok a) /\
  (forall a b c, le a b -> le b c -> le a c) /\
  ok zero /\
  (forall a b, ok a -> ok b -> ok (plus a b)) /\
  (forall a, ok a -> le zero a) /\
  (forall a b c, ok a -> ok b -> ok c -> le a b -> le (plus a c) (plus b c)).

Theorem prop_check_sound_gen :
  forall K le leb eqb okb plus zero ok, algebra_laws K le leb eqb okb plus zero ok ->
  forall V eqV verts nbrs mask lab w lo d hint,
    (forall a b : V, eqV a b = true -> a = b) ->
    (forall v u, In v verts -> In u (nbrs v) -> In u verts) ->
    (forall u v, ok (w u v)) ->
    prop_check K leb eqb okb plus zero V eqV verts nbrs mask lab w lo d hint = true ->
    Spec K le plus zero V verts nbrs mask lab w lo d.
Proof.
  intros K le leb eqb okb plus zero ok [L1 [L2 [L3 [L4 [L5 [L6 [L7 L8]]]]]]]
         V eqV verts nbrs mask lab w lo d hint HeqV Hnb Hw Hc.
  unfold PropSpec.prop_check in Hc. apply andb_prop in Hc. destruct Hc as [Hc1 Hc2].
  eapply prop_check_sound_sec with (ok := ok) (hint := hint); eassumption.
Qed.
