(* C19 round 3 — augment (the `while True` search and the path flip) as far as b01's theorems carry,
   on b01's model (Model.Lapjv, imported).  What remains a premise is exactly: the search RETURNS a
   column (aug_loop = Some: after every rebuild the scan list is non-empty, i.e. an augmenting path
   exists — has_PM) and the predecessor links form a chain (chain_ok). *)
From Coq Require Import ZArith List Bool Lia.
From Centro Require Import Model.Lapjv Proofs.LapjvArr Proofs.LapjvAugMarks Proofs.LapjvAugFlip.
Import ListNotations.

Theorem augment_safe_partial :
  forall (r n : nat) (rows : list (list (nat * ext))) (y : list nat) (v : list ext) (inf : ext),
  (forall i j c, In (j, c) (row rows i) -> (j < n)%nat) ->
  (forall i, NoDup (map fst (row rows i))) ->
  forall (ms : main_state) (s' : aug_state) (j1 : nat) (x chain : list nat),
  length (m_done ms) = n -> length (m_ontodo ms) = n ->
  let row_r := rowget rows r in
  let '(d, ontodo, pred) := aug_init_row r v row_r (repeat inf n) (m_ontodo ms) (m_pred ms) in
  (* premise 1 (aug_scan_nonempty, needs has_PM): the search returns *)
  aug_loop (S (S n)) r n inf rows y v (mkAug d pred (m_done ms) ontodo (map fst row_r) [] [] inf) = Some (s', j1) ->
  (* premise 2: the predecessor links from the exit column form a chain of distinct rows ending in r *)
  NoDup chain -> length x = n -> length y = n -> chain_ok r n (g_pred s') x j1 chain ->
  (* every index written to to_do / scan / ready is below n and the three lists fit into n entries *)
  Bounds n s' /\ (length (g_todo s') <= n)%nat /\ (length (g_ready s') + length (g_scan s') <= n)%nat /\
  (j1 < n)%nat /\
  (* the flip terminates within |chain| steps using indices below n only *)
  exists x' y', aug_flip (length chain) r (g_pred s') j1 x y n = Some (x', y') /\ length x' = n /\ length y' = n.
Proof.
  intros r n rows y v inf Hcols Hnd ms s' j1 x chain Ld Lo.
  pose proof (aug_marks_inv r n rows y v inf Hcols Hnd ms s' j1 Ld Lo) as M. cbv zeta in M |- *.
  destruct (aug_init_row r v (rowget rows r) (repeat inf n) (m_ontodo ms) (m_pred ms)) as [[d ontodo] pred].
  intros Hloop NDc Lx Ly Hchain. destruct (M Hloop) as (B & T & R & J & _).
  split; [exact B|]. split; [exact T|]. split; [exact R|]. split; [exact J|].
  destruct (aug_flip_chain r n (g_pred s') chain j1 x y (length chain) NDc Lx Ly Hchain (le_n _))
    as (x' & y' & E & Lx' & Ly' & _).
  exists x', y'. auto.
Qed.
