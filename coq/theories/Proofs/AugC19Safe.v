(* C19 round 3 — augment (the `while True` search and the path flip) as far as b01's theorems carry,
   on b01's model (Model.Lapjv, imported).  What remains a premise is exactly: the search RETURNS a
   column (aug_loop = Some: after every rebuild the scan list is non-empty, i.e. an augmenting path
   exists — has_PM) and the predecessor links form a chain (chain_ok). *)
From Coq Require Import ZArith List Bool Lia.
From Centro Require Import Model.Lapjv Proofs.LapjvArr Proofs.LapjvAugMarks Proofs.LapjvAugFlip.
Import ListNotations.

Theorem augment_safe_partial :
  forall (r n : nat) (rows : list (list (nat * ext))) (y : list nat) (v : list ext) (inf : ext),
  (forall i j c, In (j, c) (row rows i) -> (j < n)%nat) ->
  (forall i, NoDup (map fst (row rows i))) ->
  forall (ms : main_state) (s' : aug_state) (j1 : nat) (x chain : list nat),
  length (m_done ms) = n -> length (m_ontodo ms) = n ->
  let row_r := rowget rows r in
  let '(d, ontodo, pred) := aug_init_row r v row_r (repeat inf n) (m_ontodo ms) (m_pred ms) in
  (* premise 1 (aug_scan_nonempty, needs has_PM): the search returns *)
  aug_loop (S (S n)) r n inf rows y v (mkAug d pred (m_done ms) ontodo (map fst row_r) [] [] inf) = Some (s', j1) ->
  (* premise 2: the predecessor links from the exit column form a chain of distinct rows ending in r *)
  NoDup chain -> length x = n -> length y = n -> chain_ok r n (g_pred s') x j1 chain ->
  (* every index written to to_do / scan / ready is below n and the three lists fit into n entries *)
  Bounds n s' /\ (length (g_todo s') <= n)%nat /\ (length (g_ready s') + length (g_scan s') <= n)%nat /\
  (j1 < n)%nat /\
  (* the flip terminates within |chain| steps using indices below n only *)
  exists x' y', aug_flip (length chain) r (g_pred s') j1 x y n = Some (x', y') /\ length x' = n /\ length y' = n.
Proof.
  intros r n rows y v inf Hcols Hnd ms s' j1 x chain Ld Lo.
  pose proof (aug_marks_inv r n rows y v inf Hcols Hnd ms s' j1 Ld Lo) as M. cbv zeta in M |- *.
  destruct (aug_init_row r v (rowget rows r) (repeat inf n) (m_ontodo ms) (m_pred ms)) as [[d ontodo] pred].
  intros Hloop NDc Lx Ly Hchain. destruct (M Hloop) as (B & T & R & J & _).
  split; [exact B|]. split; [exact T|]. split; [exact R|]. split; [exact J|].
  destruct (aug_flip_chain r n (g_pred s') chain j1 x y (length chain) NDc Lx Ly Hchain (le_n _))
    as (x' & y' & E & Lx' & Ly' & _).
  exists x', y'. auto.
Qed.

(* ================================================================== round 4: the premise narrowed.
   With b01's PMk invariant (Proofs.LapjvAugPred) the ONLY way the Dijkstra loop of a free row fails to
   return is a rebuild of scan that comes out empty ([Starved]): the out-of-fuel exit is excluded by
   counting `ready`, the failed cost lookup by "every assigned pair (y[j], j) is a listed pair".
   Under has_PM an empty rebuild cannot happen in exact arithmetic (Hall block of ready's rows), but
   proving it needs the adequacy of inf = sum(c) + 1 as the initial distance — open in C01 as well. *)
From Centro Require Import Proofs.LapjvAugFuel Proofs.LapjvAugPred.

Section Starve.
Variables (r n : nat) (rows : list (list (nat * ext))) (x y : list nat) (v : list ext) (inf : ext).
Hypothesis Rfin : forall i j c, In (j, c) (row rows i) -> (j < n)%nat.
Hypothesis Rnodup : forall i, NoDup (map fst (row rows i)).
(* every assigned pair is a listed pair (kernel_pre_augment checks it on every recorded call) *)
Hypothesis Hcost : forall j, (j < n)%nat -> getn y j n <> n -> cost_at (rowget rows (getn y j n)) j <> None.

(* the deterministic run from loop head s reaches a loop head whose rebuild of scan is empty *)
Inductive Starved : aug_state -> Prop :=
| starved_now : forall s s1, refill r n y inf s = (s1, None) -> g_scan s1 = [] -> Starved s
| starved_later : forall s s1 jh srest c1 s3,
    refill r n y inf s = (s1, None) -> g_scan s1 = jh :: srest ->
    cost_at (rowget rows (getn y jh n)) jh = Some c1 ->
    aug_relax r n (getn y jh n) y v (esub (esub c1 (gete v jh)) (g_umin s1)) (rowget rows (getn y jh n))
      (mkAug (g_d s1) (g_pred s1) (g_done s1) (g_ontodo s1) (g_todo s1) srest (g_ready s1 ++ [jh]) (g_umin s1))
    = (s3, None) ->
    Starved s3 -> Starved s.

Theorem aug_loop_none_starved : forall fuel s, PMk r n y s -> (n < fuel + length (g_ready s))%nat ->
  aug_loop fuel r n inf rows y v s = None -> Starved s.
Proof.
  induction fuel as [|f IH]; intros s P Hf E.
  - exfalso. destruct P as [M _]. destruct (Bounds_lengths n s (Marks_Bounds r n s M)) as [_ B]. lia.
  - cbn [aug_loop] in E.
    pose proof P as [M [Lp [PO [CR Asg]]]].
    pose proof (refill_spec r n rows y inf Rfin s M) as RS. unfold refill in RS.
    assert (ERF0 : refill r n y inf s =
              match g_scan s with
              | [] => let '(umin, scan) := aug_min r n (g_d s) (g_done s) (g_todo s) inf [] in
                      let '(found, done') := aug_first_free r n y scan (g_done s) in
                      (mkAug (g_d s) (g_pred s) done' (g_ontodo s) (g_todo s) scan (g_ready s) umin, found)
              | _ => (s, None)
              end) by reflexivity.
    destruct (match g_scan s with
              | [] => let '(umin, scan) := aug_min r n (g_d s) (g_done s) (g_todo s) inf [] in
                      let '(found, done') := aug_first_free r n y scan (g_done s) in
                      (mkAug (g_d s) (g_pred s) done' (g_ontodo s) (g_todo s) scan (g_ready s) umin, found)
              | _ => (s, None)
              end) as [s1 found] eqn:ERF.
    destruct RS as [Ep [Et [Er [_ [Sub [RN RF]]]]]].
    destruct found as [j|]; [discriminate|].
    destruct (RN eq_refl) as [M1 As1].
    assert (P1 : PMk r n y s1).
    { split; auto. rewrite Ep, Et, Er. split; auto. split; [|split; auto].
      - intros k Hk. apply in_app_iff in Hk as [Hk|Hk]; [apply PO; apply in_app_iff; left; auto|].
        destruct (Sub k Hk) as [H|H]; apply PO; apply in_app_iff; [right|left]; auto.
      - intros k Hk. apply in_app_iff in Hk as [Hk|Hk]; [apply Asg; apply in_app_iff; left; auto|].
        destruct (As1 k Hk) as [H|H]; auto. apply Asg; apply in_app_iff; right; auto. }
    destruct (g_scan s1) as [|jh srest] eqn:ES1; [eapply starved_now; eauto|].
    destruct P1 as [_ [Lp1 [PO1 [CR1 Asg1]]]].
    assert (Hjh_n : (jh < n)%nat).
    { destruct M1 as [_ [_ [_ [_ [_ H]]]]]. apply H. rewrite ES1. apply in_app_iff. right. left. reflexivity. }
    assert (Hjh_a : getn y jh n <> n) by (apply Asg1; rewrite ES1; apply in_app_iff; right; left; reflexivity).
    destruct (cost_at (rowget rows (getn y jh n)) jh) as [c1|] eqn:EC; [|exfalso; exact (Hcost jh Hjh_n Hjh_a EC)].
    set (s2 := mkAug (g_d s1) (g_pred s1) (g_done s1) (g_ontodo s1) (g_todo s1) srest (g_ready s1 ++ [jh]) (g_umin s1)) in *.
    assert (P2 : PMk r n y s2).
    { unfold s2. split; [apply Marks_pop; auto|]. cbn [g_pred g_todo g_scan g_ready].
      split; auto. split; [|split].
      - intros k Hk. apply (PredOK_incl r n y _ (g_ready s1)); [intros a Ha; apply in_app_iff; left; auto|].
        apply PO1. rewrite ES1. apply in_app_iff in Hk as [Hk|Hk]; apply in_app_iff; [left|right; right]; auto.
      - rewrite rev_app_distr. cbn [rev app chainR]. split; auto.
        apply (PredOK_incl r n y _ (g_ready s1)); [intros a Ha; apply in_rev in Ha; exact Ha|].
        apply PO1. rewrite ES1. apply in_app_iff. right. left. auto.
      - intros k Hk. apply Asg1. rewrite ES1. rewrite <- app_assoc in Hk. exact Hk. }
    assert (Hjh : In jh (g_ready s2)) by (unfold s2; cbn [g_ready]; apply in_app_iff; right; left; auto).
    pose proof (aug_relax_pm r n y v jh (esub (esub c1 (gete v jh)) (g_umin s1)) (rowget rows (getn y jh n)) s2
                  (fun j c H => Rfin _ j c H) P2 Hjh) as [P3 [R3 _]].
    destruct (aug_relax r n (getn y jh n) y v (esub (esub c1 (gete v jh)) (g_umin s1)) (rowget rows (getn y jh n)) s2)
      as [s3 f3] eqn:ER3.
    cbn [fst snd] in P3, R3. destruct f3 as [j|]; [discriminate|].
    eapply starved_later; eauto.
    apply (IH s3 P3); [|exact E].
    rewrite R3. unfold s2. cbn [g_ready]. rewrite app_length, Er. cbn [length]. lia.
Qed.

(* one free row, the premise narrowed to "no rebuild of scan comes out empty": the search returns, the
   marks bound the three scratch lists, and the flip (fuel S n as in the code's model) never fails and
   re-establishes the partial-inverse structure of x / y *)
Theorem augment_row_safe : forall (ms : main_state),
  length x = n -> length y = n -> (r < n)%nat -> free n y r -> PIh n x y None ->
  length (m_done ms) = n -> length (m_ontodo ms) = n -> length (m_pred ms) = n ->
  let row_r := rowget rows r in
  let '(d, ontodo, pred) := aug_init_row r v row_r (repeat inf n) (m_ontodo ms) (m_pred ms) in
  let g0 := mkAug d pred (m_done ms) ontodo (map fst row_r) [] [] inf in
  ~ Starved g0 ->
  exists s' j1, aug_loop (S (S n)) r n inf rows y v g0 = Some (s', j1) /\
    Bounds n s' /\ (length (g_todo s') <= n)%nat /\ (length (g_ready s') + length (g_scan s') <= n)%nat /\
    (j1 < n)%nat /\
    exists x' y', aug_flip (S n) r (g_pred s') j1 x y n = Some (x', y') /\ length x' = n /\ length y' = n /\
    PIh n x' y' None.
Proof.
  intros ms Lx Ly Hr Fr PI Ld Lo Lp. cbv zeta.
  pose proof (aug_marks_inv r n rows y v inf Rfin Rnodup ms) as MI.
  pose proof (aug_flip_full r n rows x y v inf Rfin Rnodup ms) as FF.
  pose proof (aug_init_row_marks r n rows v Rfin (rowget rows r) (repeat inf n) (m_ontodo ms) (m_pred ms)
                (fun j c H => Rfin r j c H) Lo) as AI.
  pose proof (aug_init_row_pred r n rows v Rfin (rowget rows r) (repeat inf n) (m_ontodo ms) (m_pred ms)
                (fun j c H => Rfin r j c H) Lp) as AP.
  cbv zeta in MI, FF.
  destruct (aug_init_row r v (rowget rows r) (repeat inf n) (m_ontodo ms) (m_pred ms)) as [[d o] p].
  destruct AI as [Lo' [In' _]]. destruct AP as [Lp' [Pr _]]. intros NS.
  assert (P0 : PMk r n y (mkAug d p (m_done ms) o (map fst (rowget rows r)) [] [] inf)).
  { split; [|cbn [g_pred g_todo g_scan g_ready app rev chainR]; split; [exact Lp'|split; [|split; [exact Logic.I|intros j []]]]].
    - unfold Marks. cbn [g_done g_ontodo g_todo g_scan g_ready app].
      refine (conj Ld (conj Lo' (conj (Rnodup r) (conj _ (conj (NoDup_nil _) _))))).
      + intros j Hj. apply in_map_iff in Hj as [[j' c'] [<- Hin]]. cbn [fst]. split; [eapply Rfin; eauto|eapply In'; eauto].
      + intros j [].
    - intros j Hj. rewrite app_nil_r in Hj. apply in_map_iff in Hj as [[j' c'] [<- Hin]]. left. cbn [fst]. eapply Pr; eauto. }
  destruct (aug_loop (S (S n)) r n inf rows y v (mkAug d p (m_done ms) o (map fst (rowget rows r)) [] [] inf))
    as [[s' j1]|] eqn:E.
  - exists s', j1. split; [reflexivity|].
    destruct (MI s' j1 Ld Lo eq_refl) as (B & T & R & J & _).
    split; [exact B|]. split; [exact T|]. split; [exact R|]. split; [exact J|].
    destruct (FF s' j1 Lx Ly Hr Fr PI Ld Lo Lp eq_refl) as (x' & y' & EF & Lx' & Ly' & PI' & _).
    exists x', y'. auto.
  - exfalso. apply NS. apply (aug_loop_none_starved (S (S n)) _ P0); [cbn [g_ready length]; lia|exact E].
Qed.
End Starve.
