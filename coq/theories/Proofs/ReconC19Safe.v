(* C19 — grey_reconstruction_loop never leaves values/prev/next when kernel_pre_recon holds on the
   raw arguments; every fuel (= every number of while-iterations).  Proof = C04's loop_safe. *)
From Coq Require Import ZArith List Bool Lia ZifyBool.
From Centro Require Import Model.Recon Spec.ReconInv Proofs.ReconLoop Model.ReconC19.
Import ListNotations.
Open Scope Z_scope.

Theorem recon_loop_safe_raw : forall H W p0 p1 values prv nxt strides cur S fuel,
  kernel_pre_recon H W p0 p1 values prv nxt strides cur S = true ->
  match loop fuel S strides cur (recon_state values prv nxt) with
  | Oob => False
  | Rejected => False
  | Ok s' => drops s' = 0
  | OutOfFuel => True
  end.
Proof.
  intros H W p0 p1 values prv nxt strides cur S fuel Hp. unfold kernel_pre_recon in Hp.
  apply andb_prop in Hp. destruct Hp as [_ Hpc].
  set (p := recon_prep H W p0 p1 values prv nxt strides cur S) in *.
  unfold prep_check in Hpc. cbv zeta in Hpc. set (g := prep_geom p) in *.
  apply andb_prop in Hpc; destruct Hpc as [Hpc Cm].
  apply andb_prop in Hpc; destruct Hpc as [Hpc Ci].
  apply andb_prop in Hpc; destruct Hpc as [Hpc Cd].
  apply andb_prop in Hpc; destruct Hpc as [Hpc Cc2].
  apply andb_prop in Hpc; destruct Hpc as [Hpc Cc1].
  apply andb_prop in Hpc; destruct Hpc as [Hpc Cs].
  apply andb_prop in Hpc; destruct Hpc as [Hpc Cpw].
  apply andb_prop in Hpc; destruct Hpc as [Cg CS].
  assert (G : geom_ok g) by (unfold geom_ok_b in Cg; unfold geom_ok; lia).
  assert (ES : S = gS g) by (change S with (p_S p); lia).
  assert (Hst : Forall (stride_ok g) strides).
  { apply Forall_forall. intros st Hin. rewrite forallb_forall in Cs. apply stride_ok_b_sound. apply Cs. exact Hin. }
  assert (I := inv_check_sound g (p_K p) strides (p_st p) Ci).
  assert (L := loop_safe g (p_K p) (vals (p_st p)) strides G Hst fuel cur (p_st p) I
                 ltac:(change cur with (p_cur p); lia)).
  change (p_st p) with (recon_state values prv nxt) in L. rewrite <- ES in L.
  destruct (loop fuel S strides cur (recon_state values prv nxt)) as [s'| | |]; try exact L.
  destruct L as [_ D]. rewrite D. reflexivity.
Qed.

(* a 1x1 image [[1]] under mask [[2]], 3x3 footprint: planes of 3x3, S = 9 *)
Example recon_pre_example :
  let values := [0;0;0;0;1;0;0;0;0; 0;0;0;0;2;0;0;0;0] in
  let order := [13;4;0;1;2;3;5;6;7;8;9;10;11;12;14;15;16;17] in
  let prv := [4;0;1;2;13;3;5;6;7;8;9;10;11;-1;12;14;15;16] in
  let nxt := [1;2;3;5;0;6;7;8;9;10;11;12;14;4;15;16;17;-1] in
  kernel_pre_recon 1 1 1 1 values prv nxt [-4;-3;-2;-1;1;2;3;4] 13 9 = true.
Proof. vm_compute. reflexivity. Qed.
