(* C14 — per-object independence of one whole pass of the vectorised loop: object k's entries after
   the pass are a function of object k's entries before it (composition of the read-locality and
   write-frame lemmas of CircleVecProofs.v over the fold of all objects' writes). *)
From Coq Require Import ZArith List Bool Lia ZifyBool.
From Centro Require Import Base.Sx Base.VecC13 Proofs.VecC13Proofs Model.Circle Model.CircleVec Proofs.CircleVecProofs.
Import ListNotations.
Open Scope Z_scope.

Section Step.
  Variable rows : list (Z * cpt).
  Variable app : list Z.
  Notation agree := (agree app).

  Lemma agree_refl k s : agree k s s.
  Proof. unfold CircleVecProofs.agree. repeat split; reflexivity. Qed.
  Lemma agree_sym k s s' : agree k s s' -> agree k s' s.
  Proof. unfold CircleVecProofs.agree. intros (A & B & C & D & E). repeat split; try congruence. intros g H. symmetry. apply E. exact H. Qed.
  Lemma agree_trans k s1 s2 s3 : agree k s1 s2 -> agree k s2 s3 -> agree k s1 s3.
  Proof.
    unfold CircleVecProofs.agree. intros (A & B & C & D & E) (A' & B' & C' & D' & E').
    repeat split; try congruence. intros g H. rewrite (E g H). apply E'. exact H.
  Qed.

  Definition samelen (s s' : vstate) : Prop :=
    length (v_s0 s) = length (v_s0 s') /\ length (v_s1 s) = length (v_s1 s') /\
    length (v_keep s) = length (v_keep s') /\ length (v_res s) = length (v_res s') /\
    length (v_w s) = length (v_w s').

  Lemma setz_length {A} (a : list A) g v : length (setz a g v) = length a.
  Proof. unfold setz. apply upd_set_length. Qed.

  Lemma apply_samelen s k a : samelen (apply_action s k a) s.
  Proof. unfold samelen. destruct a; cbn [apply_action v_s0 v_s1 v_keep v_res v_w]; rewrite ?setz_length; repeat split; reflexivity. Qed.
  Lemma samelen_trans s1 s2 s3 : samelen s1 s2 -> samelen s2 s3 -> samelen s1 s3.
  Proof. unfold samelen. intros (A & B & C & D & E) (A' & B' & C' & D' & E'). repeat split; congruence. Qed.
  Lemma samelen_sym s1 s2 : samelen s1 s2 -> samelen s2 s1.
  Proof. unfold samelen. intros (A & B & C & D & E). repeat split; congruence. Qed.

  (* reading a position after a write, in two arrays of equal length *)
  Lemma nthz_setz {A} (a : list A) g g' v d :
    nthz (setz a g v) g' d =
    if (Z.to_nat g' =? Z.to_nat g)%nat && (Z.to_nat g <? length a)%nat then v else nthz a g' d.
  Proof.
    unfold nthz, setz.
    destruct (Nat.eq_dec (Z.to_nat g') (Z.to_nat g)) as [E|N].
    - rewrite E, Nat.eqb_refl. cbn [andb]. destruct (Z.to_nat g <? length a)%nat eqn:L.
      + apply nth_upd_set_same. lia.
      + assert (Hl : (length a <= Z.to_nat g)%nat) by lia.
        rewrite !nth_overflow; [reflexivity|exact Hl|rewrite upd_set_length; exact Hl].
    - assert ((Z.to_nat g' =? Z.to_nat g)%nat = false) by lia. rewrite H. cbn [andb].
      apply nth_upd_set_other. exact N.
  Qed.

  (* an object's own write is a function of its own entries *)
  Lemma own_congr k s s' a : samelen s s' -> agree k s s' ->
    (forall g, a = MoveS0 g \/ a = MoveS1 g -> nthz app g (-1) = k) ->
    nthz app (nthz (v_s0 s) k 0) (-1) = k -> nthz app (nthz (v_s1 s) k 0) (-1) = k ->
    agree k (apply_action s k a) (apply_action s' k a).
  Proof.
    intros (L0 & L1 & Lk & Lr & Lw) (A & B & C & D & E) Og O0 O1.
    unfold CircleVecProofs.agree.
    destruct a as [|r|g|g]; cbn [apply_action v_s0 v_s1 v_keep v_res v_w].
    - repeat split; assumption.
    - repeat split; try assumption; rewrite !nthz_setz; [rewrite Lk, A|rewrite Lr, D]; reflexivity.
    - pose proof (Og g (or_introl eq_refl)) as Eg.
      repeat split; try assumption.
      + rewrite !nthz_setz, L0, B. reflexivity.
      + intros g' E'. rewrite !nthz_setz, !setz_length, Lw, <- B.
        rewrite (E g Eg). rewrite (E g' E'). reflexivity.
    - pose proof (Og g (or_intror eq_refl)) as Eg.
      repeat split; try assumption.
      + rewrite !nthz_setz, L1, C. reflexivity.
      + intros g' E'. rewrite !nthz_setz, !setz_length, Lw, <- C.
        rewrite (E g Eg). rewrite (E g' E'). reflexivity.
  Qed.

  (* the writes of the pass, decisions taken on the state [st] at its beginning *)
  Definition pass (st : vstate) (ks : list Z) (s : vstate) : vstate :=
    fold_left (fun s k' => apply_action s k' (decide rows app st k')) ks s.

  Lemma fold_combine_map (d : Z -> action) : forall ks s,
    fold_left (fun s ka => apply_action s (fst ka) (snd ka)) (combine ks (map d ks)) s =
    fold_left (fun s k' => apply_action s k' (d k')) ks s.
  Proof. induction ks as [|k t IH]; intro s; [reflexivity|]. cbn [map combine fold_left fst snd]. apply IH. Qed.

  Lemma vstep_pass n st : vstep rows app n st = pass st (zrange 0 n) st.
  Proof. unfold vstep, pass. apply fold_combine_map. Qed.

  Definition owner (s : vstate) (k' : Z) : Prop :=
    nthz app (nthz (v_s0 s) k' 0) (-1) = k' /\ nthz app (nthz (v_s1 s) k' 0) (-1) = k'.

  Lemma pass_samelen st ks : forall s, samelen (pass st ks s) s.
  Proof.
    induction ks as [|k t IH]; intro s; [unfold samelen; repeat split; reflexivity|].
    cbn [pass fold_left]. eapply samelen_trans; [apply IH|apply apply_samelen].
  Qed.

  (* objects processed in the pass do not disturb an object that is not among them *)
  Lemma pass_frame st k : forall ks s, 0 <= k -> NoDup ks -> ~ In k ks -> (forall k', In k' ks -> 0 <= k' /\ owner s k') ->
    agree k (pass st ks s) s.
  Proof.
    induction ks as [|k' t IH]; intros s Pk ND Nin Ow; [apply agree_refl|].
    cbn [pass fold_left]. inversion ND as [|? ? Nk' NDt]; subst.
    destruct (Ow k' (or_introl eq_refl)) as [Pk' [O0 O1]].
    assert (Nkk : k <> k') by (intro; subst; apply Nin; left; reflexivity).
    assert (F : forall k'', 0 <= k'' -> k'' <> k' ->
              agree k'' (apply_action s k' (decide rows app st k')) s).
    { intros k'' P'' N''. apply others_frame; try assumption; try lia.
      intros g Hg. apply (move_own rows app st k' g). exact Hg. }
    eapply agree_trans; [|apply F; assumption].
    apply IH; try assumption.
    - intro I. apply Nin. right. exact I.
    - intros k'' I''. destruct (Ow k'' (or_intror I'')) as [P'' [Q0 Q1]]. split; [exact P''|].
      assert (N'' : k'' <> k') by (intro; subst; contradiction).
      destruct (F k'' P'' N'') as (_ & B & C & _ & _). unfold owner. rewrite B, C. split; assumption.
  Qed.

  Lemma zrange_In x n : forall s, In x (zrange s n) <-> s <= x < s + Z.of_nat n.
  Proof. induction n as [|n IH]; intro s; cbn [zrange In]; [lia|]. rewrite IH. lia. Qed.
  Lemma zrange_NoDup n : forall s, NoDup (zrange s n).
  Proof. induction n as [|n IH]; intro s; cbn [zrange]; constructor; [|apply IH]. intro I. apply zrange_In in I. lia. Qed.

  Lemma NoDup_app_parts {A} (a b : list A) : NoDup (a ++ b) ->
    NoDup a /\ NoDup b /\ forall x, In x a -> In x b -> False.
  Proof.
    induction a as [|x t IH]; cbn [List.app]; intro N; [repeat split; [constructor|exact N|intros ? []]|].
    inversion N as [|? ? Nx Nt]; subst. destruct (IH Nt) as (Na & Nb & D). repeat split.
    - constructor; [|exact Na]. intro I. apply Nx. apply in_or_app. left. exact I.
    - exact Nb.
    - intros y [<-|I] Ib; [apply Nx; apply in_or_app; right; exact Ib|exact (D y I Ib)].
  Qed.

  (* after a pass, object k's entries are those produced by its own write alone *)
  Lemma pass_own n st k : 0 <= k < Z.of_nat n -> (forall k', 0 <= k' < Z.of_nat n -> owner st k') ->
    agree k (vstep rows app n st) (apply_action st k (decide rows app st k)) /\
    samelen (vstep rows app n st) st.
  Proof.
    intros Rk Ow. rewrite vstep_pass. split; [|apply pass_samelen].
    assert (Ik : In k (zrange 0 n)) by (apply zrange_In; lia).
    apply in_split in Ik. destruct Ik as [pre [post Eks]].
    pose proof (zrange_NoDup n 0) as ND. rewrite Eks in ND.
    assert (Hin : forall k', In k' (pre ++ k :: post) -> 0 <= k' < Z.of_nat n).
    { intros k' I. rewrite <- Eks in I. apply zrange_In in I. lia. }
    rewrite Eks. unfold pass. rewrite fold_left_app. cbn [fold_left].
    fold (pass st pre st). set (s1 := pass st pre st).
    fold (pass st post (apply_action s1 k (decide rows app st k))).
    apply NoDup_remove in ND. destruct ND as [ND Nin].
    destruct (NoDup_app_parts pre post ND) as (NDpre & NDpost & Disj).
    assert (A1 : agree k s1 st).
    { apply pass_frame; try lia; try assumption.
      - intro I. apply Nin. apply in_or_app. left. exact I.
      - intros k' I. pose proof (Hin k' ltac:(apply in_or_app; left; exact I)). split; [lia|apply Ow; lia]. }
    assert (SL : samelen s1 st) by apply pass_samelen.
    (* ownership in s1 for the objects still to come *)
    assert (Ow1 : forall k', In k' (k :: post) -> owner s1 k').
    { intros k' I. assert (R' : 0 <= k' < Z.of_nat n) by (apply Hin; apply in_or_app; right; exact I).
      assert (Fr : agree k' s1 st).
      { apply pass_frame; try lia; try assumption.
        - intro I'. destruct I as [<-|I]; [apply Nin; apply in_or_app; left; exact I'|exact (Disj k' I' I)].
        - intros k'' I''. pose proof (Hin k'' ltac:(apply in_or_app; left; exact I'')). split; [lia|apply Ow; lia]. }
      destruct Fr as (_ & B & C & _ & _). destruct (Ow k' R') as [Q0 Q1]. unfold owner. rewrite B, C. split; assumption. }
    eapply agree_trans.
    - apply pass_frame; try lia; try assumption.
      + intro I. apply Nin. apply in_or_app. right. exact I.
      + intros k' I. pose proof (Hin k' ltac:(apply in_or_app; right; right; exact I)) as R'. split; [lia|].
        assert (N' : k' <> k) by (intro; subst; apply Nin; apply in_or_app; right; exact I).
        destruct (Ow1 k' (or_intror I)) as [Q0 Q1].
        assert (Fr : agree k' (apply_action s1 k (decide rows app st k)) s1).
        { destruct (Ow1 k (or_introl eq_refl)) as [P0 P1].
          apply others_frame; try assumption; try lia.
          intros g Hg. apply (move_own rows app st k g). exact Hg. }
        destruct Fr as (_ & B & C & _ & _). unfold owner. rewrite B, C. split; assumption.
    - destruct (Ow1 k (or_introl eq_refl)) as [P0 P1].
      apply own_congr; try assumption.
      intros g Hg. apply (move_own rows app st k g). exact Hg.
  Qed.

  (* Independence: two global states that agree on object k (and have arrays of the same sizes)
     agree on object k after one whole pass, whatever the other objects' entries are *)
  Theorem vstep_independent n st st' k :
    0 <= k < Z.of_nat n -> samelen st st' -> agree k st st' ->
    (forall k', 0 <= k' < Z.of_nat n -> owner st k') -> (forall k', 0 <= k' < Z.of_nat n -> owner st' k') ->
    agree k (vstep rows app n st) (vstep rows app n st').
  Proof.
    intros Rk SL Ag Ow Ow'.
    destruct (pass_own n st k Rk Ow) as [A1 _]. destruct (pass_own n st' k Rk Ow') as [A2 _].
    eapply agree_trans; [exact A1|]. eapply agree_trans; [|apply agree_sym; exact A2].
    rewrite <- (decide_local rows app k st st' Ag).
    destruct (Ow k Rk) as [P0 P1].
    apply own_congr; try assumption.
    intros g Hg. apply (move_own rows app st k g). exact Hg.
  Qed.
End Step.
