(* C07 — soundness and completeness of the boolean checker of Spec/MedianSpec.v, uniqueness of
   the specified value, and its reading as "element r of the sorted window". *)
From Coq Require Import ZArith List Bool Lia ZifyBool Sorted Permutation.
From Centro Require Import Base.Sx Model.Median Spec.MedianSpec.
Import ListNotations.
Open Scope Z_scope.

Lemma zrange_n_In lo n x : In x (zrange_n lo n) <-> lo <= x < lo + Z.of_nat n.
Proof.
  revert lo; induction n as [|n IH]; intros lo; cbn [zrange_n In].
  - lia.
  - rewrite IH. lia.
Qed.

Lemma zrange_In lo hi x : In x (zrange lo hi) <-> lo <= x < hi.
Proof. unfold zrange. rewrite zrange_n_In. lia. Qed.

Lemma zrange_n_length lo n : length (zrange_n lo n) = n.
Proof. revert lo; induction n as [|n IH]; intros lo; cbn [zrange_n length]; auto. Qed.

Lemma coords_In rows cols y x : In (y, x) (coords rows cols) <-> 0 <= y < rows /\ 0 <= x < cols.
Proof.
  unfold coords. rewrite in_flat_map. split.
  - intros [y' [Hy Hin]]. rewrite in_map_iff in Hin. destruct Hin as [x' [E Hx]].
    inversion E; subst. rewrite zrange_In in Hy, Hx. lia.
  - intros [Hy Hx]. exists y. split; [apply zrange_In; lia|].
    apply in_map_iff. exists x. split; [reflexivity|apply zrange_In; lia].
Qed.

Lemma rankofb_iff l r v : rankofb l r v = true <-> RankOf l r v.
Proof.
  unfold rankofb, RankOf. rewrite !andb_true_iff, existsb_exists. split.
  - intros [[[x [Hin E]] H1] H2]. apply Z.eqb_eq in E. subst x. split; [assumption|lia].
  - intros [Hin H]. split; [split|]; try lia. exists v. split; [assumption|apply Z.eqb_refl].
Qed.

Theorem check_median_iff data mask radius percent out :
  check_median data mask radius percent out = true <-> MedianSpec data mask radius percent out.
Proof.
  unfold check_median, MedianSpec. rewrite forallb_forall. split.
  - intros H i j Hi Hj Hw.
    assert (Hin : In (i, j) (coords (img_rows data) (img_cols data))) by (apply coords_In; lia).
    specialize (H _ Hin). unfold check_pixel in H. cbn [fst snd] in H.
    fold (window data mask radius i j) in H.
    destruct (window data mask radius i j) as [|a w'] eqn:Ew; [contradiction|]. apply rankofb_iff in H. exact H.
  - intros H [i j] Hin. apply coords_In in Hin. destruct Hin as [Hi Hj].
    specialize (H i j Hi Hj). unfold check_pixel. cbn [fst snd].
    fold (window data mask radius i j).
    destruct (window data mask radius i j) as [|a w'] eqn:Ew; [reflexivity|].
    apply rankofb_iff. apply H. discriminate.
Qed.

Corollary check_median_sound data mask radius percent out :
  check_median data mask radius percent out = true -> MedianSpec data mask radius percent out.
Proof. apply check_median_iff. Qed.

(* ------------------------------------------------------------------ the window is what it says *)

Lemma window_In data mask radius i j v :
  In v (window data mask radius i j) <->
  exists y x, 0 <= y < img_rows data /\ 0 <= x < img_cols data /\ msk2 mask y x = true /\
              oct (oct_R radius) (oct_a2 radius) (y - i) (x - j) /\ v = dat2 data y x.
Proof.
  unfold window, window_c. rewrite in_map_iff. split.
  - intros [[y x] [E Hin]]. apply filter_In in Hin. destruct Hin as [Hc Hw].
    apply coords_In in Hc. unfold in_window, octb in Hw. cbn [fst snd] in *.
    exists y, x. unfold oct. repeat split; lia.
  - intros [y [x [Hy [Hx [Hm [Ho E]]]]]]. exists (y, x). cbn [fst snd]. split; [symmetry; exact E|].
    apply filter_In. split; [apply coords_In; lia|]. unfold in_window, octb. cbn [fst snd].
    unfold oct in Ho. rewrite Hm. lia.
Qed.

(* ------------------------------------------------------------------ RankOf is a function of (l, r) *)

Lemma filter_length_le {A} (p q : A -> bool) (l : list A) :
  (forall x, In x l -> p x = true -> q x = true) -> (length (filter p l) <= length (filter q l))%nat.
Proof.
  induction l as [|a l IH]; intros H; cbn [filter length]; [lia|].
  assert (IH' := IH (fun x Hx => H x (or_intror Hx))).
  destruct (p a) eqn:Ep.
  - rewrite (H a (or_introl eq_refl) Ep). cbn [length]. lia.
  - destruct (q a); cbn [length]; lia.
Qed.

Theorem RankOf_unique l r v v' : RankOf l r v -> RankOf l r v' -> v = v'.
Proof.
  intros [_ H] [_ H']. unfold count_lt, count_le in *.
  destruct (Z.lt_trichotomy v v') as [L|[E|L]]; [exfalso|exact E|exfalso].
  - assert (le (length (filter (fun x => x <=? v) l)) (length (filter (fun x => x <? v') l)))
      by (apply filter_length_le; intros; lia). lia.
  - assert (le (length (filter (fun x => x <=? v') l)) (length (filter (fun x => x <? v) l)))
      by (apply filter_length_le; intros; lia). lia.
Qed.

Lemma count_perm (p : Z -> bool) l s : Permutation l s -> length (filter p l) = length (filter p s).
Proof.
  induction 1 as [|x l s HP IH|x y l|l s t H1 IH1 H2 IH2]; cbn [filter]; auto.
  - destruct (p x); cbn [length]; lia.
  - destruct (p x), (p y); cbn [length]; lia.
  - lia.
Qed.

Lemma RankOf_perm l s r v : Permutation l s -> RankOf l r v -> RankOf s r v.
Proof.
  intros HP [Hin H]. split; [eapply Permutation_in; eassumption|].
  unfold count_lt, count_le in *. rewrite <- !(count_perm _ l s HP). exact H.
Qed.

Lemma count_lt_sorted_head a s : Forall (fun x => a <= x) s -> length (filter (fun x => x <? a) s) = O.
Proof.
  induction 1 as [|x s Hx HF IH]; cbn [filter]; [reflexivity|].
  destruct (x <? a) eqn:E; [lia|exact IH].
Qed.

Lemma nth_sorted_rank s : StronglySorted Z.le s -> forall n, (n < length s)%nat ->
  le (length (filter (fun x => x <? nth n s 0) s)) n /\ lt n (length (filter (fun x => x <=? nth n s 0) s)).
Proof.
  induction 1 as [|a s HS IH HF]; intros n Hn; cbn [length] in Hn; [lia|].
  destruct n as [|n]; cbn [nth filter].
  - rewrite Z.ltb_irrefl, Z.leb_refl. cbn [length]. rewrite (count_lt_sorted_head a s HF). lia.
  - assert (Hn' : (n < length s)%nat) by lia. specialize (IH n Hn').
    assert (Ha : a <= nth n s 0) by (rewrite Forall_forall in HF; apply HF; apply nth_In; exact Hn').
    destruct (a <? nth n s 0); destruct (a <=? nth n s 0) eqn:E2; cbn [length]; lia.
Qed.

(* the specified value is element r (1-based) of any sorted permutation of the window *)
Theorem RankOf_sorted l s r v :
  Permutation l s -> StronglySorted Z.le s -> 1 <= r <= Z.of_nat (length l) ->
  (RankOf l r v <-> v = nth (Z.to_nat (r - 1)) s 0).
Proof.
  intros HP HS Hr. assert (Hlen : length l = length s) by (apply Permutation_length; exact HP).
  assert (Hn : (Z.to_nat (r - 1) < length s)%nat) by lia.
  assert (HR : RankOf l r (nth (Z.to_nat (r - 1)) s 0)).
  { apply (RankOf_perm s l); [symmetry; exact HP|]. split; [apply nth_In; exact Hn|].
    pose proof (nth_sorted_rank s HS _ Hn). unfold count_lt, count_le. lia. }
  split; [intros H; eapply RankOf_unique; eassumption|intros ->; exact HR].
Qed.

Example RankOf_sorted_ex : RankOf [5; 1; 4; 1; 9] 3 4 <-> 4 = nth (Z.to_nat (3 - 1)) [1; 1; 4; 5; 9] 0.
Proof.
  apply RankOf_sorted.
  - apply (perm_trans (l' := [1; 5; 4; 1; 9])); [apply perm_swap|]. apply perm_skip.
    apply (perm_trans (l' := [4; 5; 1; 9])); [apply perm_swap|].
    apply (perm_trans (l' := [4; 1; 5; 9])); [apply perm_skip; apply perm_swap|].
    apply (perm_trans (l' := [1; 4; 5; 9])); [apply perm_swap|]. apply Permutation_refl.
  - repeat (constructor; [|repeat constructor; lia]). constructor.
  - cbn. lia.
Qed.
