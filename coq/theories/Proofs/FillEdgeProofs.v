(* C14 — the interpolation phase of the scan-line model is exact: the entries generated for a
   non-horizontal edge p -> q are, for every row between p and q and only those, the exact rational
   point where the edge's line meets the row. *)
From Coq Require Import ZArith List Bool Lia ZifyBool.
From Centro Require Import Base.Sx Model.HullFill Spec.FillSpec Proofs.FillProofs.
Import ListNotations.
Open Scope Z_scope.

Theorem edge_entries_exact l p q e :
  fst p <> fst q -> In e (snd (edge_entries l p q)) ->
  e_l e = l /\ 0 < e_jd e /\
  Z.min (fst p) (fst q) <= e_i e <= Z.max (fst p) (fst q) /\
  (* (e_i, e_jn/e_jd) is on the line through p and q *)
  (fst q - fst p) * (e_jn e - snd p * e_jd e) = (snd q - snd p) * (e_i e - fst p) * e_jd e.
Proof.
  intros NE I. unfold edge_entries in I.
  destruct (Z.abs (fst p - fst q) + 1 =? 1) eqn:H1; [lia|].
  cbn [snd] in I. apply in_map_iff in I. destruct I as [t [E It]].
  apply zrange_In in It. subst e. cbn [e_l e_i e_jn e_jd].
  split; [reflexivity|]. split; [lia|].
  assert (Sg : Z.sgn (fst q - fst p) * Z.abs (fst p - fst q) = fst q - fst p) by lia.
  split.
  - destruct (Z_lt_le_dec (fst p) (fst q)).
    + assert (Z.sgn (fst q - fst p) = 1) by lia. lia.
    + assert (Z.sgn (fst q - fst p) = -1) by lia. lia.
  - replace (Z.abs (fst p - fst q) + 1 - 1) with (Z.abs (fst p - fst q)) by lia.
    destruct (Z_lt_le_dec (fst p) (fst q)).
    + assert (Z.sgn (fst q - fst p) = 1) by lia. assert (Z.abs (fst p - fst q) = fst q - fst p) by lia. nia.
    + assert (Z.sgn (fst q - fst p) = -1) by lia. assert (Z.abs (fst p - fst q) = fst p - fst q) by lia. nia.
Qed.

(* every row strictly between, and both end rows, are generated *)
Theorem edge_entries_complete l p q i :
  fst p <> fst q -> Z.min (fst p) (fst q) <= i <= Z.max (fst p) (fst q) ->
  exists e, In e (snd (edge_entries l p q)) /\ e_i e = i.
Proof.
  intros NE B. unfold edge_entries.
  destruct (Z.abs (fst p - fst q) + 1 =? 1) eqn:H1; [lia|].
  cbn [snd].
  exists (mkE l (fst p + Z.sgn (fst q - fst p) * Z.abs (i - fst p))
              (snd p * (Z.abs (fst p - fst q) + 1 - 1) + Z.abs (i - fst p) * (snd q - snd p))
              (Z.abs (fst p - fst q) + 1 - 1)).
  split.
  - apply in_map_iff. exists (Z.abs (i - fst p)). split; [reflexivity|]. apply zrange_In. lia.
  - cbn [e_i]. lia.
Qed.

Example edge_entries_example :
  snd (edge_entries 7 (0, 0) (2, 1)) = [mkE 7 0 0 2; mkE 7 1 1 2; mkE 7 2 2 2].
Proof. vm_compute. reflexivity. Qed.
