(* C09 — the determinant of det_n as written, on function matrices: expansion along the first
   row, sign change under an adjacent row swap. *)
From Coq Require Import ZArith List Bool Lia Arith QArith Qcanon Permutation.
From Centro Require Import Model.Kalman Proofs.KalmanArith Proofs.KalmanLists Proofs.KalmanParity Proofs.KalmanDetBase.
Import ListNotations.
Open Scope Qc_scope.

Definition fmat := nat -> nat -> Qc.
Definition lterm (n : nat) (M : fmat) (p : list nat) : Qc :=
  bigprod (fun i => M i (nth i p O)) (seq 0 n) * parity p.
(* sum over permutations(range(n)) of prod_i M[i, p_i] * parity(p) *)
Definition ldet (n : nat) (M : fmat) : Qc := bigsum (lterm n M) (permutations (seq 0 n)).
Definition skip (k x : nat) : nat := if Nat.ltb x k then x else S x.
Definition minor (M : fmat) (i j : nat) : fmat := fun a b => M (skip i a) (skip j b).
Definition sgn (k : nat) : Qc := sign_of (Nat.even k).

Lemma perms_NoDup n : forall l : list nat, length l = n -> NoDup l -> NoDup (perms_fuel n l).
Proof.
  induction n as [|n IH]; intros l Hl Hn; [cbn; constructor; [intros []|constructor]|].
  cbn [perms_fuel]. apply NoDup_flat_heads; [rewrite removes_fst; exact Hn|].
  intros [a r] Hp. cbn [snd]. apply In_removes in Hp. destruct Hp as [l1 [l2 [-> ->]]]. apply IH.
  - rewrite app_length in *. cbn [length] in Hl. lia.
  - eapply NoDup_remove_1. exact Hn.
Qed.

Lemma permutations_seq n : permutations (seq 0 n) = perms_fuel n (seq 0 n).
Proof. unfold permutations. rewrite seq_length. reflexivity. Qed.

Lemma perm_of_seq n p : In p (permutations (seq 0 n)) <-> Permutation p (seq 0 n).
Proof.
  rewrite permutations_seq. split.
  - apply perms_fuel_sound. apply seq_length.
  - apply perms_fuel_complete. apply seq_length.
Qed.

(* ------------------------------------------------------------------ skip, counting *)
Lemma skip_mono k a b : (a < b)%nat <-> (skip k a < skip k b)%nat.
Proof. unfold skip. destruct (Nat.ltb_spec a k), (Nat.ltb_spec b k); lia. Qed.
Lemma skip_lt k x : (skip k x < k)%nat <-> (x < k)%nat.
Proof. unfold skip. destruct (Nat.ltb_spec x k); lia. Qed.
Lemma skip_0 x : skip 0 x = S x.
Proof. reflexivity. Qed.

Lemma remove_nth_seq : forall j s n, (j <= n)%nat ->
  remove_nth j (seq s (S n)) = map (fun x => s + skip j (x - s))%nat (seq s n).
Proof.
  induction j as [|j IH]; intros s n H.
  - cbn [seq remove_nth]. rewrite <- seq_shift. apply map_ext_in. intros x Hx. apply in_seq in Hx.
    change (skip 0 (x - s)) with (S (x - s)). lia.
  - destruct n as [|n]; [lia|]. cbn [seq remove_nth map]. f_equal.
    + unfold skip. rewrite Nat.sub_diag. cbn. lia.
    + change (S s :: seq (S (S s)) n) with (seq (S s) (S n)). rewrite IH by lia.
      apply map_ext_in. intros x Hx. apply in_seq in Hx. unfold skip.
      destruct (Nat.ltb_spec (x - S s) j), (Nat.ltb_spec (x - s) (S j)); lia.
Qed.

Lemma remove_nth_seq0 j n : (j <= n)%nat -> remove_nth j (seq 0 (S n)) = map (skip j) (seq 0 n).
Proof.
  intros H. rewrite remove_nth_seq by exact H. apply map_ext. intros x. rewrite Nat.sub_0_r. reflexivity.
Qed.

Lemma cnt_lt_map g a l : (forall x, (g x < g a)%nat <-> (x < a)%nat) -> cnt_lt (g a) (map g l) = cnt_lt a l.
Proof.
  intros H. unfold cnt_lt. induction l as [|x l IH]; [reflexivity|]. cbn [map filter].
  destruct (Nat.ltb_spec (g x) (g a)), (Nat.ltb_spec x a); cbn [length]; rewrite ?IH; try reflexivity; exfalso;
    specialize (H x); lia.
Qed.

Lemma inversions_map g l : (forall a b, (a < b)%nat <-> (g a < g b)%nat) -> inversions (map g l) = inversions l.
Proof.
  intros H. induction l as [|a l IH]; [reflexivity|]. cbn [map]. rewrite !inversions_cons, IH. f_equal.
  apply cnt_lt_map. intros x. symmetry. apply H.
Qed.

Lemma cnt_lt_perm a l l' : Permutation l l' -> cnt_lt a l = cnt_lt a l'.
Proof.
  unfold cnt_lt. induction 1 as [|x l l' _ IH|x y l|l l' l'' _ IH1 _ IH2]; cbn [filter]; try reflexivity.
  - destruct (Nat.ltb x a); cbn [length]; rewrite IH; reflexivity.
  - destruct (Nat.ltb x a), (Nat.ltb y a); reflexivity.
  - rewrite IH1. exact IH2.
Qed.

Lemma cnt_lt_seq0 j n : cnt_lt j (seq 0 n) = Nat.min j n.
Proof.
  induction n as [|n IH]; [cbn; lia|]. rewrite seq_S, cnt_lt_app, IH. unfold cnt_lt. cbn [Nat.add filter].
  destruct (Nat.ltb_spec n j); cbn [length]; lia.
Qed.

Lemma sign_of_add a b : sign_of (Nat.even (a + b)) = sign_of (Nat.even a) * sign_of (Nat.even b).
Proof.
  rewrite Nat.even_add. destruct (Nat.even a), (Nat.even b); cbn [Bool.eqb sign_of]; try ring.
Qed.

Lemma cnt_lt_skip j p : cnt_lt j (map (skip j) p) = cnt_lt j p.
Proof.
  unfold cnt_lt. induction p as [|x p IH]; [reflexivity|]. cbn [map filter].
  pose proof (skip_lt j x) as Hs.
  destruct (Nat.ltb_spec (skip j x) j) as [H1|H1], (Nat.ltb_spec x j) as [H2|H2]; cbn [length]; rewrite ?IH;
    try reflexivity; exfalso; lia.
Qed.

Lemma parity_cons_skip j n p : (j <= n)%nat -> Permutation p (seq 0 n) ->
  parity (j :: map (skip j) p) = sgn j * parity p.
Proof.
  intros Hj Hp. unfold parity, sgn. rewrite inversions_cons, sign_of_add. f_equal; [|rewrite inversions_map by (apply skip_mono); reflexivity].
  f_equal. f_equal.
  rewrite cnt_lt_skip, (cnt_lt_perm j _ _ Hp), cnt_lt_seq0. lia.
Qed.

(* ------------------------------------------------------------------ expansion along row 0 *)
Lemma lterm_cons n M j p : length p = n ->
  lterm (S n) M (j :: map (skip j) p) =
  M O j * bigprod (fun i => minor M 0 j i (nth i p O)) (seq 0 n) * parity (j :: map (skip j) p).
Proof.
  intros Hl. unfold lterm. f_equal. cbn [seq]. rewrite <- seq_shift. rewrite bigprod_cons. cbn [nth]. f_equal.
  rewrite bigprod_map. apply bigprod_ext_in. intros i Hi. apply in_seq in Hi. cbn [nth]. unfold minor.
  change (skip 0 i) with (S i). f_equal. apply nth_map_lt. lia.
Qed.

Theorem ldet_row0 n M :
  ldet (S n) M = bigsum (fun j => M O j * sgn j * ldet n (minor M 0 j)) (seq 0 (S n)).
Proof.
  unfold ldet at 1. rewrite permutations_seq. cbn [perms_fuel].
  rewrite bigsum_flat_map, (removes_nth O), seq_length, bigsum_map. apply bigsum_ext_in.
  intros j Hj. apply in_seq in Hj. cbn [fst snd].
  rewrite seq_nth by lia. cbn [Nat.add]. rewrite remove_nth_seq0 by lia.
  rewrite perms_fuel_map, !bigsum_map. unfold ldet. rewrite permutations_seq, bigsum_scale.
  apply bigsum_ext_in. intros p Hp.
  assert (Pp : Permutation p (seq 0 n)) by (apply perm_of_seq; rewrite permutations_seq; exact Hp).
  assert (Lp : length p = n) by (rewrite (Permutation_length Pp); apply seq_length).
  rewrite lterm_cons by exact Lp. rewrite (parity_cons_skip j n p) by (lia || exact Pp).
  unfold lterm. ring.
Qed.
