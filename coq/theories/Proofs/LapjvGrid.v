(* C01 — eps_irrelevant_on_grid: when every cost is a multiple of a grid step g larger than eps, all
   values the model computes stay on the grid (or are infinite), so the comparisons `u1 + eps < u2`
   of augmenting row reduction equal the strict comparisons `u1 < u2`: the model with the eps band
   is the model without it.  This delimits where finding F6 can show (lapjv_eps_refuted: it does on a
   2^-30 grid). *)
From Coq Require Import ZArith List Bool Lia ZifyBool Arith.
From Centro Require Import Base.Sx Model.Lapjv Spec.Lapjv.
Import ListNotations.
Open Scope Z_scope.

Section Grid.
Variable g : Z.
Hypothesis Hg : 0 < g.

Definition og (e : ext) : Prop := match e with Fin z => (g | z) | _ => True end.
Definition ogl (l : list ext) : Prop := Forall og l.
Definition ogrow (row : list (nat * ext)) : Prop := Forall (fun p => og (snd p)) row.
Definition ogrows (rows : list (list (nat * ext))) : Prop := Forall ogrow rows.

Lemma og_eneg a : og a -> og (eneg a).
Proof. destruct a; cbn; auto. apply Z.divide_opp_r. Qed.
Lemma og_eadd a b : og a -> og b -> og (eadd a b).
Proof. destruct a, b; cbn; auto. apply Z.divide_add_r. Qed.
Lemma og_esub a b : og a -> og b -> og (esub a b).
Proof. intros; apply og_eadd; auto using og_eneg. Qed.

Lemma eltb_eps eps a b : 0 <= eps < g -> og a -> og b -> eltb (eadd a (Fin eps)) b = eltb a b.
Proof.
  intros He Ha Hb. destruct a as [x| | |], b as [y| | |]; cbn; auto.
  cbn in Ha, Hb. destruct Ha as [k ->], Hb as [m ->].
  destruct (Z.ltb_spec (k * g) (m * g)) as [L|L].
  - assert (k < m) by nia. assert ((k + 1) * g <= m * g) by nia. lia.
  - lia.
Qed.

Lemma og_gete v j : ogl v -> og (gete v j).
Proof.
  intros H. unfold gete. destruct (Nat.lt_ge_cases j (length v)) as [L|L].
  - apply (proj1 (Forall_forall og v) H). apply nth_In; auto.
  - rewrite nth_overflow by auto. exact Logic.I.
Qed.

Lemma Forall_upd {A} (P : A -> Prop) l k a : Forall P l -> P a -> Forall P (upd l k a).
Proof.
  revert k; induction l as [|h r IH]; intros k H Pa; cbn [upd]; [constructor|].
  inversion H; subst. destruct k; constructor; auto.
Qed.

Lemma ogrow_rowget rows i : ogrows rows -> ogrow (rowget rows i).
Proof.
  intros H. unfold rowget. destruct (Nat.lt_ge_cases i (length rows)) as [L|L].
  - apply (proj1 (Forall_forall ogrow rows) H). apply nth_In; auto.
  - rewrite nth_overflow by auto. constructor.
Qed.

(* ---------------------------------------------------------------- the data built by lapjv() *)

Variable tri : list triple.
Hypothesis Htri : forall t, In t tri -> (g | t_c t).

Lemma col_min_og j : forall l b, (forall t, In t l -> (g | t_c t)) ->
  (forall c i, b = Some (c, i) -> (g | c)) -> forall c i, col_min j l b = Some (c, i) -> (g | c).
Proof.
  induction l as [|t r IH]; intros b Hl Hb c i; cbn [col_min]; [apply Hb|].
  apply IH; [intros; apply Hl; right; auto|].
  intros c' i'. destruct ((t_j t =? j)%nat && better (t_c t) (t_i t) b); [|apply Hb].
  intros E; inversion E; subst. apply Hl; left; auto.
Qed.

Lemma v_init_og n : ogl (v_init n tri).
Proof.
  unfold v_init, col_mins. rewrite map_map. apply Forall_forall. intros e He.
  apply in_map_iff in He as [j [<- _]].
  destruct (col_min j tri None) as [[c i]|] eqn:E; [|exact Logic.I].
  cbn. eapply col_min_og; eauto. discriminate.
Qed.

Lemma ins_j_og e l : og (snd e) -> ogrow l -> ogrow (ins_j e l).
Proof.
  intros He. induction l as [|h r IH]; intros H; cbn [ins_j]; [constructor; auto|].
  inversion H as [|? ? Ph Pr]; subst. destruct (fst e <? fst h)%nat.
  - constructor; [exact He|exact H].
  - constructor; [exact Ph|exact (IH Pr)].
Qed.
Lemma row_of_og i : forall l acc, (forall t, In t l -> (g | t_c t)) -> ogrow acc -> ogrow (row_of i l acc).
Proof.
  induction l as [|t r IH]; intros acc Hl Ha; cbn [row_of]; auto.
  apply IH; [intros; apply Hl; right; auto|].
  destruct (t_i t =? i)%nat; auto. apply ins_j_og; auto. cbn. apply Hl; left; auto.
Qed.
Lemma rows_of_og n : ogrows (rows_of n tri).
Proof.
  unfold rows_of. apply Forall_forall. intros r Hr. apply in_map_iff in Hr as [i [<- _]].
  apply row_of_og; auto. constructor.
Qed.

(* ---------------------------------------------------------------- reduction transfer *)

Lemma rt_scan_og j1 v : ogl v -> forall js cs mu at_, Forall og cs -> og mu ->
  og (fst (rt_scan j1 v js cs mu at_)).
Proof.
  intros Hv. induction js as [|jt jr IH]; intros cs mu at_ Hc Hmu; cbn [rt_scan]; auto.
  destruct cs as [|c cr]; auto. inversion Hc; subst.
  destruct (jt =? j1)%nat; [apply IH; auto|].
  destruct (eltb (esub c (gete v jt)) mu); apply IH; auto. apply og_esub; auto using og_gete.
Qed.

Lemma rt_row_og rt n rows jflat x uv i : ogrows rows -> ogl (fst uv) -> ogl (snd uv) ->
  ogl (fst (rt_row rt n rows jflat x uv i)) /\ ogl (snd (rt_row rt n rows jflat x uv i)).
Proof.
  intros Hr Hu Hv. destruct uv as [u v]. cbn [fst snd] in *. unfold rt_row.
  set (js := match rt with AsIs => _ | Fixed => _ end).
  pose proof (rt_scan_og (getn x i n) v Hv js (map snd (rowget rows i)) PInf None) as Hs.
  destruct (rt_scan (getn x i n) v js (map snd (rowget rows i)) PInf None) as [mu at_].
  assert (Hmu : og mu).
  { apply Hs; [|exact Logic.I]. pose proof (ogrow_rowget rows i Hr) as Hrow.
    apply Forall_forall. intros e He. apply in_map_iff in He as [p [<- Hp]].
    eapply Forall_forall in Hrow; eauto. }
  destruct at_; cbn [fst snd]; auto. split.
  - apply Forall_upd; auto.
  - apply Forall_upd; auto. apply og_esub; [apply og_gete; auto|]. apply og_esub; auto. apply og_gete; auto.
Qed.

Lemma reduction_transfer_og rt n rows jflat x one : ogrows rows -> forall u v, ogl u -> ogl v ->
  ogl (snd (reduction_transfer rt n rows jflat x one u v)).
Proof.
  intros Hr. unfold reduction_transfer.
  assert (G : forall uv, ogl (fst uv) -> ogl (snd uv) ->
            ogl (snd (fold_left (rt_row rt n rows jflat x) one uv))).
  { induction one as [|i r IH]; intros uv Hu Hv; cbn [fold_left]; auto.
    destruct (rt_row_og rt n rows jflat x uv i Hr Hu Hv). apply IH; auto. }
  intros u v Hu Hv. apply G; auto.
Qed.

(* ---------------------------------------------------------------- augmenting row reduction *)

Lemma arr_scan_og v : ogl v -> forall row u1 u2 j1 j2, ogrow row -> og u1 -> og u2 ->
  og (fst (fst (fst (arr_scan v row u1 u2 j1 j2)))) /\ og (snd (fst (fst (arr_scan v row u1 u2 j1 j2)))).
Proof.
  intros Hv. induction row as [|[j c] r IH]; intros u1 u2 j1 j2 Hr H1 H2; cbn [arr_scan fst snd]; auto.
  inversion Hr; subst. cbn [snd] in *.
  assert (og (esub c (gete v j))) by (apply og_esub; auto using og_gete).
  destruct (eltb (esub c (gete v j)) u1); [apply IH; auto|].
  destruct (eltb (esub c (gete v j)) u2); apply IH; auto.
Qed.

Lemma arr_loop_grid eps epsr n rows : 0 <= eps < g -> 0 <= epsr < g -> ogrows rows ->
  forall fuel todo s, ogl (a_v s) ->
    arr_loop fuel (Fin eps) (Fin epsr) n rows todo s = arr_loop fuel (Fin 0) (Fin 0) n rows todo s /\
    forall r, arr_loop fuel (Fin 0) (Fin 0) n rows todo s = Some r -> ogl (a_v r).
Proof.
  intros He Her Hr. induction fuel as [|f IH]; intros todo s Hv.
  - destruct todo; cbn [arr_loop]; split; auto; intros r E; inversion E; subst; auto.
  - destruct todo as [|i rest]; cbn [arr_loop]; [split; auto; intros r E; inversion E; subst; auto|].
    pose proof (arr_scan_og (a_v s) Hv (rowget rows i) PInf PInf (a_j1 s) (a_j2 s)
                  (ogrow_rowget rows i Hr) Logic.I Logic.I) as [O1 O2].
    destruct (arr_scan (a_v s) (rowget rows i) PInf PInf (a_j1 s) (a_j2 s)) as [[[u1 u2] j1o] j2o].
    cbn [fst snd] in O1, O2.
    destruct j1o as [j1|]; [|split; auto; discriminate].
    rewrite (eltb_eps eps u1 u2 He O1 O2), (eltb_eps epsr u1 u2 Her O1 O2).
    rewrite (eltb_eps 0 u1 u2 ltac:(lia) O1 O2).
    assert (Hv' : ogl (upd (a_v s) j1 (eadd (esub (gete (a_v s) j1) u2) u1))).
    { apply Forall_upd; auto. apply og_eadd; auto. apply og_esub; auto. apply og_gete; auto. }
    destruct (eltb u1 u2).
    + apply IH. exact Hv'.
    + destruct (getn (a_y s) j1 n =? n)%nat.
      * apply IH. exact Hv.
      * destruct j2o as [j2|]; [|split; auto; discriminate]. apply IH. exact Hv.
Qed.

Lemma arr_passes_grid eps epsr n rows fuel : 0 <= eps < g -> 0 <= epsr < g -> ogrows rows ->
  forall k x y v ii, ogl v ->
    arr_passes k fuel (Fin eps) (Fin epsr) n rows (x, y, v, ii) = arr_passes k fuel (Fin 0) (Fin 0) n rows (x, y, v, ii).
Proof.
  intros He Her Hr. induction k as [|k IH]; intros x y v ii Hv; cbn [arr_passes]; [reflexivity|].
  unfold arr_pass.
  destruct (arr_loop_grid eps epsr n rows He Her Hr fuel ii (mkArr x y v None None []) Hv) as [E O].
  rewrite E. destruct (arr_loop fuel (Fin 0) (Fin 0) n rows ii (mkArr x y v None None [])) as [r|]; [|reflexivity].
  apply IH. apply O. reflexivity.
Qed.

Theorem eps_irrelevant_on_grid_sec rt eps epsr k n :
  0 <= eps < g -> 0 <= epsr < g -> lapjv rt eps epsr k n tri = lapjv rt 0 0 k n tri.
Proof.
  intros He Her. unfold lapjv.
  pose proof (reduction_transfer_og rt n (rows_of n tri) (jflat_of (rows_of n tri)) (x_init n (min_i n tri))
                (one_rows n (min_i n tri)) (rows_of_og n) (repeat (Fin 0) n) (v_init n tri)) as Hv1.
  destruct (reduction_transfer rt n (rows_of n tri) (jflat_of (rows_of n tri)) (x_init n (min_i n tri))
              (one_rows n (min_i n tri)) (repeat (Fin 0) n) (v_init n tri)) as [u1 v1].
  cbn [snd] in Hv1.
  assert (Hv : ogl v1).
  { apply Hv1; [|apply v_init_og]. apply Forall_forall. intros e He'. apply repeat_spec in He'. subst.
    cbn. apply Z.divide_0_r. }
  destruct (free_rows n (min_i n tri)) as [|f0 fr]; [reflexivity|].
  rewrite (arr_passes_grid eps epsr n (rows_of n tri) _ He Her (rows_of_og n) k _ _ v1 _ Hv).
  reflexivity.
Qed.

Theorem eps_irrelevant_on_grid_ref_sec rt eps epsr k n :
  0 <= eps < g -> 0 <= epsr < g -> lapjv_ref rt eps epsr k n tri = lapjv_ref rt 0 0 k n tri.
Proof.
  intros He Her. unfold lapjv_ref.
  pose proof (reduction_transfer_og rt n (rows_of n tri) (jflat_of (rows_of n tri)) (x_init n (min_i n tri))
                (one_rows n (min_i n tri)) (rows_of_og n) (repeat (Fin 0) n) (v_init n tri)) as Hv1.
  destruct (reduction_transfer rt n (rows_of n tri) (jflat_of (rows_of n tri)) (x_init n (min_i n tri))
              (one_rows n (min_i n tri)) (repeat (Fin 0) n) (v_init n tri)) as [u1 v1].
  cbn [snd] in Hv1.
  assert (Hv : ogl v1).
  { apply Hv1; [|apply v_init_og]. apply Forall_forall. intros e He'. apply repeat_spec in He'. subst.
    cbn. apply Z.divide_0_r. }
  destruct (free_rows n (min_i n tri)) as [|f0 fr]; [reflexivity|].
  rewrite (arr_passes_grid eps epsr n (rows_of n tri) _ He Her (rows_of_og n) k _ _ v1 _ Hv).
  reflexivity.
Qed.
End Grid.

Theorem eps_irrelevant_on_grid : forall g rt eps epsr k n tri,
  0 <= eps < g -> 0 <= epsr < g -> (forall t, In t tri -> (g | t_c t)) ->
  lapjv rt eps epsr k n tri = lapjv rt 0 0 k n tri.
Proof.
  intros g rt eps epsr k n tri He Her Ht. apply (eps_irrelevant_on_grid_sec g); auto. lia.
Qed.

(* integer costs scaled by 2^30 (grid 2^30 > 16 = 2^-26 scaled): the F1 witness *)
Example grid_example :
  forall t : triple, In t [(0%nat, 0%nat, 2 * 2 ^ 30); (0%nat, 2%nat, 5 * 2 ^ 30); (1%nat, 0%nat, 0); (1%nat, 1%nat, 4 * 2 ^ 30)] ->
  (2 ^ 30 | t_c t).
Proof.
  intros t [<-|[<-|[<-|[<-|[]]]]]; unfold t_c; cbn [snd]; try (apply Z.divide_factor_r); apply Z.divide_0_r.
Qed.

Theorem eps_irrelevant_on_grid_ref : forall g rt eps epsr k n tri,
  0 <= eps < g -> 0 <= epsr < g -> (forall t, In t tri -> (g | t_c t)) ->
  lapjv_ref rt eps epsr k n tri = lapjv_ref rt 0 0 k n tri.
Proof.
  intros g rt eps epsr k n tri He Her Ht. apply (eps_irrelevant_on_grid_ref_sec g); auto. lia.
Qed.
