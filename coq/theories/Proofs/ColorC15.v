(* C15 — the first-free-colour rule of color_labels *)
From Coq Require Import ZArith List Bool Lia ZifyBool Sorted.
From Centro Require Import Base.GraphC15 Model.LabelGraph.
Import ListNotations.
Open Scope Z_scope.

(* crange/misses arithmetic: on a strictly increasing list of colours >= k the rule returns a
   colour >= k that is not in the list *)
Lemma first_free_spec : forall colors k,
  StronglySorted Z.lt colors -> (forall c, In c colors -> k <= c) ->
  ~ In (first_free k colors) colors /\ k <= first_free k colors.
Proof.
  induction colors as [|c r IH]; intros k SS LB; cbn [first_free].
  - split; [intros []|lia].
  - apply StronglySorted_inv in SS. destruct SS as [SSr Fc]. rewrite Forall_forall in Fc.
    destruct (Z.eqb_spec c k) as [E|N].
    + subst c. destruct (IH (k + 1) SSr) as [NI GE].
      { intros x Hx. specialize (Fc x Hx). lia. }
      split; [|lia]. intros [E|Hin]; [lia|contradiction].
    + assert (k <= c) by (apply LB; left; reflexivity).
      split; [|lia]. intros [E|Hin]; [lia|]. specialize (Fc k Hin). lia.
Qed.

(* the crange/misses arithmetic of the code is the first-free recursion *)
Lemma misses_first_free : forall colors k,
  match map snd (filter (fun p => negb (fst p =? snd p)) (combine colors (zrange k (length colors)))) with
  | m :: _ => m
  | [] => k + Z.of_nat (length colors)
  end = first_free k colors.
Proof.
  induction colors as [|c r IH]; intros k; cbn [length zrange combine filter map first_free fst snd]; [lia|].
  destruct (Z.eqb_spec c k) as [E|N]; cbn [negb].
  - rewrite <- IH. destruct (map snd _); [lia|reflexivity].
  - reflexivity.
Qed.
Lemma pick_from_first_free colors : pick_from colors = first_free 1 colors.
Proof. unfold pick_from. rewrite <- misses_first_free. destruct (map snd _); [lia|reflexivity]. Qed.
Lemma first_free_le : forall colors k, first_free k colors <= k + Z.of_nat (length colors).
Proof.
  induction colors as [|c r IH]; intros k; cbn [first_free length]; [lia|].
  destruct (c =? k); [specialize (IH (k + 1)); lia|lia].
Qed.

Example first_free_example : first_free 1 [1; 2; 4; 7] = 3.
Proof. reflexivity. Qed.
Example first_free_hyp_example : StronglySorted Z.lt [1; 2; 4; 7] /\ (forall c, In c [1; 2; 4; 7] -> 1 <= c).
Proof. split; [repeat constructor|]. cbn [In]. intros c H. lia. Qed.

(* ================================================================ color_labels *)
From Centro Require Import Proofs.RelabelC15 Proofs.AccC15 Proofs.NeighborsC15.

Lemma set_nth_length k x l : length (set_nth k x l) = length l.
Proof. revert k. induction l as [|a r IH]; intros [|k]; cbn [set_nth length]; auto. Qed.
Lemma set_nth_same l : forall k x, (k < length l)%nat -> nth k (set_nth k x l) 0 = x.
Proof. induction l as [|a r IH]; intros [|k] x H; cbn [length] in H; try lia; cbn [set_nth nth]; auto. apply IH. lia. Qed.
Lemma set_nth_other l : forall k x i, i <> k -> nth i (set_nth k x l) 0 = nth i l 0.
Proof.
  induction l as [|a r IH]; intros [|k] x [|i] H; cbn [set_nth nth]; auto; try congruence.
Qed.

Lemma nth_map0 (f : Z -> Z) l k : (k < length l)%nat -> nth k (map f l) 0 = f (nth k l 0).
Proof. intros H. rewrite (nth_indep _ 0 (f 0)) by (rewrite map_length; exact H). apply map_nth. Qed.

Lemma insert_by_in {A} (key : A -> Z) (x : A) l : forall y, In y (insert_by key x l) <-> y = x \/ In y l.
Proof.
  induction l as [|a l IH]; intros y; cbn [insert_by In].
  - intuition.
  - destruct (key x <=? key a); cbn [In]; [intuition|]. rewrite IH. intuition.
Qed.
Lemma sort_by_in {A} (key : A -> Z) l : forall y : A, In y (sort_by key l) <-> In y l.
Proof.
  unfold sort_by. induction l as [|a l IH]; intros y; cbn [fold_right In]; [tauto|].
  rewrite insert_by_in, IH. intuition.
Qed.

Lemma combine_zrange_in {A} (d : A) (l : list A) : forall s x lab,
  In (x, lab) (combine l (zrange s (length l))) <->
  exists k, (k < length l)%nat /\ lab = s + Z.of_nat k /\ x = nth k l d.
Proof.
  induction l as [|a r IH]; intros s x lab; cbn [length zrange combine In].
  - split; [tauto|]. intros [k [H _]]. lia.
  - rewrite IH. split.
    + intros [E|[k [Hk [El Ex]]]].
      * inversion E; subst. exists 0%nat. split; [lia|]. split; [lia|reflexivity].
      * exists (S k). split; [lia|]. split; [lia|exact Ex].
    + intros [[|k] [Hk [El Ex]]].
      * left. cbn [nth] in Ex. subst. f_equal. lia.
      * right. exists k. split; [lia|]. split; [lia|exact Ex].
Qed.

(* the colour picked for a label differs from every non-zero colour of the list and is >= 1 *)
Lemma pick_color_spec (L : list Z) : (forall c, In c L -> 0 <= c) ->
  1 <= pick_color (zunique L) /\ forall c, In c L -> c <> 0 -> pick_color (zunique L) <> c.
Proof.
  intros NN. pose proof (zunique_sorted L) as SS. pose proof (zunique_in L) as IN.
  destruct (zunique L) as [|c0 rest] eqn:EU; cbn [pick_color]; rewrite ?pick_from_first_free.
  - split; [lia|]. intros c Hc. apply IN in Hc. destruct Hc.
  - apply StronglySorted_inv in SS. destruct SS as [SSr F0]. rewrite Forall_forall in F0.
    assert (P0 : 0 <= c0) by (apply NN; apply IN; left; reflexivity).
    destruct (Z.eqb_spec c0 0) as [->|N0].
    + destruct rest as [|c1 rest'] eqn:ER.
      * split; [lia|]. intros c Hc Hn. apply IN in Hc. destruct Hc as [<-|[]]. congruence.
      * rewrite <- ER in *. destruct (first_free_spec rest 1 SSr) as [NI GE].
        { intros c Hc. specialize (F0 c Hc). lia. }
        split; [exact GE|]. intros c Hc Hn E. apply IN in Hc. destruct Hc as [<-|Hc]; [congruence|].
        apply NI. rewrite E. exact Hc.
    + assert (SS : StronglySorted Z.lt (c0 :: rest)) by (constructor; [exact SSr|apply Forall_forall; exact F0]).
      destruct (first_free_spec (c0 :: rest) 1 SS) as [NI GE].
      { intros c [<-|Hc]; [lia|]. specialize (F0 c Hc). lia. }
      split; [exact GE|]. intros c Hc Hn E. apply IN in Hc. apply NI. rewrite E. exact Hc.
Qed.

Lemma insert_by_length {A} (key : A -> Z) (x : A) l : length (insert_by key x l) = S (length l).
Proof. induction l as [|a l IH]; cbn [insert_by length]; [reflexivity|]. destruct (key x <=? key a); cbn [length]; lia. Qed.
Lemma zsort_length l : length (zsort l) = length l.
Proof. unfold zsort, sort_by. induction l as [|a l IH]; cbn [fold_right length]; [reflexivity|]. rewrite insert_by_length, IH. reflexivity. Qed.
Lemma dedup_length l : (length (dedup l) <= length l)%nat.
Proof.
  induction l as [|x r IH]; [cbn; lia|]. destruct r as [|z r']; [cbn; lia|].
  change (dedup (x :: z :: r')) with (if x =? z then dedup (z :: r') else x :: dedup (z :: r')).
  destruct (x =? z); cbn [length] in *; lia.
Qed.
Lemma pick_color_le colors : pick_color colors <= 1 + Z.of_nat (length colors).
Proof.
  destruct colors as [|c0 rest]; cbn [pick_color length]; [lia|].
  destruct (c0 =? 0).
  - destruct rest as [|c1 r]; [lia|]. rewrite pick_from_first_free. pose proof (first_free_le (c1 :: r) 1). cbn [length] in *. lia.
  - rewrite pick_from_first_free. pose proof (first_free_le (c0 :: rest) 1). cbn [length] in *. lia.
Qed.

Section Coloring.
Variable img : image.
Hypothesis R : rect img.
Let n := Z.to_nat (img_max img).
Let v_count := fst (fst (find_neighbors img)).
Let v_index := snd (fst (find_neighbors img)).
Let v_neighbor := snd (find_neighbors img).
Let nb (l : Z) := neighbors_of img l.

Definition row_ok (r : Z * Z * Z) : Prop :=
  let '(cnt, idx, lab) := r in
  1 <= lab <= img_max img /\ cnt = nth (Z.to_nat (lab - 1)) v_count 0 /\ idx = nth (Z.to_nat (lab - 1)) v_index 0.

Record CInv (vc : list Z) (S : list Z) : Prop := {
  c_len : length vc = Datatypes.S n;
  c_bg : getl vc 0 = 0;
  c_nn : forall l, 0 <= getl vc l;
  c_proper : forall l m, 1 <= l <= img_max img -> 1 <= m <= img_max img -> In m (nb l) ->
             getl vc l <> 0 -> getl vc m <> 0 -> getl vc l <> getl vc m;
  c_done : forall l, 1 <= l <= img_max img -> nth (Z.to_nat (l - 1)) v_count 0 = 0 \/ In l S -> 1 <= getl vc l
}.

Lemma color_step_inv vc S r : row_ok r -> CInv vc S -> CInv (color_step v_neighbor vc r) (S ++ [snd r]).
Proof.
  destruct r as [[cnt idx] lab]. intros [Hlab [Ec Ei]] I. cbn [snd]. unfold color_step.
  assert (SL : slice idx cnt v_neighbor = nb lab).
  { unfold nb, neighbors_of. subst cnt idx. reflexivity. }
  rewrite SL.
  set (L := map (getl vc) (nb lab)).
  destruct (pick_color_spec L) as [K1 K2].
  { intros c Hc. unfold L in Hc. apply in_map_iff in Hc. destruct Hc as [m [<- _]]. apply (c_nn vc S I). }
  set (k := pick_color (zunique L)) in *.
  assert (LT : (Z.to_nat lab < length vc)%nat) by (rewrite (c_len vc S I); unfold n; lia).
  assert (G1 : getl (set_nth (Z.to_nat lab) k vc) lab = k) by (unfold getl; apply set_nth_same; exact LT).
  assert (G2 : forall l, Z.to_nat l <> Z.to_nat lab -> getl (set_nth (Z.to_nat lab) k vc) l = getl vc l).
  { intros l H. unfold getl. apply set_nth_other. exact H. }
  destruct (find_neighbors_spec img R) as [_ [_ SPEC]].
  constructor.
  - rewrite set_nth_length. apply (c_len vc S I).
  - rewrite G2 by (cbn; lia). apply (c_bg vc S I).
  - intros l. destruct (Nat.eq_dec (Z.to_nat l) (Z.to_nat lab)) as [E|N0].
    + unfold getl. rewrite E. rewrite set_nth_same by exact LT. lia.
    + rewrite G2 by exact N0. apply (c_nn vc S I).
  - intros l m Hl Hm Hin Cl Cm.
    destruct (Z.eq_dec l lab) as [->|Nl], (Z.eq_dec m lab) as [->|Nm].
    + exfalso. apply (proj2 (SPEC lab Hlab)) in Hin. tauto.
    + rewrite G1. rewrite G2 in * by lia. apply K2; [|exact Cm].
      unfold L. apply in_map. exact Hin.
    + rewrite G1. rewrite G2 in * by lia. intros E. symmetry in E. revert E. apply K2; [|exact Cl].
      unfold L. apply in_map. unfold nb. apply (find_neighbors_symmetric img R l lab Hl Hlab). exact Hin.
    + rewrite !G2 in * by lia. apply (c_proper vc S I l m); auto.
  - intros l Hl H. destruct (Z.eq_dec l lab) as [->|Nl]; [rewrite G1; exact K1|].
    rewrite G2 by lia. apply (c_done vc S I l Hl). destruct H as [H|H]; [left; exact H|].
    apply in_app_iff in H. destruct H as [H|[H|[]]]; [right; exact H|congruence].
Qed.

Lemma color_fold_inv rows : forall vc S, (forall r, In r rows -> row_ok r) -> CInv vc S ->
  CInv (fold_left (color_step v_neighbor) rows vc) (S ++ map snd rows).
Proof.
  induction rows as [|r rows IH]; intros vc S H I; cbn [fold_left map].
  - rewrite app_nil_r. exact I.
  - replace (S ++ snd r :: map snd rows) with ((S ++ [snd r]) ++ map snd rows) by (rewrite <- app_assoc; reflexivity).
    apply IH; [intros; apply H; right; auto|]. apply color_step_inv; [apply H; left; auto|exact I].
Qed.
(* ---- Welsh-Powell bound: a label never gets a colour above 1 + its number of neighbours ---- *)
Lemma counts_nonneg k : 0 <= nth k v_count 0.
Proof.
  unfold v_count, find_neighbors. cbn [fst].
  destruct (nth_in_or_default k (map (fun l => count_label l (map fst (neighbor_pairs img))) (zrange 1 (Z.to_nat (img_max img)))) 0) as [H|H].
  - apply in_map_iff in H. destruct H as [l [<- _]]. unfold count_label. lia.
  - rewrite H. lia.
Qed.
Definition BInv (vc : list Z) : Prop :=
  length vc = Datatypes.S n /\ forall l, 1 <= l <= img_max img -> getl vc l <= 1 + nth (Z.to_nat (l - 1)) v_count 0.
Lemma color_step_bound vc r : row_ok r -> BInv vc -> BInv (color_step v_neighbor vc r).
Proof.
  destruct r as [[cnt idx] lab]. intros [Hlab [Ec Ei]] [LEN B]. unfold color_step. split; [rewrite set_nth_length; exact LEN|].
  intros l Hl. destruct (Z.eq_dec l lab) as [->|Nl].
  - set (L := map (getl vc) (slice idx cnt v_neighbor)). set (k := pick_color (zunique L)).
    assert (G : getl (set_nth (Z.to_nat lab) k vc) lab = k) by (unfold getl; apply set_nth_same; rewrite LEN; unfold n; lia).
    rewrite G. unfold k.
    pose proof (pick_color_le (zunique L)) as P. unfold zunique in P at 2.
    pose proof (dedup_length (zsort L)) as H. rewrite zsort_length in H. unfold L in H at 2. rewrite map_length in H.
    assert (H2 : (length (slice idx cnt v_neighbor) <= Z.to_nat cnt)%nat) by (unfold slice; rewrite firstn_length; lia).
    pose proof (counts_nonneg (Z.to_nat (lab - 1))) as NNg. rewrite <- Ec in *. lia.
  - unfold getl. rewrite set_nth_other by lia. apply B. exact Hl.
Qed.
Lemma color_fold_bound rows : forall vc, (forall r, In r rows -> row_ok r) -> BInv vc ->
  BInv (fold_left (color_step v_neighbor) rows vc).
Proof.
  induction rows as [|r rows IH]; intros vc H I; cbn [fold_left]; [exact I|].
  apply IH; [intros; apply H; right; auto|]. apply color_step_bound; [apply H; left; auto|exact I].
Qed.
End Coloring.

(* color_labels: one colour per label (the output is the image mapped through a function of the
   label), background 0, every label 1..max a colour >= 1, and labels with 8-adjacent pixels get
   different colours *)
Theorem coloring_proper (img : image) : rect img -> exists g : Z -> Z,
  color_labels img = map (map g) img /\ g 0 = 0 /\
  (forall l, 1 <= l <= img_max img -> 1 <= g l) /\
  (forall l m, 1 <= l <= img_max img -> 1 <= m <= img_max img -> l <> m -> touching img l m -> g l <> g m).
Proof.
  intros R. destruct (find_neighbors_spec img R) as [LC [LI SPEC]].
  unfold color_labels, color_table.
  destruct (find_neighbors img) as [[v_count v_index] v_neighbor] eqn:EF. cbn [fst snd] in LC, LI.
  assert (NB : forall l, neighbors_of img l =
             slice (nth (Z.to_nat (l - 1)) v_index 0) (nth (Z.to_nat (l - 1)) v_count 0) v_neighbor).
  { intros l. unfold neighbors_of. rewrite EF. reflexivity. }
  destruct (forallb (fun c => c =? 0) v_count) eqn:EZ.
  - exists (fun v => if v =? 0 then 0 else 1). split; [reflexivity|]. split; [reflexivity|]. split.
    + intros l Hl. destruct (Z.eqb_spec l 0); lia.
    + intros l m Hl Hm Hne T. exfalso.
      assert (Hin : In m (neighbors_of img l)) by (apply (proj2 (SPEC l Hl)); split; [lia|split; [lia|exact T]]).
      rewrite NB in Hin. rewrite forallb_forall in EZ.
      assert (C0 : nth (Z.to_nat (l - 1)) v_count 0 = 0).
      { assert (Hk : (Z.to_nat (l - 1) < length v_count)%nat) by lia.
        specialize (EZ _ (nth_In v_count 0 Hk)). lia. }
      rewrite C0 in Hin. unfold slice in Hin. cbn in Hin. exact Hin.
  - set (vc0 := 0 :: map (fun c => if c =? 0 then 1 else 0) v_count).
    set (rows0 := filter (fun r => negb (fst (fst r) =? 0)) (combine (combine v_count v_index) (zrange 1 (length v_count)))).
    set (rows := sort_by (fun r => - fst (fst r)) rows0).
    assert (LCI : length (combine v_count v_index) = length v_count) by (rewrite combine_length; lia).
    assert (ROWS : forall cnt idx lab, In (cnt, idx, lab) rows <->
              1 <= lab <= img_max img /\ cnt = nth (Z.to_nat (lab - 1)) v_count 0 /\
              idx = nth (Z.to_nat (lab - 1)) v_index 0 /\ cnt <> 0).
    { intros cnt idx lab. unfold rows. rewrite sort_by_in. unfold rows0. rewrite filter_In. cbn [fst].
      rewrite <- LCI. rewrite (combine_zrange_in (0, 0)). rewrite LCI. split.
      - intros [[k [Hk [El Ex]]] Hn]. rewrite combine_nth in Ex by lia. inversion Ex; subst.
        replace (Z.to_nat (1 + Z.of_nat k - 1)) with k by lia. repeat split; try lia.
      - intros [Hl [Ec [Ei Hn]]]. split; [|lia]. exists (Z.to_nat (lab - 1)). split; [lia|]. split; [lia|].
        rewrite combine_nth by lia. congruence. }
    assert (I0 : CInv img vc0 []).
    { constructor.
      - unfold vc0. cbn [length]. rewrite map_length. lia.
      - reflexivity.
      - intros l. unfold getl, vc0. destruct (Z.to_nat l) as [|k]; cbn [nth]; [lia|].
        destruct (Nat.ltb_spec k (length v_count)) as [Hk|Hk].
        + rewrite nth_map0 by exact Hk. destruct (nth k v_count 0 =? 0); lia.
        + rewrite nth_overflow by (rewrite map_length; exact Hk). lia.
      - intros l m Hl Hm Hin Cl Cm. exfalso.
        (* initially only labels without neighbours are coloured *)
        assert (GL : forall l, 1 <= l <= img_max img -> getl vc0 l <> 0 -> nth (Z.to_nat (l - 1)) v_count 0 = 0).
        { intros l0 Hl0 C. unfold getl, vc0 in C. replace (Z.to_nat l0) with (S (Z.to_nat (l0 - 1))) in C by lia. cbn [nth] in C.
          rewrite nth_map0 in C by lia. destruct (Z.eqb_spec (nth (Z.to_nat (l0 - 1)) v_count 0) 0); [assumption|congruence]. }
        rewrite NB in Hin. rewrite (GL l Hl Cl) in Hin. unfold slice in Hin. cbn in Hin. exact Hin.
      - intros l Hl [H|[]]. rewrite EF in H. cbn [fst] in H.
        unfold getl, vc0. replace (Z.to_nat l) with (S (Z.to_nat (l - 1))) by lia. cbn [nth].
        rewrite nth_map0 by lia. rewrite H. cbn. lia. }
    assert (RO : forall r, In r rows -> row_ok img r).
    { intros [[cnt idx] lab] Hr. apply ROWS in Hr. unfold row_ok. rewrite EF. cbn [fst snd]. tauto. }
    pose proof (color_fold_inv img R rows vc0 [] RO I0) as IF. rewrite EF in IF. cbn [snd app] in IF.
    set (vc := fold_left (color_step v_neighbor) rows vc0) in *.
    exists (getl vc). split; [reflexivity|]. split; [apply (c_bg _ _ _ IF)|]. split.
    + intros l Hl. apply (c_done _ _ _ IF l Hl). rewrite EF. cbn [fst].
      destruct (Z.eq_dec (nth (Z.to_nat (l - 1)) v_count 0) 0) as [E|N0]; [left; exact E|right].
      apply in_map_iff. exists (nth (Z.to_nat (l - 1)) v_count 0, nth (Z.to_nat (l - 1)) v_index 0, l).
      split; [reflexivity|]. apply ROWS. tauto.
    + intros l m Hl Hm Hne T.
      assert (Hin : In m (neighbors_of img l)) by (apply (proj2 (SPEC l Hl)); split; [lia|split; [lia|exact T]]).
      assert (G : forall l0, 1 <= l0 <= img_max img -> 1 <= getl vc l0).
      { intros l0 Hl0. apply (c_done _ _ _ IF l0 Hl0). rewrite EF. cbn [fst].
        destruct (Z.eq_dec (nth (Z.to_nat (l0 - 1)) v_count 0) 0) as [E|N0]; [left; exact E|right].
        apply in_map_iff. exists (nth (Z.to_nat (l0 - 1)) v_count 0, nth (Z.to_nat (l0 - 1)) v_index 0, l0).
        split; [reflexivity|]. apply ROWS. tauto. }
      pose proof (G l Hl). pose proof (G m Hm).
      apply (c_proper _ _ _ IF l m Hl Hm Hin); lia.
Qed.

(* Welsh-Powell: the colour table never exceeds 1 + (number of neighbours of the label), hence
   1 + the maximal degree; the rows are processed in the order produced by lexsort([-v_count]) *)
Theorem coloring_degree_bound (img : image) v_color : rect img -> color_table img = Some v_color ->
  forall l, 1 <= l <= img_max img ->
    getl v_color l <= 1 + nth (Z.to_nat (l - 1)) (fst (fst (find_neighbors img))) 0.
Proof.
  intros R. destruct (find_neighbors_spec img R) as [LC [LI _]]. unfold color_table.
  destruct (find_neighbors img) as [[v_count v_index] v_neighbor] eqn:EF. cbn [fst snd] in LC, LI |- *.
  destruct (forallb (fun c => c =? 0) v_count); [discriminate|]. intros E. inversion E; subst v_color. clear E.
  set (rows := sort_by _ _).
  assert (RO : forall r, In r rows -> row_ok img r).
  { intros [[cnt idx] lab] Hr. unfold rows in Hr. rewrite sort_by_in in Hr. apply filter_In in Hr. destruct Hr as [Hr _].
    assert (LCI : length (combine v_count v_index) = length v_count) by (rewrite combine_length; lia).
    rewrite <- LCI in Hr. apply (combine_zrange_in (0, 0)) in Hr. destruct Hr as [k [Hk [El Ex]]].
    rewrite LCI in Hk. rewrite combine_nth in Ex by lia. inversion Ex; subst.
    unfold row_ok. rewrite EF. cbn [fst snd]. replace (Z.to_nat (1 + Z.of_nat k - 1)) with k by lia. repeat split; lia. }
  pose proof (color_fold_bound img rows (0 :: map (fun c => if c =? 0 then 1 else 0) v_count) RO) as FB.
  unfold BInv in FB. rewrite EF in FB. cbn [fst snd] in FB. apply FB.
  split; [cbn [length]; rewrite map_length; lia|].
  intros l Hl. unfold getl. replace (Z.to_nat l) with (S (Z.to_nat (l - 1))) by lia. cbn [nth].
  rewrite nth_map0 by lia. pose proof (counts_nonneg img (Z.to_nat (l - 1))) as NNg. rewrite EF in NNg. cbn [fst] in NNg.
  destruct (nth (Z.to_nat (l - 1)) v_count 0 =? 0); lia.
Qed.

(* the processing order: a permutation of the rows sorted by non-increasing neighbour count *)
Lemma insert_by_sorted {A} (key : A -> Z) (x : A) l :
  StronglySorted (fun a b => key a <= key b) l -> StronglySorted (fun a b => key a <= key b) (insert_by key x l).
Proof.
  induction 1 as [|a l SS IH Fa]; cbn [insert_by]; [repeat constructor|].
  rewrite Forall_forall in Fa. destruct (Z.leb_spec (key x) (key a)) as [L|L].
  - constructor; [constructor; [exact SS|apply Forall_forall; exact Fa]|].
    apply Forall_forall. intros y [<-|Hy]; [exact L|]. specialize (Fa y Hy). lia.
  - constructor; [exact IH|]. apply Forall_forall. intros y Hy. apply insert_by_in in Hy.
    destruct Hy as [->|Hy]; [lia|auto].
Qed.
Theorem sort_by_sorted {A} (key : A -> Z) (l : list A) :
  StronglySorted (fun a b => key a <= key b) (sort_by key l) /\ (forall y, In y (sort_by key l) <-> In y l) /\
  length (sort_by key l) = length l.
Proof.
  split; [|split; [apply sort_by_in|]].
  - unfold sort_by. induction l as [|a l IH]; cbn [fold_right]; [constructor|]. apply insert_by_sorted. exact IH.
  - unfold sort_by. induction l as [|a l IH]; cbn [fold_right length]; [reflexivity|]. rewrite insert_by_length, IH. reflexivity.
Qed.

Example coloring_example : color_labels [[1; 1; 0]; [0; 2; 0]; [3; 0; 4]] = [[2; 2; 0]; [0; 1; 0]; [2; 0; 2]].
Proof. vm_compute. reflexivity. Qed.
