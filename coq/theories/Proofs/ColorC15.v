(* C15 — the first-free-colour rule of color_labels *)
From Coq Require Import ZArith List Bool Lia ZifyBool Sorted.
From Centro Require Import Base.GraphC15 Model.LabelGraph.
Import ListNotations.
Open Scope Z_scope.

(* crange/misses arithmetic: on a strictly increasing list of colours >= k the rule returns a
   colour >= k that is not in the list *)
Lemma first_free_spec : forall colors k,
  StronglySorted Z.lt colors -> (forall c, In c colors -> k <= c) ->
  ~ In (first_free k colors) colors /\ k <= first_free k colors.
Proof.
  induction colors as [|c r IH]; intros k SS LB; cbn [first_free].
  - split; [intros []|lia].
  - apply StronglySorted_inv in SS. destruct SS as [SSr Fc]. rewrite Forall_forall in Fc.
    destruct (Z.eqb_spec c k) as [E|N].
    + subst c. destruct (IH (k + 1) SSr) as [NI GE].
      { intros x Hx. specialize (Fc x Hx). lia. }
      split; [|lia]. intros [E|Hin]; [lia|contradiction].
    + assert (k <= c) by (apply LB; left; reflexivity).
      split; [|lia]. intros [E|Hin]; [lia|]. specialize (Fc k Hin). lia.
Qed.

Example first_free_example : first_free 1 [1; 2; 4; 7] = 3.
Proof. reflexivity. Qed.
