(* C20 - proofs about the history state machine (port of design/prototypes/History.v, extended with
   argument-dependent / accumulating writes, unguarded reads, entropy, and without any
   extensionality hypothesis on the body: the body receives first-order data only). *)
From Coq Require Import ZArith List Bool Lia.
From Centro Require Import Model.HistoryC20 Spec.HistoryC20.
Import ListNotations.
Open Scope Z_scope.

(* ---------------------------------------------------------------- the boolean checkers are sound *)

Lemma kind_eqb_ok k : kind_eqb k KConst || kind_eqb k KMemo = true -> k = KConst \/ k = KMemo.
Proof. destruct k; simpl; intros H; auto; discriminate. Qed.

Lemma sig_okb_sound s : sig_okb s = true -> sig_ok s.
Proof.
  unfold sig_okb. intros H.
  apply andb_true_iff in H. destruct H as [H He].
  apply andb_true_iff in H. destruct H as [H Hs].
  apply andb_true_iff in H. destruct H as [H Hu].
  apply andb_true_iff in H. destruct H as [Hc Hr].
  constructor.
  - intros g k Hin. rewrite forallb_forall in Hc. apply (kind_eqb_ok k). exact (Hc (g, k) Hin).
  - intros g Hin. rewrite forallb_forall in Hr. specialize (Hr g Hin).
    apply existsb_exists in Hr. destruct Hr as [[g' k] [Hin' Heq]]. simpl in Heq.
    apply Z.eqb_eq in Heq. subst g'. exists k. exact Hin'.
  - destruct (s_unguarded s); [reflexivity | discriminate].
  - intros Hd. rewrite Hd in Hs. simpl in Hs. apply andb_true_iff in Hs. destruct Hs as [Hs1 Hs2].
    split; [exact Hs1|]. destruct (s_seed_lit s); [discriminate | discriminate].
  - destruct (s_entropy s); [discriminate | reflexivity].
Qed.

Lemma sigs_okb_sound l : sigs_okb l = true -> sigs_ok l.
Proof.
  unfold sigs_okb, sigs_ok. intros H s Hin. rewrite forallb_forall in H. apply sig_okb_sound, H, Hin.
Qed.

Lemma inplace_okb_sound l : inplace_okb l = true -> inplace_ok l.
Proof.
  unfold inplace_okb, inplace_ok. intros H s Hin. rewrite forallb_forall in H. specialize (H s Hin).
  apply orb_true_iff in H. destruct H as [H | H]; [left | right; exact H].
  destruct (s_inplace s); [reflexivity | discriminate].
Qed.

Lemma empty_sig_ok f : sig_ok (empty_sig f).
Proof.
  constructor; simpl.
  - intros g k [].
  - intros g [].
  - reflexivity.
  - discriminate.
  - reflexivity.
Qed.

Lemma lookup_ok l : sigs_ok l -> forall f, sig_ok (lookup l f).
Proof.
  intros H f. induction l as [|s r IH]; simpl.
  - apply empty_sig_ok.
  - destruct (s_id s =? f).
    + apply H. left. reflexivity.
    + apply IH. intros s' Hin. apply H. right. exact Hin.
Qed.

(* ---------------------------------------------------------------- the state machine *)
Section Hist.
Variables (args val res rstate : Type).
Variable table : list sig.
Variable const : Z -> val.
Variable argval : Z -> args -> Z -> val.
Variable accval : Z -> args -> Z -> option val -> val.
Variable mval : Z -> args -> val.
Variable key_eqb : args -> args -> bool.
Variable body : Z -> args -> list (option val) -> @rsrc rstate -> res.
Variable rng_next : Z -> args -> @rsrc rstate -> rstate -> rstate.

(* a memo table is keyed by the FULL argument tuple: equal keys mean equal arguments *)
Hypothesis key_sound : forall a b, key_eqb a b = true -> a = b.
Hypothesis key_refl : forall a, key_eqb a a = true.

Notation fill1' := (fill1 args val const argval accval).
Notation fill' := (fill args val const argval accval).
Notation mfill1' := (mfill1 args val mval key_eqb).
Notation mfill' := (mfill args val mval key_eqb).
Notation step' := (step args val res rstate table const argval accval mval key_eqb body rng_next).
Notation run' := (run args val res rstate table const argval accval mval key_eqb body rng_next).
Notation run_from' := (run_from args val res rstate table const argval accval mval key_eqb body rng_next).
Notation result_after' := (result_after args val res rstate table const argval accval mval key_eqb body rng_next).
Notation world' := (world args val rstate).

(* every filled table holds its constant value; every memo entry holds the value of its own key *)
Definition Inv (c : Z -> option val) : Prop := forall g v, c g = Some v -> v = const g.
Definition InvM (m : Z -> args -> option val) : Prop := forall g k v, m g k = Some v -> v = mval g k.
Definition InvW (w : world') : Prop := Inv (cache w) /\ InvM (memo w).

Definition all_const (l : list (Z * kind)) : Prop := forall g k, In (g, k) l -> k = KConst \/ k = KMemo.

Lemma all_const_tail gk l : all_const (gk :: l) -> all_const l.
Proof. intros H g k Hin. apply (H g). right. exact Hin. Qed.

Lemma fill1_inv f a c g0 k0 : k0 = KConst \/ k0 = KMemo -> Inv c -> Inv (fill1' f a c (g0, k0)).
Proof.
  intros Hk I g v. unfold fill1. simpl. destruct (g =? g0) eqn:E; [|apply I].
  destruct Hk as [-> | ->].
  - destruct (c g) eqn:Ec; intros H; inversion H; subst.
    + apply I. exact Ec.
    + reflexivity.
  - apply I.
Qed.

Lemma fill_inv f a l : all_const l -> forall c, Inv c -> Inv (fill' f a c l).
Proof.
  induction l as [|[g0 k] l IH]; intros Hc c I; simpl.
  - exact I.
  - apply IH; [exact (all_const_tail _ _ Hc)|].
    apply fill1_inv; [|exact I]. apply (Hc g0). left. reflexivity.
Qed.

Lemma fill_keeps f a l : all_const l -> forall c g v, c g = Some v -> fill' f a c l g = Some v.
Proof.
  induction l as [|[g0 k] l IH]; intros Hc c g v H; simpl.
  - exact H.
  - apply IH; [exact (all_const_tail _ _ Hc)|].
    unfold fill1. simpl. destruct (g =? g0); [|exact H].
    destruct (Hc g0 k (or_introl eq_refl)) as [-> | ->]; [rewrite H; reflexivity | exact H].
Qed.

Lemma fill_some f a l : all_const l -> forall c, Inv c -> forall g, In (g, KConst) l ->
  fill' f a c l g = Some (const g).
Proof.
  induction l as [|[g0 k0] l IH]; intros Hc c I g Hin; simpl.
  - destruct Hin.
  - pose proof (all_const_tail _ _ Hc) as Hc'.
    assert (Hk0 : k0 = KConst \/ k0 = KMemo) by (apply (Hc g0); left; reflexivity).
    destruct Hin as [Heq | Hin].
    + inversion Heq; subst g0 k0. apply fill_keeps; [exact Hc'|].
      unfold fill1. simpl. rewrite Z.eqb_refl. destruct (c g) eqn:Ec; [|reflexivity].
      f_equal. apply I. exact Ec.
    + apply (IH Hc' _ (fill1_inv f a c g0 k0 Hk0 I) g Hin).
Qed.

Lemma mfill1_inv a m gk : InvM m -> InvM (mfill1' a m gk).
Proof.
  intros I g k v. unfold mfill1. destruct (snd gk); try apply I.
  destruct ((g =? fst gk) && key_eqb a k) eqn:E; [|apply I].
  apply andb_true_iff in E. destruct E as [_ E]. apply key_sound in E. subst k.
  destruct (m g a) eqn:Em; intros H; inversion H; subst.
  - apply I. exact Em.
  - reflexivity.
Qed.

Lemma mfill_inv a l : forall m, InvM m -> InvM (mfill' a m l).
Proof.
  induction l as [|gk l IH]; intros m I; simpl; [exact I|]. apply IH, mfill1_inv, I.
Qed.

Lemma mfill_keeps a l : forall m g k v, m g k = Some v -> mfill' a m l g k = Some v.
Proof.
  induction l as [|gk l IH]; intros m g k v H; simpl; [exact H|].
  apply IH. unfold mfill1. destruct (snd gk); try exact H.
  destruct ((g =? fst gk) && key_eqb a k); [rewrite H; reflexivity | exact H].
Qed.

Lemma mfill_some a l : forall m, InvM m -> forall g, In (g, KMemo) l -> mfill' a m l g a = Some (mval g a).
Proof.
  induction l as [|[g0 k0] l IH]; intros m I g Hin; simpl.
  - destruct Hin.
  - destruct Hin as [Heq | Hin].
    + inversion Heq; subst g0 k0. apply mfill_keeps.
      unfold mfill1. simpl. rewrite Z.eqb_refl, key_refl. simpl.
      destruct (m g a) eqn:Em; [|reflexivity]. f_equal. apply I. exact Em.
    + apply (IH _ (mfill1_inv a m (g0, k0) I) g Hin).
Qed.

Lemma is_memo_true g l : is_memo g l = true -> In (g, KMemo) l.
Proof.
  unfold is_memo. intros H. apply existsb_exists in H. destruct H as [[g' k] [Hin H]]. simpl in H.
  apply andb_true_iff in H. destruct H as [Hg Hk]. apply Z.eqb_eq in Hg. subst g'.
  destruct k; try discriminate. exact Hin.
Qed.

Lemma is_memo_false g l k : is_memo g l = false -> In (g, k) l -> k <> KMemo.
Proof.
  unfold is_memo. intros H Hin Hk. subst k.
  assert (existsb (fun gk => (g =? fst gk) && match snd gk with KMemo => true | _ => false end) l = true).
  { apply existsb_exists. exists (g, KMemo). split; [exact Hin|]. simpl. rewrite Z.eqb_refl. reflexivity. }
  congruence.
Qed.

(* what the body sees of the tables is fixed by its own arguments *)
Lemma view_const f a s c m : sig_ok s -> Inv c -> InvM m ->
  view args val s a c (fill' f a c (s_fills s)) (mfill' a m (s_fills s)) =
  map (fun g => if is_memo g (s_fills s) then Some (mval g a) else Some (const g)) (s_reads s).
Proof.
  intros [Hconst Hreads Hguard _ _] I IM. unfold view. apply map_ext_in. intros g Hin.
  destruct (is_memo g (s_fills s)) eqn:E.
  - apply mfill_some; [exact IM|]. apply is_memo_true. exact E.
  - rewrite Hguard. simpl. destruct (Hreads g Hin) as [k Hk].
    destruct (Hconst g k Hk) as [-> | ->].
    + apply (fill_some f a (s_fills s) Hconst c I g Hk).
    + exfalso. exact (is_memo_false g _ _ E Hk eq_refl).
Qed.

(* ... and so is the source of its random draws *)
Lemma src_const s (w w' : world') : sig_ok s -> src_of args val rstate s w = src_of args val rstate s w'.
Proof.
  intros [_ _ _ Hseed Hent]. unfold src_of. rewrite Hent.
  destruct (s_draws s) eqn:D; [|reflexivity].
  destruct (Hseed eq_refl) as [Hd Hl]. rewrite Hd. destruct (s_seed_lit s); [reflexivity | congruence].
Qed.

Lemma step_inv : sigs_ok table -> forall w c, InvW w -> InvW (snd (step' w c)).
Proof.
  intros H w [f a] [I IM]. unfold step. simpl. split; simpl.
  - apply fill_inv; [|exact I]. exact (ok_const _ (lookup_ok table H f)).
  - apply mfill_inv. exact IM.
Qed.

Lemma run_from_inv : sigs_ok table -> forall h w, InvW w -> InvW (run_from' w h).
Proof.
  intros H h. induction h as [|c h IH]; intros w I; simpl.
  - exact I.
  - apply IH. apply step_inv; assumption.
Qed.

Lemma init_inv r0 : InvW (init args val rstate r0).
Proof. split; [intros g v E | intros g k v E]; discriminate. Qed.

(* cache_inv (Full): in every reachable world each filled table equals its constant value and every memo
   entry equals the value of its own key *)
Theorem cache_inv : sigs_ok table -> forall r0 h,
  (forall g v, cache (run' r0 h) g = Some v -> v = const g) /\
  (forall g k v, memo (run' r0 h) g k = Some v -> v = mval g k).
Proof. intros H r0 h. unfold run. apply (run_from_inv H h _ (init_inv r0)). Qed.

Theorem step_result_indep : sigs_ok table -> forall (w w' : world') c,
  InvW w -> InvW w' -> fst (step' w c) = fst (step' w' c).
Proof.
  intros H w w' [f a] [I IM] [I' IM']. unfold step. simpl.
  pose proof (lookup_ok table H f) as Hs.
  rewrite (view_const f a _ (cache w) (memo w) Hs I IM), (view_const f a _ (cache w') (memo w') Hs I' IM').
  rewrite (src_const _ w w' Hs). reflexivity.
Qed.

(* history_independent (Full): for every history h (any length, any repetitions and interleavings)
   and every call c, the result of c after h is the result of c in a fresh interpreter - whatever
   the initial states r0, r0' of the global random generator were *)
Theorem history_independent : sigs_ok table -> forall r0 r0' h c,
  result_after' r0 h c = result_after' r0' [] c.
Proof.
  intros H r0 r0' h c. unfold result_after. apply step_result_indep; [exact H| |].
  - unfold run. apply (run_from_inv H h _ (init_inv r0)).
  - unfold run. apply (run_from_inv H [] _ (init_inv r0')).
Qed.

(* rng_leak_free (Full): the result of a call does not depend on the incoming state of the global
   random generator nor on the clock - in ANY world, reachable or not *)
Theorem rng_leak_free : sigs_ok table -> forall (w : world') r t c,
  fst (step' w c) = fst (step' (mk_world (cache w) (memo w) r t) c).
Proof.
  intros H w r t [f a]. unfold step. simpl.
  rewrite (src_const _ w (mk_world (cache w) (memo w) r t) (lookup_ok table H f)). reflexivity.
Qed.

(* the global generator is left untouched by functions that do not draw from it *)
Theorem rng_untouched : forall (w : world') c,
  s_draws (lookup table (fst c)) = false -> rng (snd (step' w c)) = rng w.
Proof. intros w c Hd. unfold step. simpl. rewrite Hd. reflexivity. Qed.

(* a call writes only the module-level state its signature lists *)
Lemma fill_frame f a l : forall c g, (forall k, ~ In (g, k) l) -> fill' f a c l g = c g.
Proof.
  induction l as [|[g0 k0] l IH]; intros c g Hn; simpl.
  - reflexivity.
  - rewrite IH.
    + unfold fill1. simpl. destruct (g =? g0) eqn:E; [|reflexivity].
      apply Z.eqb_eq in E. subst g0. exfalso. apply (Hn k0). left. reflexivity.
    + intros k Hin. apply (Hn k). right. exact Hin.
Qed.

Lemma mfill_frame a l : forall m g k, (forall kd, ~ In (g, kd) l) -> mfill' a m l g k = m g k.
Proof.
  induction l as [|[g0 k0] l IH]; intros m g k Hn; simpl.
  - reflexivity.
  - rewrite IH.
    + unfold mfill1. simpl. destruct k0; try reflexivity. destruct (g =? g0) eqn:E; [|reflexivity].
      apply Z.eqb_eq in E. subst g0. exfalso. apply (Hn KMemo). left. reflexivity.
    + intros kd Hin. apply (Hn kd). right. exact Hin.
Qed.

Theorem step_frame : forall (w : world') c g,
  (forall k, ~ In (g, k) (s_fills (lookup table (fst c)))) ->
  cache (snd (step' w c)) g = cache w g /\ (forall k, memo (snd (step' w c)) g k = memo w g k).
Proof.
  intros w c g Hn. unfold step. simpl. split.
  - apply fill_frame. exact Hn.
  - intros k. apply mfill_frame. exact Hn.
Qed.

End Hist.

(* ---------------------------------------------------------------- the hypotheses are satisfiable
   (GUIDE: an Example next to every theorem with hypotheses): a table with a lazily filled constant
   cache, a reader of it, and a seeded draw *)
Example ex_table : list sig :=
  [ mk_sig 0 true [(0, KConst); (1, KConst)] [0; 1] [] false false None false [] false;
    mk_sig 1 true [] [] [] true true (Some 0) false [] false;
    mk_sig 2 true [(1, KConst)] [1] [] true true (Some 7) false [(0, 12)] true;
    mk_sig 3 true [(2, KMemo)] [2] [] false false None false [] false ].
Example ex_table_ok : sigs_ok ex_table.
Proof. apply sigs_okb_sound. vm_compute. reflexivity. Qed.
(* integer arguments as memo keys satisfy the key hypotheses *)
Example ex_key_sound : forall a b : Z, Z.eqb a b = true -> a = b.
Proof. intros a b H. apply Z.eqb_eq. exact H. Qed.
Example ex_key_refl : forall a : Z, Z.eqb a a = true.
Proof. exact Z.eqb_refl. Qed.
Example ex_table_inplace_ok : inplace_ok ex_table.
Proof. apply inplace_okb_sound. vm_compute. reflexivity. Qed.
