(* C20 - proofs about the history state machine (port of design/prototypes/History.v, extended with
   argument-dependent / accumulating writes, unguarded reads, entropy, and without any
   extensionality hypothesis on the body: the body receives first-order data only). *)
From Coq Require Import ZArith List Bool Lia.
From Centro Require Import Model.HistoryC20 Spec.HistoryC20.
Import ListNotations.
Open Scope Z_scope.

(* ---------------------------------------------------------------- the boolean checkers are sound *)

Lemma kind_eqb_const k : kind_eqb k KConst = true -> k = KConst.
Proof. destruct k; simpl; intros H; congruence. Qed.

Lemma sig_okb_sound s : sig_okb s = true -> sig_ok s.
Proof.
  unfold sig_okb. intros H.
  apply andb_true_iff in H. destruct H as [H He].
  apply andb_true_iff in H. destruct H as [H Hs].
  apply andb_true_iff in H. destruct H as [H Hu].
  apply andb_true_iff in H. destruct H as [Hc Hr].
  constructor.
  - intros g k Hin. rewrite forallb_forall in Hc. apply (kind_eqb_const k). exact (Hc (g, k) Hin).
  - intros g Hin. rewrite forallb_forall in Hr. specialize (Hr g Hin).
    apply existsb_exists in Hr. destruct Hr as [[g' k] [Hin' Heq]]. simpl in Heq.
    apply Z.eqb_eq in Heq. subst g'. exists k. exact Hin'.
  - destruct (s_unguarded s); [reflexivity | discriminate].
  - intros Hd. rewrite Hd in Hs. simpl in Hs. apply andb_true_iff in Hs. destruct Hs as [Hs1 Hs2].
    split; [exact Hs1|]. destruct (s_seed_lit s); [discriminate | discriminate].
  - destruct (s_entropy s); [discriminate | reflexivity].
Qed.

Lemma sigs_okb_sound l : sigs_okb l = true -> sigs_ok l.
Proof.
  unfold sigs_okb, sigs_ok. intros H s Hin. rewrite forallb_forall in H. apply sig_okb_sound, H, Hin.
Qed.

Lemma inplace_okb_sound l : inplace_okb l = true -> inplace_ok l.
Proof.
  unfold inplace_okb, inplace_ok. intros H s Hin. rewrite forallb_forall in H. specialize (H s Hin).
  apply orb_true_iff in H. destruct H as [H | H]; [left | right; exact H].
  destruct (s_inplace s); [reflexivity | discriminate].
Qed.

Lemma empty_sig_ok f : sig_ok (empty_sig f).
Proof.
  constructor; simpl.
  - intros g k [].
  - intros g [].
  - reflexivity.
  - discriminate.
  - reflexivity.
Qed.

Lemma lookup_ok l : sigs_ok l -> forall f, sig_ok (lookup l f).
Proof.
  intros H f. induction l as [|s r IH]; simpl.
  - apply empty_sig_ok.
  - destruct (s_id s =? f).
    + apply H. left. reflexivity.
    + apply IH. intros s' Hin. apply H. right. exact Hin.
Qed.

(* ---------------------------------------------------------------- the state machine *)
Section Hist.
Variables (args val res rstate : Type).
Variable table : list sig.
Variable const : Z -> val.
Variable argval : Z -> args -> Z -> val.
Variable accval : Z -> args -> Z -> option val -> val.
Variable body : Z -> args -> list (option val) -> @rsrc rstate -> res.
Variable rng_next : Z -> args -> @rsrc rstate -> rstate -> rstate.

Notation fill1' := (fill1 args val const argval accval).
Notation fill' := (fill args val const argval accval).
Notation step' := (step args val res rstate table const argval accval body rng_next).
Notation run' := (run args val res rstate table const argval accval body rng_next).
Notation run_from' := (run_from args val res rstate table const argval accval body rng_next).
Notation result_after' := (result_after args val res rstate table const argval accval body rng_next).
Notation world' := (world val rstate).

(* every filled table holds its constant value *)
Definition Inv (c : Z -> option val) : Prop := forall g v, c g = Some v -> v = const g.

Definition all_const (l : list (Z * kind)) : Prop := forall g k, In (g, k) l -> k = KConst.

Lemma fill1_inv f a c g0 : Inv c -> Inv (fill1' f a c (g0, KConst)).
Proof.
  intros I g v. unfold fill1. simpl. destruct (g =? g0) eqn:E.
  - destruct (c g) eqn:Ec; intros H; inversion H; subst.
    + apply I. exact Ec.
    + reflexivity.
  - apply I.
Qed.

Lemma fill_inv f a l : all_const l -> forall c, Inv c -> Inv (fill' f a c l).
Proof.
  induction l as [|[g0 k] l IH]; intros Hc c I; simpl.
  - exact I.
  - assert (k = KConst) as -> by (apply (Hc g0); left; reflexivity).
    apply IH.
    + intros g k' Hin. apply (Hc g). right. exact Hin.
    + apply fill1_inv. exact I.
Qed.

Lemma fill_keeps f a l : all_const l -> forall c g v, c g = Some v -> fill' f a c l g = Some v.
Proof.
  induction l as [|[g0 k] l IH]; intros Hc c g v H; simpl.
  - exact H.
  - assert (k = KConst) as -> by (apply (Hc g0); left; reflexivity).
    apply IH.
    + intros g' k' Hin. apply (Hc g'). right. exact Hin.
    + unfold fill1. simpl. destruct (g =? g0); [rewrite H; reflexivity | exact H].
Qed.

Lemma fill_some f a l : all_const l -> forall c, Inv c -> forall g k, In (g, k) l ->
  fill' f a c l g = Some (const g).
Proof.
  induction l as [|[g0 k0] l IH]; intros Hc c I g k Hin; simpl.
  - destruct Hin.
  - assert (k0 = KConst) as -> by (apply (Hc g0); left; reflexivity).
    assert (Hc' : all_const l) by (intros g' k' Hin'; apply (Hc g'); right; exact Hin').
    destruct Hin as [Heq | Hin].
    + inversion Heq; subst g0. apply fill_keeps; [exact Hc'|].
      unfold fill1. simpl. rewrite Z.eqb_refl. destruct (c g) eqn:Ec; [|reflexivity].
      f_equal. apply I. exact Ec.
    + apply (IH Hc' _ (fill1_inv f a c g0 I) g k Hin).
Qed.

(* what the body sees of the tables is fixed *)
Lemma view_const f a s c : sig_ok s -> Inv c ->
  view val s c (fill' f a c (s_fills s)) = map (fun g => Some (const g)) (s_reads s).
Proof.
  intros [Hconst Hreads Hguard _ _] I. unfold view. apply map_ext_in. intros g Hin.
  rewrite Hguard. simpl. destruct (Hreads g Hin) as [k Hk].
  apply (fill_some f a (s_fills s) Hconst c I g k Hk).
Qed.

(* ... and so is the source of its random draws *)
Lemma src_const s (w w' : world') : sig_ok s -> src_of val rstate s w = src_of val rstate s w'.
Proof.
  intros [_ _ _ Hseed Hent]. unfold src_of. rewrite Hent.
  destruct (s_draws s) eqn:D; [|reflexivity].
  destruct (Hseed eq_refl) as [Hd Hl]. rewrite Hd. destruct (s_seed_lit s); [reflexivity | congruence].
Qed.

Lemma step_inv : sigs_ok table -> forall w c, Inv (cache w) -> Inv (cache (snd (step' w c))).
Proof.
  intros H w [f a] I. unfold step. simpl.
  apply fill_inv; [|exact I]. exact (ok_const _ (lookup_ok table H f)).
Qed.

Lemma run_from_inv : sigs_ok table -> forall h w, Inv (cache w) -> Inv (cache (run_from' w h)).
Proof.
  intros H h. induction h as [|c h IH]; intros w I; simpl.
  - exact I.
  - apply IH. apply step_inv; assumption.
Qed.

(* cache_inv (Full): in every reachable world each filled table equals its constant value *)
Theorem cache_inv : sigs_ok table -> forall r0 h g v,
  cache (run' r0 h) g = Some v -> v = const g.
Proof.
  intros H r0 h. unfold run. apply run_from_inv; [exact H|].
  intros g v E. discriminate.
Qed.

Theorem step_result_indep : sigs_ok table -> forall (w w' : world') c,
  Inv (cache w) -> Inv (cache w') -> fst (step' w c) = fst (step' w' c).
Proof.
  intros H w w' [f a] I I'. unfold step. simpl.
  pose proof (lookup_ok table H f) as Hs.
  rewrite (view_const f a _ (cache w) Hs I), (view_const f a _ (cache w') Hs I').
  rewrite (src_const _ w w' Hs). reflexivity.
Qed.

(* history_independent (Full): for every history h (any length, any repetitions and interleavings)
   and every call c, the result of c after h is the result of c in a fresh interpreter - whatever
   the initial states r0, r0' of the global random generator were *)
Theorem history_independent : sigs_ok table -> forall r0 r0' h c,
  result_after' r0 h c = result_after' r0' [] c.
Proof.
  intros H r0 r0' h c. unfold result_after. apply step_result_indep; [exact H| |].
  - intros g v E. exact (cache_inv H r0 h g v E).
  - intros g v E. exact (cache_inv H r0' [] g v E).
Qed.

(* rng_leak_free (Full): the result of a call does not depend on the incoming state of the global
   random generator nor on the clock - in ANY world, reachable or not *)
Theorem rng_leak_free : sigs_ok table -> forall (w : world') r t c,
  fst (step' w c) = fst (step' (mk_world (cache w) r t) c).
Proof.
  intros H w r t [f a]. unfold step. simpl.
  rewrite (src_const _ w (mk_world (cache w) r t) (lookup_ok table H f)). reflexivity.
Qed.

(* the global generator is left untouched by functions that do not draw from it *)
Theorem rng_untouched : forall (w : world') c,
  s_draws (lookup table (fst c)) = false -> rng (snd (step' w c)) = rng w.
Proof. intros w c Hd. unfold step. simpl. rewrite Hd. reflexivity. Qed.

(* a call writes only the module-level state its signature lists *)
Lemma fill_frame f a l : forall c g, (forall k, ~ In (g, k) l) -> fill' f a c l g = c g.
Proof.
  induction l as [|[g0 k0] l IH]; intros c g Hn; simpl.
  - reflexivity.
  - rewrite IH.
    + unfold fill1. simpl. destruct (g =? g0) eqn:E; [|reflexivity].
      apply Z.eqb_eq in E. subst g0. exfalso. apply (Hn k0). left. reflexivity.
    + intros k Hin. apply (Hn k). right. exact Hin.
Qed.

Theorem step_frame : forall (w : world') c g,
  (forall k, ~ In (g, k) (s_fills (lookup table (fst c)))) -> cache (snd (step' w c)) g = cache w g.
Proof. intros w c g Hn. unfold step. simpl. apply fill_frame. exact Hn. Qed.

End Hist.

(* ---------------------------------------------------------------- the hypotheses are satisfiable
   (GUIDE: an Example next to every theorem with hypotheses): a table with a lazily filled constant
   cache, a reader of it, and a seeded draw *)
Example ex_table : list sig :=
  [ mk_sig 0 true [(0, KConst); (1, KConst)] [0; 1] [] false false None false [] false;
    mk_sig 1 true [] [] [] true true (Some 0) false [] false;
    mk_sig 2 true [(1, KConst)] [1] [] true true (Some 7) false [(0, 12)] true ].
Example ex_table_ok : sigs_ok ex_table.
Proof. apply sigs_okb_sound. vm_compute. reflexivity. Qed.
Example ex_table_inplace_ok : inplace_ok ex_table.
Proof. apply inplace_okb_sound. vm_compute. reflexivity. Qed.
