(* C18 — block-structured lists: lemmas for arrays that are concatenations of per-object blocks
   (Indexes, pairwise_permutations). *)
From Coq Require Import ZArith List Bool Arith Lia.
From Centro Require Import Model.VecC18 Proofs.VecC18Lemmas Proofs.MedianC18Proofs.
Import ListNotations.
Local Open Scope nat_scope.

Lemma map2_length {A B C} (f : A -> B -> C) l1 l2 : length (map2 f l1 l2) = Nat.min (length l1) (length l2).
Proof. revert l2; induction l1 as [|a l1 IH]; intros [|b l2]; cbn [map2 length Nat.min]; auto. Qed.

Lemma map2_app {A B C} (f : A -> B -> C) a1 a2 b1 b2 : length a1 = length b1 ->
  map2 f (a1 ++ a2) (b1 ++ b2) = map2 f a1 b1 ++ map2 f a2 b2.
Proof.
  revert b1; induction a1 as [|x a1 IH]; intros [|y b1] H; cbn [length] in H; try lia; [reflexivity|].
  cbn [app map2]. rewrite IH by lia. reflexivity.
Qed.

Lemma map2_concat {A B C O} (f : A -> B -> C) (X : O -> list A) (Y : O -> list B) os :
  (forall o, In o os -> length (X o) = length (Y o)) ->
  map2 f (concat (map X os)) (concat (map Y os)) = concat (map (fun o => map2 f (X o) (Y o)) os).
Proof.
  induction os as [|o os IH]; intros H; [reflexivity|]. cbn [map concat].
  rewrite map2_app by (apply H; left; reflexivity). rewrite IH; [reflexivity|].
  intros o' Ho'. apply H. right; exact Ho'.
Qed.

Lemma map2_repeat_r {A B C} (f : A -> B -> C) l c : map2 f l (repeat c (length l)) = map (fun t => f t c) l.
Proof. induction l as [|a l IH]; [reflexivity|]. cbn [length repeat map2 map]. rewrite IH. reflexivity. Qed.

Lemma map_repeat {A B} (g : A -> B) a n : map g (repeat a n) = repeat (g a) n.
Proof. induction n as [|n IH]; [reflexivity|]. cbn [repeat map]. rewrite IH. reflexivity. Qed.

Lemma map_concat_map {A B O} (g : A -> B) (X : O -> list A) os :
  map g (concat (map X os)) = concat (map (fun o => map g (X o)) os).
Proof. rewrite concat_map, map_map. reflexivity. Qed.

Lemma length_concat_map {A O} (X : O -> list A) os :
  length (concat (map X os)) = nsum (map (fun o => length (X o)) os).
Proof. induction os as [|o os IH]; [reflexivity|]. cbn [map concat nsum fold_right]. rewrite app_length, IH. reflexivity. Qed.

Lemma map_const_seq {A} (c : A) s n : map (fun _ => c) (seq s n) = repeat c n.
Proof. revert s; induction n as [|n IH]; intros s; [reflexivity|]. cbn [seq map repeat]. rewrite IH. reflexivity. Qed.

Lemma map_const_list {A B} (c : B) (l : list A) : map (fun _ => c) l = repeat c (length l).
Proof. induction l as [|a l IH]; [reflexivity|]. cbn [map length repeat]. rewrite IH. reflexivity. Qed.

Lemma map_seq_shift {A} (f : nat -> A) s n : map f (seq (S s) n) = map (fun o => f (S o)) (seq s n).
Proof. rewrite <- seq_shift, map_map. reflexivity. Qed.

Lemma map_getn_seq cnt : map (getn cnt) (seq 0 (length cnt)) = cnt.
Proof. unfold getn. apply map_seq_nth. Qed.

(* seq s (sum of the block lengths) is the concatenation of the blocks' index ranges *)
Lemma seq_blocks cnt s :
  seq s (nsum cnt) = concat (map (fun o => seq (s + nsum (firstn o cnt)) (getn cnt o)) (seq 0 (length cnt))).
Proof.
  revert s; induction cnt as [|c r IH]; intros s; [reflexivity|].
  cbn [length seq map concat]. rewrite map_seq_shift.
  change (nsum (c :: r)) with (c + nsum r). rewrite seq_app. f_equal.
  - unfold getn. cbn [firstn nsum fold_right nth]. rewrite Nat.add_0_r. reflexivity.
  - rewrite IH. f_equal. apply map_ext. intros o. unfold getn. cbn [firstn nth].
    change (nsum (c :: firstn o r)) with (c + nsum (firstn o r)). f_equal. lia.
Qed.

Lemma map_sub_seq s k n : map (fun t => t - s) (seq (s + k) n) = seq k n.
Proof.
  revert k; induction n as [|n IH]; intros k; [reflexivity|]. cbn [seq map]. f_equal; [lia|].
  replace (S (s + k)) with (s + S k) by lia. apply IH.
Qed.

Lemma map2_sub_seq_repeat s n : map2 Nat.sub (seq s n) (repeat s n) = seq 0 n.
Proof.
  rewrite <- (seq_length n s) at 2. rewrite map2_repeat_r.
  pose proof (map_sub_seq s 0 n) as H. rewrite Nat.add_0_r in H. exact H.
Qed.
