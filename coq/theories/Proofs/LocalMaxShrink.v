(* C17 — list lemmas behind is_local_maximum: the per-offset shrinking of the work lists
   (port of design/prototypes/LocalMax.v), bounds-checked reads on padded arrays, and the
   NumPy idioms of the loop body (mask computation, compaction, scatter of False). *)
From Coq Require Import ZArith List Bool Lia ZifyBool.
From Centro Require Import Base.LocalMaxGrid Model.LocalMax.
Import ListNotations.
Open Scope Z_scope.

Section Shrink.
Variables (P O : Type).
Variable ok : O -> P -> bool.   (* offset o does not dominate pixel p *)
Definition shrink (offs : list O) (l0 : list P) : list P := fold_left (fun l o => filter (ok o) l) offs l0.

Lemma filter_true (l : list P) : filter (fun _ => true) l = l.
Proof. induction l as [|p l IH]; cbn [filter]; auto. f_equal; auto. Qed.

Lemma filter_filter (f g : P -> bool) l : filter g (filter f l) = filter (fun p => f p && g p) l.
Proof.
  induction l as [|p l IH]; cbn [filter]; auto.
  destruct (f p) eqn:F; cbn [filter andb].
  - destruct (g p); rewrite IH; reflexivity.
  - exact IH.
Qed.

Theorem shrink_spec offs : forall l0, shrink offs l0 = filter (fun p => forallb (fun o => ok o p) offs) l0.
Proof.
  unfold shrink. induction offs as [|o r IH]; intros l0; cbn [fold_left forallb].
  - symmetry. apply filter_true.
  - rewrite IH. apply filter_filter.
Qed.

(* the order in which the offsets are visited (the code sorts them by distance) does not matter *)
Corollary shrink_perm offs offs' l0 :
  (forall o, In o offs <-> In o offs') -> shrink offs l0 = shrink offs' l0.
Proof.
  intros H. rewrite !shrink_spec. apply filter_ext. intros p.
  destruct (forallb (fun o => ok o p) offs) eqn:A, (forallb (fun o => ok o p) offs') eqn:B; auto.
  - rewrite forallb_forall in A.
    assert (forallb (fun o => ok o p) offs' = true) by (apply forallb_forall; intros; apply A, H; auto).
    congruence.
  - rewrite forallb_forall in B.
    assert (forallb (fun o => ok o p) offs = true) by (apply forallb_forall; intros; apply B, H; auto).
    congruence.
Qed.
End Shrink.

Example shrink_example :
  shrink Z Z (fun o p => negb (p + o =? 5)) [1; 2; 3] [1; 2; 3; 4; 5] = [1; 5].
Proof. reflexivity. Qed.

(* reads through the bounds-checked accessor on an array padded by [pad] on both sides never
   fail for any offset within the padding *)
Definition padded {A} (pad : nat) (z : A) (l : list A) : list A := repeat z pad ++ l ++ repeat z pad.
Theorem padded_read_safe {A} (pad : nat) (z : A) (l : list A) (k d : Z) :
  0 <= k < zlen l -> - Z.of_nat pad <= d <= Z.of_nat pad ->
  zget (padded pad z l) (Z.of_nat pad + k + d) <> None.
Proof.
  intros Hk Hd. apply zget_Some_range. unfold zlen, padded in *.
  rewrite !app_length, !repeat_length. lia.
Qed.

Example padded_read_example : zget (padded 2 0 [7; 8; 9]) (2 + 0 + -2) = Some 0.
Proof. reflexivity. Qed.

(* ---- the idioms of the loop body ---- *)

Lemma mapM_map {A B C} (tr : A -> B) (f : B -> option C) (g : A -> C) (l : list A) :
  (forall a, In a l -> f (tr a) = Some (g a)) -> mapM f (map tr l) = Some (map g l).
Proof.
  induction l as [|a l IH]; intros H; cbn [map mapM]; [reflexivity|].
  rewrite (H a (or_introl eq_refl)), IH by (intros; apply H; now right). reflexivity.
Qed.

Lemma select_map {A B} (tr : A -> B) (g : A -> bool) (l : list A) :
  select (map g l) (map tr l) = map tr (filter g l).
Proof.
  unfold select. induction l as [|a l IH]; [reflexivity|].
  cbn [map combine filter fst]. destruct (g a); cbn [map snd]; now rewrite IH.
Qed.

Lemma clear_at_spec (idx : list Z) (r : list bool) :
  (forall k, In k idx -> 0 <= k < zlen r) ->
  exists r', clear_at idx r = Some r' /\ length r' = length r /\
    forall k, (k < length r)%nat ->
      nth k r' false = nth k r false && negb (existsb (Z.eqb (Z.of_nat k)) idx).
Proof.
  intros Hr. unfold clear_at.
  assert (E : forallb (fun k => (0 <=? k) && (k <? zlen r)) idx = true).
  { apply forallb_forall. intros k Hk. specialize (Hr k Hk). lia. }
  rewrite E. eexists. split; [reflexivity|]. split.
  - now rewrite map_length, combine_length, zrange_length, Nat.min_id.
  - intros k Hk.
    set (F := fun kb : Z * bool => snd kb && negb (existsb (Z.eqb (fst kb)) idx)).
    rewrite nth_indep with (d' := F (0, false))
      by (now rewrite map_length, combine_length, zrange_length, Nat.min_id).
    rewrite (map_nth F), combine_nth by (now rewrite zrange_length).
    unfold F. cbn [fst snd]. now rewrite nth_zrange.
Qed.

Lemma step_bool {P} (ri : P -> Z) (f g : P -> bool) (k : Z) (ps : list P) :
  negb (existsb (Z.eqb k) (map ri (filter (fun p => negb (f p)) ps)))
  && forallb (fun p => implb (ri p =? k) (g p)) (filter f ps)
  = forallb (fun p => implb (ri p =? k) (f p && g p)) ps.
Proof.
  induction ps as [|p ps IH]; [reflexivity|].
  cbn [filter forallb]. rewrite <- IH.
  destruct (f p) eqn:F; cbn [negb filter map existsb forallb andb]; rewrite ?(Z.eqb_sym (ri p) k).
  - destruct (k =? ri p), (g p); cbn [implb andb]; try reflexivity;
      now rewrite ?andb_false_r.
  - destruct (k =? ri p); cbn [implb orb negb andb]; reflexivity.
Qed.

Lemma forallb_implb_true {P} (c : P -> bool) (ps : list P) : forallb (fun p => implb (c p) true) ps = true.
Proof. induction ps as [|p ps IH]; [reflexivity|]. cbn [forallb]. rewrite IH. now destruct (c p). Qed.

Lemma combine_map {A B C} (f : A -> B) (g : A -> C) (l : list A) :
  combine (map f l) (map g l) = map (fun a => (f a, g a)) l.
Proof. induction l as [|a l IH]; [reflexivity|]. cbn [map combine]. now rewrite IH. Qed.

(* the loop of is_local_maximum on lists of genuine triples: it never fails, keeps exactly the
   pixels passing every offset's test, and clears exactly the cells of the pixels that fail one *)
Section Loop.
  Variables (Px Off : Type).
  Variables (big img : list Z).
  Variable tr : Px -> triple.
  Variable cv : Off -> Z * Z.                (* (fp_image_offset, fp_big_offset) *)
  Variable okb : Off -> Px -> bool.
  Variable good : Px -> Prop.
  Variable n : nat.
  Hypothesis ri_range : forall p, good p -> 0 <= t_ri (tr p) < Z.of_nat n.

  Lemma ilm_loop_spec : forall offs,
    (forall o p, In o offs -> good p -> ok_chk big img (fst (cv o)) (snd (cv o)) (tr p) = Some (okb o p)) ->
    forall r ps, length r = n -> Forall good ps ->
    exists r', ilm_loop big img (map cv offs) (r, map tr ps)
               = Some (r', map tr (filter (fun p => forallb (fun o => okb o p) offs) ps))
      /\ length r' = n
      /\ forall k, (k < n)%nat ->
           nth k r' false = nth k r false
             && forallb (fun p => implb (t_ri (tr p) =? Z.of_nat k) (forallb (fun o => okb o p) offs)) ps.
  Proof.
    induction offs as [|o offs IH]; intros Hok r ps Hr Hps.
    - exists r. cbn [map ilm_loop forallb]. rewrite filter_true. split; [reflexivity|]. split; [exact Hr|].
      intros k _. now rewrite forallb_implb_true, andb_true_r.
    - cbn [map ilm_loop]. destruct (cv o) as [io bo] eqn:Ecv. cbn [snd fst].
      rewrite (mapM_map tr (ok_chk big img io bo) (okb o) ps).
      2:{ intros p Hp. rewrite Forall_forall in Hps. specialize (Hok o p (or_introl eq_refl) (Hps p Hp)).
          now rewrite Ecv in Hok. }
      rewrite map_map, !select_map.
      destruct (clear_at_spec (map t_ri (map tr (filter (fun p => negb (okb o p)) ps))) r) as (r1 & E1 & L1 & N1).
      { intros k Hk. rewrite map_map in Hk. apply in_map_iff in Hk. destruct Hk as (p & <- & Hp).
        apply filter_In in Hp. rewrite Forall_forall in Hps. unfold zlen. rewrite Hr. apply ri_range, Hps, Hp. }
      rewrite E1.
      destruct (IH (fun o' p H => Hok o' p (or_intror H)) r1 (filter (okb o) ps)) as (r' & E & L' & N').
      { congruence. }
      { rewrite Forall_forall in *. intros p Hp. apply filter_In in Hp. apply Hps, Hp. }
      exists r'. rewrite E, filter_filter. split; [reflexivity|]. split; [exact L'|].
      intros k Hk. rewrite (N' k Hk), (N1 k) by lia. rewrite <- andb_assoc. f_equal.
      rewrite map_map. cbn [forallb].
      apply (step_bool (fun p => t_ri (tr p)) (okb o) (fun p => forallb (fun o' => okb o' p) offs)).
  Qed.
End Loop.
