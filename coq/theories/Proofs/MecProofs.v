(* C14 — soundness of the minimum-enclosing-circle certificate (port of design/prototypes/Mec.v)
   and uniqueness of the minimum enclosing circle. *)
From Coq Require Import ZArith QArith List Bool Lia Lqa.
From Centro Require Import Base.Sx Spec.MecSpec.
Import ListNotations.
Open Scope Q_scope.

(* Weighted-sum identity: if c is the a-weighted barycentre of P1,P2,P3 then for every c'
   sum a_i |P_i - c'|^2 = sum a_i |P_i - c|^2 + (sum a_i) |c - c'|^2 *)
Lemma weighted_identity x1 y1 x2 y2 x3 y3 a1 a2 a3 cx cy ex ey :
  a1 * (x1 - cx) + a2 * (x2 - cx) + a3 * (x3 - cx) == 0 ->
  a1 * (y1 - cy) + a2 * (y2 - cy) + a3 * (y3 - cy) == 0 ->
  a1 * d2 x1 y1 ex ey + a2 * d2 x2 y2 ex ey + a3 * d2 x3 y3 ex ey ==
  a1 * d2 x1 y1 cx cy + a2 * d2 x2 y2 cx cy + a3 * d2 x3 y3 cx cy + (a1 + a2 + a3) * d2 cx cy ex ey.
Proof.
  intros Hx Hy. unfold d2.
  assert (E : forall px py, d2 px py ex ey == d2 px py cx cy + 2 * ((px - cx) * (cx - ex) + (py - cy) * (cy - ey)) + d2 cx cy ex ey)
    by (intros; unfold d2; ring).
  unfold d2 in E. rewrite (E x1 y1), (E x2 y2), (E x3 y3).
  setoid_replace (a1 * ((x1 - cx) * (x1 - cx) + (y1 - cy) * (y1 - cy) + 2 * ((x1 - cx) * (cx - ex) + (y1 - cy) * (cy - ey)) + ((cx - ex) * (cx - ex) + (cy - ey) * (cy - ey))) +
     a2 * ((x2 - cx) * (x2 - cx) + (y2 - cy) * (y2 - cy) + 2 * ((x2 - cx) * (cx - ex) + (y2 - cy) * (cy - ey)) + ((cx - ex) * (cx - ex) + (cy - ey) * (cy - ey))) +
     a3 * ((x3 - cx) * (x3 - cx) + (y3 - cy) * (y3 - cy) + 2 * ((x3 - cx) * (cx - ex) + (y3 - cy) * (cy - ey)) + ((cx - ex) * (cx - ex) + (cy - ey) * (cy - ey))))
  with (a1 * ((x1 - cx) * (x1 - cx) + (y1 - cy) * (y1 - cy)) + a2 * ((x2 - cx) * (x2 - cx) + (y2 - cy) * (y2 - cy)) + a3 * ((x3 - cx) * (x3 - cx) + (y3 - cy) * (y3 - cy))
        + 2 * (cx - ex) * (a1 * (x1 - cx) + a2 * (x2 - cx) + a3 * (x3 - cx))
        + 2 * (cy - ey) * (a1 * (y1 - cy) + a2 * (y2 - cy) + a3 * (y3 - cy))
        + (a1 + a2 + a3) * ((cx - ex) * (cx - ex) + (cy - ey) * (cy - ey))) by ring.
  rewrite Hx, Hy. ring.
Qed.

Lemma sq_nonneg (t : Q) : 0 <= t * t.
Proof.
  destruct (Qlt_le_dec t 0) as [L|L].
  - setoid_replace (t * t) with ((- t) * (- t)) by ring. apply Qmult_le_0_compat; lra.
  - apply Qmult_le_0_compat; lra.
Qed.

Lemma d2_nonneg a b c d : 0 <= d2 a b c d.
Proof. unfold d2. pose proof (sq_nonneg (a - c)). pose proof (sq_nonneg (b - d)). lra. Qed.

(* the common core: S*R + S*|c-e|^2 <= S*rho *)
Lemma cert_core x1 y1 x2 y2 x3 y3 a1 a2 a3 cx cy R :
  0 <= a1 -> 0 <= a2 -> 0 <= a3 ->
  a1 * (x1 - cx) + a2 * (x2 - cx) + a3 * (x3 - cx) == 0 ->
  a1 * (y1 - cy) + a2 * (y2 - cy) + a3 * (y3 - cy) == 0 ->
  (0 < a1 -> d2 x1 y1 cx cy == R) -> (0 < a2 -> d2 x2 y2 cx cy == R) -> (0 < a3 -> d2 x3 y3 cx cy == R) ->
  forall ex ey rho,
    d2 x1 y1 ex ey <= rho -> d2 x2 y2 ex ey <= rho -> d2 x3 y3 ex ey <= rho ->
    (a1 + a2 + a3) * R + (a1 + a2 + a3) * d2 cx cy ex ey <= (a1 + a2 + a3) * rho.
Proof.
  intros H1 H2 H3 Hx Hy R1 R2 R3 ex ey rho B1 B2 B3.
  pose proof (weighted_identity x1 y1 x2 y2 x3 y3 a1 a2 a3 cx cy ex ey Hx Hy) as Id.
  assert (T1 : a1 * d2 x1 y1 cx cy == a1 * R).
  { destruct (Qlt_le_dec 0 a1) as [L|L]; [rewrite (R1 L); reflexivity|]. assert (E : a1 == 0) by lra. rewrite E; ring. }
  assert (T2 : a2 * d2 x2 y2 cx cy == a2 * R).
  { destruct (Qlt_le_dec 0 a2) as [L|L]; [rewrite (R2 L); reflexivity|]. assert (E : a2 == 0) by lra. rewrite E; ring. }
  assert (T3 : a3 * d2 x3 y3 cx cy == a3 * R).
  { destruct (Qlt_le_dec 0 a3) as [L|L]; [rewrite (R3 L); reflexivity|]. assert (E : a3 == 0) by lra. rewrite E; ring. }
  rewrite T1, T2, T3 in Id.
  assert (U : a1 * d2 x1 y1 ex ey + a2 * d2 x2 y2 ex ey + a3 * d2 x3 y3 ex ey <= (a1 + a2 + a3) * rho) by nra.
  lra.
Qed.

(* Certificate => minimality. Covers the diameter case with a3 = 0. *)
Lemma mec_certificate_alg x1 y1 x2 y2 x3 y3 a1 a2 a3 cx cy R :
  0 <= a1 -> 0 <= a2 -> 0 <= a3 -> 0 < a1 + a2 + a3 ->
  a1 * (x1 - cx) + a2 * (x2 - cx) + a3 * (x3 - cx) == 0 ->
  a1 * (y1 - cy) + a2 * (y2 - cy) + a3 * (y3 - cy) == 0 ->
  (0 < a1 -> d2 x1 y1 cx cy == R) -> (0 < a2 -> d2 x2 y2 cx cy == R) -> (0 < a3 -> d2 x3 y3 cx cy == R) ->
  forall ex ey rho,
    d2 x1 y1 ex ey <= rho -> d2 x2 y2 ex ey <= rho -> d2 x3 y3 ex ey <= rho -> R <= rho.
Proof.
  intros H1 H2 H3 Hs Hx Hy R1 R2 R3 ex ey rho B1 B2 B3.
  pose proof (cert_core _ _ _ _ _ _ _ _ _ _ _ _ H1 H2 H3 Hx Hy R1 R2 R3 ex ey rho B1 B2 B3) as C.
  pose proof (d2_nonneg cx cy ex ey) as N.
  set (S := a1 + a2 + a3) in *. nra.
Qed.

(* ... and the centre of any enclosing circle that is not larger coincides (uniqueness) *)
Lemma mec_unique_alg x1 y1 x2 y2 x3 y3 a1 a2 a3 cx cy R :
  0 <= a1 -> 0 <= a2 -> 0 <= a3 -> 0 < a1 + a2 + a3 ->
  a1 * (x1 - cx) + a2 * (x2 - cx) + a3 * (x3 - cx) == 0 ->
  a1 * (y1 - cy) + a2 * (y2 - cy) + a3 * (y3 - cy) == 0 ->
  (0 < a1 -> d2 x1 y1 cx cy == R) -> (0 < a2 -> d2 x2 y2 cx cy == R) -> (0 < a3 -> d2 x3 y3 cx cy == R) ->
  forall ex ey rho,
    d2 x1 y1 ex ey <= rho -> d2 x2 y2 ex ey <= rho -> d2 x3 y3 ex ey <= rho -> rho <= R ->
    ex == cx /\ ey == cy.
Proof.
  intros H1 H2 H3 Hs Hx Hy R1 R2 R3 ex ey rho B1 B2 B3 LE.
  pose proof (cert_core _ _ _ _ _ _ _ _ _ _ _ _ H1 H2 H3 Hx Hy R1 R2 R3 ex ey rho B1 B2 B3) as C.
  set (S := a1 + a2 + a3) in *.
  assert (Z0 : d2 cx cy ex ey <= 0) by nra.
  unfold d2 in Z0.
  pose proof (sq_nonneg (cx - ex)) as N1. pose proof (sq_nonneg (cy - ey)) as N2.
  assert (E1 : (cx - ex) * (cx - ex) == 0) by lra.
  assert (E2 : (cy - ey) * (cy - ey) == 0) by lra.
  split.
  - destruct (Qmult_integral _ _ E1); lra.
  - destruct (Qmult_integral _ _ E2); lra.
Qed.

(* ---- the boolean checker ---- *)

Lemma pt_eqb_eq p q : pt_eqb p q = true -> p = q.
Proof.
  destruct p, q. unfold pt_eqb. cbn [fst snd]. intro H.
  apply andb_true_iff in H. destruct H as [A B].
  apply Z.eqb_eq in A. apply Z.eqb_eq in B. subst. reflexivity.
Qed.

Lemma pt_mem_In p S : pt_mem p S = true -> In p S.
Proof.
  unfold pt_mem. intro H. apply existsb_exists in H. destruct H as [q [I E]].
  apply pt_eqb_eq in E. subst. exact I.
Qed.

Lemma on_circle a s cx cy R :
  (Qle_bool a 0 || Qeq_bool (d2q s cx cy) R) = true -> 0 < a -> d2q s cx cy == R.
Proof.
  intros H L. apply orb_true_iff in H. destruct H as [H|H].
  - apply Qle_bool_iff in H. lra.
  - apply Qeq_bool_iff in H. exact H.
Qed.

Ltac split_ok H :=
  repeat match type of H with
         | (_ && _) = true => let A := fresh "K" in apply andb_true_iff in H; destruct H as [H A]
         end.

Lemma mec_ok_unpack S s1 s2 s3 a1 a2 a3 cx cy R :
  mec_ok S s1 s2 s3 a1 a2 a3 cx cy R = true ->
  Encloses S cx cy R /\ In s1 S /\ In s2 S /\ In s3 S /\
  0 <= a1 /\ 0 <= a2 /\ 0 <= a3 /\ 0 < a1 + a2 + a3 /\
  a1 * (inject_Z (fst s1) - cx) + a2 * (inject_Z (fst s2) - cx) + a3 * (inject_Z (fst s3) - cx) == 0 /\
  a1 * (inject_Z (snd s1) - cy) + a2 * (inject_Z (snd s2) - cy) + a3 * (inject_Z (snd s3) - cy) == 0 /\
  (0 < a1 -> d2q s1 cx cy == R) /\ (0 < a2 -> d2q s2 cx cy == R) /\ (0 < a3 -> d2q s3 cx cy == R).
Proof.
  unfold mec_ok. intro H. split_ok H.
  repeat split.
  - intros p I. rewrite forallb_forall in H. apply Qle_bool_iff. exact (H p I).
  - apply pt_mem_In; assumption.
  - apply pt_mem_In; assumption.
  - apply pt_mem_In; assumption.
  - apply Qle_bool_iff; assumption.
  - apply Qle_bool_iff; assumption.
  - apply Qle_bool_iff; assumption.
  - apply negb_true_iff in K4. destruct (Qlt_le_dec 0 (a1 + a2 + a3)) as [L|L]; [exact L|].
    apply Qle_bool_iff in L. congruence.
  - apply Qeq_bool_iff; assumption.
  - apply Qeq_bool_iff; assumption.
  - eapply on_circle; eassumption.
  - eapply on_circle; eassumption.
  - eapply on_circle; eassumption.
Qed.

Theorem mec_certificate S s1 s2 s3 a1 a2 a3 cx cy R :
  mec_ok S s1 s2 s3 a1 a2 a3 cx cy R = true -> MEC S cx cy R.
Proof.
  intro H. apply mec_ok_unpack in H.
  destruct H as (En & I1 & I2 & I3 & A1 & A2 & A3 & As & Hx & Hy & C1 & C2 & C3).
  split; [exact En|].
  intros ex ey rho E.
  unfold d2q in *.
  eapply (mec_certificate_alg _ _ _ _ _ _ a1 a2 a3 cx cy R A1 A2 A3 As Hx Hy C1 C2 C3 ex ey rho).
  - exact (E s1 I1).
  - exact (E s2 I2).
  - exact (E s3 I3).
Qed.

Theorem mec_unique S s1 s2 s3 a1 a2 a3 cx cy R :
  mec_ok S s1 s2 s3 a1 a2 a3 cx cy R = true ->
  forall ex ey rho, Encloses S ex ey rho -> rho <= R -> ex == cx /\ ey == cy.
Proof.
  intro H. apply mec_ok_unpack in H.
  destruct H as (En & I1 & I2 & I3 & A1 & A2 & A3 & As & Hx & Hy & C1 & C2 & C3).
  intros ex ey rho E LE.
  unfold d2q in *.
  eapply (mec_unique_alg _ _ _ _ _ _ a1 a2 a3 cx cy R A1 A2 A3 As Hx Hy C1 C2 C3 ex ey rho).
  - exact (E s1 I1).
  - exact (E s2 I2).
  - exact (E s3 I3).
  - exact LE.
Qed.

(* the hypotheses are satisfiable on non-trivial inputs: a 3x2 rectangle of pixels with two
   diametral corners, and a triangle with its circumcentre at (1/2, 3/2) *)
Example mec_ok_rectangle :
  mec_ok [(0,0); (0,1); (0,2); (0,3); (1,0); (1,1); (1,2); (1,3)]%Z (0,0)%Z (1,3)%Z (0,0)%Z
         1 1 0 (1#2) (3#2) (10#4) = true.
Proof. vm_compute. reflexivity. Qed.

Example mec_ok_triangle :
  mec_ok [(0,0); (4,0); (2,3); (2,1)]%Z (0,0)%Z (4,0)%Z (2,3)%Z
         (13#1) (13#1) (10#1) (2#1) (5#6) (169#36) = true.
Proof. vm_compute. reflexivity. Qed.
