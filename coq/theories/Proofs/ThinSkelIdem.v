(* C05 - run to convergence, thin / binary_shrink are idempotent: the iteration budget
   len(index_i) always suffices (every non-final iteration removes a pixel), the result admits no
   further removal, and a second call returns it unchanged. *)
From Coq Require Import ZArith NArith List Bool Lia.
From Centro Require Import Base.Topo Base.Skel Base.TopoPar Base.TopoSweep Base.TopoGrid Gen.TablesC05.
From Centro Require Import Model.ThinSkel.
Import ListNotations.
Open Scope Z_scope.

Definition cnt (r : list bool) : nat := length (filter (fun b : bool => b) r).
Definition bimpl (x y : bool) : Prop := x = true -> y = true.

Lemma count_cons r g : count (r :: g) = (cnt r + count g)%nat.
Proof. unfold count, cnt. cbn [concat]. rewrite filter_app, app_length. reflexivity. Qed.

Lemma cnt_le u v : Forall2 bimpl u v -> (cnt u <= cnt v)%nat /\ (cnt u = cnt v -> u = v).
Proof.
  induction 1 as [|x y u v Hxy F IH]; [split; auto|].
  destruct IH as [IH1 IH2]. unfold cnt in *. cbn [filter].
  destruct x, y; cbn [length].
  - split; [lia|]. intros E. f_equal. apply IH2. lia.
  - specialize (Hxy eq_refl). discriminate.
  - split; [lia|]. intros E. exfalso. lia.
  - split; [lia|]. intros E. f_equal. apply IH2. lia.
Qed.

Lemma count_le g' g : Forall2 (Forall2 bimpl) g' g -> (count g' <= count g)%nat /\ (count g' = count g -> g' = g).
Proof.
  induction 1 as [|r' r g' g Hr F IH]; [split; auto|].
  rewrite !count_cons. destruct IH as [IH1 IH2]. destruct (cnt_le _ _ Hr) as [C1 C2].
  split; [lia|]. intros E. f_equal; [apply C2; lia | apply IH2; lia].
Qed.

Lemma Forall2_map_same {A B} (R : B -> B -> Prop) (f g : A -> B) l :
  (forall x, In x l -> R (f x) (g x)) -> Forall2 R (map f l) (map g l).
Proof.
  induction l as [|a l IH]; intros H; cbn [map]; constructor; [apply H; left; reflexivity|].
  apply IH. intros x Hx. apply H. right. exact Hx.
Qed.

Lemma tabulate_impl H W (f' f : img) : (forall p, f' p = true -> f p = true) ->
  Forall2 (Forall2 bimpl) (tabulate H W f') (tabulate H W f).
Proof.
  intros Hi. unfold tabulate. apply Forall2_map_same. intros i _. apply Forall2_map_same. intros j _.
  unfold bimpl. apply Hi.
Qed.

(* a well-formed grid is the tabulation of its own image *)
Lemma tabulate_img_of H W g : wf H W g -> tabulate H W (img_of g) = g.
Proof.
  intros [LH LW]. unfold tabulate.
  apply (nth_ext _ _ [] []); [rewrite map_length, seq_length; symmetry; exact LH|].
  intros i Hi. rewrite map_length, seq_length in Hi.
  rewrite (nth_indep _ [] (map (fun j => img_of g (Z.of_nat 0, Z.of_nat j)) (seq 0 W))) by (rewrite map_length, seq_length; exact Hi).
  rewrite (map_nth (fun i0 => map (fun j => img_of g (Z.of_nat i0, Z.of_nat j)) (seq 0 W))). rewrite seq_nth by exact Hi. cbn [Nat.add].
  assert (Hr : In (nth i g []) g) by (apply nth_In; lia). specialize (LW _ Hr).
  apply (nth_ext _ _ false false); [rewrite map_length, seq_length; symmetry; exact LW|].
  intros j Hj. rewrite map_length, seq_length in Hj.
  rewrite (nth_indep _ false (img_of g (Z.of_nat i, Z.of_nat 0))) by (rewrite map_length, seq_length; exact Hj).
  rewrite (map_nth (fun j0 => img_of g (Z.of_nat i, Z.of_nat j0))). rewrite seq_nth by exact Hj. cbn [Nat.add].
  unfold img_of. cbn [fst snd].
  replace (Z.of_nat i <? 0) with false by (symmetry; apply Z.ltb_ge; lia).
  replace (Z.of_nat j <? 0) with false by (symmetry; apply Z.ltb_ge; lia).
  cbn [orb]. rewrite !Nat2Z.id. reflexivity.
Qed.

Lemma pass_grid_le keep H W g : wf H W g ->
  (count (pass_grid keep H W g) <= count g)%nat /\ (count (pass_grid keep H W g) = count g -> pass_grid keep H W g = g).
Proof.
  intros Hg.
  assert (F : Forall2 (Forall2 bimpl) (pass_grid keep H W g) (tabulate H W (img_of g))).
  { unfold pass_grid. apply tabulate_impl. intros p. unfold par_step. intros E. apply andb_true_iff in E. tauto. }
  rewrite (tabulate_img_of H W g Hg) in F. apply count_le. exact F.
Qed.

Lemma run_passes_wf' H W ks : forall g, wf H W g -> wf H W (run_passes H W ks g).
Proof. induction ks as [|k r IH]; intros g Hg; cbn [run_passes]; [exact Hg|]. apply IH. apply pass_grid_wf. Qed.

Lemma run_passes_le H W ks : forall g, wf H W g ->
  (count (run_passes H W ks g) <= count g)%nat /\ (count (run_passes H W ks g) = count g -> run_passes H W ks g = g).
Proof.
  induction ks as [|k r IH]; intros g Hg; cbn [run_passes]; [split; auto|].
  destruct (pass_grid_le k H W g Hg) as [P1 P2].
  destruct (IH (pass_grid k H W g) (pass_grid_wf k H W g)) as [I1 I2].
  split; [lia|]. intros E.
  assert (E1 : count (pass_grid k H W g) = count g) by lia.
  rewrite (P2 E1) in *. apply I2. exact E.
Qed.

Definition stable (H W : nat) (ks : list (list bool -> bool)) (g : grid) : Prop := run_passes H W ks g = g.

(* the budget count g is enough: the loop ends on a grid no pass changes *)
Lemma cycle_loop_stable H W ks : forall n g, wf H W g -> (count g <= n)%nat ->
  stable H W ks (cycle_loop H W ks n g) /\ wf H W (cycle_loop H W ks n g).
Proof.
  induction n as [|n IH]; intros g Hg Hn; cbn [cycle_loop].
  - split; [|exact Hg]. unfold stable. destruct (run_passes_le H W ks g Hg) as [R1 R2]. apply R2. lia.
  - destruct (run_passes_le H W ks g Hg) as [R1 R2]. pose proof (run_passes_wf' H W ks g Hg) as W1.
    destruct (Nat.eqb (count (run_passes H W ks g)) (count g)) eqn:E.
    + apply Nat.eqb_eq in E. split; [|exact W1]. unfold stable. rewrite (R2 E). apply R2. exact E.
    + apply Nat.eqb_neq in E. apply IH; [exact W1|lia].
Qed.

Lemma cycle_loop_fixed H W ks g : stable H W ks g -> forall n, cycle_loop H W ks n g = g.
Proof.
  intros S n. destruct n as [|n]; cbn [cycle_loop]; [reflexivity|].
  unfold stable in S. rewrite S. rewrite Nat.eqb_refl. reflexivity.
Qed.

Theorem thin_converged : forall H W g, wf H W g ->
  run_passes H W thin_tables (thin_model H W None g) = thin_model H W None g.
Proof. intros H W g Hg. unfold thin_model. apply cycle_loop_stable; [exact Hg|lia]. Qed.

Theorem thin_idempotent : forall H W g, wf H W g ->
  thin_model H W None (thin_model H W None g) = thin_model H W None g.
Proof.
  intros H W g Hg. unfold thin_model at 1. apply cycle_loop_fixed. apply thin_converged. exact Hg.
Qed.

(* ... and any further call with any iteration count returns it unchanged *)
Theorem thin_idempotent_any : forall H W iters g, wf H W g ->
  thin_model H W iters (thin_model H W None g) = thin_model H W None g.
Proof.
  intros H W iters g Hg. unfold thin_model at 1. apply cycle_loop_fixed. apply thin_converged. exact Hg.
Qed.

Theorem shrink_converged : forall H W g, wf H W g ->
  run_passes H W shrink_tables (shrink_model H W (-1) g) = shrink_model H W (-1) g.
Proof. intros H W g Hg. unfold shrink_model. replace (-1 =? -1) with true by reflexivity. apply cycle_loop_stable; [exact Hg|lia]. Qed.

Theorem shrink_idempotent : forall H W k g, wf H W g ->
  shrink_model H W k (shrink_model H W (-1) g) = shrink_model H W (-1) g.
Proof.
  intros H W k g Hg. unfold shrink_model at 1. apply cycle_loop_fixed. apply shrink_converged. exact Hg.
Qed.
