(* C09 — the cofactor inverse of inv_n is a two-sided inverse (sizes 1 and 2: the sizes the
   Kalman step uses, obs_len = 2), the Kalman gain solves its defining equation, and the
   constants regenerated from the source are ordered as the comments promise. *)
From Coq Require Import ZArith List Bool Lia Arith QArith Qcanon Field.
From Centro Require Import Gen.ConstsC09 Model.Kalman Spec.Kalman Proofs.KalmanArith.
Import ListNotations.
Open Scope Qc_scope.

Definition I1 : mat := [[1]].
Definition I2 : mat := [[1; 0]; [0; 1]].

Lemma det1_1 a : det1 [[a]] = a.
Proof. reflexivity. Qed.

Lemma det1_2 a b c d : det1 [[a; b]; [c; d]] = a * d - b * c.
Proof.
  unfold det1. cbn [length]. cbv [seq permutations perms_fuel removes length flat_map map app fst snd
    parity inversions filter Nat.ltb Nat.leb Nat.even Nat.add sign_of qsum qprod fold_left entry nth].
  qnorm. ring.
Qed.

Lemma inv1_1 a : inv1 [[a]] = [[1 / a]].
Proof.
  unfold inv1. cbn [length seq map]. unfold cofactor1. cbn [remove_nth map].
  change (det1 []) with (qadd 0 (qmul 1 1)). rewrite det1_1. cbn [Nat.add Nat.even sign_of].
  assert (E : forall x y : Qc, x = y -> [[x]] = [[y]]) by (intros x y ->; reflexivity).
  apply E. qnorm. unfold Qcdiv. ring.
Qed.

Lemma inv1_2 a b c d :
  inv1 [[a; b]; [c; d]] =
  let k := a * d - b * c in [[d / k; - b / k]; [- c / k; a / k]].
Proof.
  unfold inv1. rewrite det1_2. cbn [length seq map]. unfold cofactor1. cbn [remove_nth map].
  rewrite !det1_1. cbn [Nat.add Nat.even sign_of]. cbn zeta. qnorm.
  unfold Qcdiv. repeat (f_equal; try ring).
Qed.

Theorem inv_n_correct_1 a : det1 [[a]] <> 0 ->
  mmul [[a]] (inv1 [[a]]) = I1 /\ mmul (inv1 [[a]]) [[a]] = I1.
Proof.
  rewrite det1_1, inv1_1. intros H.
  cbv [mmul map map2 combine col ncols hd length seq nth qsum fold_left fst snd I1]. qnorm.
  split; repeat f_equal; field; exact H.
Qed.

Theorem inv_n_correct_2 a b c d : det1 [[a; b]; [c; d]] <> 0 ->
  mmul [[a; b]; [c; d]] (inv1 [[a; b]; [c; d]]) = I2 /\
  mmul (inv1 [[a; b]; [c; d]]) [[a; b]; [c; d]] = I2.
Proof.
  rewrite det1_2, inv1_2. intros H. cbn zeta.
  cbv [mmul map map2 combine col ncols hd length seq nth qsum fold_left fst snd I2]. qnorm.
  split; repeat f_equal; field; exact H.
Qed.

(* inv_n is inv1 on every matrix of the stack *)
Theorem inv_n_pointwise xs k : (k < length xs)%nat -> nth k (inv_n xs) [] = inv1 (nth k xs []).
Proof.
  intros H. unfold inv_n. rewrite (nth_indep _ [] (inv1 [])) by (rewrite map_length; exact H).
  apply map_nth.
Qed.

Example inv_n_correct_2_ex : det1 [[Q2Qc 2; Q2Qc 1]; [Q2Qc 1; Q2Qc 3]] <> 0.
Proof. rewrite det1_2. intro H. apply (f_equal this) in H. vm_compute in H. discriminate. Qed.

(* the regenerated constants: small (observed) strictly below large (hidden), both positive *)
Theorem init_cov_consts_ordered : 0 < SMALL_KALMAN_COV /\ SMALL_KALMAN_COV < LARGE_KALMAN_COV.
Proof. split; vm_compute; reflexivity. Qed.
