(* C03: binary64 addition of non-negative doubles is monotone, on bit patterns:
     ok64 a -> ok64 b -> ok64 c -> a <= b -> plus64 a c <= plus64 b c
   which is the premise of prop_check_b64_sound.  PrimFloat.add is related to the IEEE-754
   specification by Coq's FloatAxioms (add_spec, Prim2SF_valid, SF2Prim_Prim2SF, Prim2SF_SF2Prim,
   through Flocq.IEEE754.PrimFloat.add_equiv); rounding monotonicity is Flocq's round_le;
   the order of bit patterns is related to the order of values through Bcompare_correct. *)
From Coq Require Import ZArith Lia Lra Reals Bool.
From Coq Require Import Floats SpecFloat.
From Flocq Require Import Core.Zaux Core.Raux Core.Defs Core.Digits Core.Float_prop Core.Generic_fmt Core.FLT.
From Flocq Require Import IEEE754.BinarySingleNaN.
From Flocq Require IEEE754.PrimFloat.
From Centro Require Import Base.PropFloat Spec.PropCheck.
Open Scope Z_scope.

Module FP := Flocq.IEEE754.PrimFloat.

Definition bitsSF (s : spec_float) : Z :=
  let sg (b : bool) := if b then two63 else 0 in
  match s with
  | S754_nan => bits_nan
  | S754_zero b => sg b
  | S754_infinity b => sg b + bits_inf
  | S754_finite b m e => sg b + (if Zpos m <? two52 then Zpos m else (e + 1075) * two52 + (Zpos m - two52))
  end.

Lemma bits_of_float_SF : forall f, bits_of_float f = bitsSF (Prim2SF f).
Proof. intros f. unfold bits_of_float, bitsSF. destruct (Prim2SF f); reflexivity. Qed.

Definition nonnegSF (s : spec_float) : Prop :=
  match s with
  | S754_zero false | S754_infinity false | S754_finite false _ _ => True
  | _ => False
  end.

Lemma bounded_facts : forall m e, bounded prec emax m e = true ->
  -1074 <= e <= 971 /\ Zpos m < 9007199254740992 /\ (-1074 < e -> 4503599627370496 <= Zpos m).
Proof.
  intros m e H. unfold bounded, canonical_mantissa in H.
  apply andb_prop in H. destruct H as [H1 H2].
  apply Zeq_bool_eq in H1. apply Zle_bool_imp_le in H2.
  rewrite Zpos_digits2_pos in H1. unfold fexp, emin, prec, emax in *.
  set (dg := Zdigits radix2 (Zpos m)) in *.
  assert (Hd : dg <= 53 /\ (-1074 < e -> dg = 53) /\ -1074 <= e) by lia.
  destruct Hd as [Hd1 [Hd2 Hd3]].
  split; [lia|]. split.
  - pose proof (Zpower_gt_Zdigits radix2 53 (Zpos m) Hd1) as H. exact H.
  - intros He. assert (E : 52 < dg) by (rewrite (Hd2 He); lia).
    pose proof (Zpower_le_Zdigits radix2 52 (Zpos m) E) as H. exact H.
Qed.

Lemma bits_finite : forall m e, bounded prec emax m e = true ->
  bitsSF (S754_finite false m e) = (e + 1074) * two52 + Zpos m.
Proof.
  intros m e H. destruct (bounded_facts m e H) as [He [Hm1 Hm2]].
  unfold bitsSF, two52. destruct (Zpos m <? 4503599627370496) eqn:E; lia.
Qed.

Definition le_cmp (c : option comparison) : Prop := c = Some Lt \/ c = Some Eq.

Ltac cmp_yes := split; [intros _; first [left; reflexivity | right; reflexivity] | intros _; try lia; try nia].
Ltac cmp_no := split; [intros; try lia; nia | intros [H|H]; discriminate H].

Lemma bits_le_compare : forall s1 s2,
  valid_binary prec emax s1 = true -> valid_binary prec emax s2 = true -> nonnegSF s1 -> nonnegSF s2 ->
  (bitsSF s1 <= bitsSF s2 <-> le_cmp (SFcompare s1 s2)).
Proof.
  intros s1 s2 V1 V2 N1 N2. unfold le_cmp.
  destruct s1 as [b1|b1| |b1 m1 e1]; try destruct b1; try contradiction;
  destruct s2 as [b2|b2| |b2 m2 e2]; try destruct b2; try contradiction; cbn [valid_binary] in *.
  - cbn. cmp_yes.
  - cbn. unfold bits_inf. cmp_yes.
  - rewrite (bits_finite m2 e2 V2). destruct (bounded_facts m2 e2 V2) as [He [Hm1 Hm2]].
    cbn. unfold two52. cmp_yes.
  - cbn. unfold bits_inf. cmp_no.
  - cbn. cmp_yes.
  - rewrite (bits_finite m2 e2 V2). destruct (bounded_facts m2 e2 V2) as [He [Hm1 Hm2]].
    cbn. unfold bits_inf, two52. cmp_no.
  - rewrite (bits_finite m1 e1 V1). destruct (bounded_facts m1 e1 V1) as [He [Hm1 Hm2]].
    cbn. unfold two52. cmp_no.
  - rewrite (bits_finite m1 e1 V1). destruct (bounded_facts m1 e1 V1) as [He [Hm1 Hm2]].
    cbn. unfold bits_inf, two52. cmp_yes.
  - rewrite (bits_finite m1 e1 V1), (bits_finite m2 e2 V2).
    destruct (bounded_facts m1 e1 V1) as [He1 [Ha1 Hb1]]. destruct (bounded_facts m2 e2 V2) as [He2 [Ha2 Hb2]].
    cbn [SFcompare]. unfold two52.
    destruct (Z.compare_spec e1 e2) as [E|E|E].
    + subst e2. change (Pcompare m1 m2 Eq) with (Pos.compare m1 m2).
      destruct (Pos.compare_spec m1 m2) as [P|P|P].
      * subst. cmp_yes.
      * cmp_yes.
      * cmp_no.
    + cmp_yes.
    + cmp_no.
Qed.

Lemma bits_ok64 : forall s, valid_binary prec emax s = true -> nonnegSF s -> ok64 (bitsSF s).
Proof.
  intros s V N. unfold ok64. destruct s as [b|b| |b m e]; try destruct b; try contradiction; cbn [valid_binary] in V.
  - cbn. unfold bits_inf. lia.
  - cbn. unfold bits_inf. lia.
  - rewrite (bits_finite m e V). destruct (bounded_facts m e V) as [He [Hm1 Hm2]]. unfold bits_inf, two52. lia.
Qed.

(* ---- float_of_bits on [0, +inf]: the spec float it denotes has the bit pattern it came from ---- *)
Lemma valid_normal : forall p e, 4503599627370496 <= Zpos p < 9007199254740992 -> -1074 <= e <= 971 ->
  valid_binary prec emax (S754_finite false p e) = true.
Proof.
  intros p e Hp He. cbn [valid_binary]. unfold bounded, canonical_mantissa.
  rewrite Zpos_digits2_pos.
  assert (Hd : Zdigits radix2 (Zpos p) = 53) by (apply Zdigits_unique; exact Hp).
  rewrite Hd. unfold fexp, emin, prec, emax. apply andb_true_intro. split.
  - apply Zeq_bool_true. lia.
  - apply Zle_imp_le_bool. lia.
Qed.

Lemma valid_subnormal : forall p, Zpos p < 4503599627370496 ->
  valid_binary prec emax (S754_finite false p (-1074)) = true.
Proof.
  intros p Hp. cbn [valid_binary]. unfold bounded, canonical_mantissa.
  rewrite Zpos_digits2_pos.
  assert (Hd1 : Zdigits radix2 (Zpos p) <= 52) by (apply Zdigits_le_Zpower; exact Hp).
  assert (Hd2 : 0 < Zdigits radix2 (Zpos p)) by (apply Zdigits_gt_0; discriminate).
  unfold fexp, emin, prec, emax. apply andb_true_intro. split.
  - apply Zeq_bool_true. lia.
  - apply Zle_imp_le_bool. lia.
Qed.

Lemma float_of_bits_SF : forall a, ok64 a ->
  exists s, Prim2SF (float_of_bits a) = s /\ valid_binary prec emax s = true /\ nonnegSF s /\ bitsSF s = a.
Proof.
  intros a [H0 H1]. unfold bits_inf in H1.
  destruct (Z.eq_dec a 0) as [->|Hz].
  { exists (S754_zero false). repeat split. }
  destruct (Z.eq_dec a 9218868437227405312) as [->|Hi].
  { exists (S754_infinity false). repeat split. }
  unfold float_of_bits, two63, two52.
  assert (Es : a / 9223372036854775808 = 0) by (apply Z.div_small; lia).
  rewrite Es. change (0 =? 1) with false. cbv iota.
  assert (Ee : (a / 4503599627370496) mod 2048 = a / 4503599627370496).
  { apply Z.mod_small. split; [apply Z.div_pos; lia|]. apply Z.div_lt_upper_bound; lia. }
  rewrite Ee.
  set (E := a / 4503599627370496). set (m := a mod 4503599627370496).
  assert (Ha : a = E * 4503599627370496 + m) by (unfold E, m; rewrite Z.mul_comm; apply Z.div_mod; lia).
  assert (Hm : 0 <= m < 4503599627370496) by (unfold m; apply Z.mod_pos_bound; lia).
  assert (HE : 0 <= E <= 2046) by (unfold E; split; [apply Z.div_pos; lia | apply Z.lt_succ_r; apply Z.div_lt_upper_bound; lia]).
  destruct (E =? 0) eqn:E0.
  - assert (E = 0) by lia. destruct (m =? 0) eqn:M0; [exfalso; lia|].
    assert (Hp : Zpos (Z.to_pos m) = m) by (apply Z2Pos.id; lia).
    assert (V : valid_binary prec emax (S754_finite false (Z.to_pos m) (-1074)) = true) by (apply valid_subnormal; lia).
    exists (S754_finite false (Z.to_pos m) (-1074)). split; [apply Prim2SF_SF2Prim; exact V|].
    split; [exact V|]. split; [exact I|].
    cbn [valid_binary] in V. rewrite (bits_finite _ _ V). unfold two52. lia.
  - destruct (E =? 2047) eqn:E7; [exfalso; lia|].
    assert (Hp : Zpos (Z.to_pos (m + 4503599627370496)) = m + 4503599627370496) by (apply Z2Pos.id; lia).
    assert (V : valid_binary prec emax (S754_finite false (Z.to_pos (m + 4503599627370496)) (E - 1075)) = true)
      by (apply valid_normal; lia).
    exists (S754_finite false (Z.to_pos (m + 4503599627370496)) (E - 1075)). split; [apply Prim2SF_SF2Prim; exact V|].
    split; [exact V|]. split; [exact I|].
    cbn [valid_binary] in V. rewrite (bits_finite _ _ V). unfold two52. lia.
Qed.

(* ---- Flocq level: Bplus of non-negative binary64 values is monotone ---- *)
Local Instance Hprec : FLX.Prec_gt_0 prec := eq_refl _.
Local Instance Hmax : Prec_lt_emax prec emax := eq_refl _.
Local Instance VE : Valid_exp (SpecFloat.fexp prec emax) := fexp_correct prec emax Hprec.
Notation bf := (binary_float prec emax).
Definition nonnegB (x : bf) : Prop := nonnegSF (B2SF x).
Notation pinf := (B754_infinity false : bf).
Notation rnd64 := (round radix2 (SpecFloat.fexp prec emax) (round_mode mode_NE)).

Lemma nonneg_R : forall x : bf, nonnegB x -> (0 <= B2R x)%R.
Proof.
  intros [[]|[]| |[] m e Hb]; unfold nonnegB; cbn; try (intros; apply Rle_refl); try contradiction.
  intros _. apply F2R_ge_0. cbn. lia.
Qed.
Lemma nonneg_sign : forall x : bf, nonnegB x -> Bsign x = false.
Proof. intros [[]|[]| |[] m e Hb]; unfold nonnegB; cbn; try contradiction; reflexivity. Qed.
Lemma fin_nonneg : forall x : bf, is_finite x = true -> Bsign x = false -> nonnegB x.
Proof. intros [s|s| |s m e Hb]; unfold nonnegB; cbn; intros H1 H2; try discriminate; subst; exact I. Qed.
Lemma notfin_inf : forall x : bf, nonnegB x -> is_finite x = false -> x = pinf.
Proof. intros [[]|[]| |[] m e Hb]; unfold nonnegB; cbn; try contradiction; try discriminate; reflexivity. Qed.
Lemma plus_inf_r : forall x : bf, nonnegB x -> Bplus mode_NE x pinf = pinf.
Proof. intros [[]|[]| |[] m e Hb]; unfold nonnegB; cbn; try contradiction; reflexivity. Qed.
Lemma plus_inf_l : forall x : bf, nonnegB x -> Bplus mode_NE pinf x = pinf.
Proof. intros [[]|[]| |[] m e Hb]; unfold nonnegB; cbn; try contradiction; reflexivity. Qed.
Lemma cmp_inf : forall s, nonnegSF s -> le_cmp (SFcompare s (S754_infinity false)).
Proof. intros [[]|[]| |[] m e]; cbn; try contradiction; intros _; unfold le_cmp; auto. Qed.
Lemma cmp_inf_fin : forall x : bf, nonnegB x -> is_finite x = true -> ~ le_cmp (Bcompare pinf x).
Proof.
  intros [[]|[]| |[] m e Hb]; unfold nonnegB, Bcompare, le_cmp; cbn; try contradiction; try discriminate;
    intros _ _ [H|H]; discriminate H.
Qed.

(* the sum of two finite non-negative doubles *)
Lemma fin_plus : forall x y : bf, is_finite x = true -> is_finite y = true -> nonnegB x -> nonnegB y ->
  let r := rnd64 (B2R x + B2R y)%R in
  (0 <= r)%R /\
  ((r < bpow radix2 emax)%R /\ B2R (Bplus mode_NE x y) = r /\ is_finite (Bplus mode_NE x y) = true /\ nonnegB (Bplus mode_NE x y)
   \/ (bpow radix2 emax <= r)%R /\ B2SF (Bplus mode_NE x y) = S754_infinity false).
Proof.
  intros x y Fx Fy Nx Ny r.
  pose proof (nonneg_R x Nx) as Rx. pose proof (nonneg_R y Ny) as Ry.
  assert (Hr : (0 <= r)%R).
  { unfold r. apply round_ge_generic; [exact VE | auto with typeclass_instances | apply generic_format_0 | lra]. }
  split; [exact Hr|].
  pose proof (Bplus_correct prec emax _ _ mode_NE x y Fx Fy) as H. fold r in H.
  rewrite (Rabs_pos_eq r Hr) in H.
  destruct (Rlt_bool_spec r (bpow radix2 emax)) as [Hlt|Hge].
  - left. destruct H as [H1 [H2 H3]]. split; [exact Hlt|]. split; [exact H1|]. split; [exact H2|].
    apply fin_nonneg; [exact H2|]. rewrite H3. rewrite (nonneg_sign x Nx), (nonneg_sign y Ny).
    destruct (Rcompare_spec (B2R x + B2R y) 0); try reflexivity. exfalso. lra.
  - right. split; [exact Hge|]. destruct H as [H1 _]. rewrite H1, (nonneg_sign x Nx). reflexivity.
Qed.

Lemma le_cmp_R : forall x y : bf, is_finite x = true -> is_finite y = true ->
  (le_cmp (Bcompare x y) <-> (B2R x <= B2R y)%R).
Proof.
  intros x y Fx Fy. rewrite (Bcompare_correct prec emax x y Fx Fy). unfold le_cmp. split.
  - intros [H|H]; inversion H as [H1].
    + apply Rlt_le. apply Rcompare_Lt_inv. exact H1.
    + apply Req_le. apply Rcompare_Eq_inv. exact H1.
  - intros H. destruct (Rle_lt_or_eq_dec _ _ H) as [L|E].
    + left. f_equal. apply Rcompare_Lt. exact L.
    + right. f_equal. apply Rcompare_Eq. exact E.
Qed.

Lemma plus_mono_B : forall xa xb xc : bf, nonnegB xa -> nonnegB xb -> nonnegB xc -> le_cmp (Bcompare xa xb) ->
  nonnegB (Bplus mode_NE xa xc) /\ nonnegB (Bplus mode_NE xb xc) /\
  le_cmp (Bcompare (Bplus mode_NE xa xc) (Bplus mode_NE xb xc)).
Proof.
  intros xa xb xc Na Nb Nc Hab.
  destruct (is_finite xc) eqn:Fc.
  2:{ rewrite (notfin_inf xc Nc Fc), (plus_inf_r xa Na), (plus_inf_r xb Nb).
      split; [exact I|]. split; [exact I|]. right. reflexivity. }
  destruct (is_finite xb) eqn:Fb.
  2:{ rewrite (notfin_inf xb Nb Fb), (plus_inf_l xc Nc).
      destruct (is_finite xa) eqn:Fa.
      - destruct (fin_plus xa xc Fa Fc Na Nc) as [_ [[_ [_ [_ N]]]|[_ E]]].
        + split; [exact N|]. split; [exact I|]. unfold Bcompare. apply cmp_inf. exact N.
        + unfold nonnegB, Bcompare. rewrite E. split; [exact I|]. split; [exact I|]. right. reflexivity.
      - rewrite (notfin_inf xa Na Fa), (plus_inf_l xc Nc). split; [exact I|]. split; [exact I|]. right. reflexivity. }
  destruct (is_finite xa) eqn:Fa.
  2:{ exfalso. rewrite (notfin_inf xa Na Fa) in Hab. exact (cmp_inf_fin xb Nb Fb Hab). }
  apply (le_cmp_R xa xb Fa Fb) in Hab.
  destruct (fin_plus xa xc Fa Fc Na Nc) as [Ra0 Ha]. destruct (fin_plus xb xc Fb Fc Nb Nc) as [Rb0 Hb].
  assert (Hle : (rnd64 (B2R xa + B2R xc) <= rnd64 (B2R xb + B2R xc))%R).
  { apply round_le; [exact VE | auto with typeclass_instances | lra]. }
  cbv zeta in Ha, Hb.
  destruct Hb as [[Lb [Eb [Fb' Nb']]]|[Gb Eb]].
  - destruct Ha as [[La [Ea [Fa' Na']]]|[Ga Ea]]; [|exfalso; lra].
    split; [exact Na'|]. split; [exact Nb'|]. apply (le_cmp_R _ _ Fa' Fb'). rewrite Ea, Eb. exact Hle.
  - destruct Ha as [[La [Ea [Fa' Na']]]|[Ga Ea]].
    + split; [exact Na'|]. unfold nonnegB, Bcompare. rewrite Eb. split; [exact I|]. apply cmp_inf. exact Na'.
    + unfold nonnegB, Bcompare. rewrite Ea, Eb. split; [exact I|]. split; [exact I|]. right. reflexivity.
Qed.

(* ---- back to bit patterns ---- *)
Lemma add_equiv_here : forall x y, FP.Prim2B (x + y)%float = Bplus mode_NE (FP.Prim2B x) (FP.Prim2B y).
Proof. intros x y. exact (FP.add_equiv x y). Qed.

Theorem b64_add_monotone_proved : forall a b c, ok64 a -> ok64 b -> ok64 c -> a <= b -> plus64 a c <= plus64 b c.
Proof.
  intros a b c Ha Hb Hc Hab.
  destruct (float_of_bits_SF a Ha) as [sa [Ea [Va [Na Ba]]]].
  destruct (float_of_bits_SF b Hb) as [sb [Eb [Vb [Nb Bb]]]].
  destruct (float_of_bits_SF c Hc) as [sc [Ec [Vc [Nc Bc]]]].
  set (fa := float_of_bits a) in *. set (fb := float_of_bits b) in *. set (fc := float_of_bits c) in *.
  assert (Na' : nonnegB (FP.Prim2B fa)) by (unfold nonnegB; rewrite FP.B2SF_Prim2B, Ea; exact Na).
  assert (Nb' : nonnegB (FP.Prim2B fb)) by (unfold nonnegB; rewrite FP.B2SF_Prim2B, Eb; exact Nb).
  assert (Nc' : nonnegB (FP.Prim2B fc)) by (unfold nonnegB; rewrite FP.B2SF_Prim2B, Ec; exact Nc).
  assert (Hcmp : le_cmp (Bcompare (FP.Prim2B fa) (FP.Prim2B fb))).
  { unfold Bcompare. rewrite !FP.B2SF_Prim2B, Ea, Eb. apply (bits_le_compare sa sb Va Vb Na Nb). lia. }
  destruct (plus_mono_B _ _ _ Na' Nb' Nc' Hcmp) as [Ra [Rb Rc]].
  rewrite <- (add_equiv_here fa fc) in Ra, Rc. rewrite <- (add_equiv_here fb fc) in Rb, Rc.
  unfold nonnegB in Ra, Rb. unfold Bcompare in Rc. rewrite FP.B2SF_Prim2B in Ra, Rb.
  rewrite (FP.B2SF_Prim2B (fa + fc)), (FP.B2SF_Prim2B (fb + fc)) in Rc.
  assert (Oa : ok64 (badd a c)) by (unfold badd; rewrite bits_of_float_SF; apply bits_ok64; [apply Prim2SF_valid | exact Ra]).
  assert (Ob : ok64 (badd b c)) by (unfold badd; rewrite bits_of_float_SF; apply bits_ok64; [apply Prim2SF_valid | exact Rb]).
  assert (Sa : sat64 (badd a c) = badd a c) by (unfold sat64, okb64; unfold ok64 in Oa; replace ((0 <=? badd a c) && (badd a c <=? bits_inf)) with true by lia; reflexivity).
  assert (Sb : sat64 (badd b c) = badd b c) by (unfold sat64, okb64; unfold ok64 in Ob; replace ((0 <=? badd b c) && (badd b c <=? bits_inf)) with true by lia; reflexivity).
  unfold plus64. rewrite Sa, Sb. unfold badd. rewrite !bits_of_float_SF.
  apply (bits_le_compare _ _ (Prim2SF_valid _) (Prim2SF_valid _) Ra Rb). exact Rc.
Qed.

(* the binary64 instance of the checker theorem without any premise *)
From Centro Require Import Proofs.PropGrid.
Theorem prop_check_b64_sound_closed : forall m n image labels mask weight lo dist hint,
  prop_check_b64 m n image labels mask weight lo dist hint = true ->
  Spec_b64 m n image labels mask weight lo dist.
Proof. exact (prop_check_b64_sound b64_add_monotone_proved). Qed.
