(* C13 — theorems about the measurement models of Model/MeasureC13.v: every measurement is a
   function of the requested object's own pixel set (its mask), so it is unchanged when other
   objects are altered, follows a renumbering, and the request list only selects and orders. *)
From Coq Require Import ZArith List Bool Lia ZifyBool.
From Centro Require Import Base.VecC13 Proofs.VecC13Proofs Gen.TablesC13 Model.MeasureC13.
Import ListNotations.
Open Scope Z_scope.

(* ------------------------------------------------------------------ own pixels *)

Definition own (im : img) (l : Z) : list (Z * Z * Z) := filter (fun p => p_v p =? l) (pixels im).

Lemma lab_pairs_group {A} (val : Z * Z * Z -> A) im l :
  map snd (filter (fun p => fst p =? l) (lab_pairs val im)) = map val (own im l).
Proof. unfold lab_pairs, own. rewrite filter_map_comm, map_map. cbn [fst snd]. reflexivity. Qed.

Lemma own_coords_own im l : own_coords im l = map fst (own im l).
Proof. reflexivity. Qed.

Lemma own_label im l p : In p (own im l) -> p_v p = l /\ In p (pixels im).
Proof. unfold own. intros H. apply filter_In in H. destruct H as [H1 H2]. split; [lia|exact H1]. Qed.

Lemma own_rebuild im l : own im l = map (fun c => (c, l)) (own_coords im l).
Proof.
  rewrite own_coords_own, map_map.
  rewrite <- (map_id (own im l)) at 1. apply map_ext_in. intros p Hp.
  apply own_label in Hp. destruct Hp as [Hv _]. destruct p as [c v]. unfold p_v in Hv. cbn [snd fst] in *.
  subst. reflexivity.
Qed.

(* same mask, possibly under different label numbers: same coordinates *)
Lemma own_coords_two im l im' l' : mask l im = mask l' im' -> own_coords im l = own_coords im' l'.
Proof. intros H. rewrite !own_coords_mask, H. reflexivity. Qed.

(* a per-pixel value that only reads the coordinates *)
Lemma map_coord_val {A} (valc : Z * Z -> A) im l :
  map (fun p => valc (fst p)) (own im l) = map valc (own_coords im l).
Proof. rewrite own_coords_own, map_map. reflexivity. Qed.

(* ------------------------------------------------------------------ the two-run scheme *)

Definition injective (f : Z -> Z) : Prop := forall a b, f a = f b -> a = b.

Section TwoRun.
  Context {R : Type} (M : img -> list Z -> list R) (M1 : img -> Z -> R).
  Hypothesis Hpt : forall im idxs, M im idxs = map (M1 im) idxs.
  Hypothesis Htwo : forall im l im' l', mask l im = mask l' im' -> M1 im l = M1 im' l'.

  (* (a) entry of l: same in any two scenes in which l has the same pixels, whatever else is in
     the scenes and whatever the two request lists are (e.g. the object alone, requested alone) *)
  Lemma tr_independent im im' idxs idxs' k k' l :
    mask l im = mask l im' -> nth_error idxs k = Some l -> nth_error idxs' k' = Some l ->
    nth_error (M im idxs) k = nth_error (M im' idxs') k'.
  Proof.
    intros Hm Hk Hk'. rewrite !Hpt, !nth_error_map, Hk, Hk'. cbn [option_map].
    rewrite (Htwo im l im' l Hm). reflexivity.
  Qed.

  (* (b) renumbering the labels by an injective map leaves the result list unchanged *)
  Lemma tr_relabel f im idxs : injective f -> M (relabel f im) (map f idxs) = M im idxs.
  Proof.
    intros Inj. rewrite !Hpt, map_map. apply map_ext. intros l.
    apply Htwo. apply mask_relabel. exact Inj.
  Qed.

  (* (b) the request list only selects and orders: the vectorised call is the concatenation of
     the single-label calls (hence permutations and sublists commute with the measurement) *)
  Lemma tr_request im idxs : M im idxs = flat_map (fun l => M im [l]) idxs.
  Proof.
    rewrite Hpt. induction idxs as [|i r IH]; cbn [map flat_map]; [reflexivity|].
    rewrite Hpt. cbn [map app]. rewrite IH. reflexivity.
  Qed.
End TwoRun.

(* ------------------------------------------------------------------ areas *)

Definition area1 (im : img) (l : Z) : Z := group_fold 0 Z.add l (lab_pairs (fun _ => 1) im).

Lemma areas_pt im idxs : areas im idxs = map (area1 im) idxs.
Proof. reflexivity. Qed.

Definition area_c (cs : list (Z * Z)) : Z := fold_left Z.add (map (fun _ => 1) cs) 0.

Lemma area1_coords im l : area1 im l = area_c (own_coords im l).
Proof.
  unfold area1, group_fold, area_c. rewrite lab_pairs_group.
  rewrite <- (map_coord_val (fun _ => 1) im l). reflexivity.
Qed.

Lemma area1_two im l im' l' : mask l im = mask l' im' -> area1 im l = area1 im' l'.
Proof. intros H. rewrite !area1_coords, (own_coords_two _ _ _ _ H). reflexivity. Qed.

Definition areas_independent := tr_independent areas area1 areas_pt area1_two.
Definition areas_relabel := tr_relabel areas area1 areas_pt area1_two.
Definition areas_request := tr_request areas area1 areas_pt.

(* ------------------------------------------------------------------ extents *)

Definition extent1 (im : img) (l : Z) : Z * Z :=
  (area1 im l,
   (group_max l (lab_pairs p_x im) - group_min l (lab_pairs p_x im) + 1)
   * (group_max l (lab_pairs p_y im) - group_min l (lab_pairs p_y im) + 1)).

Lemma combine_map2 {A B C} (f : A -> B) (g : A -> C) (l : list A) :
  combine (map f l) (map g l) = map (fun x => (f x, g x)) l.
Proof. induction l as [|a r IH]; cbn [map combine]; [reflexivity|]. rewrite IH. reflexivity. Qed.

Lemma extents_pt im idxs : extents im idxs = map (extent1 im) idxs.
Proof.
  unfold extents, areas, nd_fold, nd_min, nd_max.
  rewrite !combine_map2, map_map. apply map_ext. intros l. reflexivity.
Qed.

Definition lmin (l : list Z) : Z := match l with [] => 0 | v :: r => fold_left Z.min r v end.
Definition lmax (l : list Z) : Z := match l with [] => 0 | v :: r => fold_left Z.max r v end.

Definition extent_c (cs : list (Z * Z)) : Z * Z :=
  (area_c cs,
   (lmax (map snd cs) - lmin (map snd cs) + 1) * (lmax (map fst cs) - lmin (map fst cs) + 1)).

Lemma extent1_coords im l : extent1 im l = extent_c (own_coords im l).
Proof.
  unfold extent1, extent_c, group_min, group_max. rewrite !lab_pairs_group, area1_coords.
  change (map p_x (own im l)) with (map (fun p => snd (fst p)) (own im l)).
  change (map p_y (own im l)) with (map (fun p => fst (fst p)) (own im l)).
  rewrite (map_coord_val (fun c => snd c) im l), (map_coord_val (fun c => fst c) im l).
  reflexivity.
Qed.

Lemma extent1_two im l im' l' : mask l im = mask l' im' -> extent1 im l = extent1 im' l'.
Proof. intros H. rewrite !extent1_coords, (own_coords_two _ _ _ _ H). reflexivity. Qed.

Definition extents_independent := tr_independent extents extent1 extents_pt extent1_two.
Definition extents_relabel := tr_relabel extents extent1 extents_pt extent1_two.
Definition extents_request := tr_request extents extent1 extents_pt.

(* translation: shifting every pixel of the object by (dy, dx) leaves area and bounding box unchanged *)
Definition shift (dy dx : Z) (c : Z * Z) : Z * Z := (fst c + dy, snd c + dx).

Lemma fold_min_shift d (l : list Z) : forall v, fold_left Z.min (map (fun x => x + d) l) (v + d) = fold_left Z.min l v + d.
Proof. induction l as [|a r IH]; intros v; cbn [map fold_left]; [reflexivity|]. rewrite <- IH. f_equal. lia. Qed.
Lemma fold_max_shift d (l : list Z) : forall v, fold_left Z.max (map (fun x => x + d) l) (v + d) = fold_left Z.max l v + d.
Proof. induction l as [|a r IH]; intros v; cbn [map fold_left]; [reflexivity|]. rewrite <- IH. f_equal. lia. Qed.

Lemma lmax_lmin_shift d (l : list Z) :
  lmax (map (fun x => x + d) l) - lmin (map (fun x => x + d) l) = lmax l - lmin l.
Proof.
  destruct l as [|v r]; [reflexivity|]. cbn [map lmax lmin].
  rewrite fold_min_shift, fold_max_shift. lia.
Qed.

Theorem extent_translate dy dx cs : extent_c (map (shift dy dx) cs) = extent_c cs.
Proof.
  unfold extent_c, area_c. rewrite !map_map. cbn [shift fst snd].
  rewrite <- (map_map snd (fun x => x + dx) cs), <- (map_map fst (fun x => x + dy) cs).
  rewrite !lmax_lmin_shift. reflexivity.
Qed.

(* ------------------------------------------------------------------ perimeters *)

Definition perim1 (im : img) (l : Z) : Z := group_fold 0 Z.add l (lab_pairs (perim_score im) im).

Lemma perimeters_pt im idxs : perimeters im idxs = map (perim1 im) idxs.
Proof. reflexivity. Qed.

(* a per-pixel value computed from the 9-bit same-label pattern *)
Lemma pattern_val_two {A} (tbl : Z -> A) im l im' l' :
  mask l im = mask l' im' ->
  map (fun p => tbl (table_idx_at im (p_y p) (p_x p))) (own im l) =
  map (fun p => tbl (table_idx_at im' (p_y p) (p_x p))) (own im' l').
Proof.
  intros H.
  assert (E : forall im l, map (fun p => tbl (table_idx_at im (p_y p) (p_x p))) (own im l)
                           = map (fun c => tbl (table_idx_b (mask l im) (fst c) (snd c))) (own_coords im l)).
  { intros im0 l0. rewrite own_coords_own, map_map. apply map_ext_in. intros p Hp.
    apply own_label in Hp. destruct Hp as [Hv Hin]. destruct p as [[y x] v]. unfold p_v, p_y, p_x in *.
    cbn [fst snd] in *. subst v. apply pixels_get in Hin. rewrite (table_idx_mask l0 im0 y x Hin). reflexivity. }
  rewrite !E, (own_coords_two _ _ _ _ H), H. reflexivity.
Qed.

Lemma perim1_two im l im' l' : mask l im = mask l' im' -> perim1 im l = perim1 im' l'.
Proof.
  intros H. unfold perim1, group_fold. rewrite !lab_pairs_group. unfold perim_score.
  rewrite (pattern_val_two (fun k => nth (Z.to_nat k) perim_table 0) im l im' l' H). reflexivity.
Qed.

Definition perimeters_independent := tr_independent perimeters perim1 perimeters_pt perim1_two.
Definition perimeters_relabel := tr_relabel perimeters perim1 perimeters_pt perim1_two.
Definition perimeters_request := tr_request perimeters perim1 perimeters_pt.

(* ------------------------------------------------------------------ skeleton_length *)

Definition nonneg_img (im : img) : Prop := forall p, In p (pixels im) -> 0 <= p_v p.
Definition nonneg_list (l : list Z) : Prop := forall i, In i l -> 0 <= i.

Definition skel1 (im : img) (l : Z) : Z := group_fold 0 Z.add l (lab_pairs (skel_score im) im).

Lemma gather_total {A} (a : list A) d idxs :
  (forall i, In i idxs -> 0 <= i /\ (Z.to_nat i < length a)%nat) ->
  gather a idxs = Some (map (fun i => nth (Z.to_nat i) a d) idxs).
Proof.
  induction idxs as [|i r IH]; intros H; cbn [gather map]; [reflexivity|].
  destruct (H i (or_introl eq_refl)) as [Hi Hlt].
  replace (i <? 0) with false by lia.
  rewrite (nth_error_nth' a d Hlt). rewrite IH by (intros j Hj; apply H; right; exact Hj). reflexivity.
Qed.

Lemma bincount_length {A} (zero : A) add m pairs :
  length (bincount zero add m pairs) = Z.to_nat (Z.max (maxl (map fst pairs) + 1) m).
Proof. unfold bincount. rewrite bincount_loop_length, repeat_length. reflexivity. Qed.

Lemma lab_pairs_nonneg {A} (val : Z * Z * Z -> A) im : nonneg_img im -> nonneg_labels (lab_pairs val im).
Proof.
  intros H p Hp. unfold lab_pairs in Hp. apply in_map_iff in Hp. destruct Hp as [q [<- Hq]].
  cbn [fst]. apply H, Hq.
Qed.

(* bincount(labels.ravel(), weights, minlength=max(indices)+1)[indices] never raises and is the
   list of the per-label sums *)
Lemma skeleton_length_pt im idxs :
  nonneg_img im -> nonneg_list idxs -> skeleton_length im idxs = Some (map (skel1 im) idxs).
Proof.
  intros Him Hidx. unfold skeleton_length.
  rewrite (gather_total _ 0).
  - f_equal. apply map_ext_in. intros l Hl. unfold skel1.
    apply bincount_group; [apply lab_pairs_nonneg, Him|apply Hidx, Hl].
  - intros i Hi. split; [apply Hidx, Hi|]. rewrite bincount_length.
    pose proof (maxl_ge idxs i Hi). specialize (Hidx i Hi). lia.
Qed.

Lemma skel1_two im l im' l' : mask l im = mask l' im' -> skel1 im l = skel1 im' l'.
Proof.
  intros H. unfold skel1, group_fold. rewrite !lab_pairs_group. unfold skel_score.
  rewrite (pattern_val_two (fun k => nth (Z.to_nat k) skel_table 0) im l im' l' H). reflexivity.
Qed.

Lemma nonneg_img_relabel f im : (forall a, 0 <= a -> 0 <= f a) -> nonneg_img im -> nonneg_img (relabel f im).
Proof.
  intros Pos H p Hp. unfold relabel in Hp. rewrite pixels_map in Hp. apply in_map_iff in Hp.
  destruct Hp as [q [<- Hq]]. unfold p_v. cbn [snd]. apply Pos. apply (H q Hq).
Qed.

Theorem skeleton_length_independent im im' idxs idxs' k k' l :
  nonneg_img im -> nonneg_img im' -> nonneg_list idxs -> nonneg_list idxs' ->
  mask l im = mask l im' -> nth_error idxs k = Some l -> nth_error idxs' k' = Some l ->
  exists r r', skeleton_length im idxs = Some r /\ skeleton_length im' idxs' = Some r'
               /\ nth_error r k = nth_error r' k'.
Proof.
  intros H1 H2 H3 H4 Hm Hk Hk'. exists (map (skel1 im) idxs), (map (skel1 im') idxs').
  split; [apply skeleton_length_pt; assumption|]. split; [apply skeleton_length_pt; assumption|].
  apply (tr_independent (fun im idxs => map (skel1 im) idxs) skel1 (fun _ _ => eq_refl) skel1_two im im' idxs idxs' k k' l Hm Hk Hk').
Qed.

Theorem skeleton_length_relabel f im idxs :
  injective f -> (forall a, 0 <= a -> 0 <= f a) -> nonneg_img im -> nonneg_list idxs ->
  skeleton_length (relabel f im) (map f idxs) = skeleton_length im idxs.
Proof.
  intros Inj Pos Him Hidx. rewrite !skeleton_length_pt; auto.
  - f_equal. apply (tr_relabel (fun im idxs => map (skel1 im) idxs) skel1 (fun _ _ => eq_refl) skel1_two f im idxs Inj).
  - apply nonneg_img_relabel; assumption.
  - intros i Hi. apply in_map_iff in Hi. destruct Hi as [j [<- Hj]]. apply Pos, Hidx, Hj.
Qed.

Theorem skeleton_length_request im idxs :
  nonneg_img im -> nonneg_list idxs ->
  skeleton_length im idxs = Some (flat_map (fun l => match skeleton_length im [l] with Some r => r | None => [] end) idxs).
Proof.
  intros Him Hidx. rewrite skeleton_length_pt by assumption. f_equal.
  induction idxs as [|i r IH]; cbn [map flat_map]; [reflexivity|].
  rewrite (skeleton_length_pt im [i]); [|exact Him|intros j [<-|[]]; apply Hidx; left; reflexivity].
  cbn [map app]. rewrite IH; [reflexivity|]. intros j Hj. apply Hidx. right; exact Hj.
Qed.

Example skeleton_length_example :
  let im := [[3; 3; 0]; [0; 3; 7]; [7; 7; 7]] in
  skeleton_length im [7; 3] = skeleton_length [[3; 3; 9]; [1; 3; 7]; [7; 7; 7]] [7; 3]
  /\ nonneg_list [7; 3].
Proof. split; [vm_compute; reflexivity|]. intros i [<-|[<-|[]]]; lia. Qed.

