(* C13 — whole-call correctness of the vectorised bookkeeping of minimum_enclosing_circle:
   chrystal_vec indexes blocks = map chrystal blocks.  Simulation of the per-object loop
   (Model/Circle.v) by object k's view of the global arrays (Model/CircleVec.v). *)
From Coq Require Import ZArith List Bool Lia ZifyBool FinFun.
From Centro Require Import Base.Sx Base.VecC13 Proofs.VecC13Proofs Model.Circle Model.CircleVec
  Proofs.CircleVecProofs Proofs.CircleVecStep Model.MecFeretC13 Proofs.MecVecOwnerC13 Proofs.MecVecInvC13.
Import ListNotations.
Open Scope Z_scope.

(* ---------------------------------------------------------------- ragged arrays around block k *)

Lemma split_at {A} : forall (L : list A) k x, nth_error L k = Some x -> L = firstn k L ++ x :: skipn (S k) L.
Proof.
  induction L as [|a t IH]; intros [|k] x H; cbn [nth_error] in H; try discriminate.
  - injection H as ->. reflexivity.
  - cbn [firstn skipn app]. f_equal. apply IH. exact H.
Qed.

Lemma offsets_prefix {A} (L : list (list A)) k x : nth_error L k = Some x ->
  nth_error (offsets (map zlen L)) k = Some (zlen (concat (firstn k L))).
Proof.
  rewrite offsets_scan.
  assert (G : forall (L : list (list A)) s k x, nth_error L k = Some x ->
              nth_error (excl_scan s (map zlen L)) k = Some (s + zlen (concat (firstn k L)))).
  { induction L0 as [|a t IH]; intros s [|k0] x0 H; cbn [nth_error] in H; try discriminate.
    - cbn [map excl_scan nth_error firstn concat]. unfold zlen. cbn [length]. f_equal. lia.
    - cbn [map excl_scan nth_error firstn concat]. rewrite (IH _ _ _ H). f_equal.
      unfold zlen. rewrite app_length. lia. }
  intros H. rewrite (G L 0 k x H). f_equal.
Qed.

Lemma zrange_app a n m : zrange a (n + m) = zrange a n ++ zrange (a + Z.of_nat n) m.
Proof.
  revert a. induction n as [|n IH]; intros a; cbn [zrange Nat.add app].
  - f_equal. lia.
  - f_equal. rewrite IH. f_equal. f_equal. lia.
Qed.

Lemma zrange_map a n : zrange a n = map (fun j => a + Z.of_nat j) (seq 0 n).
Proof.
  revert a. induction n as [|n IH]; intros a; [reflexivity|].
  cbn [zrange seq map]. f_equal; [lia|]. rewrite IH, <- seq_shift, map_map. apply map_ext. intros j. lia.
Qed.

Lemma filter_none_in {A} (f : A -> bool) l : (forall x, In x l -> f x = false) -> filter f l = [].
Proof.
  induction l as [|a t IH]; intros H; [reflexivity|]. cbn [filter].
  rewrite (H a (or_introl eq_refl)). apply IH. intros x Hx. apply H. right. exact Hx.
Qed.

Lemma In_firstn_idx {A} : forall (L : list A) k x, In x (firstn k L) -> exists i, (i < k)%nat /\ nth_error L i = Some x.
Proof.
  induction L as [|a t IH]; intros [|k] x H; cbn [firstn] in H; try destruct H.
  - exists O. split; [lia|]. subst. reflexivity.
  - destruct (IH k x H) as [i [Hi E]]. exists (S i). split; [lia|exact E].
Qed.

Lemma In_skipn_idx {A} : forall (L : list A) k x, In x (skipn k L) -> exists i, (k <= i)%nat /\ nth_error L i = Some x.
Proof.
  induction L as [|a t IH]; intros [|k] x H; cbn [skipn] in H; try destruct H.
  - exists O. split; [lia|]. subst. reflexivity.
  - destruct (In_nth_error _ _ H) as [i Hi]. exists (S i). split; [lia|exact Hi].
  - destruct (IH k x H) as [i [Hi E]]. exists (S i). split; [lia|exact E].
Qed.

Lemma nth_error_combine_fst {A B} : forall (I : list A) (Bl : list B) i lb,
  nth_error (combine I Bl) i = Some lb -> nth_error I i = Some (fst lb).
Proof.
  induction I as [|a t IH]; intros [|y r] [|i] lb H; cbn [combine nth_error] in *; try discriminate.
  - injection H as <-. reflexivity.
  - apply (IH r i lb H).
Qed.

(* ---------------------------------------------------------------- the call around object k *)
Section Around.
  Variable indexes : list Z.
  Variable blocks : list (list cpt).
  Hypothesis ND : NoDup indexes.
  Hypothesis NN : forall j, In j indexes -> 0 <= j.
  Hypothesis HL : length indexes = length blocks.
  Variable k : nat.
  Variable l : Z.
  Variable b : list cpt.
  Hypothesis Hl : nth_error indexes k = Some l.
  Hypothesis Hb : nth_error blocks k = Some b.

  Let rows := hull_rows indexes blocks.
  Let anti := anti_index indexes.
  Let app := map (fun r : Z * cpt => nthz anti (fst r) 0) rows.
  Let C := combine indexes blocks.
  Let pre := concat (map lrows (firstn k C)).
  Let post := concat (map lrows (skipn (S k) C)).
  Let off := zlenv pre.

  Lemma HC : nth_error C k = Some (l, b).
  Proof. apply nth_error_combine; assumption. Qed.

  Lemma rows_split : rows = pre ++ map (pair l) b ++ post.
  Proof.
    unfold rows, hull_rows. fold lrows. fold C.
    rewrite (split_at C k (l, b) HC) at 1. rewrite map_app, concat_app. cbn [map concat]. reflexivity.
  Qed.

  Lemma pidx_k : nth_error (offsets (map zlenv blocks)) k = Some off.
  Proof.
    assert (Hm : nth_error (map lrows C) k = Some (lrows (l, b))) by (rewrite nth_error_map, HC; reflexivity).
    pose proof (offsets_prefix (map lrows C) k _ Hm) as H.
    unfold C in H at 1. rewrite zlen_lrows in H by exact HL. rewrite H. f_equal.
    unfold off, pre, zlenv, zlen. rewrite firstn_map. reflexivity.
  Qed.

  (* rows of the other objects carry another anti-index *)
  Lemma other_rows_anti r : In r pre \/ In r post -> nthz anti (fst r) 0 <> Z.of_nat k.
  Proof.
    intros H.
    assert (G : exists k', k' <> k /\ nth_error indexes k' = Some (fst r)).
    { destruct H as [H|H]; unfold pre, post in H; apply in_concat in H; destruct H as [rs [Hrs Hr]];
        apply in_map_iff in Hrs; destruct Hrs as [lb [<- Hlb]].
      - destruct (In_firstn_idx _ _ _ Hlb) as [i [Hi E]]. exists i. split; [lia|].
        unfold lrows in Hr. apply in_map_iff in Hr. destruct Hr as [p [<- _]]. cbn [fst].
        apply (nth_error_combine_fst _ _ _ _ E).
      - destruct (In_skipn_idx _ _ _ Hlb) as [i [Hi E]]. exists i. split; [lia|].
        unfold lrows in Hr. apply in_map_iff in Hr. destruct Hr as [p [<- _]]. cbn [fst].
        apply (nth_error_combine_fst _ _ _ _ E). }
    destruct G as [k' [Nk E]]. unfold anti. rewrite (own_anti indexes k' (fst r) ND NN E). lia.
  Qed.

  Lemma len_rows : length rows = (length pre + (length b + length post))%nat.
  Proof. rewrite rows_split, !app_length, map_length. reflexivity. Qed.

  Lemma off_nonneg : 0 <= off.
  Proof. unfold off, zlenv. lia. Qed.

  (* own rows *)
  Lemma own_row j : (j < length b)%nat -> nthz rows (off + Z.of_nat j) (0, (0, 0)) = (l, nth j b (0, 0)).
  Proof.
    intros Hj. unfold nthz, off, zlenv. replace (Z.to_nat (Z.of_nat (length pre) + Z.of_nat j)) with (length pre + j)%nat by lia.
    rewrite rows_split. rewrite app_nth2 by lia. replace (length pre + j - length pre)%nat with j by lia.
    rewrite app_nth1 by (rewrite map_length; exact Hj).
    apply (nth_map_lt' (pair l) b j (0, 0) (0, (0, 0)) Hj).
  Qed.

  Lemma own_pt j : (j < length b)%nat -> ptg rows (off + Z.of_nat j) = nth j b (0, 0).
  Proof. intros Hj. unfold ptg. rewrite own_row by exact Hj. reflexivity. Qed.

  Lemma app_nth g : (Z.to_nat g < length rows)%nat -> nthz app g (-1) = nthz anti (fst (nthz rows g (0, (0, 0)))) 0.
  Proof.
    intros Hg. unfold nthz at 1. unfold app.
    rewrite (nth_map_lt' _ rows _ (0, (0, 0)) (-1) Hg). reflexivity.
  Qed.

  Lemma own_app j : (j < length b)%nat -> nthz app (off + Z.of_nat j) (-1) = Z.of_nat k.
  Proof.
    intros Hj. rewrite app_nth.
    - rewrite own_row by exact Hj. cbn [fst]. unfold anti. apply (own_anti indexes k l ND NN Hl).
    - rewrite len_rows. unfold off, zlenv. lia.
  Qed.

  (* a row with anti-index k is one of the own rows *)
  Lemma app_own g : 0 <= g -> (Z.to_nat g < length rows)%nat -> nthz app g (-1) = Z.of_nat k ->
    off <= g < off + Z.of_nat (length b).
  Proof.
    intros G0 Hg E. rewrite app_nth in E by exact Hg. unfold off, zlenv.
    destruct (Z_lt_ge_dec g (Z.of_nat (length pre))) as [L|Ge].
    - exfalso. apply (other_rows_anti (nthz rows g (0, (0, 0)))); [|exact E]. left.
      unfold nthz. rewrite rows_split. rewrite app_nth1 by lia. apply nth_In. lia.
    - destruct (Z_lt_ge_dec g (Z.of_nat (length pre) + Z.of_nat (length b))) as [L2|Ge2]; [lia|].
      exfalso. apply (other_rows_anti (nthz rows g (0, (0, 0)))); [|exact E]. right.
      unfold nthz. rewrite rows_split. rewrite app_nth2 by lia. rewrite app_nth2 by (rewrite map_length; lia).
      apply nth_In. rewrite map_length. rewrite len_rows in Hg. lia.
  Qed.

  (* keep_me_vertices of object k: its own rows with within_label_index >= 2, in row order *)
  Lemma cands_own w :
    cands rows app w (Z.of_nat k) = filter (fun g => 2 <=? nthz w g 0) (zrange off (length b)).
  Proof.
    unfold cands. rewrite len_rows, !zrange_app, !filter_app. cbn [Z.add].
    rewrite (filter_none_in _ (zrange 0 (length pre))).
    - rewrite (filter_none_in _ (zrange (0 + Z.of_nat (length pre) + Z.of_nat (length b)) (length post))).
      + rewrite app_nil_r. cbn [app]. replace (0 + Z.of_nat (length pre)) with off by (unfold off, zlenv; lia).
        apply filter_ext_in'. intros g Hg. apply zrange_In in Hg.
        replace g with (off + Z.of_nat (Z.to_nat (g - off))) by lia.
        rewrite own_app by lia. rewrite Z.eqb_refl. reflexivity.
      + intros g Hg. apply zrange_In in Hg. apply andb_false_intro1. apply Z.eqb_neq. intros E.
        assert (R : (Z.to_nat g < length rows)%nat) by (rewrite len_rows; lia).
        pose proof (app_own g ltac:(lia) R E). unfold off, zlenv in *. lia.
    - intros g Hg. apply zrange_In in Hg. apply andb_false_intro1. apply Z.eqb_neq. intros E.
      assert (R : (Z.to_nat g < length rows)%nat) by (rewrite len_rows; lia).
      pose proof (app_own g ltac:(lia) R E). unfold off, zlenv in *. lia.
  Qed.

  (* ---- object k's view of a global state = a state (s0, s1) of the per-object loop ---- *)
  Definition kz : Z := Z.of_nat k.
  Definition rowz (j : nat) : Z := off + Z.of_nat j.

  Lemma own_pt' j : (j < length b)%nat -> ptg rows (rowz j) = nth j b (0, 0).
  Proof. apply own_pt. Qed.
  Lemma own_app' j : (j < length b)%nat -> nthz app (rowz j) (-1) = kz.
  Proof. apply own_app. Qed.

  Record view (st : vstate) (s0 s1 : nat) : Prop := mkView {
    vw_s0 : (s0 < length b)%nat;
    vw_s1 : (s1 < length b)%nat;
    vw_ne : s0 <> s1;
    vw_a0 : nthz (v_s0 st) kz 0 = rowz s0;
    vw_a1 : nthz (v_s1 st) kz 0 = rowz s1;
    vw_w : forall j, (j < length b)%nat ->
           (j = s0 -> nthz (v_w st) (rowz j) 0 = 0) /\ (j = s1 -> nthz (v_w st) (rowz j) 0 = 1) /\
           (j <> s0 -> j <> s1 -> 2 <= nthz (v_w st) (rowz j) 0)
  }.

  Definition keepj (s0 s1 j : nat) : bool := negb (j =? s0)%nat && negb (j =? s1)%nat.

  Lemma cands_view st s0 s1 : view st s0 s1 ->
    cands rows app (v_w st) kz = map rowz (filter (keepj s0 s1) (seq 0 (length b))).
  Proof.
    intros V. unfold kz. rewrite cands_own, zrange_map.
    change (fun j : nat => off + Z.of_nat j) with rowz.
    rewrite filter_map_comm. f_equal. apply filter_ext_in'. intros j Hj. apply in_seq in Hj.
    destruct (vw_w _ _ _ V j ltac:(lia)) as (W0 & W1 & W2). unfold keepj.
    destruct (Nat.eqb_spec j s0) as [E0|N0]; [rewrite (W0 E0); reflexivity|].
    destruct (Nat.eqb_spec j s1) as [E1|N1]; [rewrite (W1 E1); reflexivity|].
    cbn [negb andb]. specialize (W2 N0 N1). lia.
  Qed.

  Definition sh (t : nat * Z * Z) : Z * Z * Z := (rowz (fst (fst t)), snd (fst t), snd t).

  (* the two scans choose the same vertex *)
  Lemma scan_sim s0 s1 S0 S1 : forall (bs : list cpt) (j0 : nat) bestS,
    (forall i, (i < length bs)%nat -> ptg rows (rowz (j0 + i)) = nth i bs (0, 0)) ->
    best_over rows (map rowz (filter (keepj s0 s1) (seq j0 (length bs)))) S0 S1 (option_map sh bestS) =
    option_map sh (best_vertex bs j0 s0 s1 S0 S1 bestS).
  Proof.
    induction bs as [|v t IH]; intros j0 bestS Hp; [reflexivity|].
    cbn [length seq filter best_vertex].
    assert (Hv : ptg rows (rowz j0) = v).
    { pose proof (Hp O ltac:(cbn [length]; lia)) as Q. cbn [nth] in Q. rewrite <- Q. f_equal. unfold rowz. lia. }
    assert (Hp' : forall i, (i < length t)%nat -> ptg rows (rowz (S j0 + i)) = nth i t (0, 0)).
    { intros i Hi. pose proof (Hp (S i) ltac:(cbn [length]; lia)) as Q. cbn [nth] in Q. rewrite <- Q. f_equal. unfold rowz. lia. }
    unfold keepj at 1.
    destruct (Nat.eqb_spec j0 s0) as [E0|N0]; [cbn [negb andb orb]; apply IH; exact Hp'|].
    destruct (Nat.eqb_spec j0 s1) as [E1|N1]; [cbn [negb andb orb]; apply IH; exact Hp'|].
    cbn [negb andb orb map best_over]. rewrite Hv.
    destruct bestS as [[[bk bd] bA]|]; cbn [option_map sh fst snd].
    - destruct (cos_gt (dot3 S0 S1 v) (dist2 S0 v * dist2 S1 v) bd bA).
      + apply (IH (S j0) (Some (j0, dot3 S0 S1 v, dist2 S0 v * dist2 S1 v)) Hp').
      + apply (IH (S j0) (Some (bk, bd, bA)) Hp').
    - apply (IH (S j0) (Some (j0, dot3 S0 S1 v, dist2 S0 v * dist2 S1 v)) Hp').
  Qed.

  Lemma best_vertex_idx s0 s1 S0 S1 : forall (bs : list cpt) j0 bestS j d A,
    (forall j' d' A', bestS = Some (j', d', A') -> (j' < j0)%nat /\ j' <> s0 /\ j' <> s1) ->
    best_vertex bs j0 s0 s1 S0 S1 bestS = Some (j, d, A) ->
    (j < j0 + length bs)%nat /\ j <> s0 /\ j <> s1.
  Proof.
    induction bs as [|v t IH]; intros j0 bestS j d A HbS H; cbn [best_vertex length] in *.
    - destruct (HbS j d A H) as (X & Y & Z0). repeat split; try assumption. lia.
    - apply IH in H; [destruct H as (X & Y & Z0); repeat split; try assumption; lia|].
      intros j' d' A' E.
      destruct (Nat.eqb_spec j0 s0) as [E0|N0]; cbn [orb] in E.
      { destruct (HbS j' d' A' E) as (X & Y & Z0). repeat split; try assumption. lia. }
      destruct (Nat.eqb_spec j0 s1) as [E1|N1]; cbn [orb] in E.
      { destruct (HbS j' d' A' E) as (X & Y & Z0). repeat split; try assumption. lia. }
      destruct bestS as [[[bk bd] bA]|].
      + destruct (cos_gt _ _ bd bA); injection E as <- <- <-.
        * repeat split; try assumption. lia.
        * destruct (HbS bk bd bA eq_refl) as (X & Y & Z0). repeat split; try assumption. lia.
      + injection E as <- <- <-. repeat split; try assumption. lia.
  Qed.

  (* ---- one iteration ---- *)
  Inductive sstep : Type := SFin (r : cres) | SMove0 (j : nat) | SMove1 (j : nat).

  Definition scalar_step (s0 s1 : nat) : sstep :=
    let S0 := nth s0 b (0, 0) in
    let S1 := nth s1 b (0, 0) in
    match best_vertex b 0 s0 s1 S0 S1 None with
    | None => SFin (diam S0 S1)
    | Some (j, d, _) =>
        if d <=? 0 then SFin (diam S0 S1)
        else
          let V := nth j b (0, 0) in
          let a0 := dot3 S1 V S0 in
          let a1 := dot3 S0 V S1 in
          if (0 <=? a0) && (0 <=? a1) then SFin (circum S0 S1 V)
          else if a0 <? 0 then SMove0 j else SMove1 j
    end.

  Lemma chrystal_loop_step f s0 s1 :
    chrystal_loop (S f) b s0 s1 =
    match scalar_step s0 s1 with
    | SFin r => r
    | SMove0 j => chrystal_loop f b j s1
    | SMove1 j => chrystal_loop f b s0 j
    end.
  Proof.
    cbn [chrystal_loop]. unfold scalar_step.
    destruct (best_vertex b 0 s0 s1 (nth s0 b (0, 0)) (nth s1 b (0, 0)) None) as [[[j d] A]|]; [|reflexivity].
    destruct (d <=? 0); [reflexivity|].
    destruct ((0 <=? dot3 (nth s1 b (0, 0)) (nth j b (0, 0)) (nth s0 b (0, 0))) &&
              (0 <=? dot3 (nth s0 b (0, 0)) (nth j b (0, 0)) (nth s1 b (0, 0)))); [reflexivity|].
    destruct (dot3 (nth s1 b (0, 0)) (nth j b (0, 0)) (nth s0 b (0, 0)) <? 0); reflexivity.
  Qed.

  Lemma scalar_step_idx s0 s1 j : scalar_step s0 s1 = SMove0 j \/ scalar_step s0 s1 = SMove1 j ->
    (j < length b)%nat /\ j <> s0 /\ j <> s1.
  Proof.
    unfold scalar_step.
    destruct (best_vertex b 0 s0 s1 (nth s0 b (0, 0)) (nth s1 b (0, 0)) None) as [[[j' d] A]|] eqn:E;
      [|intros [H|H]; discriminate].
    pose proof (best_vertex_idx s0 s1 _ _ b 0 None j' d A ltac:(intros ? ? ? X; discriminate) E) as I.
    destruct (d <=? 0); [intros [H|H]; discriminate|].
    destruct (_ && _); [intros [H|H]; discriminate|].
    destruct (_ <? 0); intros [H|H]; try discriminate; injection H as <-; cbn [Nat.add] in I; exact I.
  Qed.

  Definition act_of (s : sstep) : action :=
    match s with SFin r => Finish r | SMove0 j => MoveS0 (rowz j) | SMove1 j => MoveS1 (rowz j) end.

  Lemma decide_sim st s0 s1 : view st s0 s1 -> nthz (v_keep st) kz false = true ->
    decide rows app st kz = act_of (scalar_step s0 s1).
  Proof.
    intros V Act. unfold decide. rewrite Act. cbn [negb].
    rewrite (vw_a0 _ _ _ V), (vw_a1 _ _ _ V).
    rewrite (own_pt' s0 (vw_s0 _ _ _ V)), (own_pt' s1 (vw_s1 _ _ _ V)).
    rewrite (cands_view st s0 s1 V).
    pose proof (scan_sim s0 s1 (nth s0 b (0, 0)) (nth s1 b (0, 0)) b 0 None
                 ltac:(intros i Hi; cbn [Nat.add]; apply own_pt'; exact Hi)) as Sc.
    cbn [option_map] in Sc. rewrite Sc. unfold scalar_step.
    destruct (best_vertex b 0 s0 s1 (nth s0 b (0, 0)) (nth s1 b (0, 0)) None) as [[[j d] A]|] eqn:E; [|reflexivity].
    cbn [option_map sh fst snd].
    pose proof (best_vertex_idx s0 s1 _ _ b 0 None j d A ltac:(intros ? ? ? X; discriminate) E) as (Lj & _ & _).
    cbn [Nat.add] in Lj. rewrite (own_pt' j Lj).
    destruct (d <=? 0); [reflexivity|].
    destruct (_ && _); [reflexivity|].
    destruct (_ <? 0); reflexivity.
  Qed.

  (* ---- the view through a write and through a pass ---- *)
  Definition lens (st : vstate) : Prop :=
    (k < length (v_s0 st))%nat /\ (k < length (v_s1 st))%nat /\ (k < length (v_keep st))%nat /\
    (k < length (v_res st))%nat /\ length (v_w st) = length rows.

  Lemma rowz_inj j j' : Z.to_nat (rowz j) = Z.to_nat (rowz j') <-> j = j'.
  Proof. unfold rowz. pose proof off_nonneg. split; intro; lia. Qed.

  Lemma rowz_lt j : (j < length b)%nat -> (Z.to_nat (rowz j) < length rows)%nat.
  Proof. intros Hj. rewrite len_rows. unfold rowz, off, zlenv. lia. Qed.

  Lemma kz_nat : Z.to_nat kz = k.
  Proof. unfold kz. lia. Qed.

  Lemma view_w_update st s0 s1 j sold snew (c : Z) :
    view st s0 s1 -> lens st -> (j < length b)%nat -> j <> s0 -> j <> s1 ->
    (sold = s0 /\ snew = s1 /\ c = 0) \/ (sold = s1 /\ snew = s0 /\ c = 1) ->
    forall j', (j' < length b)%nat ->
      let w' := setz (setz (v_w st) (rowz sold) (nthz (v_w st) (rowz j) 0)) (rowz j) c in
      (j' = j -> nthz w' (rowz j') 0 = c) /\
      (j' = snew -> nthz w' (rowz j') 0 = nthz (v_w st) (rowz snew) 0) /\
      (j' <> j -> j' <> snew -> 2 <= nthz w' (rowz j') 0).
  Proof.
    intros V (_ & _ & _ & _ & Lw) Hj N0 N1 Cs j' Hj' w'. unfold w'.
    assert (Lj : (Z.to_nat (rowz j) < length (setz (v_w st) (rowz sold) (nthz (v_w st) (rowz j) 0%Z)))%nat)
      by (rewrite setz_length, Lw; apply rowz_lt; exact Hj).
    assert (Hso : (sold < length b)%nat) by (destruct Cs as [(-> & _)|(-> & _)]; [apply (vw_s0 _ _ _ V)|apply (vw_s1 _ _ _ V)]).
    assert (Lso : (Z.to_nat (rowz sold) < length (v_w st))%nat) by (rewrite Lw; apply rowz_lt; exact Hso).
    destruct (vw_w _ _ _ V j Hj) as (_ & _ & Wj). specialize (Wj N0 N1).
    rewrite !nthz_setz. repeat split.
    - intros ->. rewrite Nat.eqb_refl. apply Nat.ltb_lt in Lj. rewrite Lj. reflexivity.
    - intros ->. assert (Nj : snew <> j) by (destruct Cs as [(_ & -> & _)|(_ & -> & _)]; congruence).
      assert (Ns : snew <> sold) by (destruct Cs as [(-> & -> & _)|(-> & -> & _)]; [intro; apply (vw_ne _ _ _ V); congruence|apply (vw_ne _ _ _ V)]).
      replace (Z.to_nat (rowz snew) =? Z.to_nat (rowz j))%nat with false by (symmetry; apply Nat.eqb_neq; rewrite rowz_inj; exact Nj).
      replace (Z.to_nat (rowz snew) =? Z.to_nat (rowz sold))%nat with false by (symmetry; apply Nat.eqb_neq; rewrite rowz_inj; exact Ns).
      reflexivity.
    - intros Nj Ns.
      replace (Z.to_nat (rowz j') =? Z.to_nat (rowz j))%nat with false by (symmetry; apply Nat.eqb_neq; rewrite rowz_inj; exact Nj).
      cbn [andb]. destruct (Nat.eqb_spec (Z.to_nat (rowz j')) (Z.to_nat (rowz sold))) as [E|N].
      + apply Nat.ltb_lt in Lso. rewrite Lso. cbn [andb]. exact Wj.
      + cbn [andb]. apply rowz_inj in E || idtac.
        destruct (vw_w _ _ _ V j' Hj') as (_ & _ & W2). apply W2.
        * destruct Cs as [(-> & -> & _)|(-> & -> & _)]; [intro; subst; apply N; reflexivity|exact Ns].
        * destruct Cs as [(-> & -> & _)|(-> & -> & _)]; [exact Ns|intro; subst; apply N; reflexivity].
  Qed.

  Lemma view_move0 st s0 s1 j : view st s0 s1 -> lens st -> (j < length b)%nat -> j <> s0 -> j <> s1 ->
    view (apply_action st kz (MoveS0 (rowz j))) j s1.
  Proof.
    intros V L Hj N0 N1. pose proof L as (L0 & L1 & Lk & Lr & Lw).
    cbn [apply_action]. rewrite (vw_a0 _ _ _ V).
    constructor; cbn [v_s0 v_s1 v_w].
    - exact Hj.
    - apply (vw_s1 _ _ _ V).
    - exact N1.
    - rewrite nthz_setz, Nat.eqb_refl, kz_nat. apply Nat.ltb_lt in L0. rewrite L0. reflexivity.
    - apply (vw_a1 _ _ _ V).
    - intros j' Hj'.
      destruct (view_w_update st s0 s1 j s0 s1 0 V L Hj N0 N1 (or_introl (conj eq_refl (conj eq_refl eq_refl))) j' Hj') as (A & B & Cw).
      repeat split; [exact A| |exact Cw].
      intros E. rewrite (B E). destruct (vw_w _ _ _ V s1 (vw_s1 _ _ _ V)) as (_ & W1 & _). apply W1. reflexivity.
  Qed.

  Lemma view_move1 st s0 s1 j : view st s0 s1 -> lens st -> (j < length b)%nat -> j <> s0 -> j <> s1 ->
    view (apply_action st kz (MoveS1 (rowz j))) s0 j.
  Proof.
    intros V L Hj N0 N1. pose proof L as (L0 & L1 & Lk & Lr & Lw).
    cbn [apply_action]. rewrite (vw_a1 _ _ _ V).
    constructor; cbn [v_s0 v_s1 v_w].
    - apply (vw_s0 _ _ _ V).
    - exact Hj.
    - congruence.
    - apply (vw_a0 _ _ _ V).
    - rewrite nthz_setz, Nat.eqb_refl, kz_nat. apply Nat.ltb_lt in L1. rewrite L1. reflexivity.
    - intros j' Hj'.
      destruct (view_w_update st s0 s1 j s1 s0 1 V L Hj N0 N1 (or_intror (conj eq_refl (conj eq_refl eq_refl))) j' Hj') as (A & B & Cw).
      repeat split; [|exact A|].
      + intros E. rewrite (B E). destruct (vw_w _ _ _ V s0 (vw_s0 _ _ _ V)) as (W0 & _ & _). apply W0. reflexivity.
      + intros X Y. apply Cw; assumption.
  Qed.

  Lemma view_agree st st' s0 s1 : agree app kz st' st -> view st s0 s1 -> view st' s0 s1.
  Proof.
    intros (_ & A0 & A1 & _ & Aw) V. constructor.
    - apply (vw_s0 _ _ _ V).
    - apply (vw_s1 _ _ _ V).
    - apply (vw_ne _ _ _ V).
    - rewrite A0. apply (vw_a0 _ _ _ V).
    - rewrite A1. apply (vw_a1 _ _ _ V).
    - intros j Hj. rewrite (Aw (rowz j) (own_app' j Hj)). apply (vw_w _ _ _ V j Hj).
  Qed.

  Lemma lens_samelen st st' : samelen st' st -> lens st -> lens st'.
  Proof. intros (E0 & E1 & Ek & Er & Ew) (L0 & L1 & Lk & Lr & Lw). unfold lens. rewrite E0, E1, Ek, Er, Ew. repeat split; assumption. Qed.

  (* ---- the loop ---- *)
  Let n := length blocks.

  Lemma kz_range : 0 <= kz < Z.of_nat n.
  Proof. unfold kz, n. assert (k < length blocks)%nat by (apply nth_error_Some; congruence). lia. Qed.

  Lemma existsb_active (bs : list bool) : nthz bs kz false = true -> existsb (fun x => x) bs = true.
  Proof.
    intros H. apply existsb_exists. exists true. split; [|reflexivity].
    unfold nthz in H. destruct (Nat.ltb (Z.to_nat kz) (length bs)) eqn:E.
    - apply Nat.ltb_lt in E. rewrite <- H. apply nth_In. exact E.
    - apply Nat.ltb_ge in E. rewrite nth_overflow in H by exact E. discriminate.
  Qed.

  (* once finished, the result of object k is never touched again *)
  Lemma res_frozen : forall fv st, inv app n st -> ~ active st kz ->
    nthz (v_res (vloop rows app fv n st)) kz CEmpty = nthz (v_res st) kz CEmpty.
  Proof.
    induction fv as [|fv IH]; intros st I NA; cbn [vloop]; [reflexivity|].
    destruct (existsb (fun x => x) (v_keep st)); [|reflexivity].
    pose proof (idle_frame' rows app n st kz kz_range I NA) as (Ek & _ & _ & Er & _).
    rewrite IH; [exact Er|apply vstep_inv; exact I|].
    unfold active in *. rewrite Ek. exact NA.
  Qed.

  Lemma run_sim : forall f fv st s0 s1,
    (f <= fv)%nat -> inv app n st -> lens st -> view st s0 s1 -> active st kz ->
    chrystal_loop f b s0 s1 <> CFuel ->
    nthz (v_res (vloop rows app fv n st)) kz CEmpty = chrystal_loop f b s0 s1.
  Proof.
    induction f as [|f IH]; intros fv st s0 s1 Hf I L V Act NF; [exfalso; apply NF; reflexivity|].
    destruct fv as [|fv]; [lia|]. cbn [vloop].
    rewrite (existsb_active _ Act).
    destruct (pass_own' rows app n st kz kz_range I) as [Ag SL].
    rewrite (decide_sim st s0 s1 V Act) in Ag.
    pose proof (vstep_inv rows app n st I) as I'.
    pose proof (lens_samelen _ _ SL L) as L'.
    pose proof L as (L0 & L1 & Lk & Lr & Lw).
    rewrite chrystal_loop_step in NF |- *.
    destruct (scalar_step s0 s1) as [r|j|j] eqn:Es; cbn [act_of] in Ag.
    - (* finished in this pass *)
      destruct Ag as (Ek & _ & _ & Er & _). cbn [apply_action v_keep v_res] in Ek, Er.
      rewrite nthz_setz, Nat.eqb_refl, kz_nat in Ek. rewrite nthz_setz, Nat.eqb_refl, kz_nat in Er.
      apply Nat.ltb_lt in Lk. apply Nat.ltb_lt in Lr. rewrite Lk in Ek. rewrite Lr in Er. cbn [andb] in Ek, Er.
      rewrite res_frozen; [exact Er|exact I'|]. unfold active. rewrite Ek. discriminate.
    - destruct (scalar_step_idx s0 s1 j (or_introl Es)) as (Hj & N0 & N1).
      apply (IH fv _ j s1); try assumption; [lia| |].
      + apply (view_agree _ _ j s1 Ag). apply (view_move0 st s0 s1 j); assumption.
      + destruct Ag as (Ek & _). unfold active in *. rewrite Ek. cbn [apply_action v_keep]. exact Act.
    - destruct (scalar_step_idx s0 s1 j (or_intror Es)) as (Hj & N0 & N1).
      apply (IH fv _ s0 j); try assumption; [lia| |].
      + apply (view_agree _ _ s0 j Ag). apply (view_move1 st s0 s1 j); assumption.
      + destruct Ag as (Ek & _). unfold active in *. rewrite Ek. cbn [apply_action v_keep]. exact Act.
  Qed.

  (* ---- the initial state of the call ---- *)
  Let pidx := offsets (map zlenv blocks).
  Let st0 := snd (vec_init indexes blocks).

  Lemma offsets_length (cs : list Z) : length (offsets cs) = length cs.
  Proof.
    rewrite offsets_scan. generalize 0. induction cs as [|c t IH]; intros s0; cbn [excl_scan length]; [reflexivity|].
    rewrite IH. reflexivity.
  Qed.

  Lemma st0_eq : st0 = mkV pidx (map (Z.add 1) pidx) (map (fun c => 2 <? c) (map zlenv blocks))
      (map (fun ga => fst ga - nthz pidx (snd ga) 0) (combine (zrange 0 (length rows)) app))
      (map (fun pb => match snd pb with
                      | [] => CEmpty
                      | [p] => CCircle (fst p) (snd p) 1 0
                      | [p; q] => diam p q
                      | _ => CFuel
                      end) (combine pidx blocks)).
  Proof. reflexivity. Qed.

  Lemma zrange_length a m : length (zrange a m) = m.
  Proof. revert a. induction m as [|m IH]; intros a; cbn [zrange length]; [reflexivity|]. rewrite IH. reflexivity. Qed.

  Lemma zrange_nth a m i : (i < m)%nat -> nth i (zrange a m) 0 = a + Z.of_nat i.
  Proof.
    revert a i. induction m as [|m IH]; intros a [|i] H; cbn [zrange nth]; try lia.
    rewrite IH by lia. lia.
  Qed.

  Lemma klt : (k < length blocks)%nat.
  Proof. apply nth_error_Some. congruence. Qed.

  Lemma lens0 : lens st0.
  Proof.
    rewrite st0_eq. unfold lens. cbn [v_s0 v_s1 v_keep v_res v_w]. pose proof klt.
    rewrite !map_length, !combine_length, zrange_length. unfold pidx. rewrite offsets_length, !map_length.
    unfold app. rewrite map_length. repeat split; lia.
  Qed.

  Lemma pidx_nth : nthz pidx kz 0 = off.
  Proof. unfold nthz. rewrite kz_nat. apply nth_error_nth. exact pidx_k. Qed.

  Lemma keep0_k : nthz (v_keep st0) kz false = (2 <? zlenv b).
  Proof.
    rewrite st0_eq. cbn [v_keep]. unfold nthz. rewrite kz_nat. apply nth_error_nth.
    rewrite !nth_error_map, Hb. reflexivity.
  Qed.

  Lemma res0_k : nthz (v_res st0) kz CEmpty =
    match b with [] => CEmpty | [p] => CCircle (fst p) (snd p) 1 0 | [p; q] => diam p q | _ => CFuel end.
  Proof.
    rewrite st0_eq. cbn [v_res]. unfold nthz. rewrite kz_nat. apply nth_error_nth.
    rewrite nth_error_map. exact (f_equal (option_map _) (nth_error_combine pidx blocks k off b pidx_k Hb)).
  Qed.

  Lemma w0_row j : (j < length b)%nat -> nthz (v_w st0) (rowz j) 0 = Z.of_nat j.
  Proof.
    intros Hj. rewrite st0_eq. cbn [v_w]. unfold nthz at 1.
    pose proof (rowz_lt j Hj) as Lr.
    rewrite (nth_map_lt' _ _ _ (0, 0) 0) by (rewrite combine_length, zrange_length; unfold app; rewrite map_length; lia).
    rewrite combine_nth by (rewrite zrange_length; unfold app; rewrite map_length; reflexivity).
    cbn [fst snd]. rewrite zrange_nth by exact Lr.
    change (nth (Z.to_nat (rowz j)) app 0) with (nthz app (rowz j) 0).
    assert (E : nthz app (rowz j) 0 = kz).
    { rewrite <- (own_app' j Hj). unfold nthz. apply nth_indep. unfold app. rewrite map_length. exact Lr. }
    rewrite E, pidx_nth. unfold rowz. pose proof off_nonneg. lia.
  Qed.

  Lemma view0 : (3 <= length b)%nat -> view st0 0 1.
  Proof.
    intros L3. constructor; try lia.
    - rewrite st0_eq. cbn [v_s0]. rewrite pidx_nth. unfold rowz. lia.
    - rewrite st0_eq. cbn [v_s1]. unfold nthz. rewrite kz_nat.
      rewrite (nth_map_lt' (Z.add 1) pidx k 0 0) by (unfold pidx; rewrite offsets_length, map_length; apply klt).
      pose proof pidx_nth as P. unfold nthz in P. rewrite kz_nat in P. rewrite P. unfold rowz. lia.
    - intros j Hj. rewrite (w0_row j Hj). repeat split; intros; lia.
  Qed.

  Lemma inv0 : inv app n st0.
  Proof. exact (vec_init_inv indexes blocks ND NN HL). Qed.

  Lemma max_fuel_ge : (length b * length b + 10 <= max_fuel blocks)%nat.
  Proof.
    assert (I : In b blocks) by (eapply nth_error_In; exact Hb).
    unfold max_fuel. clear - I. induction blocks as [|x t IH]; [destruct I|].
    cbn [fold_right]. destruct I as [->|I]; [lia|]. specialize (IH I). lia.
  Qed.

  (* object k of the vectorised call gets the result of the per-object loop on its own block *)
  Theorem chrystal_vec_k : chrystal b <> CFuel ->
    nthz (chrystal_vec indexes blocks) kz CEmpty = chrystal b.
  Proof.
    intros NF.
    assert (E : chrystal_vec indexes blocks = v_res (vloop rows app (max_fuel blocks) n st0)) by reflexivity.
    rewrite E.
    destruct (Nat.ltb (length b) 3) eqn:L3.
    - apply Nat.ltb_lt in L3. rewrite res_frozen.
      + rewrite res0_k. destruct b as [|p [|q [|r t]]]; cbn [length] in L3; try lia; reflexivity.
      + exact inv0.
      + unfold active. rewrite keep0_k. unfold zlenv. intro X. lia.
    - apply Nat.ltb_ge in L3.
      assert (Ec : chrystal b = chrystal_loop (length b * length b + 10) b 0 1).
      { destruct b as [|p [|q [|r t]]]; cbn [length] in L3; try lia. reflexivity. }
      rewrite Ec in NF |- *.
      apply run_sim; try assumption.
      + exact max_fuel_ge.
      + exact inv0.
      + exact lens0.
      + apply view0. exact L3.
      + unfold active. rewrite keep0_k. unfold zlenv. lia.
  Qed.
End Around.

(* ---------------------------------------------------------------- the whole call *)

Lemma vloop_samelen rows app n : forall fv st, samelen (vloop rows app fv n st) st.
Proof.
  induction fv as [|fv IH]; intros st; cbn [vloop]; [unfold samelen; repeat split; reflexivity|].
  destruct (existsb (fun x => x) (v_keep st)); [|unfold samelen; repeat split; reflexivity].
  eapply samelen_trans; [apply IH|]. rewrite vstep_pass. apply pass_samelen.
Qed.

Lemma chrystal_vec_length indexes blocks : length (chrystal_vec indexes blocks) = length blocks.
Proof.
  assert (E : chrystal_vec indexes blocks =
              v_res (vloop (hull_rows indexes blocks)
                           (map (fun r : Z * cpt => nthz (anti_index indexes) (fst r) 0) (hull_rows indexes blocks))
                           (max_fuel blocks) (length blocks) (snd (vec_init indexes blocks)))) by reflexivity.
  rewrite E. destruct (vloop_samelen (hull_rows indexes blocks)
                (map (fun r : Z * cpt => nthz (anti_index indexes) (fst r) 0) (hull_rows indexes blocks))
                (length blocks) (max_fuel blocks) (snd (vec_init indexes blocks))) as (_ & _ & _ & Lr & _).
  rewrite Lr. unfold vec_init. cbn [snd v_res]. rewrite map_length, combine_length.
  rewrite offsets_length, map_length. apply Nat.min_id.
Qed.

(* Full: one vectorised call = the per-object loop on every block, for any repeat-free non-negative request
   list; the hypothesis excludes blocks on which the per-object loop itself exhausts its iteration bound
   (never the case for a hull: C14_chrystal_on_every_hull) *)
Theorem chrystal_vec_correct indexes blocks :
  NoDup indexes -> (forall j, In j indexes -> 0 <= j) -> length indexes = length blocks ->
  (forall b, In b blocks -> chrystal b <> CFuel) ->
  chrystal_vec indexes blocks = map chrystal blocks.
Proof.
  intros ND NN HL NF. apply (nth_ext _ _ CEmpty CEmpty).
  - rewrite chrystal_vec_length, map_length. reflexivity.
  - intros i Hi. rewrite chrystal_vec_length in Hi.
    destruct (nth_error blocks i) as [b|] eqn:Eb; [|apply nth_error_None in Eb; lia].
    destruct (nth_error indexes i) as [l|] eqn:El; [|apply nth_error_None in El; lia].
    pose proof (chrystal_vec_k indexes blocks ND NN HL i l b El Eb (NF b (nth_error_In _ _ Eb))) as H.
    unfold kz, nthz in H. rewrite Nat2Z.id in H. rewrite H.
    change CEmpty with (chrystal []). rewrite map_nth. f_equal. symmetry. apply nth_error_nth. exact Eb.
Qed.

(* renumbering the request list does not change the vectorised result; and position by position it is a
   function of that position's block only (request order, subsets, other objects) *)
Corollary chrystal_vec_renumber (f : Z -> Z) indexes blocks :
  (forall a c, f a = f c -> a = c) -> (forall a, 0 <= a -> 0 <= f a) ->
  NoDup indexes -> (forall j, In j indexes -> 0 <= j) -> length indexes = length blocks ->
  (forall b, In b blocks -> chrystal b <> CFuel) ->
  chrystal_vec (map f indexes) blocks = chrystal_vec indexes blocks.
Proof.
  intros Inj Pos ND NN HL NF. rewrite !chrystal_vec_correct; auto.
  - apply Injective_map_NoDup; assumption.
  - intros j Hj. apply in_map_iff in Hj. destruct Hj as [a [<- Ha]]. apply Pos, NN, Ha.
  - rewrite map_length. exact HL.
Qed.

Corollary mec_rows_vec_correct (rows : list (Z * list cpt)) :
  NoDup (map fst rows) -> (forall j, In j (map fst rows) -> 0 <= j) ->
  (forall r, In r rows -> chrystal (snd r) <> CFuel) ->
  mec_rows_vec rows = mec_rows rows.
Proof.
  intros ND NN NF. unfold mec_rows_vec, mec_rows. rewrite chrystal_vec_correct; auto.
  - rewrite map_map. reflexivity.
  - rewrite !map_length. reflexivity.
  - intros b Hb. apply in_map_iff in Hb. destruct Hb as [r [<- Hr]]. apply NF, Hr.
Qed.
