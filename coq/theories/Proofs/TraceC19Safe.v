(* C19 — trace_outlines: writes are bounded by output_end unconditionally, and when every traced
   object lies strictly inside the (padded) array no read of labels leaves it.  Every fuel. *)
From Coq Require Import ZArith List Bool Lia ZifyBool.
From Centro Require Import Base.ArrC19 Model.TraceC19.
Import ListNotations.
Open Scope Z_scope.

Lemma land7 : forall x, 0 <= Z.land x 7 < 8.
Proof.
  intros x. change 7 with (Z.ones 3). rewrite Z.land_ones by lia.
  change (2 ^ 3) with 8. apply Z.mod_pos_bound. lia.
Qed.

Section Trace.
Variables (labels strides newdir T : list Z).
Hypothesis Hs : zlen strides = 8.
Hypothesis Hn : zlen newdir = 8.
(* all 8 neighbours of a cell of a traced object are cells *)
Hypothesis Hin : forall p v st, rd labels p = Some v -> In v T -> In st strides -> 0 <= p + st < zlen labels.

Lemma probe_ok : forall ks loc lab dir, rd labels loc = Some lab -> In lab T ->
  exists r, probe labels strides loc lab dir ks = Some r /\
    match r with Some (e, tl) => 0 <= e < 8 /\ rd labels tl = Some lab | None => True end.
Proof.
  induction ks as [|k t IH]; intros loc lab dir Hl Hz; cbn [probe].
  - exists None. split; [reflexivity|exact I].
  - pose proof (land7 (k + dir)) as He.
    destruct (rd_ok _ strides (Z.land (k + dir) 7) ltac:(lia)) as [st Est]. rewrite Est. cbn [bind].
    apply rd_some in Est. destruct Est as [_ Ist].
    destruct (rd_ok _ labels (loc + st) (Hin loc lab st Hl Hz Ist)) as [lv Elv]. rewrite Elv. cbn [bind].
    destruct (lv =? lab) eqn:E.
    + eexists; split; [reflexivity|]. split; [lia|]. assert (lv = lab) by lia. subst. exact Elv.
    + apply IH; assumption.
Qed.

Lemma walk_ok : forall fuel first lab loc dir out oidx oend,
  rd labels loc = Some lab -> In lab T -> zlen out = oend -> 0 <= oidx ->
  exists out' oidx' over, walk fuel labels strides newdir first lab loc dir out oidx oend = Some (out', oidx', over) /\
    zlen out' = oend /\ oidx <= oidx'.
Proof.
  induction fuel as [|f IH]; intros first lab loc dir out oidx oend Hl Hz Ho Hi; cbn [walk].
  - exists out, oidx, false. repeat split; auto; lia.
  - destruct (oidx <? oend) eqn:E; [|exists out, oidx, true; repeat split; auto; lia].
    destruct (wr_ok _ out oidx loc ltac:(lia)) as [out' [Ew Lw]]. rewrite Ew. cbn [bind].
    destruct (probe_ok [0;1;2;3;4;5;6;7] loc lab dir Hl Hz) as [r [Er Hr]]. rewrite Er. cbn [bind].
    destruct r as [[e tl]|].
    + destruct Hr as [He Htl]. destruct (tl =? first); [exists out', (oidx + 1), false; repeat split; auto; lia|].
      destruct (rd_ok _ newdir e ltac:(lia)) as [nd End]. rewrite End. cbn [bind].
      destruct (IH first lab tl nd out' (oidx + 1) oend Htl Hz ltac:(lia) ltac:(lia)) as (o2 & i2 & ov & E2 & L2 & M2).
      exists o2, i2, ov. repeat split; auto; lia.
    + exists out', (oidx + 1), false. repeat split; auto; lia.
Qed.

End Trace.

Theorem trace_safe : forall fuel labels firsts strides newdir out counts,
  kernel_pre_trace labels firsts strides (zlen counts) = true ->
  trace_outlines fuel labels firsts strides newdir out counts <> None.
Proof.
  intros fuel labels firsts strides newdir out counts Hp. unfold trace_outlines.
  destruct ((zlen strides =? 8) && (zlen newdir =? 8)) eqn:E8; [|discriminate].
  assert (Hs : zlen strides = 8) by lia. assert (Hn : zlen newdir = 8) by lia.
  unfold kernel_pre_trace in Hp.
  apply andb_prop in Hp. destruct Hp as [Hp Hcells]. apply andb_prop in Hp. destruct Hp as [Hc Hf].
  assert (Hin : forall p v st, rd labels p = Some v -> In v (traced labels firsts) -> In st strides ->
                0 <= p + st < zlen labels).
  { intros p v st Hr Hv Hst. pose proof (rd_some _ _ _ _ Hr) as [Hp _].
    assert (Ip : In p (zrange 0 (zlen labels))) by (apply In_zrange; lia).
    apply (forallb_In _ _ _ _ Hcells) in Ip. rewrite Hr in Ip.
    apply orb_prop in Ip. destruct Ip as [Ip|Ip].
    { exfalso. apply negb_true_iff in Ip. unfold memb in Ip.
      assert (existsb (fun x => x =? v) (traced labels firsts) = true) by (apply existsb_exists; exists v; split; [assumption|lia]).
      congruence. }
    apply (forallb_In _ _ _ _ Ip) in Hst. apply inb_true in Hst. exact Hst. }
  destruct (foldM_inv _ _
              (fun s => zlen (t_out s) = zlen out /\ zlen (t_counts s) = zlen counts /\ 0 <= t_oidx s)
              (fun k => 0 <= k < zlen firsts)
              (trace_one fuel labels firsts strides newdir) (zrange 0 (zlen firsts)) (mkt out 0 counts false))
    as [r [E _]].
  - cbn. repeat split; lia.
  - apply Forall_forall. intros k Hk. apply In_zrange in Hk. lia.
  - intros s k (Lo & Lc & Li) Hk. unfold trace_one. destruct (t_over s); [exists s; repeat split; auto|].
    destruct (rd_ok _ firsts k Hk) as [f0 Ef]. rewrite Ef. cbn [bind].
    apply rd_some in Ef. destruct Ef as [_ If0]. pose proof (forallb_In _ _ _ _ Hf If0) as Rf.
    apply inb_true in Rf.
    destruct (rd_ok _ labels f0 Rf) as [lab El]. rewrite El. cbn [bind].
    assert (Tl : In lab (traced labels firsts)).
    { unfold traced. apply in_flat_map. exists f0. split; [assumption|]. rewrite El. left. reflexivity. }
    destruct (walk_ok labels strides newdir (traced labels firsts) Hs Hn Hin fuel f0 lab f0 2 (t_out s) (t_oidx s)
                (zlen (t_out s)) El Tl eq_refl Li) as (o2 & i2 & ov & E2 & L2 & M2).
    rewrite E2. cbn [bind]. destruct ov.
    + eexists; split; [reflexivity|]. cbn. repeat split; lia.
    + destruct (wr_ok _ (t_counts s) k (i2 - t_oidx s) ltac:(lia)) as [c' [Ec Lc']]. rewrite Ec. cbn [bind].
      eexists; split; [reflexivity|]. cbn. repeat split; lia.
  - rewrite E. discriminate.
Qed.

(* 4x4 padded array with a 2x2 object labelled 5; strides for row length 4 in get_outline_pts' order *)
Example trace_pre_example :
  let labels := [0;0;0;0; 0;5;5;0; 0;5;5;0; 0;0;0;0] in
  let strides := [-1; -5; -4; -3; 1; 5; 4; 3] in
  kernel_pre_trace labels [5] strides 1 = true /\
  match trace_outlines 20 labels [5] strides [6;0;0;2;2;4;4;6] [0;0;0;0;0;0;0;0] [0] with
  | Some s => t_over s = false /\ t_oidx s <= 8
  | None => False
  end.
Proof. vm_compute. repeat split; discriminate. Qed.

(* an object on the border of an un-padded array: the accessor reports the read *)
Example trace_pre_needed :
  trace_outlines 20 [5;5; 5;5] [0] [-1; -3; -2; -1; 1; 3; 2; 1] [6;0;0;2;2;4;4;6] [0;0;0;0;0;0;0;0] [0] = None.
Proof. vm_compute. reflexivity. Qed.
