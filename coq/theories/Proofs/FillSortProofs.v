(* C14 — the bookkeeping phases of the scan-line model (lexsort, runs of equal (label, row), first
   and last entry of a run, ceil/floor) proved for all inputs: a row (i, j, l) is emitted exactly
   when, among ALL entries of label l and row i, one lies at or left of column j and one at or
   right of it. *)
From Coq Require Import ZArith List Bool Lia ZifyBool Sorted.
From Centro Require Import Base.Sx Model.HullFill Spec.FillSpec Proofs.FillProofs Proofs.FillEdgeProofs.
Import ListNotations.
Open Scope Z_scope.

Definition valid (e : ent) : Prop := 0 < e_jd e.
Definition key_eq (a b : ent) : Prop := e_l a = e_l b /\ e_i a = e_i b.
Definition key_lt (a b : ent) : Prop := e_l a < e_l b \/ (e_l a = e_l b /\ e_i a < e_i b).
Definition qle (a b : ent) : Prop := e_jn a * e_jd b <= e_jn b * e_jd a.
Definition le (a b : ent) : Prop := ent_le a b = true.

Lemma ent_le_spec a b : le a b <-> key_lt a b \/ (key_eq a b /\ qle a b).
Proof.
  unfold le, ent_le, key_lt, key_eq, qle.
  destruct (e_l a <? e_l b) eqn:E1; [split; [intros _; left; lia|reflexivity]|].
  destruct (e_l b <? e_l a) eqn:E2; [split; [discriminate|lia]|].
  destruct (e_i a <? e_i b) eqn:E3; [split; [intros _; left; lia|reflexivity]|].
  destruct (e_i b <? e_i a) eqn:E4; [split; [discriminate|lia]|].
  split; [intro H; right; lia|intros [H|H]; lia].
Qed.

Lemma le_total a b : ~ le a b -> le b a.
Proof.
  rewrite !ent_le_spec. unfold key_lt, key_eq, qle. intro N.
  destruct (Z_lt_le_dec (e_l a) (e_l b)); [exfalso; apply N; lia|].
  destruct (Z_lt_le_dec (e_l b) (e_l a)); [left; lia|].
  destruct (Z_lt_le_dec (e_i a) (e_i b)); [exfalso; apply N; lia|].
  destruct (Z_lt_le_dec (e_i b) (e_i a)); [left; lia|].
  right. split; [lia|].
  destruct (Z_le_gt_dec (e_jn a * e_jd b) (e_jn b * e_jd a)); [exfalso; apply N; right; lia|lia].
Qed.

Lemma qle_trans a b c : valid a -> valid b -> valid c -> qle a b -> qle b c -> qle a c.
Proof.
  unfold valid, qle. intros Va Vb Vc H1 H2.
  apply Z.mul_le_mono_pos_r with (p := e_jd b); [exact Vb|].
  assert (T1 : e_jn a * e_jd b * e_jd c <= e_jn b * e_jd a * e_jd c) by (apply Z.mul_le_mono_nonneg_r; lia).
  assert (T2 : e_jn b * e_jd c * e_jd a <= e_jn c * e_jd b * e_jd a) by (apply Z.mul_le_mono_nonneg_r; lia).
  lia.
Qed.

Lemma le_trans a b c : valid a -> valid b -> valid c -> le a b -> le b c -> le a c.
Proof.
  intros Va Vb Vc. rewrite !ent_le_spec. unfold key_lt, key_eq.
  intros [H1|[K1 Q1]] [H2|[K2 Q2]].
  - left. lia.
  - left. lia.
  - left. lia.
  - right. split; [lia|]. apply (qle_trans a b c); assumption.
Qed.

(* ---------------------------------------------------------------- insertion sort *)
Lemma insert_In x l y : In y (insert_ent x l) <-> y = x \/ In y l.
Proof.
  induction l as [|z t IH]; cbn [insert_ent In]; [intuition|].
  destruct (ent_le x z); cbn [In]; [intuition|]. rewrite IH. intuition.
Qed.

Lemma sort_In l y : In y (sort_ents l) <-> In y l.
Proof.
  induction l as [|x t IH]; cbn [sort_ents fold_right In]; [tauto|].
  fold (sort_ents t). rewrite insert_In, IH. intuition.
Qed.

Lemma insert_sorted x l : valid x -> Forall valid l ->
  StronglySorted le l -> StronglySorted le (insert_ent x l).
Proof.
  intros Vx Vl S. induction S as [|z t St IH Fz]; cbn [insert_ent].
  - constructor; constructor.
  - inversion Vl as [|? ? Vz Vt]; subst.
    destruct (ent_le x z) eqn:E.
    + constructor; [constructor; assumption|].
      constructor; [exact E|].
      rewrite Forall_forall in *. intros w Iw. eapply (le_trans x z w); auto.
    + constructor; [apply IH; exact Vt|].
      rewrite Forall_forall in *. intros w Iw. apply insert_In in Iw. destruct Iw as [->|Iw].
      * apply le_total. unfold le. rewrite E. discriminate.
      * apply Fz. exact Iw.
Qed.

Lemma sort_sorted l : Forall valid l -> StronglySorted le (sort_ents l).
Proof.
  induction l as [|x t IH]; intro V; cbn [sort_ents fold_right]; [constructor|].
  fold (sort_ents t). inversion V as [|? ? Vx Vt]; subst.
  apply insert_sorted; [exact Vx| |apply IH; exact Vt].
  rewrite Forall_forall in Vt. rewrite Forall_forall. intros y Iy. apply Vt. apply (proj1 (sort_In t y)). exact Iy.
Qed.

(* ---------------------------------------------------------------- runs *)
Definition lower (e : ent) (i j l : Z) : Prop := e_l e = l /\ e_i e = i /\ e_jn e <= j * e_jd e.
Definition upper (e : ent) (i j l : Z) : Prop := e_l e = l /\ e_i e = i /\ j * e_jd e <= e_jn e.

Lemma run_In first last i j l : valid first -> valid last ->
  (In (i, j, l) (map (fun j => (e_i first, j, e_l first)) (run_js (e_jn first) (e_jd first) (e_jn last) (e_jd last)))
   <-> e_l first = l /\ e_i first = i /\ e_jn first <= j * e_jd first /\ j * e_jd last <= e_jn last).
Proof.
  intros Vf Vl. rewrite in_map_iff. split.
  - intros [j' [E I]]. inversion E; subst. apply run_js_spec in I; [|exact Vf|exact Vl]. tauto.
  - intros (El & Ei & A & B). exists j. split; [subst; reflexivity|].
    apply run_js_spec; [exact Vf|exact Vl|tauto].
Qed.

Lemma emit_sound : forall rest first last i j l,
  valid first -> valid last -> Forall valid rest -> key_eq first last ->
  In (i, j, l) (emit_runs first last rest) ->
  (exists e0, (e0 = first \/ In e0 rest) /\ lower e0 i j l) /\
  (exists e1, (e1 = last \/ In e1 rest) /\ upper e1 i j l).
Proof.
  induction rest as [|x t IH]; intros first last i j l Vf Vl Vr K I; cbn [emit_runs] in I.
  - apply run_In in I; [|exact Vf|exact Vl]. destruct I as (El & Ei & A & B). unfold key_eq in K.
    split; [exists first|exists last]; (split; [left; reflexivity|]); unfold lower, upper; lia.
  - apply Forall_cons_iff in Vr. destruct Vr as [Vx Vt].
    destruct ((e_l x =? e_l first) && (e_i x =? e_i first)) eqn:Same.
    + destruct (IH first x i j l Vf Vx Vt ltac:(unfold key_eq; lia) I) as [[e0 [I0 L0]] [e1 [I1 U1]]].
      split; [exists e0|exists e1]; (split; [|assumption]).
      * destruct I0; [left; assumption|right; right; assumption].
      * destruct I1 as [->|I1]; [right; left; reflexivity|right; right; assumption].
    + apply in_app_or in I. destruct I as [I|I].
      * apply run_In in I; [|exact Vf|exact Vl]. destruct I as (El & Ei & A & B). unfold key_eq in K.
        split; [exists first|exists last]; (split; [left; reflexivity|]); unfold lower, upper; lia.
      * destruct (IH x x i j l Vx Vx Vt ltac:(unfold key_eq; lia) I) as [[e0 [I0 L0]] [e1 [I1 U1]]].
        split; [exists e0|exists e1]; (split; [|assumption]).
        -- destruct I0 as [->|I0]; [right; left; reflexivity|right; right; assumption].
        -- destruct I1 as [->|I1]; [right; left; reflexivity|right; right; assumption].
Qed.

Lemma sorted_key_ge last rest e : StronglySorted le (last :: rest) -> In e rest ->
  key_lt last e \/ (key_eq last e /\ qle last e).
Proof.
  intros S I. inversion S as [|? ? _ F]; subst. rewrite Forall_forall in F.
  apply ent_le_spec. apply F. exact I.
Qed.

Lemma emit_complete : forall rest first last i j l,
  valid first -> valid last -> Forall valid rest -> key_eq first last -> qle first last ->
  StronglySorted le (last :: rest) ->
  (lower first i j l \/ exists e0, In e0 rest /\ lower e0 i j l) ->
  (upper last i j l \/ exists e1, In e1 rest /\ upper e1 i j l) ->
  In (i, j, l) (emit_runs first last rest).
Proof.
  induction rest as [|x t IH]; intros first last i j l Vf Vl Vr K Q S Lo Up; cbn [emit_runs].
  - destruct Lo as [Lo|[e0 [[] _]]]. destruct Up as [Up|[e1 [[] _]]].
    apply run_In; [exact Vf|exact Vl|]. unfold lower, upper in *. lia.
  - apply Forall_cons_iff in Vr. destruct Vr as [Vx Vt].
    assert (S' : StronglySorted le (x :: t)) by (inversion S; assumption).
    assert (Lx : key_lt last x \/ (key_eq last x /\ qle last x)).
    { apply (sorted_key_ge last (x :: t) x S). left. reflexivity. }
    destruct ((e_l x =? e_l first) && (e_i x =? e_i first)) eqn:Same.
    + (* x continues the run *)
      assert (Kx : key_eq first x) by (unfold key_eq; lia).
      assert (Qlx : qle last x).
      { destruct Lx as [Lt|[_ Qx]]; [unfold key_lt, key_eq in *; lia|exact Qx]. }
      assert (Qfx : qle first x) by (apply (qle_trans first last x); assumption).
      apply (IH first x i j l Vf Vx Vt Kx Qfx S').
      * destruct Lo as [Lo|[e0 [[<-|I0] L0]]].
        -- left. exact Lo.
        -- left. unfold lower, qle, key_eq, valid in *. destruct L0 as (A & B & C). repeat split; try lia.
           (* first.j <= x.j <= j *)
           apply Z.mul_le_mono_pos_r with (p := e_jd x); [exact Vx|].
           assert (e_jn first * e_jd x <= e_jn x * e_jd first) by exact Qfx.
           assert (e_jn x * e_jd first <= j * e_jd x * e_jd first) by (apply Z.mul_le_mono_nonneg_r; lia).
           lia.
        -- right. exists e0. tauto.
      * destruct Up as [Up|[e1 [[<-|I1] U1]]].
        -- left. unfold upper, qle, key_eq, valid in *. destruct Up as (A & B & C). repeat split; try lia.
           apply Z.mul_le_mono_pos_r with (p := e_jd last); [exact Vl|].
           assert (e_jn last * e_jd x <= e_jn x * e_jd last) by exact Qlx.
           assert (j * e_jd last * e_jd x <= e_jn last * e_jd x) by (apply Z.mul_le_mono_nonneg_r; lia).
           lia.
        -- left. exact U1.
        -- right. exists e1. tauto.
    + (* x opens a new run: every later entry has a strictly larger key than first/last *)
      assert (Ltx : key_lt last x).
      { destruct Lx as [Lt|[Kx _]]; [exact Lt|unfold key_eq in *; lia]. }
      assert (Later : forall e, In e (x :: t) -> key_lt last e).
      { intros e [<-|Ie]; [exact Ltx|].
        destruct (sorted_key_ge x t e S' Ie) as [Lt|[Ke _]]; unfold key_lt, key_eq in *; lia. }
      apply in_or_app.
      destruct (Z.eq_dec (e_l first) l) as [El|Nl]; [destruct (Z.eq_dec (e_i first) i) as [Ei|Ni]|].
      * (* the requested (l, i) is this run's key: both witnesses must be first / last *)
        left. apply run_In; [exact Vf|exact Vl|].
        assert (L0 : lower first i j l).
        { destruct Lo as [Lo|[e0 [I0 L0]]]; [exact Lo|].
          specialize (Later e0 I0). unfold lower, key_lt, key_eq in *. lia. }
        assert (U0 : upper last i j l).
        { destruct Up as [Up|[e1 [I1 U1]]]; [exact Up|].
          specialize (Later e1 I1). unfold upper, key_lt, key_eq in *. lia. }
        unfold lower, upper in *. lia.
      * right. apply (IH x x i j l Vx Vx Vt ltac:(unfold key_eq; lia) ltac:(unfold qle; lia) S').
        -- destruct Lo as [Lo|[e0 [[<-|I0] L0]]]; [unfold lower in Lo; lia|left; exact L0|right; exists e0; tauto].
        -- destruct Up as [Up|[e1 [[<-|I1] U1]]]; [unfold upper, key_eq in *; lia|left; exact U1|right; exists e1; tauto].
      * right. apply (IH x x i j l Vx Vx Vt ltac:(unfold key_eq; lia) ltac:(unfold qle; lia) S').
        -- destruct Lo as [Lo|[e0 [[<-|I0] L0]]]; [unfold lower in Lo; lia|left; exact L0|right; exists e0; tauto].
        -- destruct Up as [Up|[e1 [[<-|I1] U1]]]; [unfold upper, key_eq in *; lia|left; exact U1|right; exists e1; tauto].
Qed.

(* ---------------------------------------------------------------- all entries are valid *)
Definition all_entries (objs : list (Z * list hpt)) : list ent :=
  flat_map (fun o => fst (object_entries o)) objs ++ flat_map (fun o => snd (object_entries o)) objs.

Lemma edge_entries_valid l p q e :
  In e (fst (edge_entries l p q)) \/ In e (snd (edge_entries l p q)) -> valid e.
Proof.
  unfold edge_entries, valid.
  destruct (Z.abs (fst p - fst q) + 1 =? 1) eqn:H1; cbn [fst snd].
  - intros [[<-|[<-|[]]]|[]]; cbn [e_jd]; lia.
  - intros [[]|I]. apply in_map_iff in I. destruct I as [t [<- _]]. cbn [e_jd]. lia.
Qed.

Lemma object_entries_In o e :
  (In e (fst (object_entries o)) <-> exists pq, In pq (poly_edges (snd o)) /\ In e (fst (edge_entries (fst o) (fst pq) (snd pq)))) /\
  (In e (snd (object_entries o)) <-> exists pq, In pq (poly_edges (snd o)) /\ In e (snd (edge_entries (fst o) (fst pq) (snd pq)))).
Proof.
  unfold object_entries. induction (poly_edges (snd o)) as [|pq t IH]; cbn [fold_right fst snd In].
  - split; split; try tauto; intros [? [[] _]].
  - destruct IH as [IH1 IH2]. split; rewrite in_app_iff.
    + rewrite IH1. split.
      * intros [I|[r [Ir Ie]]]; [exists pq; tauto|exists r; tauto].
      * intros [r [[<-|Ir] Ie]]; [left; exact Ie|right; exists r; tauto].
    + rewrite IH2. split.
      * intros [I|[r [Ir Ie]]]; [exists pq; tauto|exists r; tauto].
      * intros [r [[<-|Ir] Ie]]; [left; exact Ie|right; exists r; tauto].
Qed.

Lemma all_entries_In objs e :
  In e (all_entries objs) <->
  exists o pq, In o objs /\ In pq (poly_edges (snd o)) /\
               (In e (fst (edge_entries (fst o) (fst pq) (snd pq))) \/ In e (snd (edge_entries (fst o) (fst pq) (snd pq)))).
Proof.
  unfold all_entries. rewrite in_app_iff, !in_flat_map. split.
  - intros [[o [Io Ie]]|[o [Io Ie]]].
    + apply (proj1 (object_entries_In o e)) in Ie. destruct Ie as [pq [Ipq Ie]]. exists o, pq. tauto.
    + apply (proj2 (object_entries_In o e)) in Ie. destruct Ie as [pq [Ipq Ie]]. exists o, pq. tauto.
  - intros [o [pq [Io [Ipq [Ie|Ie]]]]].
    + left. exists o. split; [exact Io|]. apply (proj1 (object_entries_In o e)). exists pq. tauto.
    + right. exists o. split; [exact Io|]. apply (proj2 (object_entries_In o e)). exists pq. tauto.
Qed.

Lemma all_entries_valid objs : Forall valid (all_entries objs).
Proof.
  rewrite Forall_forall. intros e I. apply all_entries_In in I.
  destruct I as [o [pq [_ [_ Ie]]]]. eapply edge_entries_valid. exact Ie.
Qed.

Lemma fill_model_unfold objs :
  fill_model objs = match sort_ents (all_entries objs) with [] => [] | x :: t => emit_runs x x t end.
Proof.
  unfold fill_model, all_entries. rewrite !flat_map_concat_map, !map_map. reflexivity.
Qed.

(* the bookkeeping theorem *)
Theorem fill_model_rows objs i j l :
  In (i, j, l) (fill_model objs) <->
  (exists e0, In e0 (all_entries objs) /\ lower e0 i j l) /\
  (exists e1, In e1 (all_entries objs) /\ upper e1 i j l).
Proof.
  rewrite fill_model_unfold.
  pose proof (all_entries_valid objs) as V.
  assert (Vs : Forall valid (sort_ents (all_entries objs))).
  { rewrite Forall_forall in V. rewrite Forall_forall. intros e I. apply V. apply (proj1 (sort_In _ e)). exact I. }
  pose proof (sort_sorted _ V) as S.
  assert (Mem : forall e, In e (sort_ents (all_entries objs)) <-> In e (all_entries objs)) by (intro; apply sort_In).
  destruct (sort_ents (all_entries objs)) as [|x t].
  - split; [intros []|]. intros [[e0 [I0 _]] _]. apply Mem in I0. destruct I0.
  - inversion Vs as [|? ? Vx Vt]; subst.
    assert (Kxx : key_eq x x) by (unfold key_eq; lia).
    split.
    + intro I. destruct (emit_sound t x x i j l Vx Vx Vt Kxx I) as [[e0 [I0 L0]] [e1 [I1 U1]]].
      split; [exists e0|exists e1]; (split; [apply Mem|assumption]).
      * destruct I0 as [->|I0]; [left; reflexivity|right; exact I0].
      * destruct I1 as [->|I1]; [left; reflexivity|right; exact I1].
    + intros [[e0 [I0 L0]] [e1 [I1 U1]]].
      apply (emit_complete t x x i j l Vx Vx Vt Kxx ltac:(unfold qle; lia) S).
      * apply Mem in I0. destruct I0 as [<-|I0]; [left; exact L0|right; exists e0; tauto].
      * apply Mem in I1. destruct I1 as [<-|I1]; [left; exact U1|right; exists e1; tauto].
Qed.
