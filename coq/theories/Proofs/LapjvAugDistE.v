(* C01 — phase 4 for the reference variant over prices in Fin | -inf (inputs with one-candidate rows, k >= 1 passes):
   Proofs.LapjvAugDistR lifted from Inv to InvE.  A reserved (-inf priced) column j has reduced cost +inf for every row:
   aug_init_row puts a reserved candidate of the free row on to_do with d = +inf; aug_min, started from umin = +inf, appends such
   a column to its list while umin is still +inf and drops it at the first finite candidate; aug_relax skips it (h = +inf is
   never < d).  The loop-head invariant K therefore speaks about finite-priced ("live") columns only, plus: reserved columns have
   d = +inf, ready ++ scan columns are live.  That a rebuild always finds a live column with finite d is the Hall step over
   L = r :: rows of ready ++ rows of reserved columns against C = ready ++ reserved (closed under candidates by InvE). *)
From Coq Require Import ZArith List Bool Lia ZifyBool Arith.
From Centro Require Import Base.Sx Model.Lapjv Spec.Lapjv Proofs.LapjvPhases Proofs.LapjvArr Proofs.LapjvArrExt Proofs.LapjvAugMarks
  Proofs.LapjvAugFlip Proofs.LapjvAugPrice Proofs.LapjvAugPriceExt Proofs.LapjvFixedPerm Proofs.LapjvAugDist Proofs.LapjvAugDistR Proofs.LapjvAugTotalR.
Import ListNotations.
Open Scope Z_scope.

Section DistE.
Variables (r n : nat) (rows : list (list (nat * ext))) (x y : list nat) (v : list ext).
Hypothesis Rfin : forall i j c, In (j, c) (row rows i) -> (j < n)%nat /\ exists z, c = Fin z.
Hypothesis Rnodup : forall i, NoDup (map fst (row rows i)).
Hypothesis HInvE : InvE n rows x y v.

Notation tight := (LapjvAugDist.tight r n rows y v).
Notation fin := LapjvAugDistR.fin.

Lemma live_or_res j : (j < n)%nat -> finp v j \/ gete v j = NInf.
Proof. intros Hj. destruct HInvE as [_ [_ [[_ P] _]]]. apply P; auto. Qed.

(* the rebuild: to_do columns have finite d or d = +inf (reserved candidates of the free row); the minimum starts at +inf *)
Lemma aug_min_distE d done : forall todo um acc,
  (forall j, In j todo -> fin d j \/ gete d j = PInf) ->
  ((um = PInf /\ forall a, In a acc -> gete d a = PInf) \/ exists m, um = Fin m /\ forall a, In a acc -> fin d a /\ dz d a = m) ->
  (um = PInf /\ fst (aug_min r n d done todo um acc) = PInf /\
     forall j, In j todo -> getn done j n <> r -> gete d j = PInf) \/
  exists m', fst (aug_min r n d done todo um acc) = Fin m' /\
    (forall a, In a (snd (aug_min r n d done todo um acc)) -> fin d a /\ dz d a = m') /\
    (forall j, In j todo -> getn done j n <> r -> fin d j -> m' <= dz d j) /\
    (forall m, um = Fin m -> m' <= m) /\
    (forall a, In a (snd (aug_min r n d done todo um acc)) -> In a acc \/ (In a todo /\ getn done a n <> r)).
Proof.
  induction todo as [|j tr IH]; intros um acc Ft Hu; cbn [aug_min].
  - cbn [fst snd]. destruct Hu as [[-> Ha]|[m [-> Ha]]].
    + left. split; auto. split; auto. intros ? [].
    + right. exists m. split; auto. split; auto. split; [intros ? []|]. split; [intros m0 E0; inversion E0; lia|auto].
  - assert (Ft' : forall k, In k tr -> fin d k \/ gete d k = PInf) by (intros; apply Ft; right; auto).
    destruct (Nat.eqb_spec (getn done j n) r) as [E|NE].
    + destruct (IH um acc Ft' Hu) as [[A [B C]]|[m' [A [B [C [D F]]]]]].
      * left. split; auto. split; auto. intros k [<-|Hk] Nk; [contradiction|auto].
      * right. exists m'. split; auto. split; auto. split; [intros k [<-|Hk] Nk; [contradiction|auto]|]. split; auto.
        intros a Ha. destruct (F a Ha) as [H|[H1 H2]]; [left; auto|right; split; auto; right; auto].
    + destruct (Ft j (or_introl eq_refl)) as [[z Hz]|Hp].
      * (* finite entry *)
        assert (Dz : dz d j = z) by (unfold dz; rewrite Hz; auto). rewrite Hz.
        assert (New : exists m', fst (aug_min r n d done tr (Fin z) [j]) = Fin m' /\
                  (forall a, In a (snd (aug_min r n d done tr (Fin z) [j])) -> fin d a /\ dz d a = m') /\
                  (forall k, In k (j :: tr) -> getn done k n <> r -> fin d k -> m' <= dz d k) /\ m' <= z /\
                  (forall a, In a (snd (aug_min r n d done tr (Fin z) [j])) -> In a (j :: tr) /\ getn done a n <> r)).
        { assert (Hs : exists m, Fin z = Fin m /\ forall a, In a [j] -> fin d a /\ dz d a = m)
            by (exists z; split; auto; intros a [<-|[]]; split; auto; exists z; auto).
          destruct (IH (Fin z) [j] Ft' (or_intror Hs)) as [[A _]|[m' [A [B [C [D F]]]]]]; [discriminate|].
          exists m'. split; auto. split; auto. pose proof (D z eq_refl). split; [intros k [<-|Hk] Nk Fk; [lia|auto]|]. split; [lia|].
          intros a Ha. destruct (F a Ha) as [[<-|[]]|[H1 H2]]; split; auto; [left; auto|right; auto]. }
        destruct Hu as [[-> Ha]|[m [-> Ha]]].
        -- cbn [eleb eltb]. destruct New as [m' [A [B [C [D F]]]]]. right. exists m'. split; auto. split; auto. split; auto.
           split; [discriminate|]. intros a Ha'. right. apply F; auto.
        -- cbn [eleb eltb]. destruct (Z.leb_spec z m) as [L|L].
           ++ destruct (Z.ltb_spec z m) as [L2|L2].
              ** destruct New as [m' [A [B [C [D F]]]]]. right. exists m'. split; auto. split; auto. split; auto.
                 split; [intros m0 E0; inversion E0; lia|]. intros a Ha'. right. apply F; auto.
              ** assert (Ezm : z = m) by lia. clear Dz. subst z. assert (Dz : dz d j = m) by (unfold dz; rewrite Hz; auto).
                 assert (Hs : exists m0, Fin m = Fin m0 /\ forall a, In a (acc ++ [j]) -> fin d a /\ dz d a = m0).
                 { exists m. split; auto. intros a Hin. apply in_app_iff in Hin as [Hin|[E0|[]]]; [apply Ha; auto|]. rewrite <- E0. split; [exists m; exact Hz|exact Dz]. }
                 destruct (IH (Fin m) (acc ++ [j]) Ft' (or_intror Hs)) as [[A _]|[m' [A [B [C [D F]]]]]]; [discriminate|].
                 right. exists m'. split; auto. split; auto. pose proof (D m eq_refl).
                 split; [intros k [<-|Hk] Nk Fk; [lia|auto]|]. split; auto.
                 intros a Ha'. destruct (F a Ha') as [H1|[H1 H2]].
                 --- apply in_app_iff in H1 as [H1|[<-|[]]]; [left; auto|right; split; auto; left; auto].
                 --- right. split; auto. right. auto.
           ++ destruct (IH (Fin m) acc Ft' (or_intror (ex_intro _ m (conj eq_refl Ha)))) as [[A _]|[m' [A [B [C [D F]]]]]]; [discriminate|].
              right. exists m'. split; auto. split; auto. pose proof (D m eq_refl).
              split; [intros k [<-|Hk] Nk Fk; [lia|auto]|]. split; auto.
              intros a Ha'. destruct (F a Ha') as [H1|[H1 H2]]; [left; auto|right; split; auto; right; auto].
      * (* an entry with d = +inf *)
        rewrite Hp. assert (NF : ~ fin d j) by (intros [z Hz]; congruence).
        destruct Hu as [[-> Ha]|[m [-> Ha]]].
        -- cbn [eleb eltb].
           assert (Hs : forall a, In a (acc ++ [j]) -> gete d a = PInf) by (intros a Hin; apply in_app_iff in Hin as [Hin|[<-|[]]]; auto).
           destruct (IH PInf (acc ++ [j]) Ft' (or_introl (conj eq_refl Hs))) as [[A [B C]]|[m' [A [B [C [D F]]]]]].
           ++ left. split; auto. split; auto. intros k [<-|Hk] Nk; auto.
           ++ right. exists m'. split; auto. split; auto. split; [intros k [<-|Hk] Nk Fk; [contradiction|auto]|]. split; [discriminate|].
              intros a Ha'. destruct (B a Ha') as [Fa _]. destruct (F a Ha') as [H1|[H1 H2]].
              ** apply in_app_iff in H1 as [H1|[<-|[]]]; [left; auto|contradiction].
              ** right. split; auto. right. auto.
        -- cbn [eleb eltb].
           destruct (IH (Fin m) acc Ft' (or_intror (ex_intro _ m (conj eq_refl Ha)))) as [[A _]|[m' [A [B [C [D F]]]]]]; [discriminate|].
           right. exists m'. split; auto. split; auto. split; [intros k [<-|Hk] Nk Fk; [contradiction|auto]|]. split; auto.
           intros a Ha'. destruct (F a Ha') as [H1|[H1 H2]]; [left; auto|right; split; auto; right; auto].
Qed.

(* ---------------------------------------------------------------- the loop-head invariant *)

Record K (s : aug_state) (mu : Z) : Prop := mkK
  { k_marks : Marks r n s;
    k_umin : g_umin s = Fin mu;
    k_ready : forall j, In j (g_ready s) -> dz (g_d s) j <= mu;
    k_scan : forall j, In j (g_scan s) -> dz (g_d s) j = mu;
    k_rest : g_ready s ++ g_scan s <> [] -> forall j, (j < n)%nat -> ~ In j (g_ready s ++ g_scan s) -> fin (g_d s) j -> mu <= dz (g_d s) j;
    k_dlen : length (g_d s) = n;
    k_dfin : forall j, (j < n)%nat -> fin (g_d s) j \/ gete (g_d s) j = PInf;
    k_plen : length (g_pred s) = n;
    k_untouched : forall j, (j < n)%nat -> ~ In j (g_todo s) -> ~ In j (g_ready s ++ g_scan s) -> gete (g_d s) j = PInf;
    k_todo : forall j, (j < n)%nat -> getn (g_ontodo s) j n = r -> In j (g_todo s);
    k_done : forall j, (j < n)%nat -> getn (g_done s) j n = r -> In j (g_ready s ++ g_scan s);
    k_tight : forall j, In j (g_todo s ++ g_scan s ++ g_ready s) -> finp v j -> tight (g_d s) (g_pred s) (g_ready s) j;
    k_tfin : forall j, In j (g_todo s ++ g_scan s ++ g_ready s) -> finp v j -> fin (g_d s) j;
    k_asg : forall j, In j (g_ready s ++ g_scan s) -> getn y j n <> n;
    k_live : forall j, In j (g_ready s ++ g_scan s) -> finp v j;
    k_res : forall j, (j < n)%nat -> gete v j = NInf -> gete (g_d s) j = PInf }.

Lemma K_rs_done s mu j : K s mu -> In j (g_ready s ++ g_scan s) -> getn (g_done s) j n = r.
Proof. intros HK Hin. destruct (k_marks s mu HK) as [_ [_ [_ [_ [_ H]]]]]. apply H; auto. Qed.

Lemma K_step s mu j hz a todo' scan' done' ontodo' :
  K s mu -> (j < n)%nat -> finp v j -> getn (g_done s) j n <> r -> mu <= hz -> g_ready s <> [] ->
  let d' := upd (g_d s) j (Fin hz) in
  let pred' := upd (g_pred s) j a in
  let s' := mkAug d' pred' done' ontodo' todo' scan' (g_ready s) (Fin mu) in
  tight d' pred' (g_ready s) j -> Marks r n s' ->
  (forall k, In k (g_todo s) -> In k todo') -> (forall k, In k todo' -> In k (g_todo s) \/ k = j) ->
  (forall k, In k (g_scan s) -> In k scan') ->
  (forall k, In k scan' -> In k (g_scan s) \/ (k = j /\ hz = mu /\ getn y j n <> n)) ->
  In j todo' \/ In j scan' ->
  (forall k, (k < n)%nat -> getn ontodo' k n = r -> getn (g_ontodo s) k n = r \/ (k = j /\ In j todo')) ->
  (forall k, (k < n)%nat -> getn done' k n = r -> getn (g_done s) k n = r \/ (k = j /\ In j scan')) ->
  K s' mu.
Proof.
  intros HK Hj Lj Nd Hmu Rne d' pred' s' Tj M' T1 T2 S1 S2 J O Dn.
  assert (Ld := k_dlen s mu HK). assert (Lp := k_plen s mu HK).
  assert (NRS : ~ In j (g_ready s ++ g_scan s)) by (intros H; apply Nd; eapply K_rs_done; eauto).
  assert (NR : ~ In j (g_ready s)) by (intros H; apply NRS; apply in_app_iff; left; auto).
  assert (Ge : forall k, gete d' k = if (k =? j)%nat then Fin hz else gete (g_d s) k).
  { intros k. unfold d'. rewrite gete_upd, Ld. replace (j <? n)%nat with true by (symmetry; apply Nat.ltb_lt; auto). rewrite andb_true_r. reflexivity. }
  assert (Geo : forall k, k <> j -> gete d' k = gete (g_d s) k) by (intros k Hk; rewrite Ge; destruct (Nat.eqb_spec k j); [contradiction|auto]).
  assert (Dzo : forall k, k <> j -> dz d' k = dz (g_d s) k) by (intros k Hk; unfold dz; rewrite Geo; auto).
  assert (Dzj : dz d' j = hz) by (unfold dz; rewrite Ge, Nat.eqb_refl; auto).
  assert (Fj : fin d' j) by (exists hz; rewrite Ge, Nat.eqb_refl; auto).
  assert (Fo : forall k, k <> j -> fin d' k <-> fin (g_d s) k) by (intros k Hk; unfold fin; rewrite Geo; tauto).
  constructor; unfold s'; cbn [g_d g_pred g_done g_ontodo g_todo g_scan g_ready g_umin].
  - exact M'.
  - reflexivity.
  - intros k Hk. rewrite Dzo by (intros ->; contradiction). apply (k_ready s mu HK); auto.
  - intros k Hk. destruct (S2 k Hk) as [H|[Ek [E _]]]; [|rewrite Ek, Dzj; auto].
    rewrite Dzo by (intros ->; apply NRS; apply in_app_iff; right; auto). apply (k_scan s mu HK); auto.
  - intros _ k Hk Nk Fk. destruct (Nat.eq_dec k j) as [->|NE]; [rewrite Dzj; auto|]. rewrite Dzo by auto.
    apply (k_rest s mu HK (app_ne _ _ Rne) k Hk); [|apply (Fo k NE); auto].
    intros H. apply Nk. apply in_app_iff in H as [H|H]; apply in_app_iff; [left|right]; auto.
  - unfold d'. rewrite upd_length. auto.
  - intros k Hk. destruct (Nat.eq_dec k j) as [->|NE]; [left; auto|].
    destruct (k_dfin s mu HK k Hk) as [H|H]; [left; apply (Fo k NE); auto|right; rewrite Geo; auto].
  - unfold pred'. rewrite upd_length. auto.
  - intros k Hk Nt Nrs. assert (k <> j).
    { intros ->. destruct J as [H|H]; [contradiction|]. apply Nrs. apply in_app_iff. right. auto. }
    rewrite Geo by auto. apply (k_untouched s mu HK k Hk); [intros H'; apply Nt; auto|].
    intros H'. apply Nrs. apply in_app_iff in H' as [H'|H']; apply in_app_iff; [left|right]; auto.
  - intros k Hk E. destruct (O k Hk E) as [H|[Ek H]]; [|rewrite Ek; auto]. apply T1. apply (k_todo s mu HK k Hk H).
  - intros k Hk E. destruct (Dn k Hk E) as [H|[Ek H]]; [|rewrite Ek; apply in_app_iff; right; auto].
    pose proof (k_done s mu HK k Hk H) as H'. apply in_app_iff in H' as [H'|H']; apply in_app_iff; [left|right]; auto.
  - intros k Hk Lk. destruct (Nat.eq_dec k j) as [->|NE]; [exact Tj|].
    apply tight_upd; auto. apply (k_tight s mu HK); auto. apply in3. apply in3 in Hk as [Hk|[Hk|Hk]].
    + destruct (T2 k Hk) as [H|H]; [left; auto|contradiction].
    + destruct (S2 k Hk) as [H|[H _]]; [right; left; auto|contradiction].
    + right; right; auto.
  - intros k Hk Lk. destruct (Nat.eq_dec k j) as [->|NE]; [exact Fj|]. apply (Fo k NE). apply (k_tfin s mu HK); auto. apply in3. apply in3 in Hk as [Hk|[Hk|Hk]].
    + destruct (T2 k Hk) as [H|H]; [left; auto|contradiction].
    + destruct (S2 k Hk) as [H|[H _]]; [right; left; auto|contradiction].
    + right; right; auto.
  - intros k Hk. apply in_app_iff in Hk as [Hk|Hk]; [apply (k_asg s mu HK); apply in_app_iff; left; auto|].
    destruct (S2 k Hk) as [H|[Ek [_ H]]]; [|rewrite Ek; auto]. apply (k_asg s mu HK); apply in_app_iff; right; auto.
  - intros k Hk. apply in_app_iff in Hk as [Hk|Hk]; [apply (k_live s mu HK); apply in_app_iff; left; auto|].
    destruct (S2 k Hk) as [H|[Ek _]]; [|rewrite Ek; auto]. apply (k_live s mu HK); apply in_app_iff; right; auto.
  - intros k Hk En. assert (k <> j) by (intros ->; destruct Lj as [z Hz]; congruence). rewrite Geo by auto. apply (k_res s mu HK); auto.
Qed.

(* what the exit state still satisfies (the exit column need not be on any list) *)
Record Kx (s : aug_state) (mu : Z) : Prop := mkKx
  { kx_ready : forall j, In j (g_ready s) -> dz (g_d s) j <= mu;
    kx_scan : forall j, In j (g_scan s) -> dz (g_d s) j = mu;
    kx_rest : g_ready s <> [] -> forall j, (j < n)%nat -> ~ In j (g_ready s ++ g_scan s) -> fin (g_d s) j -> mu <= dz (g_d s) j;
    kx_sfin : forall j, In j (g_ready s ++ g_scan s) -> fin (g_d s) j;
    kx_tight : forall j, In j (g_ready s) -> tight (g_d s) (g_pred s) (g_ready s) j;
    kx_asg : forall j, In j (g_ready s) -> getn y j n <> n;
    kx_live : forall j, In j (g_ready s) -> (j < n)%nat /\ finp v j }.

Lemma K_Kx s mu : K s mu -> Kx s mu.
Proof.
  intros HK. constructor.
  - apply (k_ready s mu HK).
  - apply (k_scan s mu HK).
  - intros Rne. apply (k_rest s mu HK (app_ne _ _ Rne)).
  - intros j Hj. apply (k_tfin s mu HK); [apply in3; apply in_app_iff in Hj as [H|H]; auto|apply (k_live s mu HK); auto].
  - intros j Hj. apply (k_tight s mu HK); [apply in3; auto|apply (k_live s mu HK); apply in_app_iff; left; auto].
  - intros j Hj. apply (k_asg s mu HK). apply in_app_iff; left; auto.
  - intros j Hj. split; [|apply (k_live s mu HK); apply in_app_iff; left; auto].
    destruct (k_marks s mu HK) as [_ [_ [_ [_ [_ H]]]]]. apply H. apply in_app_iff; left; auto.
Qed.

Lemma Kx_exit s mu j hz a : K s mu -> (j < n)%nat -> getn (g_done s) j n <> r -> mu <= hz ->
  Kx (mkAug (upd (g_d s) j (Fin hz)) (upd (g_pred s) j a) (g_done s) (g_ontodo s) (g_todo s) (g_scan s) (g_ready s) (Fin mu)) mu.
Proof.
  intros HK Hj Nd Hmu. assert (Ld := k_dlen s mu HK). assert (Lp := k_plen s mu HK).
  assert (NRS : ~ In j (g_ready s ++ g_scan s)) by (intros H; apply Nd; eapply K_rs_done; eauto).
  assert (NR : ~ In j (g_ready s)) by (intros H; apply NRS; apply in_app_iff; left; auto).
  assert (Ge : forall k, gete (upd (g_d s) j (Fin hz)) k = if (k =? j)%nat then Fin hz else gete (g_d s) k).
  { intros k. rewrite gete_upd, Ld. replace (j <? n)%nat with true by (symmetry; apply Nat.ltb_lt; auto). rewrite andb_true_r. reflexivity. }
  assert (Geo : forall k, k <> j -> gete (upd (g_d s) j (Fin hz)) k = gete (g_d s) k) by (intros k Hk; rewrite Ge; destruct (Nat.eqb_spec k j); [contradiction|auto]).
  assert (Dzo : forall k, k <> j -> dz (upd (g_d s) j (Fin hz)) k = dz (g_d s) k) by (intros k Hk; unfold dz; rewrite Geo; auto).
  constructor; cbn [g_d g_pred g_done g_ontodo g_todo g_scan g_ready g_umin].
  - intros k Hk. rewrite Dzo by (intros ->; contradiction). apply (k_ready s mu HK); auto.
  - intros k Hk. rewrite Dzo by (intros ->; apply NRS; apply in_app_iff; right; auto). apply (k_scan s mu HK); auto.
  - intros Rne k Hk Nk Fk. destruct (Nat.eq_dec k j) as [->|NE]; [unfold dz; rewrite Ge, Nat.eqb_refl; auto|]. rewrite Dzo by auto.
    apply (k_rest s mu HK (app_ne _ _ Rne) k Hk Nk). unfold fin in *. rewrite <- Geo; auto.
  - intros k Hk. assert (k <> j) by (intros ->; contradiction). unfold fin. rewrite Geo by auto.
    apply (k_tfin s mu HK); [apply in3; apply in_app_iff in Hk as [H'|H']; auto|apply (k_live s mu HK); auto].
  - intros k Hk. apply tight_upd; auto; [intros ->; contradiction|]. apply (k_tight s mu HK); [apply in3; auto|apply (k_live s mu HK); apply in_app_iff; left; auto].
  - intros k Hk. apply (k_asg s mu HK). apply in_app_iff; left; auto.
  - intros k Hk. split; [|apply (k_live s mu HK); apply in_app_iff; left; auto].
    destruct (k_marks s mu HK) as [_ [_ [_ [_ [_ H]]]]]. apply H. apply in_app_iff; left; auto.
Qed.

(* ---------------------------------------------------------------- the scan of the row of a popped column jh *)

Definition RelaxPost (jh : nat) (c1 mu : Z) (rw : list (nat * ext)) (s : aug_state) (res : aug_state * option nat) : Prop :=
  (snd res = None -> K (fst res) mu) /\ Kx (fst res) mu /\ g_ready (fst res) = g_ready s /\
  (forall j, fin (g_d s) j -> fin (g_d (fst res)) j /\ dz (g_d (fst res)) j <= dz (g_d s) j) /\
  (forall j, getn (g_done s) j n = r -> gete (g_d (fst res)) j = gete (g_d s) j) /\
  (snd res = None -> forall j c, In (j, Fin c) rw -> finp v j ->
     fin (g_d (fst res)) j /\ dz (g_d (fst res)) j <= mu + (c - vz v j) - (c1 - vz v jh)) /\
  (forall j, snd res = Some j -> (j < n)%nat /\ getn y j n = n /\ fin (g_d (fst res)) j /\ dz (g_d (fst res)) j = mu /\
     ~ In j (g_ready s) /\ tight (g_d (fst res)) (g_pred (fst res)) (g_ready s) j /\ finp v j).

Lemma aug_relax_dist jh c1 mu : (jh < n)%nat -> finp v jh ->
  (forall j c, In (j, Fin c) (row rows (getn y jh n)) -> finp v j -> c1 - vz v jh <= c - vz v j) ->
  In (jh, Fin c1) (row rows (getn y jh n)) ->
  forall rw s, (forall j c, In (j, c) rw -> In (j, c) (row rows (getn y jh n))) ->
  K s mu -> In jh (g_ready s) -> dz (g_d s) jh = mu ->
  RelaxPost jh c1 mu rw s (aug_relax r n (getn y jh n) y v (esub (esub (Fin c1) (gete v jh)) (Fin mu)) rw s).
Proof.
  intros Hjh [zjh Hvjh] SLK Hc1. pose proof (vz_fin _ _ _ Hvjh) as Vjh.
  induction rw as [|[j c] rr IH]; intros s HRW HK Hin Dj; unfold RelaxPost; cbn [aug_relax].
  - cbn [fst snd]. split; auto. split; [apply K_Kx; auto|]. split; auto. split; [intros j0 F0; split; [auto|lia]|]. split; auto.
    split; [intros _ ? ? []|discriminate].
  - assert (HRW' : forall j' c', In (j', c') rr -> In (j', c') (row rows (getn y jh n))) by (intros; apply HRW; right; auto).
    pose proof (HRW j c (or_introl eq_refl)) as HinI. destruct (Rfin _ _ _ HinI) as [Hj [cz Ec]]. subst c.
    assert (Rne : g_ready s <> []) by (intros E; rewrite E in Hin; destruct Hin).
    destruct (live_or_res j Hj) as [[zj Hvj]|Hres].
    2:{ (* a reserved column: h = +inf, the entry is skipped *)
      assert (Esk : aug_relax r n (getn y jh n) y v (esub (esub (Fin c1) (gete v jh)) (Fin mu)) ((j, Fin cz) :: rr) s =
                    aug_relax r n (getn y jh n) y v (esub (esub (Fin c1) (gete v jh)) (Fin mu)) rr s).
      { cbn [aug_relax]. destruct (getn (g_done s) j n =? r)%nat; [reflexivity|].
        rewrite Hres, Hvjh. cbn [esub eneg eadd]. rewrite eltb_pinf_l. reflexivity. }
      change (RelaxPost jh c1 mu ((j, Fin cz) :: rr) s (aug_relax r n (getn y jh n) y v (esub (esub (Fin c1) (gete v jh)) (Fin mu)) ((j, Fin cz) :: rr) s)).
      rewrite Esk. unfold RelaxPost.
      destruct (IH s HRW' HK Hin Dj) as [A [A' [B [C [D [E F]]]]]].
      split; auto. split; auto. split; auto. split; auto. split; auto. split; auto.
      intros N j0 c0 [E0|H0] L0; [|apply E; auto]. inversion E0; subst j0 c0. destruct L0 as [z0 Hz0]. congruence. }
    pose proof (vz_fin _ _ _ Hvj) as Vj.
    set (hz := mu + (cz - zj) - (c1 - zjh)).
    assert (Hhz : mu <= hz) by (pose proof (SLK j cz HinI (ex_intro _ zj Hvj)); unfold hz; rewrite Vj, Vjh in *; lia).
    (* skipping the entry: its edge inequality already holds *)
    assert (Skip : fin (g_d s) j -> dz (g_d s) j <= hz ->
              RelaxPost jh c1 mu ((j, Fin cz) :: rr) s (aug_relax r n (getn y jh n) y v (esub (esub (Fin c1) (gete v jh)) (Fin mu)) rr s)).
    { intros Fj Le. destruct (IH s HRW' HK Hin Dj) as [A [A' [B [C [D [E F]]]]]].
      split; auto. split; auto. split; auto. split; auto. split; auto. split; auto.
      intros N j0 c0 [E0|H0] L0; [|apply E; auto]. inversion E0; subst j0 c0. destruct (C j Fj) as [C1 C2]. split; auto.
      rewrite Vj, Vjh. unfold hz in Le. lia. }
    destruct (Nat.eqb_spec (getn (g_done s) j n) r) as [Ed|Nd].
    + pose proof (k_done s mu HK j Hj Ed) as H.
      assert (Fj : fin (g_d s) j) by (apply (k_tfin s mu HK); [apply in3; apply in_app_iff in H as [H|H]; auto|exists zj; auto]).
      apply Skip; auto. apply in_app_iff in H as [H|H];
        [pose proof (k_ready s mu HK j H)|pose proof (k_scan s mu HK j H)]; lia.
    + assert (Eh : esub (esub (Fin cz) (gete v j)) (esub (esub (Fin c1) (gete v jh)) (Fin mu)) = Fin hz).
      { rewrite Hvj, Hvjh. cbn [esub eneg eadd]. f_equal. unfold hz. lia. }
      rewrite Eh.
      (* is d[j] improved?  always when it is still +inf *)
      assert (Case : (exists dj, gete (g_d s) j = Fin dj /\ dj <= hz /\ eltb (Fin hz) (gete (g_d s) j) = false) \/
                     (eltb (Fin hz) (gete (g_d s) j) = true /\ forall dj, gete (g_d s) j = Fin dj -> hz < dj)).
      { destruct (k_dfin s mu HK j Hj) as [[dj Hdj]|Hp]; rewrite ?Hdj, ?Hp; cbn [eltb].
        - destruct (Z.ltb_spec hz dj); [right; split; auto; intros d0 E0; inversion E0; lia|left; exists dj; auto].
        - right. split; auto. discriminate. }
      destruct Case as [[dj [Hdj [Le Ef]]]|[Et Lt]]; rewrite ?Ef, ?Et.
      { apply Skip; [exists dj; auto|unfold dz; rewrite Hdj; auto]. }
      rewrite (k_umin s mu HK). cbn [eleb].
      assert (NRS : ~ In j (g_ready s ++ g_scan s)) by (intros H; apply Nd; eapply K_rs_done; eauto).
      assert (NR : ~ In j (g_ready s)) by (intros H; apply NRS; apply in_app_iff; left; auto).
      assert (Ge : forall k, gete (upd (g_d s) j (Fin hz)) k = if (k =? j)%nat then Fin hz else gete (g_d s) k).
      { intros k. rewrite gete_upd, (k_dlen s mu HK). replace (j <? n)%nat with true by (symmetry; apply Nat.ltb_lt; auto). rewrite andb_true_r. reflexivity. }
      assert (Tj : tight (upd (g_d s) j (Fin hz)) (upd (g_pred s) j (getn y jh n)) (g_ready s) j).
      { right. exists jh, cz, c1. split; auto. split.
        - rewrite getn_upd, Nat.eqb_refl, (k_plen s mu HK). replace (j <? n)%nat with true by (symmetry; apply Nat.ltb_lt; auto). reflexivity.
        - split; auto. split; auto. unfold dz. rewrite !Ge, Nat.eqb_refl.
          destruct (Nat.eqb_spec jh j) as [E|_]; [subst; contradiction|]. fold (dz (g_d s) jh). rewrite Dj, Vj, Vjh. unfold hz. lia. }
      assert (Cont : forall s', K s' mu -> g_ready s' = g_ready s ->
                (forall j0, gete (g_d s') j0 = if (j0 =? j)%nat then Fin hz else gete (g_d s) j0) ->
                (forall j0, getn (g_done s) j0 n = r -> getn (g_done s') j0 n = r) ->
                RelaxPost jh c1 mu ((j, Fin cz) :: rr) s (aug_relax r n (getn y jh n) y v (esub (esub (Fin c1) (gete v jh)) (Fin mu)) rr s')).
      { intros s' HK' Er Ge' Dn'.
        assert (Hin' : In jh (g_ready s')) by (rewrite Er; auto).
        assert (Dj' : dz (g_d s') jh = mu) by (unfold dz; rewrite Ge'; destruct (Nat.eqb_spec jh j) as [E|_]; [subst; contradiction|exact Dj]).
        assert (Fj' : fin (g_d s') j) by (exists hz; rewrite Ge', Nat.eqb_refl; auto).
        assert (Dzj' : dz (g_d s') j = hz) by (unfold dz; rewrite Ge', Nat.eqb_refl; auto).
        destruct (IH s' HRW' HK' Hin' Dj') as [A [A' [B [C [D [E F]]]]]].
        split; auto. split; auto. split; [rewrite B; auto|]. split.
        - intros j0 F0. destruct (Nat.eq_dec j0 j) as [E0|NE0].
          + rewrite E0 in *. destruct (C j Fj') as [C1 C2]. split; auto. destruct F0 as [d0 Hd0]. pose proof (Lt d0 Hd0).
            unfold dz at 2. rewrite Hd0. lia.
          + assert (Same : gete (g_d s') j0 = gete (g_d s) j0) by (rewrite Ge'; destruct (Nat.eqb_spec j0 j); [contradiction|auto]).
            assert (F0' : fin (g_d s') j0) by (unfold fin; rewrite Same; auto). destruct (C j0 F0') as [C1 C2]. split; auto.
            unfold dz at 2. rewrite <- Same. exact C2.
        - split.
          + intros j0 Hd. rewrite (D j0 (Dn' j0 Hd)), Ge'. destruct (Nat.eqb_spec j0 j) as [E0|_]; [rewrite E0 in Hd; contradiction|auto].
          + split.
            * intros N j0 c0 [E0|H0] L0; [|apply E; auto]. inversion E0; subst j0 c0. destruct (C j Fj') as [C1 C2]. split; auto.
              rewrite Dzj' in C2. rewrite Vj, Vjh. unfold hz in C2. lia.
            * intros j0 Ej0. rewrite <- Er. apply F; auto. }
      destruct (Z.leb_spec hz mu) as [Le|Gt].
      * assert (Ehz : hz = mu) by lia.
        destruct (Nat.eqb_spec (getn y j n) n) as [Ey|Ny].
        -- (* exit *)
           cbn [fst snd g_d g_pred g_ready].
           split; [discriminate|]. split; [apply Kx_exit; auto|]. split; auto. split.
           { intros j0 F0. destruct (Nat.eq_dec j0 j) as [E0|NE0].
             - rewrite E0 in *. split; [exists hz; rewrite Ge, Nat.eqb_refl; auto|]. destruct F0 as [d0 Hd0]. pose proof (Lt d0 Hd0).
               unfold dz. rewrite Ge, Nat.eqb_refl, Hd0. lia.
             - split; [unfold fin; rewrite Ge; destruct (Nat.eqb_spec j0 j); [contradiction|auto]|].
               unfold dz. rewrite Ge. destruct (Nat.eqb_spec j0 j); [contradiction|lia]. }
           split; [intros j0 Hd; rewrite Ge; destruct (Nat.eqb_spec j0 j) as [E0|_]; [rewrite E0 in Hd; contradiction|auto]|].
           split; [discriminate|]. intros j0 E0; inversion E0; subst j0.
           split; auto. split; auto. split; [exists hz; rewrite Ge, Nat.eqb_refl; auto|]. split; [unfold dz; rewrite Ge, Nat.eqb_refl; auto|]. split; auto. split; auto. exists zj; auto.
        -- apply Cont; cbn [g_d g_done g_ready]; auto.
           ++ apply (K_step s mu j hz (getn y jh n) (g_todo s) (g_scan s ++ [j]) (upd (g_done s) j r) (g_ontodo s)); auto; try (exists zj; exact Hvj).
              ** exact (Marks_scan_snoc r n s (g_d s) (g_pred s) j (k_marks s mu HK) Hj Nd).
              ** intros k Hk. apply in_app_iff. left. auto.
              ** intros k Hk. apply in_app_iff in Hk as [Hk|[<-|[]]]; auto.
              ** right. apply in_app_iff. right. left. auto.
              ** intros k Hk E. rewrite getn_upd in E. destruct ((k =? j)%nat && (j <? length (g_done s))%nat) eqn:Eb; [|auto].
                 apply andb_true_iff in Eb as [Eb _]. apply Nat.eqb_eq in Eb. right. split; auto. apply in_app_iff. right. left. auto.
           ++ intros j0 Hd. rewrite getn_upd. destruct ((j0 =? j)%nat && (j <? length (g_done s))%nat); auto.
      * destruct (Nat.eqb_spec (getn (g_ontodo s) j n) r) as [Eo|No].
        -- apply Cont; cbn [g_d g_done g_ready]; auto.
           apply (K_step s mu j hz (getn y jh n) (g_todo s) (g_scan s) (g_done s) (g_ontodo s)); auto; try (exists zj; exact Hvj).
           all: try lia. all: try (exact (k_marks s mu HK)). all: try (left; apply (k_todo s mu HK j Hj Eo)).
        -- apply Cont; cbn [g_d g_done g_ready]; auto.
           apply (K_step s mu j hz (getn y jh n) (g_todo s ++ [j]) (g_scan s) (g_done s) (upd (g_ontodo s) j r)); auto; try (exists zj; exact Hvj).
           all: try lia. all: try (exact (Marks_todo_snoc r n s (g_d s) (g_pred s) j (k_marks s mu HK) Hj No)).
           ++ intros k Hk. apply in_app_iff. left. auto.
           ++ intros k Hk. apply in_app_iff in Hk as [Hk|[<-|[]]]; auto.
           ++ left. apply in_app_iff. right. left. auto.
           ++ intros k Hk E. rewrite getn_upd in E. destruct ((k =? j)%nat && (j <? length (g_ontodo s))%nat) eqn:Eb; [|auto].
              apply andb_true_iff in Eb as [Eb _]. apply Nat.eqb_eq in Eb. right. split; auto. apply in_app_iff. right. left. auto.
Qed.

Lemma aug_relax_umin i1 u1 : forall rw s, g_umin (fst (aug_relax r n i1 y v u1 rw s)) = g_umin s.
Proof.
  induction rw as [|[j c] rr IH]; intros s; cbn [aug_relax]; [reflexivity|].
  destruct (getn (g_done s) j n =? r)%nat; [apply IH|].
  destruct (eltb (esub (esub c (gete v j)) u1) (gete (g_d s) j)); [|apply IH].
  destruct (eleb (esub (esub c (gete v j)) u1) (g_umin s)).
  - destruct (getn y j n =? n)%nat; [reflexivity|]. rewrite IH. reflexivity.
  - destruct (getn (g_ontodo s) j n =? r)%nat; rewrite IH; reflexivity.
Qed.

(* ---------------------------------------------------------------- the loop *)

Definition Fd (d : list ext) : Prop := forall j c, In (j, Fin c) (row rows r) -> finp v j -> fin d j /\ dz d j <= c - vz v j.
Definition Gd (d : list ext) (ready : list nat) : Prop :=
  forall jh j c ch, In jh ready -> In (j, Fin c) (row rows (getn y jh n)) -> In (jh, Fin ch) (row rows (getn y jh n)) -> finp v j ->
    fin d j /\ dz d j <= dz d jh + (c - vz v j) - (ch - vz v jh).

Definition Res (s' : aug_state) (j1 : nat) : Prop :=
  exists mu', g_umin s' = Fin mu' /\
    DistInvE n rows r y v (g_d s') (g_pred s') (g_ready s') mu' j1 /\
    (forall j, In j (g_ready s') -> (j < n)%nat /\ finp v j /\ (exists z, gete (g_d s') j = Fin z) /\ getn y j n <> n).

Lemma mk_res s' j1 mu' : g_umin s' = Fin mu' -> Kx s' mu' ->
  (forall j, (j < n)%nat -> ~ In j (g_ready s') -> fin (g_d s') j -> mu' <= dz (g_d s') j) ->
  Fd (g_d s') ->
  (forall jh j c ch, In jh (g_ready s') -> In (j, Fin c) (row rows (getn y jh n)) -> In (jh, Fin ch) (row rows (getn y jh n)) -> finp v j ->
     dz (g_d s') jh = mu' \/ (fin (g_d s') j /\ dz (g_d s') j <= dz (g_d s') jh + (c - vz v j) - (ch - vz v jh))) ->
  tight (g_d s') (g_pred s') (g_ready s') j1 -> dz (g_d s') j1 = mu' -> ~ In j1 (g_ready s') -> finp v j1 ->
  Res s' j1.
Proof.
  intros Eu HX H2 HF HG T1 D1 N1 L1. exists mu'. split; auto. split.
  - constructor.
    + apply (kx_ready s' mu' HX).
    + intros j Hj _ Nj Fj. apply H2; auto.
    + exact HF.
    + exact HG.
    + intros j [Hj | ->]; [|exact T1]. apply (kx_tight s' mu' HX j Hj).
    + split; auto.
  - intros j Hj. destruct (kx_live s' mu' HX j Hj) as [A B]. split; auto. split; auto.
    split; [apply (kx_sfin s' mu' HX); apply in_app_iff; left; auto|apply (kx_asg s' mu' HX); auto].
Qed.

(* ---------------------------------------------------------------- the Hall step *)
Hypothesis NoBlock : forall L C : list nat, NoDup L -> (forall i, In i L -> (i < n)%nat) ->
  (forall i j c, In i L -> In (j, c) (row rows i) -> In j C) -> (length L <= length C)%nat.
Hypothesis Hr : (r < n)%nat.
Hypothesis Fr : free n y r.

Lemma nodup_app_intro {A} (a b : list A) : NoDup a -> NoDup b -> (forall k, In k a -> ~ In k b) -> NoDup (a ++ b).
Proof.
  induction a as [|k a IH]; intros Na Nb D; cbn [app]; auto. apply NoDup_cons_iff in Na as [Nk Na']. constructor.
  - intros H. apply in_app_iff in H as [H|H]; [contradiction|]. apply (D k (or_introl eq_refl) H).
  - apply IH; auto. intros k' Hk'. apply D. right. auto.
Qed.

Lemma map_y_nodup (C : list nat) : NoDup C -> (forall j, In j C -> (j < n)%nat /\ getn y j n <> n) ->
  NoDup (map (fun j => getn y j n) C).
Proof.
  destruct HInvE as [_ [_ [_ [SL _]]]].
  induction C as [|a l IH]; intros NC HC; cbn [map]; [constructor|].
  apply NoDup_cons_iff in NC as [Nin NC']. constructor; [|apply IH; auto; intros; apply HC; right; auto].
  intros Hin. apply in_map_iff in Hin as [b [E Hb]].
  destruct (HC a (or_introl eq_refl)) as [Ha Na]. destruct (HC b (or_intror Hb)) as [Hb' Nb].
  destruct (SL a _ Ha eq_refl Na) as [_ [Xa _]]. destruct (SL b _ Hb' eq_refl Nb) as [_ [Xb _]].
  rewrite E in Xb. assert (Eab : a = b) by congruence. apply Nin. rewrite Eab. exact Hb.
Qed.

Theorem rebuild_finite s mu : K s mu -> Fd (g_d s) -> Gd (g_d s) (g_ready s) -> g_scan s = [] ->
  exists j, In j (g_todo s) /\ getn (g_done s) j n <> r /\ fin (g_d s) j.
Proof.
  intros HK HF HG ES. pose proof HInvE as [Lx [Ly [[Lv PVv] [SL NY]]]].
  destruct (k_marks s mu HK) as [_ [_ [_ [Ht [Nrs Hrs]]]]]. rewrite ES, app_nil_r in Nrs, Hrs.
  assert (D : (exists j, In j (g_todo s) /\ getn (g_done s) j n <> r /\ fin (g_d s) j) \/
              (forall j, In j (g_todo s) -> getn (g_done s) j n <> r -> gete (g_d s) j = PInf)).
  { revert Ht. generalize (g_todo s) as l. induction l as [|a l IHl]; intros Ht; [right; intros ? []|].
    destruct IHl as [[j [A B]]|A]; [intros; apply Ht; right; auto|left; exists j; split; auto; right; auto|].
    destruct (Nat.eq_dec (getn (g_done s) a n) r) as [E|NE]; [right; intros j [E0|H] Nd; [rewrite <- E0 in Nd; contradiction|auto]|].
    destruct (k_dfin s mu HK a (proj1 (Ht a (or_introl eq_refl)))) as [Fa|Pa].
    - left. exists a. split; [left; auto|auto].
    - right. intros j [E0|H] Nd; [rewrite <- E0; auto|auto]. }
  destruct D as [D|AllInf]; auto. exfalso.
  assert (Cand : forall j, (j < n)%nat -> fin (g_d s) j -> In j (g_ready s)).
  { intros j Hj Fj. destruct (in_dec Nat.eq_dec j (g_todo s)) as [Hin|Nin].
    - destruct (Nat.eq_dec (getn (g_done s) j n) r) as [E|NE].
      + pose proof (k_done s mu HK j Hj E) as H. rewrite ES, app_nil_r in H. exact H.
      + exfalso. destruct Fj as [z Hz]. rewrite (AllInf j Hin NE) in Hz. discriminate.
    - destruct (in_dec Nat.eq_dec j (g_ready s)) as [Hr'|Nr]; auto. exfalso.
      assert (E : gete (g_d s) j = PInf) by (apply (k_untouched s mu HK j Hj Nin); rewrite ES, app_nil_r; exact Nr).
      destruct Fj as [z Hz]. congruence. }
  set (Cres := filter (fun j => match gete v j with NInf => true | _ => false end) (seq 0 n)).
  assert (InC : forall j, In j Cres <-> (j < n)%nat /\ gete v j = NInf).
  { intros j. unfold Cres. rewrite filter_In, in_seq. split; intros [A B]; split; try lia.
    - destruct (gete v j); try discriminate; auto.
    - rewrite B; auto. }
  assert (RLive : forall j, In j (g_ready s) -> finp v j) by (intros j Hj; apply (k_live s mu HK); apply in_app_iff; left; auto).
  assert (NC : NoDup (g_ready s ++ Cres)).
  { apply nodup_app_intro; auto; [apply NoDup_filter, seq_NoDup|].
    intros k Hk Hc. apply InC in Hc as [_ Hc]. destruct (RLive k Hk) as [z Hz]. congruence. }
  assert (AC : forall j, In j (g_ready s ++ Cres) -> (j < n)%nat /\ getn y j n <> n).
  { intros j Hj. apply in_app_iff in Hj as [Hj|Hj].
    - split; [apply Hrs; auto|apply (k_asg s mu HK); apply in_app_iff; left; auto].
    - apply InC in Hj as [Hj Nj]. split; auto. }
  assert (InCC : forall j, (j < n)%nat -> (finp v j -> fin (g_d s) j) -> In j (g_ready s ++ Cres)).
  { intros j Hj H. apply in_app_iff. destruct (live_or_res j Hj) as [L|R]; [left; apply Cand; auto|right; apply InC; auto]. }
  assert (Len : (length (r :: map (fun j => getn y j n) (g_ready s ++ Cres)) <= length (g_ready s ++ Cres))%nat).
  { apply NoBlock.
    - constructor; [|apply map_y_nodup; auto].
      intros Hin. apply in_map_iff in Hin as [j [E Hj]]. apply (Fr j (proj1 (AC j Hj)) E).
    - intros i [<-|Hi]; auto. apply in_map_iff in Hi as [j [<- Hj]]. destruct (AC j Hj) as [A B].
      destruct (SL j _ A eq_refl B) as [A' _]. exact A'.
    - intros i j c [<-|Hi] Hc; destruct (Rfin _ _ _ Hc) as [Hj [z ->]].
      + apply InCC; auto. intros L. apply (HF j z Hc L).
      + apply in_map_iff in Hi as [jh [<- Hjh]]. apply in_app_iff in Hjh as [Hjh|Hjh].
        * apply InCC; auto. intros L.
          destruct (AC jh ltac:(apply in_app_iff; left; auto)) as [A B].
          destruct (SL jh _ A eq_refl B) as [_ [_ [ch [Hch _]]]].
          apply (HG jh j z ch Hjh Hc Hch L).
        * apply InC in Hjh as [A B]. destruct (SL jh _ A eq_refl (NY jh A B)) as [_ [_ [ch [_ [_ AllN]]]]].
          apply in_app_iff. right. apply InC. split; auto. apply (AllN B j _ Hc). }
  cbn [length] in Len. rewrite map_length in Len. lia.
Qed.

Hypothesis Lookup : forall i j c, In (j, c) (row rows i) -> cost_at (rowget rows i) j <> None.

(* one iteration: it returns (with the Dijkstra facts), or continues under the invariant with one more ready column *)
Lemma aug_iterE : forall f s mu,
  K s mu -> Fd (g_d s) -> Gd (g_d s) (g_ready s) ->
  (exists s' j1, aug_loop (S f) r n PInf rows y v s = Some (s', j1) /\ Res s' j1)
  \/ (exists s3 m3, K s3 m3 /\ Fd (g_d s3) /\ Gd (g_d s3) (g_ready s3) /\ length (g_ready s3) = S (length (g_ready s)) /\
        aug_loop (S f) r n PInf rows y v s = aug_loop f r n PInf rows y v s3).
Proof.
  pose proof HInvE as [Lx [Ly [[Lv PVv] [SL NY]]]].
  intros f s mu HK HF HG; cbn [aug_loop].
  assert (RF : exists s1 found m',
            (match g_scan s with
             | [] => let '(umin, scan) := aug_min r n (g_d s) (g_done s) (g_todo s) PInf [] in
                     let '(found, done') := aug_first_free r n y scan (g_done s) in
                     (mkAug (g_d s) (g_pred s) done' (g_ontodo s) (g_todo s) scan (g_ready s) umin, found)
             | _ => (s, None)
             end) = (s1, found) /\
            (found = None -> g_scan s1 <> [] /\ K s1 m' /\ Fd (g_d s1) /\ Gd (g_d s1) (g_ready s1)) /\
            (forall j, found = Some j -> Res s1 j) /\ g_ready s1 = g_ready s).
  { destruct (g_scan s) as [|j0 sr] eqn:ES.
    - pose proof (k_marks s mu HK) as [Ld [Lo [Nt [Ht [Nrs Hrs]]]]]. rewrite ES, app_nil_r in Nrs, Hrs.
      pose proof (aug_min_marks r n (g_d s) (g_done s) (g_todo s) PInf [] Nt (NoDup_nil _) (fun a H => False_ind _ H)) as AM.
      pose proof (refill_spec r n rows y PInf (fun i j c H => proj1 (Rfin i j c H)) s (k_marks s mu HK)) as RS.
      unfold refill in RS. rewrite ES in RS.
      assert (Tfin : forall j, In j (g_todo s) -> fin (g_d s) j \/ gete (g_d s) j = PInf) by (intros j Hj; apply (k_dfin s mu HK); apply Ht; auto).
      pose proof (aug_min_distE (g_d s) (g_done s) (g_todo s) PInf [] Tfin (or_introl (conj eq_refl (fun a H => False_ind _ H)))) as AD.
      destruct (rebuild_finite s mu HK HF HG ES) as [je [Hje [Nde Fje]]].
      pose proof (LapjvAugTotalR.aug_min_eligible r n (g_d s) (g_done s) (g_todo s) (ex_intro _ je (conj Hje (conj Nde Fje)))) as ScNe.
      destruct (aug_min r n (g_d s) (g_done s) (g_todo s) PInf []) as [um sc]. cbn [fst snd] in AD, ScNe.
      destruct AM as [Nsc Hsc2].
      assert (Hsc' : forall a, In a sc -> (a < n)%nat /\ getn (g_done s) a n <> r /\ In a (g_todo s)).
      { intros a Ha. destruct (Hsc2 a Ha) as [[]|[H1 H2]]. split; [apply Ht; auto|auto]. }
      pose proof (aug_first_free_marks r n rows y (fun i j c H => proj1 (Rfin i j c H)) sc (g_done s) (fun a H => proj1 (Hsc' a H)) Ld) as FF.
      pose proof (aug_first_free_assigned r n y sc (g_done s)) as FA.
      pose proof (aug_first_free_done r n y sc (g_done s)) as FD.
      destruct (aug_first_free r n y sc (g_done s)) as [fo done']. cbn [fst snd] in FA, FD.
      destruct FF as [Ld' [Keep [AllN Found]]].
      destruct AD as [[_ [_ AllInf]]|[m' [Eum [Hsc0 [Hel [_ _]]]]]].
      { exfalso. destruct Fje as [z Hz]. rewrite (AllInf je Hje Nde) in Hz. discriminate. }
      subst um.
      assert (Hsc : forall a, In a sc -> dz (g_d s) a = m') by (intros a Ha; apply Hsc0; auto).
      assert (ScF : forall a, In a sc -> fin (g_d s) a) by (intros a Ha; apply Hsc0; auto).
      assert (ScL : forall a, In a sc -> finp v a).
      { intros a Ha. destruct (live_or_res a (proj1 (Hsc' a Ha))) as [L|R]; auto. exfalso.
        destruct (ScF a Ha) as [z Hz]. rewrite (k_res s mu HK a (proj1 (Hsc' a Ha)) R) in Hz. discriminate. }
      assert (NotR : forall a, In a sc -> ~ In a (g_ready s)).
      { intros a Ha Hr'. destruct (Hsc' a Ha) as [_ [N _]]. apply N. apply Hrs. auto. }
      assert (Rest : forall j, (j < n)%nat -> ~ In j (g_ready s) -> ~ In j sc -> fin (g_d s) j -> m' <= dz (g_d s) j).
      { intros j Hj Nr Ns Fj. destruct (in_dec Nat.eq_dec j (g_todo s)) as [Hin|Nin].
        - apply Hel; auto. intros Ed. pose proof (k_done s mu HK j Hj Ed) as H. rewrite ES, app_nil_r in H. contradiction.
        - exfalso. assert (E : gete (g_d s) j = PInf) by (apply (k_untouched s mu HK j Hj Nin); rewrite ES, app_nil_r; exact Nr).
          destruct Fj as [z Hz]. congruence. }
      assert (MuLe : g_ready s <> [] -> mu <= m').
      { intros Rne. destruct sc as [|a l]; [contradiction|]. rewrite <- (Hsc a (or_introl eq_refl)).
        apply (k_rest s mu HK (app_ne _ _ Rne) a); [apply Hsc'; left; auto| |apply ScF; left; auto].
        rewrite ES, app_nil_r. apply NotR. left. auto. }
      exists (mkAug (g_d s) (g_pred s) done' (g_ontodo s) (g_todo s) sc (g_ready s) (Fin m')), fo, m'.
      split; [reflexivity|]. split; [|split; [|reflexivity]].
      + intros Efo. cbn [g_scan]. split; [exact ScNe|]. subst fo. destruct RS as [_ [_ [_ [_ [_ [RN _]]]]]]. destruct (RN eq_refl) as [M1 _].
        split; [|split; [exact HF|exact HG]].
        constructor; cbn [g_d g_pred g_done g_ontodo g_todo g_scan g_ready g_umin].
        * exact M1.
        * reflexivity.
        * intros j Hj. destruct (g_ready s) as [|a0 l0] eqn:ER; [destruct Hj|]. rewrite <- ER in *.
          pose proof (k_ready s mu HK j Hj). assert (mu <= m') by (apply MuLe; rewrite ER; discriminate). lia.
        * exact Hsc.
        * intros _ j Hj Nj Fj. apply Rest; auto; intros H; apply Nj; apply in_app_iff; [left|right]; auto.
        * apply (k_dlen s mu HK).
        * apply (k_dfin s mu HK).
        * apply (k_plen s mu HK).
        * intros j Hj Nt' Nrs'. apply (k_untouched s mu HK j Hj Nt'). rewrite ES, app_nil_r. intros H. apply Nrs'. apply in_app_iff. left. auto.
        * apply (k_todo s mu HK).
        * intros j Hj Ed. destruct (FD j Ed) as [H|H]; [|apply in_app_iff; right; auto].
          pose proof (k_done s mu HK j Hj H) as H'. rewrite ES, app_nil_r in H'. apply in_app_iff. left. auto.
        * intros j Hj Lj. apply (k_tight s mu HK); auto. rewrite ES. apply in3. apply in3 in Hj as [Hj|[Hj|Hj]]; auto. left. apply Hsc'; auto.
        * intros j Hj Lj. apply (k_tfin s mu HK); auto. rewrite ES. apply in3. apply in3 in Hj as [Hj|[Hj|Hj]]; auto. left. apply Hsc'; auto.
        * intros j Hj. apply in_app_iff in Hj as [Hj|Hj]; [apply (k_asg s mu HK); apply in_app_iff; left; auto|apply FA; auto].
        * intros j Hj. apply in_app_iff in Hj as [Hj|Hj]; [apply (k_live s mu HK); apply in_app_iff; left; auto|apply ScL; auto].
        * apply (k_res s mu HK).
      + intros j Efo. subst fo. destruct (Found j eq_refl) as [Hjs Hyj]. destruct (Hsc' j Hjs) as [Hjn [Ndj Htj]].
        apply (mk_res _ j m'); cbn [g_d g_pred g_ready g_umin].
        * reflexivity.
        * constructor; cbn [g_d g_pred g_done g_ontodo g_todo g_scan g_ready g_umin].
          -- intros k Hk. pose proof (k_ready s mu HK k Hk). assert (mu <= m'); [|lia].
             apply MuLe. intros E; rewrite E in Hk; destruct Hk.
          -- exact Hsc.
          -- intros _ k Hk Nk Fk. apply Rest; auto; intros H; apply Nk; apply in_app_iff; [left|right]; auto.
          -- intros k Hk. apply in_app_iff in Hk as [Hk|Hk]; [|apply ScF; auto].
             apply (k_tfin s mu HK); [apply in3; auto|apply (k_live s mu HK); apply in_app_iff; left; auto].
          -- intros k Hk. apply (k_tight s mu HK); [apply in3; auto|apply (k_live s mu HK); apply in_app_iff; left; auto].
          -- intros k Hk. apply (k_asg s mu HK). apply in_app_iff; left; auto.
          -- intros k Hk. split; [apply Hrs; auto|apply (k_live s mu HK); apply in_app_iff; left; auto].
        * intros k Hk Nk Fk. destruct (in_dec Nat.eq_dec k sc) as [Hin|Nin]; [rewrite (Hsc k Hin); lia|apply Rest; auto].
        * exact HF.
        * intros jh j' c ch Hjh H1 H2 L'. right. apply HG; auto.
        * apply (k_tight s mu HK); [apply in3; left; auto|apply ScL; auto].
        * apply Hsc; auto.
        * apply NotR; auto.
        * apply ScL; auto.
    - exists s, None, mu. split; [reflexivity|]. split; [intros _; split; [rewrite ES; discriminate|auto]|]. split; [discriminate|reflexivity]. }
  destruct RF as [s1 [found [m' [ERF [RN [RS ER1]]]]]]. rewrite ERF.
  destruct found as [j|]; [left; eauto|].
  destruct (RN eq_refl) as [Sne [HK1 [HF1 HG1]]].
  destruct (g_scan s1) as [|jh srest] eqn:ES1; [contradiction|].
  assert (Asg : getn y jh n <> n) by (apply (k_asg s1 m' HK1); rewrite ES1; apply in_app_iff; right; left; auto).
  assert (Hjh : (jh < n)%nat).
  { destruct (k_marks s1 m' HK1) as [_ [_ [_ [_ [_ Hrs1]]]]]. apply Hrs1. rewrite ES1. apply in_app_iff. right. left. auto. }
  assert (Ljh : finp v jh) by (apply (k_live s1 m' HK1); rewrite ES1; apply in_app_iff; right; left; auto).
  destruct (SL jh _ Hjh eq_refl Asg) as [_ [_ [c1 [EC [Hmin _]]]]].
  destruct (cost_at (rowget rows (getn y jh n)) jh) as [c1e|] eqn:ECA; [|exfalso; exact (Lookup _ _ _ EC ECA)].
  apply cost_at_some_in in ECA. fold (row rows (getn y jh n)) in ECA.
  assert (c1e = Fin c1) by (eapply (row_cost_unique rows Rnodup); eauto). subst c1e.
  assert (SLK : forall j c, In (j, Fin c) (row rows (getn y jh n)) -> finp v j -> c1 - vz v jh <= c - vz v j).
  { intros j c Hc Lj. apply Hmin; auto. }
  match goal with |- context [aug_relax _ _ _ _ _ _ _ ?S] => set (s2 := S) end.
  assert (Djh : dz (g_d s1) jh = m') by (apply (k_scan s1 m' HK1); rewrite ES1; left; auto).
  assert (HK2 : K s2 m').
  { unfold s2. constructor; cbn [g_d g_pred g_done g_ontodo g_todo g_scan g_ready g_umin].
    - apply Marks_pop; [apply HK1|exact ES1].
    - apply (k_umin s1 m' HK1).
    - intros j Hj. apply in_app_iff in Hj as [Hj|[<-|[]]]; [apply (k_ready s1 m' HK1); auto|lia].
    - intros j Hj. apply (k_scan s1 m' HK1). rewrite ES1. right. auto.
    - intros _ j Hj Nj Fj. apply (k_rest s1 m' HK1); [rewrite ES1; destruct (g_ready s1); discriminate|auto| |auto].
      rewrite ES1. intros H. apply Nj. rewrite <- app_assoc. exact H.
    - apply (k_dlen s1 m' HK1).
    - apply (k_dfin s1 m' HK1).
    - apply (k_plen s1 m' HK1).
    - intros j Hj Nt Nrs. apply (k_untouched s1 m' HK1 j Hj Nt). rewrite ES1. intros H. apply Nrs. rewrite <- app_assoc. exact H.
    - apply (k_todo s1 m' HK1).
    - intros j Hj Ed. pose proof (k_done s1 m' HK1 j Hj Ed) as H. rewrite ES1 in H. rewrite <- app_assoc. exact H.
    - intros j Hj Lj. apply (tight_ready_mono r n rows y v _ _ (g_ready s1)); [intros a Ha; apply in_app_iff; left; auto|].
      apply (k_tight s1 m' HK1); auto. rewrite ES1. apply in3. apply in3 in Hj as [Hj|[Hj|Hj]]; auto.
      + right; left; right; auto.
      + apply in_app_iff in Hj as [Hj|[<-|[]]]; [right; right; auto|right; left; left; auto].
    - intros j Hj Lj. apply (k_tfin s1 m' HK1); auto. rewrite ES1. apply in3. apply in3 in Hj as [Hj|[Hj|Hj]]; auto.
      + right; left; right; auto.
      + apply in_app_iff in Hj as [Hj|[<-|[]]]; [right; right; auto|right; left; left; auto].
    - intros j Hj. apply (k_asg s1 m' HK1). rewrite ES1. rewrite <- app_assoc in Hj. exact Hj.
    - intros j Hj. apply (k_live s1 m' HK1). rewrite ES1. rewrite <- app_assoc in Hj. exact Hj.
    - apply (k_res s1 m' HK1). }
  assert (Hjh2 : In jh (g_ready s2)) by (unfold s2; cbn [g_ready]; apply in_app_iff; right; left; auto).
  pose proof (aug_relax_dist jh c1 m' Hjh Ljh SLK EC (rowget rows (getn y jh n)) s2 (fun j c H => H) HK2 Hjh2 Djh) as RD.
  unfold RelaxPost in RD. rewrite (k_umin s1 m' HK1).
  pose proof (aug_relax_umin (getn y jh n) (esub (esub (Fin c1) (gete v jh)) (Fin m')) (rowget rows (getn y jh n)) s2) as EU.
  destruct (aug_relax r n (getn y jh n) y v (esub (esub (Fin c1) (gete v jh)) (Fin m')) (rowget rows (getn y jh n)) s2) as [s3 f3].
  cbn [fst snd] in RD, EU. destruct RD as [KN [KX [ER [Mono [Froz [Edge Exit]]]]]].
  assert (EU3 : g_umin s3 = Fin m') by (rewrite EU; unfold s2; cbn [g_umin]; apply (k_umin s1 m' HK1)).
  assert (R2 : g_ready s2 = g_ready s1 ++ [jh]) by reflexivity.
  assert (D2 : g_d s2 = g_d s1) by reflexivity.
  assert (FrozD : forall jh', In jh' (g_ready s2) -> dz (g_d s3) jh' = dz (g_d s1) jh').
  { intros jh' Hr'. unfold dz. rewrite Froz; [rewrite D2; auto|]. apply (K_rs_done s2 m' jh' HK2). apply in_app_iff. left. exact Hr'. }
  assert (FrJh : dz (g_d s3) jh = m') by (rewrite (FrozD jh Hjh2); exact Djh).
  assert (HF3 : Fd (g_d s3)).
  { intros j c Hc Lj. destruct (HF1 j c Hc Lj) as [F1 L1]. rewrite <- D2 in F1. destruct (Mono j F1) as [F3 L3]. split; auto. rewrite D2 in L3. lia. }
  assert (Old : forall jh' j c ch, In jh' (g_ready s1) -> In (j, Fin c) (row rows (getn y jh' n)) -> In (jh', Fin ch) (row rows (getn y jh' n)) -> finp v j ->
            fin (g_d s3) j /\ dz (g_d s3) j <= dz (g_d s3) jh' + (c - vz v j) - (ch - vz v jh')).
  { intros jh' j c ch Hr' H1 H2 Lj. destruct (HG1 jh' j c ch Hr' H1 H2 Lj) as [F1 L1]. rewrite <- D2 in F1.
    destruct (Mono j F1) as [F3 L3]. split; auto. rewrite D2 in L3.
    rewrite (FrozD jh'); [lia|]. rewrite R2. apply in_app_iff. left. auto. }
  destruct f3 as [j|].
  - left. exists s3, j. split; [reflexivity|]. destruct (Exit j eq_refl) as [Hj [Hy [Fj [Dj [Nr [Tj Lj]]]]]].
    apply (mk_res s3 j m'); auto.
    + intros k Hk Nk Fk. destruct (in_dec Nat.eq_dec k (g_scan s3)) as [Hin|Nin]; [rewrite (kx_scan s3 m' KX k Hin); lia|].
      apply (kx_rest s3 m' KX); auto; [rewrite ER, R2; destruct (g_ready s1); discriminate|].
      intros H. apply in_app_iff in H as [H|H]; contradiction.
    + intros jh' j' c ch Hr' H1 H2 L'. rewrite ER, R2 in Hr'. apply in_app_iff in Hr' as [Hr'|[<-|[]]]; [right; apply Old; auto|left; exact FrJh].
    + rewrite ER. exact Tj.
    + rewrite ER. exact Nr.
  - right. exists s3, m'. split; [exact (KN eq_refl)|]. split; [exact HF3|]. split; [|split; [|reflexivity]].
    + intros jh' j c ch Hr' H1 H2 Lj. rewrite ER, R2 in Hr'. apply in_app_iff in Hr' as [Hr'|[<-|[]]]; [apply Old; auto|].
      assert (Fin ch = Fin c1) by (eapply (row_cost_unique rows Rnodup); eauto). inversion H; subst ch.
      rewrite FrJh. apply (Edge eq_refl j c H1 Lj).
    + rewrite ER, R2, app_length, ER1. cbn [length]. lia.
Qed.

(* hence: every returning run ends with the Dijkstra facts, and with enough fuel every run returns *)
Theorem aug_loop_distE : forall fuel s mu s' j1,
  K s mu -> Fd (g_d s) -> Gd (g_d s) (g_ready s) ->
  aug_loop fuel r n PInf rows y v s = Some (s', j1) -> Res s' j1.
Proof.
  induction fuel as [|f IH]; intros s mu s' j1 HK HF HG E; [discriminate|].
  destruct (aug_iterE f s mu HK HF HG) as [[s0 [j0 [E0 R0]]]|[s3 [m3 [K3 [F3 [G3 [_ E3]]]]]]].
  - rewrite E0 in E. injection E as <- <-. exact R0.
  - rewrite E3 in E. apply (IH s3 m3 s' j1 K3 F3 G3 E).
Qed.

Theorem aug_loop_totalE : forall fuel s mu,
  K s mu -> Fd (g_d s) -> Gd (g_d s) (g_ready s) -> (n < fuel + length (g_ready s))%nat ->
  exists res, aug_loop fuel r n PInf rows y v s = Some res.
Proof.
  induction fuel as [|f IH]; intros s mu HK HF HG Hf.
  - exfalso. destruct (Bounds_lengths n s (Marks_Bounds r n s (k_marks s mu HK))) as [_ B]. lia.
  - destruct (aug_iterE f s mu HK HF HG) as [[s0 [j0 [E0 _]]]|[s3 [m3 [K3 [F3 [G3 [L3 E3]]]]]]]; [eauto|].
    rewrite E3. apply (IH s3 m3 K3 F3 G3). lia.
Qed.
End DistE.
