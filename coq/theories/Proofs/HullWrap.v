(* C02 / F22 — the kernel's C int arithmetic.  wrap32 is the identity on the signed 32-bit range; for
   coordinates in [0, M] with M*M < 2^31 (M <= 46340, sharp) the as-written turn test equals the exact
   one and the as-written model equals the exact model, so every theorem about Model/Hull.v holds for
   the kernel as written; beyond the bound the as-written kernel loses an extreme point. *)
From Coq Require Import ZArith List Bool Lia ZifyBool.
From Centro Require Import Base.Sx Model.Hull Model.HullW Spec.HullSpec Proofs.HullEmit Proofs.HullCorrect Proofs.HullPoly.
Import ListNotations.
Open Scope Z_scope.

Lemma wrap32_id z : -2147483648 <= z < 2147483648 -> wrap32 z = z.
Proof. intros H. unfold wrap32. rewrite Z.mod_small by lia. lia. Qed.

(* |cross| is twice the area of the triangle: at most M*M inside the square [0,M]^2 *)
Lemma cross_bound (M : Z) (a b c : pt) :
  0 <= fst a <= M -> 0 <= snd a <= M -> 0 <= fst b <= M -> 0 <= snd b <= M -> 0 <= fst c <= M -> 0 <= snd c <= M ->
  - (M * M) <= cross a b c <= M * M.
Proof.
  destruct a as [ai aj], b as [bi bj], c as [ci cj]. unfold cross. cbn [fst snd]. intros.
  assert (E : (bj - aj) * (ci - bi) - (cj - bj) * (bi - ai) = ci * (bj - aj) + bi * (aj - cj) + ai * (cj - bj)) by ring.
  rewrite E.
  destruct (Z_le_gt_dec aj bj); destruct (Z_le_gt_dec bj cj); destruct (Z_le_gt_dec aj cj); try lia; split; nia.
Qed.

Definition inbox (M : Z) (p : pt) : Prop := 0 <= fst p <= M /\ 0 <= snd p <= M.

(* sharp form: the turn test is exact whenever twice the triangle's area fits the signed 32-bit range *)
Lemma CONVEXw_exact (a b c : pt) : -2147483648 <= cross a b c < 2147483648 -> CONVEXw a b c = CONVEX a b c.
Proof. intros H. unfold CONVEXw, CONVEX. rewrite wrap32_id by exact H. reflexivity. Qed.

Lemma CONVEXw_box (M : Z) (a b c : pt) : M * M < 2147483648 -> inbox M a -> inbox M b -> inbox M c ->
  CONVEXw a b c = CONVEX a b c.
Proof.
  intros HM [A1 A2] [B1 B2] [C1 C2]. apply CONVEXw_exact.
  pose proof (cross_bound M a b c A1 A2 B1 B2 C1 C2). lia.
Qed.

(* ---------------------------------------------------------------- transfer to the whole kernel *)
Section Transfer.
  Variable cx : pt -> pt -> pt -> bool.
  Variable P : pt -> Prop.
  Hypothesis Hcx : forall a b c, P a -> P b -> P c -> cx a b c = CONVEX a b c.

  Lemma prune_g_eq st p : (forall x, In x st -> P x) -> P p -> prune_g cx st p = prune st p.
  Proof.
    induction st as [|b rest IH]; intros HP Hp; [reflexivity|].
    destruct rest as [|a r]; [reflexivity|].
    change (prune_g cx (b :: a :: r) p) with (if cx a b p then b :: a :: r else prune_g cx (a :: r) p).
    change (prune (b :: a :: r) p) with (if CONVEX a b p then b :: a :: r else prune (a :: r) p).
    rewrite Hcx by (try exact Hp; apply HP; cbn; tauto).
    destruct (CONVEX a b p); [reflexivity|]. apply IH; [|exact Hp]. intros x Hx. apply HP. right. exact Hx.
  Qed.

  Variables (m : Z) (pts : list pt).
  Hypothesis HPpts : forall x, In x pts -> P x.

  Lemma lower_fold_eq : forall cols st, incl st pts ->
    fold_left (lower_emit_g cx m (build_lower m pts)) cols st = fold_left (lower_emit m (build_lower m pts)) cols st
    /\ incl (fold_left (lower_emit m (build_lower m pts)) cols st) pts.
  Proof.
    induction cols as [|j cols IH]; intros st Hi; cbn [fold_left]; [auto|].
    assert (E : lower_emit_g cx m (build_lower m pts) st j = lower_emit m (build_lower m pts) st j).
    { unfold lower_emit_g, lower_emit. destruct (build_lower m pts j <? m + 1) eqn:E0; [|reflexivity].
      f_equal. apply prune_g_eq; [intros x Hx; apply HPpts, Hi, Hx|].
      apply HPpts. destruct (build_lower_in m pts j) as [B|B]; [lia | exact B]. }
    rewrite E. apply IH. unfold lower_emit. destruct (build_lower m pts j <? m + 1) eqn:E0; [|exact Hi].
    intros x [Hx|Hx]; [subst x; destruct (build_lower_in m pts j) as [B|B]; [lia | exact B] | apply Hi; eapply prune_subset; exact Hx].
  Qed.

  Lemma upper_fold_eq cap : forall cols st, incl st pts ->
    fold_left (upper_emit_g cx (build_upper pts) cap) cols st = fold_left (upper_emit (build_upper pts) cap) cols st
    /\ incl (fold_left (upper_emit (build_upper pts) cap) cols st) pts.
  Proof.
    induction cols as [|j cols IH]; intros st Hi; cbn [fold_left]; [auto|].
    assert (Hq : -1 <? build_upper pts j = true -> In (build_upper pts j, j) pts).
    { intros E0. destruct (build_upper_in pts j) as [B|B]; [lia | exact B]. }
    assert (E : upper_emit_g cx (build_upper pts) cap st j = upper_emit (build_upper pts) cap st j).
    { unfold upper_emit_g, upper_emit. destruct (-1 <? build_upper pts j) eqn:E0; [|reflexivity]. cbv zeta.
      rewrite prune_g_eq; [reflexivity | intros x Hx; apply HPpts, Hi, Hx | apply HPpts, Hq; reflexivity]. }
    rewrite E. apply IH. unfold upper_emit. destruct (-1 <? build_upper pts j) eqn:E0; [|exact Hi]. cbv zeta.
    assert (Hpr : incl (prune st (build_upper pts j, j)) pts) by (intros x Hx; apply Hi; eapply prune_subset; exact Hx).
    destruct (zlen (prune st (build_upper pts j, j)) <? cap); [|exact Hpr].
    intros x [Hx|Hx]; [subst x; apply Hq; reflexivity | apply Hpr; exact Hx].
  Qed.

End Transfer.

Lemma hull_label_g_eq (cx : pt -> pt -> pt -> bool) (P : pt -> Prop) :
  (forall a b c, P a -> P b -> P c -> cx a b c = CONVEX a b c) ->
  forall m pts slack, (forall x, In x pts -> P x) -> (forall q, In q pts -> 0 <= fst q) ->
  hull_label_g cx m pts slack = hull_label m pts slack.
Proof.
  intros Hcx m pts slack HP Hnn. destruct pts as [|p0 rest]; [reflexivity|].
  unfold hull_label_g, hull_label. cbv zeta.
  destruct (lower_fold_eq cx P Hcx m (p0 :: rest) HP (cols_up (snd p0) (snd (last (p0 :: rest) p0))) [] ltac:(intros x [])) as [E1 I1].
  rewrite E1.
  destruct (upper_fold_eq cx P Hcx (p0 :: rest) HP (slack + zlen (p0 :: rest)) (rev (cols_up (snd p0 + 1) (snd (last (p0 :: rest) p0)))) _ I1) as [E2 I2].
  rewrite E2.
  assert (HQ : In (build_upper (p0 :: rest) (snd p0), snd p0) (p0 :: rest)).
  { assert (Hp0 : In p0 (p0 :: rest)) by (left; reflexivity).
    pose proof (build_upper_ge (p0 :: rest) p0 Hp0). specialize (Hnn p0 Hp0).
    destruct (build_upper_in (p0 :: rest) (snd p0)) as [B|B]; [lia | exact B]. }
  rewrite (prune_g_eq cx P Hcx); [reflexivity | intros x Hx; apply HP, I2, Hx | apply HP, HQ].
Qed.

(* the as-written per-label kernel equals the exact one, hence is correct, inside the bound *)
Theorem hull_label_w_exact : forall M m pts slack, M * M < 2147483648 ->
  (forall q, In q pts -> inbox M q) -> hull_label_w m pts slack = hull_label m pts slack.
Proof.
  intros M m pts slack HM Hbox. unfold hull_label_w.
  apply (hull_label_g_eq CONVEXw (inbox M)); [intros; apply (CONVEXw_box M); assumption | exact Hbox|].
  intros q Hq. exact (proj1 (proj1 (Hbox q Hq))).
Qed.

Theorem hull_label_w_correct : forall M m pts slack, M * M < 2147483648 -> (forall q, In q pts -> inbox M q) ->
  label_ok m pts -> 0 <= slack -> HullSpec pts (hull_label_w m pts slack).
Proof. intros M m pts slack HM Hbox Hok Hs. rewrite (hull_label_w_exact M) by assumption. apply hull_label_correct; assumption. Qed.

(* F22: one coordinate above the bound and the as-written kernel prunes an extreme point that the exact
   kernel keeps (kernel-evaluated; the 46341 triangle of the report behaves the same but costs minutes
   to evaluate column by column) *)
Theorem convex_wrap_refuted : exists m pts,
  label_ok m pts /\ (forall q, In q pts -> 0 <= fst q < 2147483648 /\ 0 <= snd q <= 2) /\
  hull_label m pts 0 = [(2147483646, 0); (0, 1); (2147483646, 2)] /\
  hull_label_w m pts 0 = [(2147483646, 0); (2147483646, 2); (5, 1)] /\
  hull_ok pts (hull_label_w m pts 0) = false /\ CONVEXw (2147483646, 0) (0, 1) (2147483646, 2) = false.
Proof.
  exists 2147483646, [(2147483646, 0); (0, 1); (5, 1); (2147483646, 2)].
  split; [split; [intros s H; cbn in H; repeat (destruct H as [H|H]; [subst s; cbn; lia|]); contradiction
                 | repeat constructor; cbn; lia]|].
  split; [intros q H; cbn in H; repeat (destruct H as [H|H]; [subst q; cbn; lia|]); contradiction|].
  vm_compute. repeat split; reflexivity.
Qed.

Example wrap_sharp : 46340 * 46340 < 2147483648 /\ 2147483648 <= 46341 * 46341
  /\ CONVEXw (0, 0) (0, 46341) (46341, 46341) = false /\ CONVEX (0, 0) (0, 46341) (46341, 46341) = true
  /\ CONVEXw (0, 0) (0, 46340) (46340, 46340) = true.
Proof. vm_compute. repeat split; reflexivity || discriminate. Qed.
