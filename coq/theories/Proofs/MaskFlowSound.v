(* C12 — soundness of the radius checker of Model/MaskFlow.v: a program accepted by [accepts]
   is non-interfering inside the mask for every admissible interpretation of the library
   symbols; a program of the shape [Select _ MaskE Img] returns the input outside the mask. *)
From Coq Require Import ZArith List Bool Lia.
From Centro Require Import Model.MaskFlow.
Import ListNotations.
Open Scope Z_scope.

(* ------------------------------------------------------------ induction principle with lists *)
Section Ind.
Variable P : expr -> Prop.
Hypothesis HImg : P Img.
Hypothesis HMask : P MaskE.
Hypothesis HFalse : P FalseC.
Hypothesis HConst : forall c, P (Const c).
Hypothesis HErode : forall r m, P m -> P (Erode r m).
Hypothesis HErodeP : forall r m, P m -> P (ErodeP r m).
Hypothesis HPw : forall f es, Forall P es -> P (Pw f es).
Hypothesis HLoc : forall r f e, P e -> P (Loc r f e).
Hypothesis HGlob : forall f es, Forall P es -> P (Glob f es).
Hypothesis HSelect : forall e1 m e2, P e1 -> P m -> P e2 -> P (Select e1 m e2).
Hypothesis HMConv : forall k e m, P e -> P m -> P (MConv k e m).
Fixpoint expr_ind2 (e : expr) : P e :=
  let go := fix go (l : list expr) : Forall P l :=
    match l with [] => Forall_nil P | x :: t => Forall_cons x (expr_ind2 x) (go t) end in
  match e with
  | Img => HImg | MaskE => HMask | FalseC => HFalse | Const c => HConst c
  | Erode r m => HErode r m (expr_ind2 m)
  | ErodeP r m => HErodeP r m (expr_ind2 m)
  | Pw f es => HPw f es (go es)
  | Loc r f e => HLoc r f e (expr_ind2 e)
  | Glob f es => HGlob f es (go es)
  | Select a m b => HSelect a m b (expr_ind2 a) (expr_ind2 m) (expr_ind2 b)
  | MConv k a m => HMConv k a m (expr_ind2 a) (expr_ind2 m)
  end.
End Ind.

(* ------------------------------------------------------------ distances *)
Lemma dist_self p : dist p p = 0.
Proof. unfold dist. lia. Qed.
Lemma dist_zero p q : dist p q <= 0 -> q = p.
Proof. unfold dist. destruct p, q; cbn [fst snd]. intros H. f_equal; lia. Qed.
Lemma dist_tri p q s : dist p s <= dist p q + dist q s.
Proof. unfold dist. lia. Qed.

(* ------------------------------------------------------------ radii *)
Definition rsub (a b : rad) : Prop :=
  match a with None => True | Some x => match b with Some y => (x <= y)%nat | None => False end end.
Lemma rmax_l a b : rsub a (rmax a b).
Proof. destruct a, b; cbn; auto; lia. Qed.
Lemma rmax_r a b : rsub b (rmax a b).
Proof. destruct a, b; cbn; auto; lia. Qed.
Lemma rsub_trans a b c : rsub a b -> rsub b c -> rsub a c.
Proof. destruct a, b, c; cbn; auto; try lia; tauto. Qed.
Lemma rsub_refl a : rsub a a.
Proof. destruct a; cbn; auto. Qed.

Lemma px_eq_dec_aux (q p : px) : q = p \/ q <> p.
Proof. destruct q as [a b], p as [c d]. destruct (Z.eq_dec a c), (Z.eq_dec b d); subst; auto; right; intros H; inversion H; auto. Qed.

Section Sound.
Variable I : interp.
Variable mask : px -> bool.
Notation image := (px -> V I).
Notation ev := (eval I mask).

Definition agree (a b : image) : Prop := forall q, mask q = true -> a q = b q.
Definition near (r : rad) (a b : image) (p : px) : Prop :=
  match r with None => True | Some k => forall q, dist p q <= Z.of_nat k -> a q = b q end.
(* the semantic judgement behind a radius *)
Definition dep (r : rad) (e : expr) : Prop :=
  forall a b, agree a b -> forall p, near r a b p -> ev e a p = ev e b p.

Lemma near_weaken r r' a b p : rsub r r' -> near r' a b p -> near r a b p.
Proof.
  destruct r as [x|]; cbn; auto. destruct r' as [y|]; cbn; [|tauto].
  intros L H q Hq. apply H. lia.
Qed.
Lemma near_shift x r a b p q : near (radd x r) a b p -> dist p q <= Z.of_nat r -> near x a b q.
Proof.
  destruct x as [k|]; cbn; auto. intros H Hq s Hs. apply H.
  pose proof (dist_tri p q s). lia.
Qed.
Lemma dep_weaken r r' e : dep r e -> rsub r r' -> dep r' e.
Proof. intros H L a b Hab p Hp. apply H; auto. eapply near_weaken; eauto. Qed.

Lemma guar_sound m : forall g pu, guar m = Some (g, pu) -> forall a p, truthy I (ev m a p) = true ->
  forall q, dist p q <= Z.of_nat g -> (pu = true -> q <> p) -> mask q = true.
Proof.
  induction m; cbn [guar]; intros g pu Hg; try discriminate.
  - (* MaskE *) inversion Hg; subst. intros a p Hp q Hq _. cbn [eval] in Hp. rewrite truthy_mask in Hp.
    apply dist_zero in Hq. subst; auto.
  - (* Erode *) destruct (guar m) as [[g0 [|]]|] eqn:E; try discriminate. inversion Hg; subst.
    intros a p Hp q Hq _. cbn [eval] in Hp.
    set (qi := (fst p + Z.max (- Z.of_nat r) (Z.min (Z.of_nat r) (fst q - fst p)),
                snd p + Z.max (- Z.of_nat r) (Z.min (Z.of_nat r) (snd q - snd p)))).
    assert (D1 : dist p qi <= Z.of_nat r) by (unfold dist, qi in *; cbn [fst snd]; lia).
    assert (D2 : dist qi q <= Z.of_nat g0) by (unfold dist, qi in *; cbn [fst snd] in *; lia).
    eapply (IHm g0 false eq_refl a qi); [|exact D2|discriminate].
    eapply erode_guarantee; eauto.
  - (* ErodeP *) destruct (guar m) as [[[|g0] [|]]|] eqn:E; try discriminate. inversion Hg; subst.
    intros a p Hp q Hq Hne. cbn [eval] in Hp.
    eapply (IHm 0%nat false eq_refl a q); [|rewrite dist_self; cbn; lia|discriminate].
    eapply erodep_guarantee; eauto.
  - (* Select m1 m2 FalseC *)
    destruct m3; try discriminate.
    intros a p Hp q Hq Hne. cbn [eval] in Hp.
    destruct (truthy I (ev m2 a p)) eqn:T2; [|rewrite truthy_false in Hp; discriminate].
    destruct (guar m2) as [[g2 p2]|] eqn:G2; destruct (guar m1) as [[g1 p1]|] eqn:G1;
      cbn [gjoin] in Hg; try discriminate.
    + assert (g = Nat.max g2 g1 /\ pu = p2 && p1) as [-> ->] by (inversion Hg; auto). clear Hg.
      destruct (px_eq_dec_aux q p) as [Eq|Nq].
      * subst q. destruct p2.
        -- destruct p1; cbn [andb] in Hne; [exfalso; apply Hne; auto|].
           eapply (IHm1 g1 false eq_refl a p Hp p); [rewrite dist_self; lia|discriminate].
        -- eapply (IHm2 g2 false eq_refl a p T2 p); [rewrite dist_self; lia|discriminate].
      * destruct (Nat.le_gt_cases g1 g2) as [L|L].
        -- eapply (IHm2 g2 p2 eq_refl a p T2 q); [lia|auto].
        -- eapply (IHm1 g1 p1 eq_refl a p Hp q); [lia|auto].
    + assert (g = g2 /\ pu = p2) as [-> ->] by (inversion Hg; auto).
      eapply (IHm2 g2 p2 eq_refl a p T2 q); auto.
    + assert (g = g1 /\ pu = p1) as [-> ->] by (inversion Hg; auto).
      eapply (IHm1 g1 p1 eq_refl a p Hp q); auto.
Qed.

Lemma Forall2_map_same {A B} (R : B -> B -> Prop) (f g : A -> B) l :
  (forall x, In x l -> R (f x) (g x)) -> Forall2 R (map f l) (map g l).
Proof. induction l; cbn; intros H; constructor; auto. Qed.

Lemma pw_fold es : forall R,
  fold_right (fun e' acc => match rb e', acc with Some a, Some b => Some (rmax a b) | _, _ => None end)
             (Some None) es = Some R ->
  forall e, In e es -> exists x, rb e = Some x /\ rsub x R.
Proof.
  induction es as [|e0 es IH]; cbn [fold_right]; intros R H e Hin; [destruct Hin|].
  destruct (rb e0) as [x0|] eqn:E0; [|discriminate].
  destruct (fold_right _ _ es) as [R0|] eqn:EF; [|discriminate]. inversion H; subst; clear H.
  destruct Hin as [->|Hin].
  - exists x0; split; auto. apply rmax_l.
  - destruct (IH R0 eq_refl e Hin) as [x [Hx Sx]]. exists x; split; auto.
    eapply rsub_trans; [exact Sx|apply rmax_r].
Qed.

Theorem rb_sound e : forall r, rb e = Some r -> dep r e.
Proof.
  induction e as [| | | c | r e IHe | r e IHe | f es IHes | r f e IHe | f es IHes | e1 e2 e3 IHe1 IHe2 IHe3 | k e1 e2 IHe1 IHe2] using expr_ind2; cbn [rb]; intros rr H.
  - (* Img *) inversion H; subst. intros a b Hab p Hp. cbn. apply Hp. rewrite dist_self; lia.
  - inversion H; subst. intros a b Hab p Hp. reflexivity.
  - inversion H; subst. intros a b Hab p Hp. reflexivity.
  - inversion H; subst. intros a b Hab p Hp. reflexivity.
  - (* Erode *) destruct (rb e) as [x|] eqn:E; inversion H; subst. intros a b Hab p Hp; cbn [eval].
    apply erode_local. intros q Hq. apply (IHe _ eq_refl a b Hab q). eapply near_shift; eauto.
  - (* ErodeP *) destruct (rb e) as [x|] eqn:E; inversion H; subst. intros a b Hab p Hp; cbn [eval].
    apply erodep_local. intros q Hq. apply (IHe _ eq_refl a b Hab q). eapply near_shift; eauto.
  - (* Pw *) intros a b Hab p Hp. cbn [eval]. f_equal. apply map_ext_in. intros e He.
    destruct (pw_fold es rr H e He) as [x [Hx Sx]].
    rewrite Forall_forall in IHes. apply (IHes e He x Hx a b Hab p). eapply near_weaken; eauto.
  - (* Loc *) destruct (rb e) as [x|] eqn:E; inversion H; subst. intros a b Hab p Hp; cbn [eval].
    apply loc_local. intros q Hq. apply (IHe _ eq_refl a b Hab q). eapply near_shift; eauto.
  - (* Glob *) destruct (forallb _ es) eqn:F; inversion H; subst. intros a b Hab p Hp; cbn [eval].
    apply glob_ext. apply Forall2_map_same. intros e He q.
    rewrite forallb_forall in F. specialize (F e He). unfold is_clean in F.
    destruct (rb e) as [[k|]|] eqn:E; try discriminate F.
    rewrite Forall_forall in IHes. apply (IHes e He None E a b Hab q). exact Logic.I.
  - (* Select *)
    destruct (rb e1) as [x|] eqn:E1; [|cbn in H; discriminate H]. destruct (rb e2) as [y|] eqn:E2; [|cbn in H; discriminate H].
    destruct (rb e3) as [z|] eqn:E3; [|cbn in H; discriminate H]. inversion H; subst; clear H.
    set (x' := match guar e2 with
               | Some (g, punct) =>
                   if rle x g then (if punct then (match x with None => None | Some _ => Some 0%nat end) else None)
                   else x
               | None => x end).
    set (R := rmax x' (rmax y z)).
    intros a b Hab p Hp. cbn [eval].
    assert (Sy : rsub y R) by (eapply rsub_trans; [apply rmax_l | apply rmax_r]).
    assert (Sz : rsub z R) by (eapply rsub_trans; [apply rmax_r | apply rmax_r]).
    assert (Sx' : rsub x' R) by apply rmax_l.
    assert (Hm : ev e2 a p = ev e2 b p) by (apply (dep_weaken y R e2 (IHe2 _ eq_refl) Sy a b Hab p Hp)).
    rewrite <- Hm. destruct (truthy I (ev e2 a p)) eqn:Tm.
    + unfold x' in Sx'. destruct (guar e2) as [[g pu]|] eqn:G.
      * destruct (rle x g) eqn:RL.
        -- apply (IHe1 _ eq_refl a b Hab p). destruct x as [k|]; [|exact Logic.I].
           cbn [rle] in RL. apply Nat.leb_le in RL.
           intros q Hq. destruct (px_eq_dec_aux q p) as [Eq|Nq].
           ++ subst q. destruct pu.
              ** (* punctured: the centre comes from the resulting radius Some 0 *)
                 assert (N0 : near (Some 0%nat) a b p) by (eapply near_weaken; [exact Sx'|exact Hp]).
                 apply N0. rewrite dist_self; cbn; lia.
              ** apply Hab. eapply (guar_sound e2 g false G a p Tm p); [rewrite dist_self; lia|discriminate].
           ++ apply Hab. eapply (guar_sound e2 g pu G a p Tm q); [lia|auto].
        -- apply (dep_weaken x R e1 (IHe1 _ eq_refl) Sx' a b Hab p Hp).
      * apply (dep_weaken x R e1 (IHe1 _ eq_refl) Sx' a b Hab p Hp).
    + apply (dep_weaken z R e3 (IHe3 _ eq_refl) Sz a b Hab p Hp).
  - (* MConv *)
    destruct (rb e1) as [x|] eqn:E1; [|cbn in H; discriminate H].
    destruct (rb e2) as [[k2|]|] eqn:E2; try (cbn in H; discriminate H).
    destruct (guar e2) as [[g [|]]|] eqn:G; try (cbn in H; discriminate H).
    destruct (rle x g) eqn:RL; inversion H; subst; clear H.
    intros a b Hab p _. cbn [eval].
    assert (Hm : forall q, ev e2 a q = ev e2 b q) by (intros q; apply (IHe2 _ eq_refl a b Hab q); exact Logic.I).
    rewrite <- (Hm p). destruct (truthy I (ev e2 a p)) eqn:Tp; [|reflexivity].
    f_equal. unfold mconv_terms. apply flat_map_ext. intros d.
    rewrite <- (Hm (padd p d)). destruct (truthy I (ev e2 a (padd p d))) eqn:Td; [|reflexivity].
    do 2 f_equal. apply (IHe1 _ eq_refl a b Hab (padd p d)).
    destruct x as [kx|]; [|exact Logic.I]. cbn [rle] in RL. apply Nat.leb_le in RL.
    intros q Hq. apply Hab. eapply (guar_sound e2 g false G a (padd p d) Td q); [lia|discriminate].
Qed.

(* the property: a program accepted at radius <= 0 is non-interfering inside the mask *)
Theorem maskflow_sound e r : rb e = Some r -> rle r 0 = true ->
  forall a b, agree a b -> forall p, mask p = true -> ev e a p = ev e b p.
Proof.
  intros H L a b Hab p Hp. apply (rb_sound e r H a b Hab p).
  destruct r as [k|]; [|exact Logic.I]. cbn [rle] in L. apply Nat.leb_le in L.
  intros q Hq. assert (q = p) by (apply dist_zero; lia). subst; auto.
Qed.

Theorem restore_outside e1 (img : image) p : mask p = false -> ev (Select e1 MaskE Img) img p = img p.
Proof. intros Hp. cbn [eval]. rewrite truthy_mask, Hp. reflexivity. Qed.
End Sound.

(* ------------------------------------------------------------ the checkers are sound *)
Theorem accepts_sound e : accepts e = true -> noninterfering e.
Proof.
  unfold accepts, noninterfering. intros H I mask a b Hab p Hp.
  destruct (rb e) as [r|] eqn:E; [|discriminate].
  apply (maskflow_sound I mask e r E H a b Hab p Hp).
Qed.

Theorem restores_outside_sound e : restores_outside e = true -> restoring e.
Proof.
  unfold restoring. induction e; cbn [restores_outside]; intros H I mask img p Hp; try discriminate.
  - reflexivity.
  - apply orb_true_iff in H as [H|H].
    + destruct e2; try discriminate. destruct e3; try discriminate. apply restore_outside; auto.
    + apply andb_true_iff in H as [H1 H3]. cbn [eval].
      destruct (truthy I (eval I mask e2 img p)); [apply IHe1|apply IHe3]; auto.
Qed.

(* every term of a generated list: one rejected term breaks the premise *)
Theorem all_accepted_noninterfering l : forallb accepts l = true -> Forall noninterfering l.
Proof. intros H. apply Forall_forall. intros e He. apply accepts_sound. rewrite forallb_forall in H. auto. Qed.
Theorem all_restoring l : forallb restores_outside l = true -> Forall restoring l.
Proof. intros H. apply Forall_forall. intros e He. apply restores_outside_sound. rewrite forallb_forall in H. auto. Qed.

(* the masked convolution kernel of _filter.pyx reads no pixel outside the mask *)
Theorem masked_conv_clean k : forall (I : interp) (mask : px -> bool) (a b : px -> V I),
  (forall q, mask q = true -> a q = b q) ->
  forall p, eval I mask (MConv k Img MaskE) a p = eval I mask (MConv k Img MaskE) b p.
Proof.
  intros I mask a b Hab p.
  assert (H : rb (MConv k Img MaskE) = Some None) by reflexivity.
  apply (rb_sound I mask _ _ H a b Hab p). exact Logic.I.
Qed.
