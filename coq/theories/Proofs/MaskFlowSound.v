(* C12 — soundness of the dependence checker of Model/MaskFlow.v: a program (shared definitions + main term)
   accepted by [accepts] is non-interfering inside the mask for every admissible interpretation of the library
   symbols; a program whose main term ends every path in [Select _ MaskE Img] returns the input outside the mask. *)
From Coq Require Import ZArith List Bool Lia.
From Centro Require Import Model.MaskFlow.
Import ListNotations.
Open Scope Z_scope.

(* ------------------------------------------------------------ induction principle with lists *)
Section Ind.
Variable P : expr -> Prop.
Hypothesis HImg : P Img.
Hypothesis HMask : P MaskE.
Hypothesis HFalse : P FalseC.
Hypothesis HConst : forall c, P (Const c).
Hypothesis HRef : forall k, P (Ref k).
Hypothesis HErode : forall r m, P m -> P (Erode r m).
Hypothesis HErodeP : forall r m, P m -> P (ErodeP r m).
Hypothesis HErodeS : forall s m, P m -> P (ErodeS s m).
Hypothesis HPw : forall f es, Forall P es -> P (Pw f es).
Hypothesis HLoc : forall r f e, P e -> P (Loc r f e).
Hypothesis HLocS : forall s f e, P e -> P (LocS s f e).
Hypothesis HGlob : forall f es, Forall P es -> P (Glob f es).
Hypothesis HSelect : forall e1 m e2, P e1 -> P m -> P e2 -> P (Select e1 m e2).
Hypothesis HMConv : forall k e m, P e -> P m -> P (MConv k e m).
Fixpoint expr_ind2 (e : expr) : P e :=
  let go := fix go (l : list expr) : Forall P l :=
    match l with [] => Forall_nil P | x :: t => Forall_cons x (expr_ind2 x) (go t) end in
  match e with
  | Img => HImg | MaskE => HMask | FalseC => HFalse | Const c => HConst c | Ref k => HRef k
  | Erode r m => HErode r m (expr_ind2 m)
  | ErodeP r m => HErodeP r m (expr_ind2 m)
  | ErodeS s m => HErodeS s m (expr_ind2 m)
  | Pw f es => HPw f es (go es)
  | Loc r f e => HLoc r f e (expr_ind2 e)
  | LocS s f e => HLocS s f e (expr_ind2 e)
  | Glob f es => HGlob f es (go es)
  | Select a m b => HSelect a m b (expr_ind2 a) (expr_ind2 m) (expr_ind2 b)
  | MConv k a m => HMConv k a m (expr_ind2 a) (expr_ind2 m)
  end.
End Ind.

(* ------------------------------------------------------------ distances *)
Lemma dist_self p : dist p p = 0.
Proof. unfold dist. lia. Qed.
Lemma dist_zero p q : dist p q <= 0 -> q = p.
Proof. unfold dist. destruct p, q; cbn [fst snd]. intros H. f_equal; lia. Qed.
Lemma dist_tri p q s : dist p s <= dist p q + dist q s.
Proof. unfold dist. lia. Qed.
Lemma px_eq_dec_aux (q p : px) : q = p \/ q <> p.
Proof. destruct q as [a b], p as [c d]. destruct (Z.eq_dec a c), (Z.eq_dec b d); subst; auto; right; intros H; inversion H; auto. Qed.

Lemma Forall2_map_same {A B} (R : B -> B -> Prop) (f g : A -> B) l :
  (forall x, In x l -> R (f x) (g x)) -> Forall2 R (map f l) (map g l).
Proof. induction l; cbn; intros H; constructor; auto. Qed.

Section Sound.
Variable I : interp.
Variable mask : px -> bool.
Notation image := (px -> V I).

Definition agree (a b : image) : Prop := forall q, mask q = true -> a q = b q.
(* the semantic reading of a dependence: "the two images also agree there" *)
Definition near (r : rad) (a b : image) (p : px) : Prop :=
  match r with
  | None => True
  | Some (R k) => forall q, dist p q <= Z.of_nat k -> a q = b q
  | Some (S s) => a p = b p /\ forall d, sset I s d = true -> a (padd p d) = b (padd p d)
  end.
(* the semantic reading of a guarantee at a pixel where the selector is truthy *)
Definition gsem (g : ginfo) (p : px) : Prop :=
  match g with
  | GR g pu => forall q, dist p q <= Z.of_nat g -> (pu = true -> q <> p) -> mask q = true
  | GS s pu => (pu = false -> mask p = true) /\
               forall d, sset I s d = true -> padd p d <> p -> mask (padd p d) = true
  end.
Definition gsemo (o : option ginfo) (p : px) : Prop := match o with Some g => gsem g p | None => True end.

Lemma near_R0 a b p : near (Some (R 0%nat)) a b p <-> a p = b p.
Proof.
  cbn. split.
  - intros H. apply H. rewrite dist_self. lia.
  - intros H q Hq. apply dist_zero in Hq. subst; auto.
Qed.

Lemma rmax_sound x y z a b p : rmax x y = Some z -> near z a b p -> near x a b p /\ near y a b p.
Proof.
  destruct x as [[kx|sx]|], y as [[ky|sy]|]; cbn [rmax]; intros E N.
  - inversion E; subst. split; intros q Hq; apply N; lia.
  - destruct kx; inversion E; subst. split; [apply near_R0; apply N|exact N].
  - inversion E; subst. split; [exact N|exact Logic.I].
  - destruct ky; inversion E; subst. split; [exact N|apply near_R0; apply N].
  - destruct (Nat.eqb sx sy) eqn:Q; inversion E; subst. apply Nat.eqb_eq in Q. subst. auto.
  - inversion E; subst. split; [exact N|exact Logic.I].
  - inversion E; subst. split; [exact Logic.I|exact N].
  - inversion E; subst. split; [exact Logic.I|exact N].
  - inversion E; subst. split; exact Logic.I.
Qed.

Lemma radd_sound x r z a b p q : radd x r = Some z -> near z a b p -> dist p q <= Z.of_nat r -> near x a b q.
Proof.
  destruct x as [[k|s]|]; cbn [radd]; intros E N Hq; inversion E; subst; cbn; auto.
  intros t Ht. apply N. pose proof (dist_tri p q t). lia.
Qed.

Lemma rstruct_sound x s z a b p : rstruct x s = Some z -> near z a b p ->
  near x a b p /\ forall d, sset I s d = true -> near x a b (padd p d).
Proof.
  destruct x as [[[|k]|t]|]; cbn [rstruct]; intros E N; inversion E; subst.
  - destruct N as [N0 N1]. split; [apply near_R0; auto|]. intros d Hd. apply near_R0. auto.
  - split; [exact Logic.I|intros; exact Logic.I].
Qed.

Lemma gjoin_sound ga gb p : gsemo ga p -> gsemo gb p -> gsemo (gjoin ga gb) p.
Proof.
  destruct ga as [[g1 p1|s1 p1]|], gb as [[g2 p2|s2 p2]|]; cbn [gjoin gsemo gsem]; intros A B; auto.
  - intros q Hq Hne. destruct (px_eq_dec_aux q p) as [->|Nq].
    + destruct p1.
      * destruct p2; [exfalso; apply Hne; auto|]. apply B; [rewrite dist_self; lia|discriminate].
      * apply A; [rewrite dist_self; lia|discriminate].
    + destruct (Nat.le_gt_cases g1 g2); [apply B|apply A]; auto; lia.
  - destruct B as [B0 B1]. split; auto. intros E. destruct p2; [|auto].
    destruct p1; [discriminate|]. apply A; [rewrite dist_self; lia|discriminate].
  - destruct A as [A0 A1]. split; auto. intros E. destruct p1; [|auto].
    destruct p2; [discriminate|]. apply B; [rewrite dist_self; lia|discriminate].
  - destruct A as [A0 A1], B as [B0 B1]. split; auto. intros E. destruct p1; [|auto]. destruct p2; [discriminate|auto].
Qed.

Lemma discount_sound x g a b p : agree a b -> gsemo g p -> near (discount x g) a b p -> near x a b p.
Proof.
  intros Hab G N. destruct x as [[k|s]|]; [| |exact Logic.I].
  - destruct g as [[gg pu|t pu]|]; cbn [discount] in N.
    + destruct (Nat.leb k gg) eqn:L; [|exact N]. apply Nat.leb_le in L. cbn [gsemo gsem] in G.
      intros q Hq. destruct (px_eq_dec_aux q p) as [->|Nq].
      * destruct pu; [apply near_R0 in N; auto|]. apply Hab. apply G; [rewrite dist_self; lia|discriminate].
      * apply Hab. apply G; [lia|auto].
    + destruct k; [|exact N]. destruct pu; [exact N|]. apply near_R0. apply Hab. apply G. reflexivity.
    + exact N.
  - destruct g as [[gg pu|t pu]|]; cbn [discount] in N; try exact N.
    destruct (Nat.eqb s t) eqn:Q; [|exact N]. apply Nat.eqb_eq in Q. subst t. destruct G as [G0 G1]. split.
    + destruct pu; [apply near_R0 in N; auto|]. apply Hab. auto.
    + intros d Hd. destruct (px_eq_dec_aux (padd p d) p) as [E|Ne].
      * rewrite E. destruct pu; [apply near_R0 in N; auto|]. apply Hab. auto.
      * apply Hab. auto.
Qed.

(* ------------------------------------------------------------ environments of shared definitions *)
Section Env.
Variables a b : image.
Hypothesis Hab : agree a b.
Notation dflt := (fun _ : px => falsev I).

(* every definition k satisfies what the checker recorded about it *)
Definition Inv (G : cenv) (ra rb' : list image) : Prop :=
  length ra = length G /\ length rb' = length G /\
  forall k r g, nth_error G k = Some (r, g) ->
    (forall p, near r a b p -> nth k ra dflt p = nth k rb' dflt p) /\
    (forall p, truthy I (nth k ra dflt p) = true -> gsemo g p).

Variable G : cenv.
Variables ra rb' : list image.
Hypothesis HInv : Inv G ra rb'.
Notation eva := (eval I mask ra).
Notation evb := (eval I mask rb').

Lemma guar_sound m : forall gi, guar G m = Some gi -> forall p, truthy I (eva m a p) = true -> gsem gi p.
Proof.
  induction m; cbn [guar]; intros gi Hg; try discriminate.
  - (* MaskE *) inversion Hg; subst. intros p Hp q Hq _. cbn [eval] in Hp. rewrite truthy_mask in Hp.
    apply dist_zero in Hq. subst; auto.
  - (* Ref *) destruct (nth_error G k) as [[r g]|] eqn:E; [|discriminate]. subst g.
    intros p Hp. cbn [eval] in Hp. destruct HInv as [_ [_ H]]. apply (proj2 (H k r (Some gi) E) p Hp).
  - (* Erode *) destruct (guar G m) as [[g0 [|]|]|] eqn:E; try discriminate. inversion Hg; subst.
    intros p Hp q Hq _. cbn [eval] in Hp.
    set (qi := (fst p + Z.max (- Z.of_nat r) (Z.min (Z.of_nat r) (fst q - fst p)),
                snd p + Z.max (- Z.of_nat r) (Z.min (Z.of_nat r) (snd q - snd p)))).
    assert (D1 : dist p qi <= Z.of_nat r) by (unfold dist, qi in *; cbn [fst snd]; lia).
    assert (D2 : dist qi q <= Z.of_nat g0) by (unfold dist, qi in *; cbn [fst snd] in *; lia).
    apply (IHm (GR g0 false) eq_refl qi); [|exact D2|discriminate].
    eapply erode_guarantee; eauto.
  - (* ErodeP *) destruct (guar G m) as [[[|g0] [|]|]|] eqn:E; try discriminate. inversion Hg; subst.
    intros p Hp q Hq Hne. cbn [eval] in Hp.
    apply (IHm (GR 0%nat false) eq_refl q); [|rewrite dist_self; cbn; lia|discriminate].
    eapply erodep_guarantee; eauto.
  - (* ErodeS *) destruct (guar G m) as [[[|g0] [|]|]|] eqn:E; try discriminate. inversion Hg; subst.
    intros p Hp. cbn [eval] in Hp. split; [discriminate|]. intros d Hd Hne.
    apply (IHm (GR 0%nat false) eq_refl (padd p d)); [|rewrite dist_self; cbn; lia|discriminate].
    eapply erodes_guarantee; eauto.
  - (* Select m1 m2 FalseC *)
    destruct m3; try discriminate.
    intros p Hp. cbn [eval] in Hp.
    destruct (truthy I (eva m2 a p)) eqn:T2; [|rewrite truthy_false in Hp; discriminate].
    assert (J : gsemo (gjoin (guar G m2) (guar G m1)) p).
    { apply gjoin_sound.
      - destruct (guar G m2) as [g2|]; cbn; auto.
      - destruct (guar G m1) as [g1|]; cbn; auto. }
    rewrite Hg in J. exact J.
Qed.

Lemma pw_fold es : forall Rr,
  fold_right (fun e' acc => bind2 (rb G e') acc) (Some None) es = Some Rr ->
  forall e, In e es -> exists x, rb G e = Some x /\ forall p, near Rr a b p -> near x a b p.
Proof.
  induction es as [|e0 es IH]; cbn [fold_right]; intros Rr H e Hin; [destruct Hin|].
  destruct (rb G e0) as [x0|] eqn:E0; [|discriminate].
  destruct (fold_right _ _ es) as [R0|] eqn:EF; [|discriminate]. cbn [bind2] in H.
  destruct Hin as [->|Hin].
  - exists x0; split; auto. intros p N. apply (proj1 (rmax_sound _ _ _ _ _ _ H N)).
  - destruct (IH R0 eq_refl e Hin) as [x [Hx Sx]]. exists x; split; auto.
    intros p N. apply Sx. apply (proj2 (rmax_sound _ _ _ _ _ _ H N)).
Qed.

Theorem rb_sound e : forall r, rb G e = Some r -> forall p, near r a b p -> eva e a p = evb e b p.
Proof.
  induction e as [| | | c | k | r e IHe | r e IHe | s e IHe | f es IHes | r f e IHe | s f e IHe | f es IHes
                 | e1 e2 e3 IHe1 IHe2 IHe3 | k e1 e2 IHe1 IHe2] using expr_ind2; cbn [rb]; intros rr H p Hp.
  - (* Img *) inversion H; subst. cbn [eval]. apply near_R0 in Hp. exact Hp.
  - reflexivity.
  - reflexivity.
  - reflexivity.
  - (* Ref *) destruct (nth_error G k) as [[r g]|] eqn:E; [|discriminate]. inversion H; subst. cbn [eval].
    destruct HInv as [_ [_ HI]]. apply (proj1 (HI k rr g E) p Hp).
  - (* Erode *) destruct (rb G e) as [x|] eqn:E; [|discriminate]. cbn [eval].
    apply erode_local. intros q Hq. apply (IHe _ eq_refl q). eapply radd_sound; eauto.
  - (* ErodeP *) destruct (rb G e) as [x|] eqn:E; [|discriminate]. cbn [eval].
    apply erodep_local. intros q Hq. apply (IHe _ eq_refl q). eapply radd_sound; eauto.
  - (* ErodeS *) destruct (rb G e) as [x|] eqn:E; [|discriminate]. cbn [eval].
    destruct (rstruct_sound _ _ _ _ _ _ H Hp) as [N0 N1].
    apply erodes_local; [apply (IHe _ eq_refl p N0)|]. intros d Hd. apply (IHe _ eq_refl _ (N1 d Hd)).
  - (* Pw *) cbn [eval]. f_equal. apply map_ext_in. intros e He.
    destruct (pw_fold es rr H e He) as [x [Hx Sx]].
    rewrite Forall_forall in IHes. apply (IHes e He x Hx p). auto.
  - (* Loc *) destruct (rb G e) as [x|] eqn:E; [|discriminate]. cbn [eval].
    apply loc_local. intros q Hq. apply (IHe _ eq_refl q). eapply radd_sound; eauto.
  - (* LocS *) destruct (rb G e) as [x|] eqn:E; [|discriminate]. cbn [eval].
    destruct (rstruct_sound _ _ _ _ _ _ H Hp) as [N0 N1].
    apply locs_local; [apply (IHe _ eq_refl p N0)|]. intros d Hd. apply (IHe _ eq_refl _ (N1 d Hd)).
  - (* Glob *) destruct (forallb _ es) eqn:F; inversion H; subst. cbn [eval].
    apply glob_ext. apply Forall2_map_same. intros e He q.
    rewrite forallb_forall in F. specialize (F e He). unfold is_clean in F.
    destruct (rb G e) as [[d|]|] eqn:E; try discriminate F.
    rewrite Forall_forall in IHes. apply (IHes e He None E q). exact Logic.I.
  - (* Select *)
    destruct (rb G e1) as [x|] eqn:E1; [|discriminate].
    destruct (rb G e2) as [y|] eqn:E2; [|cbn in H; discriminate H].
    destruct (rb G e3) as [z|] eqn:E3; [|cbn in H; discriminate H].
    cbn [bind2] in H. destruct (rmax y z) as [yz|] eqn:Eyz; [|discriminate H].
    destruct (rmax_sound _ _ _ _ _ _ H Hp) as [Nx' Nyz].
    destruct (rmax_sound _ _ _ _ _ _ Eyz Nyz) as [Ny Nz].
    cbn [eval].
    assert (Hm : eva e2 a p = evb e2 b p) by (apply (IHe2 _ eq_refl p Ny)).
    rewrite <- Hm. destruct (truthy I (eva e2 a p)) eqn:Tm.
    + apply (IHe1 _ eq_refl p). apply (discount_sound x (guar G e2) a b p Hab); auto.
      destruct (guar G e2) as [gi|] eqn:Gm; cbn; auto. apply (guar_sound e2 gi Gm p Tm).
    + apply (IHe3 _ eq_refl p Nz).
  - (* MConv *)
    destruct (rb G e1) as [x|] eqn:E1; [|discriminate].
    assert (X : exists g, rb G e2 = Some None /\ guar G e2 = Some (GR g false) /\
                          (x = None \/ exists k, x = Some (R k) /\ (k <= g)%nat)).
    { destruct x as [[kx|s]|]; destruct (rb G e2) as [[d|]|]; try discriminate H;
        destruct (guar G e2) as [[g [|]|s' pu]|]; try discriminate H.
      - destruct (Nat.leb kx g) eqn:L; [|discriminate H]. apply Nat.leb_le in L. exists g. repeat split; auto.
        right. exists kx. auto.
      - exists g. repeat split; auto. }
    destruct X as [g [E2 [Gm Hx]]]. cbn [eval].
    assert (Hm : forall q, eva e2 a q = evb e2 b q) by (intros q; apply (IHe2 _ E2 q); exact Logic.I).
    rewrite <- (Hm p). destruct (truthy I (eva e2 a p)) eqn:Tp; [|reflexivity].
    f_equal. unfold mconv_terms. apply flat_map_ext. intros d.
    rewrite <- (Hm (padd p d)). destruct (truthy I (eva e2 a (padd p d))) eqn:Td; [|reflexivity].
    do 2 f_equal. apply (IHe1 _ eq_refl (padd p d)).
    destruct Hx as [->|[kx [-> L]]]; [exact Logic.I|].
    intros q Hq. apply Hab. apply (guar_sound e2 _ Gm (padd p d) Td q); [lia|discriminate].
Qed.
End Env.

(* ------------------------------------------------------------ programs *)
Lemma Inv_nil a b : Inv a b [] [] [].
Proof. split; [reflexivity|split; [reflexivity|]]. intros k r g E. destruct k; discriminate. Qed.

Lemma Inv_snoc a b (Hab : agree a b) G ra rb' d r :
  Inv a b G ra rb' -> rb G d = Some r ->
  Inv a b (G ++ [(r, guar G d)]) (ra ++ [eval I mask ra d a]) (rb' ++ [eval I mask rb' d b]).
Proof.
  intros HI Hr. pose proof HI as [La [Lb HK]]. split; [|split].
  - rewrite !app_length. cbn. lia.
  - rewrite !app_length. cbn. lia.
  - intros k r0 g0 E. destruct (Nat.lt_ge_cases k (length G)) as [Lt|Ge].
    + rewrite nth_error_app1 in E by auto. rewrite !app_nth1 by lia. apply (HK k r0 g0 E).
    + rewrite nth_error_app2 in E by auto. destruct (k - length G)%nat as [|n] eqn:Ek; [|destruct n; discriminate].
      cbn in E. inversion E; subst r0 g0. assert (k = length G) by lia. subst k.
      rewrite (app_nth2 ra) by lia. rewrite (app_nth2 rb') by lia. rewrite La, Lb, Nat.sub_diag. cbn [nth]. split.
      * intros p N. apply (rb_sound a b Hab G ra rb' HI d r Hr p N).
      * intros p T. destruct (guar G d) as [gi|] eqn:Gd; cbn; auto. apply (guar_sound a b G ra rb' HI d gi Gd p T).
Qed.

Theorem rbp_sound a b (Hab : agree a b) defs main : forall G ra rb' r,
  Inv a b G ra rb' -> rbp G defs main = Some r ->
  forall p, near r a b p -> evalp I mask ra defs main a p = evalp I mask rb' defs main b p.
Proof.
  induction defs as [|d ds IH]; cbn [rbp evalp]; intros G ra rb' r HI H p N.
  - apply (rb_sound a b Hab G ra rb' HI main r H p N).
  - destruct (rb G d) as [rd|] eqn:Ed; [|discriminate].
    apply (IH _ _ _ r (Inv_snoc a b Hab G ra rb' d rd HI Ed) H p N).
Qed.

Lemma restores_main_sound e : restores_main e = true ->
  forall rho (img : image) p, mask p = false -> eval I mask rho e img p = img p.
Proof.
  induction e; cbn [restores_main]; intros H rho img p Hp; try discriminate.
  - reflexivity.
  - apply orb_true_iff in H as [H|H].
    + destruct e2; try discriminate. destruct e3; try discriminate. cbn [eval]. rewrite truthy_mask, Hp. reflexivity.
    + apply andb_true_iff in H as [H1 H3]. cbn [eval].
      destruct (truthy I (eval I mask rho e2 img p)); [apply IHe1|apply IHe3]; auto.
Qed.

Lemma evalp_restores defs main : restores_main main = true ->
  forall rho (img : image) p, mask p = false -> evalp I mask rho defs main img p = img p.
Proof.
  intros H. induction defs as [|d ds IH]; cbn [evalp]; intros rho img p Hp.
  - apply restores_main_sound; auto.
  - apply IH; auto.
Qed.
End Sound.

(* ------------------------------------------------------------ the checkers are sound *)
Theorem accepts_sound P : accepts P = true -> noninterfering P.
Proof.
  unfold accepts, noninterfering, run. intros H I mask a b Hab p Hp.
  destruct (rbp [] (fst P) (snd P)) as [r|] eqn:E; [|discriminate].
  apply (rbp_sound I mask a b Hab (fst P) (snd P) [] [] [] r (Inv_nil I mask a b) E p).
  destruct r as [[[|k]|s]|]; try discriminate H; [|exact Logic.I].
  apply near_R0. apply Hab; auto.
Qed.

Theorem restores_outside_sound P : restores_outside P = true -> restoring P.
Proof.
  unfold restores_outside, restoring, run. intros H I mask img p Hp. apply evalp_restores; auto.
Qed.

(* every program of a generated list: one rejected program breaks the premise *)
Theorem all_accepted_noninterfering l : forallb accepts l = true -> Forall noninterfering l.
Proof. intros H. apply Forall_forall. intros e He. apply accepts_sound. rewrite forallb_forall in H. auto. Qed.
Theorem all_restoring l : forallb restores_outside l = true -> Forall restoring l.
Proof. intros H. apply Forall_forall. intros e He. apply restores_outside_sound. rewrite forallb_forall in H. auto. Qed.

(* the masked convolution kernel of _filter.pyx reads no pixel outside the mask *)
Theorem masked_conv_clean k : forall (I : interp) (mask : px -> bool) (a b : px -> V I),
  (forall q, mask q = true -> a q = b q) ->
  forall p, eval I mask [] (MConv k Img MaskE) a p = eval I mask [] (MConv k Img MaskE) b p.
Proof.
  intros I mask a b Hab p.
  assert (H : rb [] (MConv k Img MaskE) = Some None) by reflexivity.
  apply (rb_sound I mask a b Hab [] [] [] (Inv_nil I mask a b) _ _ H p). exact Logic.I.
Qed.
