(* C14 x C02 — every hull polygon that meets C02's specification (strictly convex vertex cycle, all
   pixels on the inner side of every edge) satisfies the hypothesis of the Chrystal theorem:
   its vertices are in general position and its first two vertices span a supporting line. *)
From Coq Require Import ZArith List Bool Lia ZifyBool.
From Centro Require Import Base.Sx Model.Hull Spec.HullSpec Proofs.HullGeom Model.Circle Spec.ChrystalHyp.
Import ListNotations.
Open Scope Z_scope.

Lemma cross_ccross a b c : cross a b c = - ccross a b c.
Proof. unfold cross, ccross. ring. Qed.

Lemma cpt_eqb_true p q : cpt_eqb p q = true <-> p = q.
Proof.
  destruct p, q. unfold cpt_eqb. cbn [fst snd]. split; intro H; [f_equal; lia|inversion H; lia].
Qed.

Lemma NoDup_nodup_b (l : list cpt) : NoDup l -> nodup_b l = true.
Proof.
  induction 1 as [|a t Nin ND IH]; [reflexivity|]. cbn [nodup_b]. rewrite IH, andb_true_r.
  apply negb_true_iff. destruct (existsb (cpt_eqb a) t) eqn:E; [|reflexivity].
  apply existsb_exists in E. destruct E as [x [I Ex]]. apply cpt_eqb_true in Ex. subst. contradiction.
Qed.

(* m strictly between x and y along the first coordinate, on their line: a proper convex combination *)
Lemma between_fst (x m y : cpt) : fst x < fst m < fst y -> ccross x y m = 0 ->
  exists lam mu, 0 < lam /\ 0 < mu /\
    (lam + mu) * fst m = lam * fst x + mu * fst y /\ (lam + mu) * snd m = lam * snd x + mu * snd y.
Proof.
  intros B C. exists (fst y - fst m), (fst m - fst x). unfold ccross in C.
  split; [lia|]. split; [lia|]. split; [ring|]. nia.
Qed.
Lemma between_snd (x m y : cpt) : snd x < snd m < snd y -> ccross x y m = 0 ->
  exists lam mu, 0 < lam /\ 0 < mu /\
    (lam + mu) * fst m = lam * fst x + mu * fst y /\ (lam + mu) * snd m = lam * snd x + mu * snd y.
Proof.
  intros B C. exists (snd y - snd m), (snd m - snd x). unfold ccross in C.
  split; [lia|]. split; [lia|]. split; [nia|ring].
Qed.

(* collinearity does not depend on the order of the three points *)
Lemma ccross_perm a b p : ccross a b p = 0 ->
  ccross b a p = 0 /\ ccross a p b = 0 /\ ccross p a b = 0 /\ ccross b p a = 0 /\ ccross p b a = 0.
Proof. unfold ccross. intro H. repeat split; nia. Qed.

Ltac fin :=
  try assumption; try congruence;
  try (right; cbn [fst snd]; lia); try (left; cbn [fst snd]; lia);
  try (unfold ccross; cbn [fst snd]; nia).

Lemma no_three_collinear S V a b p : HullSpec S V -> In a V -> In b V -> In p V ->
  a <> b -> p <> a -> p <> b -> ccross a b p <> 0.
Proof.
  intros HS Ia Ib Ip Nab Npa Npb C.
  pose proof (hs_subset S V HS) as Sub.
  destruct (ccross_perm a b p C) as (C1 & C2 & C3 & C4 & C5).
  (* whichever of the three is the middle one is a proper convex combination of the other two *)
  assert (Mid : forall x m y, In x V -> In m V -> In y V -> x <> m ->
            (fst x < fst m < fst y \/ snd x < snd m < snd y) -> ccross x y m = 0 -> False).
  { intros x m y Ix Im Iy Nxm B Cm.
    assert (E : exists lam mu, 0 < lam /\ 0 < mu /\
              (lam + mu) * fst m = lam * fst x + mu * fst y /\ (lam + mu) * snd m = lam * snd x + mu * snd y).
    { destruct B as [B|B]; [apply between_fst|apply between_snd]; assumption. }
    destruct E as [lam [mu (Pl & Pm & E1 & E2)]].
    destruct (vertex_extreme S V m x y lam mu HS Im (Sub x Ix) (Sub y Iy) Pl Pm E1 E2) as [Ex _].
    contradiction. }
  destruct a as [a1 a2], b as [b1 b2], p as [p1 p2]. unfold ccross in *. cbn [fst snd] in *.
  assert (Dab : a1 <> b1 \/ a2 <> b2) by (destruct (Z.eq_dec a1 b1), (Z.eq_dec a2 b2); subst; try tauto; congruence).
  assert (Dpa : p1 <> a1 \/ p2 <> a2) by (destruct (Z.eq_dec p1 a1), (Z.eq_dec p2 a2); subst; try tauto; congruence).
  assert (Dpb : p1 <> b1 \/ p2 <> b2) by (destruct (Z.eq_dec p1 b1), (Z.eq_dec p2 b2); subst; try tauto; congruence).
  destruct (Z.eq_dec a1 b1) as [E1|N1].
  - (* vertical line: all first coordinates equal, order along the second *)
    assert (a2 <> b2) by lia. assert (p1 = a1) by nia. assert (p2 <> a2) by lia. assert (p2 <> b2) by lia.
    destruct (Z_lt_le_dec a2 b2); destruct (Z_lt_le_dec p2 a2); destruct (Z_lt_le_dec p2 b2); try lia.
    + apply (Mid (p1, p2) (a1, a2) (b1, b2)); fin.
    + apply (Mid (a1, a2) (p1, p2) (b1, b2)); fin.
    + apply (Mid (a1, a2) (b1, b2) (p1, p2)); fin.
    + apply (Mid (p1, p2) (b1, b2) (a1, a2)); fin.
    + apply (Mid (b1, b2) (p1, p2) (a1, a2)); fin.
    + apply (Mid (b1, b2) (a1, a2) (p1, p2)); fin.
  - (* first coordinates of a and b differ; then p's differs from both *)
    assert (p1 <> a1) by nia. assert (p1 <> b1) by nia.
    destruct (Z_lt_le_dec a1 b1); destruct (Z_lt_le_dec p1 a1); destruct (Z_lt_le_dec p1 b1); try lia.
    + apply (Mid (p1, p2) (a1, a2) (b1, b2)); fin.
    + apply (Mid (a1, a2) (p1, p2) (b1, b2)); fin.
    + apply (Mid (a1, a2) (b1, b2) (p1, p2)); fin.
    + apply (Mid (p1, p2) (b1, b2) (a1, a2)); fin.
    + apply (Mid (b1, b2) (p1, p2) (a1, a2)); fin.
    + apply (Mid (b1, b2) (a1, a2) (p1, p2)); fin.
Qed.

Theorem hull_satisfies_chrystal_hyp S V : HullSpec S V -> V <> [] -> chrystal_hyp_ok V = true.
Proof.
  intros HS NE. destruct V as [|v0 [|v1 [|v2 t]]]; [congruence|reflexivity|reflexivity|].
  set (V := v0 :: v1 :: v2 :: t) in *.
  change (chrystal_hyp_ok V) with (general_position V && first_edge_supports V).
  apply andb_true_iff. split.
  - unfold general_position. apply andb_true_iff. split; [apply NoDup_nodup_b; exact (hs_nodup S V HS)|].
    apply forallb_forall. intros a Ia. apply forallb_forall. intros b Ib. apply forallb_forall. intros p Ip.
    destruct (cpt_eqb a b) eqn:Eab; [reflexivity|]. destruct (cpt_eqb p a) eqn:Epa; [rewrite orb_true_r; reflexivity|].
    destruct (cpt_eqb p b) eqn:Epb; [rewrite !orb_true_r; reflexivity|]. cbn [orb]. rewrite !orb_false_r.
    apply negb_true_iff. apply Z.eqb_neq.
    apply (no_three_collinear S V a b p HS Ia Ib Ip).
    + intro E. apply cpt_eqb_true in E. congruence.
    + intro E. apply cpt_eqb_true in E. congruence.
    + intro E. apply cpt_eqb_true in E. congruence.
  - assert (L3 : (3 <= length V)%nat) by (unfold V; cbn [length]; lia).
    destruct (hs_poly S V HS L3) as [sg [Sg P]].
    assert (Cons : consecutive V v0 v1 v2).
    { exists [], (t ++ firstn 2 V). reflexivity. }
    destruct (P v0 v1 v2 Cons) as [_ In]. pose proof (hs_subset S V HS) as Sub.
    unfold first_edge_supports. change (nth 0 V (0, 0)) with v0. change (nth 1 V (0, 0)) with v1.
    apply orb_true_iff. destruct Sg as [-> | ->]; [right|left]; apply forallb_forall; intros s Is;
      destruct (In s (Sub s Is)) as [H _]; rewrite cross_ccross in H; lia.
Qed.
