(* C01 / C19-facing — phase 4 over all free rows (the `for iii` loop of augment): the structural invariant
   St (arrays of length n, x / y partial inverses) is kept by every aug_row whose Dijkstra loop returns - the flip loop
   never runs out of fuel - the rows still to be processed stay free, and each row adds one assigned column. *)
From Coq Require Import ZArith List Bool Lia Arith.
From Centro Require Import Base.Sx Model.Lapjv Spec.Lapjv Proofs.LapjvPhases Proofs.LapjvArr Proofs.LapjvAugMarks
  Proofs.LapjvAugFlip Proofs.LapjvAugPred.
Import ListNotations.

Section Rows4.
Variables (n : nat) (rows : list (list (nat * ext))) (inf : ext).
Hypothesis Rfin : forall i j c, In (j, c) (row rows i) -> (j < n)%nat.
Hypothesis Rnodup : forall i, NoDup (map fst (row rows i)).

Definition St (s : main_state) : Prop :=
  length (m_x s) = n /\ length (m_y s) = n /\ length (m_done s) = n /\ length (m_ontodo s) = n /\
  length (m_pred s) = n /\ PIh n (m_x s) (m_y s) None.

(* number of assigned columns *)
Definition acnt (y : list nat) : nat := length (filter (fun j => negb (getn y j n =? n)%nat) (seq 0 n)).

Lemma acnt_grows y y' j1 : (j1 < n)%nat -> getn y j1 n = n -> getn y' j1 n <> n ->
  (forall j, getn y j n <> n -> getn y' j n <> n) -> (S (acnt y) <= acnt y')%nat.
Proof.
  intros Hj E1 E2 Keep. unfold acnt.
  assert (G : forall l, NoDup l ->
            (length (filter (fun j => negb (getn y j n =? n)%nat) l) + (if in_dec Nat.eq_dec j1 l then 1 else 0)
             <= length (filter (fun j => negb (getn y' j n =? n)%nat) l))%nat).
  { induction l as [|a l IH]; intros ND; cbn [filter length]; [destruct (in_dec Nat.eq_dec j1 []); [destruct i|lia]|].
    inversion ND as [|? ? Nin ND']; subst. specialize (IH ND').
    destruct (in_dec Nat.eq_dec j1 (a :: l)) as [Hin|Hnin]; destruct (in_dec Nat.eq_dec j1 l) as [Hin'|Hnin'].
    - destruct (Nat.eqb_spec (getn y a n) n) as [Ea|Na]; cbn [negb length].
      + destruct (Nat.eqb_spec (getn y' a n) n); cbn [negb length]; lia.
      + destruct (Nat.eqb_spec (getn y' a n) n) as [Ea'|Na']; [exfalso; apply (Keep a Na Ea')|]. cbn [negb length]. lia.
    - assert (a = j1) by (destruct Hin; [auto|contradiction]). subst a.
      rewrite E1, Nat.eqb_refl. cbn [negb].
      destruct (Nat.eqb_spec (getn y' j1 n) n) as [Ea'|Na']; [contradiction|]. cbn [negb length]. lia.
    - exfalso. apply Hnin. right. exact Hin'.
    - destruct (Nat.eqb_spec (getn y a n) n) as [Ea|Na]; cbn [negb length].
      + destruct (Nat.eqb_spec (getn y' a n) n); cbn [negb length]; lia.
      + destruct (Nat.eqb_spec (getn y' a n) n) as [Ea'|Na']; [exfalso; apply (Keep a Na Ea')|]. cbn [negb length]. lia. }
  specialize (G (seq 0 n) (seq_NoDup n 0)).
  destruct (in_dec Nat.eq_dec j1 (seq 0 n)) as [_|Hn]; [lia|]. exfalso. apply Hn. apply in_seq. lia.
Qed.

Theorem aug_row_struct (s : main_state) (r : nat) (rest : list nat) :
  St s -> Pending n (m_y s) (r :: rest) ->
  forall s2, aug_row n inf rows (Some s) r = Some s2 ->
  St s2 /\ Pending n (m_y s2) rest /\ (S (acnt (m_y s)) <= acnt (m_y s2))%nat.
Proof.
  intros [Lx [Ly [Ld [Lo [Lp PI]]]]] [ND PF] s2. unfold aug_row.
  destruct (PF r (or_introl eq_refl)) as [Hr Fr].
  pose proof (aug_pred_chain r n rows (m_x s) (m_y s) (m_v s) inf Rfin Rnodup s) as APC.
  pose proof (aug_flip_full r n rows (m_x s) (m_y s) (m_v s) inf Rfin Rnodup s) as AFF.
  cbn zeta in APC, AFF.
  destruct (aug_init_row r (m_v s) (rowget rows r) (repeat inf n) (m_ontodo s) (m_pred s)) as [[d o] p].
  destruct (aug_loop (S (S n)) r n inf rows (m_y s) (m_v s)
              (mkAug d p (m_done s) o (map fst (rowget rows r)) [] [] inf)) as [[g' j1]|] eqn:EL; [|discriminate].
  destruct (APC g' j1 Lx Ly Hr Fr PI Ld Lo Lp eq_refl) as [Hj1 [Hy1 [Lp' [Ld' [Lo' _]]]]].
  destruct (AFF g' j1 Lx Ly Hr Fr PI Ld Lo Lp eq_refl) as [x' [y' [EF [Lx' [Ly' [PI' [_ [Hj1' [Keep [Free' _]]]]]]]]]].
  rewrite EF. intros E; inversion E; subst. cbn [m_x m_y m_done m_ontodo m_pred].
  split; [exact (conj Lx' (conj Ly' (conj Ld' (conj Lo' (conj Lp' PI')))))|]. split.
  - inversion ND as [|? ? Nin ND']; subst. split; auto. intros i Hi. destruct (PF i (or_intror Hi)) as [A B].
    split; auto. apply Free'; auto. intros ->. contradiction.
  - apply (acnt_grows (m_y s) y' j1); auto.
Qed.

Lemma fold_aug_none l : fold_left (aug_row n inf rows) l None = None.
Proof. induction l; cbn [fold_left aug_row]; auto. Qed.

Theorem aug_rows_struct : forall ii s sf,
  St s -> Pending n (m_y s) ii ->
  fold_left (aug_row n inf rows) ii (Some s) = Some sf ->
  St sf /\ (acnt (m_y s) + length ii <= acnt (m_y sf))%nat.
Proof.
  induction ii as [|r rest IH]; intros s sf HS HP; cbn [fold_left].
  - intros E; inversion E; subst. split; auto. cbn [length]. lia.
  - destruct (aug_row n inf rows (Some s) r) as [s2|] eqn:E2; [|rewrite fold_aug_none; discriminate].
    destruct (aug_row_struct s r rest HS HP s2 E2) as [S2 [P2 C2]].
    intros EF. destruct (IH s2 sf S2 P2 EF) as [A B]. split; auto. cbn [length]. lia.
Qed.
End Rows4.

(* aug_scan_nonempty, conditional form: on every run of the Dijkstra loop that returns, each rebuild of scan that found
   no unassigned column left scan non-empty (the model's `p_scan[low]` read past `up` is its None exit).
   The unconditional form under has_PM - a rebuild always finds a column - is NOT proved: it needs the adequacy of
   inf = sum(c) + 1 (every finite reduced-cost distance <= sum(c)); probing 6000 instances gave max d / inf = 0.999997. *)
Lemma aug_scan_nonempty r n inf rows y v fuel s res :
  aug_loop (S fuel) r n inf rows y v s = Some res ->
  forall s1, refill r n y inf s = (s1, None) -> g_scan s1 <> [].
Proof.
  cbn [aug_loop]. unfold refill. intros E s1 ER. rewrite ER in E. intros E0. rewrite E0 in E. discriminate.
Qed.
