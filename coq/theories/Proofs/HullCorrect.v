(* C02 — lifting per-label correctness to the batch function and to the image entry point.
   The two per-label facts not yet proved for all inputs are explicit premises. *)
From Coq Require Import ZArith List Bool Lia ZifyBool Permutation Sorted.
From Centro Require Import Base.Sx Model.Hull Spec.HullSpec Proofs.HullEmit Proofs.HullGeom Proofs.HullPerm
  Proofs.HullBatch Proofs.HullTop Proofs.HullOutline.
Import ListNotations.
Open Scope Z_scope.

(* what the kernel may assume of one label's rows: 0 <= i <= max_i, columns in buffer order *)
Definition label_ok (m : Z) (pts : list pt) : Prop :=
  (forall s, In s pts -> 0 <= fst s <= m) /\ StronglySorted (fun a b => snd a <= snd b) pts.

(* the per-label facts, proved for the grids (Finite) and in parts (lower/upper chain containment,
   vertices, local convexity) for all inputs *)
Definition HullLabelCorrect : Prop := forall m pts slack, label_ok m pts -> 0 <= slack ->
  HullSpec pts (hull_label m pts slack).
Definition HullNoOverflow : Prop := forall m pts slack, label_ok m pts -> 0 <= slack ->
  zlen (hull_label m pts slack) <= slack + zlen pts.

(* ---------------------------------------------------------------- lexsort orders by (v, j) *)
Definition vj_le (a b : row) : Prop := r_v a < r_v b \/ (r_v a = r_v b /\ r_j a <= r_j b).
Lemma row_leb_vj a b : (row_leb a b = true -> vj_le a b) /\ (row_leb a b = false -> vj_le b a).
Proof.
  unfold row_leb, vj_le. destruct (r_v a <? r_v b) eqn:E1; [split; [lia|discriminate]|].
  destruct (r_v b <? r_v a) eqn:E2; [split; [discriminate|lia]|].
  destruct (r_j a <? r_j b) eqn:E3; [split; [lia|discriminate]|].
  destruct (r_j b <? r_j a) eqn:E4; [split; [discriminate|lia]|]. split; lia.
Qed.
Lemma insert_row_sorted_vj r l : StronglySorted vj_le l -> StronglySorted vj_le (insert_row r l).
Proof.
  induction l as [|x t IH]; intros H; cbn [insert_row].
  - constructor; constructor.
  - inversion H as [|a l HS HF]. subst. destruct (row_leb r x) eqn:E.
    + constructor; auto. apply (proj1 (row_leb_vj r x)) in E. constructor; [exact E|].
      rewrite Forall_forall in *. intros y Hy. specialize (HF y Hy). unfold vj_le in *. lia.
    + constructor; [apply IH; exact HS|]. apply (proj2 (row_leb_vj r x)) in E.
      rewrite Forall_forall in *. intros y Hy.
      apply (Permutation_in _ (insert_row_perm r t)) in Hy. destruct Hy as [Hy|Hy]; [subst; exact E | auto].
Qed.
Lemma lexsort_sorted_vj : forall l, StronglySorted vj_le (lexsort l).
Proof. induction l as [|r l IH]; cbn; [constructor | apply insert_row_sorted_vj; exact IH]. Qed.

Lemma sel_cols_sorted l rows : StronglySorted vj_le rows ->
  StronglySorted (fun a b => snd a <= snd b) (map r_pt (sel l rows)).
Proof.
  induction 1 as [|a t HS IH HF]; cbn [sel filter map]; [constructor|].
  destruct (r_v a =? l) eqn:E; [|exact IH]. cbn [map]. constructor; [exact IH|].
  rewrite Forall_forall in *. intros y Hy. apply in_map_iff in Hy. destruct Hy as [x [Ex Hx]]. subst y.
  apply filter_In in Hx. destruct Hx as [Hx Hv]. specialize (HF x Hx). unfold vj_le, r_pt in *. cbn [snd]. lia.
Qed.

Lemma label_ok_sel ijv l : (forall x, In x ijv -> 0 <= r_i x) ->
  label_ok (zmax_list (map r_i (lexsort ijv))) (map r_pt (sel l (lexsort ijv))).
Proof.
  intros Hnn. split.
  - intros s Hs. apply in_map_iff in Hs. destruct Hs as [x [Ex Hx]]. subst s.
    apply filter_In in Hx. destruct Hx as [Hx _]. cbn [r_pt fst]. split.
    + apply Hnn. eapply Permutation_in; [apply lexsort_perm | exact Hx].
    + apply zmax_list_ge. apply in_map. exact Hx.
  - apply sel_cols_sorted. apply lexsort_sorted_vj.
Qed.

(* ---------------------------------------------------------------- glue *)
Lemma HullSpec_equiv S S' V : (forall x, In x S <-> In x S') -> HullSpec S V -> HullSpec S' V.
Proof.
  intros E HS. apply (HullSpec_subset S S' V HS).
  - intros x Hx. apply E. exact Hx.
  - intros x Hx. apply E. apply (hs_subset S V HS). exact Hx.
Qed.

Definition rows_of (res : list (Z * list pt)) : list row :=
  flat_map (fun b => map (fun p => ((fst b, fst p), snd p)) (snd b)) res.
Definition counts_of (res : list (Z * list pt)) : list Z := map (fun b => zlen (snd b)) res.

Lemma batch_of_blocks ijv : forall indexes res,
  Forall2 (fun l b => fst b = l /\ HullSpec (pts_of ijv l) (snd b)) indexes res ->
  BatchSpec ijv indexes (rows_of res) (counts_of res).
Proof.
  induction 1 as [|l b ix res [E HS] _ IH]; [constructor|].
  unfold rows_of, counts_of. cbn [flat_map map].
  replace (zlen (snd b)) with (zlen (map (fun p : pt => ((fst b, fst p), snd p)) (snd b)))
    by (unfold zlen; rewrite map_length; reflexivity).
  constructor.
  - intros r Hr. apply in_map_iff in Hr. destruct Hr as [p [Ep _]]. subst r. exact E.
  - rewrite map_map. cbn [fst snd]. rewrite (map_ext _ (fun p => p)) by (intros [a c]; reflexivity).
    rewrite map_id. exact HS.
  - exact IH.
Qed.

Lemma Forall2_nth {A B} (P : A -> B -> Prop) da db : forall (a : list A) (b : list B),
  length a = length b -> (forall r, (r < length a)%nat -> P (nth r a da) (nth r b db)) -> Forall2 P a b.
Proof.
  induction a as [|x a IH]; intros [|y b] L H; try discriminate; constructor.
  - apply (H 0%nat). cbn. lia.
  - apply IH; [cbn in L; lia|]. intros r Hr. apply (H (S r)). cbn. lia.
Qed.

(* ---------------------------------------------------------------- request r, with a slack >= 0 *)
Lemma hull_ijv_request_nonneg : HullNoOverflow ->
  forall ijv indexes r, NoDup indexes -> (r < length indexes)%nat -> (forall x, In x ijv -> 0 <= r_i x) ->
  exists slack, 0 <= slack /\
    nth r (fst (convex_hull_ijv ijv indexes)) (0, []) =
    (nth r indexes 0,
     hull_label (zmax_list (map r_i (lexsort ijv))) (map r_pt (sel (nth r indexes 0) (lexsort ijv))) slack).
Proof.
  intros NoOv ijv indexes r ND Hr Hnn. unfold convex_hull_ijv. cbn [fst].
  set (sorted := lexsort ijv). set (m := zmax_list (map r_i sorted)). set (ml := zmax_list (map r_v sorted)).
  set (reorder := argsort indexes). set (reqs := map (fun k => nth k indexes 0) reorder).
  set (unreorder := argsort (map Z.of_nat reorder)).
  assert (Lu : length unreorder = length indexes).
  { unfold unreorder, reorder. rewrite argsort_length, map_length, argsort_length. reflexivity. }
  rewrite (nth_map_lt _ _ r (0, []) (0, 0%nat)) by (rewrite combine_length; lia).
  rewrite combine_nth by (symmetry; exact Lu). cbn [fst snd].
  destruct (argsort_inverse indexes r Hr) as [Hk _]. fold reorder in Hk. fold unreorder in Hk.
  assert (Lreq : length reqs = length indexes).
  { unfold reqs, reorder. rewrite map_length, argsort_length. reflexivity. }
  destruct (walk_blocks_nonneg m ml (label_ok m) (NoOv m) reqs sorted 0 0) with (k := nth r unreorder 0%nat) as [slack [Hs Es]].
  - apply lexsort_sorted_v.
  - apply argsort_strict. exact ND.
  - intros x Hx. apply zmax_list_ge. apply in_map. exact Hx.
  - lia.
  - intros k _. apply label_ok_sel. exact Hnn.
  - lia.
  - exists slack. split; [exact Hs|]. rewrite Es. f_equal. f_equal. f_equal. f_equal.
    apply (reorder_label indexes r Hr).
Qed.

(* ---------------------------------------------------------------- the batch function *)
(* For every ijv list with non-negative rows and every repeat-free index list the model of
   convex_hull_ijv returns, in request order, a polygon meeting HullSpec for exactly the pixels of
   each requested label (absent labels: count 0) — given the two per-label facts. *)
Theorem convex_hull_ijv_correct_partial : HullLabelCorrect -> HullNoOverflow ->
  forall ijv indexes, NoDup indexes -> (forall x, In x ijv -> 0 <= r_i x) ->
  let res := fst (convex_hull_ijv ijv indexes) in
  BatchSpec ijv indexes (rows_of res) (counts_of res).
Proof.
  intros HC NoOv ijv indexes ND Hnn res. apply batch_of_blocks.
  apply (Forall2_nth _ 0 (0, [])).
  - unfold res. rewrite result_length. reflexivity.
  - intros r Hr. destruct (hull_ijv_request_nonneg NoOv ijv indexes r ND Hr Hnn) as [slack [Hs E]].
    fold res in E. rewrite E. cbn [fst snd]. split; [reflexivity|].
    apply (HullSpec_equiv (map r_pt (sel (nth r indexes 0) (lexsort ijv)))).
    + intros x. unfold pts_of, sel. rewrite !in_map_iff. split; intros [y [Ey Hy]]; exists y; (split; [exact Ey|]);
        apply filter_In in Hy; apply filter_In; destruct Hy as [H1 H2]; (split; [|exact H2]).
      * eapply Permutation_in; [apply lexsort_perm | exact H1].
      * eapply Permutation_in; [apply Permutation_sym, lexsort_perm | exact H1].
    + apply HC; [apply label_ok_sel; exact Hnn | exact Hs].
Qed.

Example label_ok_ex :
  let ijv := [((0,0),2);((1,1),1);((0,3),2);((2,0),1);((3,3),2)] in
  NoDup [2;7;1] /\ (forall x, In x ijv -> 0 <= r_i x)
  /\ rows_of (fst (convex_hull_ijv ijv [2;7;1])) = [((2,0),0);((2,0),3);((2,3),3);((1,2),0);((1,1),1)]
  /\ counts_of (fst (convex_hull_ijv ijv [2;7;1])) = [3;0;2]
  /\ label_ok 3 (map r_pt (sel 2 (lexsort ijv))).
Proof.
  cbv zeta. split; [repeat constructor; cbn; intuition discriminate|].
  split; [intros x H; cbn in H; repeat (destruct H as [H|H]; [subst x; cbn; lia|]); contradiction|].
  split; [vm_compute; reflexivity|]. split; [vm_compute; reflexivity|].
  apply (label_ok_sel [((0,0),2);((1,1),1);((0,3),2);((2,0),1);((3,3),2)] 2).
  intros x H; cbn in H; repeat (destruct H as [H|H]; [subst x; cbn; lia|]); contradiction.
Qed.
