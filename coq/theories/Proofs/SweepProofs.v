(* C14 — the antipodal sweep model only ever records pairs of valid, distinct hull indices, so the
   maximum it reports is the distance of two hull points and never exceeds the true maximum. *)
From Coq Require Import ZArith List Bool Lia ZifyBool.
From Centro Require Import Base.Sx Model.Feret Spec.FeretSpec Proofs.FeretProofs.
Import ListNotations.
Open Scope Z_scope.

Lemma first_argmax_range pm p1 : forall vs k best a c,
  first_argmax vs pm p1 k best = Some (a, c) ->
  best = Some (a, c) \/ (exists c', best = Some (a, c')) \/ (k <= a < k + length vs)%nat.
Proof.
  induction vs as [|v t IH]; intros k best a c E; cbn [first_argmax] in E.
  - left. exact E.
  - apply IH in E. cbn [length].
    destruct best as [[bk bc]|].
    + destruct (bc <? cross2 v pm p1).
      * destruct E as [E|[[c' E]|E]]; [inversion E; subst; right; right; lia|inversion E; subst; right; right; lia|right; right; lia].
      * destruct E as [E|[[c' E]|E]]; [left; exact E|right; left; exists c'; exact E|right; right; lia].
    + destruct E as [E|[[c' E]|E]]; [inversion E; subst; right; right; lia|inversion E; subst; right; right; lia|right; right; lia].
Qed.

Definition valid (n : nat) (p : nat * nat) : Prop := (fst p < snd p < n)%nat.

Lemma sweep_loop_valid h n : forall fuel v a acc ps,
  (v < a < n)%nat -> (forall p, In p acc -> valid n p) ->
  sweep_loop fuel h n v a acc = Some ps -> forall p, In p ps -> valid n p.
Proof.
  induction fuel as [|f IH]; intros v a acc ps Hva Hacc E p Ip; [discriminate|].
  cbn [sweep_loop] in E.
  set (adv := cross2 (pnth a h) (pnth v h) (pnth (S v) h) <=?
              cross2 (pnth (if (S a =? n)%nat then 0%nat else S a) h) (pnth v h) (pnth (S v) h)) in E.
  assert (Hacc' : forall q, In q ((v, a) :: acc) -> valid n q).
  { intros q [Eq|Iq]; [subst q; unfold valid; cbn [fst snd]; lia|apply Hacc; exact Iq]. }
  destruct (((if adv then S a else a) <? n)%nat && negb ((if adv then v else S v) =? (if adv then S a else a))%nat) eqn:C.
  - assert (Hva' : ((if adv then v else S v) < (if adv then S a else a) < n)%nat).
    { apply andb_true_iff in C. destruct adv; lia. }
    exact (IH _ _ _ _ Hva' Hacc' E p Ip).
  - assert (Eps : ps = rev ((v, a) :: acc)) by congruence. subst ps.
    apply in_rev in Ip. apply Hacc'. exact Ip.
Qed.

Lemma antipodal_pairs_valid h ps :
  antipodal_pairs h = Some ps ->
  forall p, In p ps -> (fst p < length h)%nat /\ (snd p < length h)%nat.
Proof.
  unfold antipodal_pairs. intros E p Ip.
  destruct (length h) as [|[|[|n]]] eqn:Ln.
  - inversion E; subst. destruct Ip.
  - inversion E; subst. destruct Ip as [<-|[]]. cbn [fst snd]. lia.
  - inversion E; subst. destruct Ip as [<-|[]]. cbn [fst snd]. lia.
  - destruct (first_argmax (firstn (S (S (S n)) - 2) (skipn 1 h)) (pnth (S (S (S n)) - 1) h) (pnth 0 h) 1 None)
      as [[a c]|] eqn:FA; [|discriminate].
    apply first_argmax_range in FA.
    assert (Ha : (1 <= a < S (S n))%nat).
    { destruct FA as [FA|[[c' FA]|FA]]; [discriminate|discriminate|].
      rewrite firstn_length, skipn_length, Ln in FA. lia. }
    assert (V : valid (S (S (S n))) p).
    { eapply (sweep_loop_valid h (S (S (S n))) _ 0%nat a [] ps); [lia| |exact E|exact Ip].
      intros q []. }
    unfold valid in V. lia.
Qed.

Lemma fold_max_le (f : nat * nat -> Z) B : forall ps m0,
  m0 <= B -> (forall p, In p ps -> f p <= B) -> fold_left (fun m p => Z.max m (f p)) ps m0 <= B.
Proof.
  induction ps as [|p t IH]; intros m0 H0 Hp; cbn [fold_left]; [exact H0|].
  apply IH; [|intros q Iq; apply Hp; right; exact Iq].
  pose proof (Hp p (or_introl eq_refl)). lia.
Qed.

Theorem sweep_max_sound h mx mn :
  sweep h = Some (mx, mn) -> mx <= max_d2 h.
Proof.
  unfold sweep. destruct (antipodal_pairs h) as [ps|] eqn:AP; [|discriminate].
  intro E. inversion E; subst mx. unfold max_pair_d2.
  apply fold_max_le.
  - rewrite max_d2_eq. apply fmax_nonneg.
  - intros p Ip. destruct (antipodal_pairs_valid h ps AP p Ip) as [L1 L2].
    change (fdist2 (pnth (fst p) h) (pnth (snd p) h)) with (sdist2 (pnth (fst p) h) (pnth (snd p) h)).
    apply (proj1 (feret_max_spec h)); apply nth_In; assumption.
Qed.

Example sweep_example :
  sweep [(0,0); (0,3); (2,3); (2,0)] = Some (13, (36, 9)).
Proof. vm_compute. reflexivity. Qed.

(* ---------------------------------------------------------------- the sweep never runs out of fuel *)
Lemma sweep_loop_terminates h n : forall fuel v a acc,
  (v < a < n)%nat -> (2 * n - a - v < fuel)%nat -> sweep_loop fuel h n v a acc <> None.
Proof.
  induction fuel as [|f IH]; intros v a acc Hva Hf; [lia|].
  cbn [sweep_loop].
  set (adv := cross2 (pnth a h) (pnth v h) (pnth (S v) h) <=?
              cross2 (pnth (if (S a =? n)%nat then 0%nat else S a) h) (pnth v h) (pnth (S v) h)).
  destruct (((if adv then S a else a) <? n)%nat && negb ((if adv then v else S v) =? (if adv then S a else a))%nat) eqn:C;
    [|discriminate].
  apply IH; apply andb_true_iff in C; destruct adv; lia.
Qed.

Lemma first_argmax_some pm p1 : forall vs k best, (vs <> [] \/ best <> None) -> first_argmax vs pm p1 k best <> None.
Proof.
  induction vs as [|v t IH]; intros k best H; cbn [first_argmax].
  - destruct H as [H|H]; [congruence|exact H].
  - apply IH. right. destruct best as [[bk bc]|]; [destruct (bc <? cross2 v pm p1)|]; discriminate.
Qed.

Theorem sweep_terminates h : sweep h <> None.
Proof.
  unfold sweep. destruct (antipodal_pairs h) as [ps|] eqn:AP; [discriminate|]. exfalso.
  unfold antipodal_pairs in AP.
  destruct (length h) as [|[|[|n]]] eqn:Ln; try discriminate.
  destruct (first_argmax (firstn (S (S (S n)) - 2) (skipn 1 h)) (pnth (S (S (S n)) - 1) h) (pnth 0 h) 1 None)
    as [[a c]|] eqn:FA.
  - pose proof FA as FA'. apply first_argmax_range in FA'.
    assert (Ha : (1 <= a < S (S n))%nat).
    { destruct FA' as [X|[[c' X]|X]]; [discriminate|discriminate|].
      rewrite firstn_length, skipn_length, Ln in X. lia. }
    revert AP. apply sweep_loop_terminates; lia.
  - revert FA. apply first_argmax_some. left.
    assert (L : length (firstn (S (S (S n)) - 2) (skipn 1 h)) = S n) by (rewrite firstn_length, skipn_length, Ln; lia).
    intro E. rewrite E in L. discriminate.
Qed.

(* ---------------------------------------------------------------- the advance test, exactly *)
(* distance2_to_line(pt, l0, l1) = cross^2 / |l1 - l0|^2; inside the sweep both distances are taken
   to the same line, so the rational comparison dc <= dn IS the comparison of the integer
   numerators that the model performs.  (The code compares the correctly rounded doubles of these
   two rationals; rounding is monotone, so the decisions can differ only when dc > dn round to the
   same double, which needs numerators above 2^53, i.e. object diameters above 9 741.) *)
From Coq Require Import QArith.
Lemma advance_test_exact (n1 n2 den : Z) : (0 < den)%Z ->
  ((inject_Z n1 / inject_Z den <= inject_Z n2 / inject_Z den)%Q <-> (n1 <= n2)%Z).
Proof.
  intro D. unfold Qdiv, Qle, Qmult, Qinv, inject_Z. destruct den as [|p|p]; try lia. cbn [Qnum Qden]. nia.
Qed.
