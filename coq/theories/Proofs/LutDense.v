(* C06 — table_lookup_index: the scatter kernel with its interior loop, four corner blocks and
   two edge loops computes, at every pixel of every image of shape >= 3x3, the neighbourhood
   index of the rule with border value 0 (gather form). *)
From Coq Require Import ZArith List Bool Lia ZifyBool.
From Centro Require Import Base.Sx Base.LutBits Spec.LutRule Model.Lut Proofs.LutPlain.
Import ListNotations.
Open Scope Z_scope.

Fixpoint hitsum (hs : list hit) (p q : Z) : Z :=
  match hs with
  | [] => 0
  | h :: r => (if (p =? fst (fst h)) && (q =? snd (fst h)) then snd h else 0) + hitsum r p q
  end.

Lemma apply_hits_add hs : forall f p q, apply_hits f hs p q = f p q + hitsum hs p q.
Proof.
  induction hs as [|h hs IH]; intros f p q; unfold apply_hits in *; cbn [fold_left hitsum]; [lia|].
  rewrite IH. unfold upd. destruct ((p =? fst (fst h)) && (q =? snd (fst h))); lia.
Qed.

Lemma when_add X i j hs f p q : when X i j hs f p q = f p q + Z.b2z (X i j) * hitsum hs p q.
Proof. unfold when. destruct (X i j); cbn [Z.b2z]; [rewrite apply_hits_add|]; lia. Qed.

(* on targets inside the image every special-case hit list acts like the interior one *)
Section Equiv.
Variables (H W p q : Z).
Hypothesis Hp : 0 <= p < H.
Hypothesis Hq : 0 <= q < W.
Hypothesis H3 : 3 <= H.
Hypothesis W3 : 3 <= W.

Ltac hs := cbn [hitsum hit_interior hit_c00 hit_c0W hit_cH0 hit_cHW hit_top hit_bot hit_left hit_right fst snd];
           decide_atoms; lia.

Lemma eq_c00 : hitsum hit_c00 p q = hitsum (hit_interior 0 0) p q. Proof using Hp Hq H3 W3. hs. Qed.
Lemma eq_c0W : hitsum (hit_c0W W) p q = hitsum (hit_interior 0 (W - 1)) p q. Proof using Hp Hq H3 W3. hs. Qed.
Lemma eq_cH0 : hitsum (hit_cH0 H) p q = hitsum (hit_interior (H - 1) 0) p q. Proof using Hp Hq H3 W3. hs. Qed.
Lemma eq_cHW : hitsum (hit_cHW H W) p q = hitsum (hit_interior (H - 1) (W - 1)) p q. Proof using Hp Hq H3 W3. hs. Qed.
Lemma eq_top j : hitsum (hit_top j) p q = hitsum (hit_interior 0 j) p q. Proof using Hp Hq H3 W3. hs. Qed.
Lemma eq_bot j : hitsum (hit_bot H j) p q = hitsum (hit_interior (H - 1) j) p q. Proof using Hp Hq H3 W3. hs. Qed.
Lemma eq_left i : hitsum (hit_left i) p q = hitsum (hit_interior i 0) p q. Proof using Hp Hq H3 W3. hs. Qed.
Lemma eq_right i : hitsum (hit_right W i) p q = hitsum (hit_interior i (W - 1)) p q. Proof using Hp Hq H3 W3. hs. Qed.
End Equiv.

Lemma zsum_snoc n : forall a g, zsum (S n) a g = zsum n a g + g (a + Z.of_nat n).
Proof.
  induction n as [|n IH]; intros a g.
  - cbn [zsum]. replace (a + Z.of_nat 0) with a by lia. lia.
  - change (zsum (S (S n)) a g) with (g a + zsum (S n) (a + 1) g). rewrite IH.
    cbn [zsum]. replace (a + 1 + Z.of_nat n) with (a + Z.of_nat (S n)) by lia. lia.
Qed.

Lemma zsum_ends n a g : zsum (S (S n)) a g = g a + zsum n (a + 1) g + g (a + 1 + Z.of_nat n).
Proof. change (zsum (S (S n)) a g) with (g a + zsum (S n) (a + 1) g). rewrite zsum_snoc. lia. Qed.

(* contribution of source (i,j) to target (p,q), uniform over all sources *)
Definition contrib (X : Z -> Z -> bool) (p q i j : Z) : Z := Z.b2z (X i j) * hitsum (hit_interior i j) p q.

Lemma tli_as_full_sum H W X p q :
  3 <= H -> 3 <= W -> 0 <= p < H -> 0 <= q < W ->
  tli H W X p q = zsum (Z.to_nat H) 0 (fun i => zsum (Z.to_nat W) 0 (fun j => contrib X p q i j)).
Proof.
  intros H3 W3 Hp Hq. unfold tli. cbv zeta.
  set (nI := Z.to_nat (H - 2)). set (nJ := Z.to_nat (W - 2)).
  (* left/right edge loop *)
  rewrite (for_add nI 1 _ (fun i => contrib X p q i 0 + contrib X p q i (W - 1)) p q).
  2:{ intros i f. rewrite !when_add. rewrite (eq_left H W p q Hp Hq H3 W3), (eq_right H W p q Hp Hq H3 W3).
      unfold contrib. lia. }
  (* top/bottom edge loop *)
  rewrite (for_add nJ 1 _ (fun j => contrib X p q 0 j + contrib X p q (H - 1) j) p q).
  2:{ intros j f. rewrite !when_add. rewrite (eq_top H W p q Hp Hq H3 W3), (eq_bot H W p q Hp Hq H3 W3).
      unfold contrib. lia. }
  (* corners *)
  rewrite !when_add.
  rewrite (eq_c00 H W p q Hp Hq H3 W3), (eq_c0W H W p q Hp Hq H3 W3),
          (eq_cH0 H W p q Hp Hq H3 W3), (eq_cHW H W p q Hp Hq H3 W3).
  (* interior double loop *)
  rewrite (for_add nI 1 _ (fun i => zsum nJ 1 (fun j => contrib X p q i j)) p q).
  2:{ intros i f. apply (for_add nJ 1 _ (fun j => contrib X p q i j) p q).
      intros j f'. rewrite when_add. unfold contrib. lia. }
  unfold zeros.
  (* reassemble the full double sum *)
  replace (Z.to_nat H) with (S (S nI)) by (subst nI; lia).
  replace (Z.to_nat W) with (S (S nJ)) by (subst nJ; lia).
  rewrite zsum_ends.
  rewrite (zsum_ext nI (0 + 1) (fun i => zsum (S (S nJ)) 0 (fun j => contrib X p q i j)) (fun i => contrib X p q i 0 + zsum nJ 1 (fun j => contrib X p q i j) + contrib X p q i (W - 1))).
  2:{ intros i _. cbv beta. rewrite zsum_ends. replace (0 + 1 + Z.of_nat nJ) with (W - 1) by (subst nJ; lia). reflexivity. }
  rewrite !zsum_ends.
  replace (0 + 1 + Z.of_nat nI) with (H - 1) by (subst nI; lia).
  replace (0 + 1 + Z.of_nat nJ) with (W - 1) by (subst nJ; lia).
  change (0 + 1) with 1.
  rewrite !zsum_add.
  fold (contrib X p q 0 0). fold (contrib X p q 0 (W - 1)).
  fold (contrib X p q (H - 1) 0). fold (contrib X p q (H - 1) (W - 1)).
  replace (zsum nJ 1 (contrib X p q 0)) with (zsum nJ 1 (fun j => contrib X p q 0 j)) by reflexivity.
  replace (zsum nJ 1 (contrib X p q (H - 1))) with (zsum nJ 1 (fun j => contrib X p q (H - 1) j)) by reflexivity.
  lia.
Qed.

Lemma contrib_far_row X p q i j : i <> p - 1 -> i <> p -> i <> p + 1 -> contrib X p q i j = 0.
Proof.
  intros N1 N2 N3. unfold contrib. cbn [hitsum hit_interior fst snd]; decide_atoms; lia.
Qed.
Lemma contrib_far_col X p q i j : j <> q - 1 -> j <> q -> j <> q + 1 -> contrib X p q i j = 0.
Proof.
  intros N1 N2 N3. unfold contrib. cbn [hitsum hit_interior fst snd]; decide_atoms; lia.
Qed.

Lemma pick_inr H W a b v :
  0 <= H -> 0 <= W ->
  pick (Z.to_nat H) 0 a (pick (Z.to_nat W) 0 b v) = if inr H W a b then v else 0.
Proof. intros H0 W0. unfold pick, inr. rewrite !Z2Nat.id by lia. decide_atoms; reflexivity. Qed.

Lemma b2z_gpx H W X a b : Z.b2z (gpx false H W X a b) = if inr H W a b then Z.b2z (X a b) else 0.
Proof. unfold gpx. destruct (inr H W a b); reflexivity. Qed.

Theorem tli_gather H W X p q :
  3 <= H -> 3 <= W -> 0 <= p < H -> 0 <= q < W ->
  tli H W X p q = enc (gbits false H W X p q).
Proof.
  intros H3 W3 Hp Hq. rewrite tli_as_full_sum by assumption.
  rewrite (zsum_three _ 0 _ p).
  2:{ intros i N1 N2 N3. apply zsum_zero. intros j _. apply contrib_far_row; assumption. }
  rewrite !(zsum_three _ 0 _ q) by (intros j N1 N2 N3; apply contrib_far_col; assumption).
  unfold pick. rewrite !Z2Nat.id by lia.
  unfold gbits. cbn [enc]. rewrite !b2z_gpx.
  unfold contrib, inr. cbn [hitsum hit_interior fst snd].
  assert (Cp : (p = 0 \/ 0 < p) /\ (p = H - 1 \/ p < H - 1)) by lia.
  assert (Cq : (q = 0 \/ 0 < q) /\ (q = W - 1 \/ q < W - 1)) by lia.
  destruct Cp as [[Cp1|Cp1] [Cp2|Cp2]]; destruct Cq as [[Cq1|Cq1] [Cq2|Cq2]];
    decide_atoms; lia.
Qed.
