(* C08 — the first worklist walk of fill_labeled_holes_loop (Model.FillHoles.step1 / run1):
   whatever the stack order, when it stops is_not_hole marks exactly the least set closed under
   the three "unchanged" rules of Spec.FillHoles (port of design/prototypes/FillWalk.v to the
   executable model's state). *)
From Coq Require Import ZArith List Bool Lia ZifyBool.
From Centro Require Import Base.FillZMap Model.FillHoles Spec.FillHoles.
Import ListNotations.
Open Scope Z_scope.

Section Walk1.
Variable adj : Z -> list Z.
Variable edges : list (Z * Z).
Variable lcount : Z.
Variable todo0 : list Z.
Hypothesis Hadj : forall i j, In j (adj i) <-> In (i, j) edges.
(* 0 encodes "none" in adjacent_non_hole, so it must not be a region number (the wrapper
   numbers objects from 1 and background components from lcount + 2) *)
Hypothesis Hnz_todo : ~ In 0 todo0.
Hypothesis Hnz_adj : forall i j, In j (adj i) -> j <> 0.

Notation U := (Unch edges todo0 lcount).
Notation obj := (isobj lcount).
Notation step := (step1 adj lcount).

(* a neighbour jj of a scanned region ii has been dealt with *)
Definition handled (s : wst) (ii jj : Z) : Prop :=
  if obj ii then getb (w_nh s) jj = true \/ (getz (w_anh s) jj = ii)
  else obj jj = true -> getb (w_nh s) jj = true.

Record Inv (s : wst) : Prop := {
  i_sound : forall v, getb (w_nh s) v = true -> U v;
  i_nz : forall v, getb (w_nh s) v = true -> v <> 0;
  i_anh : forall v k, getz (w_anh s) v = k -> k <> 0 ->
                      obj k = true /\ getb (w_nh s) k = true /\ In v (adj k);
  i_todo : forall v, In v (w_todo s) -> getb (w_nh s) v = true;
  i_cur : forall ii pre rest, w_cur s = Some (ii, pre, rest) ->
            getb (w_nh s) ii = true /\ adj ii = rev pre ++ rest /\ forall jj, In jj pre -> handled s ii jj;
  i_proc : forall ii, getb (w_proc s) ii = true ->
            getb (w_nh s) ii = true /\ forall jj, In jj (adj ii) -> handled s ii jj;
  i_cover : forall v, getb (w_nh s) v = true ->
            In v (w_todo s) \/ getb (w_proc s) v = true \/ exists pre rest, w_cur s = Some (v, pre, rest);
  i_border : forall v, In v todo0 -> getb (w_nh s) v = true;
  i_nodup : NoDup (w_todo s)
}.

Definition finished (s : wst) : Prop := w_cur s = None /\ w_todo s = [].

Lemma finished1_spec s : finished1 s = true <-> finished s.
Proof.
  unfold finished1, finished. destruct (w_cur s) as [c|]; destruct (w_todo s) as [|a t]; split;
    try discriminate; try (intros [A B]; discriminate); auto.
Qed.

Lemma handled_mono s s' ii jj : ii <> 0 ->
  (forall v, getb (w_nh s) v = true -> getb (w_nh s') v = true) ->
  (forall v, getz (w_anh s) v <> 0 -> getz (w_anh s') v = getz (w_anh s) v) ->
  handled s ii jj -> handled s' ii jj.
Proof.
  intros Nz Hn Ha. unfold handled. destruct (obj ii).
  - intros [H|H]; [left; auto|]. right. rewrite Ha; [exact H|congruence].
  - intros H Hj. auto.
Qed.

(* exit: the marked set is closed under the rules, hence contains U *)
Theorem walk_complete s : Inv s -> finished s -> forall v, U v -> getb (w_nh s) v = true.
Proof.
  intros I [Ec Et] v Hv.
  assert (P : forall x, getb (w_nh s) x = true -> getb (w_proc s) x = true).
  { intros x Hx. destruct (i_cover s I x Hx) as [H|[H|[pre [rest H]]]]; auto;
      [rewrite Et in H; destruct H|congruence]. }
  induction Hv as [v Hb|i j Hi IHi Bi Hj Oj|i1 i2 j H1 IH1 H2 IH2 O1 O2 Ne J1 J2].
  - apply (i_border s I); auto.
  - destruct (i_proc s I i (P i IHi)) as [_ Hh]. apply Hadj in Hj. specialize (Hh j Hj).
    unfold handled in Hh. rewrite Bi in Hh. apply Hh; auto.
  - destruct (i_proc s I i1 (P i1 IH1)) as [_ Hh1]. destruct (i_proc s I i2 (P i2 IH2)) as [_ Hh2].
    apply Hadj in J1. apply Hadj in J2.
    specialize (Hh1 j J1). specialize (Hh2 j J2). unfold handled in Hh1, Hh2.
    rewrite O1 in Hh1. rewrite O2 in Hh2.
    destruct Hh1 as [A|A]; auto. destruct Hh2 as [B|B]; auto. congruence.
Qed.

Theorem walk_sound s : Inv s -> forall v, getb (w_nh s) v = true -> U v.
Proof. intros I. apply (i_sound s I). Qed.

(* generic preservation for scanning one neighbour jj of ii *)
Lemma scan_generic s ii pre jj rest nh' anh' todo' :
  Inv s -> w_cur s = Some (ii, pre, jj :: rest) ->
  (forall v, getb (w_nh s) v = true -> getb nh' v = true) ->
  (forall v, getz (w_anh s) v <> 0 -> getz anh' v = getz (w_anh s) v) ->
  (forall v, In v (w_todo s) -> In v todo') ->
  (forall v, getb nh' v = true -> getb (w_nh s) v = true \/ (In v todo' /\ U v /\ v <> 0)) ->
  (forall v, In v todo' -> getb nh' v = true) ->
  NoDup todo' ->
  (forall v k, getz anh' v = k -> k <> 0 -> obj k = true /\ getb nh' k = true /\ In v (adj k)) ->
  (if obj ii then getb nh' jj = true \/ getz anh' jj = ii else obj jj = true -> getb nh' jj = true) ->
  Inv (mkW nh' anh' todo' (Some (ii, jj :: pre, rest)) (w_proc s)).
Proof.
  intros I C Mn Ma Mt New Td Nd An Hj.
  destruct (i_cur s I ii pre (jj :: rest) C) as [Nii [Eadj Hpre]].
  set (s' := mkW nh' anh' todo' (Some (ii, jj :: pre, rest)) (w_proc s)).
  assert (HM : forall a b, a <> 0 -> handled s a b -> handled s' a b).
  { intros a b Na. apply handled_mono; auto. }
  constructor; cbn [w_nh w_anh w_todo w_cur w_proc].
  - intros v Hv. destruct (New v Hv) as [H|[_ [H _]]]; auto. apply (i_sound s I); auto.
  - intros v Hv. destruct (New v Hv) as [H|[_ [_ H]]]; auto. apply (i_nz s I); auto.
  - exact An.
  - exact Td.
  - intros i0 p0 r0 E. inversion E; subst i0 p0 r0. split; [auto|].
    split; [rewrite Eadj; cbn [rev]; rewrite <- app_assoc; reflexivity|].
    intros x [<-|Hx]; [|apply HM; [apply (i_nz s I); auto|auto]].
    unfold handled. cbn [w_nh w_anh]. destruct (obj ii); exact Hj.
  - intros i0 Hp. destruct (i_proc s I i0 Hp) as [Hn Hh].
    split; [auto|intros x Hx; apply HM; [apply (i_nz s I); auto|auto]].
  - intros v Hv. destruct (New v Hv) as [H|[H _]]; [|left; auto].
    destruct (i_cover s I v H) as [H1|[H1|[p0 [r0 H1]]]]; [left; auto|right; left; auto|].
    right; right. rewrite C in H1. inversion H1; subst. exists (jj :: p0), rest. reflexivity.
  - intros v Hb. apply Mn. apply (i_border s I); auto.
  - exact Nd.
Qed.

Lemma scan_same s ii pre jj rest :
  Inv s -> w_cur s = Some (ii, pre, jj :: rest) ->
  (if obj ii then getb (w_nh s) jj = true \/ getz (w_anh s) jj = ii else obj jj = true -> getb (w_nh s) jj = true) ->
  Inv (w_adv s (Some (ii, jj :: pre, rest))).
Proof.
  intros I C H. unfold w_adv.
  apply (scan_generic s ii pre jj rest (w_nh s) (w_anh s) (w_todo s) I C); auto.
  - apply (i_todo s I).
  - apply (i_nodup s I).
  - apply (i_anh s I).
Qed.

Lemma scan_mark s ii pre jj rest :
  Inv s -> w_cur s = Some (ii, pre, jj :: rest) -> getb (w_nh s) jj = false -> U jj -> jj <> 0 ->
  Inv (w_mark s jj (Some (ii, jj :: pre, rest))).
Proof.
  intros I C Njj Ujj Zjj. unfold w_mark.
  apply (scan_generic s ii pre jj rest (zset (w_nh s) jj true) (w_anh s) (jj :: w_todo s) I C); auto.
  - intros v Hv. destruct (Z.eq_dec v jj) as [->|N]; [apply getb_set_same|rewrite getb_set_other; auto].
  - intros v Hv. right; auto.
  - intros v Hv. destruct (Z.eq_dec v jj) as [->|N]; [right; split; [left; auto|auto]|].
    rewrite getb_set_other in Hv by auto. left; auto.
  - intros v [<-|Hv]; [apply getb_set_same|]. destruct (Z.eq_dec v jj) as [->|N]; [apply getb_set_same|].
    rewrite getb_set_other by auto. apply (i_todo s I); auto.
  - constructor; [|apply (i_nodup s I)]. intros Hin. apply (i_todo s I) in Hin. congruence.
  - intros v k0 Hk Nk. destruct (i_anh s I v k0 Hk Nk) as [A [B D]]. repeat split; auto.
    destruct (Z.eq_dec k0 jj) as [->|N]; [apply getb_set_same|rewrite getb_set_other; auto].
  - destruct (obj ii); [left|intros _]; apply getb_set_same.
Qed.

Lemma obj_gt v : (lcount <? v) = negb (obj v).
Proof. unfold isobj. lia. Qed.

Lemma inv_step s : Inv s -> Inv (step s).
Proof.
  intros I. unfold step1. destruct (w_cur s) as [[[ii pre] [|jj rest]]|] eqn:C.
  - (* scan of ii finished *)
    destruct (i_cur s I ii pre [] C) as [Nii [Eadj Hpre]]. rewrite app_nil_r in Eadj.
    assert (Zii : ii <> 0) by (apply (i_nz s I); auto).
    constructor; cbn [w_nh w_anh w_todo w_cur w_proc]; try apply I.
    + intros i0 p0 r0 E; discriminate.
    + intros i0 Hp. destruct (Z.eq_dec i0 ii) as [->|N].
      * split; [auto|]. intros x Hx. rewrite Eadj in Hx. apply in_rev in Hx.
        apply (handled_mono s); auto.
      * rewrite getb_set_other in Hp by auto. destruct (i_proc s I i0 Hp) as [Hn Hh].
        split; [auto|]. intros x Hx. apply (handled_mono s); auto. apply (i_nz s I); auto.
    + intros v Hv. destruct (i_cover s I v Hv) as [H|[H|[p0 [r0 H]]]]; [left; auto| |].
      * right; left. destruct (Z.eq_dec v ii) as [->|N]; [apply getb_set_same|rewrite getb_set_other; auto].
      * rewrite C in H. inversion H; subst. right; left. apply getb_set_same.
  - (* scan neighbour jj *)
    destruct (i_cur s I ii pre (jj :: rest) C) as [Nii [Eadj Hpre]].
    assert (Ijj : In jj (adj ii)) by (rewrite Eadj; apply in_or_app; right; left; auto).
    assert (Zjj : jj <> 0) by (apply (Hnz_adj ii); auto).
    assert (Zii : ii <> 0) by (apply (i_nz s I); auto).
    destruct (getb (w_nh s) jj) eqn:Njj.
    + apply scan_same; auto. destruct (obj ii); auto.
    + destruct (ii <=? lcount) eqn:Oii.
      * change (ii <=? lcount) with (obj ii) in Oii.
        destruct (getz (w_anh s) jj =? 0) eqn:A0.
        -- (* first unchanged object seen next to jj *)
           apply Z.eqb_eq in A0. unfold w_first.
           apply (scan_generic s ii pre jj rest (w_nh s) (zset (w_anh s) jj ii) (w_todo s) I C); auto.
           ++ intros v Hv. destruct (Z.eq_dec v jj) as [->|N]; [congruence|apply getz_set_other; auto].
           ++ apply (i_todo s I).
           ++ apply (i_nodup s I).
           ++ intros v k Hk Nk. destruct (Z.eq_dec v jj) as [->|N].
              ** rewrite getz_set_same in Hk. subst k. auto.
              ** rewrite getz_set_other in Hk by auto. apply (i_anh s I); auto.
           ++ rewrite Oii. right. apply getz_set_same.
        -- apply Z.eqb_neq in A0. destruct (getz (w_anh s) jj =? ii) eqn:A1.
           ++ apply Z.eqb_eq in A1. apply scan_same; auto. rewrite Oii. right; auto.
           ++ (* two different unchanged objects touch jj: it is not a hole *)
              apply Z.eqb_neq in A1.
              destruct (i_anh s I jj _ eq_refl A0) as [Ok [Nk' Ik]].
              apply scan_mark; auto.
              apply (Unch_two edges todo0 lcount (getz (w_anh s) jj) ii jj); auto;
                try (apply (i_sound s I); auto); apply Hadj; auto.
      * change (ii <=? lcount) with (obj ii) in Oii. rewrite obj_gt.
        destruct (obj jj) eqn:Ojj; cbn [negb].
        -- (* object next to an unchanged background region *)
           apply scan_mark; auto.
           apply (Unch_obj_bg edges todo0 lcount ii jj); auto; [apply (i_sound s I); auto|apply Hadj; auto].
        -- apply scan_same; auto. rewrite Oii. intros; congruence.
  - (* take the next region from the stack *)
    destruct (w_todo s) as [|ii t] eqn:T; [exact I|].
    pose proof (i_nodup s I) as Nd. rewrite T in Nd. inversion Nd as [|x l Nin Nd']; subst x l.
    constructor; cbn [w_nh w_anh w_todo w_cur w_proc]; try apply I.
    + intros v Hv. apply (i_todo s I). rewrite T. right; auto.
    + intros i0 p0 r0 E. inversion E; subst. split; [apply (i_todo s I); rewrite T; left; auto|].
      split; [reflexivity|intros x []].
    + intros v Hv. destruct (i_cover s I v Hv) as [H|[H|[p0 [r0 H]]]]; [|right; left; auto|congruence].
      rewrite T in H. destruct H as [<-|H]; [right; right; eauto|left; auto].
    + exact Nd'.
Qed.

Lemma inv_run fuel : forall s, Inv s -> Inv (run1 adj lcount fuel s).
Proof.
  induction fuel as [|f IH]; intros s I; cbn [run1]; destruct (finished1 s); auto.
  apply IH, inv_step, I.
Qed.

(* the state built by the wrapper: is_not_hole[to_do] = True, stack = to_do *)
Lemma fold_set_true l : forall m v, getb (fold_left (fun m v => zset m v true) l m) v = true <-> (In v l \/ getb m v = true).
Proof.
  induction l as [|a l IH]; intros m v; cbn [fold_left In].
  - tauto.
  - rewrite IH. destruct (Z.eq_dec v a) as [->|N].
    + rewrite getb_set_same. tauto.
    + rewrite getb_set_other by auto. intuition congruence.
Qed.

Lemma inv_init : NoDup todo0 -> Inv (init1 todo0).
Proof.
  intros Nd. unfold init1. rewrite frev_rev.
  assert (E : forall v, getb (fold_left (fun m v => zset m v true) todo0 zempty) v = true <-> In v todo0).
  { intros v. rewrite fold_set_true, getb_empty. split; [intros [H|H]; [auto|discriminate]|auto]. }
  constructor; cbn [w_nh w_anh w_todo w_cur w_proc].
  - intros v Hv. apply Unch_border. apply E; auto.
  - intros v Hv Z0. subst v. apply Hnz_todo. apply E; auto.
  - intros v k Hk Nk. rewrite getz_empty in Hk. congruence.
  - intros v Hv. apply E. apply in_rev; auto.
  - intros; discriminate.
  - intros ii Hp. rewrite getb_empty in Hp. discriminate.
  - intros v Hv. left. apply -> in_rev. apply E; auto.
  - intros v Hv. apply E; auto.
  - apply NoDup_rev; auto.
Qed.

(* The property of the first walk: when it stops (for whatever fuel), exactly the rule-closed
   set is marked. *)
Theorem walk1_lfp fuel : NoDup todo0 ->
  let s := run1 adj lcount fuel (init1 todo0) in
  finished1 s = true -> forall v, getb (w_nh s) v = true <-> U v.
Proof.
  intros Nd s F v. apply finished1_spec in F.
  pose proof (inv_run fuel _ (inv_init Nd)) as I. fold s in I.
  split; [apply (walk_sound _ I)|apply (walk_complete _ I F)].
Qed.

(* any state reachable from an invariant state by any number of steps (any interleaving of pops
   and scans is the same deterministic machine; "any stack order" = any initial permutation) *)
Theorem walk1_lfp_any_order fuel (todo1 : list Z) : NoDup todo1 -> (forall v, In v todo1 <-> In v todo0) ->
  let s := run1 adj lcount fuel (mkW (fold_left (fun m v => zset m v true) todo0 zempty) zempty todo1 None zempty) in
  finished1 s = true -> forall v, getb (w_nh s) v = true <-> U v.
Proof.
  intros Nd P s F v. apply finished1_spec in F.
  assert (E : forall v, getb (fold_left (fun m v => zset m v true) todo0 zempty) v = true <-> In v todo0).
  { intros x. rewrite fold_set_true, getb_empty. split; [intros [H|H]; [auto|discriminate]|auto]. }
  assert (I0 : Inv (mkW (fold_left (fun m v => zset m v true) todo0 zempty) zempty todo1 None zempty)).
  { constructor; cbn [w_nh w_anh w_todo w_cur w_proc].
    - intros x Hx. apply Unch_border. apply E; auto.
    - intros x Hx Z0. subst x. apply Hnz_todo. apply E; auto.
    - intros x k Hk Nk. rewrite getz_empty in Hk. congruence.
    - intros x Hx. apply E. apply P; auto.
    - intros; discriminate.
    - intros ii Hp. rewrite getb_empty in Hp. discriminate.
    - intros x Hx. left. apply P. apply E; auto.
    - intros x Hx. apply E; auto.
    - exact Nd. }
  pose proof (inv_run fuel _ I0) as I. fold s in I.
  split; [apply (walk_sound _ I)|apply (walk_complete _ I F)].
Qed.

(* what the first walk leaves in adjacent_non_hole, as used by the second walk *)
Lemma walk1_anh_sound s : Inv s -> forall v k, getz (w_anh s) v = k -> k <> 0 ->
  obj k = true /\ U k /\ In (k, v) edges.
Proof.
  intros I v k Hk Nk. destruct (i_anh s I v k Hk Nk) as [A [B C]].
  split; [auto|]. split; [apply (i_sound s I); auto|apply Hadj; auto].
Qed.

Lemma walk1_anh_complete s : Inv s -> finished s -> forall k w, U k -> obj k = true ->
  In (k, w) edges -> ~ U w -> getz (w_anh s) w <> 0.
Proof.
  intros I F k w Uk Ok E Nw.
  pose proof (walk_complete s I F k Uk) as Nk.
  destruct F as [Ec Et].
  assert (Pk : getb (w_proc s) k = true).
  { destruct (i_cover s I k Nk) as [H|[H|[pre [rest H]]]]; auto; [rewrite Et in H; destruct H|congruence]. }
  destruct (i_proc s I k Pk) as [_ Hh]. apply Hadj in E. specialize (Hh w E).
  unfold handled in Hh. rewrite Ok in Hh. destruct Hh as [H|H].
  - exfalso. apply Nw. apply (i_sound s I); auto.
  - rewrite H. apply (i_nz s I); auto.
Qed.

Lemma walk1_inv fuel : NoDup todo0 -> Inv (run1 adj lcount fuel (init1 todo0)).
Proof. intros Nd. apply inv_run, inv_init, Nd. Qed.

(* C19 side: the stack never holds a region twice, so it fits the to_do array *)
Theorem stack_bounded fuel (nodes : list Z) : NoDup todo0 ->
  (forall v, In v todo0 -> In v nodes) -> (forall i j, In i nodes -> In j (adj i) -> In j nodes) ->
  let s := run1 adj lcount fuel (init1 todo0) in
  NoDup (w_todo s) /\ (length (w_todo s) <= length nodes)%nat.
Proof.
  intros Nd Hb Hc s.
  (* every marked region is a node *)
  assert (G : forall fuel s0, Inv s0 -> (forall v, getb (w_nh s0) v = true -> In v nodes) ->
                              forall v, getb (w_nh (run1 adj lcount fuel s0)) v = true -> In v nodes).
  { clear s. induction fuel0 as [|f IH]; intros s0 I0 H0; cbn [run1]; destruct (finished1 s0); auto.
    apply IH; [apply inv_step; auto|].
    intros v. unfold step1. destruct (w_cur s0) as [[[ii pre] [|jj rest]]|] eqn:C; cbn [w_nh]; auto.
    - destruct (i_cur s0 I0 ii pre (jj :: rest) C) as [Nii [Eadj _]].
      assert (Ijj : In jj nodes).
      { apply (Hc ii); [apply H0; auto|rewrite Eadj; apply in_or_app; right; left; auto]. }
      assert (M : getb (zset (w_nh s0) jj true) v = true -> In v nodes).
      { destruct (Z.eq_dec v jj) as [->|N]; [auto|rewrite getb_set_other by auto; auto]. }
      destruct (getb (w_nh s0) jj); cbn [w_adv w_nh]; auto.
      destruct (ii <=? lcount).
      + destruct (getz (w_anh s0) jj =? 0); cbn [w_first w_nh]; auto.
        destruct (getz (w_anh s0) jj =? ii); cbn [w_adv w_mark w_nh]; auto.
      + destruct (lcount <? jj); cbn [w_adv w_mark w_nh]; auto.
    - destruct (w_todo s0); cbn [w_nh]; auto. }
  pose proof (inv_run fuel _ (inv_init Nd)) as I. fold s in I.
  split; [apply (i_nodup s I)|].
  apply NoDup_incl_length; [apply (i_nodup s I)|].
  intros v Hv. apply (G fuel (init1 todo0) (inv_init Nd)).
  - intros x Hx. apply Hb. unfold init1 in Hx. cbn [w_nh] in Hx.
    apply fold_set_true in Hx. destruct Hx as [Hx|Hx]; [auto|rewrite getb_empty in Hx; discriminate].
  - apply (i_todo s I); auto.
Qed.

End Walk1.
