(* C08 — soundness of the boolean checker Spec.FillHoles.fill_check, which is evaluated on the
   implementation's own output: naive rounds of rule application, once confirmed closed, give
   exactly the least rule-closed set; the reachability sets only contain regions whose cluster
   touches the given unchanged object. *)
From Coq Require Import ZArith List Bool Lia ZifyBool.
From Centro Require Import Base.FillZMap Model.FillHoles Spec.FillHoles Proofs.FillWalk2.
Import ListNotations.
Open Scope Z_scope.

Section Checker.
Variable edges : list (Z * Z).
Variable border : list Z.
Variable lcount : Z.

Notation U := (Unch edges border lcount).
Notation obj := (isobj lcount).
Notation Cl := (Cluster edges border lcount).

Lemma fires_sound Um j : (forall v, getb Um v = true -> U v) -> fires edges lcount Um j = true -> U j.
Proof.
  intros Hs F. unfold fires in F. apply orb_prop in F as [F|F].
  - apply existsb_exists in F as [[a b] [Hin H]]. cbn [fst snd] in H.
    assert (b = j /\ getb Um a = true /\ obj a = false /\ obj j = true) as [-> [Ha [Oa Oj]]] by lia.
    apply (Unch_obj_bg edges border lcount a j); auto.
  - destruct (map fst (filter (fun e => (snd e =? j) && getb Um (fst e) && obj (fst e)) edges)) as [|k t] eqn:E;
      [discriminate|].
    apply existsb_exists in F as [x [Hx Nx]].
    assert (Mem : forall y, In y (k :: t) -> In (y, j) edges /\ getb Um y = true /\ obj y = true).
    { intros y Hy. rewrite <- E in Hy. apply in_map_iff in Hy as [[a b] [Ey Hy]]. cbn [fst] in Ey. subst a.
      apply filter_In in Hy as [Hin H]. cbn [fst snd] in H.
      assert (b = j /\ getb Um y = true /\ obj y = true) as [-> [A B]] by lia. auto. }
    destruct (Mem k (or_introl eq_refl)) as [Ek [Uk Ok]].
    destruct (Mem x (or_intror Hx)) as [Ex [Ux Ox]].
    apply (Unch_two edges border lcount k x j); auto. lia.
Qed.

Lemma fires_bg Um i j : getb Um i = true -> obj i = false -> In (i, j) edges -> obj j = true ->
  fires edges lcount Um j = true.
Proof.
  intros Ui Oi E Oj. unfold fires. apply orb_true_intro. left. apply existsb_exists. exists (i, j).
  split; [auto|]. cbn [fst snd]. lia.
Qed.

Lemma fires_two Um i1 i2 j : getb Um i1 = true -> getb Um i2 = true -> obj i1 = true -> obj i2 = true ->
  i1 <> i2 -> In (i1, j) edges -> In (i2, j) edges -> fires edges lcount Um j = true.
Proof.
  intros U1 U2 O1 O2 Ne E1 E2. unfold fires. apply orb_true_intro. right.
  set (f := fun e : Z * Z => (snd e =? j) && getb Um (fst e) && obj (fst e)).
  assert (M : forall i, getb Um i = true -> obj i = true -> In (i, j) edges -> In i (map fst (filter f edges))).
  { intros i Ui Oi Ei. apply in_map_iff. exists (i, j). split; [reflexivity|]. apply filter_In. split; [auto|].
    unfold f. cbn [fst snd]. lia. }
  pose proof (M i1 U1 O1 E1) as M1. pose proof (M i2 U2 O2 E2) as M2.
  destruct (map fst (filter f edges)) as [|k t]; [destruct M1|].
  apply existsb_exists. destruct (Z.eq_dec i1 k) as [E|N].
  - exists i2. split; [destruct M2 as [M2|M2]; [congruence|auto]|lia].
  - exists i1. split; [destruct M1 as [M1|M1]; [congruence|auto]|lia].
Qed.

Lemma round_add_props nodes : forall Um,
  (forall v, getb Um v = true -> U v) ->
  (forall v, getb (round_add edges lcount nodes Um) v = true -> U v) /\
  (forall v, getb Um v = true -> getb (round_add edges lcount nodes Um) v = true).
Proof.
  unfold round_add. induction nodes as [|j l IH]; intros Um Hs; cbn [fold_left]; [auto|].
  destruct (getb Um j) eqn:Uj; [apply IH; auto|].
  destruct (fires edges lcount Um j) eqn:F; [|apply IH; auto].
  assert (Hs' : forall v, getb (zset Um j true) v = true -> U v).
  { intros v Hv. destruct (Z.eq_dec v j) as [->|N]; [apply (fires_sound Um); auto|].
    rewrite getb_set_other in Hv by auto. auto. }
  destruct (IH _ Hs') as [A B]. split; [exact A|].
  intros v Hv. apply B. destruct (Z.eq_dec v j) as [->|N]; [apply getb_set_same|rewrite getb_set_other; auto].
Qed.

Lemma rounds_props fuel nodes : forall Um,
  (forall v, getb Um v = true -> U v) ->
  (forall v, getb (rounds edges lcount fuel nodes Um) v = true -> U v) /\
  (forall v, getb Um v = true -> getb (rounds edges lcount fuel nodes Um) v = true).
Proof.
  induction fuel as [|f IH]; intros Um Hs; cbn [rounds]; [auto|].
  destruct (closed_b edges lcount nodes Um); [auto|].
  destruct (round_add_props nodes Um Hs) as [A B]. destruct (IH _ A) as [C D]. split; auto.
Qed.

Lemma fold_border l : forall m v, getb (fold_left (fun m v => zset m v true) l m) v = true <-> (In v l \/ getb m v = true).
Proof.
  induction l as [|a l IH]; intros m v; cbn [fold_left In].
  - tauto.
  - rewrite IH. destruct (Z.eq_dec v a) as [->|N].
    + rewrite getb_set_same. tauto.
    + rewrite getb_set_other by auto. intuition congruence.
Qed.

(* the executable unchanged set is the least rule-closed set, provided the final closure test
   passes (the checker tests it) *)
Theorem unch_exec_lfp fuel nodes :
  (forall v, In v border -> In v nodes) -> (forall i j, In (i, j) edges -> In j nodes) ->
  closed_b edges lcount nodes (unch_exec edges border lcount fuel nodes) = true ->
  forall v, getb (unch_exec edges border lcount fuel nodes) v = true <-> U v.
Proof.
  intros Hb He Cl v. unfold unch_exec in *.
  set (U0 := fold_left (fun m v => zset m v true) border zempty) in *.
  assert (S0 : forall x, getb U0 x = true -> U x).
  { intros x Hx. apply fold_border in Hx as [Hx|Hx]; [apply Unch_border; auto|rewrite getb_empty in Hx; discriminate]. }
  destruct (rounds_props fuel nodes U0 S0) as [A B].
  split; [apply A|].
  intros Hv. unfold closed_b in Cl. rewrite forallb_forall in Cl.
  induction Hv as [v Hv|i j Hi IHi Bi Hj Oj|i1 i2 j H1 IH1 H2 IH2 O1 O2 Ne J1 J2].
  - apply B. apply fold_border. left; auto.
  - specialize (Cl j (He i j Hj)). rewrite (fires_bg _ i j IHi Bi Hj Oj) in Cl. cbn [negb] in Cl.
    rewrite orb_false_r in Cl. exact Cl.
  - specialize (Cl j (He i1 j J1)). rewrite (fires_two _ i1 i2 j IH1 IH2 O1 O2 Ne J1 J2) in Cl. cbn [negb] in Cl.
    rewrite orb_false_r in Cl. exact Cl.
Qed.

(* reachability *)
Definition reach_inv (Um : zmap bool) (k : Z) (R : zmap bool) : Prop :=
  forall v, getb R v = true -> ~ U v /\ exists w, Cl v w /\ In (k, w) edges.

Lemma reach_round_inv Um k : symmetric edges -> (forall v, getb Um v = true <-> U v) ->
  forall R, reach_inv Um k R -> reach_inv Um k (reach_round edges Um k R).
Proof.
  intros Hs HU. unfold reach_round.
  assert (G : forall l, (forall e, In e l -> In e edges) -> forall R, reach_inv Um k R ->
            reach_inv Um k (fold_left (fun Sa e => if negb (getb Um (snd e)) && ((fst e =? k) || getb Sa (fst e)) && negb (getb Sa (snd e))
                                                   then zset Sa (snd e) true else Sa) l R)).
  { induction l as [|[a b] l IH]; intros Hl R HR; cbn [fold_left]; [exact HR|].
    apply IH; [intros e He; apply Hl; right; auto|].
    cbn [fst snd]. destruct (negb (getb Um b) && ((a =? k) || getb R a) && negb (getb R b)) eqn:C; [|exact HR].
    assert (Eab : In (a, b) edges) by (apply Hl; left; auto).
    assert (Nb : ~ U b) by (intros Ub; apply HU in Ub; rewrite Ub in C; discriminate).
    intros v Hv. destruct (Z.eq_dec v b) as [->|N]; [|rewrite getb_set_other in Hv by auto; apply HR; auto].
    split; [exact Nb|].
    destruct (a =? k) eqn:Ak.
    - apply Z.eqb_eq in Ak. subst a. exists b. split; [constructor|auto].
    - assert (Ra : getb R a = true) by lia.
      destruct (HR a Ra) as [Na [w [Cw Ew]]]. exists w. split; [|auto].
      apply (cluster_trans edges lcount border b a w); [|exact Cw].
      apply (Cl_step edges border lcount b b a); [constructor|apply Hs; auto|auto]. }
  intros R HR. apply G; auto.
Qed.

Lemma reach_sound fuel Um k : symmetric edges -> (forall v, getb Um v = true <-> U v) ->
  forall R, reach_inv Um k R -> reach_inv Um k (reach edges fuel Um k R).
Proof.
  intros Hs HU. induction fuel as [|f IH]; intros R HR; cbn [reach]; [exact HR|].
  destruct (reach_stable edges Um k R); [exact HR|]. apply IH. apply reach_round_inv; auto.
Qed.

End Checker.

(* ---------------------------------------------------------------- on images *)

(* what fill_check certifies about output pixel p *)
Definition pixel_ok (sc : scene) (out : zmap Z) (p : Z) : Prop :=
  let v := getz (sc_reg sc) p in
  (Unch (sc_edges sc) (sc_border sc) (sc_lcount sc) v -> getz out p = getz (sc_lab sc) p) /\
  (~ Unch (sc_edges sc) (sc_border sc) (sc_lcount sc) v ->
   Parent (sc_edges sc) (sc_border sc) (sc_lcount sc) v (getz out p)).

Lemma swap_sym (raw : list (Z * Z)) : symmetric (raw ++ map swap raw).
Proof.
  intros i j H. apply in_app_or in H as [H|H]; apply in_or_app.
  - right. apply in_map_iff. exists (i, j). split; [reflexivity|auto].
  - left. apply in_map_iff in H as [[a b] [E H]]. unfold swap in E. cbn [fst snd] in E. inversion E; subst. auto.
Qed.

Lemma scene_sym rows : symmetric (sc_edges (scene_of rows)).
Proof. unfold scene_of. cbn [sc_edges]. apply swap_sym. Qed.

Lemma scene_nodes rows : sc_nodes (scene_of rows) = sc_border (scene_of rows) ++ map snd (sc_edges (scene_of rows)).
Proof. reflexivity. Qed.

Theorem fill_check_sound rows outrows : fill_check rows outrows = true ->
  let sc := scene_of rows in
  forall p, 0 <= p < Z.of_nat (sc_H sc * sc_W sc) -> pixel_ok sc (zload (concat outrows) 0 zempty) p.
Proof.
  intros C sc p Hp. unfold fill_check in C. fold sc in C.
  set (out := zload (concat outrows) 0 zempty) in *.
  set (fuel := S (length (sc_nodes sc))) in *.
  set (Um := unch_exec (sc_edges sc) (sc_border sc) (sc_lcount sc) fuel (sc_nodes sc)) in *.
  apply andb_prop in C as [C Cpix]. apply andb_prop in C as [C Ccl].
  assert (Nodes : sc_nodes sc = sc_border sc ++ map snd (sc_edges sc)) by (apply scene_nodes).
  assert (HU : forall v, getb Um v = true <-> Unch (sc_edges sc) (sc_border sc) (sc_lcount sc) v).
  { apply unch_exec_lfp; [| |exact Ccl].
    - intros v Hv. rewrite Nodes. apply in_or_app; left; auto.
    - intros i j Hij. rewrite Nodes. apply in_or_app; right. apply in_map_iff. exists (i, j). auto. }
  rewrite forallb_forall in Cpix. specialize (Cpix p).
  assert (Hin : In p (zseq 0 (sc_H sc * sc_W sc))) by (apply zseq_In; lia).
  specialize (Cpix Hin). cbv zeta in Cpix. unfold pixel_ok. cbv zeta.
  destruct (getb Um (getz (sc_reg sc) p)) eqn:E.
  - split; [intros _; apply Z.eqb_eq; exact Cpix|]. intros N. exfalso. apply N, HU, E.
  - split; [intros Uv; apply HU in Uv; congruence|]. intros _.
    apply andb_prop in Cpix as [Cpix Cr]. apply andb_prop in Cpix as [Cpix Cz]. apply andb_prop in Cpix as [Co Cu].
    split; [apply HU; exact Cu|]. split; [unfold isobj; exact Co|].
    assert (RI : reach_inv (sc_edges sc) (sc_border sc) (sc_lcount sc) Um (getz out p)
                   (reach (sc_edges sc) fuel Um (getz out p) zempty)).
    { apply reach_sound; [apply scene_sym|exact HU|]. intros v Hv. rewrite getb_empty in Hv. discriminate. }
    destruct (RI _ Cr) as [_ [w [Cw Ew]]]. exists w. auto.
Qed.

(* Example: the checker accepts the implementation's answer on the two-parent witness image and on
   a bullseye, and rejects leaving the bullseye unfilled *)
Example fill_check_examples :
  fill_check [[1;1;2;2];[1;3;0;2];[1;1;2;2]] [[1;1;2;2];[1;1;2;2];[1;1;2;2]] = true /\
  fill_check [[1;1;1;1;1];[1;0;0;0;1];[1;0;2;0;1];[1;0;0;0;1];[1;1;1;1;1]]
             [[1;1;1;1;1];[1;1;1;1;1];[1;1;1;1;1];[1;1;1;1;1];[1;1;1;1;1]] = true /\
  fill_check [[1;1;1;1;1];[1;0;0;0;1];[1;0;2;0;1];[1;0;0;0;1];[1;1;1;1;1]]
             [[1;1;1;1;1];[1;0;0;0;1];[1;0;2;0;1];[1;0;0;0;1];[1;1;1;1;1]] = false.
Proof. vm_compute. repeat split; reflexivity. Qed.
