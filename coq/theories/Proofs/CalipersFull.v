(* C14 — calipers = brute force, minimum: for every strictly convex vertex cycle the minimum the
   sweep model reports is, as a rational, the brute-force minimum over all edges. *)
From Coq Require Import ZArith List Bool Lia ZifyBool.
From Centro Require Import Base.Sx Model.Feret Spec.FeretSpec Spec.CalipersHyp Spec.FeretBrute
  Proofs.FeretProofs Proofs.SweepProofs Proofs.CalipersGeom Proofs.CalipersPath Proofs.CalipersMax
  Proofs.CalipersMin Proofs.CalipersEdges.
Import ListNotations.
Open Scope Z_scope.

(* ---------------------------------------------------------------- folding qmin *)
Definition qle (x y : Z * Z) : Prop := fst x * snd y <= fst y * snd x.
Definition okq (o : option (Z * Z)) : Prop := match o with Some q => 0 < snd q | None => True end.

Lemma qle_trans x y z : 0 < snd x -> 0 < snd y -> 0 < snd z -> qle x y -> qle y z -> qle x z.
Proof.
  unfold qle. destruct x as [a b], y as [c d], z as [e f]. cbn [fst snd]. intros Pb Pd Pf H1 H2.
  apply Z.mul_le_mono_pos_r with (p := d); [exact Pd|].
  assert (a * d * f <= c * b * f) by (apply Z.mul_le_mono_nonneg_r; lia).
  assert (c * f * b <= e * d * b) by (apply Z.mul_le_mono_nonneg_r; lia). lia.
Qed.

Section QFold.
  Variable A : Type.
  Variable f : A -> option (Z * Z).
  Hypothesis f_ok : forall x, okq (f x).
  Definition qstep (best : option (Z * Z)) (x : A) : option (Z * Z) :=
    match f x with Some q => qmin best (fst q) (snd q) | None => best end.

  Lemma qfold_spec : forall l init, okq init ->
    match fold_left qstep l init with
    | None => init = None /\ forall x, In x l -> f x = None
    | Some r => 0 < snd r /\ (init = Some r \/ exists x, In x l /\ f x = Some r) /\
                (forall q, init = Some q -> qle r q) /\ (forall x q, In x l -> f x = Some q -> qle r q)
    end.
  Proof.
    induction l as [|x t IH]; intros init Oi; cbn [fold_left].
    - destruct init as [r|]; [|split; [reflexivity|intros x []]].
      split; [exact Oi|]. split; [left; reflexivity|]. split; [intros q E; inversion E; unfold qle; lia|intros x q []].
    - assert (Os : okq (qstep init x)).
      { unfold qstep. pose proof (f_ok x) as Fx. destruct (f x) as [[qn qd]|]; [|exact Oi].
        cbn [fst snd okq] in *. unfold qmin. destruct init as [[bn bd]|]; [destruct (qn * bd <? bn * qd)|]; cbn [okq snd] in *; lia. }
      specialize (IH (qstep init x) Os).
      destruct (fold_left qstep t (qstep init x)) as [r|].
      + destruct IH as (Pr & Wit & LeI & LeT). split; [exact Pr|].
        (* relation between qstep init x and its two inputs *)
        assert (St : (qstep init x = init /\ (forall q, f x = Some q -> forall i, init = Some i -> qle i q)) \/
                     (exists q, f x = Some q /\ qstep init x = Some q /\ (forall i, init = Some i -> qle q i))).
        { unfold qstep. pose proof (f_ok x) as Fx. destruct (f x) as [[qn qd]|]; [|left; split; [reflexivity|intros q E; discriminate]].
          cbn [fst snd okq] in *. unfold qmin. destruct init as [[bn bd]|].
          - destruct (qn * bd <? bn * qd) eqn:C.
            + right. exists (qn, qd). split; [reflexivity|]. split; [reflexivity|]. intros i E. inversion E. unfold qle. cbn [fst snd]. lia.
            + left. split; [reflexivity|]. intros q E i Ei. inversion E; inversion Ei. unfold qle. cbn [fst snd]. lia.
          - right. exists (qn, qd). split; [reflexivity|]. split; [reflexivity|]. intros i E. discriminate. }
        split; [|split].
        * destruct Wit as [W|[y [Iy Fy]]]; [|right; exists y; split; [right; exact Iy|exact Fy]].
          destruct St as [[E _]|[q (Fq & Eq & _)]]; [left; congruence|].
          right. exists x. split; [left; reflexivity|congruence].
        * intros q Ei. destruct St as [[E _]|[q' (Fq & Eq & Lq)]]; [apply LeI; congruence|].
          pose proof (LeI q' Eq) as L1. specialize (Lq q Ei).
          pose proof (f_ok x) as Fx. rewrite Fq in Fx. cbn [okq] in Fx. subst init. cbn [okq] in Oi.
          apply (qle_trans r q' q); assumption.
        * intros y q [<-|Iy] Fy; [|exact (LeT y q Iy Fy)].
          destruct St as [[E Lq]|[q' (Fq & Eq & _)]].
          -- destruct init as [i|]; [|unfold qstep in E; rewrite Fy in E; unfold qmin in E; discriminate].
             pose proof (LeI i ltac:(congruence)) as L1. specialize (Lq q Fy i eq_refl).
             pose proof (f_ok x) as Fx. rewrite Fy in Fx. cbn [okq] in Fx, Oi.
             apply (qle_trans r i q); assumption.
          -- assert (q' = q) by congruence. subst q'. apply LeI. exact Eq.
      + destruct IH as [E Nn]. unfold qstep in E. pose proof (f_ok x) as Fx.
        destruct (f x) as [[qn qd]|] eqn:Fq.
        * unfold qmin in E. destruct init as [[bn bd]|]; [destruct (_ <? _)|]; discriminate.
        * split; [exact E|]. intros y [<-|Iy]; [exact Fq|apply Nn; exact Iy].
  Qed.
End QFold.

Lemma fold_left_ext_in {A B} (f g : A -> B -> A) l : (forall a b, In b l -> f a b = g a b) ->
  forall init, fold_left f l init = fold_left g l init.
Proof.
  induction l as [|x t IH]; intros H init; [reflexivity|]. cbn [fold_left].
  rewrite (H init x (or_introl eq_refl)). apply IH. intros a b I. apply H. right. exact I.
Qed.

Lemma pair_mem_In p ps : pair_mem p ps = true <-> In p ps.
Proof.
  unfold pair_mem. rewrite existsb_exists. split.
  - intros [q [I E]]. destruct p, q. cbn [fst snd] in E. assert (n = n1 /\ n0 = n2) as [-> ->] by lia. exact I.
  - intro I. exists p. split; [exact I|lia].
Qed.

(* ---------------------------------------------------------------- widths *)
Lemma edge_num_spec h a :
  (forall k, (k < length h)%nat -> cross2 (pnth k h) (pnth a h) (pnth (nxt (length h) a) h) <= edge_num h a) /\
  (edge_num h a = 0 \/ exists k, (k < length h)%nat /\ cross2 (pnth k h) (pnth a h) (pnth (nxt (length h) a) h) = edge_num h a).
Proof.
  unfold edge_num. set (g := fun k => cross2 (pnth k h) (pnth a h) (pnth (nxt (length h) a) h)).
  change (fold_right (fun k m => Z.max (g k) m) 0 (seq 0 (length h))) with (fmax _ g (seq 0 (length h))).
  split.
  - intros k L. apply (fmax_ge _ g). apply in_seq. lia.
  - destruct (fmax_attained _ g (seq 0 (length h))) as [Z0|[k [I E]]]; [left; exact Z0|right].
    exists k. apply in_seq in I. split; [lia|exact E].
Qed.

Section Full.
  Variable h : list fpt.
  Variable sg : Z.
  Let n := length h.
  Hypothesis Sg : sg = 1 \/ sg = -1.
  Hypothesis N3 : (3 <= n)%nat.
  Hypothesis SC : strict_side h sg = true.

  Notation Dm := (Dm h sg).
  Notation nx := (nx h).

  (* a run along one row *)
  Lemma row_run : forall fuel v a acc ps t,
    (v < a <= t)%nat -> (t < n)%nat -> (forall c, (a <= c < t)%nat -> 0 <= Dm v c) ->
    sweep_loop fuel h n v a acc = Some ps -> In (v, t) ps.
  Proof.
    induction fuel as [|f IH]; intros v a acc ps t Hva Ht Adv E; [discriminate|].
    destruct (Nat.eq_dec a t) as [->|Na]; [exact (proj1 (sweep_loop_acc h n _ _ _ _ _ E))|].
    cbn [sweep_loop] in E.
    assert (Rva : (v < a < length h)%nat) by (fold n; lia).
    pose proof (proj2 (adv' h sg Sg N3 SC v a Rva) (Adv a ltac:(lia))) as T. fold n in T. rewrite T in E. cbv iota in E.
    assert (C : ((S a <? n)%nat && negb (v =? S a)%nat) = true) by lia. rewrite C in E.
    apply (IH v (S a) ((v, a) :: acc) ps t); [lia|exact Ht| |exact E].
    intros c Hc. apply Adv. lia.
  Qed.

  (* every edge has a vertex with both its end points among the recorded antipodes *)
  Theorem every_edge_has_candidate ps a : antipodal_pairs h = Some ps -> (a < n)%nat ->
    exists v, (v < n)%nat /\ in_sym ps v a /\ in_sym ps v (nxt n a).
  Proof.
    intros AP La. pose proof AP as AP0.
    rewrite (antipodal_pairs_ge3 h N3) in AP. fold n in AP.
    destruct (first_argmax _ _ _ 1 None) as [[a0 c]|] eqn:FA; [|discriminate].
    destruct (initial_anti h sg Sg N3 SC a0 c FA) as [Ra0 An0].
    destruct (loop_structure h sg Sg N3 SC _ 0%nat a0 [] ps ltac:(lia) AP) as [Cols [vend (V1 & V2 & V3 & Rows)]].
    destruct (recorded_antipodal h sg Sg N3 SC ps (vend, (n - 1)%nat) AP0 V2) as [Rv [AvA AvB]]. cbn [fst snd] in Rv, AvA, AvB.
    pose proof (last_row_ge h sg Sg N3 SC a0 c vend FA ltac:(lia) V3) as Ge.
    assert (Rng : forall x y, In (x, y) ps -> (x < y < n)%nat).
    { intros x y I. exact (proj1 (recorded_antipodal h sg Sg N3 SC ps (x, y) AP0 I)). }
    destruct (le_lt_dec a0 a) as [Hi|Lo]; [destruct (Nat.eq_dec a (n - 1)) as [El|Nl]|].
    - (* the closing edge n-1 -> 0: vertex vend, through (vend, n-1) and (0, vend) *)
      subst a. exists vend. split; [lia|]. split; [left; exact V2|].
      assert (E0 : nxt n (n - 1) = 0%nat) by (unfold nxt; destruct (Nat.eqb_spec (S (n - 1)) n); lia).
      rewrite E0. right.
      apply (row_run (2 * n + 4)%nat 0%nat a0 [] ps vend ltac:(lia) ltac:(lia)); [|exact AP].
      (* f_0 does not decrease before vend *)
      intros cc Hc.
      assert (Ep : prv h vend = (vend - 1)%nat) by (unfold prv; destruct (Nat.eqb_spec vend 0); lia).
      rewrite Ep in AvA.
      assert (En : nx (n - 1) = 0%nat) by (unfold CalipersPath.nx, nxt; fold n; destruct (Nat.eqb_spec (S (n - 1)) n); lia).
      assert (Top : 0 < Dm 0 (vend - 1)).
      { rewrite Dm_antisym.
        pose proof (NV h sg Sg N3 SC (vend - 1)%nat (n - 1)%nat ltac:(fold n; lia) ltac:(fold n; lia)) as V.
        rewrite En in V. rewrite (nx_S h sg N3 SC (vend - 1)%nat) in V by (fold n; lia).
        specialize (V ltac:(lia) ltac:(lia) AvA). lia. }
      destruct (Z_lt_le_dec (Dm 0 cc) 0) as [Neg|OK]; [exfalso|exact OK].
      destruct (NV_chain h sg Sg N3 SC 0%nat cc (vend - 1 - cc) ltac:(fold n; lia) ltac:(fold n; lia)) as [Le _]; [|lia|].
      + intros t Ht. rewrite (nx_S h sg N3 SC 0%nat) by (fold n; lia). lia.
      + replace (cc + (vend - 1 - cc))%nat with (vend - 1)%nat in Le by lia. lia.
    - (* a column step *)
      destruct (Cols a ltac:(lia)) as [r [I1 I2]].
      assert (Ea : nxt n a = S a) by (unfold nxt; destruct (Nat.eqb_spec (S a) n); lia).
      exists r. pose proof (Rng _ _ I1). split; [lia|]. split; [left; exact I1|rewrite Ea; left; exact I2].
    - (* a row step *)
      destruct (Rows a ltac:(lia)) as [cc [I1 I2]].
      assert (Ea : nxt n a = S a) by (unfold nxt; destruct (Nat.eqb_spec (S a) n); lia).
      exists cc. pose proof (Rng _ _ I1). split; [lia|]. split; [right; exact I1|rewrite Ea; right; exact I2].
  Qed.

  (* ---------------------------------------------------------------- the two folds *)
  Definition swp (p : nat * nat) : nat * nat := (snd p, fst p).
  Definition symlist (ps : list (nat * nat)) : list (nat * nat) :=
    let nondeg := filter (fun p => negb (fst p =? snd p)%nat) ps in nondeg ++ map swp nondeg.
  Definition cnum (p : nat * nat) : Z := cross2 (pnth (fst p) h) (pnth (snd p) h) (pnth (nxt n (snd p)) h).
  Definition cden (p : nat * nat) : Z := fdist2 (pnth (snd p) h) (pnth (nxt n (snd p)) h).
  Definition fm (ps : list (nat * nat)) (p : nat * nat) : option (Z * Z) :=
    if pair_mem (fst p, nxt n (snd p)) (symlist ps) && (0 <? cden p) then Some (cnum p, cden p) else None.
  Definition fb (a : nat) : option (Z * Z) :=
    if 0 <? edge_den h a then Some (edge_num h a, edge_den h a) else None.

  Lemma fm_ok ps p : okq (fm ps p).
  Proof. unfold fm. destruct (_ && _) eqn:E; cbn [okq snd]; [lia|exact Logic.I]. Qed.
  Lemma fb_ok a : okq (fb a).
  Proof. unfold fb. destruct (0 <? edge_den h a) eqn:E; cbn [okq snd]; [lia|exact Logic.I]. Qed.

  Lemma den_pos a : (a < n)%nat -> 0 < edge_den h a.
  Proof.
    intro La. unfold edge_den. fold n. change (nxt n a) with (nx a).
    pose proof (P_inj h sg N3 SC a (nx a) La (nx_lt h sg N3 SC a La) ltac:(pose proof (nx_neq h sg N3 SC a La); lia)) as Ne.
    change (pnth a h) with (P h a). change (pnth (nx a) h) with (P h (nx a)).
    unfold fdist2. destruct (P h a) as [a1 a2], (P h (nx a)) as [b1 b2]. cbn [fst snd].
    assert (a1 <> b1 \/ a2 <> b2) by (destruct (Z.eq_dec a1 b1), (Z.eq_dec a2 b2); subst; try tauto; congruence).
    pose proof (Z.square_nonneg (a1 - b1)). pose proof (Z.square_nonneg (a2 - b2)).
    destruct H; [assert (0 < (a1 - b1) * (a1 - b1)) by nia|assert (0 < (a2 - b2) * (a2 - b2)) by nia]; lia.
  Qed.

  Lemma symlist_In ps v a : (forall x y, In (x, y) ps -> (x < y < n)%nat) ->
    (In (v, a) (symlist ps) <-> in_sym ps v a).
  Proof.
    intro Rng. unfold symlist, in_sym. rewrite in_app_iff, in_map_iff. split.
    - intros [I|[[x y] [E I]]].
      + apply filter_In in I. left. tauto.
      + apply filter_In in I. unfold swp in E. cbn [fst snd] in E. inversion E; subst. right. tauto.
    - intros [I|I].
      + left. apply filter_In. split; [exact I|]. pose proof (Rng _ _ I). cbn [fst snd]. lia.
      + right. exists (a, v). split; [reflexivity|]. apply filter_In. split; [exact I|]. pose proof (Rng _ _ I). cbn [fst snd]. lia.
  Qed.

  Lemma min_candidates_fold ps : (forall x y, In (x, y) ps -> (x < y < n)%nat) ->
    min_candidates h ps = fold_left (qstep _ (fm ps)) (symlist ps) None.
  Proof.
    intro Rng. unfold min_candidates. fold n.
    change (filter (fun p => negb (fst p =? snd p)%nat) ps ++
            map (fun p => (snd p, fst p)) (filter (fun p => negb (fst p =? snd p)%nat) ps)) with (symlist ps).
    apply fold_left_ext_in. intros best p Ip. unfold qstep, fm, cnum, cden.
    change (if (S (snd p) =? n)%nat then 0%nat else S (snd p)) with (nxt n (snd p)).
    destruct (pair_mem (fst p, nxt n (snd p)) (symlist ps)) eqn:M; cbn [andb]; [|reflexivity].
    assert (La : (snd p < n)%nat).
    { destruct p as [v a]. apply (symlist_In ps v a Rng) in Ip. cbn [snd]. destruct Ip as [I|I]; pose proof (Rng _ _ I); lia. }
    pose proof (den_pos (snd p) La) as D. unfold edge_den in D. fold n in D.
    assert (T : (0 <? fdist2 (pnth (snd p) h) (pnth (nxt n (snd p)) h)) = true) by lia. rewrite T. reflexivity.
  Qed.

  Lemma bf_min_fold : bf_min h = fold_left (qstep _ fb) (seq 0 n) None.
  Proof.
    unfold bf_min. fold n. apply fold_left_ext_in. intros best a Ia. apply in_seq in Ia.
    unfold qstep, fb. pose proof (den_pos a ltac:(lia)) as D.
    assert (T : (0 <? edge_den h a) = true) by lia. rewrite T. reflexivity.
  Qed.

  Theorem min_eq_bruteforce ps : antipodal_pairs h = Some ps ->
    exists mq bq, min_candidates h ps = Some mq /\ bf_min h = Some bq /\
                  0 < snd mq /\ 0 < snd bq /\ fst mq * snd bq = fst bq * snd mq.
  Proof.
    intro AP.
    assert (Rng : forall x y, In (x, y) ps -> (x < y < n)%nat).
    { intros x y I. exact (proj1 (recorded_antipodal h sg Sg N3 SC ps (x, y) AP I)). }
    (* a kept candidate for every edge, with value = the edge's width *)
    assert (Kept : forall a, (a < n)%nat -> exists v, In (v, a) (symlist ps) /\ fm ps (v, a) = Some (edge_num h a, edge_den h a)).
    { intros a La. destruct (every_edge_has_candidate ps a AP La) as [v (Lv & S1 & S2)].
      exists v. split; [apply (symlist_In ps v a Rng); exact S1|].
      unfold fm, cnum, cden. cbn [fst snd].
      assert (M : pair_mem (v, nxt n a) (symlist ps) = true) by (apply pair_mem_In; apply (symlist_In ps v (nxt n a) Rng); exact S2).
      pose proof (den_pos a La) as D. unfold edge_den in D. fold n in D.
      assert (T : (0 <? fdist2 (pnth a h) (pnth (nxt n a) h)) = true) by lia. rewrite M, T. cbn [andb].
      assert (Ex : cross2 (pnth v h) (pnth a h) (pnth (nxt n a) h) = edge_num h a).
      { destruct (edge_num_spec h a) as [Up At]. fold n in Up, At.
        pose proof (Up v Lv) as U1.
        assert (U2 : edge_num h a <= cross2 (pnth v h) (pnth a h) (pnth (nxt n a) h)).
        { destruct At as [Z0|[k [Lk Ek]]].
          - rewrite Z0. unfold cross2. apply Z.square_nonneg.
          - rewrite <- Ek. exact (candidates_are_widths h sg Sg N3 SC ps v a k AP S1 S2 Lk). }
        lia. }
      rewrite Ex. unfold edge_den. fold n. reflexivity. }
    (* every kept candidate is the width of its edge *)
    assert (Val : forall p q, In p (symlist ps) -> fm ps p = Some q -> (snd p < n)%nat /\ q = (edge_num h (snd p), edge_den h (snd p))).
    { intros [v a] q Ip Fq. unfold fm in Fq. cbn [fst snd] in *.
      destruct (pair_mem (v, nxt n a) (symlist ps) && (0 <? cden (v, a))) eqn:G; [|discriminate].
      apply andb_true_iff in G. destruct G as [M _]. apply pair_mem_In in M.
      apply (symlist_In ps v a Rng) in Ip. apply (symlist_In ps v (nxt n a) Rng) in M.
      assert (La : (a < n)%nat) by (destruct Ip as [I|I]; pose proof (Rng _ _ I); lia).
      assert (Lv : (v < n)%nat) by (destruct Ip as [I|I]; pose proof (Rng _ _ I); lia).
      split; [exact La|]. inversion Fq. unfold cnum, cden, edge_den. cbn [fst snd]. fold n.
      assert (Ex : cross2 (pnth v h) (pnth a h) (pnth (nxt n a) h) = edge_num h a).
      { destruct (edge_num_spec h a) as [Up At]. fold n in Up, At.
        pose proof (Up v Lv) as U1.
        destruct At as [Z0|[k [Lk Ek]]].
        - rewrite Z0 in *. assert (0 <= cross2 (pnth v h) (pnth a h) (pnth (nxt n a) h)) by (unfold cross2; apply Z.square_nonneg). lia.
        - pose proof (candidates_are_widths h sg Sg N3 SC ps v a k AP Ip M Lk) as CW. fold n in CW. lia. }
      rewrite Ex. reflexivity. }
    rewrite (min_candidates_fold ps Rng), bf_min_fold.
    pose proof (qfold_spec _ (fm ps) (fm_ok ps) (symlist ps) None Logic.I) as Q1.
    pose proof (qfold_spec _ fb fb_ok (seq 0 n) None Logic.I) as Q2.
    destruct (fold_left (qstep _ (fm ps)) (symlist ps) None) as [mq|].
    2:{ destruct Q1 as [_ Nn]. destruct (Kept 0%nat ltac:(lia)) as [v [Iv Fv]]. rewrite (Nn _ Iv) in Fv. discriminate. }
    destruct (fold_left (qstep _ fb) (seq 0 n) None) as [bq|].
    2:{ destruct Q2 as [_ Nn]. specialize (Nn 0%nat ltac:(apply in_seq; lia)). unfold fb in Nn.
        pose proof (den_pos 0%nat ltac:(lia)). assert (T : (0 <? edge_den h 0) = true) by lia. rewrite T in Nn. discriminate. }
    destruct Q1 as (P1 & W1 & _ & Le1). destruct Q2 as (P2 & W2 & _ & Le2).
    exists mq, bq. split; [reflexivity|]. split; [reflexivity|]. split; [exact P1|]. split; [exact P2|].
    destruct W1 as [W1|[p1 [Ip1 Fp1]]]; [discriminate|]. destruct W2 as [W2|[a2 [Ia2 Fa2]]]; [discriminate|].
    apply in_seq in Ia2.
    (* mq <= bq: edge a2 has a kept candidate of value bq *)
    assert (A : qle mq bq).
    { destruct (Kept a2 ltac:(lia)) as [v [Iv Fv]]. apply (Le1 (v, a2) bq Iv).
      rewrite Fv. unfold fb in Fa2. destruct (0 <? edge_den h a2); [exact Fa2|discriminate]. }
    (* bq <= mq: mq is the width of its own edge *)
    assert (B : qle bq mq).
    { destruct (Val p1 mq Ip1 Fp1) as [La1 Eq]. apply (Le2 (snd p1) mq); [apply in_seq; lia|].
      unfold fb. pose proof (den_pos (snd p1) La1). assert (T : (0 <? edge_den h (snd p1)) = true) by lia.
      rewrite T, Eq. reflexivity. }
    unfold qle in A, B. lia.
  Qed.
End Full.

Theorem calipers_eq_bruteforce h mx mq :
  strict_convex_ok h = true -> sweep h = Some (mx, mq) ->
  mx = max_d2 h /\
  exists bq, bf_min h = Some bq /\ 0 < snd mq /\ 0 < snd bq /\ fst mq * snd bq = fst bq * snd mq.
Proof.
  intros Hyp E. split; [exact (sweep_max_complete h mx mq Hyp E)|].
  unfold strict_convex_ok in Hyp. apply andb_true_iff in Hyp. destruct Hyp as [N3 Side].
  assert (N3' : (3 <= length h)%nat) by lia.
  assert (SS : exists sg, (sg = 1 \/ sg = -1) /\ strict_side h sg = true).
  { apply orb_true_iff in Side. destruct Side as [S|S]; [exists 1|exists (-1)]; split; auto. }
  destruct SS as [sg [Sg SC]].
  unfold sweep in E. destruct (antipodal_pairs h) as [ps|] eqn:AP; [|discriminate].
  destruct (min_eq_bruteforce h sg Sg N3' SC ps AP) as [mq' [bq (M & B & P1 & P2 & Eq)]].
  rewrite M in E. assert (mq = mq') by congruence. subst mq'.
  exists bq. repeat split; assumption.
Qed.

(* one- and two-vertex hulls: the sweep is not entered *)
Theorem calipers_small h : (length h <= 2)%nat -> sweep h = Some (max_d2 h, (0, 1)).
Proof.
  intro L. destruct h as [|p [|q [|r t]]]; cbn [length] in L; try lia.
  - reflexivity.
  - unfold sweep, antipodal_pairs, max_pair_d2, min_candidates, max_d2, max_from. cbn.
    f_equal. f_equal. unfold fdist2, sdist2, pnth. cbn. lia.
  - unfold sweep, antipodal_pairs, max_pair_d2, min_candidates, max_d2, max_from. cbn.
    f_equal. f_equal. unfold fdist2, sdist2, pnth. cbn.
    pose proof (Z.square_nonneg (fst p - fst q)). pose proof (Z.square_nonneg (snd p - snd q)).
    assert ((fst q - fst p) * (fst q - fst p) = (fst p - fst q) * (fst p - fst q)) by ring.
    assert ((snd q - snd p) * (snd q - snd p) = (snd p - snd q) * (snd p - snd q)) by ring. lia.
Qed.
