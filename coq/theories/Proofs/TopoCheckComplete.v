(* C05 - completeness of the checker [topo_check], up to one digital-topology lemma.

   [RonseLemma] (C. Ronse, "A topological characterization of thinning", 1986, in the (8,4) case):
   if X' is a proper subset of the finite image X and TopoEq X X', then some pixel of X \ X' is
   (8,4)-simple in X.  Everything else is proved here: the intermediate-image lemma [TopoEq_mid],
   "a sweep that changes nothing has met no simple pixel outside the target", the fuel bound, and
   hence [topo_check_complete_partial]: RonseLemma -> (TopoEq (img_of g) (img_of g') -> topo_check
   H W g g' = true) for all well-formed grids. *)
From Coq Require Import ZArith NArith List Bool Lia.
From Centro Require Import Base.Topo Base.Skel Base.TopoPar Base.TopoSweep Base.TopoGrid.
From Centro Require Import Model.ThinSkel Spec.TopoCheck Proofs.ThinSkelTopo Proofs.ThinSkelIdem Proofs.TopoCounts.
Import ListNotations.
Open Scope Z_scope.

Definition RonseLemma : Prop := forall H W g g', wf H W g -> wf H W g' ->
  TopoEq (img_of g) (img_of g') ->
  (exists p, img_of g p = true /\ img_of g' p = false) ->
  exists p, img_of g p = true /\ img_of g' p = false /\ simple_ok (pat (img_of g) p) = true.

(* X' <= Y <= X, X ~ X', X ~ Y  ==>  Y ~ X' *)
Lemma TopoEq_mid X Y X' : TopoEq X X' -> TopoEq X Y -> (forall q, fg X' q -> fg Y q) -> TopoEq Y X'.
Proof.
  intros T1 T2 S.
  assert (SB : forall q, bg Y q -> bg X' q).
  { intros q Hq. unfold bg in *. destruct (X' q) eqn:E; [|reflexivity]. apply S in E. unfold fg in E. congruence. }
  assert (SBX : forall q, bg X q -> bg Y q) by (apply sub_bg; exact T2).
  constructor.
  - exact S.
  - intros a b Ha Hb. split; intros P.
    + apply (te_fg_iff _ _ T1 a b Ha Hb). eapply path_mono; [|exact P]. apply (te_sub _ _ T2).
    + eapply path_mono; [|exact P]. exact S.
  - intros a Ha. destruct (te_fg_surj _ _ T1 a (te_sub _ _ T2 a Ha)) as [b [Hb P]]. exists b. split; [exact Hb|].
    apply (te_fg_iff _ _ T2 a b Ha (S b Hb)). exact P.
  - intros a b Ha Hb. split; intros P.
    + eapply path_mono; [|exact P]. exact SB.
    + destruct (te_bg_surj _ _ T2 a Ha) as [a0 [Ha0 Pa]]. destruct (te_bg_surj _ _ T2 b Hb) as [b0 [Hb0 Pb]].
      eapply path_trans; [exact Pa|]. eapply path_trans; [|apply conn4_sym; exact Pb].
      apply (te_bg_iff _ _ T2 a0 b0 Ha0 Hb0). apply (te_bg_iff _ _ T1 a0 b0 Ha0 Hb0).
      eapply path_trans; [apply conn4_sym; eapply path_mono; [|exact Pa]; exact SB|].
      eapply path_trans; [exact P|]. eapply path_mono; [|exact Pb]. exact SB.
  - intros a Ha. destruct (te_bg_surj _ _ T1 a Ha) as [b [Hb P]]. exists b. split; [apply SBX; exact Hb|exact P].
Qed.

Section Sweep.
Variable keep : list bool -> bool.
Variable guard : px -> bool.

Lemma skel_step_sub' X p q : skel_step keep guard X p q = true -> X q = true.
Proof.
  unfold skel_step. destruct (guard p && X p && negb (keep (pat X p))); [|auto].
  unfold remove. destruct (px_eqb q p); [discriminate|auto].
Qed.
Lemma skel_sub : forall order X q, skel keep guard order X q = true -> X q = true.
Proof.
  induction order as [|p r IH]; intros X q V; [exact V|].
  change (skel keep guard r (skel_step keep guard X p) q = true) in V.
  eapply skel_step_sub'. apply IH. exact V.
Qed.
Lemma skel_guard_keeps : forall order X q, guard q = false -> skel keep guard order X q = X q.
Proof.
  induction order as [|p r IH]; intros X q G; [reflexivity|].
  change (skel keep guard r (skel_step keep guard X p) q = X q).
  rewrite IH by exact G. unfold skel_step. destruct (guard p && X p && negb (keep (pat X p))) eqn:E; [|reflexivity].
  unfold remove. destruct (px_eqb_spec q p) as [->|N]; [|reflexivity]. rewrite G in E. discriminate.
Qed.
(* a sweep whose result is the image it started from has deleted nothing, so no pixel of the
   order met the deletion condition *)
Lemma skel_noop : forall order X, (forall q, skel keep guard order X q = X q) ->
  forall p, In p order -> guard p && X p && negb (keep (pat X p)) = false.
Proof.
  induction order as [|p0 r IH]; intros X E p Hp; [destruct Hp|].
  change (forall q, skel keep guard r (skel_step keep guard X p0) q = X q) in E.
  destruct (guard p0 && X p0 && negb (keep (pat X p0))) eqn:C0.
  - exfalso. pose proof (E p0) as E0.
    assert (Xp : X p0 = true). { apply andb_true_iff in C0 as [C0 _]. apply andb_true_iff in C0 as [_ C0]. exact C0. }
    rewrite Xp in E0. apply skel_sub in E0. unfold skel_step in E0. rewrite C0 in E0.
    unfold remove in E0. destruct (px_eqb_spec p0 p0); [discriminate|congruence].
  - assert (Y : skel_step keep guard X p0 = X) by (unfold skel_step; rewrite C0; reflexivity).
    rewrite Y in E. destruct Hp as [<-|Hp]; [exact C0|]. apply IH; assumption.
Qed.
End Sweep.

Lemma tabulate_ext H W (f f' : img) : (forall p, f p = f' p) -> tabulate H W f = tabulate H W f'.
Proof. intros E. unfold tabulate. apply map_ext. intros i. apply map_ext. intros j. apply E. Qed.

Lemma wf_ext_eq H W g g' : wf H W g -> wf H W g' -> (forall p, img_of g p = img_of g' p) -> g = g'.
Proof.
  intros Hg Hg' E. rewrite <- (tabulate_img_of H W g Hg), <- (tabulate_img_of H W g' Hg'). apply tabulate_ext. exact E.
Qed.

Lemma row_eqb_refl r : row_eqb r r = true.
Proof. induction r as [|x r IH]; cbn [row_eqb]; [reflexivity|]. rewrite IH. destruct x; reflexivity. Qed.
Lemma grid_eqb_refl g : grid_eqb g g = true.
Proof. induction g as [|r g IH]; cbn [grid_eqb]; [reflexivity|]. rewrite row_eqb_refl, IH. reflexivity. Qed.

Lemma filter_len_le {A} (f : A -> bool) l : (length (filter f l) <= length l)%nat.
Proof. induction l as [|a l IH]; cbn [filter length]; [lia|]. destruct (f a); cbn [length]; lia. Qed.
Lemma concat_len W (g : grid) : (forall r, In r g -> length r = W) -> length (concat g) = (length g * W)%nat.
Proof.
  induction g as [|r g IH]; intros HW; cbn [concat length]; [reflexivity|].
  rewrite app_length, IH, (HW r) by (try (left; reflexivity); intros; apply HW; right; assumption). cbn. lia.
Qed.
Lemma count_le_area H W g : wf H W g -> (count g <= H * W)%nat.
Proof.
  intros [LH LW]. unfold count. eapply Nat.le_trans; [apply filter_len_le|]. rewrite (concat_len W g LW), LH. lia.
Qed.

Lemma wf_wfb' H W g : wf H W g -> wfb' H W g = true.
Proof.
  intros [LH LW]. unfold wfb'. rewrite LH, Nat.eqb_refl. cbn [andb]. apply forallb_forall. intros r Hr.
  apply Nat.eqb_eq. apply LW. exact Hr.
Qed.

Lemma sweep_img H W target g : wf H W g -> forall q,
  img_of (check_sweep H W target g) q = skel simple_keep (fun p => negb (img_of target p)) (raster H W) (img_of g) q.
Proof.
  intros Hg q. unfold check_sweep. apply (tabulate_img H W g _ Hg). intros q' V. eapply skel_sub. exact V.
Qed.

Lemma sweep_le H W target g : wf H W g ->
  (count (check_sweep H W target g) <= count g)%nat /\ (count (check_sweep H W target g) = count g -> check_sweep H W target g = g).
Proof.
  intros Hg.
  assert (F : Forall2 (Forall2 bimpl) (check_sweep H W target g) (tabulate H W (img_of g))).
  { unfold check_sweep. apply tabulate_impl. intros p V. eapply skel_sub. exact V. }
  rewrite (tabulate_img_of H W g Hg) in F. apply count_le. exact F.
Qed.

Section Complete.
Variables (H W : nat) (target : grid).
Hypothesis Wt : wf H W target.
(* the deletability lemma, for THIS target only (instantiated by RonseLemma, or by a proved special case) *)
Hypothesis Ronse : forall g, wf H W g -> TopoEq (img_of g) (img_of target) ->
  (exists p, img_of g p = true /\ img_of target p = false) ->
  exists p, img_of g p = true /\ img_of target p = false /\ simple_ok (pat (img_of g) p) = true.

Lemma sweep_fixed_done g : wf H W g -> TopoEq (img_of g) (img_of target) ->
  check_sweep H W target g = g -> g = target.
Proof.
  intros Hg T E. apply (wf_ext_eq H W g target Hg Wt). intros p.
  destruct (img_of g p) eqn:V.
  - destruct (img_of target p) eqn:V'; [reflexivity|]. exfalso.
    destruct (Ronse g Hg T) as [s [S1 [S2 S3]]]; [exists p; split; assumption|].
    assert (N : forall q, skel simple_keep (fun p0 => negb (img_of target p0)) (raster H W) (img_of g) q = img_of g q).
    { intros q. rewrite <- sweep_img by exact Hg. rewrite E. reflexivity. }
    pose proof (skel_noop simple_keep _ (raster H W) (img_of g) N s) as C.
    destruct Hg as [LH LW].
    specialize (C (raster_complete H W s (img_of_frame g H W s LH LW S1))). cbn beta in C.
    rewrite S1, S2 in C. cbn [negb andb] in C. apply negb_false_iff in C. unfold simple_keep in C.
    apply negb_true_iff in C. rewrite simpleN_ok in C by (unfold pat; rewrite map_length, seq_length; reflexivity). congruence.
  - destruct (img_of target p) eqn:V'; [|reflexivity]. apply (te_sub _ _ T) in V'. unfold fg in V'. congruence.
Qed.

Lemma check_loop_complete : forall fuel g, wf H W g -> TopoEq (img_of g) (img_of target) ->
  (count g < fuel)%nat -> check_loop H W fuel target g = target.
Proof.
  induction fuel as [|f IH]; intros g Hg T C; [lia|]. cbn [check_loop].
  destruct (grid_eqb (check_sweep H W target g) g) eqn:E.
  - apply grid_eqb_eq in E. apply sweep_fixed_done; assumption.
  - destruct (sweep_le H W target g Hg) as [L1 L2].
    assert (NE : count (check_sweep H W target g) <> count g).
    { intros EQ. rewrite (L2 EQ), grid_eqb_refl in E. discriminate. }
    apply IH; [apply tabulate_wf| |lia].
    apply TopoEq_mid with (X := img_of g); [exact T|apply check_sweep_topo; exact Hg|].
    intros q Hq. unfold fg in *. rewrite sweep_img by exact Hg.
    rewrite skel_guard_keeps by (rewrite Hq; reflexivity). apply (te_sub _ _ T). exact Hq.
Qed.
End Complete.

Theorem topo_check_complete_for : forall H W g g', wf H W g -> wf H W g' ->
  (forall g0, wf H W g0 -> TopoEq (img_of g0) (img_of g') ->
     (exists p, img_of g0 p = true /\ img_of g' p = false) ->
     exists p, img_of g0 p = true /\ img_of g' p = false /\ simple_ok (pat (img_of g0) p) = true) ->
  TopoEq (img_of g) (img_of g') -> topo_check H W g g' = true.
Proof.
  intros H W g g' Hg Hg' R T. unfold topo_check. rewrite (wf_wfb' H W g Hg), (wf_wfb' H W g' Hg'). cbn [andb].
  rewrite (check_loop_complete H W g' Hg' R (S (H * W)) g Hg T); [apply grid_eqb_refl|].
  pose proof (count_le_area H W g Hg). lia.
Qed.

Theorem topo_check_complete_partial : RonseLemma ->
  forall H W g g', wf H W g -> wf H W g' -> TopoEq (img_of g) (img_of g') -> topo_check H W g g' = true.
Proof.
  intros R H W g g' Hg Hg' T. apply topo_check_complete_for; [exact Hg|exact Hg'| |exact T].
  intros g0 Hg0 T0 Ex. apply (R H W g0 g' Hg0 Hg' T0 Ex).
Qed.
