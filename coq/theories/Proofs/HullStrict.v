(* C02 — turn_strict and the assembly of HullSpec from: supporting edges (clause (c)), the CONVEX
   chain, no repeated vertex, and the shape of the output at the start column. *)
From Coq Require Import ZArith List Bool Lia ZifyBool.
From Centro Require Import Base.Sx Model.Hull Spec.HullSpec Proofs.HullEmit Proofs.HullGeom.
Import ListNotations.
Open Scope Z_scope.

(* ---------------------------------------------------------------- plane geometry *)
Lemma cross_swap (a b s : pt) : cross b a s = - cross a b s.
Proof. unfold cross. ring. Qed.

Lemma CONVEX_zero (a b c : pt) : cross a b c = 0 -> CONVEX a b c = true -> snd a < snd b /\ snd c < snd b.
Proof.
  intros H0 HC. unfold CONVEX in HC. rewrite H0 in HC. cbn in HC. apply andb_prop in HC. lia.
Qed.

(* two supporting edges that run back along the same line force every point onto that line *)
Lemma reversal_line (a b c s : pt) : cross a b c = 0 ->
  (snd a < snd b /\ snd c < snd b) \/ (snd b < snd a /\ snd b < snd c) ->
  0 <= cross a b s -> 0 <= cross b c s -> cross a b s = 0.
Proof.
  destruct a as [ai aj], b as [bi bj], c as [ci cj], s as [si sj]. unfold cross. cbn [fst snd]. intros H0 Hj H1 H2.
  assert (E : (bj - aj) * ((cj - bj) * (si - ci) - (sj - cj) * (ci - bi))
              = (cj - bj) * ((bj - aj) * (si - bi) - (sj - bj) * (bi - ai))
                - (sj - bj) * ((bj - aj) * (ci - bi) - (cj - bj) * (bi - ai))) by ring.
  rewrite H0 in E. nia.
Qed.

(* three points of a non-vertical line are collinear, and distinct ones lie in distinct columns *)
Lemma on_line_collinear (a b x y z : pt) : snd a <> snd b ->
  cross a b x = 0 -> cross a b y = 0 -> cross a b z = 0 -> cross x y z = 0.
Proof.
  destruct a as [ai aj], b as [bi bj], x as [xi xj], y as [yi yj], z as [zi zj]. unfold cross. cbn [fst snd].
  intros Hj Hx Hy Hz.
  assert (E : (bj - aj) * ((yj - xj) * (zi - yi) - (zj - yj) * (yi - xi))
              = (yj - xj) * (((bj - aj) * (zi - bi) - (zj - bj) * (bi - ai)) - ((bj - aj) * (yi - bi) - (yj - bj) * (bi - ai)))
                - (zj - yj) * (((bj - aj) * (yi - bi) - (yj - bj) * (bi - ai)) - ((bj - aj) * (xi - bi) - (xj - bj) * (bi - ai)))) by ring.
  rewrite Hx, Hy, Hz in E. nia.
Qed.
Lemma on_line_columns (a b x y : pt) : snd a <> snd b -> cross a b x = 0 -> cross a b y = 0 -> snd x = snd y -> x = y.
Proof.
  destruct a as [ai aj], b as [bi bj], x as [xi xj], y as [yi yj]. unfold cross. cbn [fst snd].
  intros Hj Hx Hy E. subst yj. f_equal. nia.
Qed.

(* ---------------------------------------------------------------- cyclic triples *)
Lemma consecutive_cases (v0 v1 : pt) (W : list pt) a b c : consecutive (v0 :: v1 :: W) a b c ->
  (exists l1 l2, v0 :: v1 :: W = l1 ++ a :: b :: c :: l2) \/
  (exists l1, v0 :: v1 :: W = l1 ++ [a; b] /\ c = v0) \/
  (exists l1, v0 :: v1 :: W = l1 ++ [a] /\ b = v0 /\ c = v1).
Proof.
  intros [l1 [l2 E]]. unfold cyc in E. cbn [firstn] in E.
  destruct l2 as [|y0 l2r].
  - right. right.
    change (l1 ++ [a; b; c]) with (l1 ++ [a] ++ [b] ++ [c]) in E. rewrite !app_assoc in E.
    change [v0; v1] with ([v0] ++ [v1]) in E. rewrite app_assoc in E.
    apply app_inj_tail in E. destruct E as [E Ec]. apply app_inj_tail in E. destruct E as [E Eb].
    exists l1. subst. split; [exact E | auto].
  - assert (N2 : y0 :: l2r <> []) by discriminate. destruct (exists_last N2) as [l2' [z Ez]]. rewrite Ez in E.
    change [v0; v1] with ([v0] ++ [v1]) in E. rewrite app_assoc in E.
    change (l1 ++ a :: b :: c :: l2' ++ [z]) with (l1 ++ (a :: b :: c :: l2') ++ [z]) in E. rewrite app_assoc in E.
    apply app_inj_tail in E. destruct E as [E Ez2].
    destruct l2' as [|y l2''].
    + right. left. change (l1 ++ [a; b; c]) with (l1 ++ [a] ++ [b] ++ [c]) in E. rewrite !app_assoc in E.
      apply app_inj_tail in E. destruct E as [E Ec]. exists l1. split; [rewrite E, <- app_assoc; reflexivity | auto].
    + left. assert (N3 : y :: l2'' <> []) by discriminate. destruct (exists_last N3) as [l3 [w Ew]]. rewrite Ew in E.
      change (l1 ++ a :: b :: c :: l3 ++ [w]) with (l1 ++ (a :: b :: c :: l3) ++ [w]) in E. rewrite app_assoc in E.
      apply app_inj_tail in E. destruct E as [E _]. exists l1, l3. exact E.
Qed.

Lemma prune_top_convex (st : list pt) p : forall b a r, prune st p = b :: a :: r -> CONVEX a b p = true.
Proof.
  induction st as [|x rest IH]; intros b a r E; [discriminate|].
  destruct rest as [|y r'].
  - cbn in E. discriminate.
  - replace (prune (x :: y :: r') p) with (if CONVEX y x p then x :: y :: r' else prune (y :: r') p) in E by reflexivity.
    destruct (CONVEX y x p) eqn:EC; [inversion E; subst; exact EC | eapply IH; exact E].
Qed.

Lemma last_two {A} (l : list A) x y d : last (l ++ [x; y]) d = y.
Proof. replace (l ++ [x; y]) with ((l ++ [x]) ++ [y]) by (rewrite <- app_assoc; reflexivity). apply last_last. Qed.
Lemma len3 {A} (l : list A) : (3 <= length l)%nat -> exists v0 v1 v2 W, l = v0 :: v1 :: v2 :: W.
Proof. destruct l as [|v0 [|v1 [|v2 W]]]; cbn; try lia. intros _. eauto. Qed.

(* ---------------------------------------------------------------- assembly *)
Section Strict.
  Variables (S V : list pt) (B Q : pt) (sj ej : Z) (nl : bool).
  Hypothesis HVS : incl V S.
  Hypothesis HND : NoDup V.
  Hypothesis HV1 : forall l1 l2 a b, V = l1 ++ a :: b :: l2 -> forall s, In s S -> 0 <= cross a b s.
  Hypothesis HV2 : forall d s, In s S -> 0 <= cross (last V d) (hd d V) s.
  Hypothesis HV3 : forall l1 l2 a b c, V = l1 ++ a :: b :: c :: l2 -> CONVEX a b c = true.
  Hypothesis Hcols : forall s, In s S -> sj <= snd s <= ej.
  Hypothesis Hwide : sj < ej.
  Hypothesis HR : exists x, In x V /\ snd x = ej.
  Hypothesis Hform :
    if nl then exists mid, V = B :: mid ++ [Q] /\ snd B = sj /\ snd Q = sj /\ fst B < fst Q /\ forall x, In x mid -> sj < snd x
    else exists mid, V = B :: mid /\ snd B = sj /\ (forall x, In x mid -> sj < snd x) /\
         (forall l1 y z, V = l1 ++ [y; z] -> CONVEX y z B = true).

  Lemma collinear_contra (a b : pt) : snd a <> snd b -> (forall s, In s S -> cross a b s = 0) ->
    (3 <= length V)%nat -> False.
  Proof.
    intros Hab Hline Hlen.
    assert (HL : forall v, In v V -> cross a b v = 0) by (intros v Hv; apply Hline; apply HVS; exact Hv).
    destruct (len3 V Hlen) as [v0 [v1 [v2 [W EV]]]].
    assert (H0 : In v0 V) by (rewrite EV; cbn; tauto). assert (H1 : In v1 V) by (rewrite EV; cbn; tauto).
    assert (H2 : In v2 V) by (rewrite EV; cbn; tauto).
    assert (C012 : cross v0 v1 v2 = 0) by (apply (on_line_collinear a b); auto).
    pose proof (HV3 [] W v0 v1 v2 EV) as K1. destruct (CONVEX_zero _ _ _ C012 K1) as [J1 J2].
    destruct W as [|w W'].
    - destruct nl.
      + destruct Hform as [mid [E [EB [EQ [_ _]]]]]. rewrite EV in E. injection E as E0 E1.
        destruct mid as [|x [|y mid']]; cbn in E1; try discriminate.
        * injection E1 as Ex Ey.
          assert (EBQ : v0 = v2) by (apply (on_line_columns a b); auto; congruence).
          pose proof HND as ND. rewrite EV in ND. inversion ND as [|? ? N1 _]. apply N1. rewrite EBQ. cbn. tauto.
        * injection E1 as Ex Ey E3. destruct mid'; discriminate.
      + destruct Hform as [mid [E [EB [_ Hstop]]]]. rewrite EV in E. injection E as E0 E1.
        pose proof (Hstop [v0] v1 v2 EV) as K2. rewrite <- E0 in K2.
        assert (C120 : cross v1 v2 v0 = 0) by (apply (on_line_collinear a b); auto).
        destruct (CONVEX_zero _ _ _ C120 K2). lia.
    - assert (H3 : In w V) by (rewrite EV; cbn; tauto).
      assert (C123 : cross v1 v2 w = 0) by (apply (on_line_collinear a b); auto).
      pose proof (HV3 [v0] W' v1 v2 w EV) as K2. destruct (CONVEX_zero _ _ _ C123 K2). lia.
  Qed.

  Lemma strict_triple (a b c : pt) : (3 <= length V)%nat -> consecutive V a b c ->
    0 < cross a b c /\ forall s, In s S -> 0 <= cross a b s /\ 0 <= cross b c s.
  Proof.
    intros Hlen Hc.
    destruct (len3 V Hlen) as [v0 [v1 [v2 [W EV]]]]. rewrite EV in Hc.
    destruct (consecutive_cases v0 v1 (v2 :: W) a b c Hc) as [[l1 [l2 E]]|[[l1 [E Ec]]|[l1 [E [Eb Ec]]]]].
    - (* a triple inside the list *)
      assert (Eab : forall s, In s S -> 0 <= cross a b s) by (apply (HV1 l1 (c :: l2)); rewrite EV; exact E).
      assert (Ebc : forall s, In s S -> 0 <= cross b c s).
      { apply (HV1 (l1 ++ [a]) l2). rewrite EV, E, <- app_assoc. reflexivity. }
      assert (Hcin : In c S) by (apply HVS; rewrite EV, E; apply in_or_app; right; cbn; tauto).
      split; [|intros s Hs; split; auto].
      destruct (Z.eq_dec (cross a b c) 0) as [Z0|NZ]; [|specialize (Eab c Hcin); lia]. exfalso.
      destruct (CONVEX_zero _ _ _ Z0 (HV3 l1 l2 a b c ltac:(rewrite EV; exact E))) as [J1 J2].
      apply (collinear_contra a b); [lia | | exact Hlen].
      intros s Hs. apply (reversal_line a b c s); auto.
    - (* (second to last, last, first) *)
      rewrite Ec.
      assert (Eab : forall s, In s S -> 0 <= cross a b s) by (apply (HV1 l1 []); rewrite EV; exact E).
      assert (Elast : forall d, last V d = b) by (intros d; rewrite EV, E; apply last_two).
      assert (Ebc : forall s, In s S -> 0 <= cross b v0 s).
      { intros s Hs. pose proof (HV2 b s Hs) as X. rewrite Elast in X. rewrite EV in X. exact X. }
      assert (H0in : In v0 S) by (apply HVS; rewrite EV; left; reflexivity).
      split; [|intros s Hs; split; auto].
      pose proof Hform as HF. revert HF. case nl; intros HF.
      + destruct HF as [mid [EF [EB [EQ [HBQ Hmid]]]]].
        assert (E0 : v0 = B) by (rewrite EV in EF; injection EF as X _; exact X).
        assert (Nm : mid <> []).
        { intros Em. rewrite Em, EV in EF. cbn in EF. injection EF as _ X. destruct W; discriminate. }
        destruct (exists_last Nm) as [mid' [y Ey]].
        assert (E' : (B :: mid') ++ [y] ++ [Q] = l1 ++ [a] ++ [b]).
        { change (l1 ++ [a] ++ [b]) with (l1 ++ [a; b]). rewrite <- E, <- EV, EF, Ey. cbn [app]. f_equal. rewrite <- app_assoc. reflexivity. }
        rewrite !app_assoc in E'. apply app_inj_tail in E'. destruct E' as [E' EbQ].
        apply app_inj_tail in E'. destruct E' as [_ Eay].
        assert (Hy : sj < snd y) by (apply Hmid; rewrite Ey; apply in_or_app; right; left; reflexivity).
        rewrite <- Eay, <- EbQ, E0.
        destruct y as [yi yj], Q as [qi qj], B as [bi bj]. unfold cross. cbn [fst snd] in *. nia.
      + destruct HF as [mid [EF [EB [Hmid Hstop]]]].
        assert (E0 : v0 = B) by (rewrite EV in EF; injection EF as X _; exact X).
        pose proof (Hstop l1 a b ltac:(rewrite EV; exact E)) as K. rewrite E0 in *.
        destruct (Z.eq_dec (cross a b B) 0) as [Z0|NZ]; [|specialize (Eab B H0in); lia]. exfalso.
        destruct (CONVEX_zero _ _ _ Z0 K) as [J1 J2].
        apply (collinear_contra a b); [lia | | exact Hlen].
        intros s Hs. apply (reversal_line a b B s); auto.
    - (* (last, first, second) *)
      rewrite Eb, Ec.
      assert (Elast : forall d, last V d = a) by (intros d; rewrite EV, E; apply last_last).
      assert (Eab : forall s, In s S -> 0 <= cross a v0 s).
      { intros s Hs. pose proof (HV2 a s Hs) as X. rewrite Elast in X. rewrite EV in X. exact X. }
      assert (Ebc : forall s, In s S -> 0 <= cross v0 v1 s) by (apply (HV1 [] (v2 :: W)); exact EV).
      assert (H1in : In v1 S) by (apply HVS; rewrite EV; cbn; tauto).
      split; [|intros s Hs; split; auto].
      pose proof Hform as HF. revert HF. case nl; intros HF.
      + destruct HF as [mid [EF [EB [EQ [HBQ Hmid]]]]].
        assert (E0 : v0 = B) by (rewrite EV in EF; injection EF as X _; exact X).
        assert (EaQ : a = Q).
        { assert (X : (B :: mid) ++ [Q] = l1 ++ [a]) by (rewrite <- E, <- EV, EF; reflexivity).
          apply app_inj_tail in X. destruct X as [_ X]. auto. }
        assert (Hv1 : sj < snd v1).
        { rewrite EV in EF. injection EF as _ E1. destruct mid as [|x mid']; [cbn in E1; destruct W; discriminate|].
          cbn in E1. injection E1 as X _. rewrite X. apply Hmid. left. reflexivity. }
        rewrite EaQ, E0.
        destruct v1 as [yi yj], Q as [qi qj], B as [bi bj]. unfold cross. cbn [fst snd] in *. nia.
      + destruct HF as [mid [EF [EB [Hmid _]]]].
        assert (E0 : v0 = B) by (rewrite EV in EF; injection EF as X _; exact X).
        assert (E1 : v1 :: v2 :: W = mid) by (rewrite EV in EF; injection EF as _ X; exact X).
        assert (Hv1 : sj < snd v1) by (apply Hmid; rewrite <- E1; left; reflexivity).
        assert (Ha : sj < snd a).
        { apply Hmid. rewrite <- E1. specialize (Elast a). rewrite EV in Elast.
          change (last (v0 :: v1 :: v2 :: W) a) with (last (v1 :: v2 :: W) a) in Elast.
          rewrite <- Elast. destruct (exists_last (l := v1 :: v2 :: W) ltac:(discriminate)) as [l' [z Ez]].
          rewrite Ez, last_last. apply in_or_app. right. left. reflexivity. }
        rewrite E0 in *.
        destruct (Z.eq_dec (cross a B v1) 0) as [Z0|NZ]; [|specialize (Eab v1 H1in); lia]. exfalso.
        apply (collinear_contra a B); [lia | | exact Hlen].
        intros s Hs. apply (reversal_line a B v1 s); auto. right. lia.
  Qed.

  Theorem strict_hullspec : HullSpec S V.
  Proof.
    assert (HB : exists W, V = B :: W).
    { destruct nl; destruct Hform as [mid [E _]]; eexists; exact E. }
    destruct HB as [W EW].
    constructor.
    - exact HVS.
    - exact HND.
    - intros E. rewrite E in EW. discriminate.
    - intros a E s Hs. exfalso. destruct HR as [x [Hx Ex]]. rewrite E in Hx, EW. destruct Hx as [Hx|[]]. subst x.
      inversion EW. subst a.
      destruct nl; destruct Hform as [mid [EF [EB _]]]; lia.
    - intros a b E s Hs. rewrite E in EW. inversion EW. subst a W.
      destruct HR as [x [Hx Ex]]. rewrite E in Hx.
      assert (EBj : snd B = sj) by (destruct nl; destruct Hform as [mid [_ [EB _]]]; exact EB).
      assert (Hbj : snd b = ej) by (destruct Hx as [Hx|[Hx|[]]]; subst x; [lia | exact Ex]).
      pose proof (HV1 [] [] B b E s Hs) as C1.
      pose proof (HV2 B s Hs) as C2. rewrite E in C2. cbn [last hd] in C2. rewrite cross_swap in C2.
      destruct (Hcols s Hs) as [L1 L2].
      destruct B as [bi bj], b as [zi zj], s as [si sj']. unfold on_segment, cross, dot in *. cbn [fst snd] in *.
      assert (C0 : (zj - bj) * (si - zi) - (sj' - zj) * (zi - bi) = 0) by lia.
      assert (C0' : (zj - bj) * (si - bi) = (sj' - bj) * (zi - bi)) by lia.
      split; [exact C0|].
      assert (I1 : (zj - bj) * ((si - bi) * (zi - bi) + (sj' - bj) * (zj - bj))
                   = (sj' - bj) * ((zi - bi) * (zi - bi) + (zj - bj) * (zj - bj))).
      { replace ((zj - bj) * ((si - bi) * (zi - bi) + (sj' - bj) * (zj - bj)))
          with (((zj - bj) * (si - bi)) * (zi - bi) + (sj' - bj) * (zj - bj) * (zj - bj)) by ring.
        rewrite C0'. ring. }
      pose proof (Z.square_nonneg (zi - bi)). pose proof (Z.square_nonneg (zj - bj)).
      split; nia.
    - intros Hlen. exists 1. split; [left; reflexivity|]. intros a b c Hc.
      destruct (strict_triple a b c Hlen Hc) as [H1 H2]. split; [lia|].
      intros s Hs. destruct (H2 s Hs). lia.
  Qed.
End Strict.
