From Coq Require Import ZArith List Lia.
Import ListNotations.
Open Scope Z_scope.
(* major-axis loop of draw_line / get_line_pts in normalised coordinates:
   D = |major delta| >= d = |minor delta| >= 0; state = minor offset y and remainder *)
Definition step (D d : Z) (s : Z * Z) : Z * Z :=
  let '(y, r) := s in
  if 0 <=? r then (y + 1, r - 2 * D + 2 * d) else (y, r + 2 * d).
Fixpoint run (D d : Z) (k : nat) (s : Z * Z) : Z * Z :=
  match k with O => s | S k' => step D d (run D d k' s) end.
Definition init (D d : Z) : Z * Z := (0, 2 * d - D).

Lemma run_inv D d k : 0 <= d <= D -> 0 < D ->
  let '(y, r) := run D d k (init D d) in
  r = 2 * d * (Z.of_nat k + 1) - D - 2 * D * y /\ 2 * d - 2 * D <= r < 2 * d.
Proof.
  intros Hd HD. induction k as [|k IH].
  - cbn [run init]. lia.
  - cbn [run]. destruct (run D d k (init D d)) as [y r]. destruct IH as [E B].
    unfold step. destruct (Z.leb_spec 0 r); rewrite Nat2Z.inj_succ; split; lia.
Qed.

(* half-pixel bound along the minor axis: |2 (D y_k - d k)| <= D *)
Theorem line_error D d k : 0 <= d <= D -> 0 < D ->
  let y := fst (run D d k (init D d)) in - D < 2 * (D * y - d * Z.of_nat k) <= D.
Proof.
  intros Hd HD. pose proof (run_inv D d k Hd HD) as H.
  destruct (run D d k (init D d)) as [y r]; cbn [fst]. destruct H as [E B]. lia.
Qed.

(* the last point is the end point *)
Theorem line_end D d : 0 <= d <= D -> 0 < D -> fst (run D d (Z.to_nat D) (init D d)) = d.
Proof.
  intros Hd HD. pose proof (line_error D d (Z.to_nat D) Hd HD) as H. cbn zeta in H.
  rewrite Z2Nat.id in H by lia. nia.
Qed.

(* each step moves the minor coordinate by 0 or +1 *)
Theorem line_step D d k : 
  let y := fst (run D d k (init D d)) in let y' := fst (run D d (S k) (init D d)) in y' = y \/ y' = y + 1.
Proof. cbn [run]. destruct (run D d k (init D d)) as [y r]. unfold step. destruct (0 <=? r); cbn [fst]; lia. Qed.

