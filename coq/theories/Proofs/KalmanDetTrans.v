(* C09 — det A^T = det A for the permutation expansion of det_n: the sum is re-indexed by
   p |-> p^-1, and parity p^-1 = parity p because both are +1 on the identity and both flip under
   an adjacent transposition of positions (for p^-1: of values). *)
From Coq Require Import ZArith List Bool Lia Arith QArith Qcanon Permutation.
From Centro Require Import Model.Kalman Proofs.KalmanArith Proofs.KalmanLists Proofs.KalmanParity
  Proofs.KalmanDetBase Proofs.KalmanDetRow Proofs.KalmanDetAlt.
Import ListNotations.
Open Scope nat_scope.

(* ------------------------------------------------------------------ inverse permutation *)
Fixpoint index_of (v : nat) (l : list nat) : nat :=
  match l with [] => O | a :: t => if Nat.eqb a v then O else S (index_of v t) end.
Definition pinv (p : list nat) : list nat := map (fun v => index_of v p) (seq 0 (length p)).

Lemma index_of_nth : forall p i, NoDup p -> i < length p -> index_of (nth i p 0) p = i.
Proof.
  induction p as [|a p IH]; intros i Hn Hi; cbn [length] in Hi; [lia|]. inversion Hn as [|? ? Hna Hnp]; subst.
  destruct i as [|i]; cbn [nth index_of]; [rewrite Nat.eqb_refl; reflexivity|].
  destruct (Nat.eqb_spec a (nth i p 0)) as [E|_]; [exfalso; apply Hna; rewrite E; apply nth_In; lia|].
  f_equal. apply IH; [exact Hnp|lia].
Qed.

Lemma nth_index_of : forall p v, In v p -> index_of v p < length p /\ nth (index_of v p) p 0 = v.
Proof.
  induction p as [|a p IH]; intros v Hin; [destruct Hin|]. cbn [index_of length].
  destruct (Nat.eqb_spec a v) as [->|N]; [split; [lia|reflexivity]|].
  destruct Hin as [E|Hin]; [contradiction|]. destruct (IH v Hin) as [H1 H2]. split; [lia|exact H2].
Qed.

Section Perm.
Variables (n : nat) (p : list nat).
Hypothesis Hp : Permutation p (seq 0 n).

Let Lp : length p = n := proj1 (perm_seq_facts n p Hp).
Let Np : NoDup p := proj1 (proj2 (perm_seq_facts n p Hp)).
Lemma perm_In v : In v p <-> v < n.
Proof.
  split; intros H.
  - apply (Permutation_in _ Hp) in H. apply in_seq in H. lia.
  - apply (Permutation_in _ (Permutation_sym Hp)). apply in_seq. lia.
Qed.
Lemma pinv_length : length (pinv p) = n.
Proof. unfold pinv. rewrite map_length, seq_length. exact Lp. Qed.
Lemma pinv_nth v : v < n -> nth v (pinv p) 0 = index_of v p.
Proof.
  intros H. unfold pinv. rewrite (nth_map_lt _ _ _ 0) by (rewrite seq_length, Lp; exact H).
  rewrite seq_nth by (rewrite Lp; exact H). reflexivity.
Qed.
Lemma pinv_lt v : v < n -> nth v (pinv p) 0 < n.
Proof. intros H. rewrite pinv_nth by exact H. rewrite <- Lp. apply nth_index_of. apply perm_In. exact H. Qed.
(* p^-1 (p i) = i  and  p (p^-1 v) = v *)
Lemma pinv_left i : i < n -> nth (nth i p 0) (pinv p) 0 = i.
Proof.
  intros H. assert (Hv : nth i p 0 < n) by (apply perm_In; apply nth_In; lia).
  rewrite pinv_nth by exact Hv. apply index_of_nth; [exact Np|lia].
Qed.
Lemma pinv_right v : v < n -> nth (nth v (pinv p) 0) p 0 = v.
Proof. intros H. rewrite pinv_nth by exact H. apply nth_index_of. apply perm_In. exact H. Qed.

Lemma pinv_perm : Permutation (pinv p) (seq 0 n).
Proof.
  apply NoDup_Permutation; [|apply seq_NoDup|].
  - unfold pinv. rewrite Lp. apply NoDup_map_in; [|apply seq_NoDup]. intros x y Hx Hy E.
    apply in_seq in Hx. apply in_seq in Hy.
    rewrite <- (proj2 (nth_index_of p x (proj2 (perm_In x) ltac:(lia)))),
            <- (proj2 (nth_index_of p y (proj2 (perm_In y) ltac:(lia)))), E. reflexivity.
  - intros x. split.
    + intros Hx. apply (In_nth _ _ 0) in Hx. destruct Hx as [v [Hv <-]]. rewrite pinv_length in Hv.
      apply in_seq. pose proof (pinv_lt v Hv). lia.
    + intros Hx. apply in_seq in Hx. assert (Hx' : x < n) by lia.
      rewrite <- (pinv_left x Hx'). apply nth_In. rewrite pinv_length. apply perm_In. apply nth_In. lia.
Qed.
End Perm.

Lemma pinv_invol n p : Permutation p (seq 0 n) -> pinv (pinv p) = p.
Proof.
  intros Hp. pose proof (pinv_perm n p Hp) as Hq.
  destruct (perm_seq_facts n p Hp) as [Lp [Np _]]. destruct (perm_seq_facts n _ Hq) as [Lq [Nq _]].
  apply (nth_ext_lt _ _ 0); [rewrite (pinv_length n _ Hq), Lp; reflexivity|].
  intros v Hv. rewrite (pinv_length n _ Hq) in Hv. rewrite (pinv_nth n _ Hq v Hv).
  assert (Hi : nth v p 0 < n) by (apply (perm_In n p Hp); apply nth_In; lia).
  rewrite <- (pinv_left n p Hp v Hv) at 1. apply index_of_nth; [exact Nq|lia].
Qed.

Lemma index_of_seq n v : v < n -> index_of v (seq 0 n) = v.
Proof. intros H. assert (E : nth v (seq 0 n) 0 = v) by (apply seq_nth; exact H). rewrite <- E at 1. apply index_of_nth; [apply seq_NoDup|rewrite seq_length; exact H]. Qed.

Lemma pinv_seq n : pinv (seq 0 n) = seq 0 n.
Proof.
  unfold pinv. rewrite seq_length. rewrite <- (map_id (seq 0 n)) at 2. apply map_ext_in. intros v Hv.
  apply in_seq in Hv. apply index_of_seq. lia.
Qed.

(* the inverse of "positions i, i+1 swapped" is "values i, i+1 swapped" *)
Lemma pinv_swapl n i p : Permutation p (seq 0 n) -> S i < n -> pinv (swapl i p) = map (tau i) (pinv p).
Proof.
  intros Hp Hi. assert (Hs : Permutation (swapl i p) (seq 0 n)) by (eapply Permutation_trans; [apply swapl_perm|exact Hp]).
  destruct (perm_seq_facts n p Hp) as [Lp [Np _]]. destruct (perm_seq_facts n _ Hs) as [Ls [Ns _]].
  apply (nth_ext_lt _ _ 0); [rewrite map_length, (pinv_length n _ Hs), (pinv_length n _ Hp); reflexivity|].
  intros v Hv. rewrite (pinv_length n _ Hs) in Hv. rewrite (pinv_nth n _ Hs v Hv).
  rewrite (nth_map_lt _ _ _ 0) by (rewrite (pinv_length n _ Hp); exact Hv).
  set (k := nth v (pinv p) 0). assert (Hk : k < n) by (apply (pinv_lt n p Hp); exact Hv).
  assert (E : nth (tau i k) (swapl i p) 0 = v).
  { rewrite swapl_nth by lia. rewrite tau_invol. apply (pinv_right n p Hp). exact Hv. }
  rewrite <- E at 1. apply index_of_nth; [exact Ns|]. rewrite Ls. apply tau_lt; assumption.
Qed.

Lemma map_nth_seq_gen' (l : list nat) : map (fun j => nth j l 0) (seq 0 (length l)) = l.
Proof.
  apply (nth_ext_lt _ _ 0); [rewrite map_length, seq_length; reflexivity|].
  intros k Hk. rewrite map_length, seq_length in Hk.
  rewrite (nth_map_lt _ _ _ 0) by (rewrite seq_length; exact Hk). rewrite seq_nth by exact Hk. reflexivity.
Qed.

(* ------------------------------------------------------------------ swapping two adjacent VALUES *)
Lemma cnt_lt_map_in g x x' l : (forall y, In y l -> (g y < x' <-> y < x)) -> cnt_lt x' (map g l) = cnt_lt x l.
Proof.
  unfold cnt_lt. induction l as [|y l IH]; intros H; [reflexivity|]. cbn [map filter].
  pose proof (H y (or_introl eq_refl)) as Hy.
  assert (IH' := IH (fun z Hz => H z (or_intror Hz))).
  destruct (Nat.ltb_spec (g y) x'), (Nat.ltb_spec y x); cbn [length]; rewrite ?IH'; try reflexivity; exfalso; lia.
Qed.

Lemma inversions_map_in g l : (forall a b, In a l -> In b l -> (a < b <-> g a < g b)) -> inversions (map g l) = inversions l.
Proof.
  induction l as [|a l IH]; intros H; [reflexivity|]. cbn [map]. rewrite !inversions_cons. f_equal.
  - apply cnt_lt_map_in. intros y Hy. symmetry. apply H; [right; exact Hy|left; reflexivity].
  - apply IH. intros x y Hx Hy. apply H; right; assumption.
Qed.

Lemma tau_cases i a : (a = i /\ tau i a = S i) \/ (a = S i /\ tau i a = i) \/ (a <> i /\ a <> S i /\ tau i a = a).
Proof. unfold tau. destruct (Nat.eqb_spec a i), (Nat.eqb_spec a (S i)); lia. Qed.

Lemma value_swap_nothing i l : ~ (In i l /\ In (S i) l) -> inversions (map (tau i) l) = inversions l.
Proof.
  intros H. apply inversions_map_in. intros a b Ha Hb.
  destruct (tau_cases i a) as [[-> ->]|[[-> ->]|[? [? ->]]]], (tau_cases i b) as [[-> ->]|[[-> ->]|[? [? ->]]]];
    try lia; exfalso; apply H; split; assumption.
Qed.

Lemma map_tau_id i l : ~ In i l -> ~ In (S i) l -> map (tau i) l = l.
Proof.
  intros H1 H2. rewrite <- (map_id l) at 2. apply map_ext_in. intros a Ha. apply tau_other; intros ->; contradiction.
Qed.

Lemma cnt_lt_cons a x l : cnt_lt a (x :: l) = (if Nat.ltb x a then 1 else 0) + cnt_lt a l.
Proof. unfold cnt_lt. cbn [filter]. destruct (Nat.ltb x a); reflexivity. Qed.

Lemma cnt_lt_S_no i l : ~ In i l -> cnt_lt (S i) l = cnt_lt i l.
Proof.
  unfold cnt_lt. induction l as [|y l IH]; intros H; [reflexivity|]. cbn [filter].
  assert (y <> i) by (intros ->; apply H; left; reflexivity).
  assert (IH' := IH (fun Hin => H (or_intror Hin))).
  destruct (Nat.ltb_spec y (S i)), (Nat.ltb_spec y i); cbn [length]; rewrite ?IH'; try reflexivity; exfalso; lia.
Qed.

Lemma value_swap_step i : forall l, NoDup l -> In i l -> In (S i) l ->
  inversions (map (tau i) l) = S (inversions l) \/ S (inversions (map (tau i) l)) = inversions l.
Proof.
  induction l as [|x t IH]; intros Hn Hi Hs; [destruct Hi|].
  inversion Hn as [|? ? Hx Ht]; subst. cbn [map]. rewrite !inversions_cons.
  destruct (tau_cases i x) as [[-> E]|[[-> E]|[N1 [N2 E]]]]; rewrite E.
  - (* head = i *)
    destruct Hs as [Hs|Hs]; [lia|]. left.
    rewrite (value_swap_nothing i t) by (intros [H _]; contradiction).
    apply in_split in Hs. destruct Hs as [t1 [t2 ->]].
    assert (P : Permutation (t1 ++ S i :: t2) (S i :: t1 ++ t2)) by (apply Permutation_sym, Permutation_middle).
    assert (N : NoDup (S i :: t1 ++ t2)) by (eapply Permutation_NoDup; [exact P|exact Ht]).
    inversion N as [|? ? NS _]; subst.
    assert (Ni : ~ In i (t1 ++ t2)) by (intros H; apply Hx; eapply Permutation_in; [apply Permutation_sym; exact P|right; exact H]).
    rewrite (cnt_lt_perm (S i) _ _ (Permutation_map (tau i) P)), (cnt_lt_perm i _ _ P). cbn [map]. rewrite tau_Si.
    rewrite (map_tau_id i (t1 ++ t2)) by assumption.
    rewrite !cnt_lt_cons, (cnt_lt_S_no i _ Ni).
    destruct (Nat.ltb_spec i (S i)); [|lia]. destruct (Nat.ltb_spec (S i) i); [lia|]. lia.
  - (* head = i + 1 *)
    destruct Hi as [Hi|Hi]; [lia|]. right.
    rewrite (value_swap_nothing i t) by (intros [_ H]; contradiction).
    apply in_split in Hi. destruct Hi as [t1 [t2 ->]].
    assert (P : Permutation (t1 ++ i :: t2) (i :: t1 ++ t2)) by (apply Permutation_sym, Permutation_middle).
    assert (N : NoDup (i :: t1 ++ t2)) by (eapply Permutation_NoDup; [exact P|exact Ht]).
    inversion N as [|? ? Ni _]; subst.
    assert (NS : ~ In (S i) (t1 ++ t2)) by (intros H; apply Hx; eapply Permutation_in; [apply Permutation_sym; exact P|right; exact H]).
    rewrite (cnt_lt_perm i _ _ (Permutation_map (tau i) P)), (cnt_lt_perm (S i) _ _ P). cbn [map]. rewrite tau_i.
    rewrite (map_tau_id i (t1 ++ t2)) by assumption.
    rewrite !cnt_lt_cons, (cnt_lt_S_no i _ Ni).
    destruct (Nat.ltb_spec (S i) i); [lia|]. destruct (Nat.ltb_spec i (S i)); [|lia]. lia.
  - (* head is neither *)
    destruct Hi as [Hi|Hi]; [lia|]. destruct Hs as [Hs|Hs]; [lia|].
    assert (C : cnt_lt x (map (tau i) t) = cnt_lt x t).
    { apply cnt_lt_map_in. intros y _. destruct (tau_cases i y) as [[-> ->]|[[-> ->]|[? [? ->]]]]; lia. }
    rewrite C. destruct (IH Ht Hi Hs) as [H|H]; [left|right]; lia.
Qed.

Lemma value_swap_parity i l : NoDup l -> In i l -> In (S i) l -> parity (map (tau i) l) = (- parity l)%Qc.
Proof.
  intros Hn Hi Hs. unfold parity. destruct (value_swap_step i l Hn Hi Hs) as [H|H].
  - rewrite H. apply sign_of_flip.
  - rewrite <- H, sign_of_flip. ring.
Qed.

(* ------------------------------------------------------------------ parity p^-1 = parity p *)
Lemma parity_pinv_step : forall l l', Permutation l l' -> forall pre n,
  Permutation (pre ++ l) (seq 0 n) -> parity (pinv (pre ++ l)) = parity (pre ++ l) ->
  parity (pinv (pre ++ l')) = parity (pre ++ l').
Proof.
  induction 1 as [|x l l' Hl IH|x y l|l l' l'' H1 IH1 H2 IH2]; intros pre n Hp Q.
  - exact Q.
  - change (pre ++ x :: l') with (pre ++ [x] ++ l'). rewrite app_assoc. apply (IH (pre ++ [x]) n).
    + rewrite <- app_assoc. exact Hp.
    + rewrite <- app_assoc. exact Q.
  - set (p := pre ++ y :: x :: l) in *.
    destruct (perm_seq_facts n p Hp) as [Lp [Np _]].
    assert (Hi : S (length pre) < n).
    { rewrite <- Lp. unfold p. rewrite app_length. cbn [length]. lia. }
    assert (E : pre ++ x :: y :: l = swapl (length pre) p) by (unfold p; rewrite swapl_split by reflexivity; reflexivity).
    rewrite E, (pinv_swapl n _ p Hp Hi), (swapl_parity _ p) by (lia || exact Np).
    pose proof (pinv_perm n p Hp) as Hq. destruct (perm_seq_facts n _ Hq) as [_ [Nq _]].
    rewrite value_swap_parity; [rewrite Q; reflexivity|exact Nq| |]; apply (perm_In n _ Hq); lia.
  - apply (IH2 pre n).
    + eapply Permutation_trans; [apply Permutation_app_head, Permutation_sym; exact H1|exact Hp].
    + apply (IH1 pre n Hp Q).
Qed.

Theorem parity_pinv n p : Permutation p (seq 0 n) -> parity (pinv p) = parity p.
Proof.
  intros Hp. apply (parity_pinv_step (seq 0 n) p (Permutation_sym Hp) [] n); cbn [app].
  - apply Permutation_refl.
  - rewrite pinv_seq. reflexivity.
Qed.

(* ------------------------------------------------------------------ det A^T = det A *)
Theorem ldet_transpose n (M : fmat) : ldet n (fun a b => M b a) = ldet n M.
Proof.
  unfold ldet. rewrite <- (bigsum_involution pinv (lterm n M) (permutations (seq 0 n))).
  - apply bigsum_ext_in. intros p Hp. apply perm_of_seq in Hp. destruct (perm_seq_facts n p Hp) as [Lp _].
    unfold lterm. rewrite (parity_pinv n p Hp). f_equal.
    rewrite (bigprod_perm (fun j => M j (nth j (pinv p) 0)) _ _ (Permutation_sym Hp)).
    transitivity (bigprod (fun j => M j (nth j (pinv p) 0)) (map (fun j => nth j p 0) (seq 0 (length p))));
      [|rewrite map_nth_seq_gen'; reflexivity].
    rewrite Lp, bigprod_map. apply bigprod_ext_in. intros i Hi. apply in_seq in Hi.
    rewrite (pinv_left n p Hp) by lia. reflexivity.
  - rewrite permutations_seq. apply perms_NoDup; [apply seq_length|apply seq_NoDup].
  - intros p Hp. apply perm_of_seq. apply pinv_perm. apply perm_of_seq. exact Hp.
  - intros p Hp. apply (pinv_invol n). apply perm_of_seq. exact Hp.
Qed.
