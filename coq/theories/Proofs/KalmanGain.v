(* C09 — the Kalman gain of the specification solves its defining equation K S = P H^T
   (Welch & Bishop eqn 1.11) whenever the 2x2 innovation covariance S is non-singular, and the
   documented initial tuple of a new feature in the velocity model. *)
From Coq Require Import ZArith List Bool Lia Arith QArith Qcanon Field.
From Centro Require Import Gen.ConstsC09 Model.Kalman Spec.Kalman Proofs.KalmanArith Proofs.KalmanAlg.
Import ListNotations.
Open Scope Qc_scope.

Lemma right_inverse_rows_2 (M : mat) a b c d :
  Forall (fun row => length row = 2%nat) M -> det1 [[a; b]; [c; d]] <> 0 ->
  mmul (mmul M (inv1 [[a; b]; [c; d]])) [[a; b]; [c; d]] = M.
Proof.
  intros HM Hd. rewrite det1_2 in Hd. rewrite inv1_2. cbn zeta. unfold mmul. rewrite map_map.
  rewrite <- (map_id M) at 2. apply map_ext_in. intros row Hin.
  rewrite Forall_forall in HM. specialize (HM row Hin).
  destruct row as [|x [|y [|z row]]]; try discriminate.
  cbv [map map2 combine col ncols hd length seq nth qsum fold_left fst snd]. qnorm.
  f_equal; [field; exact Hd|]. f_equal. field; exact Hd.
Qed.

Theorem gain_equation H Pp r a b c d :
  innovation_cov H Pp r = [[a; b]; [c; d]] -> det1 [[a; b]; [c; d]] <> 0 ->
  Forall (fun row => length row = 2%nat) (mmul Pp (mtrans H)) ->
  mmul (gain H Pp r) (innovation_cov H Pp r) = mmul Pp (mtrans H).
Proof.
  intros ES Hd HM. unfold gain. rewrite ES. apply right_inverse_rows_2; assumption.
Qed.

(* the hypotheses hold for the velocity model with P = I, r = I *)
Example gain_equation_ex :
  let H := int_mat velocity_om in let P := diag (repeat 1 4) in let r := diag (repeat 1 2) in
  innovation_cov H P r = [[Q2Qc 2; 0]; [0; Q2Qc 2]] /\ det1 [[Q2Qc 2; 0]; [0; Q2Qc 2]] <> 0 /\
  Forall (fun row => length row = 2%nat) (mmul P (mtrans H)).
Proof.
  cbn zeta. split; [vm_compute; reflexivity|]. split.
  - rewrite det1_2. intro E. apply (f_equal this) in E. vm_compute in E. discriminate.
  - vm_compute. repeat constructor.
Qed.

(* a new feature of the velocity model: position observed, velocity 0; SMALL variance on the
   observed coordinates, LARGE on the hidden velocity; noise variance one; no history *)
Theorem new_feature_velocity z0 z1 :
  feat_new (int_mat velocity_om) [z0; z1] =
  ([z0; z1; 0; 0],
   diag [SMALL_KALMAN_COV; SMALL_KALMAN_COV; LARGE_KALMAN_COV; LARGE_KALMAN_COV],
   [1; 1; 1; 1], []).
Proof.
  unfold feat_new. f_equal. f_equal.
  - assert (E : int_mat velocity_om = [[1; 0; 0; 0]; [0; 1; 0; 0]]).
    { unfold int_mat, velocity_om. cbn [map]. repeat (f_equal; try (apply Qc_is_canon; reflexivity)). }
    rewrite E.
    cbv [mvec mmul mtrans colm uncol map map2 combine col ncols hd length seq nth qsum fold_left fst snd]. qnorm.
    repeat (f_equal; try ring).
Qed.
