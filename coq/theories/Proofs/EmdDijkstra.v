(* C10 — the Dijkstra loop of compute_shortest_path (line-level model): loop invariant and
   post-condition.  With non-negative reduced costs on the residual arcs, when the loop leaves at the
   first deficit node l the labels d of the finalised nodes satisfy exactly the three inequalities
   that C10_potential_update_nonneg needs (dijkstra_labels_shortest). *)
From Coq Require Import ZArith List Bool Lia ZifyBool.
From Centro Require Import Base.Sx Base.EmdBase Model.Emd Model.EmdMcf
  Proofs.EmdHeap Proofs.EmdHeapPos Proofs.EmdHeapOrd Proofs.EmdHeapMem.
Import ListNotations.
Open Scope Z_scope.

Lemma upd_length_local {A} (g : A -> A) : forall (l : list A) i, length (upd l i g) = length l.
Proof. induction l as [|x l IH]; intros [|i]; cbn [upd length]; auto. Qed.
Lemma nth_upd_local {A} (g : A -> A) (d : A) : forall (l : list A) i j,
  nth j (upd l i g) d = if (i =? j)%nat && (i <? length l)%nat then g (nth j l d) else nth j l d.
Proof.
  induction l as [|x l IH]; intros i j.
  - cbn [upd length]. replace (i <? 0)%nat with false by (symmetry; apply Nat.ltb_ge; lia).
    rewrite andb_false_r. reflexivity.
  - destruct i as [|i], j as [|j]; cbn [upd nth length]; auto. rewrite IH. reflexivity.
Qed.
Lemma nz_upd_local (g : Z -> Z) l i j :
  nz (upd l i g) j = if (i =? j)%nat && (i <? length l)%nat then g (nz l j) else nz l j.
Proof. unfold nz. apply nth_upd_local. Qed.

Section Dijkstra.
Variable nv : nat.

(* heap invariants that every operation keeps *)
Definition HI (h : heap) : Prop :=
  heap_ord h /\ pos_ok h /\ ents_ok h /\ length (snd h) = nv.
(* every node is either in the heap or carries a stale position beyond the heap *)
Definition TF (h : heap) : Prop :=
  forall v, (v < nv)%nat -> is_entry h v \/ (~ is_entry h v /\ exists p, tbl h v = Some p /\ (hsize h <= p)%nat).

Lemma has_unique h v k1 k2 : pos_ok h -> has h v k1 -> has h v k2 -> k1 = k2.
Proof.
  intros OK [p1 H1] [p2 H2]. assert (p1 = p2) by (apply (pos_ok_unique h p1 p2 (v, k1) (v, k2)); auto).
  subst. rewrite H1 in H2. congruence.
Qed.
Lemma has_entry h v k : has h v k -> is_entry h v.
Proof. intros [p Hp]. exists p, (v, k). auto. Qed.
Lemma entry_has h v : is_entry h v -> exists k, has h v k.
Proof. intros [p [[w k] [Hp E]]]. cbn in E. subst. exists k, p. auto. Qed.
Lemma has_key h v k p : slot h p = Some (v, k) -> key h p = k.
Proof. intros H. unfold key. unfold slot in H. rewrite H. reflexivity. Qed.

(* how one heap relates to a later one during the relaxations out of a node of label du *)
Definition Rel (du : Z) (h h' : heap) : Prop :=
  HI h' /\ hsize h' = hsize h /\ (forall w, is_entry h' w <-> is_entry h w) /\
  (forall w, ~ is_entry h w -> tbl h' w = tbl h w) /\
  (forall w k', has h' w k' -> exists k0, has h w k0 /\ k' <= k0 /\ (k' = k0 \/ du <= k')).

Lemma Rel_refl du h : HI h -> Rel du h h.
Proof.
  intros H. split; auto. split; auto. split; [tauto|]. split; auto.
  intros w k Hk. exists k. split; auto. split; [lia|auto].
Qed.
Lemma Rel_trans du h1 h2 h3 : Rel du h1 h2 -> Rel du h2 h3 -> Rel du h1 h3.
Proof.
  intros [_ [S1 [E1 [T1 K1]]]] [H3 [S2 [E2 [T2 K2]]]].
  split; auto. split; [lia|]. split; [intros w; rewrite E2; apply E1|]. split.
  - intros w Nw. rewrite T2, T1; auto. rewrite E1. auto.
  - intros w k3 Hk. destruct (K2 w k3 Hk) as [k2 [A [B C]]]. destruct (K1 w k2 A) as [k1 [A' [B' C']]].
    exists k1. split; auto. split; [lia|]. destruct C as [->|C]; [destruct C' as [->|C']; auto|right; auto].
Qed.
Lemma Rel_TF du h h' : Rel du h h' -> TF h -> TF h'.
Proof.
  intros [_ [S [E [T _]]]] F v Hv. destruct (F v Hv) as [A|[N [p [A B]]]].
  - left. apply E. auto.
  - right. split; [rewrite E; auto|]. exists p. rewrite T by auto. split; auto. lia.
Qed.

(* one relaxation *)
Lemma relax_spec u du st v rc st' : HI (sp_h st) -> TF (sp_h st) -> (v < nv)%nat -> 0 <= rc ->
  relax u du st v rc = Some st' ->
  sp_d st' = sp_d st /\ sp_final st' = sp_final st /\ Rel du (sp_h st) (sp_h st') /\
  (forall k, has (sp_h st') v k -> k <= du + rc).
Proof.
  intros [O [P [EO L]]] F Hv R. unfold relax.
  destruct (oget (snd (sp_h st)) v) as [pos|] eqn:Ep; [|discriminate]. cbn [bind].
  destruct (F v Hv) as [EN|[NE [p [Tp Lp]]]].
  - (* v is in the heap *)
    destruct EN as [q [[w k] [Hq Ew]]]. cbn in Ew. subst w.
    assert (pos = q) by (pose proof (P _ _ Hq) as X; cbn [fst] in X; rewrite Ep in X; congruence). subst q.
    pose proof (slot_lt _ _ _ Hq) as Lq. fold (hsize (sp_h st)).
    assert (E1 : (pos <? hsize (sp_h st))%nat = true) by (apply Nat.ltb_lt; auto). rewrite E1.
    pose proof Hq as Hq'. unfold slot in Hq'. rewrite Hq'. cbn [bind snd].
    destruct (du + rc <? k) eqn:CMP.
    + destruct (heap_decrease_key (sp_h st) v (du + rc)) as [h1|] eqn:ED; [|discriminate]. cbn [bind].
      intros H. injection H as <-. cbn [sp_h sp_d sp_final].
      destruct (heap_decrease_key_mem _ _ _ _ _ _ P Ep Hq ED) as [M1 [M2 [M3 [M4 M5]]]].
      assert (LE : du + rc <= key (sp_h st) pos) by (rewrite (has_key _ _ _ _ Hq); lia).
      destruct (heap_decrease_key_ord _ _ _ _ _ O Ep Lq LE ED) as [O1 S1].
      destruct (heap_decrease_key_safe _ _ (du + rc) _ EO Ep Lq) as [h1' [ED' [[SS1 SS2] EO1]]].
      rewrite ED in ED'. injection ED' as <-.
      split; auto. split; auto. split.
      * split; [split; auto; split; [eapply heap_decrease_key_pos; eauto|split; auto; lia]|].
        split; auto. split; auto. split; auto.
        intros w k' Hk. destruct (Nat.eq_dec w v) as [->|N].
        { rewrite (M2 _ Hk). exists k. split; [exists pos; auto|]. split; [lia|]. right. lia. }
        { exists k'. split; [apply M3; auto|]. split; [lia|auto]. }
      * intros k' Hk. rewrite (M2 _ Hk). lia.
    + intros H. injection H as <-. split; auto. split; auto. split; [apply Rel_refl; repeat split; auto|].
      intros k' Hk. assert (k' = k) by (eapply has_unique; eauto; exists pos; auto). lia.
  - (* v was finalised earlier: its stale position is beyond the heap, nothing happens *)
    unfold tbl in Tp. rewrite Ep in Tp. injection Tp as ->. fold (hsize (sp_h st)).
    assert (E1 : (p <? hsize (sp_h st))%nat = false) by (apply Nat.ltb_ge; auto). rewrite E1.
    intros H. injection H as <-. split; auto. split; auto. split; [apply Rel_refl; repeat split; auto|].
    intros k' Hk. exfalso. apply NE. eapply has_entry; eauto.
Qed.

Lemma relax_fwd_spec u du : forall l st st', HI (sp_h st) -> TF (sp_h st) ->
  (forall v rc, In (v, rc) l -> (v < nv)%nat /\ 0 <= rc) ->
  relax_fwd u du st l = Some st' ->
  sp_d st' = sp_d st /\ sp_final st' = sp_final st /\ Rel du (sp_h st) (sp_h st') /\
  (forall v rc, In (v, rc) l -> forall k, has (sp_h st') v k -> k <= du + rc).
Proof.
  induction l as [|[v rc] l IH]; intros st st' H F A; cbn [relax_fwd].
  - intros X. injection X as <-. split; auto. split; auto. split; [apply Rel_refl; auto|]. intros ? ? [].
  - destruct (relax u du st v rc) as [st1|] eqn:E1; [|discriminate]. cbn [bind]. intros X.
    destruct (A v rc (or_introl eq_refl)) as [Hv Hr].
    destruct (relax_spec _ _ _ _ _ _ H F Hv Hr E1) as [D1 [F1 [R1 B1]]].
    destruct (IH st1 st') as [D2 [F2 [R2 B2]]]; auto.
    + destruct R1; auto.
    + eapply Rel_TF; eauto.
    + intros; apply A; right; auto.
    + split; [congruence|]. split; [congruence|]. split; [eapply Rel_trans; eauto|].
      intros w rc' [Eq|Hin] k Hk; [|eapply B2; eauto]. injection Eq as <- <-.
      destruct R2 as [_ [_ [_ [_ K]]]]. destruct (K v k Hk) as [k0 [A0 [B0 _]]]. specialize (B1 k0 A0). lia.
Qed.

Lemma relax_bwd_spec u du : forall l st st', HI (sp_h st) -> TF (sp_h st) ->
  (forall v rc cap, In (v, rc, cap) l -> 0 < cap -> (v < nv)%nat /\ 0 <= rc) ->
  relax_bwd u du st l = Some st' ->
  sp_d st' = sp_d st /\ sp_final st' = sp_final st /\ Rel du (sp_h st) (sp_h st') /\
  (forall v rc cap, In (v, rc, cap) l -> 0 < cap -> forall k, has (sp_h st') v k -> k <= du + rc).
Proof.
  induction l as [|[[v rc] cap] l IH]; intros st st' H F A; cbn [relax_bwd].
  - intros X. injection X as <-. split; auto. split; auto. split; [apply Rel_refl; auto|]. intros ? ? ? [].
  - destruct (0 <? cap) eqn:EC.
    + destruct (relax u du st v rc) as [st1|] eqn:E1; [|discriminate]. cbn [bind]. intros X.
      destruct (A v rc cap (or_introl eq_refl) ltac:(lia)) as [Hv Hr].
      destruct (relax_spec _ _ _ _ _ _ H F Hv Hr E1) as [D1 [F1 [R1 B1]]].
      destruct (IH st1 st') as [D2 [F2 [R2 B2]]]; auto.
      * destruct R1; auto.
      * eapply Rel_TF; eauto.
      * intros; eapply A; eauto; right; auto.
      * split; [congruence|]. split; [congruence|]. split; [eapply Rel_trans; eauto|].
        intros w rc' cap' [Eq|Hin] Hc k Hk; [|eapply B2; eauto]. injection Eq as <- <- <-.
        destruct R2 as [_ [_ [_ [_ K]]]]. destruct (K v k Hk) as [k0 [A0 [B0 _]]]. specialize (B1 k0 A0). lia.
    + intros X. destruct (IH st st') as [D2 [F2 [R2 B2]]]; auto.
      * intros; eapply A; eauto; right; auto.
      * split; auto. split; auto. split; auto.
        intros w rc' cap' [Eq|Hin] Hc k Hk; [injection Eq as <- <- <-; lia|eapply B2; eauto].
Qed.

(* ---------------------------------------------------------------- the loop *)
Variable e : list Z.
Variable rf : list (list (nat * Z)).
Variable rb : list (list (nat * Z * Z)).

Definition res_arc (u v : nat) (rc : Z) : Prop :=
  In (v, rc) (nth u rf []) \/ exists cap, In (v, rc, cap) (nth u rb []) /\ 0 < cap.
Hypothesis RA : forall u v rc, res_arc u v rc -> (v < nv)%nat /\ 0 <= rc.

Definition dd (st : sp_state) (v : nat) : Z := nz (sp_d st) v.
Definition fn (st : sp_state) (v : nat) : bool := fin (sp_final st) v.

Definition J (st : sp_state) : Prop :=
  let h := sp_h st in
  HI h /\ length (sp_d st) = nv /\ length (sp_final st) = nv /\
  (forall v, (v < nv)%nat -> fn st v = false -> is_entry h v) /\
  (forall v, is_entry h v -> fn st v = false /\ (v < nv)%nat) /\
  (forall a b rc, fn st a = true -> res_arc a b rc ->
      (fn st b = true -> dd st b <= dd st a + rc) /\ (forall k, has h b k -> k <= dd st a + rc)) /\
  (forall a w k, fn st a = true -> has h w k -> dd st a <= k) /\
  (forall v, fn st v = true -> exists p, tbl h v = Some p /\ (hsize h <= p)%nat).

(* dijkstra_labels_shortest: what the labels satisfy when the loop leaves at l *)
Definition Post (st : sp_state) (l : nat) : Prop :=
  fn st l = true /\ (l < nv)%nat /\
  (forall a b rc, res_arc a b rc -> fn st a = true -> fn st b = true -> dd st b <= dd st a + rc) /\
  (forall a b rc, res_arc a b rc -> fn st a = true -> fn st b = false -> dd st l <= dd st a + rc) /\
  (forall v, fn st v = true -> dd st v <= dd st l).

Lemma root_min h u du : HI h -> slot h 0 = Some (u, du) -> forall w k, has h w k -> du <= k.
Proof.
  intros [O _] S0 w k [p Hp]. pose proof (slot_lt _ _ _ Hp) as L.
  pose proof (heap_root_min h O p L) as M. rewrite (has_key _ _ _ _ S0), (has_key _ _ _ _ Hp) in M. exact M.
Qed.

Lemma J_step st u du h1 st3 st4 :
  J st -> slot (sp_h st) 0 = Some (u, du) -> heap_remove_first (sp_h st) = Some h1 ->
  relax_fwd u du {| sp_h := h1; sp_d := upd (sp_d st) u (fun _ => du); sp_prev := sp_prev st;
                    sp_final := upd (sp_final st) u (fun _ => true) |} (nth u rf []) = Some st3 ->
  relax_bwd u du st3 (nth u rb []) = Some st4 -> J st4.
Proof.
  intros Jst S0 ER E3 E4.
  destruct Jst as [H [LD [LF [J2 [J2' [J3 [J4 J6]]]]]]].
  assert (HU : has (sp_h st) u du) by (exists O; auto).
  destruct (J2' u (has_entry _ _ _ HU)) as [FU LU].
  pose proof (root_min _ _ _ H S0) as RM.
  set (st1 := {| sp_h := sp_h st; sp_d := upd (sp_d st) u (fun _ => du); sp_prev := sp_prev st;
                 sp_final := upd (sp_final st) u (fun _ => true) |}).
  assert (D1 : forall w, dd st1 w = if (w =? u)%nat then du else dd st w).
  { intros w. unfold dd, st1. cbn [sp_d]. rewrite nz_upd_local. rewrite (Nat.eqb_sym w u).
    assert (E : (u <? length (sp_d st))%nat = true) by (apply Nat.ltb_lt; lia). rewrite E, andb_true_r. reflexivity. }
  assert (F1 : forall w, fn st1 w = if (w =? u)%nat then true else fn st w).
  { intros w. unfold fn, fin, st1. cbn [sp_final]. rewrite (nth_upd_local (fun _ => true) false). rewrite (Nat.eqb_sym w u).
    assert (E : (u <? length (sp_final st))%nat = true) by (apply Nat.ltb_lt; lia). rewrite E, andb_true_r. reflexivity. }
  (* facts about old finalised nodes *)
  assert (OLD : forall a, fn st a = true -> dd st a <= du) by (intros a Fa; eapply J4; eauto).
  set (st2 := {| sp_h := h1; sp_d := sp_d st1; sp_prev := sp_prev st1; sp_final := sp_final st1 |}).
  change {| sp_h := h1; sp_d := upd (sp_d st) u (fun _ => du); sp_prev := sp_prev st;
            sp_final := upd (sp_final st) u (fun _ => true) |} with st2 in E3.
    destruct H as [O [P [EO LN]]].
    destruct (heap_remove_first_mem _ _ _ _ P S0 ER) as [M1 [M2 M3]].
    assert (Hn : (0 < hsize (sp_h st))%nat) by (eapply slot_lt; eauto).
    destruct (heap_remove_first_ord _ _ O Hn ER) as [O1 SZ1].
    pose proof (heap_remove_first_pos _ _ P ER) as P1.
    destruct (heap_remove_first_safe _ EO Hn) as [h1' [ER' [_ [LN1 EO1]]]]. rewrite ER in ER'. injection ER' as <-.
    assert (H1 : HI h1) by (repeat split; auto; lia).
    assert (NU1 : ~ is_entry h1 u) by (intros X; destruct (entry_has _ _ X) as [k Hk]; apply M1 in Hk; tauto).
    assert (EN1 : forall w, is_entry h1 w <-> (is_entry (sp_h st) w /\ w <> u)).
    { intros w. split.
      - intros X. destruct (entry_has _ _ X) as [k Hk]. apply M1 in Hk. destruct Hk as [A B]. split; auto. eapply has_entry; eauto.
      - intros [X N]. destruct (entry_has _ _ X) as [k Hk]. eapply has_entry. apply M1. split; eauto. }
    assert (TF1 : TF h1).
    { intros v Hv. destruct (Nat.eq_dec v u) as [->|N].
      - right. split; auto. exists (hsize (sp_h st) - 1)%nat. split; auto. lia.
      - destruct (fn st v) eqn:Fv.
        + right. assert (NEv : ~ is_entry (sp_h st) v) by (intros X; destruct (J2' v X); congruence).
          split; [rewrite EN1; tauto|]. destruct (J6 v Fv) as [p [Tp Lp]]. exists p. rewrite M3 by auto. split; auto. lia.
        + left. apply EN1. split; auto. }
    assert (A3 : forall v rc, In (v, rc) (nth u rf []) -> (v < nv)%nat /\ 0 <= rc)
      by (intros v rc Hin; apply (RA u v rc); left; auto).
    assert (A4 : forall v rc cap, In (v, rc, cap) (nth u rb []) -> 0 < cap -> (v < nv)%nat /\ 0 <= rc)
      by (intros v rc cap Hin Hc; apply (RA u v rc); right; exists cap; auto).
    destruct (relax_fwd_spec u du _ st2 st3 H1 TF1 A3 E3) as [D3 [F3 [R3 B3]]].
    assert (H3 : HI (sp_h st3)) by (destruct R3; auto).
    assert (TF3 : TF (sp_h st3)) by (eapply Rel_TF; eauto).
    destruct (relax_bwd_spec u du _ st3 st4 H3 TF3 A4 E4) as [D4 [F4 [R4 B4]]].
    pose proof (Rel_trans _ _ _ _ R3 R4) as R. change (sp_h st2) with h1 in R.
    destruct R as [H4 [SZ4 [EN4 [T4 K4]]]].
    assert (DD : forall w, dd st4 w = dd st1 w) by (intros w; unfold dd; rewrite D4, D3; reflexivity).
    assert (FF : forall w, fn st4 w = fn st1 w) by (intros w; unfold fn; rewrite F4, F3; reflexivity).
    (* keys after the relaxations, in terms of the heap before the pop *)
    assert (KEY : forall w k, has (sp_h st4) w k -> w <> u /\ du <= k /\ exists k0, has (sp_h st) w k0 /\ k <= k0).
    { intros w k Hk. destruct (K4 w k Hk) as [k0 [A0 [B0 C0]]]. apply M1 in A0. destruct A0 as [A0 Nw].
      split; auto. split; [destruct C0 as [->|C0]; [eapply RM; eauto|auto]|]. exists k0. auto. }
    split; auto. split; [rewrite D4, D3; unfold st2, st1; cbn [sp_d]; rewrite upd_length_local; auto|].
    split; [rewrite F4, F3; unfold st2, st1; cbn [sp_final]; rewrite upd_length_local; auto|].
    split; [|split; [|split; [|split]]].
    + intros v Hv Fv. rewrite FF, F1 in Fv. destruct (v =? u)%nat eqn:Ev; [discriminate|]. apply Nat.eqb_neq in Ev.
      apply EN4. apply EN1. split; auto.
    + intros v Ev. apply EN4 in Ev. apply EN1 in Ev. destruct Ev as [Ev N]. destruct (J2' v Ev) as [A B].
      split; auto. rewrite FF, F1. assert (X : (v =? u)%nat = false) by (apply Nat.eqb_neq; auto). rewrite X. auto.
    + intros a b rc Fa Rab. rewrite FF, F1 in Fa. rewrite !DD, !D1. destruct (RA _ _ _ Rab) as [Lb R0]. split.
      * intros Fb. rewrite FF, F1 in Fb.
        destruct (a =? u)%nat eqn:Ea; destruct (b =? u)%nat eqn:Eb.
        { lia. }
        { pose proof (OLD b Fb). lia. }
        { apply Nat.eqb_eq in Eb. subst b. destruct (J3 a u rc Fa Rab) as [_ K]. apply K. auto. }
        { destruct (J3 a b rc Fa Rab) as [K _]. apply K. auto. }
      * intros k Hk. destruct (KEY b k Hk) as [Nb [Lk [k0 [Hk0 Lk0]]]].
        destruct (a =? u)%nat eqn:Ea.
        { apply Nat.eqb_eq in Ea. subst a. destruct Rab as [Hin|[cap [Hin Hc]]].
          - destruct R4 as [_ [_ [_ [_ K]]]]. destruct (K b k Hk) as [k3 [A3' [B3' _]]]. specialize (B3 b rc Hin k3 A3'). lia.
          - apply (B4 b rc cap Hin Hc k Hk). }
        { destruct (J3 a b rc Fa (or_ind (fun x => or_introl x) (fun x => or_intror x) Rab)) as [_ K]. specialize (K k0 Hk0). lia. }
    + intros a w k Fa Hk. rewrite FF, F1 in Fa. rewrite DD, D1. destruct (KEY w k Hk) as [_ [Lk _]].
      destruct (a =? u)%nat; [lia|pose proof (OLD a Fa); lia].
    + intros v Fv. rewrite FF, F1 in Fv. rewrite SZ4, SZ1.
      destruct (v =? u)%nat eqn:Ev.
      * apply Nat.eqb_eq in Ev. subst v. exists (hsize (sp_h st) - 1)%nat. rewrite T4 by auto. split; auto.
      * apply Nat.eqb_neq in Ev. destruct (J6 v Fv) as [p [Tp Lp]]. exists p.
        assert (NEv : ~ is_entry (sp_h st) v) by (intros X; destruct (J2' v X); congruence).
        rewrite T4 by (rewrite EN1; tauto). rewrite M3 by auto. split; auto. lia.
Qed.

Lemma J_step_facts st u du h1 st3 st4 :
  J st -> slot (sp_h st) 0 = Some (u, du) -> heap_remove_first (sp_h st) = Some h1 ->
  relax_fwd u du {| sp_h := h1; sp_d := upd (sp_d st) u (fun _ => du); sp_prev := sp_prev st;
                    sp_final := upd (sp_final st) u (fun _ => true) |} (nth u rf []) = Some st3 ->
  relax_bwd u du st3 (nth u rb []) = Some st4 ->
  (forall w, dd st4 w = if (w =? u)%nat then du else dd st w) /\
  (forall w, fn st4 w = if (w =? u)%nat then true else fn st w) /\
  HI h1 /\ TF h1 /\ HI (sp_h st3) /\ TF (sp_h st3) /\
  (forall w k, has h1 w k <-> (has (sp_h st) w k /\ w <> u)) /\
  (forall w, is_entry (sp_h st3) w <-> is_entry h1 w) /\
  fn st u = false /\ (u < nv)%nat.
Proof.
  intros Jst S0 ER E3 E4.
  destruct Jst as [H [LD [LF [J2 [J2' [J3 [J4 J6]]]]]]].
  assert (HU : has (sp_h st) u du) by (exists O; auto).
  destruct (J2' u (has_entry _ _ _ HU)) as [FU LU].
  pose proof (root_min _ _ _ H S0) as RM.
  set (st1 := {| sp_h := sp_h st; sp_d := upd (sp_d st) u (fun _ => du); sp_prev := sp_prev st;
                 sp_final := upd (sp_final st) u (fun _ => true) |}).
  assert (D1 : forall w, dd st1 w = if (w =? u)%nat then du else dd st w).
  { intros w. unfold dd, st1. cbn [sp_d]. rewrite nz_upd_local. rewrite (Nat.eqb_sym w u).
    assert (E : (u <? length (sp_d st))%nat = true) by (apply Nat.ltb_lt; lia). rewrite E, andb_true_r. reflexivity. }
  assert (F1 : forall w, fn st1 w = if (w =? u)%nat then true else fn st w).
  { intros w. unfold fn, fin, st1. cbn [sp_final]. rewrite (nth_upd_local (fun _ => true) false). rewrite (Nat.eqb_sym w u).
    assert (E : (u <? length (sp_final st))%nat = true) by (apply Nat.ltb_lt; lia). rewrite E, andb_true_r. reflexivity. }
  (* facts about old finalised nodes *)
  assert (OLD : forall a, fn st a = true -> dd st a <= du) by (intros a Fa; eapply J4; eauto).
  set (st2 := {| sp_h := h1; sp_d := sp_d st1; sp_prev := sp_prev st1; sp_final := sp_final st1 |}).
  change {| sp_h := h1; sp_d := upd (sp_d st) u (fun _ => du); sp_prev := sp_prev st;
            sp_final := upd (sp_final st) u (fun _ => true) |} with st2 in E3.
    destruct H as [O [P [EO LN]]].
    destruct (heap_remove_first_mem _ _ _ _ P S0 ER) as [M1 [M2 M3]].
    assert (Hn : (0 < hsize (sp_h st))%nat) by (eapply slot_lt; eauto).
    destruct (heap_remove_first_ord _ _ O Hn ER) as [O1 SZ1].
    pose proof (heap_remove_first_pos _ _ P ER) as P1.
    destruct (heap_remove_first_safe _ EO Hn) as [h1' [ER' [_ [LN1 EO1]]]]. rewrite ER in ER'. injection ER' as <-.
    assert (H1 : HI h1) by (repeat split; auto; lia).
    assert (NU1 : ~ is_entry h1 u) by (intros X; destruct (entry_has _ _ X) as [k Hk]; apply M1 in Hk; tauto).
    assert (EN1 : forall w, is_entry h1 w <-> (is_entry (sp_h st) w /\ w <> u)).
    { intros w. split.
      - intros X. destruct (entry_has _ _ X) as [k Hk]. apply M1 in Hk. destruct Hk as [A B]. split; auto. eapply has_entry; eauto.
      - intros [X N]. destruct (entry_has _ _ X) as [k Hk]. eapply has_entry. apply M1. split; eauto. }
    assert (TF1 : TF h1).
    { intros v Hv. destruct (Nat.eq_dec v u) as [->|N].
      - right. split; auto. exists (hsize (sp_h st) - 1)%nat. split; auto. lia.
      - destruct (fn st v) eqn:Fv.
        + right. assert (NEv : ~ is_entry (sp_h st) v) by (intros X; destruct (J2' v X); congruence).
          split; [rewrite EN1; tauto|]. destruct (J6 v Fv) as [p [Tp Lp]]. exists p. rewrite M3 by auto. split; auto. lia.
        + left. apply EN1. split; auto. }
    assert (A3 : forall v rc, In (v, rc) (nth u rf []) -> (v < nv)%nat /\ 0 <= rc)
      by (intros v rc Hin; apply (RA u v rc); left; auto).
    assert (A4 : forall v rc cap, In (v, rc, cap) (nth u rb []) -> 0 < cap -> (v < nv)%nat /\ 0 <= rc)
      by (intros v rc cap Hin Hc; apply (RA u v rc); right; exists cap; auto).
    destruct (relax_fwd_spec u du _ st2 st3 H1 TF1 A3 E3) as [D3 [F3 [R3 B3]]].
    assert (H3 : HI (sp_h st3)) by (destruct R3; auto).
    assert (TF3 : TF (sp_h st3)) by (eapply Rel_TF; eauto).
    destruct (relax_bwd_spec u du _ st3 st4 H3 TF3 A4 E4) as [D4 [F4 [R4 B4]]].
    pose proof (Rel_trans _ _ _ _ R3 R4) as R. change (sp_h st2) with h1 in R.
    destruct R as [H4 [SZ4 [EN4 [T4 K4]]]].
    assert (DD : forall w, dd st4 w = dd st1 w) by (intros w; unfold dd; rewrite D4, D3; reflexivity).
    assert (FF : forall w, fn st4 w = fn st1 w) by (intros w; unfold fn; rewrite F4, F3; reflexivity).
    (* keys after the relaxations, in terms of the heap before the pop *)
    assert (KEY : forall w k, has (sp_h st4) w k -> w <> u /\ du <= k /\ exists k0, has (sp_h st) w k0 /\ k <= k0).
    { intros w k Hk. destruct (K4 w k Hk) as [k0 [A0 [B0 C0]]]. apply M1 in A0. destruct A0 as [A0 Nw].
      split; auto. split; [destruct C0 as [->|C0]; [eapply RM; eauto|auto]|]. exists k0. auto. }
    split; [intros w; rewrite DD; apply D1|]. split; [intros w; rewrite FF; apply F1|].
    split; auto. split; auto. split; auto. split; auto. split; auto.
    split; [destruct R3 as [_ [_ [X _]]]; exact X|]. split; auto.
Qed.

Theorem dijkstra_inv : forall fuel st st' l, J st -> dijkstra fuel e rf rb st = Some (st', l) -> Post st' l.
Proof.
  induction fuel as [|f IH]; intros st st' l Jst; cbn [dijkstra]; [discriminate|].
  pose proof Jst as Jst0. destruct Jst as [H [LD [LF [J2 [J2' [J3 [J4 J6]]]]]]].
  destruct (oget (fst (sp_h st)) 0) as [[u du]|] eqn:E0; [|discriminate]. cbn [bind fst snd].
  assert (S0 : slot (sp_h st) 0 = Some (u, du)) by exact E0.
  assert (HU : has (sp_h st) u du) by (exists O; auto).
  destruct (J2' u (has_entry _ _ _ HU)) as [FU LU].
  pose proof (root_min _ _ _ H S0) as RM.
  set (st1 := {| sp_h := sp_h st; sp_d := upd (sp_d st) u (fun _ => du); sp_prev := sp_prev st;
                 sp_final := upd (sp_final st) u (fun _ => true) |}).
  assert (D1 : forall w, dd st1 w = if (w =? u)%nat then du else dd st w).
  { intros w. unfold dd, st1. cbn [sp_d]. rewrite nz_upd_local. rewrite (Nat.eqb_sym w u).
    assert (E : (u <? length (sp_d st))%nat = true) by (apply Nat.ltb_lt; lia). rewrite E, andb_true_r. reflexivity. }
  assert (F1 : forall w, fn st1 w = if (w =? u)%nat then true else fn st w).
  { intros w. unfold fn, fin, st1. cbn [sp_final]. rewrite (nth_upd_local (fun _ => true) false). rewrite (Nat.eqb_sym w u).
    assert (E : (u <? length (sp_final st))%nat = true) by (apply Nat.ltb_lt; lia). rewrite E, andb_true_r. reflexivity. }
  (* facts about old finalised nodes *)
  assert (OLD : forall a, fn st a = true -> dd st a <= du) by (intros a Fa; eapply J4; eauto).
  destruct (nz e u <? 0) eqn:EX.
  - (* early exit at the deficit node u *)
    intros X. injection X as <- <-. fold st1.
    split; [rewrite F1, Nat.eqb_refl; auto|]. split; auto.
    split; [|split].
    + intros a b rc Rab Fa Fb. rewrite F1 in Fa, Fb. rewrite !D1. destruct (RA _ _ _ Rab) as [_ R0].
      destruct (a =? u)%nat eqn:Ea; destruct (b =? u)%nat eqn:Eb.
      * lia.
      * pose proof (OLD b Fb). lia.
      * apply Nat.eqb_eq in Eb. subst b. destruct (J3 a u rc Fa Rab) as [_ K]. apply K. auto.
      * destruct (J3 a b rc Fa Rab) as [K _]. apply K. auto.
    + intros a b rc Rab Fa Fb. rewrite F1 in Fa, Fb. rewrite !D1, Nat.eqb_refl. destruct (RA _ _ _ Rab) as [Lb R0].
      destruct (b =? u)%nat eqn:Eb; [discriminate|].
      destruct (a =? u)%nat eqn:Ea; [lia|].
      destruct (entry_has _ _ (J2 b Lb Fb)) as [k Hk].
      destruct (J3 a b rc Fa Rab) as [_ K]. specialize (K k Hk). specialize (RM b k Hk). lia.
    + intros v Fv. rewrite F1 in Fv. rewrite !D1, Nat.eqb_refl. destruct (v =? u)%nat; [lia|apply OLD; auto].
  - (* u is removed from the heap and its arcs are relaxed *)
    destruct (heap_remove_first (sp_h st1)) as [h1|] eqn:ER; [|discriminate]. cbn [bind].
    set (st2 := {| sp_h := h1; sp_d := sp_d st1; sp_prev := sp_prev st1; sp_final := sp_final st1 |}).
    destruct (relax_fwd u du st2 (nth u rf [])) as [st3|] eqn:E3; [|discriminate]. cbn [bind].
    destruct (relax_bwd u du st3 (nth u rb [])) as [st4|] eqn:E4; [|discriminate]. cbn [bind].
    destruct (fst (sp_h st4)) eqn:NE; [discriminate|]. intros X. apply (IH st4 st' l); auto. clear X NE.
    change (sp_h st1) with (sp_h st) in ER.
    exact (J_step st u du h1 st3 st4 Jst0 S0 ER E3 E4).
Qed.
End Dijkstra.
