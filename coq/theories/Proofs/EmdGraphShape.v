(* C10 — shape of the graph that emd_hat_impl.hpp hands to min_cost_flow (model: reduce): apart from
   the artificial node, arcs only go "upwards" source -> threshold -> sink, so no arc has an
   anti-parallel companion unless one end is the artificial node.  Hence the pair-addressing defect
   of augment (Proofs/EmdPairAddr.v) cannot be reached through emd_hat unless a shortest path uses
   the artificial node. *)
From Coq Require Import ZArith List Bool Lia ZifyBool.
From Centro Require Import Base.Sx Base.EmdBase Model.Emd Proofs.EmdDuality Proofs.EmdModel Proofs.EmdSsp.
Import ListNotations.
Open Scope Z_scope.

Definition lev (N w : nat) : nat := if (w <? N)%nat then 0%nat else if (w <? 2 * N)%nat then 2%nat else 1%nat.

Lemma lev_src N v : (v < N)%nat -> lev N v = 0%nat.
Proof. intros H. unfold lev. assert (E : (v <? N)%nat = true) by (apply Nat.ltb_lt; auto). rewrite E. reflexivity. Qed.
Lemma lev_snk N w : (N <= w < 2 * N)%nat -> lev N w = 2%nat.
Proof.
  intros H. unfold lev. assert (E : (w <? N)%nat = false) by (apply Nat.ltb_ge; lia).
  assert (E2 : (w <? 2 * N)%nat = true) by (apply Nat.ltb_lt; lia). rewrite E, E2. reflexivity.
Qed.
Lemma lev_th N w : w = (2 * N)%nat -> lev N w = 1%nat.
Proof.
  intros ->. unfold lev. assert (E : (2 * N <? N)%nat = false) by (apply Nat.ltb_ge; lia).
  assert (E2 : (2 * N <? 2 * N)%nat = false) by (apply Nat.ltb_ge; lia). rewrite E, E2. reflexivity.
Qed.

Lemma red_c_arcs N maxC reg C v w cost :
  In (w, cost) (nth v (red_c N maxC reg C) []) ->
  v = (2 * N + 1)%nat \/ w = (2 * N + 1)%nat \/ ((lev N v < lev N w)%nat /\ (v <= 2 * N)%nat /\ (w <= 2 * N)%nat).
Proof.
  unfold red_c. cbv zeta.
  set (c_src := fun i => map (fun j => ((j + N)%nat, C i j)) (filter (reg i) (seq 0 N)) ++ [((2 * N)%nat, 0); ((2 * N + 1)%nat, maxC + 1)]).
  intros H.
  destruct (Nat.lt_ge_cases v N) as [L1|L1].
  - rewrite app_nth1 in H by (rewrite map_length, seq_length; auto).
    rewrite (nth_indep _ [] (c_src O)) in H by (rewrite map_length, seq_length; auto).
    rewrite (map_nth c_src), seq_nth in H by auto. cbn [plus] in H. unfold c_src in H.
    apply in_app_or in H. destruct H as [H|[H|[H|[]]]].
    + apply in_map_iff in H. destruct H as [j [E Hj]]. injection E as <- _. apply filter_In in Hj. destruct Hj as [Hj _].
      apply in_seq in Hj. right. right. rewrite (lev_src N v), (lev_snk N (j + N)) by lia. lia.
    + injection H as Hw _. right. right. rewrite (lev_src N v), (lev_th N w) by lia. lia.
    + injection H as Hw _. right. left. lia.
  - rewrite app_nth2 in H by (rewrite map_length, seq_length; auto). rewrite map_length, seq_length in H.
    destruct (Nat.lt_ge_cases (v - N) N) as [L2|L2].
    + rewrite app_nth1 in H by (rewrite map_length, seq_length; auto).
      rewrite (nth_indep _ [] ((fun _ : nat => [((2 * N + 1)%nat, maxC + 1)]) O)) in H by (rewrite map_length, seq_length; auto).
      rewrite (map_nth (fun _ : nat => [((2 * N + 1)%nat, maxC + 1)]) (seq 0 N) O) in H. destruct H as [H|[]]. injection H as Hw _. right. left. lia.
    + rewrite app_nth2 in H by (rewrite map_length, seq_length; auto). rewrite map_length, seq_length in H.
      destruct (v - N - N)%nat as [|[|k]] eqn:EK; cbn [app nth] in H.
      * assert (v = (2 * N)%nat) by lia. subst v. apply in_app_or in H. destruct H as [H|[H|[]]].
        { apply in_map_iff in H. destruct H as [j [E Hj]]. injection E as <- _. apply in_seq in Hj. right. right.
          rewrite (lev_th N (2 * N)), (lev_snk N (j + N)) by lia. lia. }
        { injection H as Hw _. right. left. lia. }
      * left. lia.
      * destruct k; destruct H.
Qed.

Lemma index_of_spec w : forall l k t, index_of w l k = Some t -> (k <= t)%nat /\ nth_error l (t - k) = Some w.
Proof.
  induction l as [|x l IH]; intros k t; cbn [index_of]; [discriminate|].
  destruct (x =? w)%nat eqn:E.
  - intros H. injection H as <-. apply Nat.eqb_eq in E. subst. rewrite Nat.sub_diag. split; auto.
  - intros H. apply IH in H. destruct H as [A B]. split; [lia|].
    replace (t - k)%nat with (S (t - S k)) by lia. exact B.
Qed.

(* an arc of the renamed graph comes from an arc of c between the old names of its end points *)
Lemma rename_arc old c a : In a (mk_arcs (rename_cc old c)) ->
  exists v w, nth_error old (a_from a) = Some v /\ nth_error old (a_to a) = Some w /\ In (w, a_cost a) (nth v c []).
Proof.
  intros H. apply mk_arcs_in in H. destruct H as [_ [L I]]. unfold rename_cc in *. rewrite map_length in L.
  destruct (nth_error old (a_from a)) as [v|] eqn:Ev; [|apply nth_error_None in Ev; lia].
  rewrite (nth_indep _ [] ((fun v0 => flat_map (fun tc : nat * Z => match index_of (fst tc) old 0 with Some t => [(t, snd tc)] | None => [] end) (nth v0 c [])) O)) in I
    by (rewrite map_length; auto).
  rewrite (map_nth (fun v0 => flat_map (fun tc : nat * Z => match index_of (fst tc) old 0 with Some t => [(t, snd tc)] | None => [] end) (nth v0 c []))) in I.
  rewrite (nth_error_nth _ _ O Ev) in I.
  apply in_flat_map in I. destruct I as [[w cost] [Hin Ht]]. cbn [fst snd] in Ht.
  destruct (index_of w old 0) as [t|] eqn:Ei; [|destruct Ht]. destruct Ht as [E|[]]. injection E as E1 E2.
  apply index_of_spec in Ei. destruct Ei as [_ Ei]. rewrite Nat.sub_0_r in Ei.
  exists v, w. split; auto. split; [rewrite <- E1; auto|rewrite <- E2; auto].
Qed.

(* emd_graph_no_companions_except_A *)
Theorem emd_graph_no_companions_except_A Pc Qc Cc emp a b :
  let r := reduce Pc Qc Cc emp in
  let AR := (2 * length Pc + 1)%nat in
  In a (mk_arcs (r_cc r)) -> In b (mk_arcs (r_cc r)) ->
  a_from a = a_to b -> a_to a = a_from b ->
  nth_error (r_old r) (a_from a) = Some AR \/ nth_error (r_old r) (a_to a) = Some AR.
Proof.
  unfold reduce. cbv zeta. cbn [r_cc r_old]. intros Ha Hb E1 E2.
  apply rename_arc in Ha. apply rename_arc in Hb.
  destruct Ha as [v [w [Av [Aw Ain]]]]. destruct Hb as [v' [w' [Bv [Bw Bin]]]].
  rewrite <- E2 in Bv. rewrite <- E1 in Bw. rewrite Aw in Bv. rewrite Av in Bw. injection Bv as <-. injection Bw as <-.
  apply red_c_arcs in Ain. apply red_c_arcs in Bin. rewrite Av, Aw.
  destruct Ain as [->|[->|[L1 _]]]; auto. destruct Bin as [->|[->|[L2 _]]]; auto. lia.
Qed.
