(* C01 — phase 4, stamp hygiene: processing the free row r writes only the value r into the done / on_to_do arrays, so the
   stamps left for later rows never equal a row that is still pending (rows are processed once). *)
From Coq Require Import ZArith List Bool Lia Arith.
From Centro Require Import Base.Sx Model.Lapjv Spec.Lapjv Proofs.LapjvPhases Proofs.LapjvArr.
Import ListNotations.

Section Stamps.
Variables (r n : nat) (rows : list (list (nat * ext))) (y : list nat) (v : list ext) (inf : ext).

Definition only_r (a b : list nat) : Prop := forall j, getn b j n = getn a j n \/ getn b j n = r.

Lemma only_r_refl a : only_r a a.
Proof. intros j; left; reflexivity. Qed.
Lemma only_r_trans a b c : only_r a b -> only_r b c -> only_r a c.
Proof. intros H1 H2 j. destruct (H2 j) as [E|E]; [rewrite E; apply H1|right; exact E]. Qed.
Lemma only_r_upd a k : only_r a (upd a k r).
Proof.
  intros j. rewrite getn_upd. destruct ((j =? k)%nat && (k <? length a)%nat); [right|left]; reflexivity.
Qed.

Lemma aug_init_row_stamps : forall row d ontodo pred,
  only_r ontodo (snd (fst (aug_init_row r v row d ontodo pred))).
Proof.
  induction row as [|[j c] rr IH]; intros d ontodo pred; cbn [aug_init_row]; [apply only_r_refl|].
  eapply only_r_trans; [apply (only_r_upd ontodo j)|apply IH].
Qed.

Lemma aug_first_free_stamps : forall scan done, only_r done (snd (aug_first_free r n y scan done)).
Proof.
  induction scan as [|j sr IH]; intros done; cbn [aug_first_free]; [apply only_r_refl|].
  destruct (getn y j n =? n)%nat; [apply only_r_refl|].
  eapply only_r_trans; [apply (only_r_upd done j)|apply IH].
Qed.

Lemma aug_relax_stamps i1 u1 : forall row s,
  only_r (g_done s) (g_done (fst (aug_relax r n i1 y v u1 row s))) /\
  only_r (g_ontodo s) (g_ontodo (fst (aug_relax r n i1 y v u1 row s))).
Proof.
  induction row as [|[j c] rr IH]; intros s; cbn [aug_relax]; [split; apply only_r_refl|].
  destruct (getn (g_done s) j n =? r)%nat; [apply IH|].
  destruct (eltb (esub (esub c (gete v j)) u1) (gete (g_d s) j)); [|apply IH].
  destruct (eleb (esub (esub c (gete v j)) u1) (g_umin s)).
  - destruct (getn y j n =? n)%nat; [cbn [fst g_done g_ontodo]; split; apply only_r_refl|].
    match goal with |- context [aug_relax _ _ _ _ _ _ rr ?S] => destruct (IH S) as [A B] end.
    cbn [g_done g_ontodo] in A, B. split; [eapply only_r_trans; [apply (only_r_upd (g_done s) j)|exact A]|exact B].
  - destruct (getn (g_ontodo s) j n =? r)%nat.
    + match goal with |- context [aug_relax _ _ _ _ _ _ rr ?S] => destruct (IH S) as [A B] end. cbn [g_done g_ontodo] in A, B. auto.
    + match goal with |- context [aug_relax _ _ _ _ _ _ rr ?S] => destruct (IH S) as [A B] end.
      cbn [g_done g_ontodo] in A, B. split; [exact A|eapply only_r_trans; [apply (only_r_upd (g_ontodo s) j)|exact B]].
Qed.

Theorem aug_loop_stamps : forall fuel s s' j1, aug_loop fuel r n inf rows y v s = Some (s', j1) ->
  only_r (g_done s) (g_done s') /\ only_r (g_ontodo s) (g_ontodo s').
Proof.
  induction fuel as [|f IH]; intros s s' j1; cbn [aug_loop]; [discriminate|].
  assert (RF : forall s1 found,
            (match g_scan s with
             | [] => let '(umin, scan) := aug_min r n (g_d s) (g_done s) (g_todo s) inf [] in
                     let '(found, done') := aug_first_free r n y scan (g_done s) in
                     (mkAug (g_d s) (g_pred s) done' (g_ontodo s) (g_todo s) scan (g_ready s) umin, found)
             | _ => (s, None)
             end) = (s1, found) -> only_r (g_done s) (g_done s1) /\ g_ontodo s1 = g_ontodo s).
  { intros s1 found. destruct (g_scan s); [|intros E; inversion E; subst; split; [apply only_r_refl|reflexivity]].
    destruct (aug_min r n (g_d s) (g_done s) (g_todo s) inf []) as [um sc].
    pose proof (aug_first_free_stamps sc (g_done s)) as FS.
    destruct (aug_first_free r n y sc (g_done s)) as [fo done']. cbn [snd] in FS.
    intros E; inversion E; subst. cbn [g_done g_ontodo]. split; auto. }
  destruct (match g_scan s with
            | [] => let '(umin, scan) := aug_min r n (g_d s) (g_done s) (g_todo s) inf [] in
                    let '(found, done') := aug_first_free r n y scan (g_done s) in
                    (mkAug (g_d s) (g_pred s) done' (g_ontodo s) (g_todo s) scan (g_ready s) umin, found)
            | _ => (s, None)
            end) as [s1 found] eqn:ERF.
  destruct (RF s1 found eq_refl) as [D1 O1].
  destruct found as [j|]; [intros E; inversion E; subst; split; [exact D1|rewrite O1; apply only_r_refl]|].
  destruct (g_scan s1) as [|jh srest]; [discriminate|].
  destruct (cost_at (rowget rows (getn y jh n)) jh) as [c1|]; [|discriminate].
  match goal with |- context [aug_relax _ _ ?I _ _ ?U ?R ?S] => pose proof (aug_relax_stamps I U R S) as [D2 O2];
    destruct (aug_relax r n I y v U R S) as [s3 f3] end.
  cbn [fst g_done g_ontodo] in D2, O2. rewrite O1 in O2.
  destruct f3 as [j|].
  - intros E; inversion E; subst. split; [eapply only_r_trans; eauto|exact O2].
  - intros E. destruct (IH s3 s' j1 E) as [D3 O3]. split; eapply only_r_trans; eauto. eapply only_r_trans; eauto.
Qed.
End Stamps.
