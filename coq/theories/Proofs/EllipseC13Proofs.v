(* C13 — ellipse moments: the coordinate-level model is invariant under translation (central
   moments, over Q), independent of the other objects and follows a renumbering. *)
From Coq Require Import ZArith QArith List Bool Lia.
From Centro Require Import Base.VecC13 Proofs.VecC13Proofs Model.MeasureC13 Model.EllipseCoordsC13 Proofs.MeasureC13Proofs.
Import ListNotations.
Open Scope Z_scope.

Lemma qadd_ext a v v' : (v == v')%Q -> qadd a v = qadd a v'.
Proof. intros H. unfold qadd. apply Qred_complete. rewrite H. reflexivity. Qed.

Lemma fold_qadd_ext (l l' : list Q) : Forall2 Qeq l l' -> forall a, fold_left qadd l a = fold_left qadd l' a.
Proof.
  induction 1 as [|v v' l l' Hv _ IH]; intros a; cbn [fold_left]; [reflexivity|].
  rewrite (qadd_ext a v v' Hv). apply IH.
Qed.

Lemma Forall2_map_ext {A} (f g : A -> Q) (l : list A) : (forall x, (f x == g x)%Q) -> Forall2 Qeq (map f l) (map g l).
Proof. intros H. induction l as [|a r IH]; cbn [map]; constructor; auto. Qed.

Lemma fold_shift (f : Z * Z -> Q) (d : Q) (cs : list (Z * Z)) : forall a a1 k,
  (a == a1 + k * d)%Q ->
  (fold_left qadd (map (fun c => f c + d)%Q cs) a ==
   fold_left qadd (map f cs) a1 + fold_left qadd (map (fun _ => 1%Q) cs) k * d)%Q.
Proof.
  induction cs as [|c r IH]; intros a a1 k H; cbn [map fold_left]; [exact H|].
  apply IH. unfold qadd. rewrite !Qred_correct, H. ring.
Qed.

Lemma qsum_shift (f : Z * Z -> Q) (d : Q) cs :
  (qsum (map (fun c => f c + d)%Q cs) == qsum (map f cs) + qsum (map (fun _ => 1%Q) cs) * d)%Q.
Proof. unfold qsum. apply fold_shift. ring. Qed.

Lemma qdiv_none a b : qdiv a b = None <-> Qeq_bool b 0 = true.
Proof. unfold qdiv. destruct (Qeq_bool b 0); split; intros; congruence. Qed.

Lemma centre_shift (f : Z * Z -> Z) d cs n :
  n = qsum (map (fun _ => 1%Q) cs) -> Qeq_bool n 0 = false ->
  (Qred (qsum (map (fun c => inject_Z (f c + d)) cs) / n) ==
   Qred (qsum (map (fun c => inject_Z (f c)) cs) / n) + inject_Z d)%Q.
Proof.
  intros Hn Hz. rewrite !Qred_correct.
  assert (E : Forall2 Qeq (map (fun c => inject_Z (f c + d)) cs) (map (fun c => (inject_Z (f c) + inject_Z d)%Q) cs))
    by (apply Forall2_map_ext; intros x; rewrite inject_Z_plus; reflexivity).
  unfold qsum at 1. rewrite (fold_qadd_ext _ _ E 0%Q). fold (qsum (map (fun c => (inject_Z (f c) + inject_Z d)%Q) cs)).
  rewrite (qsum_shift (fun c => inject_Z (f c)) (inject_Z d) cs). rewrite <- Hn.
  apply Qeq_bool_neq in Hz. field. exact Hz.
Qed.

Theorem ell_c_translate dy dx cs :
  ell_c (map (shiftc dy dx) cs) = option_map (move dy dx) (ell_c cs).
Proof.
  unfold ell_c. rewrite !map_map. cbn [shiftc fst snd].
  set (n := qsum (map (fun _ => 1%Q) cs)).
  unfold qdiv. destruct (Qeq_bool n 0) eqn:Hz; [reflexivity|].
  cbn [oq].
  set (si' := qsum (map (fun x : Z * Z => inject_Z (fst x + dy)) cs)).
  set (sj' := qsum (map (fun x : Z * Z => inject_Z (snd x + dx)) cs)).
  set (si := qsum (map (fun c : Z * Z => inject_Z (fst c)) cs)).
  set (sj := qsum (map (fun c : Z * Z => inject_Z (snd c)) cs)).
  assert (Ei : (Qred (si' / n) == Qred (si / n) + inject_Z dy)%Q) by (apply (centre_shift fst dy cs n eq_refl Hz)).
  assert (Ej : (Qred (sj' / n) == Qred (sj / n) + inject_Z dx)%Q) by (apply (centre_shift snd dx cs n eq_refl Hz)).
  assert (Ci : forall x : Z * Z, (inject_Z (fst x + dy) - Qred (si' / n) == inject_Z (fst x) - Qred (si / n))%Q)
    by (intros x; rewrite Ei, inject_Z_plus; ring).
  assert (Cj : forall x : Z * Z, (inject_Z (snd x + dx) - Qred (sj' / n) == inject_Z (snd x) - Qred (sj / n))%Q)
    by (intros x; rewrite Ej, inject_Z_plus; ring).
  unfold qsum at 1 2 3.
  assert (T1 : Forall2 Qeq
     (map (fun x : Z * Z => ((inject_Z (fst x + dy) - Qred (si' / n)) * (inject_Z (fst x + dy) - Qred (si' / n)))%Q) cs)
     (map (fun c : Z * Z => ((inject_Z (fst c) - Qred (si / n)) * (inject_Z (fst c) - Qred (si / n)))%Q) cs))
    by (apply Forall2_map_ext; intros x; rewrite (Ci x); reflexivity).
  assert (T2 : Forall2 Qeq
     (map (fun x : Z * Z => ((inject_Z (fst x + dy) - Qred (si' / n)) * (inject_Z (snd x + dx) - Qred (sj' / n)))%Q) cs)
     (map (fun c : Z * Z => ((inject_Z (fst c) - Qred (si / n)) * (inject_Z (snd c) - Qred (sj / n)))%Q) cs))
    by (apply Forall2_map_ext; intros x; rewrite (Ci x), (Cj x); reflexivity).
  assert (T3 : Forall2 Qeq
     (map (fun x : Z * Z => ((inject_Z (snd x + dx) - Qred (sj' / n)) * (inject_Z (snd x + dx) - Qred (sj' / n)))%Q) cs)
     (map (fun c : Z * Z => ((inject_Z (snd c) - Qred (sj / n)) * (inject_Z (snd c) - Qred (sj / n)))%Q) cs))
    by (apply Forall2_map_ext; intros x; rewrite (Cj x); reflexivity).
  rewrite (fold_qadd_ext _ _ T1 0%Q), (fold_qadd_ext _ _ T2 0%Q), (fold_qadd_ext _ _ T3 0%Q).
  fold (qsum (map (fun c : Z * Z => ((inject_Z (fst c) - Qred (si / n)) * (inject_Z (fst c) - Qred (si / n)))%Q) cs)).
  fold (qsum (map (fun c : Z * Z => ((inject_Z (fst c) - Qred (si / n)) * (inject_Z (snd c) - Qred (sj / n)))%Q) cs)).
  fold (qsum (map (fun c : Z * Z => ((inject_Z (snd c) - Qred (sj / n)) * (inject_Z (snd c) - Qred (sj / n)))%Q) cs)).
  cbn [frow option_map]. unfold move. cbn [e_m00 e_ic e_jc e_a e_b e_c]. f_equal. f_equal.
  - apply Qred_complete. rewrite <- Ei. symmetry. apply Qred_correct.
  - apply Qred_complete. rewrite <- Ej. symmetry. apply Qred_correct.
Qed.

(* the per-object ellipse row of a scene *)
Definition ell_of (im : img) (l : Z) : option ell := ell_c (own_coords im l).
Definition ells (im : img) (idxs : list Z) : list (option ell) := map (ell_of im) idxs.

Lemma ell_of_two im l im' l' : mask l im = mask l' im' -> ell_of im l = ell_of im' l'.
Proof. intros H. unfold ell_of. rewrite (own_coords_two _ _ _ _ H). reflexivity. Qed.

Definition ells_independent := tr_independent ells ell_of (fun _ _ => eq_refl) ell_of_two.
Definition ells_relabel := tr_relabel ells ell_of (fun _ _ => eq_refl) ell_of_two.

Example ell_c_example :
  ell_c [(0, 0); (0, 1); (1, 0); (1, 1); (2, 0)] <> None
  /\ option_map e_a (ell_c (map (shiftc 7 (-3)) [(0, 0); (0, 1); (1, 0); (1, 1); (2, 0)]))
     = option_map e_a (ell_c [(0, 0); (0, 1); (1, 0); (1, 1); (2, 0)]).
Proof. split; [vm_compute; discriminate|vm_compute; reflexivity]. Qed.
