(* C10 — weak duality for the transportation problem, soundness of the certificate checker
   [emd_cert_ok], and invariance of the optimum under zero padding.  All sizes. *)
From Coq Require Import ZArith List Bool Lia ZifyBool.
From Centro Require Import Base.Sx Base.EmdBase Spec.Emd.
Import ListNotations.
Open Scope Z_scope.

(* ---------------------------------------------------------------- sums *)
Lemma zsum_map_add {A} (f g : A -> Z) l :
  zsum (map (fun x => f x + g x) l) = zsum (map f l) + zsum (map g l).
Proof. induction l; cbn [map zsum] in *; lia. Qed.
Lemma zsum_map_scale {A} (c : Z) (f : A -> Z) l : zsum (map (fun x => c * f x) l) = c * zsum (map f l).
Proof. induction l; cbn [map zsum] in *; lia. Qed.
Lemma zsum_map_le {A} (f g : A -> Z) l :
  (forall x, In x l -> f x <= g x) -> zsum (map f l) <= zsum (map g l).
Proof.
  induction l; cbn [map zsum]; intros H; [lia|].
  assert (f a <= g a) by (apply H; left; auto).
  assert (zsum (map f l) <= zsum (map g l)) by (apply IHl; intros; apply H; right; auto). lia.
Qed.
Lemma zsum_map_ext {A} (f g : A -> Z) l : (forall x, In x l -> f x = g x) -> zsum (map f l) = zsum (map g l).
Proof. intros H. f_equal. apply map_ext_in; auto. Qed.
Lemma zsum_swap {A B} (g : A -> B -> Z) la lb :
  zsum (map (fun a => zsum (map (fun b => g a b) lb)) la) =
  zsum (map (fun b => zsum (map (fun a => g a b) la)) lb).
Proof.
  induction la as [|a la IH]; cbn [map zsum].
  - induction lb; cbn [map zsum]; lia.
  - rewrite IH. rewrite <- zsum_map_add. reflexivity.
Qed.
Lemma zsum_app l1 l2 : zsum (l1 ++ l2) = zsum l1 + zsum l2.
Proof. induction l1; cbn [app zsum]; lia. Qed.
Lemma zsum_map_zero {A} (f : A -> Z) l : (forall x, In x l -> f x = 0) -> zsum (map f l) = 0.
Proof.
  induction l; cbn [map zsum]; intros H; [lia|].
  rewrite (H a) by (left; auto). rewrite IHl by (intros; apply H; right; auto). lia.
Qed.
Lemma zsum_map_nonneg {A} (f : A -> Z) l : (forall x, In x l -> 0 <= f x) -> 0 <= zsum (map f l).
Proof.
  induction l; cbn [map zsum]; intros H; [lia|].
  assert (0 <= f a) by (apply H; left; auto).
  assert (0 <= zsum (map f l)) by (apply IHl; intros; apply H; right; auto). lia.
Qed.
Lemma zsum_map_term_le {A} (f : A -> Z) l x :
  (forall y, In y l -> 0 <= f y) -> In x l -> f x <= zsum (map f l).
Proof.
  induction l; cbn [map zsum]; intros H Hin; [destruct Hin|].
  assert (0 <= f a) by (apply H; left; auto).
  assert (0 <= zsum (map f l)) by (apply zsum_map_nonneg; intros; apply H; right; auto).
  destruct Hin as [->|Hin]; [lia|].
  assert (f x <= zsum (map f l)) by (apply IHl; auto; intros; apply H; right; auto). lia.
Qed.
Lemma zsum_repeat0 k : zsum (repeat 0 k) = 0.
Proof. induction k; cbn [repeat zsum]; lia. Qed.

(* ---------------------------------------------------------------- weak duality *)
Section Transport.
Variables n m : nat.
Variable P Q : nat -> Z.
Variable C : nat -> nat -> Z.
Variable T : Z.
Variables alpha beta : nat -> Z.
Variable gamma : Z.

Theorem weak_duality f :
  feasible n m P Q T f -> dual_feasible n m C alpha beta gamma ->
  dual_value n m P Q T alpha beta gamma <= cost n m C f.
Proof.
  intros [Hpos [Hr [Hc Ht]]] [Ha [Hb Hd]]. unfold dual_value, cost. unfold moved in Ht.
  set (rows := rows n) in *. set (cols := cols m) in *.
  assert (L1 : zsum (map (fun i => zsum (map (fun j => (gamma - alpha i - beta j) * f i j) cols)) rows)
               <= zsum (map (fun i => zsum (map (fun j => C i j * f i j) cols)) rows)).
  { apply zsum_map_le; intros i Hi. apply zsum_map_le; intros j Hj.
    specialize (Hd i j Hi Hj). specialize (Hpos i j Hi Hj). nia. }
  assert (E : zsum (map (fun i => zsum (map (fun j => (gamma - alpha i - beta j) * f i j) cols)) rows)
              = gamma * T - zsum (map (fun i => alpha i * rowsum m f i) rows)
                - zsum (map (fun j => beta j * colsum n f j) cols)).
  { transitivity (zsum (map (fun i => gamma * rowsum m f i + (- (alpha i * rowsum m f i))
                                      + (- zsum (map (fun j => beta j * f i j) cols))) rows)).
    - apply zsum_map_ext; intros i Hi. unfold rowsum. fold cols.
      rewrite <- (zsum_map_scale gamma), <- (zsum_map_scale (alpha i)).
      assert (X : forall l, zsum (map (fun j => (gamma - alpha i - beta j) * f i j) l) =
                  zsum (map (fun j => gamma * f i j) l) + - zsum (map (fun j => alpha i * f i j) l)
                  + - zsum (map (fun j => beta j * f i j) l)).
      { induction l; cbn [map zsum]; lia. }
      apply X.
    - rewrite !zsum_map_add. rewrite zsum_map_scale, Ht.
      assert (N : forall (g : nat -> Z) l, zsum (map (fun i => - g i) l) = - zsum (map g l))
        by (induction l; cbn [map zsum]; lia).
      rewrite (N (fun i => alpha i * rowsum m f i)), (N (fun i => zsum (map (fun j => beta j * f i j) cols))).
      rewrite (zsum_swap (fun i j => beta j * f i j) rows cols).
      assert (S : zsum (map (fun j => zsum (map (fun i => beta j * f i j) rows)) cols)
                  = zsum (map (fun j => beta j * colsum n f j) cols)).
      { apply zsum_map_ext; intros j Hj. unfold colsum. fold rows. rewrite <- zsum_map_scale. reflexivity. }
      rewrite S. lia. }
  assert (L2 : zsum (map (fun i => alpha i * rowsum m f i) rows) <= zsum (map (fun i => alpha i * P i) rows)).
  { apply zsum_map_le; intros i Hi. specialize (Ha i Hi). specialize (Hr i Hi). nia. }
  assert (L3 : zsum (map (fun j => beta j * colsum n f j) cols) <= zsum (map (fun j => beta j * Q j) cols)).
  { apply zsum_map_le; intros j Hj. specialize (Hb j Hj). specialize (Hc j Hj). nia. }
  lia.
Qed.

(* certificate: a feasible flow whose cost equals the value of a feasible dual point is optimal *)
Theorem transport_cert_optimal f :
  feasible n m P Q T f -> dual_feasible n m C alpha beta gamma ->
  cost n m C f = dual_value n m P Q T alpha beta gamma ->
  is_opt n m P Q C T (cost n m C f).
Proof.
  intros Hf Hd E. split.
  - exists f; auto.
  - intros g Hg. rewrite E. apply weak_duality; auto.
Qed.
End Transport.

(* ---------------------------------------------------------------- checker soundness *)
Lemma all_lt_spec n p : all_lt n p = true <-> forall i, In i (seq 0 n) -> p i = true.
Proof. unfold all_lt. apply forallb_forall. Qed.

Lemma flow_ok_sound P Q C pen d F :
  flow_ok P Q C pen d F = true ->
  feasible (length P) (length Q) (nz P) (nz Q) (emd_T P Q) (mz F) /\
  cost (length P) (length Q) (mz C) (mz F) + pen * emd_extra P Q = d.
Proof.
  unfold flow_ok. intros H. rewrite !andb_true_iff in H.
  destruct H as [[[[[[Hlen Hlen2] Hpos] Hrow] Hcol] Hmv] Hcost].
  split; [|lia].
  split; [|split; [|split]].
  - intros i j Hi Hj. rewrite all_lt_spec in Hpos. specialize (Hpos i Hi). cbv beta in Hpos.
    rewrite all_lt_spec in Hpos. specialize (Hpos j Hj). cbv beta in Hpos. lia.
  - intros i Hi. rewrite all_lt_spec in Hrow. specialize (Hrow i Hi). cbv beta in Hrow. lia.
  - intros j Hj. rewrite all_lt_spec in Hcol. specialize (Hcol j Hj). cbv beta in Hcol. lia.
  - lia.
Qed.

Lemma dual_ok_sound P Q C al be ga :
  dual_ok P Q C al be ga = true ->
  dual_feasible (length P) (length Q) (mz C) (nz al) (nz be) ga.
Proof.
  unfold dual_ok. intros H. rewrite !andb_true_iff in H.
  destruct H as [[Ha Hb] Hd].
  split; [|split].
  - intros i Hi. rewrite all_lt_spec in Ha. specialize (Ha i Hi). cbv beta in Ha. lia.
  - intros j Hj. rewrite all_lt_spec in Hb. specialize (Hb j Hj). cbv beta in Hb. lia.
  - intros i j Hi Hj. rewrite all_lt_spec in Hd. specialize (Hd i Hi). cbv beta in Hd.
    rewrite all_lt_spec in Hd. specialize (Hd j Hj). cbv beta in Hd. lia.
Qed.

(* The checker accepts only the true earth mover's distance, together with a flow that is
   feasible, integral (entries are integers by type) and reproduces it. *)
Theorem emd_cert_sound P Q C pen d F al be ga :
  emd_cert_ok P Q C pen d F al be ga = true ->
  emd_spec P Q C pen d /\
  feasible (length P) (length Q) (nz P) (nz Q) (emd_T P Q) (mz F) /\
  d = cost (length P) (length Q) (mz C) (mz F) + pen * emd_extra P Q.
Proof.
  unfold emd_cert_ok. intros H.
  apply andb_prop in H; destruct H as [H He]. apply andb_prop in H; destruct H as [Hf Hd].
  apply flow_ok_sound in Hf. destruct Hf as [Hf Hc]. apply dual_ok_sound in Hd.
  assert (E : cost (length P) (length Q) (mz C) (mz F) =
              dual_value (length P) (length Q) (nz P) (nz Q) (emd_T P Q) (nz al) (nz be) ga) by lia.
  split; [|split; [exact Hf | lia]].
  exists (cost (length P) (length Q) (mz C) (mz F)). split; [|lia].
  eapply transport_cert_optimal; eauto.
Qed.

(* uniqueness of the value: two accepted certificates for the same instance give the same d *)
Lemma is_opt_unique n m P Q C T d1 d2 : is_opt n m P Q C T d1 -> is_opt n m P Q C T d2 -> d1 = d2.
Proof.
  intros [[f1 [F1 E1]] L1] [[f2 [F2 E2]] L2].
  specialize (L1 f2 F2). specialize (L2 f1 F1). lia.
Qed.
Theorem emd_spec_unique P Q C pen d1 d2 : emd_spec P Q C pen d1 -> emd_spec P Q C pen d2 -> d1 = d2.
Proof.
  intros [a [Ha Ea]] [b [Hb Eb]]. rewrite (is_opt_unique _ _ _ _ _ _ _ _ Ha Hb) in Ea. lia.
Qed.

(* ---------------------------------------------------------------- zero padding *)
Lemma seq_split n k : seq 0 (n + k) = seq 0 n ++ seq n k.
Proof. apply seq_app. Qed.
Lemma in_seq0 i n : In i (seq 0 n) <-> (i < n)%nat.
Proof. rewrite in_seq. lia. Qed.

Section Padding.
Variables n m n' m' : nat.
Hypothesis Hn : (n <= n')%nat.
Hypothesis Hm : (m <= m')%nat.
Variables P Q P' Q' : nat -> Z.
Variables C C' : nat -> nat -> Z.
Variable T : Z.
Hypothesis HP : forall i, (i < n)%nat -> P' i = P i.
Hypothesis HP0 : forall i, (n <= i < n')%nat -> P' i = 0.
Hypothesis HQ : forall j, (j < m)%nat -> Q' j = Q j.
Hypothesis HQ0 : forall j, (m <= j < m')%nat -> Q' j = 0.
Hypothesis HC : forall i j, (i < n)%nat -> (j < m)%nat -> C' i j = C i j.

Definition restrict (f : nat -> nat -> Z) : nat -> nat -> Z :=
  fun i j => if (i <? n)%nat && (j <? m)%nat then f i j else 0.

Lemma sum_pad_rows (g : nat -> Z) : (forall i, (n <= i < n')%nat -> g i = 0) ->
  zsum (map g (seq 0 n')) = zsum (map g (seq 0 n)).
Proof.
  intros H. replace n' with (n + (n' - n))%nat by lia. rewrite seq_split, map_app, zsum_app.
  rewrite (zsum_map_zero g (seq n (n' - n))); [lia|]. intros x Hx. apply in_seq in Hx. apply H. lia.
Qed.
Lemma sum_pad_cols (g : nat -> Z) : (forall j, (m <= j < m')%nat -> g j = 0) ->
  zsum (map g (seq 0 m')) = zsum (map g (seq 0 m)).
Proof.
  intros H. replace m' with (m + (m' - m))%nat by lia. rewrite seq_split, map_app, zsum_app.
  rewrite (zsum_map_zero g (seq m (m' - m))); [lia|]. intros x Hx. apply in_seq in Hx. apply H. lia.
Qed.

(* a flow that vanishes outside the n x m block has the same sums in both problems *)
Section Vanish.
Variable f : nat -> nat -> Z.
Hypothesis Hz : forall i j, (i < n')%nat -> (j < m')%nat -> (n <= i \/ m <= j)%nat -> f i j = 0.

Lemma rowsum_pad i : (i < n')%nat -> rowsum m' f i = if (i <? n)%nat then rowsum m f i else 0.
Proof.
  intros Hi. unfold rowsum, cols. destruct (i <? n)%nat eqn:E.
  - apply sum_pad_cols. intros j Hj. apply Hz; lia.
  - apply zsum_map_zero. intros j Hj. apply in_seq0 in Hj. apply Hz; lia.
Qed.
Lemma colsum_pad j : (j < m')%nat -> colsum n' f j = if (j <? m)%nat then colsum n f j else 0.
Proof.
  intros Hj. unfold colsum, rows. destruct (j <? m)%nat eqn:E.
  - apply sum_pad_rows. intros i Hi. apply Hz; lia.
  - apply zsum_map_zero. intros i Hi. apply in_seq0 in Hi. apply Hz; lia.
Qed.
Lemma moved_pad : moved n' m' f = moved n m f.
Proof.
  unfold moved, rows. rewrite <- (sum_pad_rows (rowsum m f)).
  - apply zsum_map_ext. intros i Hi. apply in_seq0 in Hi. rewrite rowsum_pad by auto.
    destruct (i <? n)%nat eqn:E; auto.
    symmetry. apply zsum_map_zero. intros j Hj. apply in_seq0 in Hj. apply Hz; lia.
  - intros i Hi. apply zsum_map_zero. intros j Hj. apply in_seq0 in Hj. apply Hz; lia.
Qed.
Lemma cost_pad : cost n' m' C' f = cost n m C f.
Proof.
  unfold cost, rows, cols.
  rewrite (sum_pad_rows (fun i => zsum (map (fun j => C' i j * f i j) (seq 0 m')))).
  - apply zsum_map_ext. intros i Hi. apply in_seq0 in Hi.
    rewrite (sum_pad_cols (fun j => C' i j * f i j)).
    + apply zsum_map_ext. intros j Hj. apply in_seq0 in Hj. rewrite HC; auto.
    + intros j Hj. rewrite Hz; lia.
  - intros i Hi. apply zsum_map_zero. intros j Hj. apply in_seq0 in Hj. rewrite Hz; lia.
Qed.
End Vanish.

Lemma feasible_pad_vanish f : feasible n' m' P' Q' T f ->
  forall i j, (i < n')%nat -> (j < m')%nat -> (n <= i \/ m <= j)%nat -> f i j = 0.
Proof.
  intros [Hpos [Hr [Hc _]]] i j Hi Hj Hout.
  assert (Ii : In i (rows n')) by (apply in_seq0; auto).
  assert (Ij : In j (cols m')) by (apply in_seq0; auto).
  pose proof (Hpos i j Ii Ij) as Hp.
  destruct Hout as [Ho|Ho].
  - specialize (Hr i Ii). rewrite HP0 in Hr by lia.
    assert (f i j <= rowsum m' f i).
    { unfold rowsum. apply (zsum_map_term_le (fun j => f i j)); auto. }
    lia.
  - specialize (Hc j Ij). rewrite HQ0 in Hc by lia.
    assert (f i j <= colsum n' f j).
    { unfold colsum. apply (zsum_map_term_le (fun i => f i j)); auto. }
    lia.
Qed.

Lemma big_to_small g : feasible n' m' P' Q' T g ->
  feasible n m P Q T g /\ cost n m C g = cost n' m' C' g.
Proof.
  intros Hg. pose proof (feasible_pad_vanish g Hg) as Hz.
  destruct Hg as [Hpos [Hr [Hc Ht]]].
  split; [|symmetry; apply cost_pad; auto].
  split; [|split; [|split]].
  - intros i j Hi Hj. apply in_seq0 in Hi. apply in_seq0 in Hj. apply Hpos; apply in_seq0; lia.
  - intros i Hi. apply in_seq0 in Hi.
    assert (Ii : In i (rows n')) by (apply in_seq0; lia). specialize (Hr i Ii).
    rewrite rowsum_pad in Hr by (auto; lia).
    assert (E : (i <? n)%nat = true) by (apply Nat.ltb_lt; auto). rewrite E in Hr. rewrite HP in Hr; auto.
  - intros j Hj. apply in_seq0 in Hj.
    assert (Ij : In j (cols m')) by (apply in_seq0; lia). specialize (Hc j Ij).
    rewrite colsum_pad in Hc by (auto; lia).
    assert (E : (j <? m)%nat = true) by (apply Nat.ltb_lt; auto). rewrite E in Hc. rewrite HQ in Hc; auto.
  - rewrite <- Ht. symmetry. apply moved_pad; auto.
Qed.

Lemma restrict_vanish f i j : (n <= i \/ m <= j)%nat -> restrict f i j = 0.
Proof.
  intros H. unfold restrict. destruct (i <? n)%nat eqn:E1; destruct (j <? m)%nat eqn:E2; cbn [andb]; auto.
  apply Nat.ltb_lt in E1. apply Nat.ltb_lt in E2. lia.
Qed.
Lemma restrict_in f i j : (i < n)%nat -> (j < m)%nat -> restrict f i j = f i j.
Proof.
  intros Hi Hj. unfold restrict.
  assert (E1 : (i <? n)%nat = true) by (apply Nat.ltb_lt; auto).
  assert (E2 : (j <? m)%nat = true) by (apply Nat.ltb_lt; auto). rewrite E1, E2. reflexivity.
Qed.
Lemma rowsum_restrict f i : (i < n)%nat -> rowsum m (restrict f) i = rowsum m f i.
Proof. intros Hi. unfold rowsum. apply zsum_map_ext. intros j Hj. apply in_seq0 in Hj. apply restrict_in; auto. Qed.
Lemma colsum_restrict f j : (j < m)%nat -> colsum n (restrict f) j = colsum n f j.
Proof. intros Hj. unfold colsum. apply zsum_map_ext. intros i Hi. apply in_seq0 in Hi. apply restrict_in; auto. Qed.

Lemma small_to_big f : feasible n m P Q T f ->
  feasible n' m' P' Q' T (restrict f) /\ cost n' m' C' (restrict f) = cost n m C f.
Proof.
  intros [Hpos [Hr [Hc Ht]]].
  assert (Hz : forall i j, (i < n')%nat -> (j < m')%nat -> (n <= i \/ m <= j)%nat -> restrict f i j = 0)
    by (intros; apply restrict_vanish; auto).
  split.
  - split; [|split; [|split]].
    + intros i j Hi Hj. unfold restrict.
      destruct (i <? n)%nat eqn:E1; destruct (j <? m)%nat eqn:E2; cbn [andb]; try lia.
      apply Nat.ltb_lt in E1. apply Nat.ltb_lt in E2. apply Hpos; apply in_seq0; auto.
    + intros i Hi. apply in_seq0 in Hi. rewrite rowsum_pad by auto.
      destruct (i <? n)%nat eqn:E.
      * apply Nat.ltb_lt in E. rewrite rowsum_restrict, HP by auto. apply Hr. apply in_seq0; auto.
      * apply Nat.ltb_ge in E. rewrite HP0 by lia. lia.
    + intros j Hj. apply in_seq0 in Hj. rewrite colsum_pad by auto.
      destruct (j <? m)%nat eqn:E.
      * apply Nat.ltb_lt in E. rewrite colsum_restrict, HQ by auto. apply Hc. apply in_seq0; auto.
      * apply Nat.ltb_ge in E. rewrite HQ0 by lia. lia.
    + rewrite moved_pad by auto. rewrite <- Ht. unfold moved. apply zsum_map_ext.
      intros i Hi. apply in_seq0 in Hi. apply rowsum_restrict; auto.
  - rewrite cost_pad by auto. unfold cost. apply zsum_map_ext. intros i Hi. apply in_seq0 in Hi.
    apply zsum_map_ext. intros j Hj. apply in_seq0 in Hj. rewrite restrict_in; auto.
Qed.

(* the optimum is unchanged by appending zero-mass bins (whatever ground distances they get) *)
Theorem padding_opt d : is_opt n m P Q C T d <-> is_opt n' m' P' Q' C' T d.
Proof.
  split; intros [[f [Hf Ef]] Hl]; split.
  - exists (restrict f). destruct (small_to_big f Hf) as [A B]. split; auto. lia.
  - intros g Hg. destruct (big_to_small g Hg) as [A B]. rewrite <- B. apply Hl; auto.
  - exists f. destruct (big_to_small f Hf) as [A B]. split; auto. lia.
  - intros g Hg. destruct (small_to_big g Hg) as [A B]. rewrite <- B. apply Hl; auto.
Qed.
End Padding.

(* list level: histograms of different lengths behave as if zero-padded; the entries the wrapper
   puts into the added rows/columns of the ground distance do not matter *)
Lemma nz_app_l l1 l2 i : (i < length l1)%nat -> nz (l1 ++ l2) i = nz l1 i.
Proof. intros H. unfold nz. apply app_nth1; auto. Qed.
Lemma nz_app_zeros l k i : (length l <= i)%nat -> nz (l ++ repeat 0 k) i = 0.
Proof.
  intros H. unfold nz. rewrite app_nth2 by lia.
  destruct (Nat.lt_ge_cases (i - length l) k) as [L|L].
  - apply nth_repeat.
  - apply nth_overflow. rewrite repeat_length. lia.
Qed.

Theorem padding_invariant P Q C C' pen d a b :
  (forall i j, (i < length P)%nat -> (j < length Q)%nat -> mz C' i j = mz C i j) ->
  (emd_spec P Q C pen d <-> emd_spec (P ++ repeat 0 a) (Q ++ repeat 0 b) C' pen d).
Proof.
  intros HC. unfold emd_spec, emd_T, emd_extra.
  rewrite !zsum_app, !zsum_repeat0, !Z.add_0_r, !app_length, !repeat_length.
  assert (X : forall d0, is_opt (length P) (length Q) (nz P) (nz Q) (mz C) (Z.min (zsum P) (zsum Q)) d0 <->
                         is_opt (length P + a) (length Q + b) (nz (P ++ repeat 0 a)) (nz (Q ++ repeat 0 b)) (mz C')
                                (Z.min (zsum P) (zsum Q)) d0).
  { intros d0. apply padding_opt; try lia.
    - intros i Hi. apply nz_app_l; auto.
    - intros i Hi. apply nz_app_zeros; lia.
    - intros j Hj. apply nz_app_l; auto.
    - intros j Hj. apply nz_app_zeros; lia.
    - exact HC. }
  split; intros [d0 [H E]]; exists d0; split; auto; apply X; auto.
Qed.
