(* C10 — what the heap of the line-level model CONTAINS: the heap operations permute slots, so the
   set of (node, key) entries changes only as intended (decrease_key rewrites one node's key,
   remove_first drops exactly the root entry), and the position table is untouched at nodes that
   are not in the heap.  Basis of the Dijkstra invariant (Proofs/EmdDijkstra.v). *)
From Coq Require Import ZArith List Bool Lia ZifyBool.
From Centro Require Import Base.Sx Base.EmdBase Model.Emd Model.EmdMcf
  Proofs.EmdHeap Proofs.EmdHeapPos Proofs.EmdHeapOrd.
Import ListNotations.
Open Scope Z_scope.

Definition slot (h : heap) (p : nat) : option qent := oget (fst h) p.
Definition has (h : heap) (v : nat) (k : Z) : Prop := exists p, slot h p = Some (v, k).
Definition is_entry (h : heap) (w : nat) : Prop := exists p en, slot h p = Some en /\ fst en = w.
Definition tbl (h : heap) (w : nat) : option nat := oget (snd h) w.

Lemma pos_ok_unique h p1 p2 e1 e2 : pos_ok h -> slot h p1 = Some e1 -> slot h p2 = Some e2 -> fst e1 = fst e2 -> p1 = p2.
Proof.
  intros OK H1 H2 E. pose proof (OK _ _ H1) as A. pose proof (OK _ _ H2) as B. rewrite E in A. rewrite A in B.
  injection B. auto.
Qed.

(* ---------------------------------------------------------------- swap, slot by slot *)
Lemma swap_heap_slots h i j h' : swap_heap h i j = Some h' ->
  slot h' i = slot h j /\ slot h' j = slot h i /\ (forall p, p <> i -> p <> j -> slot h' p = slot h p) /\
  (forall w, (forall en, slot h i = Some en -> fst en <> w) -> (forall en, slot h j = Some en -> fst en <> w) ->
             tbl h' w = tbl h w).
Proof.
  destruct h as [Q n2q]. unfold swap_heap, slot, tbl. cbn [fst snd].
  destruct (oget Q i) as [qi|] eqn:Ei; [|discriminate]. cbn [bind].
  destruct (oget Q j) as [qj|] eqn:Ej; [|discriminate]. cbn [bind].
  destruct (oset Q i qj) as [Q1|] eqn:E1; [|discriminate]. cbn [bind].
  destruct (oset Q1 j qi) as [Q2|] eqn:E2; [|discriminate]. cbn [bind].
  destruct (oset n2q (fst qi) j) as [n1|] eqn:E3; [|discriminate]. cbn [bind].
  destruct (oset n1 (fst qj) i) as [n2|] eqn:E4; [|discriminate]. cbn [bind].
  intros H. injection H as <-. cbn [fst snd].
  split; [|split; [|split]].
  - destruct (Nat.eq_dec i j) as [->|N].
    + rewrite (oget_oset_eq _ _ _ _ E2). congruence.
    + rewrite (oget_oset_neq _ _ _ _ _ E2) by auto. apply (oget_oset_eq _ _ _ _ E1).
  - apply (oget_oset_eq _ _ _ _ E2).
  - intros p Ni Nj. rewrite (oget_oset_neq _ _ _ _ _ E2) by auto. apply (oget_oset_neq _ _ _ _ _ E1). auto.
  - intros w Wi Wj. specialize (Wi qi eq_refl). specialize (Wj qj eq_refl).
    rewrite (oget_oset_neq _ _ _ _ _ E4) by auto. apply (oget_oset_neq _ _ _ _ _ E3). auto.
Qed.

Lemma swap_heap_entries h i j h' : swap_heap h i j = Some h' ->
  forall en, (exists p, slot h' p = Some en) <-> (exists p, slot h p = Some en).
Proof.
  intros S. destruct (swap_heap_slots _ _ _ _ S) as [A [B [C _]]]. intros en. split; intros [p Hp].
  - destruct (Nat.eq_dec p i) as [->|Ni]; [exists j; congruence|].
    destruct (Nat.eq_dec p j) as [->|Nj]; [exists i; congruence|]. exists p. rewrite <- C; auto.
  - destruct (Nat.eq_dec p j) as [->|Nj]; [exists i; congruence|].
    destruct (Nat.eq_dec p i) as [->|Ni]; [exists j; congruence|]. exists p. rewrite C; auto.
Qed.

(* a heap operation that only permutes slots *)
Definition perm_of (h h' : heap) : Prop :=
  (forall en, (exists p, slot h' p = Some en) <-> (exists p, slot h p = Some en)) /\
  (forall w, ~ is_entry h w -> tbl h' w = tbl h w).

Lemma perm_refl h : perm_of h h.
Proof. split; [intros; tauto|auto]. Qed.
Lemma perm_trans h1 h2 h3 : perm_of h1 h2 -> perm_of h2 h3 -> perm_of h1 h3.
Proof.
  intros [A1 B1] [A2 B2]. split.
  - intros en. rewrite A2. apply A1.
  - intros w Nw. rewrite B2, B1; auto. intros [p [en [Hp E]]]. apply Nw.
    destruct (proj1 (A1 en) (ex_intro _ p Hp)) as [p' Hp']. exists p', en. auto.
Qed.
Lemma swap_perm h i j h' : swap_heap h i j = Some h' -> perm_of h h'.
Proof.
  intros S. split; [apply swap_heap_entries with i j; auto|].
  intros w Nw. destruct (swap_heap_slots _ _ _ _ S) as [_ [_ [_ D]]]. apply D.
  - intros en He E. apply Nw. exists i, en. auto.
  - intros en He E. apply Nw. exists j, en. auto.
Qed.

Lemma sift_up_perm : forall fuel h i h', sift_up fuel h i = Some h' -> perm_of h h'.
Proof.
  induction fuel as [|f IH]; intros h i h'; cbn [sift_up].
  - intros H. injection H as <-. apply perm_refl.
  - destruct (i =? 0)%nat; [intros H; injection H as <-; apply perm_refl|].
    destruct (oget (fst h) (PARENT i)) as [qp|]; [|discriminate]. cbn [bind].
    destruct (oget (fst h) i) as [qi|]; [|discriminate]. cbn [bind].
    destruct (snd qi <? snd qp); [|intros H; injection H as <-; apply perm_refl].
    destruct (swap_heap h i (PARENT i)) as [h1|] eqn:E; [|discriminate]. cbn [bind].
    intros H. eapply perm_trans; [eapply swap_perm; eauto|eapply IH; eauto].
Qed.

Lemma heapify_perm : forall fuel h i h', heapify fuel h i = Some h' -> perm_of h h'.
Proof.
  induction fuel as [|f IH]; intros h i h'; cbn [heapify].
  - intros H. injection H as <-. apply perm_refl.
  - cbv zeta.
    destruct (if (LEFT i <? length (fst h))%nat
              then ql <- oget (fst h) (LEFT i);; qi <- oget (fst h) i;; Some (if snd ql <? snd qi then LEFT i else i)
              else Some i) as [s1|]; [|discriminate]. cbn [bind].
    destruct (if (RIGHT i <? length (fst h))%nat
              then qr <- oget (fst h) (RIGHT i);; qs <- oget (fst h) s1;; Some (if snd qr <? snd qs then RIGHT i else s1)
              else Some s1) as [s2|]; [|discriminate]. cbn [bind].
    destruct (s2 =? i)%nat; [intros H; injection H as <-; apply perm_refl|].
    destruct (swap_heap h i s2) as [h1|] eqn:E; [|discriminate]. cbn [bind].
    intros H. eapply perm_trans; [eapply swap_perm; eauto|eapply IH; eauto].
Qed.

Lemma perm_has h h' v k : perm_of h h' -> (has h' v k <-> has h v k).
Proof. intros [A _]. unfold has. apply A. Qed.
Lemma perm_entry h h' w : perm_of h h' -> (is_entry h' w <-> is_entry h w).
Proof.
  intros [A _]. unfold is_entry. split; intros [p [en [Hp E]]].
  - destruct (proj1 (A en) (ex_intro _ p Hp)) as [p' Hp']. exists p', en. auto.
  - destruct (proj2 (A en) (ex_intro _ p Hp)) as [p' Hp']. exists p', en. auto.
Qed.

(* ---------------------------------------------------------------- decrease_key *)
Theorem heap_decrease_key_mem h v alt h' pos kold : pos_ok h ->
  tbl h v = Some pos -> slot h pos = Some (v, kold) -> heap_decrease_key h v alt = Some h' ->
  has h' v alt /\ (forall k, has h' v k -> k = alt) /\
  (forall w k, w <> v -> (has h' w k <-> has h w k)) /\
  (forall w, ~ is_entry h w -> tbl h' w = tbl h w) /\
  (forall w, is_entry h' w <-> is_entry h w).
Proof.
  intros OK Ev Es. unfold heap_decrease_key. unfold tbl in Ev. rewrite Ev. cbn [bind].
  unfold slot in Es. rewrite Es. cbn [bind fst].
  destruct (oset (fst h) pos (v, alt)) as [Q1|] eqn:E1; [|discriminate]. cbn [bind].
  intros H. pose proof (sift_up_perm _ _ _ _ H) as P.
  set (h1 := (Q1, snd h)) in *.
  assert (S1 : slot h1 pos = Some (v, alt)) by (unfold slot, h1; cbn [fst]; apply (oget_oset_eq _ _ _ _ E1)).
  assert (S2 : forall p, p <> pos -> slot h1 p = slot h p)
    by (intros p N; unfold slot, h1; cbn [fst]; apply (oget_oset_neq _ _ _ _ _ E1); auto).
  assert (EN : forall w, is_entry h1 w <-> is_entry h w).
  { intros w. split; intros [p [en [Hp E]]].
    - destruct (Nat.eq_dec p pos) as [->|N].
      + rewrite S1 in Hp. injection Hp as <-. exists pos, (v, kold). auto.
      + rewrite S2 in Hp by auto. exists p, en. auto.
    - destruct (Nat.eq_dec p pos) as [->|N].
      + unfold slot in Hp. rewrite Es in Hp. injection Hp as <-. exists pos, (v, alt). auto.
      + exists p, en. rewrite S2; auto. }
  split; [apply (perm_has _ _ _ _ P); exists pos; auto|].
  split.
  { intros k Hk. apply (perm_has _ _ _ _ P) in Hk. destruct Hk as [p Hp].
    destruct (Nat.eq_dec p pos) as [->|N]; [rewrite S1 in Hp; congruence|].
    rewrite S2 in Hp by auto. exfalso. apply N.
    apply (pos_ok_unique h p pos (v, k) (v, kold)); auto. }
  split.
  { intros w k Nw. rewrite (perm_has _ _ _ _ P). split; intros [p Hp].
    - destruct (Nat.eq_dec p pos) as [->|N]; [rewrite S1 in Hp; congruence|]. exists p. rewrite <- S2; auto.
    - destruct (Nat.eq_dec p pos) as [->|N]; [unfold slot in Hp; rewrite Es in Hp; congruence|]. exists p. rewrite S2; auto. }
  split.
  { intros w Nw. destruct P as [_ B]. rewrite B; [reflexivity|]. intros X. apply Nw. apply EN. auto. }
  intros w. rewrite (perm_entry _ _ _ P). apply EN.
Qed.

(* ---------------------------------------------------------------- remove_first *)
Lemma slot_lt h p en : slot h p = Some en -> (p < hsize h)%nat.
Proof. intros H. unfold slot in H. apply oget_lt in H. exact H. Qed.

Theorem heap_remove_first_mem h u du h' : pos_ok h -> slot h 0 = Some (u, du) ->
  heap_remove_first h = Some h' ->
  (forall w k, has h' w k <-> (has h w k /\ w <> u)) /\
  tbl h' u = Some (hsize h - 1)%nat /\
  (forall w, ~ is_entry h w -> tbl h' w = tbl h w).
Proof.
  intros OK S0. unfold heap_remove_first. fold (hsize h).
  destruct (swap_heap h 0 (hsize h - 1)) as [h1|] eqn:ES; [|discriminate]. cbn [bind].
  intros H. pose proof (heapify_perm _ _ _ _ H) as P.
  set (h2 := (removelast (fst h1), snd h1)) in *.
  destruct (swap_heap_slots _ _ _ _ ES) as [A [B [C D]]].
  pose proof (swap_heap_pos _ _ _ _ OK ES) as OK1.
  pose proof (swap_perm _ _ _ _ ES) as P1.
  assert (SZ1 : hsize h1 = hsize h) by (destruct (swap_heap_keys _ _ _ _ ES); auto).
  assert (Hn : (0 < hsize h)%nat) by (apply (slot_lt h 0 _ S0)).
  assert (LAST : slot h1 (hsize h - 1) = Some (u, du)) by (rewrite B; auto).
  assert (S2 : forall p, (p < hsize h - 1)%nat -> slot h2 p = slot h1 p).
  { intros p Hp. unfold slot, h2. cbn [fst]. apply oget_removelast_lt. unfold hsize in *. lia. }
  assert (S2' : forall p en, slot h2 p = Some en -> (p < hsize h - 1)%nat /\ slot h1 p = Some en).
  { intros p en Hp. assert (L : (p < hsize h2)%nat) by (eapply slot_lt; eauto).
    assert (hsize h2 = (hsize h - 1)%nat) by (unfold h2, hsize in *; cbn [fst]; rewrite removelast_length; lia).
    split; [lia|]. rewrite <- S2 by lia. auto. }
  split.
  { intros w k. rewrite (perm_has _ _ _ _ P). split.
    - intros [p Hp]. destruct (S2' _ _ Hp) as [Lp H1]. split.
      + apply (perm_has _ _ _ _ P1). exists p. auto.
      + intros ->. assert (p = (hsize h - 1)%nat) by (apply (pos_ok_unique h1 p _ (u, k) (u, du)); auto). lia.
    - intros [Hw Nw]. apply (perm_has _ _ _ _ P1) in Hw. destruct Hw as [p Hp].
      assert (Lp : (p < hsize h1)%nat) by (eapply slot_lt; eauto).
      destruct (Nat.eq_dec p (hsize h - 1)) as [->|N]; [rewrite LAST in Hp; congruence|].
      exists p. rewrite S2 by lia. auto. }
  assert (NU : ~ is_entry h2 u).
  { intros [p [en [Hp E]]]. destruct (S2' _ _ Hp) as [Lp H1].
    assert (p = (hsize h - 1)%nat) by (apply (pos_ok_unique h1 p _ en (u, du)); auto). lia. }
  split.
  { destruct P as [_ PB]. rewrite PB by auto. unfold tbl, h2. cbn [snd]. apply (OK1 _ _ LAST). }
  intros w Nw. destruct P as [PA PB]. rewrite PB.
  - unfold tbl, h2. cbn [snd]. destruct P1 as [_ P1B]. apply P1B. auto.
  - intros [p [en [Hp E]]]. destruct (S2' _ _ Hp) as [Lp H1]. apply Nw. apply (perm_entry _ _ _ P1). exists p, en. auto.
Qed.
