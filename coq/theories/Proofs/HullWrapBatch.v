(* C02 / F22 — batch level: inside the bound (coordinates in [0, M], M*M < 2^31) the whole
   convex_hull_ijv AS WRITTEN in C int (wrapped turn test, wrapped sentinel, and the one-row
   overwrite that an overflowing label would cause in the shared buffer) equals the exact model
   Model/Hull.v.  The walk invariant: the remaining rows are sorted by (v, j), lie in the box, and
   out <= pix; the overwrite branch is dead because of HullNoOverflow. *)
From Coq Require Import ZArith List Bool Lia ZifyBool Sorted Permutation.
From Centro Require Import Base.Sx Model.Hull Model.HullW Spec.HullSpec Proofs.HullEmit Proofs.HullCorrect
  Proofs.HullPoly Proofs.HullBatch Proofs.HullPerm Proofs.HullTop Proofs.HullGuard Proofs.HullWrap.
Import ListNotations.
Open Scope Z_scope.

Lemma skip_lt_suffix l rest : exists pre, rest = pre ++ skip_lt l rest.
Proof.
  induction rest as [|r t IH]; cbn [skip_lt]; [exists []; reflexivity|].
  destruct (r_v r <? l); [|exists []; reflexivity].
  destruct IH as [pre E]. exists (r :: pre). cbn [app]. f_equal. exact E.
Qed.

Lemma span_eq_app l rest :
  rest = fst (span_eq l rest) ++ snd (span_eq l rest) /\ (forall x, In x (fst (span_eq l rest)) -> r_v x = l).
Proof.
  induction rest as [|r t IH]; cbn [span_eq]; [split; [reflexivity | intros x []]|].
  destruct (r_v r =? l) eqn:E.
  - destruct IH as [A B]. destruct (span_eq l t) as [a b]. cbn [fst snd] in *. split.
    + cbn [app]. f_equal. exact A.
    + intros x [Hx|Hx]; [subst x; lia | apply B; exact Hx].
  - cbn [fst snd]. split; [reflexivity | intros x []].
Qed.

Lemma SSorted_app_r {A} (R : A -> A -> Prop) (a b : list A) : StronglySorted R (a ++ b) -> StronglySorted R b.
Proof. induction a as [|x a IH]; cbn [app]; intros H; [exact H|]. inversion H; subst. apply IH. assumption. Qed.
Lemma SSorted_app_l {A} (R : A -> A -> Prop) (a b : list A) : StronglySorted R (a ++ b) -> StronglySorted R a.
Proof.
  induction a as [|x a IH]; cbn [app]; intros H; [constructor|]. inversion H as [|y l HS HF]; subst.
  constructor; [apply IH; exact HS|]. rewrite Forall_forall in *. intros z Hz. apply HF. apply in_or_app. left. exact Hz.
Qed.

Lemma sel_all l blk : (forall x, In x blk -> r_v x = l) -> sel l blk = blk.
Proof.
  induction blk as [|r t IH]; intros H; cbn [sel filter]; [reflexivity|].
  rewrite (proj2 (Z.eqb_eq (r_v r) l)) by (apply H; left; reflexivity).
  f_equal. apply IH. intros x Hx. apply H. right. exact Hx.
Qed.

Section WalkEq.
  Variable cx : pt -> pt -> pt -> bool.
  Variables (M m ml : Z).
  Hypothesis Hcx : forall a b c, inbox M a -> inbox M b -> inbox M c -> cx a b c = CONVEX a b c.

  Definition okrow (r : row) : Prop := 0 <= r_i r <= m /\ inbox M (r_pt r).

  Lemma blk_label_ok blk l : StronglySorted vj_le blk -> (forall x, In x blk -> r_v x = l) ->
    (forall x, In x blk -> okrow x) -> label_ok m (map r_pt blk).
  Proof.
    intros HS Hv Hok. split.
    - intros s Hs. apply in_map_iff in Hs. destruct Hs as [x [Ex Hx]]. subst s. exact (proj1 (Hok x Hx)).
    - rewrite <- (sel_all l blk Hv). apply sel_cols_sorted. exact HS.
  Qed.

  Lemma walk_g_eq : forall reqs rest pix out,
    StronglySorted vj_le rest -> (forall x, In x rest -> okrow x) -> out <= pix ->
    walk_g cx m ml reqs rest pix out = walk m ml reqs rest pix out.
  Proof.
    induction reqs as [|l reqs IH]; intros rest pix out HS Hok Hop; [reflexivity|].
    cbn [walk_g walk].
    set (rest1 := if l <=? ml then skip_lt l rest else rest).
    assert (P1 : StronglySorted vj_le rest1 /\ (forall x, In x rest1 -> okrow x) /\ zlen rest1 <= zlen rest).
    { unfold rest1. destruct (l <=? ml); [|split; [exact HS|split; [exact Hok|lia]]].
      destruct (skip_lt_suffix l rest) as [pre E]. pose proof (skip_lt_len l rest) as HL. split; [|split; [|exact HL]].
      - apply (SSorted_app_r _ pre). rewrite <- E. exact HS.
      - intros x Hx. apply Hok. rewrite E. apply in_or_app. right. exact Hx. }
    destruct P1 as [S1 [O1 L1]].
    cbv zeta.
    set (pix1 := pix + (zlen rest - zlen rest1)). assert (Hp1 : out <= pix1) by (unfold pix1; lia).
    clearbody pix1. clearbody rest1.
    destruct rest1 as [|r t].
    - f_equal. apply IH; assumption.
    - destruct (negb (l =? r_v r)); [f_equal; apply IH; assumption|].
      destruct (span_eq_app l (r :: t)) as [A B].
      destruct (span_eq l (r :: t)) as [blk rest2]. cbn [fst snd] in A, B.
      assert (Sb : StronglySorted vj_le blk) by (apply (SSorted_app_l _ blk rest2); rewrite <- A; exact S1).
      assert (S2 : StronglySorted vj_le rest2) by (apply (SSorted_app_r _ blk rest2); rewrite <- A; exact S1).
      assert (Ob : forall x, In x blk -> okrow x) by (intros x Hx; apply O1; rewrite A; apply in_or_app; left; exact Hx).
      assert (O2 : forall x, In x rest2 -> okrow x) by (intros x Hx; apply O1; rewrite A; apply in_or_app; right; exact Hx).
      assert (Lok : label_ok m (map r_pt blk)) by (apply (blk_label_ok blk l); assumption).
      assert (Eh : hull_label_g cx m (map r_pt blk) (pix1 - out) = hull_label m (map r_pt blk) (pix1 - out)).
      { apply (hull_label_g_eq cx (inbox M) Hcx).
        - intros x Hx. apply in_map_iff in Hx. destruct Hx as [y [Ey Hy]]. subst x. exact (proj2 (Ob y Hy)).
        - intros q Hq. exact (proj1 (proj1 Lok q Hq)). }
      rewrite Eh.
      pose proof (hull_no_overflow m (map r_pt blk) (pix1 - out) Lok ltac:(lia)) as N.
      assert (Elen : zlen (map r_pt blk) = zlen blk) by (unfold zlen; rewrite map_length; reflexivity).
      rewrite Elen in N.
      assert (Ov : (pix1 + zlen blk - out <? zlen (hull_label m (map r_pt blk) (pix1 - out))) = false) by lia.
      rewrite Ov. f_equal. apply IH; [exact S2 | exact O2 | lia].
  Qed.
End WalkEq.

Lemma vj_le_perm_sorted ijv : StronglySorted vj_le (lexsort ijv).
Proof. apply lexsort_sorted_vj. Qed.

(* the whole batch kernel as written = the exact model, inside the bound *)
Theorem convex_hull_ijv_w_exact : forall M ijv indexes, M * M < 2147483648 ->
  (forall x, In x ijv -> inbox M (r_pt x)) ->
  convex_hull_ijv_w ijv indexes = convex_hull_ijv ijv indexes.
Proof.
  intros M ijv indexes HM Hbox. unfold convex_hull_ijv_w, convex_hull_ijv_g, convex_hull_ijv. cbv zeta.
  assert (Hs : forall x, In x (lexsort ijv) -> inbox M (r_pt x)).
  { intros x Hx. apply Hbox. eapply Permutation_in; [apply lexsort_perm | exact Hx]. }
  set (mi := zmax_list (map r_i (lexsort ijv))).
  assert (Hmi : 0 <= mi <= Z.max M 0).
  { unfold mi, zmax_list. clear -Hs.
    assert (G : forall l a, 0 <= a <= Z.max M 0 -> (forall x, In x l -> 0 <= x <= M) -> 0 <= fold_left Z.max l a <= Z.max M 0).
    { induction l as [|y l IH]; intros a Ha Hl; cbn [fold_left]; [exact Ha|]. apply IH.
      - specialize (Hl y ltac:(left; reflexivity)). lia.
      - intros x Hx. apply Hl. right. exact Hx. }
    apply G; [lia|]. intros x Hx. apply in_map_iff in Hx. destruct Hx as [r [Er Hr]]. subst x.
    exact (proj1 (Hs r Hr)). }
  assert (HMb : Z.max M 0 < 2147483647) by nia.
  assert (Esent : wrap32 (mi + 1) - 1 = mi) by (rewrite wrap32_id; lia).
  rewrite Esent.
  rewrite (walk_g_eq CONVEXw M mi (zmax_list (map r_v (lexsort ijv)))).
  - reflexivity.
  - intros a b c Ha Hb Hc. apply (CONVEXw_box M); assumption.
  - apply lexsort_sorted_vj.
  - intros x Hx. split; [|apply Hs; exact Hx]. split.
    + exact (proj1 (proj1 (Hs x Hx))).
    + apply zmax_list_ge. apply in_map. exact Hx.
  - lia.
Qed.

(* hence the batch kernel as written meets the full batch specification inside the bound, with no
   per-run premise *)
Theorem convex_hull_ijv_w_correct : forall M ijv indexes, M * M < 2147483648 ->
  (forall x, In x ijv -> inbox M (r_pt x)) -> NoDup indexes ->
  let res := fst (convex_hull_ijv_w ijv indexes) in
  BatchSpec ijv indexes (rows_of res) (counts_of res).
Proof.
  intros M ijv indexes HM Hbox ND. rewrite (convex_hull_ijv_w_exact M) by assumption.
  apply convex_hull_ijv_correct; [exact ND|]. intros x Hx. exact (proj1 (proj1 (Hbox x Hx))).
Qed.

(* the two correspondence entry points (wire format in, wire format out) agree on every request whose
   rows lie in the box: the as-written entry is the one compared with the compiled kernel, the exact
   entry is the one the C02 theorems speak about *)
Theorem entry_hull_ijv_w_exact : forall M x, M * M < 2147483648 ->
  (forall r, In r (as_rows (arg 0 x)) -> inbox M (r_pt r)) ->
  entry_hull_ijv_w x = entry_hull_ijv x.
Proof.
  intros M x HM Hbox. unfold entry_hull_ijv_w, entry_hull_ijv.
  destruct (as_rows (arg 0 x)) as [|r0 t] eqn:E; [reflexivity|].
  destruct (kernel_accepts (r0 :: t) (as_Zs (arg 1 x))); [|reflexivity].
  rewrite (convex_hull_ijv_w_exact M) by assumption. reflexivity.
Qed.

(* non-vacuity, and the as-written model really is a different function above the bound *)
Example convex_hull_ijv_w_exact_ex :
  let ijv := [((0,0),2);((1,1),1);((0,3),2);((2,0),1);((3,3),2)] in
  3 * 3 < 2147483648 /\ (forall x, In x ijv -> inbox 3 (r_pt x)) /\
  convex_hull_ijv_w ijv [2;7;1] = convex_hull_ijv ijv [2;7;1].
Proof.
  cbv zeta. split; [lia|]. split.
  - intros x H; cbn in H; repeat (destruct H as [H|H]; [subst x; unfold inbox; cbn; lia|]); contradiction.
  - vm_compute. reflexivity.
Qed.
