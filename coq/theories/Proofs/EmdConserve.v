(* C10 — flow conservation along the flagged run of the line-level solver, for the flow carried by
   the backward capacities: at every node  excess - inflow + outflow  stays what it was, where
   inflow(v) = sum of the capacities in r_cost_cap_backward[v] and outflow(v) = sum over all lists of
   the capacities of the entries pointing at v.  One hop of augment changes exactly one of the two
   entries it addresses when the pair is joined by exactly one arc. *)
From Coq Require Import ZArith List Bool Lia ZifyBool.
From Centro Require Import Base.Sx Base.EmdBase Model.Emd Model.EmdMcf
  Proofs.EmdDuality Proofs.EmdSsp Proofs.EmdDijkstra Proofs.EmdGhost Proofs.EmdAugment Proofs.EmdMetric.
Import ListNotations.
Open Scope Z_scope.

Definition capsum (l : list (nat * Z * Z)) : Z := zsum (map (fun en => snd en) l).
Definition capto (t : nat) (l : list (nat * Z * Z)) : Z :=
  zsum (map (fun en => if (fst (fst en) =? t)%nat then snd en else 0) l).
Definition has_to (l : list (nat * Z * Z)) (t : nat) : Z :=
  match find_bwd l t with Some _ => 1 | None => 0 end.

Lemma upd_first_bwd_sums l t dl :
  capsum (upd_first_bwd l t (fun c0 => c0 + dl)) = capsum l + dl * has_to l t /\
  forall w, capto w (upd_first_bwd l t (fun c0 => c0 + dl)) = capto w l + (if (w =? t)%nat then dl * has_to l t else 0).
Proof.
  unfold capsum, capto, has_to. induction l as [|en l [IH1 IH2]]; cbn [upd_first_bwd find_bwd map zsum].
  - split; [lia|]. intros w. destruct (w =? t)%nat; lia.
  - destruct (fst (fst en) =? t)%nat eqn:E.
    + cbn [map zsum fst snd]. split; [lia|]. intros w. apply Nat.eqb_eq in E.
      destruct (fst (fst en) =? w)%nat eqn:E2; destruct (w =? t)%nat eqn:Ew;
        rewrite ?Nat.eqb_eq, ?Nat.eqb_neq in *; try lia.
    + cbn [map zsum]. rewrite IH1. split; [lia|]. intros w. rewrite IH2. destruct (w =? t)%nat; lia.
Qed.

Section Conserve.
Variable nv : nat.

Definition inflow (rb : list (list (nat * Z * Z))) (v : nat) : Z := capsum (nth v rb []).
Definition outflow_c (rb : list (list (nat * Z * Z))) (v : nat) : Z :=
  zsum (map (fun u => capto v (nth u rb [])) (seq 0 nv)).
Definition bal (e : list Z) (rb : list (list (nat * Z * Z))) (v : nat) : Z := nz e v - inflow rb v + outflow_c rb v.

Lemma zsum_seq_upd (F : nat -> Z) (G : nat -> Z) i : (forall u, u <> i -> G u = F u) -> (i < nv)%nat ->
  zsum (map G (seq 0 nv)) = zsum (map F (seq 0 nv)) + (G i - F i).
Proof.
  intros H Hi.
  rewrite (zsum_map_ext G (fun u => F u + (G i - F i) * (if (u =? i)%nat then 1 else 0))).
  - rewrite zsum_map_add, zsum_map_scale. rewrite (zsum_ind_in i nv 0) by lia. lia.
  - intros u _. destruct (u =? i)%nat eqn:E; [apply Nat.eqb_eq in E; subst; lia|apply Nat.eqb_neq in E; rewrite H by auto; lia].
Qed.

(* effect of one capacity update on inflow / outflow *)
Lemma upd_rb_flows rb i t dl : length rb = nv -> (i < nv)%nat ->
  let rb' := upd rb i (fun l => upd_first_bwd l t (fun c0 => c0 + dl)) in
  let h := dl * has_to (nth i rb []) t in
  (forall v, inflow rb' v = inflow rb v + (if (v =? i)%nat then h else 0)) /\
  (forall v, outflow_c rb' v = outflow_c rb v + (if (v =? t)%nat then h else 0)).
Proof.
  intros L Hi. cbv zeta. destruct (upd_first_bwd_sums (nth i rb []) t dl) as [S1 S2].
  assert (N : forall u, nth u (upd rb i (fun l => upd_first_bwd l t (fun c0 => c0 + dl))) [] =
                        if (u =? i)%nat then upd_first_bwd (nth i rb []) t (fun c0 => c0 + dl) else nth u rb []).
  { intros u. rewrite (nth_upd_local _ []). rewrite (Nat.eqb_sym u i).
    assert (E : (i <? length rb)%nat = true) by (apply Nat.ltb_lt; lia). rewrite E, andb_true_r.
    destruct (i =? u)%nat eqn:E2; [apply Nat.eqb_eq in E2; subst; auto|auto]. }
  split.
  - intros v. unfold inflow. rewrite N. destruct (v =? i)%nat eqn:E; [apply Nat.eqb_eq in E; subst; rewrite S1; lia|lia].
  - intros v. unfold outflow_c.
    rewrite (zsum_seq_upd (fun u => capto v (nth u rb [])) _ i); auto.
    + rewrite N, Nat.eqb_refl, S2. destruct (v =? t)%nat; lia.
    + intros u Nu. rewrite N. assert (E : (u =? i)%nat = false) by (apply Nat.eqb_neq; auto). rewrite E. auto.
Qed.
End Conserve.

(* ---------------------------------------------------------------- exactly one of the two entries exists *)
Section OneEntry.
Variable nv : nat.
Variable c : list (list (nat * Z)).
Hypothesis LC : length c = nv.

Lemma has_to_spec l t : (has_to l t = 1 /\ exists en, In en (strip l) /\ fst en = t) \/
                        (has_to l t = 0 /\ forall en, In en (strip l) -> fst en <> t).
Proof.
  unfold has_to. induction l as [|en l IH]; cbn [find_bwd]; [right; split; auto; intros ? []|].
  destruct (fst (fst en) =? t)%nat eqn:E.
  - left. split; auto. exists (fst (fst en), snd (fst en)). split; [left; auto|apply Nat.eqb_eq in E; auto].
  - destruct IH as [[A [e0 [B C]]]|[A B]].
    + left. split; auto. exists e0. split; [right; auto|auto].
    + right. split; auto. intros e0 [<-|H]; [cbn [fst]; apply Nat.eqb_neq; auto|auto].
Qed.

Lemma mk_arcs_complete u t w : (u < length c)%nat -> In (t, w) (nth u c []) ->
  In {| a_from := u; a_to := t; a_cost := w; a_fp := 0; a_fm := 0 |} (mk_arcs c).
Proof.
  intros Hu Hin. unfold mk_arcs. apply in_concat.
  exists (map (fun tc : nat * Z => {| a_from := u; a_to := fst tc; a_cost := snd tc; a_fp := 0; a_fm := 0 |}) (nth u c [])).
  split.
  - apply in_map_iff. exists (u, nth u c []). split; auto.
    assert (E : (u, nth u c []) = nth u (combine (seq 0 (length c)) c) (O, [])).
    { rewrite combine_nth by (rewrite seq_length; auto). rewrite seq_nth by auto. reflexivity. }
    rewrite E. apply nth_In. rewrite combine_length, seq_length. lia.
  - apply in_map_iff. exists (t, w). auto.
Qed.

(* an entry of [v] pointing at t exists iff an entry of the forward list of t pointing at v exists *)
Lemma bwd_iff_fwd pi rf rb v t : ghost nv c pi rf rb -> (v < nv)%nat -> (t < nv)%nat ->
  ((exists en, In en (strip (nth v rb [])) /\ fst en = t) <-> (exists en, In en (nth t rf []) /\ fst en = v)).
Proof.
  intros [_ [_ [G1 G2]]] Hv Ht. rewrite G2, G1 by auto. split.
  - intros [en [Hin E]]. destruct (bwd_entry_arc c pi v en Hin) as [a [Ha [At [Af _]]]].
    pose proof (arc_fwd_entry c pi a Ha) as FE. rewrite <- Af, E in FE. eexists. split; [exact FE|]. cbn [fst]. auto.
  - intros [en [Hin E]]. unfold fwd_of in Hin. apply in_map_iff in Hin. destruct Hin as [[t0 w] [Eq Hin]].
    cbn [fst snd] in Eq. subst en. cbn [fst] in E. subst t0.
    pose proof (mk_arcs_complete t v w ltac:(lia) Hin) as Ha.
    exists (t, - w + pi v - pi t). split; auto. unfold bwd_of. apply in_flat_map.
    eexists. split; [exact Ha|]. cbn [a_to a_from a_cost]. rewrite Nat.eqb_refl. left. reflexivity.
Qed.

Theorem one_entry pi rf rb from to : ghost nv c pi rf rb -> (from < nv)%nat -> (to < nv)%nat ->
  pair_count rf from to = 1%nat ->
  has_to (nth to rb []) from + has_to (nth from rb []) to = 1.
Proof.
  intros G Hf Ht PC. unfold pair_count in PC.
  set (n1 := length (filter (fun en : nat * Z => (fst en =? to)%nat) (nth from rf []))) in *.
  set (n2 := length (filter (fun en : nat * Z => (fst en =? from)%nat) (nth to rf []))) in *.
  assert (F1 : (exists en, In en (nth from rf []) /\ fst en = to) <-> (1 <= n1)%nat).
  { unfold n1. split.
    - intros [en [Hin E]]. assert (X : In en (filter (fun en0 : nat * Z => (fst en0 =? to)%nat) (nth from rf []))) by (apply filter_In; split; auto; apply Nat.eqb_eq; auto).
      destruct (filter (fun en0 : nat * Z => (fst en0 =? to)%nat) (nth from rf [])); [destruct X|cbn [length]; lia].
    - intros L. destruct (filter (fun en0 : nat * Z => (fst en0 =? to)%nat) (nth from rf [])) as [|en r] eqn:E; [cbn [length] in L; lia|].
      assert (X : In en (filter (fun en0 : nat * Z => (fst en0 =? to)%nat) (nth from rf []))) by (rewrite E; left; auto).
      apply filter_In in X. destruct X as [X Y]. exists en. split; auto. apply Nat.eqb_eq; auto. }
  assert (F2 : (exists en, In en (nth to rf []) /\ fst en = from) <-> (1 <= n2)%nat).
  { unfold n2. split.
    - intros [en [Hin E]]. assert (X : In en (filter (fun en0 : nat * Z => (fst en0 =? from)%nat) (nth to rf []))) by (apply filter_In; split; auto; apply Nat.eqb_eq; auto).
      destruct (filter (fun en0 : nat * Z => (fst en0 =? from)%nat) (nth to rf [])); [destruct X|cbn [length]; lia].
    - intros L. destruct (filter (fun en0 : nat * Z => (fst en0 =? from)%nat) (nth to rf [])) as [|en r] eqn:E; [cbn [length] in L; lia|].
      assert (X : In en (filter (fun en0 : nat * Z => (fst en0 =? from)%nat) (nth to rf []))) by (rewrite E; left; auto).
      apply filter_In in X. destruct X as [X Y]. exists en. split; auto. apply Nat.eqb_eq; auto. }
  pose proof (bwd_iff_fwd pi rf rb to from G Ht Hf) as B1.
  pose proof (bwd_iff_fwd pi rf rb from to G Hf Ht) as B2.
  destruct (has_to_spec (nth to rb []) from) as [[A1 E1]|[A1 E1]];
  destruct (has_to_spec (nth from rb []) to) as [[A2 E2]|[A2 E2]]; rewrite A1, A2.
  - apply B1 in E1. apply B2 in E2. apply F1 in E1. apply F2 in E2. lia.
  - reflexivity.
  - reflexivity.
  - exfalso. destruct (Nat.eq_dec n1 0) as [Z1|Z1].
    + assert (X : (1 <= n2)%nat) by lia. apply F2 in X. apply B2 in X. destruct X as [en [Hin E]]. apply (E2 en Hin E).
    + assert (X : (1 <= n1)%nat) by lia. apply F1 in X. apply B1 in X. destruct X as [en [Hin E]]. apply (E1 en Hin E).
Qed.
End OneEntry.

(* ---------------------------------------------------------------- one hop conserves the balance *)
Theorem hop_conserves nv c pi rf rb e from to dl : length c = nv ->
  ghost nv c pi rf rb -> length e = nv -> (from < nv)%nat -> (to < nv)%nat -> from <> to ->
  pair_count rf from to = 1%nat ->
  let rb1 := upd rb to (fun l => upd_first_bwd l from (fun c0 => c0 + dl)) in
  let rb2 := upd rb1 from (fun l => upd_first_bwd l to (fun c0 => c0 - dl)) in
  let e' := upd (upd e to (fun x => x + dl)) from (fun x => x - dl) in
  forall v, bal nv e' rb2 v = bal nv e rb v.
Proof.
  intros LC G LE Hf Ht NE PC. cbv zeta. intros v.
  pose proof G as [_ [LRB _]].
  destruct (upd_rb_flows nv rb to from dl LRB Ht) as [I1 O1].
  set (rb1 := upd rb to (fun l => upd_first_bwd l from (fun c0 => c0 + dl))) in *.
  assert (L1 : length rb1 = nv) by (unfold rb1; rewrite upd_length_local; auto).
  assert (SUB : forall l t, upd_first_bwd l t (fun c0 => c0 - dl) = upd_first_bwd l t (fun c0 => c0 + (- dl))).
  { intros l t. induction l as [|en l IH]; cbn [upd_first_bwd]; auto. }
  assert (RW : upd rb1 from (fun l => upd_first_bwd l to (fun c0 => c0 - dl)) =
               upd rb1 from (fun l => upd_first_bwd l to (fun c0 => c0 + (- dl)))).
  { reflexivity. }
  rewrite RW.
  destruct (upd_rb_flows nv rb1 from to (- dl) L1 Hf) as [I2 O2].
  assert (N1 : nth from rb1 [] = nth from rb []).
  { unfold rb1. rewrite (nth_upd_local _ []). assert (E : (to =? from)%nat = false) by (apply Nat.eqb_neq; auto). rewrite E. auto. }
  rewrite N1 in I2, O2.
  pose proof (one_entry nv c LC pi rf rb from to G Hf Ht PC) as ONE.
  unfold bal. rewrite I2, O2, I1, O1.
  assert (EV : nz (upd (upd e to (fun x => x + dl)) from (fun x => x - dl)) v =
               nz e v + (if (v =? to)%nat then dl else 0) - (if (v =? from)%nat then dl else 0)).
  { rewrite !nz_upd_local, upd_length_local. rewrite (Nat.eqb_sym from v), (Nat.eqb_sym to v).
    assert (E1 : (from <? length e)%nat = true) by (apply Nat.ltb_lt; lia).
    assert (E2 : (to <? length e)%nat = true) by (apply Nat.ltb_lt; lia). rewrite E1, E2, !andb_true_r.
    destruct (v =? from)%nat; destruct (v =? to)%nat; lia. }
  rewrite EV.
  destruct (v =? to)%nat eqn:A; destruct (v =? from)%nat eqn:B;
    rewrite ?Nat.eqb_eq, ?Nat.eqb_neq in *; try lia; nia.
Qed.

(* ---------------------------------------------------------------- through augment *)
Lemma pair_count_self rf v : pair_count rf v v <> 1%nat.
Proof. unfold pair_count. lia. Qed.

Theorem augment_conserves nv c pi rf : length c = nv ->
  forall fuel prev k to dl e x rb e' x' rb',
  ghost nv c pi rf rb -> length e = nv ->
  (forall f t, In (f, t) (hops fuel prev k to) -> (f < nv)%nat /\ (t < nv)%nat /\ pair_count rf f t = 1%nat) ->
  augment fuel prev k to dl e x rb = Some (e', x', rb') ->
  forall v, bal nv e' rb' v = bal nv e rb v.
Proof.
  intros LC. induction fuel as [|f IH]; intros prev k to dl e x rb e' x' rb' G LE HH; cbn [augment]; [discriminate|].
  destruct (upd_first_x (nth (nth to prev O) x []) to (fun fl => fl + dl)) as [xf|]; [|discriminate]. cbn [bind].
  set (from := nth to prev O) in *.
  assert (H0 : (from < nv)%nat /\ (to < nv)%nat /\ pair_count rf from to = 1%nat).
  { apply HH. cbn [hops]. left. reflexivity. }
  destruct H0 as [Hf [Ht PC]].
  assert (NE : from <> to) by (intros X; rewrite X in PC; apply (pair_count_self rf to); auto).
  pose proof (hop_conserves nv c pi rf rb e from to dl LC G LE Hf Ht NE PC) as HC. cbv zeta in HC.
  pose proof (ghost_rb_caps nv c LC pi rf rb to (from, fun c0 => c0 + dl) G) as G1. cbn [fst snd] in G1.
  pose proof (ghost_rb_caps nv c LC pi rf _ from (to, fun c0 => c0 - dl) G1) as G2. cbn [fst snd] in G2.
  destruct (from =? k)%nat eqn:EK.
  - intros X. injection X as <- _ <-. exact HC.
  - intros X v.
    assert (LE2 : length (upd (upd e to (fun v0 => v0 + dl)) from (fun v0 => v0 - dl)) = nv)
      by (rewrite !upd_length_local; auto).
    assert (HH2 : forall f0 t0, In (f0, t0) (hops f prev k from) -> (f0 < nv)%nat /\ (t0 < nv)%nat /\ pair_count rf f0 t0 = 1%nat).
    { intros f0 t0 Hin. apply HH. cbn [hops]. fold from. rewrite EK. right. exact Hin. }
    rewrite (IH prev k from dl _ _ _ e' x' rb' G2 LE2 HH2 X v). apply HC.
Qed.
