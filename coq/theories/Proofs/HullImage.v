(* C02 — cpmorphology.convex_hull: a hull polygon of the OUTLINE pixels of a label is a hull polygon
   of ALL its pixels (converse of outline_prefilter_sound), and the lift of the batch theorem to
   the image entry point. *)
From Coq Require Import ZArith List Bool Lia ZifyBool Permutation.
From Centro Require Import Base.Sx Model.Hull Spec.HullSpec Proofs.HullGeom Proofs.HullOutline Proofs.HullUnique
  Proofs.HullCorrect.
Import ListNotations.
Open Scope Z_scope.

Lemma not_outline_nbr im i j v : is_outline im i j v = false ->
  forall d, In d nbr8 -> pix im (i + fst d) (j + snd d) = Some v.
Proof.
  unfold is_outline. intros H d Hd.
  destruct (pix im (i + fst d) (j + snd d)) as [w|] eqn:E.
  - destruct (negb (w =? v)) eqn:E2; [|f_equal; lia].
    exfalso. assert (X : existsb (fun d => match pix im (i + fst d) (j + snd d) with
                                            | Some w => negb (w =? v) | None => true end) nbr8 = true).
    { apply existsb_exists. exists d. split; auto. rewrite E. exact E2. }
    rewrite X in H. discriminate.
  - exfalso. assert (X : existsb (fun d => match pix im (i + fst d) (j + snd d) with
                                            | Some w => negb (w =? v) | None => true end) nbr8 = true).
    { apply existsb_exists. exists d. split; auto. rewrite E. reflexivity. }
    rewrite X in H. discriminate.
Qed.

Lemma interior_nbrs im l i j : 0 < l -> is_outline im i j l = false ->
  In (i - 1, j) (pts_of (all_ijv im) l) /\ In (i + 1, j) (pts_of (all_ijv im) l) /\
  In (i, j - 1) (pts_of (all_ijv im) l) /\ In (i, j + 1) (pts_of (all_ijv im) l).
Proof.
  intros Hl H. pose proof (not_outline_nbr im i j l H) as F.
  repeat split; apply in_pts_of; apply pix_in_all; auto.
  - specialize (F (-1, 0)). cbn [fst snd] in F. replace (i - 1) with (i + -1) by lia. replace j with (j + 0) at 1 by lia. apply F. cbn. tauto.
  - specialize (F (1, 0)). cbn [fst snd] in F. replace j with (j + 0) at 1 by lia. apply F. cbn. tauto.
  - specialize (F (0, -1)). cbn [fst snd] in F. replace (j - 1) with (j + -1) by lia. replace i with (i + 0) at 1 by lia. apply F. cbn. tauto.
  - specialize (F (0, 1)). cbn [fst snd] in F. replace i with (i + 0) at 1 by lia. apply F. cbn. tauto.
Qed.

(* a pixel minimising an affine function over the label is an outline pixel, or the function is constant *)
Lemma argmin_outline im l al be : 0 < l -> forall s, In s (pts_of (all_ijv im) l) ->
  (forall q, In q (pts_of (all_ijv im) l) -> al * fst s + be * snd s <= al * fst q + be * snd q) ->
  In s (pts_of (outline_ijv im) l) \/ (al = 0 /\ be = 0).
Proof.
  intros Hl [i j] Hs Hmin. destruct (is_outline im i j l) eqn:E.
  - left. apply in_pts_of. apply all_to_outline; [apply in_pts_of; exact Hs | exact E].
  - right. destruct (interior_nbrs im l i j Hl E) as [N1 [N2 [N3 N4]]].
    pose proof (Hmin _ N1) as M1. pose proof (Hmin _ N2) as M2.
    pose proof (Hmin _ N3) as M3. pose proof (Hmin _ N4) as M4. cbn [fst snd] in *. split; lia.
Qed.

Lemma outline_nonempty im l s : 0 < l -> In s (pts_of (all_ijv im) l) -> exists t, In t (pts_of (outline_ijv im) l).
Proof.
  intros Hl Hs.
  destruct (list_argmin (fun p => 1 * fst p + 0 * snd p) (pts_of (all_ijv im) l)) as [t [Ht Hmin]].
  { intros E. rewrite E in Hs. destruct Hs. }
  destruct (argmin_outline im l 1 0 Hl t Ht Hmin) as [H|[H _]]; [exists t; exact H | lia].
Qed.

Lemma affine_outline_all im l al be ga : 0 < l ->
  (forall s, In s (pts_of (outline_ijv im) l) -> 0 <= al * fst s + be * snd s + ga) ->
  forall s, In s (pts_of (all_ijv im) l) -> 0 <= al * fst s + be * snd s + ga.
Proof.
  intros Hl Hout s Hs.
  destruct (list_argmin (fun p => al * fst p + be * snd p) (pts_of (all_ijv im) l)) as [t [Ht Hmin]].
  { intros E. rewrite E in Hs. destruct Hs. }
  pose proof (Hmin s Hs) as Ms. cbn beta in Ms.
  destruct (argmin_outline im l al be Hl t Ht Hmin) as [H|[Ha Hb]].
  - specialize (Hout t H). lia.
  - destruct (outline_nonempty im l s Hl Hs) as [u Hu]. specialize (Hout u Hu). subst al be. lia.
Qed.

(* the same for a function given pointwise as an affine expression *)
Lemma affine_fun_outline_all im l (f : pt -> Z) al be ga : 0 < l ->
  (forall s, f s = al * fst s + be * snd s + ga) ->
  (forall s, In s (pts_of (outline_ijv im) l) -> 0 <= f s) ->
  forall s, In s (pts_of (all_ijv im) l) -> 0 <= f s.
Proof.
  intros Hl Ef Hout s Hs. rewrite Ef. apply (affine_outline_all im l al be ga Hl); auto.
  intros q Hq. rewrite <- Ef. apply Hout. exact Hq.
Qed.

Lemma cross_affine a b : forall s, cross a b s =
  (snd b - snd a) * fst s + (- (fst b - fst a)) * snd s + (- (snd b - snd a) * fst b + snd b * (fst b - fst a)).
Proof. intros s. unfold cross. ring. Qed.
Lemma dot_affine a b : forall s, dot a b s =
  (fst b - fst a) * fst s + (snd b - snd a) * snd s + (- fst a * (fst b - fst a) - snd a * (snd b - snd a)).
Proof. intros s. unfold dot. ring. Qed.

(* converse of outline_prefilter_sound: the kernel's answer for the outline pixels is the hull polygon
   of all pixels of the label *)
Theorem outline_hull_is_full_hull : forall im l V, 0 < l ->
  HullSpec (pts_of (outline_ijv im) l) V -> HullSpec (pts_of (all_ijv im) l) V.
Proof.
  intros im l V Hl HS.
  assert (Hincl : incl (pts_of (outline_ijv im) l) (pts_of (all_ijv im) l)).
  { intros p Hp. apply in_pts_of. apply in_pts_of in Hp. apply outline_incl_all. exact Hp. }
  constructor.
  - intros v Hv. apply Hincl. apply (hs_subset _ _ HS). exact Hv.
  - exact (hs_nodup _ _ HS).
  - intros E. destruct (pts_of (all_ijv im) l) as [|s t] eqn:ES; [reflexivity|]. exfalso.
    destruct (outline_nonempty im l s Hl) as [u Hu]; [rewrite ES; left; reflexivity|].
    rewrite (hs_empty _ _ HS E) in Hu. destruct Hu.
  - intros a E s Hs. pose proof (hs_one _ _ HS a E) as H1.
    assert (F1 : 0 <= fst s - fst a).
    { apply (affine_fun_outline_all im l (fun s => fst s - fst a) 1 0 (- fst a) Hl); auto; [intros; ring|].
      intros q Hq. rewrite (H1 q Hq). lia. }
    assert (F2 : 0 <= fst a - fst s).
    { apply (affine_fun_outline_all im l (fun s => fst a - fst s) (-1) 0 (fst a) Hl); auto; [intros; ring|].
      intros q Hq. rewrite (H1 q Hq). lia. }
    assert (F3 : 0 <= snd s - snd a).
    { apply (affine_fun_outline_all im l (fun s => snd s - snd a) 0 1 (- snd a) Hl); auto; [intros; ring|].
      intros q Hq. rewrite (H1 q Hq). lia. }
    assert (F4 : 0 <= snd a - snd s).
    { apply (affine_fun_outline_all im l (fun s => snd a - snd s) 0 (-1) (snd a) Hl); auto; [intros; ring|].
      intros q Hq. rewrite (H1 q Hq). lia. }
    destruct s, a. cbn [fst snd] in *. f_equal; lia.
  - intros a b E s Hs. pose proof (hs_two _ _ HS a b E) as H2. unfold on_segment in *.
    assert (F1 : 0 <= cross a b s).
    { apply (affine_fun_outline_all im l (cross a b) _ _ _ Hl (cross_affine a b)); auto.
      intros q Hq. destruct (H2 q Hq) as [C _]. lia. }
    assert (F2 : 0 <= - cross a b s).
    { apply (affine_fun_outline_all im l (fun s => - cross a b s) (- (snd b - snd a)) (fst b - fst a)
               (- (- (snd b - snd a) * fst b + snd b * (fst b - fst a))) Hl); auto.
      - intros q. rewrite (cross_affine a b q). ring.
      - intros q Hq. destruct (H2 q Hq) as [C _]. lia. }
    assert (F3 : 0 <= dot a b s).
    { apply (affine_fun_outline_all im l (dot a b) _ _ _ Hl (dot_affine a b)); auto.
      intros q Hq. destruct (H2 q Hq) as [_ [D _]]. exact D. }
    assert (F4 : 0 <= dot a b b - dot a b s).
    { apply (affine_fun_outline_all im l (fun s => dot a b b - dot a b s) (- (fst b - fst a)) (- (snd b - snd a))
               (dot a b b - (- fst a * (fst b - fst a) - snd a * (snd b - snd a))) Hl); auto.
      - intros q. rewrite (dot_affine a b q). ring.
      - intros q Hq. destruct (H2 q Hq) as [_ [_ D]]. lia. }
    split; lia.
  - intros Hlen. destruct (hs_poly _ _ HS Hlen) as [sg [Hsg H]]. exists sg. split; [exact Hsg|].
    intros a b c Hc. destruct (H a b c Hc) as [Hstrict Hin]. split; [exact Hstrict|].
    intros s Hs. split.
    + apply (affine_fun_outline_all im l (fun s => sg * cross a b s) (sg * (snd b - snd a)) (sg * (- (fst b - fst a)))
               (sg * (- (snd b - snd a) * fst b + snd b * (fst b - fst a))) Hl); auto.
      * intros q. rewrite (cross_affine a b q). ring.
      * intros q Hq. apply (Hin q Hq).
    + apply (affine_fun_outline_all im l (fun s => sg * cross b c s) (sg * (snd c - snd b)) (sg * (- (fst c - fst b)))
               (sg * (- (snd c - snd b) * fst c + snd c * (fst c - fst b))) Hl); auto.
      * intros q. rewrite (cross_affine b c q). ring.
      * intros q Hq. apply (Hin q Hq).
Qed.

Example outline_hull_is_full_hull_ex :
  let im := [[1;1;1;1];[1;1;1;1];[1;1;1;1];[0;1;1;1]] in
  HullSpec (pts_of (outline_ijv im) 1) [(0,0);(0,3);(3,3);(3,1);(2,0)] /\ In (1,1) (pts_of (all_ijv im) 1)
  /\ ~ In (1,1) (pts_of (outline_ijv im) 1).
Proof.
  cbv zeta. split; [apply hull_ok_sound; vm_compute; reflexivity|]. split; [vm_compute; tauto|].
  vm_compute. intros H. repeat (destruct H as [H|H]; [inversion H|]). exact H.
Qed.

(* ---------------------------------------------------------------- the image entry point *)
Lemma BatchSpec_transfer ijv1 ijv2 :
  (forall l V, HullSpec (pts_of ijv1 l) V -> HullSpec (pts_of ijv2 l) V) ->
  forall ix rows cs, BatchSpec ijv1 ix rows cs -> BatchSpec ijv2 ix rows cs.
Proof. intros T ix rows cs H. induction H; constructor; auto. Qed.

Lemma all_ijv_pos im r : In r (all_ijv im) -> 0 < r_v r /\ 0 <= r_i r.
Proof.
  unfold all_ijv. intros H. apply in_flat_map in H. destruct H as [ir [Hir H]].
  apply in_flat_map in H. destruct H as [jv [_ H]].
  destruct (0 <? snd jv) eqn:E; [|destruct H]. destruct H as [H|[]]. subst r.
  unfold r_v, r_i. cbn [fst snd]. split; [lia|].
  unfold enum_rows in Hir. apply in_map_iff in Hir. destruct Hir as [x [Ex _]]. subst ir. cbn [fst]. lia.
Qed.

Lemma pts_of_nonpos im l : l <= 0 -> pts_of (all_ijv im) l = [] /\ pts_of (outline_ijv im) l = [].
Proof.
  intros Hl.
  assert (A : forall p, ~ In p (pts_of (all_ijv im) l)).
  { intros p Hp. apply in_pts_of in Hp. apply all_ijv_pos in Hp. unfold r_v in Hp. cbn [snd] in Hp. lia. }
  split.
  - destruct (pts_of (all_ijv im) l) as [|p t]; [reflexivity|]. exfalso. apply (A p). left. reflexivity.
  - destruct (pts_of (outline_ijv im) l) as [|p t] eqn:E; [reflexivity|]. exfalso. apply (A p).
    apply in_pts_of. apply outline_incl_all. apply in_pts_of. rewrite E. left. reflexivity.
Qed.

(* For every label image and every repeat-free index list the model of cpmorphology.convex_hull
   returns, in request order, a polygon meeting HullSpec for ALL pixels of each requested label
   (absent or non-positive labels: count 0) — given the two per-label facts. *)
Theorem convex_hull_correct_partial : HullLabelCorrect -> HullNoOverflow ->
  forall im indexes, NoDup indexes ->
  match convex_hull im indexes with
  | HEmpty2 => indexes = []
  | HBlank n => n = length indexes /\ forall l, pts_of (all_ijv im) l = []
  | HRows r => BatchSpec (all_ijv im) indexes (rows_of (fst r)) (counts_of (fst r))
  end.
Proof.
  intros HC NoOv im indexes ND. unfold convex_hull. destruct indexes as [|l0 ix]; [reflexivity|].
  destruct (outline_ijv im) as [|r0 rs] eqn:EO.
  - split; [reflexivity|]. intros l. destruct (Z_lt_le_dec 0 l) as [G|G]; [|apply pts_of_nonpos; exact G].
    destruct (pts_of (all_ijv im) l) as [|s t] eqn:ES; [reflexivity|]. exfalso.
    destruct (outline_nonempty im l s G) as [u Hu]; [rewrite ES; left; reflexivity|].
    rewrite EO in Hu. destruct Hu.
  - rewrite <- EO. apply (BatchSpec_transfer (outline_ijv im)).
    + intros l V HS. destruct (Z_lt_le_dec 0 l) as [G|G]; [apply outline_hull_is_full_hull; auto|].
      destruct (pts_of_nonpos im l G) as [E1 E2]. rewrite E1. rewrite E2 in HS. exact HS.
    + apply convex_hull_ijv_correct_partial; auto.
      intros x Hx. apply outline_incl_all in Hx. apply all_ijv_pos in Hx. tauto.
Qed.

Example convex_hull_correct_ex :
  let im := [[1;1;1;1];[1;1;2;1];[1;1;1;1];[0;1;1;1]] in
  NoDup [2;5;1] /\
  match convex_hull im [2;5;1] with
  | HRows r => rows_of (fst r) = [((2,1),2);((1,0),0);((1,0),3);((1,3),3);((1,3),1);((1,2),0)] /\ counts_of (fst r) = [1;0;5]
  | _ => False
  end.
Proof. cbv zeta. split; [repeat constructor; cbn; intuition discriminate|]. vm_compute. split; reflexivity. Qed.
