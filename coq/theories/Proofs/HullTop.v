(* C02 — theorems about the whole batch function convex_hull_ijv. *)
From Coq Require Import ZArith List Bool Lia ZifyBool Permutation Sorted.
From Centro Require Import Base.Sx Model.Hull Spec.HullSpec Proofs.HullEmit Proofs.HullPerm Proofs.HullBatch.
Import ListNotations.
Open Scope Z_scope.

Lemma fold_max_ge : forall l a, a <= fold_left Z.max l a /\ forall x, In x l -> x <= fold_left Z.max l a.
Proof.
  induction l as [|y l IH]; intros a; cbn [fold_left].
  - split; [lia | intros x []].
  - destruct (IH (Z.max a y)) as [H1 H2]. split; [lia|].
    intros x [Hx|Hx]; [subst; lia | auto].
Qed.
Lemma zmax_list_ge l x : In x l -> x <= zmax_list l.
Proof. apply (proj2 (fold_max_ge l 0)). Qed.

Lemma result_length ijv indexes : length (fst (convex_hull_ijv ijv indexes)) = length indexes.
Proof.
  unfold convex_hull_ijv. cbn [fst]. rewrite map_length, combine_length.
  rewrite argsort_length, map_length, argsort_length. lia.
Qed.

(* reorder_correct + independence: position r of the result carries the requested label
   indexes[r] and the hull computed from exactly the rows of that label (in buffer order);
   other labels' pixels enter only through the slack of the shared buffer. *)
Theorem hull_ijv_request : forall ijv indexes r, NoDup indexes -> (r < length indexes)%nat ->
  exists slack,
    nth r (fst (convex_hull_ijv ijv indexes)) (0, []) =
    (nth r indexes 0,
     hull_label (zmax_list (map r_i (lexsort ijv)))
                (map r_pt (sel (nth r indexes 0) (lexsort ijv))) slack).
Proof.
  intros ijv indexes r ND Hr. unfold convex_hull_ijv. cbn [fst].
  set (sorted := lexsort ijv). set (m := zmax_list (map r_i sorted)). set (ml := zmax_list (map r_v sorted)).
  set (reorder := argsort indexes). set (reqs := map (fun k => nth k indexes 0) reorder).
  set (unreorder := argsort (map Z.of_nat reorder)).
  assert (Lu : length unreorder = length indexes).
  { unfold unreorder, reorder. rewrite argsort_length, map_length, argsort_length. reflexivity. }
  rewrite (nth_map_lt _ _ r (0, []) (0, 0%nat)) by (rewrite combine_length; lia).
  rewrite combine_nth by (symmetry; exact Lu). cbn [fst snd].
  destruct (argsort_inverse indexes r Hr) as [Hk _]. fold reorder in Hk. fold unreorder in Hk.
  assert (Lreq : length reqs = length indexes).
  { unfold reqs, reorder. rewrite map_length, argsort_length. reflexivity. }
  destruct (walk_blocks m ml reqs sorted 0 0) with (k := nth r unreorder 0%nat) as [slack Es].
  - apply lexsort_sorted_v.
  - apply argsort_strict. exact ND.
  - intros x Hx. apply zmax_list_ge. apply in_map. exact Hx.
  - lia.
  - exists slack. rewrite Es. f_equal. f_equal. f_equal. f_equal.
    apply (reorder_label indexes r Hr).
Qed.

(* absent_zero: a requested label without pixels gets no vertex *)
Theorem absent_zero : forall ijv indexes r, NoDup indexes -> (r < length indexes)%nat ->
  (forall x, In x ijv -> r_v x <> nth r indexes 0) ->
  snd (nth r (fst (convex_hull_ijv ijv indexes)) (0, [])) = [].
Proof.
  intros ijv indexes r ND Hr Habs. destruct (hull_ijv_request ijv indexes r ND Hr) as [s E].
  rewrite E. cbn [snd]. rewrite sel_none; [reflexivity|].
  intros x Hx. apply Habs. eapply Permutation_in; [apply lexsort_perm | exact Hx].
Qed.

(* (a) at batch level: every vertex reported for a request is a pixel of that label *)
Theorem batch_vertices_subset : forall ijv indexes r p, NoDup indexes -> (r < length indexes)%nat ->
  (forall x, In x ijv -> 0 <= r_i x) ->
  In p (snd (nth r (fst (convex_hull_ijv ijv indexes)) (0, []))) ->
  In p (pts_of ijv (nth r indexes 0)).
Proof.
  intros ijv indexes r p ND Hr Hnn Hp. destruct (hull_ijv_request ijv indexes r ND Hr) as [s E].
  rewrite E in Hp. cbn [snd] in Hp. apply vertices_subset in Hp.
  - unfold pts_of. unfold sel in Hp. apply in_map_iff in Hp. destruct Hp as [x [Ex Hx]].
    apply in_map_iff. exists x. split; [exact Ex|]. apply filter_In in Hx. apply filter_In.
    destruct Hx as [Hx1 Hx2]. split; [|exact Hx2]. eapply Permutation_in; [apply lexsort_perm | exact Hx1].
  - intros q Hq. apply in_map_iff in Hq. destruct Hq as [x [Ex Hx]]. subst q.
    unfold sel in Hx. apply filter_In in Hx. destruct Hx as [Hx _]. cbn [r_pt fst].
    apply Hnn. eapply Permutation_in; [apply lexsort_perm | exact Hx].
Qed.

Example hull_ijv_request_ex :
  let ijv := [((0,0),2);((1,1),1);((0,3),2);((2,0),1);((3,3),2)] in
  NoDup [2;7;1] /\ fst (convex_hull_ijv ijv [2;7;1]) = [(2, [(0,0);(0,3);(3,3)]); (7, []); (1, [(2,0);(1,1)])].
Proof.
  split; [|vm_compute; reflexivity].
  repeat constructor; cbn; intuition discriminate.
Qed.

Example absent_zero_ex :
  let ijv := [((0,0),2);((1,1),1);((0,3),2);((2,0),1);((3,3),2)] in
  (forall x, In x ijv -> r_v x <> nth 1 [2;7;1] 0) /\ (forall x, In x ijv -> 0 <= r_i x).
Proof.
  cbv zeta. split; intros x H; cbn in H; repeat (destruct H as [H|H]; [subst x; cbn; lia|]); contradiction.
Qed.
