(* C17 — the executable instances of scind.label (flood fill to a fixpoint + renumbering) and
   maximum_position satisfy, for EVERY input, the hypotheses of one_per_plateau; hence the
   ties-not-allowed model built from them marks exactly one pixel per 8-connected plateau with
   no hypotheses left. *)
From Coq Require Import ZArith List Bool Lia ZifyBool.
From Centro Require Import Base.LocalMaxGrid Model.LocalMax Spec.LocalMaxSpec
  Proofs.LocalMaxIlm Proofs.LocalMaxReg Proofs.LocalMaxPlateau.
Import ListNotations.
Open Scope Z_scope.

(* ---------------------------------------------------------------- small list facts *)

Lemma index_of_lt v l : In v l -> (index_of v l < length l)%nat.
Proof.
  induction l as [|a l IH]; cbn [In index_of length]; [tauto|]. intros [->|H].
  - rewrite Z.eqb_refl. lia.
  - destruct (a =? v); [lia|]. specialize (IH H). lia.
Qed.

Lemma nth_index_of v l d : In v l -> nth (index_of v l) l d = v.
Proof.
  induction l as [|a l IH]; cbn [In index_of]; [tauto|]. intros H.
  destruct (a =? v) eqn:E; [cbn [nth]; lia|]. cbn [nth]. apply IH. destruct H; [lia|assumption].
Qed.

Lemma index_of_inj v v' l : In v l -> In v' l -> index_of v l = index_of v' l -> v = v'.
Proof. intros A B E. rewrite <- (nth_index_of v l 0 A), <- (nth_index_of v' l 0 B). now rewrite E. Qed.

Lemma index_of_nth l : NoDup l -> forall k d, (k < length l)%nat -> index_of (nth k l d) l = k.
Proof.
  induction 1 as [|a l Ha Hl IH]; intros k d Hk; cbn [length] in Hk; [lia|].
  destruct k as [|k]; cbn [nth index_of].
  - now rewrite Z.eqb_refl.
  - destruct (a =? nth k l d) eqn:E.
    + exfalso. apply Ha. apply Z.eqb_eq in E. rewrite E. apply nth_In. lia.
    + f_equal. apply IH. lia.
Qed.

Lemma forallb_false_ex {A} (f : A -> bool) l : forallb f l = false -> exists a, In a l /\ f a = false.
Proof.
  induction l as [|a l IH]; cbn [forallb]; [discriminate|].
  destruct (f a) eqn:E; cbn [andb].
  - intros H. destruct (IH H) as (b & Hb & Fb). exists b. split; [now right|exact Fb].
  - intros _. exists a. split; [now left|exact E].
Qed.

Lemma nb8_neg d : In d nb8 -> In (- fst d, - snd d) nb8.
Proof.
  unfold nb8. cbn [In]. intros H.
  repeat (destruct H as [<-|H]; [cbn [fst snd Z.opp]; auto 12|]). contradiction.
Qed.

(* sums over a list of cells *)
Definition lsum (f : Z * Z -> Z) (l : list (Z * Z)) : Z := fold_right (fun p acc => f p + acc) 0 l.

Lemma lsum_le f g l : (forall p, In p l -> f p <= g p) -> lsum f l <= lsum g l.
Proof.
  induction l as [|a l IH]; intros H; cbn [lsum fold_right]; [lia|].
  specialize (H a (or_introl eq_refl)) as Ha. fold (lsum f l) (lsum g l).
  assert (lsum f l <= lsum g l) by (apply IH; intros; apply H; now right). lia.
Qed.

Lemma lsum_lt f g l : (forall p, In p l -> f p <= g p) -> (exists p, In p l /\ f p < g p) -> lsum f l < lsum g l.
Proof.
  induction l as [|a l IH]; intros H (p & Hp & Lt); [contradiction|].
  cbn [lsum fold_right]. fold (lsum f l) (lsum g l).
  assert (Hl : lsum f l <= lsum g l) by (apply lsum_le; intros; apply H; now right).
  pose proof (H a (or_introl eq_refl)) as Ha.
  destruct Hp as [->|Hp]; [lia|].
  assert (lsum f l < lsum g l) by (apply IH; [intros; apply H; now right | exists p; auto]). lia.
Qed.

Lemma lsum_nonneg f l : (forall p, In p l -> 0 <= f p) -> 0 <= lsum f l.
Proof.
  induction l as [|a l IH]; intros H; cbn [lsum fold_right]; [lia|]. fold (lsum f l).
  pose proof (H a (or_introl eq_refl)). assert (0 <= lsum f l) by (apply IH; intros; apply H; now right). lia.
Qed.

(* ---------------------------------------------------------------- the flood *)

Section Flood.
  Variables (h w : nat) (s : list (list bool)).
  Hypothesis Hs : wf h w s.
  Local Notation u := (get2 false s).
  Local Notation W := (Z.of_nat w).

  Definition ing (p : Z * Z) : Prop := 0 <= fst p < Z.of_nat h /\ 0 <= snd p < W.

  Lemma u_in y x : u y x = true -> ing (y, x).
  Proof. intros E. exact (get2_true_in s y x Hs E). Qed.

  Lemma pidx_inj p q : ing p -> ing q -> pidx w p = pidx w q -> p = q.
  Proof.
    destruct p as [py px], q as [qy qx]. unfold ing, pidx. cbn [fst snd]. intros [Hy Hx] [Hy' Hx'] E.
    assert (py = qy).
    { destruct (Z_lt_le_dec py qy) as [l|l].
      { exfalso. assert (W * (py + 1) <= W * qy) by (apply Z.mul_le_mono_nonneg_l; lia). lia. }
      destruct (Z_lt_le_dec qy py) as [l'|l']; [|lia].
      exfalso. assert (W * (qy + 1) <= W * py) by (apply Z.mul_le_mono_nonneg_l; lia). lia. }
    subst. f_equal. lia.
  Qed.

  Lemma pidx_pos p : ing p -> 1 <= pidx w p.
  Proof.
    destruct p as [y x]. unfold ing, pidx. cbn [fst snd]. intros [Hy Hx].
    assert (0 <= W * y) by (apply Z.mul_nonneg_nonneg; lia). lia.
  Qed.

  (* the neighbourhood minimum *)
  Lemma fold_min (l : Z -> Z -> Z) y x : forall ds m0,
    let r := fold_left (fun m d => if u (y + fst d) (x + snd d) && (l (y + fst d) (x + snd d) <? m)
                                   then l (y + fst d) (x + snd d) else m) ds m0 in
    r <= m0 /\
    (forall d, In d ds -> u (y + fst d) (x + snd d) = true -> r <= l (y + fst d) (x + snd d)) /\
    (r = m0 \/ exists d, In d ds /\ u (y + fst d) (x + snd d) = true /\ r = l (y + fst d) (x + snd d)).
  Proof.
    induction ds as [|a ds IH]; intros m0; cbn [fold_left].
    - split; [lia|]. split; [intros d []|now left].
    - set (m1 := if u (y + fst a) (x + snd a) && (l (y + fst a) (x + snd a) <? m0)
                 then l (y + fst a) (x + snd a) else m0).
      destruct (IH m1) as (A & B & C). cbv zeta.
      assert (M1 : m1 <= m0 /\ (u (y + fst a) (x + snd a) = true -> m1 <= l (y + fst a) (x + snd a))
                   /\ (m1 = m0 \/ (u (y + fst a) (x + snd a) = true /\ m1 = l (y + fst a) (x + snd a)))).
      { unfold m1. destruct (u (y + fst a) (x + snd a)) eqn:Ua; cbn [andb].
        - destruct (l (y + fst a) (x + snd a) <? m0) eqn:Lt; repeat split; try lia; auto.
        - repeat split; try lia; try discriminate; auto. }
      destruct M1 as (M1a & M1b & M1c).
      split; [lia|]. split.
      + intros d [<-|Hd] Ud; [specialize (M1b Ud); lia | now apply B].
      + destruct C as [C|(d & Hd & Ud & C)].
        * destruct M1c as [M|[Ua M]]; [left; lia | right; exists a; split; [now left|]; split; [exact Ua | lia]].
        * right. exists d. split; [now right|]. split; [exact Ud | exact C].
  Qed.

  Lemma nb_min_spec (l : Z -> Z -> Z) y x :
    nb_min u l y x <= l y x /\
    (forall d, In d nb8 -> u (y + fst d) (x + snd d) = true -> nb_min u l y x <= l (y + fst d) (x + snd d)) /\
    (nb_min u l y x = l y x \/
     exists d, In d nb8 /\ u (y + fst d) (x + snd d) = true /\ nb_min u l y x = l (y + fst d) (x + snd d)).
  Proof. exact (fold_min l y x nb8 (l y x)). Qed.

  (* invariant of the flood: a well-formed grid, 0 outside the set, and inside the set the
     number of some pixel of the same component *)
  Definition Inv (g : list (list Z)) : Prop :=
    wf h w g /\
    (forall y x, u y x = false -> get2 0 g y x = 0) /\
    (forall y x, u y x = true ->
       exists q, u (fst q) (snd q) = true /\ conn8 u (y, x) q /\ get2 0 g y x = pidx w q).

  Local Notation step := (flood_step h w s).

  Lemma step_get g y x : ing (y, x) ->
    get2 0 (step g) y x = if u y x then nb_min u (get2 0 g) y x else 0.
  Proof. intros [Hy Hx]. unfold flood_step. cbn [fst snd] in *. now rewrite get2_tab. Qed.

  Lemma step_out g y x : ~ ing (y, x) -> get2 0 (step g) y x = 0.
  Proof. intros N. apply (get2_out 0 h w); [apply tab_wf | exact N]. Qed.

  Lemma inv_step g : Inv g -> Inv (step g).
  Proof.
    intros (Wg & Z0 & C). split; [apply tab_wf|]. split.
    - intros y x U0. destruct (Z_le_dec 0 y), (Z_lt_dec y (Z.of_nat h)), (Z_le_dec 0 x), (Z_lt_dec x W);
        try (apply step_out; unfold ing; cbn [fst snd]; lia).
      rewrite step_get by (unfold ing; cbn [fst snd]; lia). now rewrite U0.
    - intros y x U1. rewrite step_get by now apply u_in. rewrite U1.
      destruct (nb_min_spec (get2 0 g) y x) as (_ & _ & [E|(d & Hd & Ud & E)]).
      + rewrite E. now apply C.
      + rewrite E. destruct (C _ _ Ud) as (q & Uq & Cq & Eq). exists q. split; [exact Uq|]. split; [|exact Eq].
        apply conn8_trans with (y + fst d, x + snd d); [|exact Cq].
        apply conn_step with (y, x); [now apply conn_refl | apply (nb8_adj (y, x) d Hd) | exact Ud].
  Qed.

  Lemma inv_nonneg g y x : Inv g -> 0 <= get2 0 g y x.
  Proof.
    intros (_ & Z0 & C). destruct (u y x) eqn:U1; [|rewrite Z0 by assumption; lia].
    destruct (C _ _ U1) as (q & Uq & _ & ->). destruct q as [qy qx]. cbn [fst snd] in Uq. pose proof (pidx_pos _ (u_in _ _ Uq)). lia.
  Qed.

  Lemma step_le g y x : Inv g -> get2 0 (step g) y x <= get2 0 g y x.
  Proof.
    intros I.
    destruct (Z_le_dec 0 y), (Z_lt_dec y (Z.of_nat h)), (Z_le_dec 0 x), (Z_lt_dec x W);
      try (rewrite step_out by (unfold ing; cbn [fst snd]; lia); now apply inv_nonneg).
    rewrite step_get by (unfold ing; cbn [fst snd]; lia).
    destruct (u y x) eqn:U1; [|now apply inv_nonneg].
    now destruct (nb_min_spec (get2 0 g) y x) as (A & _).
  Qed.

  Lemma gsum_lsum g : gsum h w g = lsum (fun p => get2 0 g (fst p) (snd p)) (cells h w).
  Proof. reflexivity. Qed.

  Lemma step_decreases g : Inv g -> step g <> g -> gsum h w (step g) < gsum h w g.
  Proof.
    intros I N. rewrite !gsum_lsum. apply lsum_lt.
    - intros p _. now apply step_le.
    - destruct (forallb (fun p => get2 0 (step g) (fst p) (snd p) =? get2 0 g (fst p) (snd p)) (cells h w)) eqn:F.
      + exfalso. apply N. destruct I as (Wg & _).
        assert (E1 : step g = tab h w (get2 0 (step g))) by (apply (wf_tab 0 h w); apply tab_wf).
        assert (E2 : g = tab h w (get2 0 g)) by (apply wf_tab; exact Wg).
        etransitivity; [exact E1|]. etransitivity; [|symmetry; exact E2].
        apply tab_ext. intros y x Hy Hx.
        rewrite forallb_forall in F. specialize (F (y, x)). cbn [fst snd] in F.
        apply Z.eqb_eq, F. apply In_cells. cbn [fst snd]. lia.
      + apply forallb_false_ex in F. destruct F as (p & Hp & F). exists p. split; [exact Hp|].
        pose proof (step_le g (fst p) (snd p) I). lia.
  Qed.

  Lemma iter_fix : forall fuel g, Inv g -> gsum h w g < Z.of_nat fuel ->
    Inv (flood_iter fuel h w s g) /\ step (flood_iter fuel h w s g) = flood_iter fuel h w s g.
  Proof.
    induction fuel as [|fuel IH]; intros g I M.
    - exfalso. rewrite gsum_lsum in M.
      assert (0 <= lsum (fun p => get2 0 g (fst p) (snd p)) (cells h w))
        by (apply lsum_nonneg; intros; now apply inv_nonneg). lia.
    - cbn [flood_iter]. destruct (list_eq_dec (list_eq_dec Z.eq_dec) (step g) g) as [E|N].
      + split; [exact I | exact E].
      + apply IH; [now apply inv_step|]. pose proof (step_decreases g I N). lia.
  Qed.

  (* ---- at a fixpoint the numbers are constant exactly on the 8-components ---- *)
  Section Fix.
    Variable f : list (list Z).
    Hypothesis If : Inv f.
    Hypothesis Ff : step f = f.
    Local Notation F := (get2 0 f).

    Lemma fix_adj y x d : u y x = true -> In d nb8 -> u (y + fst d) (x + snd d) = true ->
      F y x <= F (y + fst d) (x + snd d).
    Proof.
      intros U1 Hd Ud. rewrite <- Ff at 1. rewrite step_get by now apply u_in. rewrite U1.
      destruct (nb_min_spec F y x) as (_ & B & _). now apply B.
    Qed.

    Lemma fix_conn p q : conn8 u p q -> F (fst p) (snd p) = F (fst q) (snd q).
    Proof.
      induction 1 as [p Hp | p q r Hpq IH Hadj Hr]; [reflexivity|].
      rewrite IH. apply conn8_right in Hpq. destruct (adj8_nb _ _ Hadj) as [->|(d & Hd & ->)]; [reflexivity|].
      cbn [fst snd] in *.
      pose proof (fix_adj _ _ d Hpq Hd Hr) as A.
      pose proof (fix_adj _ _ (- fst d, - snd d) Hr (nb8_neg d Hd)) as B. cbn [fst snd] in B.
      replace (fst q + fst d + - fst d) with (fst q) in B by lia.
      replace (snd q + snd d + - snd d) with (snd q) in B by lia.
      specialize (B Hpq). lia.
    Qed.

    Lemma fix_label p q : u (fst p) (snd p) = true -> u (fst q) (snd q) = true ->
      (F (fst p) (snd p) = F (fst q) (snd q) <-> conn8 u p q).
    Proof.
      intros Up Uq. split; [|apply fix_conn].
      destruct If as (_ & _ & C). destruct p as [py px], q as [qy qx]. cbn [fst snd] in *.
      destruct (C _ _ Up) as (r & Ur & Cr & Er). destruct (C _ _ Uq) as (r' & Ur' & Cr' & Er').
      intros E. assert (r = r').
      { apply pidx_inj; [destruct r; now apply u_in | destruct r'; now apply u_in | lia]. }
      subst r'. eapply conn8_trans; [exact Cr | now apply conn8_sym].
    Qed.

    (* representatives and renumbering *)
    Definition vals : list Z :=
      nodup Z.eq_dec (map (pidx w) (filter (fun p => u (fst p) (snd p) && (F (fst p) (snd p) =? pidx w p))
                                           (cells h w))).
    Definition Lb (y x : Z) : Z := if u y x then Z.of_nat (index_of (F y x) vals) + 1 else 0.

    Lemma In_vals v : In v vals <->
      exists r, ing r /\ u (fst r) (snd r) = true /\ F (fst r) (snd r) = pidx w r /\ v = pidx w r.
    Proof.
      unfold vals. rewrite nodup_In, in_map_iff. split.
      - intros (r & <- & Hr). apply filter_In in Hr. destruct Hr as [Hc Hr]. apply In_cells in Hc.
        exists r. rewrite andb_true_iff, Z.eqb_eq in Hr. destruct Hr as [Ur Fr].
        split; [exact Hc|]. split; [exact Ur|]. split; [exact Fr|reflexivity].
      - intros (r & Hr & Ur & Fr & ->). exists r. split; [reflexivity|]. apply filter_In. split.
        + now apply In_cells.
        + rewrite Ur, Fr, Z.eqb_refl. reflexivity.
    Qed.

    Lemma F_in_vals y x : u y x = true -> In (F y x) vals.
    Proof.
      intros U1. destruct If as (_ & _ & C). destruct (C _ _ U1) as (r & Ur & Cr & Er).
      apply In_vals. exists r. split; [destruct r; now apply u_in|]. split; [exact Ur|]. split; [|exact Er].
      rewrite <- Er. symmetry. exact (fix_conn _ _ Cr).
    Qed.

    Lemma label_inst_ok : labelling_ok u Lb (zlen vals).
    Proof.
      split; [|split].
      - intros y x U1. unfold Lb. rewrite U1. pose proof (index_of_lt _ _ (F_in_vals _ _ U1)). unfold zlen. lia.
      - intros p q Up Uq. unfold Lb. rewrite Up, Uq. rewrite <- fix_label by assumption. split.
        + intros E. apply (index_of_inj _ _ vals); [now apply F_in_vals | now apply F_in_vals | lia].
        + intros ->. reflexivity.
      - intros y x P. unfold Lb in P. destruct (u y x); [reflexivity|lia].
    Qed.

    Lemma label_inst_onto k : 1 <= k <= zlen vals -> exists c, ing c /\ Lb (fst c) (snd c) = k.
    Proof.
      intros Hk. unfold zlen in Hk. set (v := nth (Z.to_nat (k - 1)) vals 0).
      assert (Iv : In v vals) by (apply nth_In; lia).
      apply In_vals in Iv. destruct Iv as (r & Hr & Ur & Fr & Ev). exists r. split; [exact Hr|].
      unfold Lb. rewrite Ur, Fr, <- Ev. unfold v.
      rewrite index_of_nth by (try apply NoDup_nodup; lia). lia.
    Qed.
  End Fix.
End Flood.

(* ---------------------------------------------------------------- maximum_position instance *)

Lemma best_fold values labels k : forall l acc,
  (match acc with Some q => get2 0 labels (fst q) (snd q) = k | None => True end) ->
  match fold_left (best_step values labels k) l acc with
  | Some q => get2 0 labels (fst q) (snd q) = k
  | None => acc = None /\ forall p, In p l -> get2 0 labels (fst p) (snd p) <> k
  end.
Proof.
  induction l as [|a l IH]; intros acc Hacc; cbn [fold_left].
  - destruct acc; [exact Hacc | split; [reflexivity | intros p []]].
  - set (acc' := best_step values labels k acc a).
    assert (Hacc' : match acc' with Some q => get2 0 labels (fst q) (snd q) = k | None => True end).
    { unfold acc', best_step. destruct (get2 0 labels (fst a) (snd a) =? k) eqn:E; [|exact Hacc].
      apply Z.eqb_eq in E. destruct acc as [q|]; [|exact E].
      destruct (get2 0 values (fst q) (snd q) <? get2 0 values (fst a) (snd a)); [exact E|exact Hacc]. }
    specialize (IH acc' Hacc'). destruct (fold_left (best_step values labels k) l acc') as [q|] eqn:R; [exact IH|].
    destruct IH as [E N]. unfold acc', best_step in E.
    destruct (get2 0 labels (fst a) (snd a) =? k) eqn:Ek.
    + destruct acc as [q|]; [destruct (get2 0 values (fst q) (snd q) <? get2 0 values (fst a) (snd a))|]; discriminate.
    + split; [exact E|]. intros p [<-|Hp]; [lia | now apply N].
Qed.

Lemma shape2_tab {A} h w (f : Z -> Z -> A) :
  shape2 (tab h w f) = (h, match h with O => O | S _ => w end).
Proof.
  unfold shape2, tab. rewrite map_length, zrange_length. f_equal.
  destruct h as [|h]; [reflexivity|]. unfold zrange. cbn [seq map hd]. now rewrite map_length, map_length, seq_length.
Qed.

Lemma wf_shape2_tab {A} h w (f : Z -> Z -> A) :
  wf (fst (shape2 (tab h w f))) (snd (shape2 (tab h w f))) (tab h w f).
Proof.
  rewrite shape2_tab. cbn [fst snd]. destruct h as [|h]; [split; [reflexivity|constructor]|apply tab_wf].
Qed.

(* ---------------------------------------------------------------- the instances satisfy the hypotheses *)

Section Inst.
  Variables (h w : nat) (s : list (list bool)).
  Hypothesis Hs : wf h w s.
  Hypothesis Hshape : shape2 s = (h, w).
  Local Notation u := (get2 false s).

  Definition g0 : list (list Z) := tab h w (fun y x => if u y x then pidx w (y, x) else 0).
  Definition ffix : list (list Z) := flood_iter (S (Z.to_nat (gsum h w g0))) h w s g0.

  Lemma inv_g0 : Inv h w s g0.
  Proof.
    split; [apply tab_wf|]. split.
    - intros y x U0. unfold g0.
      destruct (Z_le_dec 0 y), (Z_lt_dec y (Z.of_nat h)), (Z_le_dec 0 x), (Z_lt_dec x (Z.of_nat w));
        try (apply (get2_out 0 h w); [apply tab_wf|lia]).
      rewrite get2_tab by lia. now rewrite U0.
    - intros y x U1. exists (y, x). cbn [fst snd]. split; [exact U1|]. split; [now apply conn_refl|].
      destruct (u_in h w s Hs y x U1) as [Hy Hx]. cbn [fst snd] in *. unfold g0. rewrite get2_tab by lia.
      now rewrite U1.
  Qed.

  Lemma ffix_ok : Inv h w s ffix /\ flood_step h w s ffix = ffix.
  Proof.
    apply iter_fix; [exact Hs | exact inv_g0|].
    assert (0 <= gsum h w g0).
    { rewrite gsum_lsum. apply lsum_nonneg. intros. apply (inv_nonneg h w s Hs). exact inv_g0. }
    lia.
  Qed.

  Lemma label_inst_eq :
    label_inst s = (tab h w (Lb h w s ffix), zlen (vals h w s ffix)).
  Proof. unfold label_inst. rewrite Hshape. reflexivity. Qed.

  Lemma labels_get y x : get2 0 (tab h w (Lb h w s ffix)) y x = Lb h w s ffix y x.
  Proof.
    destruct (Z_le_dec 0 y), (Z_lt_dec y (Z.of_nat h)), (Z_le_dec 0 x), (Z_lt_dec x (Z.of_nat w));
      try (rewrite (get2_out 0 h w) by (try apply tab_wf; lia); unfold Lb;
           destruct (u y x) eqn:U1; [destruct (u_in h w s Hs y x U1); cbn [fst snd] in *; lia | reflexivity]).
    now rewrite get2_tab by lia.
  Qed.

  Lemma inst_labelling_ok :
    labelling_ok u (get2 0 (fst (label_inst s))) (snd (label_inst s)).
  Proof.
    rewrite label_inst_eq. cbn [fst snd]. destruct ffix_ok as [I F].
    destruct (label_inst_ok h w s Hs ffix I F) as (A & B & C). split; [|split].
    - intros y x U1. rewrite labels_get. now apply A.
    - intros p q Up Uq. rewrite !labels_get. now apply B.
    - intros y x P. rewrite labels_get in P. now apply C.
  Qed.

  Lemma inst_positions : let labels := fst (label_inst s) in let count := snd (label_inst s) in
    let positions := maximum_position_inst (ro_distance_inst s) labels
                       (map (fun k => k + 1) (zrange (Z.to_nat count))) in
    zlen positions = Z.max 0 count /\
    forall k, 1 <= k <= count ->
      0 <= fst (pnth positions k) < Z.of_nat h /\ 0 <= snd (pnth positions k) < Z.of_nat w /\
      get2 0 labels (fst (pnth positions k)) (snd (pnth positions k)) = k.
  Proof.
    cbv zeta. rewrite label_inst_eq. cbn [fst snd]. destruct ffix_ok as [I F].
    unfold maximum_position_inst.
    destruct (shape2 (tab h w (Lb h w s ffix))) as [h' w'] eqn:Sh.
    split.
    - unfold zlen. rewrite !map_length, zrange_length. lia.
    - intros k Hk. unfold pnth, zlen in *.
      set (g := fun k0 => match fold_left (best_step (ro_distance_inst s) (tab h w (Lb h w s ffix)) k0) (cells h' w') None with
                          | Some p => p | None => (0, 0) end).
      rewrite nth_indep with (d' := g 0) by (rewrite !map_length, zrange_length; lia).
      rewrite (map_nth g). rewrite nth_indep with (d' := (fun k => k + 1) 0) by (rewrite map_length, zrange_length; lia).
      rewrite (map_nth (fun k => k + 1)). rewrite nth_zrange by lia.
      replace (Z.of_nat (Z.to_nat (k - 1)) + 1) with k by lia. unfold g.
      pose proof (best_fold (ro_distance_inst s) (tab h w (Lb h w s ffix)) k (cells h' w') None Logic.I) as BF.
      destruct (fold_left (best_step (ro_distance_inst s) (tab h w (Lb h w s ffix)) k) (cells h' w') None) as [q|].
      + rewrite labels_get in BF. split; [|split]; [| |now rewrite labels_get].
        * assert (U1 : u (fst q) (snd q) = true).
          { destruct (label_inst_ok h w s Hs ffix I F) as (_ & _ & C). apply C. lia. }
          destruct q as [qy qx]. now destruct (u_in h w s Hs _ _ U1).
        * assert (U1 : u (fst q) (snd q) = true).
          { destruct (label_inst_ok h w s Hs ffix I F) as (_ & _ & C). apply C. lia. }
          destruct q as [qy qx]. now destruct (u_in h w s Hs _ _ U1).
      + exfalso. destruct BF as [_ N].
        destruct (label_inst_onto h w s ffix k Hk) as (c & Hc & Ec).
        apply (N c); [|now rewrite labels_get].
        rewrite shape2_tab in Sh. injection Sh as <- <-. apply In_cells.
        destruct Hc as [Hy Hx]. destruct h as [|h0]; [lia|]. split; assumption.
  Qed.
End Inst.

(* exactly one pixel per 8-connected plateau, for the model with the executable instances:
   no hypotheses beyond "the ties-allowed pass did not fail" *)
Theorem one_per_plateau_inst image mask st result :
  regional_maximum_ties image mask st = Some result ->
  exists out, regional_maximum label_inst ro_distance_inst maximum_position_inst image mask st false = Some out /\
              wf (length image) (length (hd [] image)) out /\
              one_per_component (get2 false result) (get2 false out).
Proof.
  intros ET. pose proof (regional_maximum_ties_Some _ _ _ _ ET) as ER.
  set (h := length image) in *. set (w := length (hd [] image)) in *.
  destruct (shape2 result) as [h' w'] eqn:Sh.
  assert (Wr : wf h' w' result).
  { pose proof (wf_shape2_tab h w (reg_max_b image mask st)) as X. rewrite <- ER, Sh in X. exact X. }
  assert (Hh : h' = h /\ (h <> O -> w' = w)).
  { rewrite ER, shape2_tab in Sh. injection Sh as <- <-. split; [reflexivity|]. destruct h; [congruence|reflexivity]. }
  destruct (label_inst result) as [labels count] eqn:EL.
  pose proof (inst_labelling_ok h' w' result Wr Sh) as LO. rewrite EL in LO. cbn [fst snd] in LO.
  pose proof (inst_positions h' w' result Wr Sh) as IP. cbv zeta in IP. rewrite EL in IP. cbn [fst snd] in IP.
  destruct IP as [LP MP].
  apply (one_per_plateau label_inst ro_distance_inst maximum_position_inst image mask st result labels count
           ET EL LO LP).
  intros k Hk. destruct (MP k Hk) as (A & B & C). destruct Hh as [-> Hw].
  fold h w. destruct h as [|h0]; [lia|]. rewrite <- Hw by congruence. auto.
Qed.

(* and from the inputs alone: whenever the shifted slices are compatible *)
Corollary one_per_plateau_inst_total image mask (st : list (list bool)) :
  slices_okb image st = true ->
  exists result out,
    regional_maximum_ties image mask st = Some result /\
    regional_maximum label_inst ro_distance_inst maximum_position_inst image mask st false = Some out /\
    wf (length image) (length (hd [] image)) out /\
    one_per_component (get2 false result) (get2 false out).
Proof.
  intros K. pose proof (regional_maximum_ties_eq image mask st K) as ET.
  destruct (one_per_plateau_inst _ _ _ _ ET) as (out & A & B & C).
  eexists. exists out. split; [exact ET|]. split; [exact A|]. split; [exact B|exact C].
Qed.
