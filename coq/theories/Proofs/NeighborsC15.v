(* C15 — find_neighbors: the slice of v_neighbor that v_index / v_count assign to a label is the
   strictly increasing list of exactly the other non-background labels having an 8-adjacent
   pixel. *)
From Coq Require Import ZArith List Bool Lia ZifyBool Sorted Permutation RelationClasses.
From Centro Require Import Base.GraphC15 Model.LabelGraph Proofs.AccC15.
Import ListNotations.
Open Scope Z_scope.

(* ---------------------------------------------------------------- small list facts *)
Lemma zrange_in n : forall s v, In v (zrange s n) <-> s <= v < s + Z.of_nat n.
Proof. induction n as [|n IH]; intros s v; cbn [zrange In]; [lia|]. rewrite IH. lia. Qed.
Lemma zrange_length n : forall s, length (zrange s n) = n.
Proof. induction n; intros; cbn [zrange length]; auto. Qed.
Lemma nth_map_zrange {A} (f : Z -> A) d : forall n s w, (w < n)%nat ->
  nth w (map f (zrange s n)) d = f (s + Z.of_nat w).
Proof.
  induction n as [|n IH]; intros s w H; [lia|]. cbn [zrange map].
  destruct w as [|w]; cbn [nth]; [f_equal; lia|]. rewrite IH by lia. f_equal. lia.
Qed.
Lemma positions_in h w y x : In (y, x) (positions h w) <-> 0 <= y < Z.of_nat h /\ 0 <= x < Z.of_nat w.
Proof.
  unfold positions. rewrite in_flat_map. split.
  - intros [y' [Hy H]]. apply in_map_iff in H. destruct H as [x' [E Hx]]. inversion E; subst.
    apply zrange_in in Hy. apply zrange_in in Hx. lia.
  - intros [Hy Hx]. exists y. split; [apply zrange_in; lia|]. apply in_map_iff. exists x.
    split; [reflexivity|apply zrange_in; lia].
Qed.
Lemma fold_max_ge l d : forall v, In v l -> v <= fold_right Z.max d l.
Proof. induction l as [|a r IH]; intros v H; [destruct H|]. cbn [fold_right]. destruct H as [->|H]; [lia|]. specialize (IH v H). lia. Qed.
Lemma fold_min_le l d : forall v, In v l -> fold_right Z.min d l <= v.
Proof. induction l as [|a r IH]; intros v H; [destruct H|]. cbn [fold_right]. destruct H as [->|H]; [lia|]. specialize (IH v H). lia. Qed.
Lemma skipn_app_length {A} (a b : list A) : skipn (length a) (a ++ b) = b.
Proof. induction a; cbn [length skipn app]; auto. Qed.
Lemma firstn_app_length {A} (a b : list A) : firstn (length a) (a ++ b) = a.
Proof. induction a as [|x a IH]; cbn [length firstn app]; [destruct b; reflexivity|]. f_equal. exact IH. Qed.

(* ---------------------------------------------------------------- images *)
Definition rect (img : image) : Prop := Forall (fun r => length r = img_w img) img.

Lemma get2_inside (img : image) y x : rect img -> get2 img y x <> 0 ->
  0 <= y < Z.of_nat (img_h img) /\ 0 <= x < Z.of_nat (img_w img).
Proof.
  intros R. unfold get2, get2d, img_h.
  destruct (Z.ltb_spec y 0), (Z.ltb_spec x 0); cbn [orb]; try congruence.
  destruct (nth_error img (Z.to_nat y)) as [row|] eqn:Er; [|congruence].
  destruct (nth_error row (Z.to_nat x)) as [v|] eqn:Ev; [|congruence]. intros _.
  assert (Hy : (Z.to_nat y < length img)%nat) by (apply nth_error_Some; congruence).
  assert (Hx : (Z.to_nat x < length row)%nat) by (apply nth_error_Some; congruence).
  unfold rect in R. rewrite Forall_forall in R. rewrite (R row (nth_error_In _ _ Er)) in Hx. lia.
Qed.
Lemma get2_get2d (img : image) d y x : get2 img y x <> 0 -> get2d img d y x = get2 img y x.
Proof.
  unfold get2, get2d. destruct ((y <? 0) || (x <? 0)); [congruence|].
  destruct (nth_error img (Z.to_nat y)) as [row|]; [|congruence].
  destruct (nth_error row (Z.to_nat x)); [reflexivity|congruence].
Qed.
Lemma get2_le_max (img : image) y x : get2 img y x <= img_max img.
Proof.
  unfold img_max. assert (Z0 : 0 <= fold_right Z.max 0 (concat img)).
  { generalize (concat img). induction l; cbn [fold_right]; lia. }
  unfold get2, get2d. destruct ((y <? 0) || (x <? 0)); [exact Z0|].
  destruct (nth_error img (Z.to_nat y)) as [row|] eqn:Er; [|exact Z0].
  destruct (nth_error row (Z.to_nat x)) as [v|] eqn:Ev; [|exact Z0].
  apply fold_max_ge. apply in_concat. exists row. split; eapply nth_error_In; eauto.
Qed.

Lemma nth_error_repeat0 n k v : nth_error (repeat 0 n) k = Some v -> v = 0.
Proof. intros H. apply nth_error_In in H. apply repeat_spec in H. exact H. Qed.

(* the zero border: reading the padded array is reading the image one pixel up-left *)
Lemma pad_get (img : image) y x : get2 (pad img) y x = get2 img (y - 1) (x - 1).
Proof.
  unfold get2, get2d, pad.
  destruct (Z.ltb_spec y 0) as [Hy|Hy]; cbn [orb].
  { destruct (Z.ltb_spec (y - 1) 0); [reflexivity|lia]. }
  destruct (Z.ltb_spec x 0) as [Hx|Hx]; cbn [orb].
  { destruct (Z.ltb_spec (y - 1) 0); cbn [orb]; [reflexivity|]. destruct (Z.ltb_spec (x - 1) 0); [reflexivity|lia]. }
  destruct (Z.eq_dec y 0) as [->|Ny].
  { cbn [Z.to_nat nth_error Z.sub Z.ltb Z.compare Z.opp Z.add Z.pos_sub orb].
    destruct (nth_error (repeat 0 (img_w img + 2)) (Z.to_nat x)) eqn:E; [apply nth_error_repeat0 in E; exact E|reflexivity]. }
  destruct (Z.ltb_spec (y - 1) 0) as [H|_]; [lia|]. cbn [orb].
  replace (Z.to_nat y) with (S (Z.to_nat (y - 1))) by lia. cbn [nth_error].
  set (k := Z.to_nat (y - 1)).
  destruct (Nat.ltb_spec k (length img)) as [Lk|Lk].
  - rewrite nth_error_app1 by (rewrite map_length; exact Lk). rewrite nth_error_map.
    destruct (nth_error img k) as [row|] eqn:Er; [|apply nth_error_None in Er; lia]. cbn [option_map].
    destruct (Z.eq_dec x 0) as [->|Nx].
    { cbn [Z.to_nat nth_error]. destruct (Z.ltb_spec (0 - 1) 0); [reflexivity|lia]. }
    destruct (Z.ltb_spec (x - 1) 0) as [H|_]; [lia|].
    replace (Z.to_nat x) with (S (Z.to_nat (x - 1))) by lia. cbn [nth_error].
    set (c := Z.to_nat (x - 1)).
    destruct (Nat.ltb_spec c (length row)) as [Lc|Lc].
    + rewrite nth_error_app1 by exact Lc. reflexivity.
    + rewrite nth_error_app2 by exact Lc. assert (En : nth_error row c = None) by (apply nth_error_None; exact Lc).
      rewrite En. destruct (c - length row)%nat as [|q]; cbn [nth_error]; [reflexivity|]. destruct q; reflexivity.
  - rewrite nth_error_app2 by (rewrite map_length; exact Lk). rewrite map_length.
    assert (En : nth_error img k = None) by (apply nth_error_None; exact Lk).
    destruct (Z.ltb_spec (x - 1) 0); cbn [orb]; rewrite ?En.
    + destruct (k - length img)%nat as [|q]; cbn [nth_error].
      * destruct (nth_error (repeat 0 (img_w img + 2)) (Z.to_nat x)) eqn:E; [apply nth_error_repeat0 in E; exact E|reflexivity].
      * destruct q; reflexivity.
    + destruct (k - length img)%nat as [|q]; cbn [nth_error].
      * destruct (nth_error (repeat 0 (img_w img + 2)) (Z.to_nat x)) eqn:E; [apply nth_error_repeat0 in E; exact E|reflexivity].
      * destruct q; reflexivity.
Qed.
Lemma pad_h (img : image) : img_h (pad img) = S (S (img_h img)).
Proof. unfold img_h, pad. cbn [length]. rewrite app_length, map_length. cbn [length]. lia. Qed.
Lemma pad_w (img : image) : img_w (pad img) = S (S (img_w img)).
Proof. unfold img_w at 1, pad. cbn [hd]. rewrite repeat_length. lia. Qed.

(* ---------------------------------------------------------------- adjacency *)
Definition touching (img : image) (l m : Z) : Prop :=
  exists y x d, In d dirs8 /\ get2 img y x = l /\ get2 img (y + fst d) (x + snd d) = m.

Lemma dirs8_offs9 d : In d dirs8 -> In d offs9.
Proof. unfold dirs8, offs9. cbn [In]. intuition. Qed.
Lemma dirs8_neg d : In d dirs8 -> In (- fst d, - snd d) dirs8.
Proof. unfold dirs8. cbn [In]. intros H. repeat (destruct H as [<-|H]; [cbn; tauto|]). destruct H. Qed.
Lemma touching_sym img l m : touching img l m -> touching img m l.
Proof.
  intros [y [x [d [Hd [Hl Hm]]]]]. exists (y + fst d), (x + snd d), (- fst d, - snd d).
  split; [apply dirs8_neg; exact Hd|]. cbn [fst snd]. split; [exact Hm|].
  replace (y + fst d + - fst d) with y by lia. replace (x + snd d + - snd d) with x by lia. exact Hl.
Qed.

(* a foreground pixel with a differently labelled foreground 8-neighbour is in the mask *)
Lemma adjacent_at_true (P : image) high y x d : In d dirs8 ->
  0 < get2 P y x -> get2 P (y + fst d) (x + snd d) <> 0 -> get2 P (y + fst d) (x + snd d) <> get2 P y x ->
  adjacent_at P high y x = true.
Proof.
  intros Hd Hl Hm Hne. unfold adjacent_at. cbv zeta.
  set (l := get2 P y x) in *. set (m := get2 P (y + fst d) (x + snd d)) in *.
  assert (H0 : In (0, 0) offs9) by (unfold offs9; cbn [In]; tauto).
  pose proof (dirs8_offs9 d Hd) as H1.
  match goal with |- context [fold_right Z.min high ?a] => set (mnl := a) end.
  match goal with |- context [fold_right Z.max 0 ?a] => set (mxl := a) end.
  assert (A1 : fold_right Z.min high mnl <= l).
  { apply fold_min_le. unfold mnl. apply in_map_iff. exists (0, 0). split; [|exact H0].
    cbn [fst snd]. rewrite !Z.add_0_r. rewrite get2_get2d by (fold l; lia). fold l.
    destruct (Z.eqb_spec l 0); [lia|reflexivity]. }
  assert (A2 : fold_right Z.min high mnl <= m).
  { apply fold_min_le. unfold mnl. apply in_map_iff. exists d. split; [|exact H1].
    rewrite get2_get2d by (fold m; exact Hm). fold m.
    destruct (Z.eqb_spec m 0); [congruence|reflexivity]. }
  assert (B1 : l <= fold_right Z.max 0 mxl).
  { apply fold_max_ge. unfold mxl. apply in_map_iff. exists (0, 0). split; [|exact H0].
    cbn [fst snd]. rewrite !Z.add_0_r. reflexivity. }
  assert (B2 : m <= fold_right Z.max 0 mxl).
  { apply fold_max_ge. unfold mxl. apply in_map_iff. exists d. split; [reflexivity|exact H1]. }
  destruct (Z.ltb_spec 0 l); [|lia]. rewrite andb_true_r. apply negb_true_iff. apply Z.eqb_neq. lia.
Qed.

(* ---------------------------------------------------------------- sorted pairs, first occurrence *)
Definition ple (p q : Z * Z) : Prop := fst p < fst q \/ (fst p = fst q /\ snd p <= snd q).
Definition plt (p q : Z * Z) : Prop := fst p < fst q \/ (fst p = fst q /\ snd p < snd q).

Lemma zpair_leb_ple p q : ZPairOrder.leb p q = true -> ple p q.
Proof. unfold ZPairOrder.leb, ple. lia. Qed.
Lemma zpair_leb_trans : Transitive (fun p q => is_true (ZPairOrder.leb p q)).
Proof. intros [a1 a2] [b1 b2] [c1 c2]. unfold is_true, ZPairOrder.leb. cbn [fst snd]. lia. Qed.

Lemma first_occ_subset l : forall prev p, In p (first_occ prev l) -> In p l.
Proof.
  induction l as [|a r IH]; intros prev p H; cbn [first_occ] in H; [exact H|].
  destruct (match prev with None => true | Some q => negb (fst a =? fst q) || negb (snd a =? snd q) end).
  - destruct H as [->|H]; [left; auto|right; eapply IH; eauto].
  - right. eapply IH; eauto.
Qed.
Lemma first_occ_keeps l : forall prev p, In p l -> prev = Some p \/ In p (first_occ prev l).
Proof.
  induction l as [|a r IH]; intros prev p H; [destruct H|]. cbn [first_occ].
  assert (Ha : prev = Some a \/ In a (first_occ prev (a :: r))).
  { cbn [first_occ]. destruct prev as [q|]; [|right; left; reflexivity].
    destruct (Z.eqb_spec (fst a) (fst q)), (Z.eqb_spec (snd a) (snd q)); cbn [negb orb]; try (right; left; reflexivity).
    left. f_equal. destruct a, q; cbn [fst snd] in *; congruence. }
  cbn [first_occ] in Ha.
  destruct H as [->|H]; [exact Ha|].
  destruct (IH (Some a) p H) as [E|Hin].
  - inversion E; subst. exact Ha.
  - right. destruct (match prev with None => true | Some q => negb (fst a =? fst q) || negb (snd a =? snd q) end);
      [right; exact Hin|exact Hin].
Qed.
Lemma first_occ_in l p : In p (first_occ None l) <-> In p l.
Proof.
  split; [apply first_occ_subset|]. intros H. destruct (first_occ_keeps l None p H) as [E|E]; [discriminate|exact E].
Qed.

Lemma ple_plt_trans q a x : ple q a -> plt a x -> plt q x.
Proof. unfold ple, plt. lia. Qed.
Lemma first_occ_sorted l : forall q, StronglySorted ple l -> Forall (ple q) l ->
  StronglySorted plt (first_occ (Some q) l) /\ Forall (plt q) (first_occ (Some q) l).
Proof.
  induction l as [|a r IH]; intros q SS Fq; cbn [first_occ]; [split; constructor|].
  apply StronglySorted_inv in SS. destruct SS as [SSr Fa].
  inversion Fq as [|? ? Qa Qr]; subst.
  destruct (IH a SSr Fa) as [S1 F1].
  destruct (Z.eqb_spec (fst a) (fst q)) as [E1|N1], (Z.eqb_spec (snd a) (snd q)) as [E2|N2]; cbn [negb orb].
  - assert (a = q) by (destruct a, q; cbn [fst snd] in *; congruence). subst a. split; assumption.
  - split; [constructor; assumption|]. constructor; [unfold ple, plt in *; lia|].
    rewrite Forall_forall in *. intros x Hx. eapply ple_plt_trans; [exact Qa|auto].
  - split; [constructor; assumption|]. constructor; [unfold ple, plt in *; lia|].
    rewrite Forall_forall in *. intros x Hx. eapply ple_plt_trans; [exact Qa|auto].
  - split; [constructor; assumption|]. constructor; [unfold ple, plt in *; lia|].
    rewrite Forall_forall in *. intros x Hx. eapply ple_plt_trans; [exact Qa|auto].
Qed.
Lemma first_occ_none_sorted l : StronglySorted ple l -> StronglySorted plt (first_occ None l).
Proof.
  intros SS. destruct l as [|a r]; cbn [first_occ]; [constructor|].
  apply StronglySorted_inv in SS. destruct SS as [SSr Fa]. destruct (first_occ_sorted r a SSr Fa). constructor; assumption.
Qed.
Lemma ss_filter {A} (R : A -> A -> Prop) (f : A -> bool) l : StronglySorted R l -> StronglySorted R (filter f l).
Proof.
  induction 1 as [|a r SS IH Fa]; cbn [filter]; [constructor|].
  destruct (f a); [|exact IH]. constructor; [exact IH|].
  rewrite Forall_forall in *. intros x Hx. apply filter_In in Hx. apply Fa. tauto.
Qed.

(* ---------------------------------------------------------------- blocks of a list sorted by label *)
Definition zcnteq (l : list Z) (u : Z) : nat := length (filter (fun x => x =? u) l).
Definition zcntlt (l : list Z) (u : Z) : nat := length (filter (fun x => x <? u) l).
Lemma zcntlt_succ l u : zcntlt l (u + 1) = (zcntlt l u + zcnteq l u)%nat.
Proof.
  unfold zcntlt, zcnteq. induction l as [|x r IH]; cbn [filter length]; [reflexivity|].
  destruct (Z.ltb_spec x (u + 1)), (Z.ltb_spec x u), (Z.eqb_spec x u); cbn [length]; lia.
Qed.
Lemma zcntlt_zero l u : (forall x, In x l -> u <= x) -> zcntlt l u = 0%nat.
Proof.
  unfold zcntlt. induction l as [|x r IH]; intros H; cbn [filter length]; [reflexivity|].
  pose proof (H x (or_introl eq_refl)). destruct (Z.ltb_spec x u); [lia|]. apply IH. intros; apply H; right; auto.
Qed.
Lemma zexcl_cumsum_nth l : forall cs s base,
  (forall w, (w < length cs)%nat -> nth w cs 0 = Z.of_nat (zcnteq l (base + Z.of_nat w))) ->
  s = Z.of_nat (zcntlt l base) ->
  forall k, (k < length cs)%nat -> nth k (excl_cumsum s cs) 0 = Z.of_nat (zcntlt l (base + Z.of_nat k)).
Proof.
  induction cs as [|c cs IH]; intros s base Hn Hs k Hk; cbn [length] in Hk; [lia|].
  cbn [excl_cumsum]. destruct k as [|k]; cbn [nth].
  - rewrite Z.add_0_r. exact Hs.
  - replace (base + Z.of_nat (S k)) with ((base + 1) + Z.of_nat k) by lia. apply IH.
    + intros w Hw. specialize (Hn (S w) ltac:(cbn [length]; lia)). cbn [nth] in Hn. rewrite Hn. f_equal. f_equal. lia.
    + specialize (Hn 0%nat ltac:(cbn [length]; lia)). cbn [nth] in Hn. rewrite Z.add_0_r in Hn.
      rewrite Hn, Hs, zcntlt_succ. lia.
    + lia.
Qed.
Lemma zexcl_cumsum_length cs : forall s, length (excl_cumsum s cs) = length cs.
Proof. induction cs; intros; cbn [excl_cumsum length]; auto. Qed.

Lemma zsorted_split_lt (l : list (Z * Z)) u : StronglySorted (fun p q => fst p <= fst q) l ->
  l = filter (fun p => fst p <? u) l ++ filter (fun p => negb (fst p <? u)) l.
Proof.
  induction 1 as [|a r SS IH Fa]; [reflexivity|]. rewrite Forall_forall in Fa. cbn [filter].
  destruct (Z.ltb_spec (fst a) u) as [L|L]; cbn [negb app].
  - f_equal. exact IH.
  - rewrite (filter_none (fun p => fst p <? u) r), (filter_all (fun p => negb (fst p <? u)) r); [reflexivity| |].
    + intros x Hx. specialize (Fa x Hx). destruct (Z.ltb_spec (fst x) u); [lia|reflexivity].
    + intros x Hx. specialize (Fa x Hx). destruct (Z.ltb_spec (fst x) u); [lia|reflexivity].
Qed.
Lemma zfilter_filter_eq (l : list (Z * Z)) u :
  length (filter (fun p => fst p <? u + 1) (filter (fun p => negb (fst p <? u)) l)) =
  length (filter (fun p => fst p =? u) l).
Proof.
  induction l as [|a r IH]; cbn [filter]; [reflexivity|].
  destruct (Z.ltb_spec (fst a) u), (Z.eqb_spec (fst a) u); cbn [negb filter length]; try lia.
  - destruct (Z.ltb_spec (fst a) (u + 1)); [cbn [length]; lia|lia].
  - destruct (Z.ltb_spec (fst a) (u + 1)); [lia|exact IH].
Qed.
Lemma zlength_filter_fst (f : Z -> bool) (l : list (Z * Z)) :
  length (filter (fun p => f (fst p)) l) = length (filter f (map fst l)).
Proof. induction l as [|a r IH]; cbn [filter map length]; [reflexivity|]. destruct (f (fst a)); cbn [length]; lia. Qed.

Section ZBlocks.
Variable e : list (Z * Z).
Hypothesis e_sorted : StronglySorted (fun p q => fst p <= fst q) e.
Definition zblockA (u : Z) := filter (fun p => fst p <? u) e.
Definition zblockB (u : Z) := filter (fun p => fst p <? u + 1) (filter (fun p => negb (fst p <? u)) e).
Definition zblockC (u : Z) := filter (fun p => negb (fst p <? u + 1)) (filter (fun p => negb (fst p <? u)) e).
Lemma zblocks_split u : e = zblockA u ++ zblockB u ++ zblockC u.
Proof.
  unfold zblockA, zblockB, zblockC. rewrite <- zsorted_split_lt; [apply zsorted_split_lt; exact e_sorted|].
  apply ss_filter. exact e_sorted.
Qed.
Lemma zblockB_in u p : In p (zblockB u) <-> In p e /\ fst p = u.
Proof.
  unfold zblockB. rewrite !filter_In.
  destruct (Z.ltb_spec (fst p) (u + 1)), (Z.ltb_spec (fst p) u); cbn [negb]; intuition (try lia; try discriminate).
Qed.
Lemma zblockA_length u : length (zblockA u) = zcntlt (map fst e) u.
Proof. unfold zblockA, zcntlt. apply (zlength_filter_fst (fun x => x <? u)). Qed.
Lemma zblockB_length u : length (zblockB u) = zcnteq (map fst e) u.
Proof. unfold zblockB, zcnteq. rewrite <- (zlength_filter_fst (fun x => x =? u)). apply zfilter_filter_eq. Qed.
(* the slice [index, index+count) of the second components is the block of u *)
Lemma zblock_slice u :
  slice (Z.of_nat (zcntlt (map fst e) u)) (Z.of_nat (zcnteq (map fst e) u)) (map snd e) = map snd (zblockB u).
Proof.
  unfold slice. rewrite !Nat2Z.id. rewrite <- zblockA_length, <- zblockB_length.
  replace (map snd e) with (map snd (zblockA u) ++ map snd (zblockB u) ++ map snd (zblockC u))
    by (rewrite <- !map_app, <- zblocks_split; reflexivity).
  rewrite <- (map_length snd (zblockA u)), skipn_app_length.
  rewrite <- (map_length snd (zblockB u)), firstn_app_length. reflexivity.
Qed.
End ZBlocks.

(* ---------------------------------------------------------------- the theorem *)
Definition neighbors_of (img : image) (l : Z) : list Z :=
  let r := find_neighbors img in
  slice (nth (Z.to_nat (l - 1)) (snd (fst r)) 0) (nth (Z.to_nat (l - 1)) (fst (fst r)) 0) (snd r).

Lemma neighbor_pairs_in (img : image) l m : rect img -> 0 < l ->
  (In (l, m) (neighbor_pairs img) <-> m <> 0 /\ m <> l /\ touching img l m).
Proof.
  intros R Hl. unfold neighbor_pairs.
  set (P := pad img). set (high := img_max P + 1).
  rewrite filter_In. rewrite first_occ_in.
  assert (PERM : forall p l0, In p (ZPairSort.sort l0) <-> In p l0).
  { intros p l0. split; intros H.
    - eapply Permutation_in; [apply Permutation_sym; apply ZPairSort.Permuted_sort|exact H].
    - eapply Permutation_in; [apply ZPairSort.Permuted_sort|exact H]. }
  rewrite PERM. rewrite in_flat_map. cbn [fst snd]. split.
  - intros [[d [Hd Hin]] Hf]. apply in_map_iff in Hin. destruct Hin as [[y x] [E Hp]]. cbn [fst snd] in E.
    inversion E as [[E1 E2]]. apply filter_In in Hp. destruct Hp as [_ _].
    split; [lia|]. split; [lia|]. exists (y - 1), (x - 1), d. split; [exact Hd|].
    unfold P in *. rewrite !pad_get in *. split; [reflexivity|].
    replace (y - 1 + fst d) with (y + fst d - 1) by lia. replace (x - 1 + snd d) with (x + snd d - 1) by lia. reflexivity.
  - intros [Hm [Hne [y [x [d [Hd [E1 E2]]]]]]]. split; [|lia].
    exists d. split; [exact Hd|]. apply in_map_iff. exists (y + 1, x + 1). cbn [fst snd].
    assert (G1 : get2 P (y + 1) (x + 1) = l) by (unfold P; rewrite pad_get; replace (y + 1 - 1) with y by lia; replace (x + 1 - 1) with x by lia; exact E1).
    assert (G2 : get2 P (y + 1 + fst d) (x + 1 + snd d) = m).
    { unfold P. rewrite pad_get. replace (y + 1 + fst d - 1) with (y + fst d) by lia.
      replace (x + 1 + snd d - 1) with (x + snd d) by lia. exact E2. }
    split; [rewrite G1, G2; reflexivity|]. apply filter_In. split.
    + apply positions_in. unfold P. rewrite pad_h, pad_w.
      destruct (get2_inside img y x R ltac:(lia)) as [Hy Hx]. lia.
    + cbn [fst snd]. apply (adjacent_at_true P high (y + 1) (x + 1) d Hd); rewrite ?G1, ?G2; lia.
Qed.

Lemma neighbor_pairs_sorted (img : image) : StronglySorted plt (neighbor_pairs img).
Proof.
  unfold neighbor_pairs. apply ss_filter. apply first_occ_none_sorted.
  eapply ss_impl; [|apply ZPairSort.StronglySorted_sort; exact zpair_leb_trans].
  intros a b H. apply zpair_leb_ple. exact H.
Qed.
Lemma neighbor_pairs_fst_pos (img : image) p : In p (neighbor_pairs img) -> 0 < fst p.
Proof.
  unfold neighbor_pairs. intros H. apply filter_In in H. destruct H as [H _]. rewrite first_occ_in in H.
  eapply Permutation_in in H; [|apply Permutation_sym; apply ZPairSort.Permuted_sort].
  apply in_flat_map in H. destruct H as [d [_ H]]. apply in_map_iff in H. destruct H as [[y x] [E Hp]].
  subst p. cbn [fst snd] in *. apply filter_In in Hp. destruct Hp as [_ Hp]. cbn [fst snd] in Hp.
  unfold adjacent_at in Hp. apply andb_true_iff in Hp. destruct Hp as [_ Hp]. lia.
Qed.

(* find_neighbors: for every label 1..max the slice given by v_index / v_count is the strictly
   increasing list of exactly the labels m (not background, not l) with a pixel 8-adjacent to a
   pixel of l *)
Theorem find_neighbors_spec (img : image) : rect img ->
  length (fst (fst (find_neighbors img))) = Z.to_nat (img_max img) /\
  length (snd (fst (find_neighbors img))) = Z.to_nat (img_max img) /\
  forall l, 1 <= l <= img_max img ->
    StronglySorted Z.lt (neighbors_of img l) /\
    forall m, In m (neighbors_of img l) <-> m <> 0 /\ m <> l /\ touching img l m.
Proof.
  intros R. unfold neighbors_of, find_neighbors. cbn [fst snd].
  set (pairs := neighbor_pairs img). set (mx := Z.to_nat (img_max img)).
  set (firsts := map fst pairs).
  set (v_count := map (fun l => count_label l firsts) (zrange 1 mx)).
  assert (LC : length v_count = mx) by (unfold v_count; rewrite map_length, zrange_length; reflexivity).
  split; [exact LC|]. split; [rewrite zexcl_cumsum_length; exact LC|].
  intros l Hl.
  pose proof (neighbor_pairs_sorted img) as SP. fold pairs in SP.
  assert (SF : StronglySorted (fun p q => fst p <= fst q) pairs).
  { eapply ss_impl; [|exact SP]. intros a b H. unfold plt in H. lia. }
  assert (K : (Z.to_nat (l - 1) < mx)%nat) by (unfold mx; lia).
  assert (CNT : nth (Z.to_nat (l - 1)) v_count 0 = Z.of_nat (zcnteq firsts l)).
  { unfold v_count. rewrite nth_map_zrange by exact K. unfold count_label, zcnteq. f_equal. f_equal.
    assert (E : 1 + Z.of_nat (Z.to_nat (l - 1)) = l) by lia. rewrite E. reflexivity. }
  assert (IDX : nth (Z.to_nat (l - 1)) (excl_cumsum 0 v_count) 0 = Z.of_nat (zcntlt firsts l)).
  { rewrite (zexcl_cumsum_nth firsts v_count 0 1).
    - f_equal. f_equal. lia.
    - intros w Hw. rewrite LC in Hw. unfold v_count. rewrite nth_map_zrange by exact Hw. reflexivity.
    - rewrite zcntlt_zero; [reflexivity|]. intros x Hx. unfold firsts in Hx. apply in_map_iff in Hx.
      destruct Hx as [p [<- Hp]]. pose proof (neighbor_pairs_fst_pos img p Hp). lia.
    - rewrite LC. exact K. }
  rewrite CNT, IDX. unfold firsts. rewrite (zblock_slice pairs SF l).
  split.
  - (* strictly increasing *)
    assert (SB : StronglySorted plt (zblockB pairs l)) by (unfold zblockB; apply ss_filter; apply ss_filter; exact SP).
    assert (FB : forall p, In p (zblockB pairs l) -> fst p = l) by (intros p Hp; apply zblockB_in in Hp; tauto).
    induction SB as [|a r SS IH Fa]; cbn [map]; [constructor|].
    constructor; [apply IH; intros p Hp; apply FB; right; exact Hp|].
    rewrite Forall_forall in *. intros x Hx. apply in_map_iff in Hx. destruct Hx as [p [<- Hp]].
    specialize (Fa p Hp). pose proof (FB a (or_introl eq_refl)). pose proof (FB p (or_intror Hp)). unfold plt in Fa. lia.
  - intros m. rewrite in_map_iff. split.
    + intros [[a b] [E Hp]]. cbn [snd] in E. subst b. apply zblockB_in in Hp. cbn [fst] in Hp. destruct Hp as [Hp ->].
      apply (neighbor_pairs_in img l m R); [lia|exact Hp].
    + intros H. exists (l, m). split; [reflexivity|]. apply zblockB_in. split; [|reflexivity].
      apply (neighbor_pairs_in img l m R); [lia|exact H].
Qed.

(* neighbourhood is symmetric: m is listed for l exactly when l is listed for m *)
Theorem find_neighbors_symmetric (img : image) : rect img ->
  forall l m, 1 <= l <= img_max img -> 1 <= m <= img_max img ->
  (In m (neighbors_of img l) <-> In l (neighbors_of img m)).
Proof.
  intros R l m Hl Hm. destruct (find_neighbors_spec img R) as [_ [_ S]].
  rewrite (proj2 (S l Hl) m), (proj2 (S m Hm) l). split; intros [A [B C]]; (split; [lia|split; [lia|apply touching_sym; exact C]]).
Qed.

Example find_neighbors_example : find_neighbors [[1; 1; 0]; [0; 2; 0]; [3; 0; 0]] = ([1; 2; 1], [0; 1; 3], [2; 1; 3; 2]).
Proof. vm_compute. reflexivity. Qed.
Example rect_example : rect [[1; 1; 0]; [0; 2; 0]; [3; 0; 0]].
Proof. unfold rect. repeat constructor. Qed.
